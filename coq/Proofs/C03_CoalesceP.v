(* C03 — BatchCoalescer: row conservation, buffer invariant, batch sizes, for all histories. *)
From Coq Require Import List Arith ZArith Bool Lia.
From AV Require Import Base.ListX Model.C03_Select Model.C03_Coalesce Proofs.C03_Filter.
From AV Require Model.C19_Bits.
Import ListNotations.

Section P.
Context {A : Type}.
Notation rows := (list (option A)).
Notation st := (cst A).

Definition Inv (t : nat) (s : st) : Prop := length (buf s) < t.

(* ------------------------------------------------------------------ finish / pop *)
Lemma all_rows_finish (s : st) : all_rows (finish s) = all_rows s.
Proof.
  unfold finish, all_rows. destruct (buf s) eqn:E; [now rewrite E|].
  cbn [buf done out]. rewrite concat_app. cbn [concat]. now rewrite ?app_nil_r, <- ?app_assoc.
Qed.
Lemma inv_finish t (s : st) : 0 < t -> Inv t (finish s).
Proof. intros Ht. unfold finish, Inv. destruct (buf s) eqn:E; cbn [buf]; [rewrite E|]; cbn; lia. Qed.

Lemma all_rows_pop (s : st) : all_rows (pop s) = all_rows s.
Proof.
  unfold pop, all_rows. destruct (done s) as [|b d] eqn:E; [now rewrite E|].
  cbn [buf done out]. rewrite concat_app. cbn [concat]. now rewrite ?app_nil_r, <- ?app_assoc.
Qed.
Lemma inv_pop t (s : st) : Inv t s -> Inv t (pop s).
Proof. unfold pop, Inv. destruct (done s); auto. Qed.
Lemma batches_pop (s : st) : batches (pop s) = batches s.
Proof. unfold pop, batches. destruct (done s) as [|b d] eqn:E; [now rewrite E|]. cbn. now rewrite <- app_assoc. Qed.

(* ------------------------------------------------------------------ the split loop *)
Lemma fill_spec t (Ht : 0 < t) fuel : forall (s : st) r, length r < fuel -> Inv t s ->
  all_rows (fill fuel t s r) = all_rows s ++ r /\ Inv t (fill fuel t s r).
Proof.
  induction fuel as [|fuel IH]; intros s r Hf Hi; [lia|].
  cbn [fill]. unfold Inv in Hi.
  destruct (Nat.ltb_spec (t - length (buf s)) (length r)) as [Hlt|Hge].
  - set (room := t - length (buf s)) in *.
    assert (Hroom : 0 < room) by (unfold room; lia).
    destruct (IH (finish {| buf := buf s ++ firstn room r; done := done s; out := out s |}) (skipn room r)) as [R I].
    + rewrite skipn_length. lia.
    + now apply inv_finish.
    + split; [|exact I]. rewrite R, all_rows_finish. unfold all_rows; cbn [buf done out].
      rewrite <- !app_assoc. now rewrite firstn_skipn.
  - cbn [buf]. destruct (Nat.leb_spec t (length (buf s ++ r))) as [Hfull|Hnot].
    + split; [|now apply inv_finish]. rewrite all_rows_finish. unfold all_rows; cbn [buf done out].
      now rewrite <- !app_assoc.
    + split; [unfold all_rows; cbn [buf done out]; now rewrite <- !app_assoc|]. unfold Inv; cbn [buf]. exact Hnot.
Qed.

Lemma push_spec (c : cfg) (s : st) r : 0 < target c -> Inv (target c) s ->
  all_rows (push c s r) = all_rows s ++ r /\ Inv (target c) (push c s r).
Proof.
  intros Ht Hi. unfold push. destruct r as [|x r]; [rewrite app_nil_r; auto|].
  set (R := x :: r).
  assert (N : all_rows (fill (S (length R)) (target c) s R) = all_rows s ++ R
              /\ Inv (target c) (fill (S (length R)) (target c) s R))
    by (apply fill_spec; [exact Ht|lia|exact Hi]).
  destruct (limit c) as [l|]; [|exact N].
  destruct (l <? length R); [|exact N].
  destruct (buf s) eqn:Eb.
  - split; [|unfold Inv; cbn [buf]; cbn; lia].
    unfold all_rows; cbn [buf done out]. rewrite Eb, concat_app. cbn [concat]. now rewrite !app_nil_r, <- !app_assoc.
  - destruct (l <? length (o :: l0)); [|exact N].
    split; [|unfold Inv; cbn [buf]; cbn; lia].
    set (s1 := finish s).
    assert (Eb1 : buf s1 = []) by (unfold s1, finish; rewrite Eb; reflexivity).
    assert (F : all_rows s1 = all_rows s) by apply all_rows_finish.
    rewrite <- F. unfold all_rows. cbn [buf done out]. rewrite Eb1, concat_app. cbn [concat].
    now rewrite ?app_nil_r, <- ?app_assoc.
Qed.

(* ------------------------------------------------------------------ filter / indices pushes are pushes *)
Lemma filtered_length (r : rows) (m : pcol bool) : wf_col m -> length (fst m) <= length r ->
  length (filter_spec r (logical_mask m)) = count_true (prep_mask m).
Proof.
  intros Hm Hl. rewrite filter_spec_bfilter, map_sel_logical by exact Hm.
  apply bfilter_length_count. now rewrite prep_mask_length.
Qed.

Lemma push_nil c (s : st) : push c s [] = s.
Proof. reflexivity. Qed.

Lemma push_filter_is_push (c : cfg) (s : st) r m : wf_col m ->
  push_filter c s r m = push c s (selected_rows (PushFilter r m)).
Proof.
  intros Hm. unfold push_filter. cbn [selected_rows].
  destruct (Nat.ltb_spec (length r) (length (fst m))) as [Hlong|Hle]; [reflexivity|].
  pose proof (filtered_length r m Hm Hle) as HL.
  pose proof (prep_mask_length m Hm) as HP.
  set (filtered := filter_spec r (logical_mask m)) in *.
  set (selected := count_true (prep_mask m)) in *.
  destruct (Nat.eqb_spec selected 0) as [E0|N0].
  - destruct filtered; [reflexivity|cbn in HL; lia].
  - destruct ((selected =? length r) && (length (fst m) =? length r)) eqn:Eall.
    + apply andb_prop in Eall. destruct Eall as [E1 E2]. apply Nat.eqb_eq in E1, E2.
      f_equal. unfold filtered. rewrite filter_spec_bfilter, map_sel_logical by exact Hm.
      rewrite count_true_full_bfilter by (fold selected; lia).
      rewrite HP, E2. symmetry. apply firstn_all.
    + destruct ((match limit c with Some l => l <? selected | None => false end)
                || nonspec c || (target c - length (buf s) <? selected)
                || negb (sparse_ok (length (fst m)) selected)) eqn:Emat; [reflexivity|].
      apply orb_false_elim in Emat. destruct Emat as [Emat _].
      apply orb_false_elim in Emat. destruct Emat as [Emat Efit].
      apply orb_false_elim in Emat. destruct Emat as [Elim _].
      apply Nat.ltb_ge in Efit.
      unfold push. destruct filtered as [|x fr] eqn:Ef; [cbn in HL; lia|]. rewrite <- Ef in *.
      assert (Enormal : fill (S (length filtered)) (target c) s filtered =
                        (let s' := {| buf := buf s ++ filtered; done := done s; out := out s |} in
                         if target c <=? length (buf s') then finish s' else s')).
      { cbn [fill]. replace (target c - length (buf s) <? length filtered) with false; [reflexivity|].
        symmetry. apply Nat.ltb_ge. lia. }
      rewrite Enormal. destruct (limit c) as [l|]; [|reflexivity].
      replace (l <? length filtered) with false; [reflexivity|]. rewrite HL. now rewrite Elim.
Qed.

Lemma push_idx_is_push (c : cfg) (s : st) r idx : push_idx c s r idx = push c s (selected_rows (PushIdx r idx)).
Proof. unfold push_idx. cbn [selected_rows]. destruct (take_spec r (logical_idx idx)); reflexivity. Qed.

Definition wf_op (o : cop A) : Prop := match o with PushFilter _ m => wf_col m | _ => True end.

Lemma cstep_push c (s : st) o : wf_op o -> is_finish o = false -> o <> Pop ->
  cstep c s o = push c s (selected_rows o).
Proof.
  destruct o; cbn; intros Hw Hf Hp; try reflexivity; try discriminate; try congruence.
  - now apply push_filter_is_push.
  - apply push_idx_is_push.
Qed.

(* ------------------------------------------------------------------ every history *)
Lemma cstep_spec c (s : st) o : 0 < target c -> wf_op o -> Inv (target c) s ->
  all_rows (cstep c s o) = all_rows s ++ selected_rows o /\ Inv (target c) (cstep c s o).
Proof.
  intros Ht Hw Hi. destruct o.
  - cbn [cstep selected_rows]. now apply push_spec.
  - cbn [cstep]. rewrite push_filter_is_push by exact Hw. now apply push_spec.
  - cbn [cstep]. rewrite push_idx_is_push. now apply push_spec.
  - cbn [cstep selected_rows]. rewrite app_nil_r, all_rows_finish. split; [reflexivity|now apply inv_finish].
  - cbn [cstep selected_rows]. rewrite app_nil_r, all_rows_pop. split; [reflexivity|now apply inv_pop].
Qed.

Lemma crun_spec_from c ops : 0 < target c -> Forall wf_op ops -> forall s : st, Inv (target c) s ->
  all_rows (fold_left (cstep c) ops s) = all_rows s ++ rows_out ops /\ Inv (target c) (fold_left (cstep c) ops s).
Proof.
  intros Ht Hw. induction Hw as [|o ops Ho Hops IH]; intros s Hi; cbn [fold_left rows_out flat_map].
  - rewrite app_nil_r. auto.
  - destruct (cstep_spec c s o Ht Ho Hi) as [R I]. destruct (IH _ I) as [R' I'].
    split; [|exact I']. rewrite R', R. unfold rows_out. now rewrite <- app_assoc.
Qed.

Lemma crun_spec c ops : 0 < target c -> Forall wf_op ops ->
  all_rows (crun c ops) = rows_out ops /\ Inv (target c) (crun c ops).
Proof.
  intros Ht Hw. destruct (crun_spec_from c ops Ht Hw cinit) as [R I]; [unfold Inv; cbn; lia|].
  split; [|exact I]. exact R.
Qed.

(* ------------------------------------------------------------------ no bypass limit: M = naive S *)
Lemma chunks_spec t (Ht : 0 < t) fuel : forall l : rows, length l <= fuel ->
  let '(full, rem) := chunks fuel t l in
  concat full ++ rem = l /\ Forall (fun b => length b = t) full /\ length rem < t.
Proof.
  induction fuel as [|fuel IH]; intros l Hl.
  - destruct l; [|cbn in Hl; lia]. cbn. repeat split; [constructor|lia].
  - cbn [chunks]. destruct (Nat.ltb_spec (length l) t) as [Hlt|Hge].
    + repeat split; [constructor|exact Hlt].
    + specialize (IH (skipn t l)). rewrite skipn_length in IH.
      destruct (chunks fuel t (skipn t l)) as [full rem]. destruct IH as (E & F & R); [lia|].
      repeat split; [|constructor; [rewrite firstn_length; lia|exact F]|exact R].
      cbn [concat]. rewrite <- app_assoc, E. apply firstn_skipn.
Qed.

Lemma chunks_fuel t (Ht : 0 < t) : forall fuel1 fuel2 (l : rows), length l <= fuel1 -> length l <= fuel2 ->
  chunks fuel1 t l = chunks fuel2 t l.
Proof.
  induction fuel1 as [|f1 IH]; intros fuel2 l H1 H2.
  - destruct l; [|cbn in H1; lia]. destruct fuel2; cbn; [reflexivity|].
    destruct t; [lia|reflexivity].
  - destruct fuel2 as [|f2].
    + destruct l; [|cbn in H2; lia]. cbn.
      destruct t; [lia|reflexivity].
    + cbn [chunks]. destruct (length l <? t) eqn:E; [reflexivity|].
      apply Nat.ltb_ge in E. rewrite (IH f2) by (rewrite skipn_length; lia). reflexivity.
Qed.

Lemma chunks_exact t (Ht : 0 < t) (l : rows) : length l = t -> chunks (length l) t l = ([l], []).
Proof.
  intros El. rewrite El. destruct t as [|t']; [lia|]. cbn [chunks]. rewrite El, Nat.ltb_irrefl.
  rewrite (firstn_all2 l), (skipn_all2 l) by lia.
  destruct t'; reflexivity.
Qed.

Lemma fill_chunks t (Ht : 0 < t) fuel : forall (s : st) r, length r < fuel -> Inv t s ->
  fill fuel t s r =
  let '(full, rem) := chunks (length (buf s ++ r)) t (buf s ++ r) in
  {| buf := rem; done := done s ++ full; out := out s |}.
Proof.
  induction fuel as [|fuel IH]; intros s r Hf Hi; [lia|].
  cbn [fill]. unfold Inv in Hi.
  destruct (Nat.ltb_spec (t - length (buf s)) (length r)) as [Hlt|Hge].
  - set (room := t - length (buf s)) in *.
    assert (Hlen : length (buf s ++ firstn room r) = t) by (rewrite app_length, firstn_length; unfold room in *; lia).
    assert (Efin : finish {| buf := buf s ++ firstn room r; done := done s; out := out s |}
                   = {| buf := []; done := done s ++ [buf s ++ firstn room r]; out := out s |}).
    { unfold finish; cbn [buf done out]. destruct (buf s ++ firstn room r) eqn:E; [cbn in Hlen; lia|reflexivity]. }
    rewrite Efin. rewrite IH by (try (rewrite skipn_length; lia); unfold Inv; cbn; lia).
    cbn [buf done out app].
    assert (Hall : t <= length (buf s ++ r)) by (rewrite app_length; unfold room in *; lia).
    destruct (length (buf s ++ r)) as [|n] eqn:En; [lia|]. cbn [chunks]. rewrite En.
    replace (S n <? t) with false by (symmetry; apply Nat.ltb_ge; lia).
    assert (E1 : firstn t (buf s ++ r) = buf s ++ firstn room r).
    { rewrite firstn_app. fold room. rewrite firstn_all2 by lia. reflexivity. }
    assert (E2 : skipn t (buf s ++ r) = skipn room r).
    { rewrite skipn_app. fold room. rewrite skipn_all2 by lia. reflexivity. }
    rewrite E1, E2.
    rewrite (chunks_fuel t Ht n (length (skipn room r))) by (rewrite skipn_length; rewrite app_length in En; unfold room in *; lia).
    destruct (chunks (length (skipn room r)) t (skipn room r)) as [full rem].
    now rewrite <- app_assoc.
  - cbn [buf]. set (l := buf s ++ r).
    assert (Hl : length l <= t) by (unfold l; rewrite app_length; lia).
    destruct (Nat.leb_spec t (length l)) as [Hfull|Hnot].
    + assert (El : length l = t) by lia.
      rewrite (chunks_exact t Ht l El).
      unfold finish; cbn [buf done out]. destruct l as [|x l']; [cbn in El; lia|reflexivity].
    + destruct (length l) as [|n] eqn:En.
      * destruct l; [|cbn in En; lia]. cbn. now rewrite app_nil_r.
      * cbn [chunks]. rewrite En. replace (S n <? t) with true by (symmetry; apply Nat.ltb_lt; lia).
        now rewrite app_nil_r.
Qed.

Lemma push_is_spush (c : cfg) (s : st) r : 0 < target c -> limit c = None -> Inv (target c) s ->
  push c s r = spush (target c) s r.
Proof.
  intros Ht Hl Hi. unfold push, spush. destruct r as [|x r].
  - rewrite app_nil_r. unfold Inv in Hi.
    destruct (length (buf s)) as [|n] eqn:En.
    + destruct (buf s) eqn:Eb; [|cbn in En; lia]. cbn. rewrite app_nil_r. destruct s; cbn in *; now subst.
    + cbn [chunks]. rewrite En. replace (S n <? target c) with true by (symmetry; apply Nat.ltb_lt; lia).
      rewrite app_nil_r. destruct s; reflexivity.
  - rewrite Hl. apply fill_chunks; [exact Ht|lia|exact Hi].
Qed.

Lemma spush_inv t (Ht : 0 < t) (s : st) r : Inv t (spush t s r).
Proof.
  unfold spush, Inv. pose proof (chunks_spec t Ht (length (buf s ++ r)) (buf s ++ r) (le_n _)) as C.
  destruct (chunks (length (buf s ++ r)) t (buf s ++ r)) as [full rem]. cbn [buf]. tauto.
Qed.

Lemma crun_is_srun_from c ops : 0 < target c -> limit c = None -> Forall wf_op ops ->
  forall s : st, Inv (target c) s -> fold_left (cstep c) ops s = fold_left (sstep (target c)) ops s.
Proof.
  intros Ht Hl Hw. induction Hw as [|o ops Ho Hops IH]; intros s Hi; [reflexivity|].
  cbn [fold_left].
  assert (E : cstep c s o = sstep (target c) s o).
  { destruct o; cbn [cstep sstep].
    - now apply push_is_spush.
    - rewrite push_filter_is_push by exact Ho. now apply push_is_spush.
    - rewrite push_idx_is_push. now apply push_is_spush.
    - reflexivity.
    - reflexivity. }
  rewrite E. apply IH. rewrite <- E. exact (proj2 (cstep_spec c s o Ht Ho Hi)).
Qed.

Lemma crun_is_srun c ops : 0 < target c -> limit c = None -> Forall wf_op ops ->
  crun c ops = srun (target c) ops.
Proof. intros Ht Hl Hw. unfold crun, srun. apply crun_is_srun_from; auto; unfold Inv; cbn; lia. Qed.

(* ------------------------------------------------------------------ batch sizes of the naive coalescer *)
Definition count_finish (ops : list (cop A)) : nat := length (filter is_finish ops).
Definition sized (t : nat) (s : st) (k : nat) : Prop :=
  Inv t s /\ Forall (fun b : rows => 0 < length b <= t) (batches s) /\ short_batches t (batches s) <= k.

Lemma short_app t (a b : list rows) : short_batches t (a ++ b) = short_batches t a + short_batches t b.
Proof. unfold short_batches. now rewrite filter_app, app_length. Qed.

Lemma short_full t (full : list rows) : Forall (fun b => length b = t) full -> short_batches t full = 0.
Proof.
  unfold short_batches. induction 1 as [|b full Hb _ IH]; [reflexivity|]. cbn [filter].
  replace (length b <? t) with false by (symmetry; apply Nat.ltb_ge; lia). exact IH.
Qed.

Lemma sstep_sized t (Ht : 0 < t) (s : st) o k : sized t s k ->
  sized t (sstep t s o) (if is_finish o then S k else k).
Proof.
  intros (Hi & Hb & Hs).
  assert (Push : forall r, sized t (spush t s r) k).
  { intros r. split; [now apply spush_inv|].
    unfold spush. pose proof (chunks_spec t Ht (length (buf s ++ r)) (buf s ++ r) (le_n _)) as C.
    destruct (chunks (length (buf s ++ r)) t (buf s ++ r)) as [full rem]. destruct C as (_ & F & _).
    unfold batches in *; cbn [out done]. rewrite app_assoc. split.
    - apply Forall_app. split; [exact Hb|]. eapply Forall_impl; [|exact F]. cbn; intros; lia.
    - rewrite short_app, (short_full t full F). lia. }
  destruct o; cbn [sstep is_finish]; try apply Push.
  - (* Finish *) unfold finish. destruct (buf s) as [|x b] eqn:Eb.
    + split; [exact Hi|]. split; [exact Hb|lia].
    + unfold Inv in Hi. rewrite Eb in Hi. split; [unfold Inv; cbn; lia|].
      unfold batches in *; cbn [out done]. rewrite app_assoc. split.
      * apply Forall_app. split; [exact Hb|]. constructor; [cbn in *; lia|constructor].
      * rewrite short_app. unfold short_batches at 2. cbn [filter].
        destruct (length (x :: b) <? t); cbn; lia.
  - (* Pop *) split; [now apply inv_pop|]. rewrite batches_pop. split; [exact Hb|exact Hs].
Qed.

Lemma srun_sized_from t (Ht : 0 < t) ops : forall (s : st) k, sized t s k ->
  sized t (fold_left (sstep t) ops s) (k + count_finish ops).
Proof.
  induction ops as [|o ops IH]; intros s k H; cbn [fold_left].
  - unfold count_finish; cbn. now rewrite Nat.add_0_r.
  - pose proof (sstep_sized t Ht s o k H) as H1. specialize (IH _ _ H1).
    unfold count_finish in *. cbn [filter]. destruct (is_finish o); cbn [length]; [|exact IH].
    now rewrite Nat.add_succ_r.
Qed.

Lemma srun_sized t (Ht : 0 < t) ops : sized t (srun t ops) (count_finish ops).
Proof.
  apply (srun_sized_from t Ht ops cinit 0). split; [unfold Inv; cbn; lia|].
  split; [constructor|cbn; lia].
Qed.

Lemma crun_sized c ops : 0 < target c -> limit c = None -> Forall wf_op ops ->
  Forall (fun b : rows => 0 < length b <= target c) (batches (crun c ops)) /\
  short_batches (target c) (batches (crun c ops)) <= count_finish ops.
Proof.
  intros Ht Hl Hw. rewrite crun_is_srun by assumption.
  destruct (srun_sized (target c) Ht ops) as (_ & B & S). auto.
Qed.

End P.
