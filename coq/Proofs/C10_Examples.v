(* C10 — non-vacuity: the hypotheses of the theorems are met by concrete, non-trivial instances
   (insertion sort is an instance of both oracles), and the models compute the expected answers. *)
From Coq Require Import List ZArith Lia Bool Arith.
From AV Require Import Model.C10_Order Model.C10_Sort Model.C10_Rank Proofs.C10_Cmp Proofs.C10_Sort Proofs.C10_SortImpl Proofs.C10_MCmp.
Import ListNotations.
Local Open Scope Z_scope.

(* f64 bit patterns: -NaN < -inf < -1 < -0 < +0 < 1 < +inf < +NaN *)
Example total_order_chain :
  let h := 2 ^ 63 in
  map (fun p => total_order h (fst p) (snd p))
      [ (0xFFF8000000000000, 0xFFF0000000000000); (0xFFF0000000000000, 0xBFF0000000000000);
        (0xBFF0000000000000, 0x8000000000000000); (0x8000000000000000, 0);
        (0, 0x3FF0000000000000); (0x3FF0000000000000, 0x7FF0000000000000);
        (0x7FF0000000000000, 0x7FF8000000000000); (0x7FF8000000000000, 0x7FF8000000000001) ]
  = repeat Lt 8.
Proof. vm_compute. reflexivity. Qed.

Example float_key_example : total_cmp_key 64 0x8000000000000000 0 = Lt /\ total_cmp_key 64 0x7FF8000000000000 0xFFF8000000000000 = Gt.
Proof. vm_compute. split; reflexivity. Qed.

(* a column with nulls, duplicates, -0/+0, NaN; nulls first, descending, limit 4 *)
Definition ex_col : list oval :=
  [ Some (VFloat (2 ^ 63) 0); None; Some (VFloat (2 ^ 63) 0x8000000000000000); Some (VFloat (2 ^ 63) 0x7FF8000000000000);
    Some (VFloat (2 ^ 63) 0); None; Some (VFloat (2 ^ 63) 0x3FF0000000000000) ].

Example sort_example :
  sort_to_indices (V := val) isort iselect (vcmp false) (val_of ex_col) ex_col true true (Some 4%nat) = [1; 5; 3; 6]%nat
  /\ sort_check (cmp_opts true true) ex_col (Some 4%nat) [1; 5; 3; 6]%nat = 1
  /\ sort_check (cmp_opts true true) ex_col (Some 4%nat) [5; 1; 3; 6]%nat = 1      (* ties may come in any order *)
  /\ sort_check (cmp_opts true true) ex_col (Some 4%nat) [1; 5; 6; 3]%nat = 5      (* a decrease *)
  /\ sort_check (cmp_opts true true) ex_col (Some 4%nat) [1; 5; 3; 0]%nat = 6      (* a smaller row omitted *)
  /\ sort_check (cmp_opts true true) ex_col (Some 4%nat) [1; 1; 3; 6]%nat = 4
  /\ sort_check (cmp_opts true true) ex_col (Some 4%nat) [1; 5; 3]%nat = 2.
Proof. vm_compute. repeat split; reflexivity. Qed.

Example rank_example :
  rank_spec (vcmp false) true false ex_col = [5; 2; 3; 7; 5; 2; 6]%nat
  /\ rank_m isort (vcmp false) (fun a b => is_eq_c (vcmp false a b)) true false ex_col = [5; 2; 3; 7; 5; 2; 6]%nat.
Proof. vm_compute. split; reflexivity. Qed.

Example partition_example :
  partition_m [[Some (VInt 1); Some (VInt 1); None; None; Some (VInt 2)]; [Some (VInt 7); Some (VInt 8); None; None; None]]
  = [(0, 1); (1, 2); (2, 4); (4, 5)]%nat.
Proof. vm_compute. reflexivity. Qed.

Example kernel_example :
  kernels_spec OLe false true [Some (VInt 1); None; Some (VInt 3)] [Some (VInt 2)] = [Some true; None; Some false]
  /\ kernels_spec ODistinct false false [Some (VInt 1); None; None] [Some (VInt 1); None; Some (VInt 0)] = [Some false; Some false; Some true].
Proof. vm_compute. split; reflexivity. Qed.

Example wf_example : wf_col ex_col.
Proof.
  unfold wf_col, ex_col. repeat constructor; cbn; try exact I; exists 64; repeat split; try lia; vm_compute; congruence.
Qed.

(* byte strings: "bar" < "bar\0" through the inline key, the 4-byte prefix path and plain comparison *)
Example bytes_example :
  (inline_key [98; 97; 114] ?= inline_key [98; 97; 114; 0]) = Lt
  /\ cmp_bytes_prefix [98; 97; 114] [98; 97; 114; 0] = Lt
  /\ view_cmp [98; 97; 114; 0; 1; 2; 3; 4; 5; 6; 7; 8; 9; 10] [98; 97; 114] = Gt.
Proof. vm_compute. repeat split; reflexivity. Qed.
