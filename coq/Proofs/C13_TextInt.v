(* C13 — integer text: parsing (atoi with checked accumulation, parser_primitive! trimming) the
   decimal rendering of any value of the type returns that value. *)
From Coq Require Import List ZArith Bool Lia.
From AV Require Import Model.C13_Num Model.C13_Decimal Model.C13_Text.
Import ListNotations.
Local Open Scope Z_scope.

Definition digit (d : Z) : Prop := 0 <= d <= 9.
(* Horner value with a running accumulator *)
Definition dv (a : Z) (ds : list Z) : Z := fold_left (fun acc d => acc * 10 + d) ds a.

Lemma digits_val_dv : forall ds, digits_val ds = dv 0 ds.
Proof. reflexivity. Qed.
Lemma dv_cons : forall a d ds, dv a (d :: ds) = dv (a * 10 + d) ds.
Proof. reflexivity. Qed.
Lemma dv_app1 : forall a ds d, dv a (ds ++ [d]) = dv a ds * 10 + d.
Proof. intros a ds d. unfold dv. rewrite fold_left_app. reflexivity. Qed.
Lemma dv_ge : forall ds a, 0 <= a -> Forall digit ds -> a <= dv a ds.
Proof.
  induction ds as [|d ds IH]; intros a Ha Hd; [cbn; lia|].
  inversion Hd as [|? ? D1 D2]; subst. rewrite dv_cons. unfold digit in D1.
  specialize (IH (a * 10 + d) ltac:(lia) D2). lia.
Qed.
Lemma dv_linear : forall ds a, dv a ds = a * 10 ^ Z.of_nat (length ds) + dv 0 ds.
Proof.
  induction ds as [|d ds IH]; intros a.
  - cbn. lia.
  - rewrite !dv_cons. rewrite (IH (a * 10 + d)), (IH (0 * 10 + d)).
    cbn [length]. rewrite Nat2Z.inj_succ, Z.pow_succ_r by lia. ring.
Qed.

(* ---- digits_of *)
Lemma digits_fuel_spec : forall f n acc, (0 < f)%nat -> 0 <= n < 2 ^ Z.of_nat f ->
  exists ds, digits_fuel f n acc = ds ++ acc /\ ds <> [] /\ Forall digit ds /\ dv 0 ds = n
             /\ (0 < n -> 0 < hd 0 ds).
Proof.
  induction f as [|f IH]; intros n acc Hf Hn; [lia|].
  cbn [digits_fuel]. destruct (Z.ltb_spec n 10) as [Hs|Hb].
  - exists [n]. split; [reflexivity|]. split; [discriminate|]. split; [constructor; [unfold digit; lia|constructor]|].
    split; [cbn; lia|]. cbn. intros; assumption.
  - assert (Hf' : (0 < f)%nat).
    { destruct f; [|lia]. cbn in Hn. lia. }
    assert (Hn' : 0 <= n / 10 < 2 ^ Z.of_nat f).
    { split; [apply Z.div_pos; lia|]. rewrite Nat2Z.inj_succ, Z.pow_succ_r in Hn by lia.
      apply Z.div_lt_upper_bound; lia. }
    destruct (IH (n / 10) (n mod 10 :: acc) Hf' Hn') as (ds & E & Hne & Hd & Hv & Hh).
    exists (ds ++ [n mod 10]). split; [rewrite E, <- app_assoc; reflexivity|].
    split; [destruct ds; discriminate|].
    split; [apply Forall_app; split; [assumption|constructor; [unfold digit; pose proof (Z.mod_pos_bound n 10); lia|constructor]]|].
    split; [rewrite dv_app1, Hv; pose proof (Z.div_mod n 10); lia|].
    intros _. destruct ds as [|d ds]; [congruence|]. cbn. cbn in Hh. apply Hh.
    apply Z.div_str_pos. lia.
Qed.

Lemma digits_of_spec : forall n, 0 <= n ->
  digits_of n <> [] /\ Forall digit (digits_of n) /\ dv 0 (digits_of n) = n /\ (0 < n -> 0 < hd 0 (digits_of n)).
Proof.
  intros n Hn. unfold digits_of.
  assert (B : 0 <= n < 2 ^ Z.of_nat (S (Z.to_nat (Z.log2 n)))).
  { split; [assumption|]. rewrite Nat2Z.inj_succ, Z2Nat.id by apply Z.log2_nonneg.
    destruct (Z.eq_dec n 0) as [->|Hz]; [cbn; lia|]. apply Z.log2_spec. lia. }
  destruct (digits_fuel_spec (S (Z.to_nat (Z.log2 n))) n [] ltac:(lia) B) as (ds & E & Hne & Hd & Hv & Hh).
  rewrite app_nil_r in E. rewrite E. repeat split; assumption.
Qed.

(* ---- characters *)
Lemma is_digit_char : forall d, digit d -> is_digit (d + ZERO) = true /\ d + ZERO - ZERO = d.
Proof.
  intros d [L U]. unfold is_digit, ZERO. split; [|lia]. apply andb_true_iff. split; apply Z.leb_le; lia.
Qed.

Lemma imin_le0 : forall bits sg, imin bits sg <= 0.
Proof. intros bits [|]; unfold imin; [|lia]. pose proof (Z.pow_nonneg 2 (bits - 1)). lia. Qed.
Lemma imax_ge0 : forall bits sg, 1 <= bits -> 0 <= imax bits sg.
Proof.
  intros bits [|] Hb; unfold imax.
  - pose proof (Z.pow_pos_nonneg 2 (bits - 1)). lia.
  - pose proof (Z.pow_pos_nonneg 2 bits). lia.
Qed.
Lemma fits_intro : forall bits sg v, imin bits sg <= v <= imax bits sg -> fits bits sg v = true.
Proof. intros bits sg v [L U]. unfold fits. apply andb_true_iff. split; apply Z.leb_le; assumption. Qed.
Lemma fits_elim : forall bits sg v, fits bits sg v = true -> imin bits sg <= v <= imax bits sg.
Proof. intros bits sg v H. unfold fits in H. apply andb_true_iff in H. destruct H as [L U]. apply Z.leb_le in L, U. lia. Qed.

Lemma atoi_digits_pos : forall bits sg ds a used, 1 <= bits -> Forall digit ds -> 0 <= a -> dv a ds <= imax bits sg ->
  atoi_digits bits sg false (chars_of ds) (Some a) used = (Some (dv a ds), used + Z.of_nat (length ds)).
Proof.
  intros bits sg ds. induction ds as [|d ds IH]; intros a used Hb Hd Ha Hm.
  - cbn. rewrite Z.add_0_r. reflexivity.
  - inversion Hd as [|? ? D1 D2]; subst. cbn [chars_of map atoi_digits].
    destruct (is_digit_char d D1) as [E1 E2]. rewrite E1, E2. cbn [obind].
    rewrite dv_cons in Hm. unfold digit in D1.
    pose proof (dv_ge ds (a * 10 + d) ltac:(lia) D2) as G.
    unfold num_cast. rewrite fits_intro by (pose proof (imin_le0 bits sg); lia).
    fold (chars_of ds). rewrite IH by (assumption || lia). rewrite dv_cons. cbn [length]. f_equal. lia.
Qed.

Lemma atoi_digits_neg : forall bits sg ds a used, 1 <= bits -> Forall digit ds -> 0 <= a -> imin bits sg <= - dv a ds ->
  atoi_digits bits sg true (chars_of ds) (Some (- a)) used = (Some (- dv a ds), used + Z.of_nat (length ds)).
Proof.
  intros bits sg ds. induction ds as [|d ds IH]; intros a used Hb Hd Ha Hm.
  - cbn. rewrite Z.add_0_r. reflexivity.
  - inversion Hd as [|? ? D1 D2]; subst. cbn [chars_of map atoi_digits].
    destruct (is_digit_char d D1) as [E1 E2]. rewrite E1, E2. cbn [obind].
    rewrite dv_cons in Hm. unfold digit in D1.
    pose proof (dv_ge ds (a * 10 + d) ltac:(lia) D2) as G.
    replace (- a * 10 - d) with (- (a * 10 + d)) by ring.
    unfold num_cast. rewrite fits_intro by (pose proof (imax_ge0 bits sg Hb); lia).
    fold (chars_of ds). rewrite IH by (assumption || lia). rewrite dv_cons. cbn [length]. f_equal. lia.
Qed.

Lemma last_is_digit_chars : forall pre ds, ds <> [] -> Forall digit ds -> last_is_digit (pre ++ chars_of ds) = true.
Proof.
  intros pre ds Hne Hd. destruct (exists_last Hne) as (ds' & d & ->).
  unfold chars_of, last_is_digit. rewrite map_app, app_assoc, rev_app_distr. cbn [map rev app].
  apply Forall_app in Hd. destruct Hd as [_ Hd]. inversion Hd; subst.
  apply is_digit_char. assumption.
Qed.

Theorem int_text_roundtrip_M : forall bits sg v, 1 <= bits -> fits bits sg v = true ->
  parse_int bits sg (fmt_int v) = Some v.
Proof.
  intros bits sg v Hb Hv. apply fits_elim in Hv.
  destruct (digits_of_spec (Z.abs v) (Z.abs_nonneg v)) as (Hne & Hd & Hval & _).
  set (ds := digits_of (Z.abs v)) in *.
  unfold parse_int, fmt_int. fold ds.
  cbv zeta. rewrite last_is_digit_chars by assumption. cbv iota. rewrite last_is_digit_chars by assumption. cbn [negb].
  assert (Full : atoi_full bits sg ((if v <? 0 then [MINUS] else []) ++ chars_of ds) = Some v).
  { unfold atoi_full, atoi. destruct (Z.ltb_spec v 0) as [Hneg|Hpos].
    - cbn [app]. rewrite Z.eqb_refl.
      change (Some 0) with (Some (- 0)).
      rewrite atoi_digits_neg by (assumption || lia || (rewrite Hval; lia)).
      rewrite Hval. cbn [length]. unfold chars_of. rewrite map_length.
      replace (1 + Z.of_nat (length ds) =? Z.of_nat (S (length ds))) with true by (symmetry; apply Z.eqb_eq; lia).
      f_equal. lia.
    - cbn [app]. destruct ds as [|d ds'] eqn:Eds; [congruence|].
      inversion Hd as [|? ? D1 D2]; subst. cbn [chars_of map].
      assert (Hm : (d + ZERO =? MINUS) = false) by (apply Z.eqb_neq; unfold digit, ZERO, MINUS in *; lia).
      assert (Hp : (d + ZERO =? PLUS) = false) by (apply Z.eqb_neq; unfold digit, ZERO, PLUS in *; lia).
      rewrite Hm, Hp.
      change (d + ZERO :: map (fun d0 : Z => d0 + ZERO) ds') with (chars_of (d :: ds')).
      rewrite atoi_digits_pos by (assumption || lia || (rewrite Hval; lia)).
      rewrite Hval. unfold chars_of. rewrite map_length.
      rewrite Z.add_0_l, Z.eqb_refl. f_equal. lia. }
  rewrite Full. reflexivity.
Qed.
