(* C20 — UTF-8 self-synchronisation: a byte-level occurrence of a valid UTF-8 needle in a valid
   UTF-8 haystack is a code-point-level occurrence (prefix, suffix, infix), and conversely. *)
From Coq Require Import List NArith ZArith Arith Lia Bool ZifyN ZifyNat ZifyBool.
From AV Require Import Base.Utf8 Model.C20_Like.
Import ListNotations.
Local Open Scope N_scope.
Ltac Zify.zify_post_hook ::= Z.div_mod_to_equations.

Notation scalars s := (Forall (fun c => scalar c = true) s).

(* ------------------------------------------------------------------ shape of one encoding *)
Lemma cont_iff b : cont b = true <-> 128 <= b <= 191.
Proof. unfold cont. lia. Qed.

Lemma encode_shape c : exists b0 t, encode c = b0 :: t /\ cont b0 = false /\ Forall (fun b => cont b = true) t.
Proof.
  unfold encode.
  destruct (N.ltb_spec c 128) as [H1|H1].
  { exists c, []. split; [reflexivity|]. split; [|constructor]. unfold cont. lia. }
  destruct (N.ltb_spec c 2048) as [H2|H2].
  { eexists _, _. split; [reflexivity|]. split; [unfold cont; lia|].
    repeat constructor; apply cont_iff; lia. }
  destruct (N.ltb_spec c 65536) as [H3|H3].
  { eexists _, _. split; [reflexivity|]. split; [unfold cont; lia|].
    repeat constructor; apply cont_iff; lia. }
  eexists _, _. split; [reflexivity|]. split; [unfold cont; lia|].
  repeat constructor; apply cont_iff; lia.
Qed.

Lemma encode_nonnil c : encode c <> [].
Proof. destruct (encode_shape c) as (b0 & t & E & _). rewrite E. discriminate. Qed.

Lemma encode_ascii c : c < 128 -> encode c = [c].
Proof. intros H. unfold encode. destruct (N.ltb_spec c 128); [reflexivity|lia]. Qed.

Lemma encode_high c : 128 <= c -> Forall (fun b => 128 <= b) (encode c).
Proof.
  intros H. unfold encode.
  destruct (N.ltb_spec c 128); [lia|].
  destruct (N.ltb_spec c 2048); [repeat constructor; lia|].
  destruct (N.ltb_spec c 65536); repeat constructor; lia.
Qed.

(* prefix-freeness, from the strict decoder *)
Lemma encode_inj c d r r' : scalar c = true -> scalar d = true ->
  encode c ++ r = encode d ++ r' -> c = d /\ r = r'.
Proof.
  intros Hc Hd E. pose proof (decode1_encode c r Hc) as A. rewrite E in A.
  rewrite (decode1_encode d r' Hd) in A. inversion A. auto.
Qed.

(* ------------------------------------------------------------------ whole strings *)
Lemma utf8_app a b : utf8 (a ++ b) = utf8 a ++ utf8 b.
Proof. apply flat_map_app. Qed.
Lemma utf8_cons c s : utf8 (c :: s) = encode c ++ utf8 s.
Proof. reflexivity. Qed.
Lemma utf8_nil_inv s : utf8 s = [] -> s = [].
Proof.
  destruct s as [|c s]; [reflexivity|]. rewrite utf8_cons. intros E.
  apply app_eq_nil in E as [E _]. now apply encode_nonnil in E.
Qed.

Lemma cps_of_utf8 s : scalars s -> cps_of (utf8 s) = s.
Proof. intros H. unfold cps_of, utf8. now rewrite decode_all_encode by (assumption || lia). Qed.

Lemma valid_utf8_utf8 s : scalars s -> valid_utf8 (utf8 s) = true.
Proof. intros H. unfold valid_utf8, utf8. now rewrite decode_all_encode by (assumption || lia). Qed.

Lemma utf8_inj a b : scalars a -> scalars b -> utf8 a = utf8 b -> a = b.
Proof. intros Ha Hb E. rewrite <- (cps_of_utf8 a Ha), <- (cps_of_utf8 b Hb). now rewrite E. Qed.

Lemma utf8_hd_noncont s r x t : utf8 s ++ r = x :: t -> s <> [] -> cont x = false.
Proof.
  intros E Hs. destruct s as [|c s]; [congruence|].
  rewrite utf8_cons in E. destruct (encode_shape c) as (b0 & t0 & Ec & Hb & _).
  rewrite Ec in E. cbn in E. inversion E. now subst.
Qed.

(* byte-level prefix => code-point prefix *)
Lemma utf8_prefix n : forall h r, scalars n -> scalars h ->
  utf8 n ++ r = utf8 h -> exists h', h = n ++ h' /\ r = utf8 h'.
Proof.
  induction n as [|d n IH]; intros h r Hn Hh E.
  - exists h. cbn in *. auto.
  - destruct h as [|c h].
    + rewrite utf8_cons in E. cbn in E. apply app_eq_nil in E as [E _].
      apply app_eq_nil in E as [E _]. now apply encode_nonnil in E.
    + rewrite !utf8_cons, <- app_assoc in E.
      inversion Hn as [|? ? Hd Hn']; inversion Hh as [|? ? Hc Hh']; subst.
      apply encode_inj in E as [-> E]; [|assumption..].
      destruct (IH h r Hn' Hh' E) as (h' & -> & ->). exists h'. auto.
Qed.

(* byte-level occurrence of a non-empty needle => code-point occurrence, at character boundaries *)
Lemma utf8_infix n : n <> [] -> forall h l r, scalars n -> scalars h ->
  l ++ utf8 n ++ r = utf8 h -> exists h1 h2, h = h1 ++ n ++ h2 /\ l = utf8 h1 /\ r = utf8 h2.
Proof.
  intros Hne. induction h as [|c h IH]; intros l r Hn Hh E.
  - cbn in E. apply app_eq_nil in E as [_ E]. apply app_eq_nil in E as [E _].
    now apply utf8_nil_inv in E.
  - inversion Hh as [|? ? Hc Hh']; subst.
    rewrite utf8_cons in E. apply app_eq_app in E as [m [[E1 E2]|[E1 E2]]].
    + (* the first character lies inside l *)
      destruct (IH m r Hn Hh' (eq_sym E2)) as (h1 & h2 & -> & -> & ->).
      exists (c :: h1), h2. rewrite utf8_cons. subst l. auto.
    + destruct l as [|b l].
      * (* occurrence at offset 0 *)
        cbn in E1. subst m.
        assert (E : utf8 n ++ r = utf8 (c :: h)) by (rewrite utf8_cons; exact E2).
        destruct (utf8_prefix n (c :: h) r Hn Hh E) as (h' & Eh & ->).
        exists [], h'. cbn. auto.
      * destruct m as [|x m].
        -- (* l is exactly the first character *)
           rewrite app_nil_r in E1. cbn in E2.
           destruct (utf8_prefix n h r Hn Hh' E2) as (h' & -> & ->).
           exists [c], h'. cbn. rewrite app_nil_r. auto.
        -- (* the needle would start on a continuation byte *)
           exfalso. destruct (encode_shape c) as (b0 & t & Ec & _ & Ht).
           rewrite Ec in E1. cbn in E1. inversion E1 as [[Eb Et]]. subst t.
           apply Forall_app in Ht as [_ Ht]. inversion Ht as [|? ? Hx _]; subst.
           pose proof (utf8_hd_noncont n r x (m ++ utf8 h) E2 Hne). congruence.
Qed.

Lemma utf8_suffix n : forall h l, scalars n -> scalars h ->
  l ++ utf8 n = utf8 h -> exists h', h = h' ++ n /\ l = utf8 h'.
Proof.
  intros h l Hn Hh E. destruct n as [|d n].
  - exists h. cbn in E. rewrite !app_nil_r in *. auto.
  - assert (E' : l ++ utf8 (d :: n) ++ [] = utf8 h) by now rewrite app_nil_r.
    destruct (utf8_infix (d :: n) ltac:(discriminate) h l [] Hn Hh E') as (h1 & h2 & -> & -> & E2).
    symmetry in E2. apply utf8_nil_inv in E2. subst. exists h1. now rewrite app_nil_r.
Qed.

(* ------------------------------------------------------------------ the substring lemma *)
(* n occurs in h as bytes  <->  n occurs in h as code points *)
Theorem utf8_substring_lemma n h : scalars n -> scalars h ->
  (exists l r, utf8 h = l ++ utf8 n ++ r) <-> (exists h1 h2, h = h1 ++ n ++ h2).
Proof.
  intros Hn Hh. split.
  - intros (l & r & E). destruct n as [|d n].
    + exists [], h. reflexivity.
    + destruct (utf8_infix (d :: n) ltac:(discriminate) h l r Hn Hh (eq_sym E)) as (h1 & h2 & -> & _).
      eauto.
  - intros (h1 & h2 & ->). exists (utf8 h1), (utf8 h2). now rewrite !utf8_app.
Qed.
Theorem utf8_prefix_lemma n h : scalars n -> scalars h ->
  (exists r, utf8 h = utf8 n ++ r) <-> (exists h2, h = n ++ h2).
Proof.
  intros Hn Hh. split.
  - intros (r & E). destruct (utf8_prefix n h r Hn Hh (eq_sym E)) as (h' & -> & _). eauto.
  - intros (h2 & ->). exists (utf8 h2). now rewrite utf8_app.
Qed.
Theorem utf8_suffix_lemma n h : scalars n -> scalars h ->
  (exists l, utf8 h = l ++ utf8 n) <-> (exists h1, h = h1 ++ n).
Proof.
  intros Hn Hh. split.
  - intros (l & E). destruct (utf8_suffix n h l Hn Hh (eq_sym E)) as (h' & -> & _). eauto.
  - intros (h1 & ->). exists (utf8 h1). now rewrite utf8_app.
Qed.

(* ------------------------------------------------------------------ ASCII bytes in encodings *)
Lemma existsb_special_encode c : existsb is_special (encode c) = is_special c.
Proof.
  destruct (N.ltb_spec c 128) as [H|H].
  - rewrite encode_ascii by assumption. cbn. now rewrite orb_false_r.
  - pose proof (encode_high c H) as F.
    assert (A : forall l, Forall (fun b => 128 <= b) l -> existsb is_special l = false).
    { induction 1 as [|b l Hb _ IH]; [reflexivity|]. cbn [existsb]. rewrite IH.
      unfold is_special, PCT, UND, BSL. lia. }
    rewrite (A _ F). unfold is_special, PCT, UND, BSL. lia.
Qed.
Lemma contains_like_pattern_utf8 p : contains_like_pattern (utf8 p) = existsb is_special p.
Proof.
  unfold contains_like_pattern. induction p as [|c p IH]; [reflexivity|].
  rewrite utf8_cons, existsb_app, existsb_special_encode, IH. reflexivity.
Qed.

Lemma utf8_ascii s : is_ascii s = true -> utf8 s = s.
Proof.
  induction s as [|c s IH]; [reflexivity|]. cbn [is_ascii forallb]. rewrite andb_true_iff.
  intros [Hc Hs]. rewrite utf8_cons, encode_ascii by lia. cbn. f_equal. apply IH. exact Hs.
Qed.
Lemma ascii_scalars s : is_ascii s = true -> scalars s.
Proof.
  induction s as [|c s IH]; [constructor|]. cbn [is_ascii forallb]. rewrite andb_true_iff.
  intros [Hc Hs]. constructor; [unfold scalar; lia|]. apply IH. exact Hs.
Qed.

(* last / first byte of an encoded string is an ASCII byte b only if the last / first character is b *)
Lemma last_is_utf8 b p : b < 128 -> last_is b (utf8 p) = true ->
  exists q, p = q ++ [b] /\ removelast (utf8 p) = utf8 q.
Proof.
  intros Hb. destruct (rev p) as [|c rq] eqn:Er.
  - apply (f_equal (@rev N)) in Er. rewrite rev_involutive in Er. subst p. cbn. discriminate.
  - apply (f_equal (@rev N)) in Er. rewrite rev_involutive in Er. cbn in Er. subst p.
    rewrite utf8_app. cbn [utf8 flat_map]. rewrite app_nil_r. unfold last_is.
    destruct (N.ltb_spec c 128) as [H|H].
    + rewrite encode_ascii by assumption. rewrite rev_unit. intros E. apply N.eqb_eq in E. subst c.
      exists (rev rq). split; [reflexivity|]. now rewrite removelast_last.
    + pose proof (encode_high c H) as F. destruct (rev (encode c)) as [|y ry] eqn:Ee.
      * apply (f_equal (@rev N)) in Ee. rewrite rev_involutive in Ee. now apply encode_nonnil in Ee.
      * rewrite rev_app_distr, Ee. cbn. intros E. apply N.eqb_eq in E. subst y.
        apply Forall_rev in F. rewrite Ee in F. inversion F; subst. lia.
Qed.
Lemma first_is_utf8 b p : b < 128 -> first_is b (utf8 p) = true ->
  exists q, p = b :: q /\ tl (utf8 p) = utf8 q.
Proof.
  intros Hb. destruct p as [|c q]; [cbn; discriminate|]. rewrite utf8_cons. unfold first_is.
  destruct (N.ltb_spec c 128) as [H|H].
  - rewrite encode_ascii by assumption. cbn. intros E. apply N.eqb_eq in E. subst c. eauto.
  - pose proof (encode_high c H) as F. destruct (encode c) as [|y t] eqn:Ee; [now apply encode_nonnil in Ee|].
    cbn. intros E. apply N.eqb_eq in E. subst y. inversion F; subst. lia.
Qed.
