(* C08 — arithmetic of the varint readers: bounds, agreement with the bounded ULEB128 specification,
   decode∘encode, zig-zag, and the list-length guard of read_thrift_vec. *)
From Coq Require Import List NArith ZArith Bool Lia ZifyN ZifyNat ZifyBool.
From AV Require Import Base.Bits Model.C08_Thrift Model.C08_Avro Proofs.C08_Thrift.
Import ListNotations.
Local Open Scope N_scope.
Ltac Zify.zify_post_hook ::= Z.div_mod_to_equations.

(* ------------------------------------------------------------------ bit lemmas *)
Lemma lor_lt_pow2 a b n : a < 2^n -> b < 2^n -> N.lor a b < 2^n.
Proof.
  intros Ha Hb. replace (N.lor a b) with (N.lor a b mod 2^n); [apply N.mod_lt, N.pow_nonzero; discriminate|].
  apply N.bits_inj. intros i. destruct (N.ltb_spec i n) as [Hi|Hi].
  - apply N.mod_pow2_bits_low. exact Hi.
  - rewrite N.mod_pow2_bits_high by exact Hi. rewrite N.lor_spec.
    rewrite (testbit_high a n i Ha Hi), (testbit_high b n i Hb Hi). reflexivity.
Qed.

Lemma lor_add_shift a x s : a < 2^s -> N.lor a (x * 2^s) = a + x * 2^s.
Proof.
  intros Ha. apply N.bits_inj. intros i. rewrite N.lor_spec.
  replace (a + x * 2^s) with (a + 2^s * x) by lia. rewrite (testbit_add_shift a x s i Ha).
  destruct (N.ltb_spec i s) as [Hi|Hi].
  - rewrite N.mul_pow2_bits_low by exact Hi. apply orb_false_r.
  - rewrite (testbit_high a s i Ha Hi). rewrite N.mul_pow2_bits_high by exact Hi. reflexivity.
Qed.

Lemma land127 b : N.land b 127 = b mod 128.
Proof. change 127 with (N.ones 7). rewrite N.land_ones. reflexivity. Qed.

Lemma wshl64_small x s : s < 64 -> x * 2^s < 2^64 -> wshl64 x s = x * 2^s.
Proof.
  intros Hs Hx. unfold wshl64. rewrite (N.mod_small s 64) by exact Hs.
  rewrite N.shiftl_mul_pow2. apply N.mod_small. exact Hx.
Qed.

Lemma wshl64_lt x s : wshl64 x s < 2^64.
Proof. unfold wshl64. apply N.mod_lt. discriminate. Qed.

(* ------------------------------------------------------------------ vlq_bounded *)
Lemma vlq_loop_bounded bs : forall acc sh v r, acc < 2^64 -> vlq_loop bs acc sh = Ok v r -> v < 2^64.
Proof.
  induction bs as [|b t IH]; intros acc sh v r Ha; cbn [vlq_loop]; [discriminate|].
  assert (Hacc : N.lor acc (wshl64 (N.land b 127) sh) < 2^64) by (apply lor_lt_pow2; [exact Ha|apply wshl64_lt]).
  destruct (b <? 128); [intros H; inversion H; subst; exact Hacc|].
  apply IH. exact Hacc.
Qed.

Lemma read_vlq_bounded bs v r : read_vlq bs = Ok v r -> v < 2^64 /\ (length r < length bs)%nat.
Proof.
  intros H. split.
  - destruct bs as [|b t]; cbn [read_vlq] in H; [discriminate|].
    destruct (N.ltb_spec b 128) as [Hb|Hb].
    + inversion H; subst. eapply N.lt_trans; [exact Hb|reflexivity].
    + eapply vlq_loop_bounded; [|exact H]. rewrite land127.
      eapply N.lt_trans; [apply N.mod_lt; discriminate|reflexivity].
  - pose proof (read_vlq_consumed bs) as Hc. rewrite H in Hc. cbn in Hc. lia.
Qed.

(* the fast path is the general loop started at (0, 0) *)
Lemma read_vlq_eq_loop bs : read_vlq bs = vlq_loop bs 0 0.
Proof.
  destruct bs as [|b t]; [reflexivity|]. cbn [read_vlq vlq_loop].
  assert (Hw : wshl64 (N.land b 127) 0 = N.land b 127).
  { rewrite wshl64_small; [rewrite N.pow_0_r; lia|reflexivity|].
    rewrite land127, N.pow_0_r, N.mul_1_r. eapply N.lt_trans; [apply N.mod_lt; discriminate|reflexivity]. }
  rewrite Hw, N.lor_0_l.
  destruct (N.ltb_spec b 128) as [Hb|Hb]; [|reflexivity].
  rewrite land127, N.mod_small by exact Hb. reflexivity.
Qed.

(* ------------------------------------------------------------------ agreement with the bounded specification *)
Lemma pow2_mono a b : a <= b -> 2^a <= 2^b.
Proof. intros. apply N.pow_le_mono_r; [discriminate|assumption]. Qed.

Lemma vlq_loop_agrees_spec : forall fuel bs sh acc v r,
  sh + 7 * N.of_nat fuel = 70 -> acc < 2^sh ->
  uleb_dec fuel bs sh acc = Some (v, r) -> vlq_loop bs acc sh = Ok v r.
Proof.
  induction fuel as [|fuel IH]; intros bs sh acc v r Hsh Hacc; cbn [uleb_dec]; [discriminate|].
  destruct bs as [|b t]; [discriminate|]. cbn [vlq_loop].
  assert (Hs63 : sh <= 63) by lia.
  assert (Hm : b mod 128 < 128) by (apply N.mod_lt; discriminate).
  rewrite land127.
  destruct (N.ltb_spec b 128) as [Hb|Hb].
  - destruct ((sh =? 63) && (1 <? b)) eqn:Eg; [discriminate|].
    intros H; inversion H; subst. f_equal.
    assert (Hfit : (b mod 128) * 2^sh < 2^64).
    { destruct (N.eqb_spec sh 63) as [->|Hne].
      - cbn in Eg. apply N.ltb_ge in Eg. rewrite N.mod_small by lia.
        assert (b * 2^63 <= 1 * 2^63) by (apply N.mul_le_mono_r; exact Eg). change (2^64) with (2 * 2^63). lia.
      - assert (sh <= 56) by lia.
        assert (2^sh <= 2^56) by (apply pow2_mono; assumption).
        assert ((b mod 128) * 2^sh <= 127 * 2^56) by (apply N.mul_le_mono; lia).
        eapply N.le_lt_trans; [eassumption|reflexivity]. }
    rewrite wshl64_small by (try lia; exact Hfit). apply lor_add_shift. exact Hacc.
  - intros H.
    destruct fuel as [|fuel']; [cbn in H; discriminate|].
    assert (Hs56 : sh <= 56) by lia.
    assert (Hfit : (b mod 128) * 2^sh < 2^64).
    { assert (2^sh <= 2^56) by (apply pow2_mono; assumption).
      assert ((b mod 128) * 2^sh <= 127 * 2^56) by (apply N.mul_le_mono; lia).
      eapply N.le_lt_trans; [eassumption|reflexivity]. }
    rewrite wshl64_small by (try lia; exact Hfit). rewrite lor_add_shift by exact Hacc.
    apply (IH t (sh + 7)); [lia| |exact H].
    rewrite N.pow_add_r. change (2^7) with 128. nia.
Qed.

(* every canonical varint (at most 10 bytes, value < 2^64) is decoded by the thrift reader to the same value and rest *)
Lemma read_vlq_agrees_spec bs v r : varint_spec bs = Some (v, r) -> read_vlq bs = Ok v r.
Proof.
  intros H. rewrite read_vlq_eq_loop. apply (vlq_loop_agrees_spec 10); [reflexivity|reflexivity|exact H].
Qed.

(* ------------------------------------------------------------------ decode (encode n) = n *)
Lemma pow7 k : 2^(7 * N.of_nat (S k)) = 128 * 2^(7 * N.of_nat k).
Proof. rewrite Nat2N.inj_succ, N.mul_succ_r, N.pow_add_r. change (2^7) with 128. lia. Qed.

Lemma uleb_dec_cons f b r sh acc :
  uleb_dec (S f) (b :: r) sh acc =
  if b <? 128 then (if (sh =? 63) && (1 <? b) then None else Some (acc + (b mod 128) * 2^sh, r))
  else uleb_dec f r (sh + 7) (acc + (b mod 128) * 2^sh).
Proof. reflexivity. Qed.

Lemma uleb_dec_of_enc : forall fuel n shift acc rest,
  n < 2^(7 * N.of_nat (S fuel)) -> shift + 7 * N.of_nat (S fuel) <= 70 -> n * 2^shift < 2^64 ->
  uleb_dec (S fuel) (uleb_enc (S fuel) n ++ rest) shift acc = Some (acc + n * 2^shift, rest).
Proof.
  induction fuel as [|fuel IH]; intros n shift acc rest Hn Hsh Hfit.
  - change (n < 128) in Hn. cbn [uleb_enc]. destruct (N.ltb_spec n 128); [|lia]. cbn [app]. rewrite uleb_dec_cons.
    destruct (N.ltb_spec n 128); [|lia]. rewrite N.mod_small by lia.
    destruct (N.eqb_spec shift 63) as [->|Hne]; cbn [andb].
    + destruct (N.ltb_spec 1 n) as [H1|H1]; [|reflexivity].
      exfalso. assert (2 * 2^63 <= n * 2^63) by (apply N.mul_le_mono_r; lia). change (2 * 2^63) with (2^64) in *. lia.
    + reflexivity.
  - change (uleb_enc (S (S fuel)) n) with (if n <? 128 then [n] else (n mod 128 + 128) :: uleb_enc (S fuel) (n / 128)).
    destruct (N.ltb_spec n 128) as [Hlt|Hge].
    + cbn [app]. rewrite uleb_dec_cons. destruct (N.ltb_spec n 128); [|lia]. rewrite N.mod_small by lia.
      destruct (N.eqb_spec shift 63) as [->|Hne]; cbn [andb]; [|reflexivity].
      destruct (N.ltb_spec 1 n) as [H1|H1]; [|reflexivity].
      exfalso. assert (2 * 2^63 <= n * 2^63) by (apply N.mul_le_mono_r; lia). change (2 * 2^63) with (2^64) in *. lia.
    + cbn [app]. rewrite uleb_dec_cons.
      pose proof (N.mod_lt n 128 ltac:(lia)) as Hm.
      replace ((n mod 128 + 128) mod 128) with (n mod 128).
      2:{ rewrite N.add_mod by lia. rewrite N.mod_same by lia. rewrite N.add_0_r. now rewrite !N.mod_mod by lia. }
      destruct (N.ltb_spec (n mod 128 + 128) 128) as [Hc|Hc]; [lia|].
      rewrite IH.
      * f_equal. f_equal. rewrite <- N.add_assoc. f_equal.
        rewrite N.pow_add_r. change (2^7) with 128.
        pose proof (N.div_mod n 128 ltac:(lia)). nia.
      * rewrite pow7 in Hn. apply N.div_lt_upper_bound; lia.
      * rewrite Nat2N.inj_succ in Hsh. rewrite Nat2N.inj_succ. lia.
      * rewrite N.pow_add_r. change (2^7) with 128.
        pose proof (N.div_mod n 128 ltac:(lia)). nia.
Qed.

Lemma varint_spec_enc n rest : n < 2^64 -> varint_spec (uleb_enc 10 n ++ rest) = Some (n, rest).
Proof.
  intros H. unfold varint_spec. rewrite (uleb_dec_of_enc 9).
  - f_equal. f_equal. rewrite N.pow_0_r. lia.
  - eapply N.lt_trans; [exact H|reflexivity].
  - reflexivity.
  - rewrite N.pow_0_r, N.mul_1_r. exact H.
Qed.

Lemma read_vlq_enc n rest : n < 2^64 -> read_vlq (uleb_enc 10 n ++ rest) = Ok n rest.
Proof. intros H. apply read_vlq_agrees_spec, varint_spec_enc, H. Qed.

(* ------------------------------------------------------------------ zig-zag *)
Lemma zigzag_enc_dec z : C08_Thrift.zigzag (zigzag_enc z) = z.
Proof.
  unfold C08_Thrift.zigzag, zigzag_enc. destruct (Z.leb_spec 0 z) as [Hz|Hz].
  - replace (N.even (Z.to_N (2 * z))) with true.
    + rewrite Z2N.inj_mul by lia. change (Z.to_N 2) with 2. rewrite N.mul_comm, N.div_mul by discriminate. lia.
    + symmetry. rewrite Z2N.inj_mul by lia. change (Z.to_N 2) with 2. rewrite N.even_mul. reflexivity.
  - replace (Z.to_N (-2 * z - 1)) with (1 + 2 * Z.to_N (- z - 1)) by lia.
    rewrite N.even_add_mul_2. cbn [N.even].
    replace ((1 + 2 * Z.to_N (- z - 1)) / 2) with (Z.to_N (- z - 1)).
    + lia.
    + symmetry. rewrite N.add_comm, N.mul_comm, N.div_add_l by discriminate. cbn. lia.
Qed.

Lemma zigzag_enc_range z : (- 2^63 <= z < 2^63)%Z -> zigzag_enc z < 2^64.
Proof. unfold zigzag_enc. intros H. destruct (Z.leb_spec 0 z); lia. Qed.

Lemma zigzag_range v : v < 2^64 -> (- 2^63 <= C08_Thrift.zigzag v < 2^63)%Z.
Proof.
  intros H. unfold C08_Thrift.zigzag. assert (v / 2 < 2^63) by (apply N.div_lt_upper_bound; [discriminate|exact H]).
  destruct (N.even v); lia.
Qed.

(* signed value round trip through the reader *)
Lemma read_zig_zag_enc z rest : (- 2^63 <= z < 2^63)%Z -> read_zig_zag (uleb_enc 10 (zigzag_enc z) ++ rest) = Ok z rest.
Proof.
  intros H. unfold read_zig_zag. rewrite read_vlq_enc by (apply zigzag_enc_range; exact H). cbn [bind].
  rewrite zigzag_enc_dec. reflexivity.
Qed.

(* ------------------------------------------------------------------ at most 10 bytes?  refuted for the pinned reader *)
Lemma vlq_at_most_10_bytes_refuted :
  exists bs v r, read_vlq bs = Ok v r /\ (length bs - length r > 10)%nat.
Proof. exists (repeat 128 11 ++ [0]), 0, []. split; [vm_compute; reflexivity|cbn; lia]. Qed.

(* ------------------------------------------------------------------ read_thrift_vec *)
Lemma thrift_vec_len_le_input_refuted :
  exists bs n, schema_alloc_request bs = Some n /\ N.of_nat (length bs) < n.
Proof. exists [21; 2; 25; 252; 255; 255; 255; 255; 7; 0], 2147483647. split; vm_compute; reflexivity. Qed.

Section VecLen.
  Context {A : Type}.
  Variable rd : list N -> res A.
  Hypothesis rd_progress : forall bs, consumed 1 bs (rd bs).
  Hypothesis rd_nf : forall bs, no_fuel (rd bs).

  Lemma vec_loop_len : forall f n bs acc v r, vec_loop rd f n bs acc = Ok v r ->
    (length v + length r <= length acc + length bs)%nat.
  Proof.
    induction f as [|f IH]; intros n bs acc v r; cbn [vec_loop]; destruct (n =? 0);
      try (intros H; inversion H; subst; rewrite rev_length; lia); try discriminate.
    pose proof (rd_progress bs) as Hp. destruct (rd bs) as [a r0|k]; cbn [bind]; [|discriminate].
    intros H. apply IH in H. cbn in *. lia.
  Qed.

  Lemma vec_loop_nf : forall f n bs acc, (length bs < f)%nat -> no_fuel (vec_loop rd f n bs acc).
  Proof.
    induction f as [|f IH]; intros n bs acc Hl; [lia|]. cbn [vec_loop]. destruct (n =? 0); [discriminate|].
    pose proof (rd_progress bs) as Hp. pose proof (rd_nf bs) as Hn.
    destruct (rd bs) as [a r0|k]; cbn [bind]; [|exact (nf_err_cast _ Hn)].
    apply IH. cbn in Hp. lia.
  Qed.

  (* what read_thrift_vec RETURNS is bounded by the input, whatever count the header declares *)
  Lemma thrift_vec_result_le_input e bs v r : read_thrift_vec rd e bs = Ok v r ->
    (length v + length r < length bs)%nat.
  Proof.
    unfold read_thrift_vec. pose proof (read_list_begin_consumed bs) as Hc.
    destruct (read_list_begin bs) as [[et n] r0|k]; cbn [bind]; [|discriminate].
    cbn [fst snd]. destruct (negb _); [discriminate|]. intros H. apply vec_loop_len in H. cbn in *. lia.
  Qed.

  Lemma thrift_vec_never_out_of_fuel e bs : read_thrift_vec rd e bs <> Err e_fuel.
  Proof.
    unfold read_thrift_vec. pose proof (read_list_begin_nf bs) as Hn.
    destruct (read_list_begin bs) as [[et n] r0|k]; cbn [bind]; [|exact (nf_err_cast _ Hn)].
    cbn [fst snd]. destruct (negb _); [discriminate|]. apply vec_loop_nf. lia.
  Qed.
End VecLen.


Lemma thrift_vec_bounded_by_input (A : Type) (rd : list N -> res A) :
  (forall bs, consumed 1 bs (rd bs)) -> (forall bs, rd bs <> Err e_fuel) ->
  forall e bs, read_thrift_vec rd e bs <> Err e_fuel /\
               forall v r, read_thrift_vec rd e bs = Ok v r -> (length v + length r < length bs)%nat.
Proof.
  intros Hp Hn e bs. split.
  - apply thrift_vec_never_out_of_fuel; assumption.
  - intros v r H. eapply thrift_vec_result_le_input; eassumption.
Qed.
