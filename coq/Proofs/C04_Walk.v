(* C04 — the writer's, reader's and skipper's layout walks agree on every data type (all nesting depths). *)
From Coq Require Import List Arith Lia Bool ZArith.
From AV Require Import Model.C09_Layout Model.C04_Walk.
Import ListNotations.

(* nested induction over data types *)
Section dty_ind2.
  Variable P : dty -> Prop.
  Hypothesis HNull : P TNull.
  Hypothesis HBool : P TBool.
  Hypothesis HFixed : forall w, P (TFixed w).
  Hypothesis HFixedBin : forall n, P (TFixedBin n).
  Hypothesis HBin : forall l u, P (TBin l u).
  Hypothesis HView : forall u, P (TView u).
  Hypothesis HList : forall l n c, P c -> P (TList l n c).
  Hypothesis HListView : forall l n c, P c -> P (TListView l n c).
  Hypothesis HFixedList : forall s n c, P c -> P (TFixedList s n c).
  Hypothesis HStruct : forall fs, Forall (fun p => P (snd p)) fs -> P (TStruct fs).
  Hypothesis HDict : forall w s v, P v -> P (TDict w s v).
  Hypothesis HRee : forall w v, P v -> P (TRee w v).
  Hypothesis HUnion : forall d fs, Forall (fun p => P (snd p)) fs -> P (TUnion d fs).

  Fixpoint dty_ind2 (t : dty) : P t :=
    match t with
    | TNull => HNull | TBool => HBool | TFixed w => HFixed w | TFixedBin n => HFixedBin n
    | TBin l u => HBin l u | TView u => HView u
    | TList l n c => HList l n c (dty_ind2 c)
    | TListView l n c => HListView l n c (dty_ind2 c)
    | TFixedList s n c => HFixedList s n c (dty_ind2 c)
    | TStruct fs =>
        HStruct fs ((fix go (l : list (bool * dty)) : Forall (fun p => P (snd p)) l :=
                       match l with [] => Forall_nil _ | p :: r => Forall_cons p (dty_ind2 (snd p)) (go r) end) fs)
    | TDict w s v => HDict w s v (dty_ind2 v)
    | TRee w v => HRee w v (dty_ind2 v)
    | TUnion d fs =>
        HUnion d fs ((fix go (l : list (Z * dty)) : Forall (fun p => P (snd p)) l :=
                        match l with [] => Forall_nil _ | p :: r => Forall_cons p (dty_ind2 (snd p)) (go r) end) fs)
    end.
End dty_ind2.

(* ---- the three streams are monoid morphisms *)
Lemma nodes_app a b : nodes_of (a ++ b) = nodes_of a + nodes_of b.
Proof. unfold nodes_of. now rewrite filter_app, app_length. Qed.
Lemma bufs_app a b : bufs_of (a ++ b) = bufs_of a ++ bufs_of b.
Proof. induction a as [|[|k|n] a IH]; cbn; [reflexivity|exact IH|now rewrite IH|exact IH]. Qed.
Lemma nodes_cons_node l : nodes_of (TokNode :: l) = S (nodes_of l).
Proof. reflexivity. Qed.
Lemma nodes_cons_buf k l : nodes_of (TokBuf k :: l) = nodes_of l.
Proof. reflexivity. Qed.
Lemma bufs_cons_node l : bufs_of (TokNode :: l) = bufs_of l.
Proof. reflexivity. Qed.
Lemma bufs_cons_buf k l : bufs_of (TokBuf k :: l) = k :: bufs_of l.
Proof. reflexivity. Qed.
Lemma nodes_repeat k c : nodes_of (repeat (TokBuf k) c) = 0.
Proof. induction c; [reflexivity|]. cbn [repeat]. now rewrite nodes_cons_buf. Qed.
Lemma bufs_repeat k c : bufs_of (repeat (TokBuf k) c) = repeat k c.
Proof. induction c; [reflexivity|]. cbn [repeat]. now rewrite bufs_cons_buf, IHc. Qed.
Lemma snodes_app a b : snodes_of (a ++ b) = snodes_of a + snodes_of b.
Proof. unfold snodes_of. now rewrite filter_app, app_length. Qed.
Lemma sbufs_app a b : sbufs_of (a ++ b) = sbufs_of a + sbufs_of b.
Proof. unfold sbufs_of. now rewrite filter_app, app_length. Qed.
Lemma snodes_repeat c : snodes_of (repeat SBuf c) = 0.
Proof. induction c; [reflexivity|exact IHc]. Qed.
Lemma sbufs_repeat c : sbufs_of (repeat SBuf c) = c.
Proof. induction c; [reflexivity|]. cbn [repeat]. unfold sbufs_of in *. cbn. now rewrite IHc. Qed.

Lemma nodes_nil : nodes_of [] = 0. Proof. reflexivity. Qed.
Lemma bufs_nil : bufs_of [] = []. Proof. reflexivity. Qed.
Lemma snodes_cons_node l : snodes_of (SNode :: l) = S (snodes_of l). Proof. reflexivity. Qed.
Lemma snodes_cons_buf l : snodes_of (SBuf :: l) = snodes_of l. Proof. reflexivity. Qed.
Lemma sbufs_cons_node l : sbufs_of (SNode :: l) = sbufs_of l. Proof. reflexivity. Qed.
Lemma sbufs_cons_buf l : sbufs_of (SBuf :: l) = S (sbufs_of l). Proof. reflexivity. Qed.
Lemma snodes_nil : snodes_of [] = 0. Proof. reflexivity. Qed.
Lemma sbufs_nil : sbufs_of [] = 0. Proof. reflexivity. Qed.
Ltac norm :=
  repeat (progress (rewrite ?nodes_app, ?bufs_app, ?nodes_repeat, ?bufs_repeat, ?nodes_cons_node, ?nodes_cons_buf,
                    ?bufs_cons_node, ?bufs_cons_buf, ?snodes_app, ?sbufs_app, ?snodes_repeat, ?sbufs_repeat,
                    ?snodes_cons_node, ?snodes_cons_buf, ?sbufs_cons_node, ?sbufs_cons_buf,
                    ?nodes_nil, ?bufs_nil, ?snodes_nil, ?sbufs_nil, ?app_nil_r, ?app_length, ?repeat_length));
  cbn [length app].

(* what "the walks agree on t" means: for a supply [cs] holding exactly the variadic counts of t's view
   arrays (followed by anything [q]):
   - write_array_data and append_variadic_buffer_counts consume exactly [cs], and the counts emitted are [cs];
   - create_array fed with the emitted counts succeeds, consumes exactly [cs], and reads the same number of
     field nodes and the same sequence of buffers (kind by kind) as were written;
   - skip_field succeeds, consumes exactly [cs], the same number of nodes and the same number of buffers. *)
Definition agree (v5 : bool) (t : dty) : Prop :=
  forall cs q, length cs = views t ->
  exists wt rt st,
    w_walk t v5 (cs ++ q) = (wt, q) /\ w_var t (cs ++ q) = (cs, q) /\
    r_walk t v5 (cs ++ q) = Some (rt, q) /\ s_walk t v5 (cs ++ q) = Some (st, q) /\
    nodes_of rt = nodes_of wt /\ bufs_of rt = bufs_of wt /\
    snodes_of st = nodes_of rt /\ sbufs_of st = length (bufs_of rt).

Lemma thread_agree {A} (g : A -> dty) v5 (fs : list A) :
  Forall (fun p => agree v5 (g p)) fs ->
  forall cs q, length cs = fold_right (fun p acc => views (g p) + acc) 0 fs ->
  exists wt rt st,
    thread (fun p => w_walk (g p) v5) fs (cs ++ q) = (wt, q) /\
    thread_var (fun p => w_var (g p)) fs (cs ++ q) = (cs, q) /\
    thread_opt (fun p => r_walk (g p) v5) fs (cs ++ q) = Some (rt, q) /\
    thread_s (fun p => s_walk (g p) v5) fs (cs ++ q) = Some (st, q) /\
    nodes_of rt = nodes_of wt /\ bufs_of rt = bufs_of wt /\
    snodes_of st = nodes_of rt /\ sbufs_of st = length (bufs_of rt).
Proof.
  induction 1 as [|x fs Hx Hfs IH]; intros cs q Hl; cbn [fold_right] in Hl.
  - destruct cs; [|discriminate]. exists [], [], []. cbn. repeat split; reflexivity.
  - set (n := views (g x)) in *.
    assert (Hc : cs = firstn n cs ++ skipn n cs) by (symmetry; apply firstn_skipn).
    assert (Hl1 : length (firstn n cs) = n) by (rewrite firstn_length; lia).
    assert (Hl2 : length (skipn n cs) = fold_right (fun p acc => views (g p) + acc) 0 fs) by (rewrite skipn_length; lia).
    destruct (Hx (firstn n cs) (skipn n cs ++ q) Hl1) as (wt1 & rt1 & st1 & W1 & V1 & R1 & S1 & N1 & B1 & SN1 & SB1).
    destruct (IH (skipn n cs) q Hl2) as (wt2 & rt2 & st2 & W2 & V2 & R2 & S2 & N2 & B2 & SN2 & SB2).
    rewrite app_assoc, <- Hc in W1, V1, R1, S1.
    exists (wt1 ++ wt2), (rt1 ++ rt2), (st1 ++ st2).
    cbn [thread thread_var thread_opt thread_s].
    rewrite W1, V1, R1, S1, W2, V2, R2, S2.
    rewrite !nodes_app, !bufs_app, snodes_app, sbufs_app, app_length.
    repeat split; try congruence; try lia.
Qed.

Lemma agree_leaf v5 t wt rt st :
  views t = 0 ->
  (forall sup, w_walk t v5 sup = (wt, sup)) -> (forall sup, w_var t sup = ([], sup)) ->
  (forall sup, r_walk t v5 sup = Some (rt, sup)) -> (forall sup, s_walk t v5 sup = Some (st, sup)) ->
  nodes_of rt = nodes_of wt -> bufs_of rt = bufs_of wt ->
  snodes_of st = nodes_of rt -> sbufs_of st = length (bufs_of rt) -> agree v5 t.
Proof.
  intros Hv W V R Sk N B SN SB cs q Hl. rewrite Hv in Hl. destruct cs; [|discriminate].
  exists wt, rt, st. cbn [app]. rewrite W, V, R, Sk. repeat split; assumption.
Qed.

(* types on which the V4 writer writes a validity buffer that the reader does not consume *)
Definition walk_ok (v5 : bool) (t : dty) : Prop := v5 = true \/ ree_free t = true.

Lemma ree_free_fields {A} (g : A -> dty) (P : dty -> Prop) v5 (fs : list A) :
  Forall (fun p => walk_ok v5 (g p) -> P (g p)) fs ->
  (v5 = true \/ forallb (fun p => ree_free (g p)) fs = true) ->
  Forall (fun p => P (g p)) fs.
Proof.
  induction 1 as [|x fs Hx Hfs IH]; intros Hok; constructor.
  - apply Hx. destruct Hok as [->|Hf]; [now left|]. cbn in Hf. apply andb_true_iff in Hf. right. tauto.
  - apply IH. destruct Hok as [->|Hf]; [now left|]. cbn in Hf. apply andb_true_iff in Hf. right. tauto.
Qed.

Theorem walk_agree_all : forall t v5, walk_ok v5 t -> agree v5 t.
Proof.
  intros t v5. revert t.
  apply (dty_ind2 (fun t => walk_ok v5 t -> agree v5 t)).
  - intros _. destruct v5; eapply agree_leaf; intros; reflexivity.
  - intros _. destruct v5; eapply agree_leaf; intros; reflexivity.
  - intros w _. destruct v5; eapply agree_leaf; intros; reflexivity.
  - intros n _. destruct v5; eapply agree_leaf; intros; reflexivity.
  - intros l u _. destruct v5; eapply agree_leaf; intros; reflexivity.
  - (* view *)
    intros u _ cs q Hl. cbn [views] in Hl.
    destruct cs as [|c [|? ?]]; try discriminate. cbn [app].
    exists (TokNode :: TokBuf BValidity :: TokBuf BViews :: repeat (TokBuf BVariadic) c),
           (TokBuf BValidity :: TokBuf BViews :: repeat (TokBuf BVariadic) c ++ [TokNode]),
           (SNode :: repeat SBuf (c + 2)).
    assert (Hw : w_walk (TView u) v5 (c :: q) = (TokNode :: TokBuf BValidity :: TokBuf BViews :: repeat (TokBuf BVariadic) c, q))
      by (destruct v5; reflexivity).
    rewrite Hw. cbn [w_var r_walk s_walk].
    repeat split; norm; try reflexivity; try (rewrite ?repeat_length; lia).
  - (* list *)
    intros l n c IH Hok cs q Hl.
    assert (Hc : walk_ok v5 c) by (destruct Hok as [->|Hf]; [now left|right; exact Hf]).
    destruct (IH Hc cs q Hl) as (wt & rt & st & W & V & R & Sk & N & B & SN & SB).
    exists (TokNode :: TokBuf BValidity :: TokBuf BOffsets :: wt), (TokNode :: TokBuf BValidity :: TokBuf BOffsets :: rt), (SNode :: SBuf :: SBuf :: st).
    assert (Hw : w_walk (TList l n c) v5 (cs ++ q) = (TokNode :: TokBuf BValidity :: TokBuf BOffsets :: wt, q))
      by (destruct v5; cbn [w_walk has_validity]; rewrite W; reflexivity).
    rewrite Hw. cbn [w_var r_walk s_walk]. rewrite V, R, Sk.
    repeat split; norm; try congruence.
  - (* list view *)
    intros l n c IH Hok cs q Hl.
    assert (Hc : walk_ok v5 c) by (destruct Hok as [->|Hf]; [now left|right; exact Hf]).
    destruct (IH Hc cs q Hl) as (wt & rt & st & W & V & R & Sk & N & B & SN & SB).
    exists (TokNode :: TokBuf BValidity :: TokBuf BOffsets :: TokBuf BSizes :: wt),
           (TokNode :: TokBuf BValidity :: TokBuf BOffsets :: TokBuf BSizes :: rt), (SNode :: SBuf :: SBuf :: SBuf :: st).
    assert (Hw : w_walk (TListView l n c) v5 (cs ++ q) = (TokNode :: TokBuf BValidity :: TokBuf BOffsets :: TokBuf BSizes :: wt, q))
      by (destruct v5; cbn [w_walk has_validity]; rewrite W; reflexivity).
    rewrite Hw. cbn [w_var r_walk s_walk]. rewrite V, R, Sk.
    repeat split; norm; try congruence.
  - (* fixed size list *)
    intros s n c IH Hok cs q Hl.
    assert (Hc : walk_ok v5 c) by (destruct Hok as [->|Hf]; [now left|right; exact Hf]).
    destruct (IH Hc cs q Hl) as (wt & rt & st & W & V & R & Sk & N & B & SN & SB).
    exists (TokNode :: TokBuf BValidity :: wt), (TokNode :: TokBuf BValidity :: rt), (SNode :: SBuf :: st).
    assert (Hw : w_walk (TFixedList s n c) v5 (cs ++ q) = (TokNode :: TokBuf BValidity :: wt, q))
      by (destruct v5; cbn [w_walk has_validity]; rewrite W; reflexivity).
    rewrite Hw. cbn [w_var r_walk s_walk]. rewrite V, R, Sk.
    repeat split; norm; try congruence.
  - (* struct *)
    intros fs IH Hok cs q Hl.
    assert (Hf : Forall (fun p : bool * dty => agree v5 (snd p)) fs)
      by (apply (ree_free_fields snd (agree v5) v5 fs IH); destruct Hok as [->|Hf]; [now left|right; exact Hf]).
    destruct (thread_agree snd v5 fs Hf cs q Hl) as (wt & rt & st & W & V & R & Sk & N & B & SN & SB).
    exists (TokNode :: TokBuf BValidity :: wt), (TokNode :: TokBuf BValidity :: rt), (SNode :: SBuf :: st).
    assert (Hw : w_walk (TStruct fs) v5 (cs ++ q) = (TokNode :: TokBuf BValidity :: wt, q))
      by (destruct v5; cbn [w_walk has_validity]; rewrite W; reflexivity).
    rewrite Hw. cbn [w_var r_walk s_walk]. rewrite V, R, Sk.
    repeat split; norm; try congruence.
  - (* dictionary: keys only, the values are not visited *)
    intros w s v _ _. destruct v5; eapply agree_leaf; intros; reflexivity.
  - (* run-end encoded *)
    intros w v IH Hok cs q Hl.
    assert (Hv5 : v5 = true) by (destruct Hok as [->|Hf]; [reflexivity|discriminate]). subst v5.
    destruct (IH (or_introl eq_refl) cs q Hl) as (wt & rt & st & W & V & R & Sk & N & B & SN & SB).
    exists (TokNode :: TokNode :: TokBuf BValidity :: TokBuf BValues :: wt), (TokNode :: TokNode :: TokBuf BValidity :: TokBuf BValues :: rt),
           (SNode :: SNode :: SBuf :: SBuf :: st).
    cbn [w_walk has_validity w_var r_walk s_walk app]. rewrite W, V, R, Sk. cbn [app].
    repeat split; norm; try congruence.
  - (* union *)
    intros d fs IH Hok cs q Hl.
    assert (Hf : Forall (fun p : Z * dty => agree v5 (snd p)) fs)
      by (apply (ree_free_fields snd (agree v5) v5 fs IH); destruct Hok as [->|Hf]; [now left|right; exact Hf]).
    destruct (thread_agree snd v5 fs Hf cs q Hl) as (wt & rt & st & W & V & R & Sk & N & B & SN & SB).
    destruct v5, d; cbn [w_walk has_validity w_var r_walk s_walk app]; rewrite W, V, R, Sk; cbn [app].
    all: eexists; eexists; eexists; repeat split; try reflexivity.
    all: rewrite ?nodes_cons_node, ?nodes_cons_buf, ?bufs_cons_node, ?bufs_cons_buf; try congruence.
    all: try (unfold snodes_of; cbn [filter length]; fold (snodes_of st); congruence).
    all: try (unfold sbufs_of; cbn [filter length]; fold (sbufs_of st); congruence).
Qed.

(* ---- V4 + RunEndEncoded: the writer emits a validity buffer for the run array that create_array does
   not consume, so the buffer streams differ *)
Lemma walk_v4_ree_differs :
  let t := TRee 4 (TFixed 4) in
  exists wt rt, w_walk t false [] = (wt, []) /\ r_walk t false [] = Some (rt, []) /\ bufs_of rt <> bufs_of wt.
Proof. cbn. eexists; eexists; repeat split. cbn. discriminate. Qed.

(* ---- whole record batches *)
Lemma batch_agree v5 (cols : list dty) :
  Forall (walk_ok v5) cols ->
  forall cs q, length cs = fold_right (fun t acc => views t + acc) 0 cols ->
  exists wt rt,
    w_batch cols v5 (cs ++ q) = (wt, q) /\ w_batch_var cols (cs ++ q) = (cs, q) /\
    r_batch cols v5 (cs ++ q) = Some (rt, q) /\
    nodes_of rt = nodes_of wt /\ bufs_of rt = bufs_of wt.
Proof.
  intros Hok cs q Hl.
  assert (Hf : Forall (fun t => agree v5 ((fun x : dty => x) t)) cols).
  { clear cs q Hl. induction Hok as [|t cols Ht _ IH]; [constructor|constructor; [apply walk_agree_all; exact Ht|exact IH]]. }
  destruct (thread_agree (fun x : dty => x) v5 cols Hf cs q Hl) as (wt & rt & st & W & V & R & Sk & N & B & _).
  exists wt, rt. unfold w_batch, w_batch_var, r_batch. repeat split; assumption.
Qed.
