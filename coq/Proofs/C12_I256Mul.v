(* C12 — i256::checked_mul is exact-or-None, and div_rem's sign handling around an exact unsigned
   division gives the truncating quotient and remainder. *)
From Coq Require Import List ZArith Bool Lia.
From AV Require Import Model.C12_Int Model.C12_I256 Proofs.C12_Int Proofs.C12_I256.
Import ListNotations.
Local Open Scope Z_scope.

Section Q.
Variable B : Z.
Variable H : Z.
Hypothesis Bpos : 0 < B.
Hypothesis BB : B * B = 2 * H.
Let W := 2 * H.
Notation wrap256 := (wrap true (H * W)).
Notation in256 := (in_range true (H * W)).
Notation value := (val H).
Notation wf := (wf H).

Let Hpos' : 0 < H := Hpos B H Bpos BB.
Let Wpos' : 0 < W := Wpos B H Bpos BB.
Let HWpos' : 0 < H * W := HWpos B H Bpos BB.

Lemma wrapu_of_signed x : - H <= x < H -> wrapu H x = if x <? 0 then x + W else x.
Proof.
  intros R. destruct (Z.ltb_spec x 0).
  - symmetry. apply (wrapu_unique B H Bpos BB) with (k := 1); unfold W in *; lia.
  - apply wrapu_small. lia.
Qed.

(* ---- step 1: magnitudes *)
Lemma mul_magnitudes_spec la lb : wf la -> wf lb ->
  match mul_magnitudes B H la lb with
  | Some (lo, hi2) => uval H la * uval H lb = hi2 * W + lo /\ 0 <= lo < W /\ 0 <= hi2 < W
  | None => W * W <= uval H la * uval H lb
  end.
Proof.
  intros [Wal Wah] [Wbl Wbh]. unfold mul_magnitudes, uval. fold W.
  pose proof (wrapu_range B H Bpos BB (high la)) as Rah. pose proof (wrapu_range B H Bpos BB (high lb)) as Rbh.
  pose proof (wrapu_of_signed (high la) Wah) as Eah. pose proof (wrapu_of_signed (high lb) Wbh) as Ebh.
  assert (Ezh : (high la =? 0) = (wrapu H (high la) =? 0)).
  { destruct (Z.ltb_spec (high la) 0); destruct (Z.eqb_spec (high la) 0); destruct (Z.eqb_spec (wrapu H (high la)) 0); try reflexivity; unfold W in *; lia. }
  assert (Ezh' : (high lb =? 0) = (wrapu H (high lb) =? 0)).
  { destruct (Z.ltb_spec (high lb) 0); destruct (Z.eqb_spec (high lb) 0); destruct (Z.eqb_spec (wrapu H (high lb)) 0); try reflexivity; unfold W in *; lia. }
  rewrite Ezh, Ezh'. clear Ezh Ezh' Eah Ebh.
  set (ah := wrapu H (high la)) in *. set (bh := wrapu H (high lb)) in *.
  set (al := low la) in *. set (bl := low lb) in *. fold W in Wal, Wbl, Rah, Rbh.
  clearbody ah bh al bl. clear Wah Wbh.
  rewrite (mulx_spec B H Bpos BB al bl Wal Wbl). fold W.
  pose proof (Z.div_mod (al * bl) W ltac:(lia)) as Dm.
  pose proof (Z.mod_pos_bound (al * bl) W Wpos') as Rlo.
  set (lo := (al * bl) mod W) in *. set (hi := (al * bl) / W) in *.
  assert (Rhi : 0 <= hi < W) by nia.
  clearbody lo hi.
  unfold u_checked. fold W.
  assert (Big : forall t, W <= t -> W * W <= t * W + lo).
  { intros t Ht. assert (W * W <= t * W) by (apply Z.mul_le_mono_nonneg_r; lia). lia. }
  assert (Common : ah * bh = 0 ->
    match
      match (if ah * bl <? W then Some (ah * bl) else None) with
      | Some hl =>
          match (if al * bh <? W then Some (al * bh) else None) with
          | Some lh =>
              match (if hi + hl <? W then Some (hi + hl) else None) with
              | Some hi1 =>
                  match (if hi1 + lh <? W then Some (hi1 + lh) else None) with
                  | Some hi2 => Some (lo, hi2)
                  | None => None
                  end
              | None => None
              end
          | None => None
          end
      | None => None
      end
    with
    | Some (lo0, hi2) => (ah * W + al) * (bh * W + bl) = hi2 * W + lo0 /\ 0 <= lo0 < W /\ 0 <= hi2 < W
    | None => W * W <= (ah * W + al) * (bh * W + bl)
    end).
  { intros AB.
    assert (Hx : 0 <= al * bh) by (apply Z.mul_nonneg_nonneg; lia).
    assert (Hy : 0 <= ah * bl) by (apply Z.mul_nonneg_nonneg; lia).
    assert (EP : (ah * W + al) * (bh * W + bl) = (hi + ah * bl + al * bh) * W + lo).
    { replace ((ah * W + al) * (bh * W + bl)) with ((ah * bh) * W * W + (al * bh + ah * bl) * W + al * bl) by ring.
      rewrite AB, Dm. ring. }
    rewrite EP. set (x := al * bh) in *. set (y := ah * bl) in *. clearbody x y.
    destruct (Z.ltb_spec y W); [|apply Big; lia].
    destruct (Z.ltb_spec x W); [|apply Big; lia].
    destruct (Z.ltb_spec (hi + y) W); [|apply Big; lia].
    destruct (Z.ltb_spec (hi + y + x) W); [|apply Big; lia].
    split; [reflexivity|]. split; [assumption|lia]. }
  destruct (Z.eqb_spec ah 0) as [A0|A0]; destruct (Z.eqb_spec bh 0) as [B0|B0]; cbn [negb andb].
  - apply Common. subst. ring.
  - apply Common. subst. ring.
  - apply Common. subst. ring.
  - assert (L1 : W <= ah * W + al).
    { assert (W * 1 <= ah * W) by (rewrite (Z.mul_comm ah W); apply Z.mul_le_mono_nonneg_l; lia). lia. }
    assert (L2 : W <= bh * W + bl).
    { assert (W * 1 <= bh * W) by (rewrite (Z.mul_comm bh W); apply Z.mul_le_mono_nonneg_l; lia). lia. }
    apply Z.mul_le_mono_nonneg; lia.
Qed.

(* ---- step 2: conditional two's-complement negation of the 256-bit magnitude *)
Lemma restore_sign_spec out_neg lo hi2 : 0 <= lo < W -> 0 <= hi2 < W ->
  wf (restore_sign H out_neg lo hi2) /\
  value (restore_sign H out_neg lo hi2) = wrap256 (if out_neg then - (hi2 * W + lo) else hi2 * W + lo).
Proof.
  intros Rl Rh. unfold restore_sign, u_overflowing_sub, xor_mask. fold W.
  destruct out_neg.
  - assert (Rn : 0 <= not_u H lo < W) by (unfold not_u; fold W; lia).
    assert (Rw : 0 <= W - 1 < W) by lia.
    pose proof (u_sub_borrow B H Bpos BB (not_u H lo) (W - 1) Rn Rw) as El. fold W in El.
    set (c := b2z (not_u H lo - (W - 1) <? 0)) in *.
    destruct (wrapu_cong B H Bpos BB (not_u H hi2 - (W - 1))) as [k1 E1].
    destruct (wrapu_cong B H Bpos BB (wrapu H (not_u H hi2 - (W - 1)) - c)) as [k2 E2].
    destruct (wraps_cong B H Bpos BB (wrapu H (wrapu H (not_u H hi2 - (W - 1)) - c))) as [k3 E3].
    pose proof (wrapu_range B H Bpos BB (not_u H lo - (W - 1))) as R1.
    pose proof (wraps_range B H Bpos BB (wrapu H (wrapu H (not_u H hi2 - (W - 1)) - c))) as R2.
    fold W in E1, E2, E3, R1.
    assert (WF : wf (mk256 (wrapu H (not_u H lo - (W - 1))) (wraps H (wrapu H (wrapu H (not_u H hi2 - (W - 1)) - c))))).
    { split; cbn [low high]; assumption. }
    split; [exact WF|].
    apply (wrap256_unique B H Bpos BB) with (k := k1 + k2 + k3); [apply (val_range B H Bpos BB _ WF)|].
    unfold val. cbn [low high]. fold W. rewrite E3, E2, E1, El. unfold not_u. fold W. ring.
  - replace (lo - 0) with lo by ring. replace (hi2 - 0) with hi2 by ring.
    replace (lo <? 0) with false by (symmetry; apply Z.ltb_ge; lia). cbn [b2z].
    replace (wrapu H hi2 - 0) with (wrapu H hi2) by ring.
    rewrite (wrapu_small H lo) by (fold W; lia). rewrite !(wrapu_small H hi2) by (fold W; lia).
    destruct (wraps_cong B H Bpos BB hi2) as [k E]. pose proof (wraps_range B H Bpos BB hi2) as R.
    fold W in E.
    assert (WF : wf (mk256 lo (wraps H hi2))) by (split; cbn [low high]; [fold W; lia|assumption]).
    split; [exact WF|].
    apply (wrap256_unique B H Bpos BB) with (k := k); [apply (val_range B H Bpos BB _ WF)|].
    unfold val. cbn [low high]. fold W. rewrite E. ring.
Qed.

(* wrap256 of a magnitude / negated magnitude below 2^256 *)
Lemma wrap256_pos P : 0 < P < W * W ->
  wrap256 P = if P <? H * W then P else P - W * W.
Proof.
  intros R. destruct (Z.ltb_spec P (H * W)).
  - apply wrap256_small. fold W. lia.
  - symmetry. apply (wrap256_unique B H Bpos BB) with (k := -1); [unfold W in *; nia|unfold W; ring].
Qed.
Lemma wrap256_negmag P : 0 < P < W * W ->
  wrap256 (- P) = if P <=? H * W then - P else - P + W * W.
Proof.
  intros R. destruct (Z.leb_spec P (H * W)).
  - apply wrap256_small. fold W. lia.
  - symmetry. apply (wrap256_unique B H Bpos BB) with (k := 1); [unfold W in *; nia|unfold W; ring].
Qed.

(* ---- step 3 *)
Theorem checked_mul_spec a b : wf a -> wf b ->
  match checked_mul256 B H a b with
  | Some r => wf r /\ value r = value a * value b /\ in256 (value a * value b) = true
  | None => in256 (value a * value b) = false
  end.
Proof.
  intros Wa Wb. unfold checked_mul256.
  destruct (wf_ZERO B H Bpos BB) as [W0 V0].
  rewrite (is_eq_spec B H Bpos BB a ZERO Wa W0), (is_eq_spec B H Bpos BB b ZERO Wb W0), V0.
  destruct (Z.eqb_spec (value a) 0) as [Za|Za]; cbn [orb].
  { rewrite Za, Z.mul_0_l. split; [exact W0|]. split; [exact V0|]. apply in256_iff. fold W. lia. }
  destruct (Z.eqb_spec (value b) 0) as [Zb|Zb]; cbn [orb].
  { rewrite Zb, Z.mul_0_r. split; [exact W0|]. split; [exact V0|]. apply in256_iff. fold W. lia. }
  destruct (wrapping_abs_spec B H Bpos BB a Wa) as [Wla _]. destruct (wrapping_abs_spec B H Bpos BB b Wb) as [Wlb _].
  pose proof (mul_magnitudes_spec _ _ Wla Wlb) as M.
  rewrite (uval_abs B H Bpos BB a Wa), (uval_abs B H Bpos BB b Wb) in M.
  pose proof (val_range B H Bpos BB a Wa) as Ra. pose proof (val_range B H Bpos BB b Wb) as Rb. fold W in Ra, Rb.
  assert (Ppos : 0 < Z.abs (value a) * Z.abs (value b)) by (apply Z.mul_pos_pos; lia).
  assert (Pabs : Z.abs (value a * value b) = Z.abs (value a) * Z.abs (value b)) by apply Z.abs_mul.
  set (P := Z.abs (value a) * Z.abs (value b)) in *.
  assert (Q : W * W = 2 * (H * W)) by (unfold W; ring).
  destruct (mul_magnitudes B H (wrapping_abs256 H a) (wrapping_abs256 H b)) as [[lo hi2]|].
  2:{ destruct (in256 (value a * value b)) eqn:I; [|reflexivity]. apply in256_iff in I. fold W in I. lia. }
  destruct M as [EP [Rlo Rhi2]].
  assert (PW : 0 < P < W * W).
  { split; [assumption|]. rewrite EP. assert (hi2 * W <= (W - 1) * W) by (apply Z.mul_le_mono_nonneg_r; lia). lia. }
  unfold is_negative. rewrite (val_sign B H Bpos BB a Wa), (val_sign B H Bpos BB b Wb).
  set (out_neg := xorb (value a <? 0) (value b <? 0)).
  destruct (restore_sign_spec out_neg lo hi2 Rlo Rhi2) as [Wr Vr].
  rewrite <- EP in Vr.
  rewrite (val_sign B H Bpos BB _ Wr), Vr.
  assert (Exact : value a * value b = if out_neg then - P else P).
  { unfold out_neg. destruct (Z.ltb_spec (value a) 0), (Z.ltb_spec (value b) 0); cbn [xorb]; nia. }
  destruct out_neg.
  - rewrite (wrap256_negmag P PW).
    destruct (Z.leb_spec P (H * W)) as [Le|Gt].
    + replace (- P <? 0) with true by (symmetry; apply Z.ltb_lt; lia). cbn [Bool.eqb].
      split; [exact Wr|]. split; [rewrite Vr, (wrap256_negmag P PW); replace (P <=? H * W) with true by (symmetry; apply Z.leb_le; lia); lia|].
      apply in256_iff. fold W. lia.
    + replace (- P + W * W <? 0) with false by (symmetry; apply Z.ltb_ge; lia). cbn [Bool.eqb].
      destruct (in256 (value a * value b)) eqn:I; [|reflexivity]. apply in256_iff in I. fold W in I. lia.
  - rewrite (wrap256_pos P PW).
    destruct (Z.ltb_spec P (H * W)) as [Lt|Ge].
    + replace (P <? 0) with false by (symmetry; apply Z.ltb_ge; lia). cbn [Bool.eqb].
      split; [exact Wr|]. split; [rewrite Vr, (wrap256_pos P PW); replace (P <? H * W) with true by (symmetry; apply Z.ltb_lt; lia); lia|].
      apply in256_iff. fold W. lia.
    + replace (P - W * W <? 0) with true by (symmetry; apply Z.ltb_lt; lia). cbn [Bool.eqb].
      destruct (in256 (value a * value b)) eqn:I; [|reflexivity]. apply in256_iff in I. fold W in I. lia.
Qed.

(* ---- div_rem: sign handling around the exact unsigned division of the magnitudes *)
Lemma of_uval_spec z : 0 <= z < W * W ->
  wf (of_uval H z) /\ value (of_uval H z) = wrap256 z.
Proof.
  intros R. unfold of_uval. fold W.
  pose proof (Z.div_mod z W ltac:(lia)) as D. pose proof (Z.mod_pos_bound z W Wpos') as M.
  destruct (wraps_cong B H Bpos BB (z / W)) as [k E]. pose proof (wraps_range B H Bpos BB (z / W)) as Rs.
  fold W in E.
  assert (WF : wf (mk256 (z mod W) (wraps H (z / W)))) by (split; cbn [low high]; [fold W; lia|assumption]).
  split; [exact WF|].
  apply (wrap256_unique B H Bpos BB) with (k := k); [apply (val_range B H Bpos BB _ WF)|].
  unfold val. cbn [low high]. fold W. rewrite E. rewrite D at 3. ring.
Qed.

Lemma wrap256_small' z : - (H * W) <= z < H * W -> wrap256 z = z.
Proof. intros R. apply wrap256_small. exact R. Qed.

Lemma wrap256_HW : wrap256 (H * W) = - (H * W).
Proof. symmetry. apply (wrap256_unique B H Bpos BB) with (k := -1); [lia|unfold W; ring]. Qed.

Theorem div_rem_spec a b : wf a -> wf b ->
  match div_rem256 H a b with
  | inr k => (k = E_DIVZERO /\ value b = 0) \/ (k = E_OVERFLOW /\ value a = - (H * W) /\ value b = -1)
  | inl (q, r) => value b <> 0 /\ wf q /\ wf r /\
                  value q = Z.quot (value a) (value b) /\ value r = Z.rem (value a) (value b)
  end.
Proof.
  intros Wa Wb. unfold div_rem256.
  destruct (wf_ZERO B H Bpos BB) as [W0 V0]. destruct (wf_MINUS_ONE B H Bpos BB) as [W1 V1].
  destruct (wf_MIN B H Bpos BB) as [Wm Vm]. fold W in Vm.
  rewrite (is_eq_spec B H Bpos BB b ZERO Wb W0), V0.
  destruct (Z.eqb_spec (value b) 0) as [Zb|Zb]; [left; auto|].
  rewrite (is_eq_spec B H Bpos BB b _ Wb W1), V1, (is_eq_spec B H Bpos BB a _ Wa Wm), Vm.
  destruct (Z.eqb_spec (value b) (-1)) as [Mb|Mb]; destruct (Z.eqb_spec (value a) (- (H * W))) as [Ma|Ma]; cbn [andb];
    [right; auto| | | ].
  all: unfold udivrem; rewrite (uval_abs B H Bpos BB a Wa), (uval_abs B H Bpos BB b Wb).
  all: pose proof (val_range B H Bpos BB a Wa) as Ra; pose proof (val_range B H Bpos BB b Wb) as Rb; fold W in Ra, Rb.
  all: assert (Q : W * W = 2 * (H * W)) by (unfold W; ring).
  all: assert (Pb : 0 < Z.abs (value b)) by lia.
  all: rewrite <- (Z.quot_div_nonneg (Z.abs (value a)) (Z.abs (value b))) by lia.
  all: rewrite <- (Z.rem_mod_nonneg (Z.abs (value a)) (Z.abs (value b))) by lia.
  all: rewrite Z.quot_abs, Z.rem_abs by assumption.
  all: pose proof (quot_bound (value a) (value b) Zb) as Qb.
  all: pose proof (Zquot.Zrem_lt_pos (Z.abs (value a)) (value b) ltac:(lia) Zb) as Rrem0.
  all: assert (Rrem : 0 <= Z.abs (Z.rem (value a) (value b)) < Z.abs (value b))
         by (rewrite <- Z.rem_abs by assumption; rewrite Z.rem_abs_r by assumption; exact Rrem0).
  all: destruct (of_uval_spec (Z.abs (Z.quot (value a) (value b))) ltac:(lia)) as [Wq Vq].
  all: destruct (of_uval_spec (Z.abs (Z.rem (value a) (value b))) ltac:(lia)) as [Wr Vr].
  all: rewrite wrap256_small in Vr by (fold W; lia).
  all: destruct (wrapping_neg_spec B H Bpos BB _ Wq) as [Wnq Vnq]; destruct (wrapping_neg_spec B H Bpos BB _ Wr) as [Wnr Vnr].
  all: fold W in Vnq, Vnr.
  all: unfold is_negative; rewrite (val_sign B H Bpos BB a Wa), (val_sign B H Bpos BB b Wb).
  all: split; [assumption|].
  (* remainder: sign of the dividend *)
  all: assert (RemOk : wf (if value a <? 0 then wrapping_neg256 H (of_uval H (Z.abs (Z.rem (value a) (value b)))) else of_uval H (Z.abs (Z.rem (value a) (value b))))
         /\ value (if value a <? 0 then wrapping_neg256 H (of_uval H (Z.abs (Z.rem (value a) (value b)))) else of_uval H (Z.abs (Z.rem (value a) (value b)))) = Z.rem (value a) (value b)).
  all: try (destruct (Z.ltb_spec (value a) 0) as [Na|Na];
    [ split; [exact Wnr|]; rewrite Vnr, Vr; rewrite wrap256_small by (fold W; lia);
      pose proof (Zquot.Zrem_lt_neg (value a) (value b) ltac:(lia) Zb); lia
    | split; [exact Wr|]; rewrite Vr;
      pose proof (Zquot.Zrem_lt_pos (value a) (value b) Na Zb); lia ]).
  all: destruct RemOk as [WR VR].
  (* quotient *)
  all: assert (QuotOk : wf (if Bool.eqb (value a <? 0) (value b <? 0) then of_uval H (Z.abs (Z.quot (value a) (value b))) else wrapping_neg256 H (of_uval H (Z.abs (Z.quot (value a) (value b)))))
         /\ value (if Bool.eqb (value a <? 0) (value b <? 0) then of_uval H (Z.abs (Z.quot (value a) (value b))) else wrapping_neg256 H (of_uval H (Z.abs (Z.quot (value a) (value b))))) = Z.quot (value a) (value b));
       [|destruct QuotOk as [WQ VQ]; auto].
  (* sign of the quotient *)
  all: assert (Sg : if Bool.eqb (value a <? 0) (value b <? 0) then 0 <= Z.quot (value a) (value b) else Z.quot (value a) (value b) <= 0).
  all: try (destruct (Z.ltb_spec (value a) 0), (Z.ltb_spec (value b) 0); cbn [Bool.eqb];
            [ rewrite <- (Z.quot_opp_opp (value a) (value b)) by assumption; apply Z.quot_pos; lia
            | rewrite <- (Z.opp_involutive (value a)), Z.quot_opp_l by assumption; pose proof (Z.quot_pos (- value a) (value b) ltac:(lia) ltac:(lia)); lia
            | rewrite <- (Z.opp_involutive (value b)), Z.quot_opp_r by lia; pose proof (Z.quot_pos (value a) (- value b) ltac:(lia) ltac:(lia)); lia
            | apply Z.quot_pos; lia ]).
  - (* b = -1, a <> MIN *)
    destruct (Bool.eqb (value a <? 0) (value b <? 0)).
    + split; [exact Wq|]. rewrite Vq, wrap256_small by (fold W; lia). lia.
    + split; [exact Wnq|]. rewrite Vnq, Vq. rewrite (wrap256_small' (Z.abs (Z.quot (value a) (value b)))) by lia. rewrite wrap256_small' by lia. lia.
  - (* a = MIN, b <> -1 *)
    destruct (Bool.eqb (value a <? 0) (value b <? 0)) eqn:Eq.
    + (* same sign: b <= -2, |q| <= HW/2 *)
      assert (Nb : value b < 0).
      { destruct (Z.ltb_spec (value a) 0), (Z.ltb_spec (value b) 0); cbn [Bool.eqb] in Eq; try discriminate; lia. }
      assert (Lt : Z.abs (Z.quot (value a) (value b)) < H * W).
      { rewrite <- Z.quot_abs by assumption. rewrite Ma.
        assert (A : Z.abs (- (H * W)) = H * W) by lia. rewrite A.
        assert (Z.quot (H * W) (Z.abs (value b)) <= Z.quot (H * W) 2) by (apply Z.quot_le_compat_l; lia).
        assert (Z.quot (H * W) 2 < H * W) by (apply Z.quot_lt; lia). lia. }
      split; [exact Wq|]. rewrite Vq, wrap256_small by (fold W; lia). lia.
    + split; [exact Wnq|]. rewrite Vnq, Vq.
      destruct (Z.eq_dec (Z.abs (Z.quot (value a) (value b))) (H * W)) as [E|E].
      * rewrite E, wrap256_HW, Z.opp_involutive, wrap256_HW. lia.
      * rewrite (wrap256_small' (Z.abs (Z.quot (value a) (value b)))) by lia. rewrite wrap256_small' by lia. lia.
  - (* general *)
    assert (Lt : Z.abs (Z.quot (value a) (value b)) < H * W) by lia.
    destruct (Bool.eqb (value a <? 0) (value b <? 0)).
    + split; [exact Wq|]. rewrite Vq, wrap256_small by (fold W; lia). lia.
    + split; [exact Wnq|]. rewrite Vnq, Vq. rewrite (wrap256_small' (Z.abs (Z.quot (value a) (value b)))) by lia. rewrite wrap256_small' by lia. lia.
Qed.

End Q.

(* non-vacuity: the concrete limb parameters satisfy the hypotheses, and concrete evaluations *)
Example limbs_ok : 0 < 2 ^ 64 /\ 2 ^ 64 * 2 ^ 64 = 2 * 2 ^ 127.
Proof. split; [reflexivity|reflexivity]. Qed.
Example ex_checked_mul_edge :
  option_map (val (2 ^ 127)) (checked_mul256 (2 ^ 64) (2 ^ 127) (of_val (2 ^ 127) (- 2 ^ 128)) (of_val (2 ^ 127) (2 ^ 127)))
  = Some (- 2 ^ 255) /\
  checked_mul256 (2 ^ 64) (2 ^ 127) (of_val (2 ^ 127) (2 ^ 128)) (of_val (2 ^ 127) (2 ^ 127)) = None.
Proof. vm_compute. split; reflexivity. Qed.
Example ex_div_rem_min :
  div_rem256 (2 ^ 127) (of_val (2 ^ 127) (- 2 ^ 255)) (of_val (2 ^ 127) (-1)) = inr E_OVERFLOW /\
  match div_rem256 (2 ^ 127) (of_val (2 ^ 127) (- 2 ^ 255)) (of_val (2 ^ 127) 1) with
  | inl (q, r) => val (2 ^ 127) q = - 2 ^ 255 /\ val (2 ^ 127) r = 0 | inr _ => False end.
Proof. vm_compute. split; [reflexivity|split; reflexivity]. Qed.
