(* C14 — JSON TapeDecoder: one decode call on a ++ b = a call on a followed (if a was consumed
   completely) by a call on b: the bulk operations never look across the cut. *)
From Coq Require Import List Arith NArith Bool Lia.
From AV Require Import Model.C14_Json.
Import ListNotations.
Local Open Scope N_scope.

Definition st_of (r : jres) : jstatus := snd r.

(* ---- helpers about the bulk primitives ---- *)
Lemma span_app p a b : span p (a ++ b) =
  match span p a with
  | (s1, []) => let '(s2, r2) := span p b in (s1 ++ s2, r2)
  | (s1, r1) => (s1, r1 ++ b)
  end.
Proof.
  induction a as [|x a IH]; cbn [app span].
  - destruct (span p b); reflexivity.
  - destruct (p x); [|reflexivity]. rewrite IH. destruct (span p a) as [s1 r1].
    destruct r1 as [|y r1]; [destruct (span p b); reflexivity|reflexivity].
Qed.

Lemma span_all_nil p a s1 : span p a = (s1, []) -> s1 = a.
Proof.
  revert s1; induction a as [|x a IH]; intros s1 H; cbn [span] in H; [now inversion H|].
  destruct (p x); [|discriminate]. destruct (span p a) as [s r] eqn:E. inversion H; subst. f_equal. now apply IH.
Qed.

Lemma lit_zip_idx_ge : forall e a idx idx' rest ok, lit_zip e a idx = (idx', rest, ok) -> (idx <= idx')%nat.
Proof.
  induction e as [|e1 es IH]; intros a idx idx' rest ok H.
  - destruct a; cbn in H; inversion H; lia.
  - destruct a as [|x a]; cbn [lit_zip] in H; [inversion H; lia|].
    destruct (x =? e1); [apply IH in H; lia|inversion H; lia].
Qed.

Lemma lit_zip_app : forall a e b idx,
  lit_zip e (a ++ b) idx =
  match lit_zip e a idx with
  | (idx', [], true) => lit_zip (skipn (idx' - idx) e) b idx'
  | (idx', rest, ok) => (idx', rest ++ b, ok)
  end.
Proof.
  induction a as [|x a IH]; intros e b idx.
  - cbn [app]. assert (E : lit_zip e [] idx = (idx, [], true)) by (destruct e; reflexivity).
    rewrite E, Nat.sub_diag. reflexivity.
  - destruct e as [|e1 es]; [reflexivity|]. cbn [app lit_zip].
    destruct (x =? e1); [|destruct a; reflexivity]. rewrite IH.
    destruct (lit_zip es a (S idx)) as [[idx' rest] ok] eqn:E. pose proof (lit_zip_idx_ge _ _ _ _ _ _ E) as Hge.
    destruct rest; [|reflexivity]. destruct ok; [|reflexivity].
    replace (idx' - idx)%nat with (S (idx' - S idx)) by lia. reflexivity.
Qed.

Lemma skipn_skipn' {A} (l : list A) a b : skipn a (skipn b l) = skipn (b + a) l.
Proof.
  revert l; induction b as [|b IH]; intros l; [reflexivity|]. destruct l; [now rewrite !skipn_nil|]. cbn [skipn Nat.add]. apply IH.
Qed.

(* ---- the \uXXXX loop ---- *)
Lemma with_stack_idem t s s' : with_stack (with_stack t s') s = with_stack t s.
Proof. reflexivity. Qed.

Lemma unicode_stack_irrel : forall k t s' st h l idx buf,
  unicode_loop k (with_stack t s') st h l idx buf = unicode_loop k t st h l idx buf.
Proof.
  induction k as [|k IH]; intros t s' st h l idx buf; cbn [unicode_loop]; [reflexivity|].
  destruct (idx <=? 3)%nat.
  { destruct buf as [|b r]; [reflexivity|]. destruct (parse_hex b); [apply IH|reflexivity]. }
  destruct (idx =? 4)%nat.
  { destruct (negb (is_surrogate h)); [reflexivity|]. destruct buf as [|b r]; [reflexivity|].
    destruct (b =? 92); [apply IH|reflexivity]. }
  destruct (idx =? 5)%nat.
  { destruct buf as [|b r]; [reflexivity|]. destruct (b =? 117); [apply IH|reflexivity]. }
  destruct (idx <=? 9)%nat.
  { destruct buf as [|b r]; [reflexivity|]. destruct (parse_hex b); [apply IH|reflexivity]. }
  reflexivity.
Qed.

Lemma unicode_enough : forall k1 k2 t st h l idx buf,
  (11 - idx <= k1)%nat -> (11 - idx <= k2)%nat -> (1 <= k1)%nat -> (1 <= k2)%nat ->
  unicode_loop k1 t st h l idx buf = unicode_loop k2 t st h l idx buf.
Proof.
  induction k1 as [|k1 IH]; intros k2 t st h l idx buf H1 H2 P1 P2; [lia|].
  destruct k2 as [|k2]; [lia|]. cbn [unicode_loop].
  destruct (Nat.leb_spec idx 3).
  { destruct buf as [|b r]; [reflexivity|]. destruct (parse_hex b); [|reflexivity]. apply IH; lia. }
  destruct (Nat.eqb_spec idx 4).
  { destruct (negb (is_surrogate h)); [reflexivity|]. destruct buf as [|b r]; [reflexivity|].
    destruct (b =? 92); [|reflexivity]. apply IH; lia. }
  destruct (Nat.eqb_spec idx 5).
  { destruct buf as [|b r]; [reflexivity|]. destruct (b =? 117); [|reflexivity]. apply IH; lia. }
  destruct (Nat.leb_spec idx 9).
  { destruct buf as [|b r]; [reflexivity|]. destruct (parse_hex b); [|reflexivity]. apply IH; lia. }
  reflexivity.
Qed.

(* what the loop does on a ++ b, in terms of what it does on a *)
Lemma unicode_app : forall k t st h l idx a b, (11 - idx <= k)%nat -> (1 <= k)%nat -> b <> [] ->
  match unicode_loop k t st h l idx a with
  | (t1, [], JOk) =>
      (exists h' l' idx', t1 = with_stack t (JUnicode h' l' idx' :: st) /\
         forall k2, (11 - idx' <= k2)%nat -> (1 <= k2)%nat ->
           unicode_loop k t st h l idx (a ++ b) = unicode_loop k2 t st h' l' idx' b)
      \/ unicode_loop k t st h l idx (a ++ b) = (t1, b, JOk)
  | (t1, rest, s) => unicode_loop k t st h l idx (a ++ b) = (t1, rest ++ b, s)
  end.
Proof.
  induction k as [|k IH]; intros t st h l idx a b Hk Hk1 Hb; [lia|].
  cbn [unicode_loop].
  (* a generic step: consuming the head of a and looping *)
  assert (Hstay : forall k2, (11 - idx <= k2)%nat -> (1 <= k2)%nat ->
            unicode_loop (S k) t st h l idx ([] ++ b) = unicode_loop k2 t st h l idx b)
    by (intros k2 A B; cbn [app]; apply unicode_enough; lia).
  destruct (Nat.leb_spec idx 3) as [L3|L3].
  { destruct a as [|x a].
    - left. exists h, l, idx. split; [reflexivity|]. intros k2 A B. rewrite (unicode_enough k2 (S k) t st h l idx b A ltac:(lia) B ltac:(lia)). cbn [unicode_loop app].
      destruct (Nat.leb_spec idx 3); [reflexivity|lia].
    - cbn [app]. destruct (parse_hex x); [|destruct a; reflexivity]. apply IH; [lia|lia|exact Hb]. }
  destruct (Nat.eqb_spec idx 4) as [E4|E4].
  { destruct (negb (is_surrogate h)) eqn:Es.
    - destruct a as [|x a]; [right; reflexivity|reflexivity].
    - destruct a as [|x a].
      + left. exists h, l, idx. split; [reflexivity|]. intros k2 A B. rewrite (unicode_enough k2 (S k) t st h l idx b A ltac:(lia) B ltac:(lia)). cbn [unicode_loop app].
        destruct (Nat.leb_spec idx 3); [lia|]. destruct (Nat.eqb_spec idx 4); [|lia]. rewrite Es. reflexivity.
      + cbn [app]. destruct (x =? 92); [|destruct a; reflexivity]. apply IH; [lia|lia|exact Hb]. }
  destruct (Nat.eqb_spec idx 5) as [E5|E5].
  { destruct a as [|x a].
    - left. exists h, l, idx. split; [reflexivity|]. intros k2 A B. rewrite (unicode_enough k2 (S k) t st h l idx b A ltac:(lia) B ltac:(lia)). cbn [unicode_loop app].
      destruct (Nat.leb_spec idx 3); [lia|]. destruct (Nat.eqb_spec idx 4); [lia|]. destruct (Nat.eqb_spec idx 5); [reflexivity|lia].
    - cbn [app]. destruct (x =? 117); [|destruct a; reflexivity]. apply IH; [lia|lia|exact Hb]. }
  destruct (Nat.leb_spec idx 9) as [L9|L9].
  { destruct a as [|x a].
    - left. exists h, l, idx. split; [reflexivity|]. intros k2 A B. rewrite (unicode_enough k2 (S k) t st h l idx b A ltac:(lia) B ltac:(lia)). cbn [unicode_loop app].
      destruct (Nat.leb_spec idx 3); [lia|]. destruct (Nat.eqb_spec idx 4); [lia|]. destruct (Nat.eqb_spec idx 5); [lia|].
      destruct (Nat.leb_spec idx 9); [reflexivity|lia].
    - cbn [app]. destruct (parse_hex x); [|destruct a; reflexivity]. apply IH; [lia|lia|exact Hb]. }
  destruct (surrogate_pair l h); destruct a as [|x a]; try reflexivity. right; reflexivity.
Qed.

Section P.
Variable batch_size : nat.
Variable flatten : bool.
Notation jdecode := (jdecode batch_size flatten).
Notation jrun1 := (jrun1 batch_size flatten).

(* one loop iteration with its two exits made explicit *)
Notation step_res := (jres + tape * list N)%type.
Definition jstep (t : tape) (buf : list N) : step_res :=
  @C14_Json.jarm batch_size flatten step_res inl (fun t' b' => inr (t', b')) t buf.

Ltac split_goal :=
  repeat match goal with
         | |- context [if ?c then _ else _] => destruct c
         | |- context [match ?x with _ => _ end] => destruct x
         end.

Lemma jarm_param {A} (ret : jres -> A) (rec : tape -> list N -> A) t buf :
  @C14_Json.jarm batch_size flatten A ret rec t buf = match jstep t buf with inl r => ret r | inr (t', b') => rec t' b' end.
Proof. unfold jstep, C14_Json.jarm. split_goal; reflexivity. Qed.

Lemma jdecode_unfold f t b r :
  jdecode (S f) t (b :: r) = match jstep t (b :: r) with inl res => res | inr (t', b') => jdecode f t' b' end.
Proof. cbn [C14_Json.jdecode]. apply (jarm_param (fun x => x) (jdecode f)). Qed.
Lemma jdecode_nil f t : jdecode f t [] = (t, [], JOk).
Proof. destruct f; reflexivity. Qed.

(* ---- more fuel does not change a completed run ---- *)
Lemma jdecode_mono : forall f t buf R,
  jdecode f t buf = R -> st_of R <> JOof -> jdecode (S f) t buf = R.
Proof.
  induction f as [|f IH]; intros t buf R H Hn.
  - destruct buf as [|b r]; [rewrite jdecode_nil in *; exact H|]. cbn in H. subst R. cbn in Hn. congruence.
  - destruct buf as [|b r]; [rewrite jdecode_nil in *; exact H|].
    rewrite jdecode_unfold in H. rewrite jdecode_unfold.
    destruct (jstep t (b :: r)) as [res|[t' b']]; [exact H|]. apply IH; assumption.
Qed.
Lemma jdecode_mono_le : forall f f' t buf R, (f <= f')%nat ->
  jdecode f t buf = R -> st_of R <> JOof -> jdecode f' t buf = R.
Proof.
  intros f f' t buf R Hle. induction Hle as [|f' Hle IH]; intros H Hn; [exact H|].
  apply jdecode_mono; auto.
Qed.

(* ---- what one loop iteration does on a ++ b, in terms of what it does on a ---- *)
Definition step_app_ok (t : tape) (a b : list N) : Prop :=
  match jstep t a with
  | inr (t2, []) => jstep t (a ++ b) = inr (t2, b) \/ jstep t (a ++ b) = jstep t2 b
  | inr (t2, a2) => jstep t (a ++ b) = inr (t2, a2 ++ b)
  | inl (t1, [], JOk) => jstep t (a ++ b) = jstep t1 b
  | inl (t1, rest, s) => jstep t (a ++ b) = inl (t1, rest ++ b, s)
  end.

Lemma jstep_eq t buf : jstep t buf = @C14_Json.jarm batch_size flatten step_res inl (fun t' b' => inr (t', b')) t buf.
Proof. reflexivity. Qed.

Ltac ifs_in2 H H2 := repeat match type of H with context [if ?c then _ else _] => let E := fresh "Ec" in destruct c eqn:E; rewrite ?E in H2; cbv beta iota in H; cbv beta iota in H2 end.

(* arms that first skip a run of bytes satisfying p and then look at one byte *)
Ltac skip_arm p a b :=
  unfold step_app_ok;
  let A := fresh "A" in let AB := fresh "AB" in let EA := fresh "EA" in let EAB := fresh "EAB" in
  let s1 := fresh "s" in let r1 := fresh "r" in let c := fresh "c" in
  match goal with |- context [jstep ?T (a ++ b)] =>
    remember (jstep T (a ++ b)) as AB eqn:EAB; remember (jstep T a) as A eqn:EA;
    rewrite jstep_eq in EA, EAB; unfold C14_Json.jarm in EA, EAB;
    cbn [t_stack t_elems t_row t_bytes t_offsets] in EA, EAB;
    rewrite (span_app p) in EAB;
    destruct (span p a) as [s1 r1]; destruct r1 as [|c r1]; cbn [snd fst app] in EA, EAB;
    [ (* all of a is skipped *)
      ifs_in2 EA EAB; subst A;
      (let s2 := fresh "s" in let r2 := fresh "r" in let E2 := fresh "E" in
       destruct (span p b) as [s2 r2] eqn:E2; cbn [snd fst] in EAB; subst AB;
       rewrite jstep_eq; unfold C14_Json.jarm; cbn [t_stack t_elems t_row t_bytes t_offsets];
       rewrite E2; cbn [snd fst]; repeat match goal with E : ?c = _ |- context [if ?c then _ else _] => rewrite E end; reflexivity)
    | (* the arm looks at byte c of a *)
      ifs_in2 EA EAB; subst A; subst AB;
      first [ reflexivity
            | destruct r1; cbn [app]; first [reflexivity | left; reflexivity] ] ]
  end.

Ltac open_arm a b :=
  unfold step_app_ok;
  match goal with |- context [jstep ?T (a ++ b)] =>
    remember (jstep T (a ++ b)) as AB eqn:EAB; remember (jstep T a) as A eqn:EA;
    rewrite jstep_eq in EA, EAB; unfold C14_Json.jarm in EA, EAB;
    cbn [t_stack t_elems t_row t_bytes t_offsets] in EA, EAB
  end.
Ltac open_rhs :=
  rewrite jstep_eq; unfold C14_Json.jarm, with_stack, push_elem, close_token;
  cbn [t_stack t_elems t_row t_bytes t_offsets].

Lemma jstep_app : forall t a b, a <> [] -> b <> [] -> step_app_ok t a b.
Proof.
  intros t a b Ha Hb. destruct t as [el row bys off stk].
  destruct stk as [|top st]; [|destruct top].
  - (* no state: start of a row *) skip_arm json_whitespace a b.
  - (* TopLevelList *) skip_arm ws_or_comma a b.
  - (* Object *) skip_arm ws_or_comma a b.
  - (* List *) skip_arm ws_or_comma a b.
  - (* String *)
    open_arm a b. rewrite (span_app not_str_special) in EAB.
    destruct (span not_str_special a) as [s1 r1]. destruct r1 as [|c r1]; cbn [snd fst app] in EA, EAB.
    + subst A. destruct (span not_str_special b) as [s2 r2] eqn:E2. subst AB. open_rhs. rewrite E2.
      rewrite <- app_assoc. unfold close_token. cbn [t_stack t_elems t_row t_bytes t_offsets]. reflexivity.
    + ifs_in2 EA EAB; subst A; subst AB; destruct r1; cbn [app]; first [reflexivity | left; reflexivity].
  - (* Value *) skip_arm json_whitespace a b.
  - (* Number *)
    open_arm a b. rewrite (span_app num_char) in EAB.
    destruct (span num_char a) as [s1 r1]. destruct r1 as [|c r1]; cbn [snd fst app] in EA, EAB.
    + subst A. destruct (span num_char b) as [s2 r2] eqn:E2. subst AB. open_rhs. rewrite E2.
      rewrite <- app_assoc. unfold close_token. cbn [t_stack t_elems t_row t_bytes t_offsets]. reflexivity.
    + subst A; subst AB. reflexivity.
  - (* Colon *) skip_arm json_whitespace a b.
  - (* Escape *)
    open_arm a b. destruct a as [|x a]; [congruence|]. cbn [app] in EAB.
    ifs_in2 EA EAB; [subst A; subst AB; destruct a; cbn [app]; first [reflexivity | left; reflexivity]|].
    destruct (escape_char x); subst A; subst AB; destruct a; cbn [app]; first [reflexivity | left; reflexivity].
  - (* Unicode *)
    open_arm a b.
    assert (Hk1 : (11 - idx <= S (11 - idx))%nat) by lia. assert (Hk2 : (1 <= S (11 - idx))%nat) by lia.
    pose proof (unicode_app (S (11 - idx)) (MkTape el row bys off (JUnicode high low idx :: st)) st high low idx a b Hk1 Hk2 Hb) as U.
    destruct (unicode_loop (S (11 - idx)) (MkTape el row bys off (JUnicode high low idx :: st)) st high low idx a) as [[t1 rest] s0].
    destruct rest as [|c rest]; destruct s0; subst A; cbv beta iota in U.
    + destruct U as [[h' [l' [idx' [Et U]]]]|U].
      * right. subst t1.
        rewrite jstep_eq. unfold C14_Json.jarm.
        change (t_stack (with_stack (MkTape el row bys off (JUnicode high low idx :: st)) (JUnicode h' l' idx' :: st)))
          with (JUnicode h' l' idx' :: st).
        cbv beta iota.
        rewrite (U (S (11 - idx')) ltac:(lia) ltac:(lia)) in EAB. subst AB.
        rewrite unicode_stack_irrel. reflexivity.
      * left. rewrite U in EAB. subst AB. reflexivity.
    + rewrite U in EAB. subst AB. reflexivity.
    + rewrite U in EAB. subst AB. reflexivity.
    + rewrite U in EAB. subst AB. reflexivity.
    + rewrite U in EAB. subst AB. reflexivity.
    + rewrite U in EAB. subst AB. reflexivity.
  - (* Literal *)
    open_arm a b. rewrite lit_zip_app in EAB.
    destruct (lit_zip (skipn idx (lit_bytes l)) a idx) as [[idx' rest] ok] eqn:Ez.
    pose proof (lit_zip_idx_ge _ _ _ _ _ _ Ez) as Hge.
    destruct rest as [|c rest]; destruct ok; cbn [negb] in EA, EAB.
    + rewrite skipn_skipn' in EAB. replace (idx + (idx' - idx))%nat with idx' in EAB by lia.
      destruct (Nat.eqb_spec idx' (length (lit_bytes l))) as [El|El]; subst A.
      * left. rewrite El, skipn_all in EAB. destruct b as [|y b]; [congruence|]. cbn [lit_zip negb] in EAB.
        rewrite Nat.eqb_refl in EAB. subst AB. reflexivity.
      * right. subst AB. open_rhs. reflexivity.
    + subst A; subst AB. reflexivity.
    + subst A; subst AB. destruct (idx' =? length (lit_bytes l))%nat; reflexivity.
    + subst A; subst AB. reflexivity.
Qed.


(* ---- the property for the tape decoder ---- *)
Definition split_ok (f : nat) (t : tape) (a b : list N) (R : jres) : Prop :=
  match jdecode f t a with
  | (t1, [], JOk) => jdecode f t1 b = R
  | (t1, rest, JOk) => R = (t1, rest ++ b, JOk)
  | (t1, rest, JErr) => R = (t1, rest ++ b, JErr)
  | (_, _, JOof) => False
  end.

Theorem jsplit : forall f t a b R, jdecode f t (a ++ b) = R -> st_of R <> JOof -> split_ok f t a b R.
Proof.
  induction f as [|f IH]; intros t a b R H Hn.
  - destruct a as [|x a].
    + unfold split_ok. rewrite jdecode_nil. exact H.
    + cbn in H. subst R. cbn in Hn. congruence.
  - destruct a as [|x a]; [unfold split_ok; rewrite jdecode_nil; exact H|].
    destruct b as [|y b].
    { rewrite app_nil_r in H. unfold split_ok. rewrite H. destruct R as [[t1 rest] s0].
      destruct rest; destruct s0; try (cbn in Hn; congruence); try (now rewrite app_nil_r); try reflexivity;
        try apply jdecode_nil. }
    pose proof (jstep_app t (x :: a) (y :: b) ltac:(discriminate) ltac:(discriminate)) as Hs.
    unfold step_app_ok in Hs. unfold split_ok.
    change ((x :: a) ++ y :: b) with (x :: (a ++ y :: b)) in H. rewrite jdecode_unfold in H.
    change (x :: (a ++ y :: b)) with ((x :: a) ++ y :: b) in H. rewrite jdecode_unfold.
    destruct (jstep t (x :: a)) as [[[t1 rest] s0]|[t2 a2]].
    + (* the iteration returns inside a *)
      destruct rest as [|c rest]; destruct s0; try (rewrite Hs in H; subst R; reflexivity).
      * (* all of a consumed by this iteration, which stops for lack of input *)
        rewrite Hs in H. rewrite jdecode_unfold. exact H.
      * rewrite Hs in H. subst R. cbn in Hn. congruence.
      * rewrite Hs in H. subst R. cbn in Hn. congruence.
    + (* the iteration goes round the loop *)
      destruct a2 as [|c a2].
      * destruct Hs as [Hs|Hs]; rewrite Hs in H.
        -- rewrite jdecode_nil. apply jdecode_mono; assumption.
        -- rewrite jdecode_nil. rewrite jdecode_unfold. exact H.
      * rewrite Hs in H. specialize (IH t2 (c :: a2) (y :: b) R H Hn). unfold split_ok in IH.
        destruct (jdecode f t2 (c :: a2)) as [[t1 rest] s0]. destruct s0; [|exact IH|exact IH].
        destruct rest; [|exact IH]. apply jdecode_mono; assumption.
Qed.

(* bulk = byte-at-a-time *)
Theorem jdecode_is_jrun1 : forall buf f t R, jdecode f t buf = R -> st_of R <> JOof -> jrun1 f t buf = R.
Proof.
  induction buf as [|x buf IH]; intros f t R H Hn.
  - rewrite jdecode_nil in H. exact H.
  - cbn [C14_Json.jrun1]. pose proof (jsplit f t [x] buf R H Hn) as Hs. unfold split_ok in Hs.
    destruct (jdecode f t [x]) as [[t1 rest] s0]. destruct rest; destruct s0;
      first [contradiction | apply IH; assumption | symmetry; exact Hs].
Qed.

End P.
