(* C14 — JSON TapeDecoder: one decode call on a ++ b = a call on a followed (if a was consumed
   completely) by a call on b: the bulk operations never look across the cut. *)
From Coq Require Import List Arith NArith Bool Lia.
From AV Require Import Model.C14_Json.
Import ListNotations.
Local Open Scope N_scope.

Definition st_of (r : jres) : jstatus := snd r.

(* ---- helpers about the bulk primitives ---- *)
Lemma span_app p a b : span p (a ++ b) =
  match span p a with
  | (s1, []) => let '(s2, r2) := span p b in (s1 ++ s2, r2)
  | (s1, r1) => (s1, r1 ++ b)
  end.
Proof.
  induction a as [|x a IH]; cbn [app span].
  - destruct (span p b); reflexivity.
  - destruct (p x); [|reflexivity]. rewrite IH. destruct (span p a) as [s1 r1].
    destruct r1 as [|y r1]; [destruct (span p b); reflexivity|reflexivity].
Qed.

Lemma span_all_nil p a s1 : span p a = (s1, []) -> s1 = a.
Proof.
  revert s1; induction a as [|x a IH]; intros s1 H; cbn [span] in H; [now inversion H|].
  destruct (p x); [|discriminate]. destruct (span p a) as [s r] eqn:E. inversion H; subst. f_equal. now apply IH.
Qed.

Lemma lit_zip_idx_ge : forall e a idx idx' rest ok, lit_zip e a idx = (idx', rest, ok) -> (idx <= idx')%nat.
Proof.
  induction e as [|e1 es IH]; intros a idx idx' rest ok H.
  - destruct a; cbn in H; inversion H; lia.
  - destruct a as [|x a]; cbn [lit_zip] in H; [inversion H; lia|].
    destruct (x =? e1); [apply IH in H; lia|inversion H; lia].
Qed.

Lemma lit_zip_app : forall a e b idx,
  lit_zip e (a ++ b) idx =
  match lit_zip e a idx with
  | (idx', [], true) => lit_zip (skipn (idx' - idx) e) b idx'
  | (idx', rest, ok) => (idx', rest ++ b, ok)
  end.
Proof.
  induction a as [|x a IH]; intros e b idx.
  - cbn [app]. assert (E : lit_zip e [] idx = (idx, [], true)) by (destruct e; reflexivity).
    rewrite E, Nat.sub_diag. reflexivity.
  - destruct e as [|e1 es]; [reflexivity|]. cbn [app lit_zip].
    destruct (x =? e1); [|destruct a; reflexivity]. rewrite IH.
    destruct (lit_zip es a (S idx)) as [[idx' rest] ok] eqn:E. pose proof (lit_zip_idx_ge _ _ _ _ _ _ E) as Hge.
    destruct rest; [|reflexivity]. destruct ok; [|reflexivity].
    replace (idx' - idx)%nat with (S (idx' - S idx)) by lia. reflexivity.
Qed.

Lemma skipn_skipn' {A} (l : list A) a b : skipn a (skipn b l) = skipn (b + a) l.
Proof.
  revert l; induction b as [|b IH]; intros l; [reflexivity|]. destruct l; [now rewrite !skipn_nil|]. cbn [skipn Nat.add]. apply IH.
Qed.

(* ---- the \uXXXX loop ---- *)
Lemma with_stack_idem t s s' : with_stack (with_stack t s') s = with_stack t s.
Proof. reflexivity. Qed.

Lemma unicode_stack_irrel : forall k t s' st h l idx buf,
  unicode_loop k (with_stack t s') st h l idx buf = unicode_loop k t st h l idx buf.
Proof.
  induction k as [|k IH]; intros t s' st h l idx buf; cbn [unicode_loop]; [reflexivity|].
  destruct (idx <=? 3)%nat.
  { destruct buf as [|b r]; [reflexivity|]. destruct (parse_hex b); [apply IH|reflexivity]. }
  destruct (idx =? 4)%nat.
  { destruct (negb (is_surrogate h)); [reflexivity|]. destruct buf as [|b r]; [reflexivity|].
    destruct (b =? 92); [apply IH|reflexivity]. }
  destruct (idx =? 5)%nat.
  { destruct buf as [|b r]; [reflexivity|]. destruct (b =? 117); [apply IH|reflexivity]. }
  destruct (idx <=? 9)%nat.
  { destruct buf as [|b r]; [reflexivity|]. destruct (parse_hex b); [apply IH|reflexivity]. }
  reflexivity.
Qed.

Lemma unicode_enough : forall k1 k2 t st h l idx buf,
  (11 - idx <= k1)%nat -> (11 - idx <= k2)%nat -> (1 <= k1)%nat -> (1 <= k2)%nat ->
  unicode_loop k1 t st h l idx buf = unicode_loop k2 t st h l idx buf.
Proof.
  induction k1 as [|k1 IH]; intros k2 t st h l idx buf H1 H2 P1 P2; [lia|].
  destruct k2 as [|k2]; [lia|]. cbn [unicode_loop].
  destruct (Nat.leb_spec idx 3).
  { destruct buf as [|b r]; [reflexivity|]. destruct (parse_hex b); [|reflexivity]. apply IH; lia. }
  destruct (Nat.eqb_spec idx 4).
  { destruct (negb (is_surrogate h)); [reflexivity|]. destruct buf as [|b r]; [reflexivity|].
    destruct (b =? 92); [|reflexivity]. apply IH; lia. }
  destruct (Nat.eqb_spec idx 5).
  { destruct buf as [|b r]; [reflexivity|]. destruct (b =? 117); [|reflexivity]. apply IH; lia. }
  destruct (Nat.leb_spec idx 9).
  { destruct buf as [|b r]; [reflexivity|]. destruct (parse_hex b); [|reflexivity]. apply IH; lia. }
  reflexivity.
Qed.

(* what the loop does on a ++ b, in terms of what it does on a *)
Lemma unicode_app : forall k t st h l idx a b, (11 - idx <= k)%nat -> (1 <= k)%nat -> b <> [] ->
  match unicode_loop k t st h l idx a with
  | (t1, [], JOk) =>
      (exists h' l' idx', t1 = with_stack t (JUnicode h' l' idx' :: st) /\
         forall k2, (11 - idx' <= k2)%nat -> (1 <= k2)%nat ->
           unicode_loop k t st h l idx (a ++ b) = unicode_loop k2 t st h' l' idx' b)
      \/ unicode_loop k t st h l idx (a ++ b) = (t1, b, JOk)
  | (t1, rest, s) => unicode_loop k t st h l idx (a ++ b) = (t1, rest ++ b, s)
  end.
Proof.
  induction k as [|k IH]; intros t st h l idx a b Hk Hk1 Hb; [lia|].
  cbn [unicode_loop].
  (* a generic step: consuming the head of a and looping *)
  assert (Hstay : forall k2, (11 - idx <= k2)%nat -> (1 <= k2)%nat ->
            unicode_loop (S k) t st h l idx ([] ++ b) = unicode_loop k2 t st h l idx b)
    by (intros k2 A B; cbn [app]; apply unicode_enough; lia).
  destruct (Nat.leb_spec idx 3) as [L3|L3].
  { destruct a as [|x a].
    - left. exists h, l, idx. split; [reflexivity|]. intros k2 A B. rewrite (unicode_enough k2 (S k) t st h l idx b A ltac:(lia) B ltac:(lia)). cbn [unicode_loop app].
      destruct (Nat.leb_spec idx 3); [reflexivity|lia].
    - cbn [app]. destruct (parse_hex x); [|destruct a; reflexivity]. apply IH; [lia|lia|exact Hb]. }
  destruct (Nat.eqb_spec idx 4) as [E4|E4].
  { destruct (negb (is_surrogate h)) eqn:Es.
    - destruct a as [|x a]; [right; reflexivity|reflexivity].
    - destruct a as [|x a].
      + left. exists h, l, idx. split; [reflexivity|]. intros k2 A B. rewrite (unicode_enough k2 (S k) t st h l idx b A ltac:(lia) B ltac:(lia)). cbn [unicode_loop app].
        destruct (Nat.leb_spec idx 3); [lia|]. destruct (Nat.eqb_spec idx 4); [|lia]. rewrite Es. reflexivity.
      + cbn [app]. destruct (x =? 92); [|destruct a; reflexivity]. apply IH; [lia|lia|exact Hb]. }
  destruct (Nat.eqb_spec idx 5) as [E5|E5].
  { destruct a as [|x a].
    - left. exists h, l, idx. split; [reflexivity|]. intros k2 A B. rewrite (unicode_enough k2 (S k) t st h l idx b A ltac:(lia) B ltac:(lia)). cbn [unicode_loop app].
      destruct (Nat.leb_spec idx 3); [lia|]. destruct (Nat.eqb_spec idx 4); [lia|]. destruct (Nat.eqb_spec idx 5); [reflexivity|lia].
    - cbn [app]. destruct (x =? 117); [|destruct a; reflexivity]. apply IH; [lia|lia|exact Hb]. }
  destruct (Nat.leb_spec idx 9) as [L9|L9].
  { destruct a as [|x a].
    - left. exists h, l, idx. split; [reflexivity|]. intros k2 A B. rewrite (unicode_enough k2 (S k) t st h l idx b A ltac:(lia) B ltac:(lia)). cbn [unicode_loop app].
      destruct (Nat.leb_spec idx 3); [lia|]. destruct (Nat.eqb_spec idx 4); [lia|]. destruct (Nat.eqb_spec idx 5); [lia|].
      destruct (Nat.leb_spec idx 9); [reflexivity|lia].
    - cbn [app]. destruct (parse_hex x); [|destruct a; reflexivity]. apply IH; [lia|lia|exact Hb]. }
  destruct (surrogate_pair l h); destruct a as [|x a]; try reflexivity. right; reflexivity.
Qed.
