(* C07 — proofs about byte-wise truncation: order facts of [lex], [increment] yields a strict upper
   bound of every extension of its argument, prefixes are lower bounds. *)
From Coq Require Import List NArith Arith Lia Bool.
From AV Require Import Model.C07_Trunc.
Import ListNotations.
Local Open Scope N_scope.

(* ---------------------------------------------------------------- lex is a total order *)
Lemma lex_refl a : lex a a = Eq.
Proof. induction a as [|x a IH]; cbn [lex]; [reflexivity|]. now rewrite N.compare_refl. Qed.

Lemma lex_eq a b : lex a b = Eq -> a = b.
Proof.
  revert b; induction a as [|x a IH]; intros [|y b]; cbn [lex]; try discriminate; [reflexivity|].
  destruct (N.compare_spec x y) as [E|L|G]; try discriminate. intros H. subst. f_equal. now apply IH.
Qed.

Lemma lex_antisym a b : lex b a = CompOpp (lex a b).
Proof.
  revert b; induction a as [|x a IH]; intros [|y b]; cbn [lex]; try reflexivity.
  rewrite (N.compare_antisym x y). destruct (N.compare x y); cbn [CompOpp]; auto.
Qed.

Lemma lex_lt_trans a b c : lex a b = Lt -> lex b c = Lt -> lex a c = Lt.
Proof.
  revert b c; induction a as [|x a IH]; intros [|y b] [|z c]; cbn [lex]; try discriminate; try reflexivity.
  destruct (N.compare_spec x y) as [E1|L1|G1]; try discriminate;
  destruct (N.compare_spec y z) as [E2|L2|G2]; try discriminate; intros H1 H2.
  - subst. rewrite N.compare_refl. eapply IH; eauto.
  - subst. now rewrite (proj2 (N.compare_lt_iff y z)).
  - subst. now rewrite (proj2 (N.compare_lt_iff x z)).
  - rewrite (proj2 (N.compare_lt_iff x z)) by lia. reflexivity.
Qed.

Lemma lex_le_lt_trans a b c : lex a b <> Gt -> lex b c = Lt -> lex a c = Lt.
Proof.
  intros H1 H2. destruct (lex a b) eqn:E.
  - apply lex_eq in E. now subst.
  - eapply lex_lt_trans; eauto.
  - congruence.
Qed.

Lemma lex_lt_le_trans a b c : lex a b = Lt -> lex b c <> Gt -> lex a c = Lt.
Proof.
  intros H1 H2. destruct (lex b c) eqn:E.
  - apply lex_eq in E. now subst.
  - eapply lex_lt_trans; eauto.
  - congruence.
Qed.

Lemma lex_le_trans a b c : lex a b <> Gt -> lex b c <> Gt -> lex a c <> Gt.
Proof.
  intros H1 H2. destruct (lex a b) eqn:E1.
  - apply lex_eq in E1. now subst.
  - rewrite (lex_lt_le_trans a b c E1 H2). discriminate.
  - congruence.
Qed.

Lemma lex_leb_spec a b : lex_leb a b = true <-> lex a b <> Gt.
Proof. unfold lex_leb, lex_gtb. destruct (lex a b); cbn; split; congruence. Qed.

Lemma lex_gtb_flip a b : lex_gtb a b = lex_ltb b a.
Proof. unfold lex_gtb, lex_ltb. rewrite (lex_antisym a b). destruct (lex a b); reflexivity. Qed.

(* a prefix is a lower bound *)
Lemma lex_firstn l d : lex (firstn l d) d <> Gt.
Proof.
  revert l; induction d as [|b d IH]; intros [|l]; cbn [firstn lex]; try discriminate.
  rewrite N.compare_refl. apply IH.
Qed.

Lemma lex_app_l p a b : lex (p ++ a) (p ++ b) = lex a b.
Proof. induction p as [|x p IH]; cbn [app lex]; [reflexivity|]. now rewrite N.compare_refl. Qed.

(* ---------------------------------------------------------------- increment *)
Definition wf (d : bytes) := Forall (fun b => b <= 255) d.

(* direct recursive characterisation *)
Fixpoint incr (d : bytes) : option bytes :=
  match d with
  | [] => None
  | b :: d' => match incr d' with
               | Some r => Some (b :: r)
               | None => if b =? 255 then None else Some (b + 1 :: map (fun _ => 0) d')
               end
  end.

Lemma incr_rev_app r x : incr_rev (r ++ [x]) =
  match incr_rev r with
  | Some r' => Some (r' ++ [x])
  | None => if x =? 255 then None else Some (map (fun _ => 0) r ++ [x + 1])
  end.
Proof.
  induction r as [|b r IH]; cbn [app incr_rev map].
  - destruct (x =? 255); reflexivity.
  - destruct (b =? 255); [|reflexivity].
    rewrite IH. destruct (incr_rev r); cbn [option_map]; [reflexivity|].
    destruct (x =? 255); reflexivity.
Qed.

Lemma increment_incr d : increment d = incr d.
Proof.
  unfold increment. induction d as [|b d IH]; [reflexivity|].
  cbn [rev incr]. rewrite incr_rev_app. rewrite <- IH.
  destruct (incr_rev (rev d)); cbn [option_map].
  - now rewrite rev_app_distr.
  - destruct (b =? 255); cbn [option_map]; [reflexivity|].
    rewrite rev_app_distr, <- map_rev, rev_involutive. reflexivity.
Qed.

Lemma incr_upper_bound d r : incr d = Some r -> forall suffix, lex (d ++ suffix) r = Lt.
Proof.
  revert r; induction d as [|b d IH]; intros r H suffix; [discriminate|].
  cbn [incr] in H. destruct (incr d) as [r'|] eqn:E.
  - inversion H; subst. cbn [app lex]. rewrite N.compare_refl. apply IH. reflexivity.
  - destruct (b =? 255); [discriminate|]. inversion H; subst.
    cbn [app lex]. rewrite (proj2 (N.compare_lt_iff b (b + 1))) by lia. reflexivity.
Qed.

Lemma increment_upper_bound d r : increment d = Some r -> forall suffix, lex (d ++ suffix) r = Lt.
Proof. rewrite increment_incr. apply incr_upper_bound. Qed.

Lemma increment_none_iff d : wf d -> (increment d = None <-> Forall (fun b => b = 255) d).
Proof.
  rewrite increment_incr.
  induction 1 as [|b d Hb Hd IH]; cbn [incr]; [split; auto|].
  destruct (incr d) eqn:E.
  - split; [discriminate|]. intros F. inversion F as [|? ? ? F2]; subst. apply IH in F2. discriminate.
  - destruct (N.eqb_spec b 255).
    + split; auto. intros _. constructor; [assumption|]. now apply IH.
    + split; [discriminate|]. intros F. inversion F; lia.
Qed.

Lemma increment_wf_len d r : wf d -> increment d = Some r -> wf r /\ length r = length d.
Proof.
  rewrite increment_incr.
  intros W; revert r; induction W as [|b d Hb Hd IH]; intros r H; [discriminate|].
  cbn [incr] in H. destruct (incr d) as [r'|] eqn:E.
  - inversion H; subst. destruct (IH r' eq_refl). split; [constructor; assumption|cbn [length]; lia].
  - destruct (N.eqb_spec b 255); [discriminate|]. inversion H; subst. split.
    + constructor; [lia|]. apply Forall_forall. intros x Hx. apply in_map_iff in Hx as [? [<- _]]. lia.
    + cbn [length]. now rewrite map_length.
Qed.

(* carry: trailing 0xFF bytes become 0x00 and the byte before them is incremented *)
Lemma incr_all_ff k : incr (repeat 255 k) = None.
Proof. induction k as [|k IH]; [reflexivity|]. cbn [repeat incr]. rewrite IH. reflexivity. Qed.
Lemma map_zero_repeat k : map (fun _ : N => 0) (repeat 255 k) = repeat 0 k.
Proof. induction k as [|k IH]; [reflexivity|]. cbn [repeat map]. rewrite IH. reflexivity. Qed.
Lemma increment_carry p b k : b <> 255 ->
  increment (p ++ b :: repeat 255 k) = Some (p ++ (b + 1) :: repeat 0 k).
Proof.
  intros Hb. rewrite increment_incr.
  induction p as [|x p IH]; cbn [app incr].
  - rewrite incr_all_ff. destruct (N.eqb_spec b 255); [contradiction|]. now rewrite map_zero_repeat.
  - now rewrite IH.
Qed.

(* ---------------------------------------------------------------- byte-path truncation *)
Lemma truncate_min_bytes_le tl d : lex (fst (truncate_min_value false tl d)) d <> Gt.
Proof.
  unfold truncate_min_value. destruct tl as [l|]; cbn [andb fst].
  - destruct (l <? length d)%nat; cbn [fst]; [apply lex_firstn|rewrite lex_refl; discriminate].
  - rewrite lex_refl; discriminate.
Qed.

Lemma truncate_max_bytes_ge tl d r :
  truncate_max_value false tl d = (r, true) -> lex d r = Lt.
Proof.
  unfold truncate_max_value. destruct tl as [l|]; [|intros H; inversion H].
  destruct (l <? length d)%nat; [|intros H; inversion H]. cbn [andb].
  destruct (increment (firstn l d)) as [t|] eqn:E; intros H; inversion H; subst.
  rewrite <- (firstn_skipn l d) at 1. now apply increment_upper_bound.
Qed.
