(* C20 — byte-based substring with character-boundary check, substring_by_char. *)
From Coq Require Import List NArith ZArith Arith Lia Bool.
From AV Require Import Base.ListX Base.Utf8 Model.C20_Like Model.C20_Substr Proofs.C20_Utf8 Proofs.C20_Layout.
Import ListNotations.

(* ------------------------------------------------------------------ is_char_boundary, on nat *)
Definition icb (data : list N) (k : nat) : bool :=
  if (k =? 0)%nat then true
  else if (length data <=? k)%nat then (k =? length data)%nat
  else negb (cont (nth k data 0%N)).

Lemma is_char_boundary_nat data k : is_char_boundary data (Z.of_nat k) = icb data k.
Proof.
  unfold is_char_boundary, icb.
  destruct (Nat.eqb_spec k 0) as [->|Hk]; [reflexivity|].
  destruct (Z.eqb_spec (Z.of_nat k) 0); [lia|].
  destruct (Z.ltb_spec (Z.of_nat k) 0); [lia|].
  destruct (Nat.leb_spec (length data) k), (Z.leb_spec (Z.of_nat (length data)) (Z.of_nat k)); try lia.
  now rewrite Nat2Z.id.
Qed.
Lemma is_char_boundary_neg data z : (z < 0)%Z -> is_char_boundary data z = false.
Proof. intros H. unfold is_char_boundary. destruct (Z.eqb_spec z 0); [lia|]. destruct (Z.ltb_spec z 0); [reflexivity|lia]. Qed.

Lemma blen_app a b : blen (a ++ b) = blen a + blen b.
Proof. unfold blen. now rewrite utf8_app, app_length. Qed.
Lemma blen_cons c s : blen (c :: s) = length (encode c) + blen s.
Proof. unfold blen. now rewrite utf8_cons, app_length. Qed.
Lemma encode_len_pos c : 1 <= length (encode c).
Proof. apply encode_len. Qed.

(* the end of a valid prefix is a boundary of the whole; beyond it, boundaries shift *)
Lemma icb_app_shift a b k : icb (utf8 a ++ utf8 b) (blen a + k) = icb (utf8 b) k || (k =? 0)%nat.
Proof.
  unfold icb, blen. rewrite app_length.
  destruct (Nat.eqb_spec k 0) as [->|Hk].
  - rewrite Nat.add_0_r, orb_true_r.
    destruct (Nat.eqb_spec (length (utf8 a)) 0); [reflexivity|].
    destruct (Nat.leb_spec (length (utf8 a) + length (utf8 b)) (length (utf8 a))) as [L|L].
    + apply Nat.eqb_eq. lia.
    + rewrite app_nth2, Nat.sub_diag by lia. destruct b as [|c b]; [cbn in L; lia|].
      destruct (utf8 (c :: b)) as [|x t] eqn:E; [apply utf8_nil_inv in E; discriminate|]. cbn [nth].
      rewrite (utf8_hd_noncont (c :: b) [] x t); [reflexivity| |discriminate]. now rewrite app_nil_r.
  - rewrite orb_false_r. destruct (Nat.eqb_spec (length (utf8 a) + k) 0); [lia|].
    destruct (Nat.leb_spec (length (utf8 a) + length (utf8 b)) (length (utf8 a) + k)),
             (Nat.leb_spec (length (utf8 b)) k); try lia.
    rewrite app_nth2 by lia. do 3 f_equal. lia.
Qed.
Lemma icb_app_left v b k : k <= blen v -> icb (utf8 v ++ utf8 b) k = icb (utf8 v) k.
Proof.
  intros L. destruct (Nat.eq_dec k (blen v)) as [->|Hk].
  - pose proof (icb_app_shift v b 0) as E. rewrite Nat.add_0_r, orb_true_r in E. rewrite E.
    unfold icb, blen. destruct (Nat.eqb_spec (length (utf8 v)) 0); [reflexivity|].
    rewrite Nat.leb_refl. symmetry. apply Nat.eqb_refl.
  - unfold icb, blen in *. rewrite app_length. destruct (Nat.eqb_spec k 0); [reflexivity|].
    destruct (Nat.leb_spec (length (utf8 v) + length (utf8 b)) k), (Nat.leb_spec (length (utf8 v)) k); try lia.
    now rewrite app_nth1 by lia.
Qed.

Definition is_some {A} (o : option A) : bool := match o with Some _ => true | None => false end.

Lemma take_bytes_0 s : take_bytes s 0 = Some [].
Proof. destruct s; reflexivity. Qed.

(* inside one valid string: boundary <=> a prefix of characters has exactly that many bytes *)
Lemma icb_take_bytes s : forall k, k <= blen s -> icb (utf8 s) k = is_some (take_bytes s k).
Proof.
  induction s as [|c r IH]; intros k L.
  - unfold blen in L. cbn in L. assert (k = 0) by lia. subst. reflexivity.
  - destruct (Nat.eq_dec k 0) as [->|Hk]; [now rewrite take_bytes_0|].
    cbn [take_bytes]. rewrite (proj2 (Nat.eqb_neq k 0) Hk).
    rewrite blen_cons in L. destruct (Nat.ltb_spec k (length (encode c))) as [Lt|Ge].
    + (* inside the first character: a continuation byte *)
      rewrite utf8_cons. unfold icb. rewrite (proj2 (Nat.eqb_neq k 0) Hk), app_length.
      destruct (Nat.leb_spec (length (encode c) + length (utf8 r)) k); [lia|].
      rewrite app_nth1 by lia. destruct (encode_shape c) as (b0 & t & Ec & _ & Ht). rewrite Ec in *.
      destruct k as [|k]; [lia|]. cbn [nth]. cbn [length] in Lt.
      rewrite Forall_forall in Ht. rewrite (Ht (nth k t 0%N)); [reflexivity|]. apply nth_In. lia.
    + replace k with (blen [c] + (k - length (encode c))) at 1
        by (unfold blen; cbn [utf8 flat_map]; rewrite app_nil_r; lia).
      change (utf8 (c :: r)) with (utf8 ([c] ++ r)). rewrite utf8_app, icb_app_shift.
      rewrite IH by lia. destruct (take_bytes r (k - length (encode c))) eqn:E; cbn [option_map is_some orb]; [reflexivity|].
      destruct (Nat.eqb_spec (k - length (encode c)) 0) as [Z|]; [|reflexivity].
      rewrite Z, take_bytes_0 in E. discriminate.
Qed.

Lemma take_bytes_prefix s : forall k p, take_bytes s k = Some p -> exists r, s = p ++ r /\ blen p = k.
Proof.
  induction s as [|c r IH]; intros k p E; cbn [take_bytes] in E.
  - destruct (Nat.eqb_spec k 0) as [->|]; [|discriminate]. inversion E. exists []. auto.
  - destruct (Nat.eqb_spec k 0) as [->|Hk]; [inversion E; exists (c :: r); auto|].
    destruct (Nat.ltb_spec k (length (encode c))); [discriminate|].
    destruct (take_bytes r (k - length (encode c))) as [q|] eqn:Eq; [|discriminate].
    cbn in E. inversion E; subst. destruct (IH _ _ Eq) as (r' & -> & Hb).
    exists r'. split; [reflexivity|]. rewrite blen_cons. lia.
Qed.
Lemma take_bytes_all s : take_bytes s (blen s) = Some s.
Proof.
  induction s as [|c r IH]; [reflexivity|]. cbn [take_bytes]. rewrite blen_cons.
  pose proof (encode_len_pos c). destruct (Nat.eqb_spec (length (encode c) + blen r) 0); [lia|].
  destruct (Nat.ltb_spec (length (encode c) + blen r) (length (encode c))); [lia|].
  replace (length (encode c) + blen r - length (encode c)) with (blen r) by lia. now rewrite IH.
Qed.

Lemma scalars_app_l a b : scalars (a ++ b) -> scalars a.
Proof. intros H. now apply Forall_app in H as [? _]. Qed.
Lemma scalars_app_r a b : scalars (a ++ b) -> scalars b.
Proof. intros H. now apply Forall_app in H as [_ ?]. Qed.

(* two prefixes of the same string are comparable *)
Lemma prefixes_comparable v pa ra pb rb : scalars v -> v = pa ++ ra -> v = pb ++ rb -> blen pa <= blen pb ->
  exists m, pb = pa ++ m.
Proof.
  intros Hv Ea Eb L. assert (E : utf8 pa ++ utf8 ra = utf8 pb ++ utf8 rb) by (rewrite <- !utf8_app; congruence).
  apply app_eq_app in E as [l [[E1 E2]|[E1 E2]]].
  - (* utf8 pa = utf8 pb ++ l : then l = [] *)
    assert (l = []).
    { apply (f_equal (@length N)) in E1. rewrite app_length in E1. unfold blen in L. destruct l; [reflexivity|cbn in E1; lia]. }
    subst l. rewrite app_nil_r in E1. apply utf8_inj in E1; [subst; exists []; now rewrite app_nil_r| |].
    + subst v. now apply scalars_app_l in Hv.
    + rewrite Eb in Hv. now apply scalars_app_l in Hv.
  - assert (Hpa : scalars pa) by (subst v; now apply scalars_app_l in Hv).
    assert (Hpb : scalars pb) by (rewrite Eb in Hv; now apply scalars_app_l in Hv).
    destruct (utf8_prefix pa pb l Hpa Hpb (eq_sym E1)) as (m & -> & _). eauto.
Qed.

(* ------------------------------------------------------------------ one element of byte_substring *)
Section Elem.
Variables (A v B : list N).
Hypothesis HA : scalars A. Hypothesis Hv : scalars v. Hypothesis HB : scalars B.
Let data := utf8 A ++ utf8 v ++ utf8 B.
Let lo := Z.of_nat (blen A).
Let L := Z.of_nat (blen v).

Lemma boundary_abs j : j <= blen v ->
  is_char_boundary data (lo + Z.of_nat j) = is_some (take_bytes v j).
Proof.
  intros Lj. subst data lo. rewrite <- Nat2Z.inj_add, is_char_boundary_nat.
  rewrite <- utf8_app, icb_app_shift, utf8_app, icb_app_left, icb_take_bytes by assumption.
  destruct (Nat.eqb_spec j 0) as [->|]; [now rewrite take_bytes_0|apply orb_false_r].
Qed.

Lemma slice_abs pa pb : forall a b, take_bytes v a = Some pa -> take_bytes v b = Some pb -> a <= b ->
  zslice data (lo + Z.of_nat a) (lo + Z.of_nat b) = utf8 (skipn (length pa) pb).
Proof.
  intros a b Ea Eb Lab.
  destruct (take_bytes_prefix _ _ _ Ea) as (ra & Eva & Ha). destruct (take_bytes_prefix _ _ _ Eb) as (rb & Evb & Hb).
  destruct (prefixes_comparable v pa ra pb rb Hv Eva Evb ltac:(lia)) as (m & ->).
  rewrite skipn_app, skipn_all, Nat.sub_diag. cbn [app skipn].
  subst data lo. rewrite Evb, !utf8_app, <- !app_assoc.
  unfold zslice. rewrite <- !Nat2Z.inj_add, !Nat2Z.id.
  rewrite blen_app in Hb.
  replace (utf8 A ++ utf8 pa ++ utf8 m ++ utf8 rb ++ utf8 B) with ((utf8 A ++ utf8 pa) ++ utf8 m ++ (utf8 rb ++ utf8 B))
    by now rewrite <- !app_assoc.
  replace (blen A + a) with (length (utf8 A ++ utf8 pa)) by (rewrite app_length; unfold blen in *; lia).
  replace (blen A + b) with (length (utf8 A ++ utf8 pa) + length (utf8 m)) by (rewrite app_length; unfold blen in *; lia).
  apply slice_app_mid.
Qed.

Lemma byte_substring_elem_spec start len : (match len with Some n => 0 <= n | None => True end)%Z ->
  byte_substring_elem data start len (lo, (lo + L)%Z) = option_map utf8 (substring_spec v start len).
Proof.
  intros Hlen. unfold byte_substring_elem, substring_spec. fold L.
  set (a := if (0 <=? start)%Z then Z.min start L else Z.max (L + start) 0).
  assert (Ha : (0 <= a <= L)%Z) by (subst a L; destruct (Z.leb_spec 0 start); lia).
  set (b := match len with Some n => Z.min (a + n) L | None => L end).
  assert (Hb : (a <= b <= L)%Z) by (subst b; destruct len; lia).
  (* new_start *)
  assert (Ens : (if (0 <? start)%Z then (if is_char_boundary data (Z.min (lo + start) (lo + L)) then Some (Z.min (lo + start) (lo + L)) else None)
                 else if (start =? 0)%Z then Some lo
                 else (if is_char_boundary data (Z.max (lo + L + start) lo) then Some (Z.max (lo + L + start) lo) else None))
                = if is_some (take_bytes v (Z.to_nat a)) then Some (lo + a)%Z else None).
  { subst a. destruct (Z.ltb_spec 0 start) as [Hs|Hs].
    - destruct (Z.leb_spec 0 start); [|lia].
      replace (Z.min (lo + start) (lo + L)) with (lo + Z.of_nat (Z.to_nat (Z.min start L)))%Z by lia.
      rewrite boundary_abs by (subst L; lia). now rewrite Z2Nat.id by lia.
    - destruct (Z.eqb_spec start 0) as [->|Hz].
      + change (0 <=? 0)%Z with true. cbn iota. replace (Z.min 0 L) with 0%Z by (subst L; lia).
        change (Z.to_nat 0) with 0. rewrite take_bytes_0. cbn [is_some]. f_equal. lia.
      + destruct (Z.leb_spec 0 start); [lia|].
        replace (Z.max (lo + L + start) lo) with (lo + Z.of_nat (Z.to_nat (Z.max (L + start) 0)))%Z by lia.
        rewrite boundary_abs by (subst L; lia). now rewrite Z2Nat.id by lia. }
  rewrite Ens. clear Ens. fold a.
  destruct (take_bytes v (Z.to_nat a)) as [pa|] eqn:Epa; cbn [is_some]; [|reflexivity].
  assert (Ene : match len with
                | Some l => if is_char_boundary data (Z.min (l + (lo + a)) (lo + L)) then Some (Z.min (l + (lo + a)) (lo + L)) else None
                | None => Some (lo + L)%Z end
                = if is_some (take_bytes v (Z.to_nat b)) then Some (lo + b)%Z else None).
  { subst b. destruct len as [n|].
    - replace (Z.min (n + (lo + a)) (lo + L)) with (lo + Z.of_nat (Z.to_nat (Z.min (a + n) L)))%Z by lia.
      rewrite boundary_abs by (subst L; lia). now rewrite Z2Nat.id by lia.
    - subst L. rewrite Nat2Z.id, take_bytes_all. reflexivity. }
  rewrite Ene. clear Ene. fold b.
  destruct (take_bytes v (Z.to_nat b)) as [pb|] eqn:Epb; cbn [is_some option_map]; [|reflexivity].
  f_equal. rewrite <- (Z2Nat.id a), <- (Z2Nat.id b) by lia. apply slice_abs; try assumption. lia.
Qed.
End Elem.

(* StringViewArray: the same on the value alone *)
Lemma view_substring_elem_spec v start len : scalars v -> (match len with Some n => 0 <= n | None => True end)%Z ->
  view_substring_elem (utf8 v) start len = option_map utf8 (substring_spec v start len).
Proof.
  intros Hv Hlen. unfold view_substring_elem, substring_spec. change (length (utf8 v)) with (blen v).
  set (L := Z.of_nat (blen v)).
  set (a := if (0 <=? start)%Z then Z.min start L else Z.max (L + start) 0).
  assert (Ea : (if (0 <? start)%Z then Z.min start L else if (start =? 0)%Z then 0 else Z.max (L + start) 0)%Z = a).
  { subst a. destruct (Z.ltb_spec 0 start), (Z.leb_spec 0 start), (Z.eqb_spec start 0); lia. }
  rewrite Ea. assert (Ha : (0 <= a <= L)%Z) by (subst a L; destruct (Z.leb_spec 0 start); lia).
  set (b := match len with Some n => Z.min (a + n) L | None => L end).
  assert (Hb : (a <= b <= L)%Z) by (subst b; destruct len; lia).
  pose proof (boundary_abs [] v []) as Bd. cbn [utf8 flat_map app blen length] in Bd.
  rewrite app_nil_r in Bd. change (Z.of_nat 0) with 0%Z in Bd.
  rewrite <- (Z2Nat.id a) at 1 by lia. rewrite <- (Z.add_0_l (Z.of_nat (Z.to_nat a))), Bd by (subst L; lia).
  destruct (take_bytes v (Z.to_nat a)) as [pa|] eqn:Epa; cbn [is_some]; [|reflexivity].
  rewrite <- (Z2Nat.id b) at 1 by lia. rewrite <- (Z.add_0_l (Z.of_nat (Z.to_nat b))), Bd by (subst L; lia).
  destruct (take_bytes v (Z.to_nat b)) as [pb|] eqn:Epb; cbn [is_some option_map]; [|reflexivity].
  f_equal. pose proof (slice_abs [] v [] Hv pa pb (Z.to_nat a) (Z.to_nat b) Epa Epb ltac:(lia)) as S.
  cbn [utf8 flat_map app blen length] in S. rewrite app_nil_r in S. change (Z.of_nat 0) with 0%Z in S.
  rewrite !Z.add_0_l, !Z2Nat.id in S by lia. exact S.
Qed.

(* ------------------------------------------------------------------ whole arrays *)
Lemma utf8_concat ss : utf8 (concat ss) = concat (map utf8 ss).
Proof. induction ss as [|s r IH]; [reflexivity|]. cbn [concat map]. now rewrite utf8_app, IH. Qed.

Theorem substring_spec_thm bits start len : (1 <= bits)%Z ->
  (- 2 ^ (bits - 1) <= start < 2 ^ (bits - 1))%Z ->
  (match len with Some n => 0 <= n < 2 ^ (bits - 1) | None => True end)%Z ->
  forall (vals : list (list N)) (pre post : list N),
  Forall (fun v => scalars v) vals -> scalars pre -> scalars post ->
  byte_substring_m bits (layout_offsets (utf8 pre) (map utf8 vals)) (layout_data (utf8 pre) (map utf8 vals) (utf8 post)) start len
  = mapM (fun v => option_map utf8 (substring_spec v start len)) vals.
Proof.
  intros Hb Hs Hl. unfold byte_substring_m. rewrite (wrap_id bits start) by assumption.
  assert (El : option_map (wrap bits) len = len).
  { destruct len as [n|]; [|reflexivity]. cbn. rewrite wrap_id; [reflexivity|lia|lia]. }
  rewrite El. clear El.
  assert (Hl' : (match len with Some n => 0 <= n | None => True end)%Z) by (destruct len; lia).
  unfold layout_offsets, layout_data.
  induction vals as [|v r IH]; intros pre post Hvals Hpre Hpost; [reflexivity|].
  inversion Hvals as [|? ? Hv Hr]; subst.
  rewrite map_cons, concat_cons, windows_offsets_from. cbn [mapM].
  rewrite <- utf8_concat, <- app_assoc, <- utf8_app.
  pose proof (byte_substring_elem_spec pre v (concat r ++ post) Hv start len Hl') as E.
  unfold blen in E. rewrite E. clear E.
  destruct (substring_spec v start len) as [o|]; cbn [option_map]; [|reflexivity].
  specialize (IH (pre ++ v) post Hr ltac:(now apply Forall_app) Hpost).
  rewrite utf8_app, app_length, Nat2Z.inj_add, <- app_assoc in IH.
  rewrite utf8_app, utf8_concat. rewrite IH. reflexivity.
Qed.

Lemma substring_spec_scalars_gen v ka kb o : scalars v ->
  match take_bytes v ka, take_bytes v kb with
  | Some pa, Some pb => Some (skipn (length pa) pb)
  | _, _ => None
  end = Some o -> scalars o.
Proof.
  intros Hv. destruct (take_bytes v ka) as [pa|]; [|discriminate].
  destruct (take_bytes v kb) as [pb|] eqn:Eb; [|discriminate].
  intros E. inversion E; subst. destruct (take_bytes_prefix _ _ _ Eb) as (rb & -> & _).
  apply scalars_app_l in Hv. now apply Forall_skipn'.
Qed.
Lemma substring_spec_scalars v start len o : scalars v -> substring_spec v start len = Some o -> scalars o.
Proof. intros Hv. unfold substring_spec. now apply substring_spec_scalars_gen. Qed.

(* every string the kernel returns is valid UTF-8 (or the call is an error) *)
Theorem substring_valid_utf8_or_err bits start len : (1 <= bits)%Z ->
  (- 2 ^ (bits - 1) <= start < 2 ^ (bits - 1))%Z ->
  (match len with Some n => 0 <= n < 2 ^ (bits - 1) | None => True end)%Z ->
  forall (vals : list (list N)) (pre post : list N) out,
  Forall (fun v => scalars v) vals -> scalars pre -> scalars post ->
  byte_substring_m bits (layout_offsets (utf8 pre) (map utf8 vals)) (layout_data (utf8 pre) (map utf8 vals) (utf8 post)) start len
  = Some out -> Forall (fun o => valid_utf8 o = true) out.
Proof.
  intros Hb Hs Hl vals pre post out Hvals Hpre Hpost. rewrite substring_spec_thm by assumption. clear Hpre Hpost pre post.
  revert out. induction vals as [|v r IH]; intros out E; cbn [mapM] in E.
  - inversion E. constructor.
  - inversion Hvals as [|? ? Hv Hr]; subst.
    destruct (substring_spec v start len) as [o|] eqn:Eo; cbn [option_map] in E; [|discriminate].
    destruct (mapM _ r) as [os|] eqn:Er; [|discriminate]. inversion E; subst.
    constructor; [|now apply IH]. apply valid_utf8_utf8. eapply substring_spec_scalars; eassumption.
Qed.

(* the `start as i32` / `length as i32` casts: outside the offset type's range the result is wrong *)
Theorem substring_i32_cast_refuted :
  exists v start, byte_substring_m 32 (layout_offsets [] [utf8 v]) (layout_data [] [utf8 v] []) start None
                  <> mapM (fun v => option_map utf8 (substring_spec v start None)) [v].
Proof. exists [104%N; 105%N], 4294967296%Z. vm_compute. discriminate. Qed.
