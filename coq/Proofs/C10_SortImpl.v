(* C10 — sort_to_indices (partition_validity + sort_impl over an oracle sorter) returns, for every
   array, SortOptions and limit, an index list that the sort predicate accepts. *)
From Coq Require Import List ZArith Lia Bool Arith Permutation.
From AV Require Import Base.ListX Model.C10_Order Model.C10_Sort Proofs.C10_Cmp Proofs.C10_Sort.
Import ListNotations.

(* the oracles look at the comparator only on the elements of the slice *)
Definition sort_ext {T} (so : (T -> T -> comparison) -> list T -> list T) : Prop :=
  forall c1 c2 l, (forall x y, In x l -> In y l -> c1 x y = c2 x y) -> so c1 l = so c2 l.
Definition select_ext {T} (se : (T -> T -> comparison) -> nat -> list T -> list T) : Prop :=
  forall c1 c2 n l, (forall x y, In x l -> In y l -> c1 x y = c2 x y) -> se c1 n l = se c2 n l.

Lemma insert_ext {T} (c1 c2 : T -> T -> comparison) x l :
  (forall y, In y l -> c1 x y = c2 x y) -> insert c1 x l = insert c2 x l.
Proof.
  induction l as [|y l IH]; intros H; [reflexivity|]. cbn. rewrite (H y (or_introl eq_refl)).
  destruct (c2 x y); try reflexivity. f_equal. apply IH. intros z Hz. apply H. now right.
Qed.
Lemma isort_in {T} (c : T -> T -> comparison) l x : In x (isort c l) -> In x l.
Proof. intros H. apply (Permutation_in _ (isort_perm c l)). exact H. Qed.
Lemma isort_ext {T} : sort_ext (@isort T).
Proof.
  intros c1 c2 l. induction l as [|x l IH]; intros H; [reflexivity|]. cbn.
  rewrite IH by (intros a b Ha Hb; apply H; now right).
  apply insert_ext. intros y Hy. apply isort_in in Hy. apply H; [now left|now right].
Qed.
Lemma iselect_ext {T} : select_ext (@iselect T).
Proof. intros c1 c2 n l H. unfold iselect. now apply isort_ext. Qed.

Lemma tpo_on {A B} (f : A -> B) (c : B -> B -> comparison) : tpo c -> tpo (fun x y => c (f x) (f y)).
Proof.
  intros (Hr & Ha & Ht). split; [|split].
  - intros x. apply Hr.
  - intros x y. apply Ha.
  - intros x y z. apply Ht.
Qed.

Lemma filter_nil_all {A} (f : A -> bool) l : filter f l = [] -> forall x, In x l -> f x = false.
Proof.
  induction l as [|y l IH]; intros H x Hx; [contradiction|]. cbn in H.
  destruct (f y) eqn:E; [discriminate|]. destruct Hx as [->|Hx]; [exact E|now apply IH].
Qed.
Lemma filter_all {A} (f : A -> bool) l : (forall x, In x l -> f x = true) -> filter f l = l.
Proof.
  induction l as [|y l IH]; intros H; [reflexivity|]. cbn. rewrite (H y (or_introl eq_refl)).
  f_equal. apply IH. intros x Hx. apply H. now right.
Qed.
Lemma filter_perm {A} (f : A -> bool) l : Permutation (filter f l ++ filter (fun x => negb (f x)) l) l.
Proof.
  induction l as [|y l IH]; [reflexivity|]. cbn. destruct (f y); cbn.
  - now constructor.
  - rewrite <- Permutation_middle. now constructor.
Qed.

Lemma firstn_min_app {A} (A1 B : list A) lim :
  firstn (Nat.min (length A1) lim) A1 ++ firstn (lim - length (firstn (Nat.min (length A1) lim) A1)) B
  = firstn lim (A1 ++ B).
Proof.
  rewrite firstn_app. rewrite firstn_length.
  destruct (Nat.le_gt_cases (length A1) lim) as [H|H].
  - rewrite Nat.min_l by exact H. rewrite Nat.min_id, firstn_all, (firstn_all2 (n := lim) A1) by exact H. reflexivity.
  - rewrite Nat.min_r by lia. replace (Nat.min lim (length A1)) with lim by lia.
    replace (lim - lim) with 0 by lia. replace (lim - length A1) with 0 by lia. reflexivity.
Qed.
Lemma firstn_app_len {A} (A1 B : list A) lim :
  firstn lim A1 ++ firstn (lim - length (firstn lim A1)) B = firstn lim (A1 ++ B).
Proof.
  rewrite firstn_app, firstn_length.
  destruct (Nat.le_gt_cases (length A1) lim) as [H|H].
  - now rewrite Nat.min_r by exact H.
  - rewrite Nat.min_l by lia. replace (lim - lim) with 0 by lia. replace (lim - length A1) with 0 by lia. reflexivity.
Qed.

Section Main.
  Context {V : Type}.
  Variable so : (nat * V -> nat * V -> comparison) -> list (nat * V) -> list (nat * V).
  Variable se : (nat * V -> nat * V -> comparison) -> nat -> list (nat * V) -> list (nat * V).
  Hypothesis Hso : sort_contract so.
  Hypothesis Hse : select_contract se.
  Hypothesis Hsoe : sort_ext so.
  Hypothesis Hsee : select_ext se.

  Variable vc : V -> V -> comparison.
  Variable value : nat -> V.
  Variable a : list oval.
  Variable nf desc : bool.
  (* the value comparison used by the sort kernel agrees with the specification on the valid slots *)
  Hypothesis Hvc : forall i j u v, slot a i = Some u -> slot a j = Some v ->
    vc (value i) (value j) = vcmp (child_nf nf desc) u v.

  Let n := length a.
  Let idx := seq 0 n.
  Let vs := filter (fun i => negb (is_null a i)) idx.
  Let nl := filter (is_null a) idx.
  Let cR := fun i j => cmp_opts nf desc (slot a i) (slot a j).

  Lemma pv_eq : partition_validity a = (vs, nl).
  Proof.
    unfold partition_validity. fold n idx nl.
    destruct (length nl =? 0) eqn:E; [|reflexivity].
    apply Nat.eqb_eq in E. apply length_zero_iff_nil in E. rewrite E. f_equal.
    unfold vs. symmetry. apply filter_all. intros x Hx. fold nl in E.
    rewrite (filter_nil_all _ _ E x Hx). reflexivity.
  Qed.

  Lemma nl_null i : In i nl -> slot a i = None.
  Proof. intros H. apply filter_In in H. destruct H as [_ H]. unfold is_null in H. destruct (slot a i); [discriminate|reflexivity]. Qed.
  Lemma vs_valid i : In i vs -> exists u, slot a i = Some u.
  Proof. intros H. apply filter_In in H. destruct H as [_ H]. unfold is_null in H. destruct (slot a i) as [u|]; [now exists u|discriminate]. Qed.

  Lemma perm_nl_vs : Permutation (nl ++ vs) idx.
  Proof. apply filter_perm. Qed.

  Let valids := map (fun i => (i, value i)) vs.
  Let c' := fun p q : nat * V => rev_if desc (vc (snd p) (snd q)).
  Let c'' := fun p q : nat * V => cR (fst p) (fst q).

  Lemma c''_tpo : tpo c''.
  Proof. unfold c'', cR. apply (tpo_on (fun p : nat * V => slot a (fst p))). apply cmp_opts_tpo. Qed.

  Lemma c'_c'' x y : In x valids -> In y valids -> c' x y = c'' x y.
  Proof.
    intros Hx Hy. apply in_map_iff in Hx, Hy. destruct Hx as (i & <- & Hi). destruct Hy as (j & <- & Hj).
    destruct (vs_valid i Hi) as [u Hu]. destruct (vs_valid j Hj) as [v Hv].
    unfold c', c'', cR. cbn [fst snd]. rewrite Hu, Hv. rewrite (Hvc i j u v Hu Hv). reflexivity.
  Qed.

  Lemma sub_ext k : k <= length valids ->
    sort_unstable_by so se c' k valids = sort_unstable_by so se c'' k valids.
  Proof.
    intros Hk. unfold sort_unstable_by. destruct (length valids =? k); [apply Hsoe; apply c'_c''|].
    unfold partial_sort. destruct k as [|m]; [reflexivity|].
    rewrite (Hsee c' c'' m valids c'_c'').
    assert (Hm : m < length valids) by lia.
    destruct (Hse c'' m valids c''_tpo Hm) as [P _]. f_equal. apply Hsoe.
    intros x y Hx Hy. apply c'_c''; apply (Permutation_in _ P); eapply In_firstn; eassumption.
  Qed.

  Let lim (limit : option nat) := out_len n limit.

  (* the assembled output is a prefix of  nulls ++ sorted  or  sorted ++ nulls *)
  Theorem sort_impl_check limit :
    sort_check (cmp_opts nf desc) a limit (sort_impl so se nf desc valids nl limit vc) = 1%Z.
  Proof.
    assert (Lvs : length valids = length vs) by apply map_length.
    assert (Ln : length vs + length nl = n).
    { pose proof (Permutation_length perm_nl_vs) as H. rewrite app_length in H. unfold idx in H. rewrite seq_length in H. lia. }
    unfold sort_impl.
    set (v_limit := match limit, nf with Some l, true => Nat.min (l - length nl) (length valids) | _, _ => length valids end).
    assert (Hvl : v_limit <= length valids) by (unfold v_limit; destruct limit, nf; lia).
    fold c'. rewrite (sub_ext v_limit Hvl).
    destruct (sort_unstable_by_spec so se Hso Hse c'' v_limit valids c''_tpo Hvl) as [P LA].
    set (sorted := sort_unstable_by so se c'' v_limit valids) in *.
    set (sidx := map fst sorted).
    assert (Psidx : Permutation sidx vs).
    { unfold sidx. rewrite P. unfold valids. rewrite map_map. cbn. rewrite map_id. reflexivity. }
    assert (LAidx : le_after cR v_limit sidx).
    { unfold sidx. apply (proj1 (le_after_map fst cR v_limit sorted)). exact LA. }
    assert (Lsidx : length sidx = length vs) by apply (Permutation_length Psidx).
    rewrite Lvs. replace (length vs + length nl) with n by lia.
    set (limit' := Nat.min (match limit with Some l => l | None => n end) n).
    assert (Hlim : limit' = out_len n limit) by (unfold limit', out_len; destruct limit; lia).
    assert (Hrow : forall i, i < length a -> nth_error a i = Some (slot a i)).
    { intros i Hi. unfold slot. now apply nth_error_nth'. }
    assert (Hsidx_valid : forall i, In i sidx -> exists u, slot a i = Some u).
    { intros i Hi. apply vs_valid. apply (Permutation_in _ Psidx). exact Hi. }
    destruct nf.
    - (* nulls first *)
      rewrite firstn_min_app. rewrite Hlim.
      apply (sort_check_firstn (cmp_opts true desc) a (slot a) Hrow).
      + fold n. fold idx. rewrite <- perm_nl_vs. apply Permutation_app_head. exact Psidx.
      + fold n. apply le_after_app.
        * apply le_after_all. intros x y Hx Hy. rewrite (nl_null x Hx), (nl_null y Hy). cbn. congruence.
        * intros x y Hx Hy. rewrite (nl_null x Hx). destruct (Hsidx_valid y Hy) as [u ->]. cbn. congruence.
        * apply (le_after_mono _ v_limit); [|exact LAidx].
          unfold v_limit, out_len. rewrite Lvs. destruct limit; lia.
    - (* nulls last *)
      rewrite firstn_app_len. rewrite Hlim.
      apply (sort_check_firstn (cmp_opts false desc) a (slot a) Hrow).
      + fold n. fold idx. rewrite <- perm_nl_vs. rewrite Permutation_app_comm. apply Permutation_app_head. exact Psidx.
      + fold n. apply le_after_app.
        * apply (le_after_mono _ v_limit); [|exact LAidx]. unfold v_limit. rewrite Lvs. destruct limit; lia.
        * intros x y Hx Hy. rewrite (nl_null y Hy). destruct (Hsidx_valid x Hx) as [u ->]. cbn. congruence.
        * apply le_after_all. intros x y Hx Hy. rewrite (nl_null x Hx), (nl_null y Hy). cbn. congruence.
  Qed.

  Theorem sort_to_indices_check limit :
    sort_check (cmp_opts nf desc) a limit (sort_to_indices so se vc value a nf desc limit) = 1%Z.
  Proof.
    unfold sort_to_indices.
    destruct ((length a =? 0) || match limit with Some 0 => true | _ => false end) eqn:E.
    - unfold sort_check. cbn [length].
      assert (X : out_len (length a) limit = 0).
      { apply orb_true_iff in E. destruct E as [E|E].
        - apply Nat.eqb_eq in E. rewrite E. unfold out_len. destruct limit; lia.
        - destruct limit as [[|l]|]; try discriminate. reflexivity. }
      rewrite X. cbn. destruct (mark_all_succeeds [] (repeat false (length a)) (NoDup_nil _)) as [m Em]; [intros i []|].
      cbn in Em. injection Em as <-. reflexivity.
    - rewrite pv_eq. apply sort_impl_check.
  Qed.
End Main.
