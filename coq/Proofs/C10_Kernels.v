(* C10 — compare_op's null handling (its case analysis on the two null buffers and scalar flags, with
   the word formulas taken bit by bit) returns per row what the comparator says: comparisons are null
   when a side is null, DISTINCT / NOT DISTINCT never are; and partition's ranges are exactly the runs
   between boundaries. *)
From Coq Require Import List ZArith Lia Bool Arith.
From AV Require Import Base.ListX Model.C10_Order Model.C10_Sort Model.C10_Rank Proofs.C10_Cmp.
Import ListNotations.

(* ================================================================== kernels *)

Lemma zip3_map {A} f (fa fb fc : A -> bool) s :
  zip3 f (map fa s) (map fb s) (map fc s) = map (fun i => f (fa i) (fb i) (fc i)) s.
Proof. induction s as [|x s IH]; [reflexivity|]. cbn. now rewrite IH. Qed.
Lemma zip2_map {A} f (fa fb : A -> bool) s :
  zip2 f (map fa s) (map fb s) = map (fun i => f (fa i) (fb i)) s.
Proof. induction s as [|x s IH]; [reflexivity|]. cbn. now rewrite IH. Qed.
Lemma with_nulls_map {A} (fv fn : A -> bool) s :
  with_nulls (map fv s) (map fn s) = map (fun i => if fn i then Some (fv i) else None) s.
Proof. unfold with_nulls. induction s as [|x s IH]; [reflexivity|]. cbn. now rewrite IH. Qed.
Lemma repeat_map_seq {A} (x : A) n : repeat x n = map (fun _ => x) (seq 0 n).
Proof. generalize 0. induction n as [|n IH]; intros k; [reflexivity|]. cbn. now rewrite (IH (S k)). Qed.

Definition validb (o : oval) : bool := match o with None => false | Some _ => true end.

Lemma map_nth_seq' {A} (l : list A) d : map (fun i => nth i l d) (seq 0 (length l)) = l.
Proof.
  apply nth_ext_len with (d := d); [now rewrite map_length, seq_length|].
  intros i Hi. rewrite map_length, seq_length in Hi. now rewrite nth_map_seq.
Qed.

Lemma valid_bits_seq a : valid_bits a = map (fun i => validb (slot a i)) (seq 0 (length a)).
Proof.
  unfold valid_bits, slot. rewrite <- (map_nth_seq' a None) at 1. rewrite map_map. reflexivity.
Qed.

Lemma nulls_opt_none a : nulls_opt a = None -> forall i, i < length a -> validb (slot a i) = true.
Proof.
  unfold nulls_opt. destruct (existsb negb (valid_bits a)) eqn:E; [discriminate|]. intros _ i Hi.
  destruct (validb (slot a i)) eqn:V; [reflexivity|]. exfalso.
  assert (X : existsb negb (valid_bits a) = true).
  { apply existsb_exists. exists false. split; [|reflexivity]. rewrite valid_bits_seq. apply in_map_iff.
    exists i. split; [exact V|]. apply in_seq. lia. }
  congruence.
Qed.
Lemma nulls_opt_some a n : nulls_opt a = Some n -> n = valid_bits a /\ exists i, i < length a /\ validb (slot a i) = false.
Proof.
  unfold nulls_opt. destruct (existsb negb (valid_bits a)) eqn:E; [|discriminate]. intros H. injection H as <-.
  split; [reflexivity|]. apply existsb_exists in E. destruct E as (b & Hb & Nb). destruct b; [discriminate|].
  rewrite valid_bits_seq in Hb. apply in_map_iff in Hb. destruct Hb as (i & Hi & Hs). apply in_seq in Hs.
  exists i. split; [lia|exact Hi].
Qed.

Section Kernels.
  Variable is_eq is_lt : val -> val -> bool.
  (* the element tests of the physical type agree with the value order on the operands *)
  Variable ok : val -> Prop.
  Hypothesis Heq : forall a b, ok a -> ok b -> is_eq a b = is_eq_c (vcmp false a b).
  Hypothesis Hlt : forall a b, ok a -> ok b -> is_lt a b = is_lt_c (vcmp false a b).

  Lemma apply_op_spec op a b : ok a -> ok b ->
    kernel_spec op (Some a) (Some b) = Some (apply_op is_eq is_lt op a b).
  Proof.
    intros Ha Hb. pose proof (vcmp_antisym false a b) as An.
    unfold kernel_spec, apply_op, cmp_opts, ocmp. cbn [ncmp rev_if child_nf xorb].
    rewrite ?(Heq a b Ha Hb), ?(Hlt a b Ha Hb), ?(Hlt b a Hb Ha). rewrite ?An.
    destruct op; destruct (vcmp false a b); reflexivity.
  Qed.

  Definition ok_col (a : list oval) : Prop := forall i v, slot a i = Some v -> ok v.

  Theorem compare_op_spec op l_s r_s l r : ok_col l -> ok_col r ->
    (l_s = true -> length l = 1) -> (r_s = true -> length r = 1) ->
    (l_s = false -> r_s = false -> length l = length r) ->
    compare_op is_eq is_lt op l_s r_s l r = Some (kernels_spec op l_s r_s l r).
  Proof.
    intros Okl Okr Hls Hrs Hlen. unfold compare_op.
    assert (E0 : negb (length l =? length r) && negb l_s && negb r_s = false).
    { destruct l_s, r_s; cbn; try apply andb_false_r; try reflexivity.
      - rewrite andb_false_r. reflexivity.
      - rewrite (Hlen eq_refl eq_refl), Nat.eqb_refl. reflexivity. }
    rewrite E0. f_equal.
    set (len := if l_s then length r else length l).
    unfold kernels_spec, kernel_rows. fold len.
    set (li := fun i : nat => if l_s then 0 else i). set (ri := fun i : nat => if r_s then 0 else i).
    assert (Hli : forall i, i < len -> li i < length l).
    { intros i Hi. unfold li, len in *. destruct l_s; [rewrite Hls by reflexivity; lia|exact Hi]. }
    assert (Hri : forall i, i < len -> ri i < length r).
    { intros i Hi. unfold ri, len in *. destruct r_s; [rewrite Hrs by reflexivity; lia|].
      destruct l_s; [exact Hi|]. now rewrite <- (Hlen eq_refl eq_refl). }
    (* the spec side, row by row *)
    assert (Spec : forall i, i < len ->
      match bcast l_s l i, bcast r_s r i with Some p, Some q => kernel_spec op p q | _, _ => None end
      = kernel_spec op (slot l (li i)) (slot r (ri i))).
    { intros i Hi. unfold bcast. fold (li i) (ri i).
      rewrite (nth_error_nth' l None (Hli i Hi)), (nth_error_nth' r None (Hri i Hi)). reflexivity. }
    (* values(): op applied to the (possibly garbage) values; meaningful where both slots are valid *)
    unfold values_m. fold li ri.
    set (vf := fun i => apply_op is_eq is_lt op (val_of l (li i)) (val_of r (ri i))).
    assert (Val : forall i u v, slot l (li i) = Some u -> slot r (ri i) = Some v ->
              kernel_spec op (Some u) (Some v) = Some (vf i)).
    { intros i u v Hu Hv. unfold vf, val_of. rewrite Hu, Hv. apply apply_op_spec; [eapply Okl|eapply Okr]; eassumption. }
    (* null buffers as functions of the row *)
    assert (VBl : l_s = false -> valid_bits l = map (fun i => validb (slot l (li i))) (seq 0 len)).
    { intros E. unfold li, len. rewrite E. apply valid_bits_seq. }
    assert (VBr : r_s = false -> valid_bits r = map (fun i => validb (slot r (ri i))) (seq 0 len)).
    { intros E. unfold ri, len. rewrite E. rewrite valid_bits_seq. destruct l_s eqn:El; [reflexivity|].
      now rewrite (Hlen eq_refl E). }
    assert (Sc_l : forall n, l_s = true -> nulls_opt l = Some n -> forall i, slot l (li i) = None).
    { intros n E H i. apply nulls_opt_some in H. destruct H as (_ & j & Hj & Hn). rewrite Hls in Hj by exact E.
      unfold li. rewrite E. replace j with 0 in Hn by lia. destruct (slot l 0); [discriminate|reflexivity]. }
    assert (Sc_r : forall n, r_s = true -> nulls_opt r = Some n -> forall i, slot r (ri i) = None).
    { intros n E H i. apply nulls_opt_some in H. destruct H as (_ & j & Hj & Hn). rewrite Hrs in Hj by exact E.
      unfold ri. rewrite E. replace j with 0 in Hn by lia. destruct (slot r 0); [discriminate|reflexivity]. }
    assert (NNl : nulls_opt l = None -> forall i, i < len -> exists u, slot l (li i) = Some u).
    { intros H i Hi. pose proof (nulls_opt_none l H (li i) (Hli i Hi)) as V. destruct (slot l (li i)) as [u|]; [now exists u|discriminate]. }
    assert (NNr : nulls_opt r = None -> forall i, i < len -> exists v, slot r (ri i) = Some v).
    { intros H i Hi. pose proof (nulls_opt_none r H (ri i) (Hri i Hi)) as V. destruct (slot r (ri i)) as [v|]; [now exists v|discriminate]. }
    (* both-scalar rows: len = 1 and the bit lists are the one-row lists *)
    assert (VBl1 : l_s = true -> r_s = true -> valid_bits l = map (fun i => validb (slot l (li i))) (seq 0 len)).
    { intros E1 E2. unfold li, len. rewrite E1. rewrite (Hrs E2). rewrite valid_bits_seq, (Hls E1). reflexivity. }
    assert (VBr1 : l_s = true -> r_s = true -> valid_bits r = map (fun i => validb (slot r (ri i))) (seq 0 len)).
    { intros E1 E2. unfold ri, len. rewrite E1, E2. rewrite valid_bits_seq, (Hrs E2). reflexivity. }
    (* a uniform way to finish: both sides are maps over seq 0 len *)
    assert (Fin : forall F : nat -> option bool,
      (forall i, i < len -> F i = kernel_spec op (slot l (li i)) (slot r (ri i))) ->
      map F (seq 0 len) = map (fun i => match bcast l_s l i, bcast r_s r i with Some p, Some q => kernel_spec op p q | _, _ => None end) (seq 0 len)).
    { intros F HF. apply map_ext_in. intros i Hi. apply in_seq in Hi. rewrite Spec by lia. apply HF. lia. }
    destruct (nulls_opt l) as [ln|] eqn:Nl, (nulls_opt r) as [rn|] eqn:Nr; cbv beta iota zeta.
    - (* both sides have nulls *)
      destruct (nulls_opt_some l ln Nl) as (-> & _). destruct (nulls_opt_some r rn Nr) as (-> & _).
      destruct (Bool.eqb l_s r_s) eqn:Es.
      + apply eqb_prop in Es.
        assert (Al : valid_bits l = map (fun i => validb (slot l (li i))) (seq 0 len)).
        { destruct l_s eqn:E1; [apply VBl1; [reflexivity|now rewrite <- Es]|now apply VBl]. }
        assert (Ar : valid_bits r = map (fun i => validb (slot r (ri i))) (seq 0 len)).
        { destruct r_s eqn:E2; [apply VBr1; [now rewrite Es|reflexivity]|now apply VBr]. }
        rewrite Al, Ar.
        destruct op; unfold all_some; rewrite ?zip3_map, ?zip2_map, ?with_nulls_map, ?map_map; apply Fin; intros i Hi;
          destruct (slot l (li i)) as [u|] eqn:Su, (slot r (ri i)) as [v|] eqn:Sv; cbn [validb andb orb xorb negb];
          try reflexivity; try (rewrite (Val i u v Su Sv); reflexivity);
          try (pose proof (Val i u v Su Sv) as X; cbn in X |- *; injection X as <-; try reflexivity; now rewrite ?negb_involutive).
      + apply eqb_false_iff in Es.
        destruct l_s eqn:E1, r_s eqn:E2; try congruence; cbv beta iota zeta.
        * (* left scalar null, right array *)
          rewrite (VBr eq_refl).
          destruct op; unfold all_some; rewrite ?map_map, ?repeat_map_seq; apply Fin; intros i Hi;
            rewrite (Sc_l _ eq_refl eq_refl i); destruct (slot r (ri i)); reflexivity.
        * rewrite (VBl eq_refl).
          destruct op; unfold all_some; rewrite ?map_map, ?repeat_map_seq; apply Fin; intros i Hi;
            rewrite (Sc_r _ eq_refl eq_refl i); destruct (slot l (li i)); reflexivity.
    - (* only the left side has nulls *)
      destruct (nulls_opt_some l ln Nl) as (-> & _).
      destruct l_s eqn:E1; cbv beta iota zeta.
      + destruct op; unfold all_some; rewrite ?map_map, ?repeat_map_seq, ?map_map; apply Fin; intros i Hi;
          rewrite (Sc_l _ eq_refl eq_refl i); destruct (NNr eq_refl i Hi) as [v ->]; reflexivity.
      + rewrite (VBl eq_refl).
        destruct op; unfold all_some; rewrite ?zip2_map, ?with_nulls_map, ?map_map; apply Fin; intros i Hi;
          destruct (NNr eq_refl i Hi) as [v Sv]; rewrite Sv;
          destruct (slot l (li i)) as [u|] eqn:Su; cbn [validb andb orb negb]; try reflexivity;
          try (rewrite (Val i u v Su Sv); reflexivity);
          try (pose proof (Val i u v Su Sv) as X; cbn in X |- *; injection X as <-; try reflexivity; now rewrite ?negb_involutive).
    - (* only the right side has nulls *)
      destruct (nulls_opt_some r rn Nr) as (-> & _).
      destruct r_s eqn:E2; cbv beta iota zeta.
      + destruct op; unfold all_some; rewrite ?map_map, ?repeat_map_seq, ?map_map; apply Fin; intros i Hi;
          rewrite (Sc_r _ eq_refl eq_refl i); destruct (NNl eq_refl i Hi) as [u ->]; reflexivity.
      + rewrite (VBr eq_refl).
        destruct op; unfold all_some; rewrite ?zip2_map, ?with_nulls_map, ?map_map; apply Fin; intros i Hi;
          destruct (NNl eq_refl i Hi) as [u Su]; rewrite Su;
          destruct (slot r (ri i)) as [v|] eqn:Sv; cbn [validb andb orb negb]; try reflexivity;
          try (rewrite (Val i u v Su Sv); reflexivity);
          try (pose proof (Val i u v Su Sv) as X; cbn in X |- *; injection X as <-; try reflexivity; now rewrite ?negb_involutive).
    - (* no nulls *)
      unfold all_some. rewrite map_map. apply Fin. intros i Hi.
      destruct (NNl eq_refl i Hi) as [u Su]. destruct (NNr eq_refl i Hi) as [v Sv].
      rewrite Su, Sv. symmetry. now apply Val.
  Qed.
End Kernels.
