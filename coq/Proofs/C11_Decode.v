(* C11 — decoding inverts encoding (decode_blocks, fixed decode, nested fields, rows). *)
From Coq Require Import List Arith NArith ZArith Lia Bool.
From AV Require Import Base.ListX Model.C11_Row Proofs.C11_Lex Proofs.C11_Fixed Proofs.C11_Var Proofs.C11_Unfold Proofs.C11_Field Proofs.C11_Nested Proofs.C11_RowOrder.
Import ListNotations.
Local Open Scope N_scope.

Notation CONT := BLOCK_CONTINUATION.

(* ------------------------------------------------------------------ byte inversion helpers *)
Definition ib (d : bool) (b : N) : N := if d then not8 b else b.

Lemma inv_if_cons d x l : inv_if d (x :: l) = ib d x :: inv_if d l.
Proof. destruct d; reflexivity. Qed.
Lemma inv_if_app d a b : inv_if d (a ++ b) = inv_if d a ++ inv_if d b.
Proof. destruct d; [apply invert_app | reflexivity]. Qed.
Lemma inv_if_nil d : inv_if d [] = [].
Proof. destruct d; reflexivity. Qed.
Lemma inv_if_invol d l : wf_bytes l -> inv_if d (inv_if d l) = l.
Proof. intros H. destruct d; [now apply invert_invol | reflexivity]. Qed.
Lemma inv_if_firstn d n l : inv_if d (firstn n l) = firstn n (inv_if d l).
Proof. destruct d; [|reflexivity]. cbn [inv_if]. unfold invert. symmetry. apply firstn_map. Qed.
Lemma ib_inj d a b : a < 256 -> b < 256 -> ib d a = ib d b -> a = b.
Proof. unfold ib, not8. destruct d; lia. Qed.
Lemma ib_invol (d : bool) (a : N) : a < 256 -> (if d then not8 (ib d a) else ib d a) = a.
Proof. unfold ib, not8. destruct d; lia. Qed.

(* ------------------------------------------------------------------ list positions *)
Lemma nth_app_at {A} (pre : list A) x rest d : nth (length pre) (pre ++ x :: rest) d = x.
Proof. rewrite app_nth2 by lia. now rewrite Nat.sub_diag. Qed.

Lemma slice_app pre mid rest : slice (pre ++ mid ++ rest) (length pre) (length mid) = mid.
Proof.
  unfold slice. rewrite skipn_app, skipn_all, Nat.sub_diag. cbn [skipn app].
  rewrite firstn_app, firstn_all, Nat.sub_diag. cbn [firstn]. apply app_nil_r.
Qed.

Lemma skipn_app_at {A} (pre rest : list A) : skipn (length pre) (pre ++ rest) = rest.
Proof. rewrite skipn_app, skipn_all, Nat.sub_diag. reflexivity. Qed.

(* ------------------------------------------------------------------ one block step *)
Lemma blk_length k c v : (length v <= k)%nat -> length (blk k c v) = S k.
Proof. intros H. unfold blk. rewrite !app_length, repeat_length. cbn [length]. lia. Qed.

Section Step.
Variable sch : nat -> nat.
Hypothesis sch_pos : forall s, (0 < sch s)%nat.
Hypothesis sch_lt : forall s, N.of_nat (sch s) < CONT.

Lemma step_final d f st v pre rest : (length v <= sch st)%nat ->
  let row := pre ++ inv_if d (sblocks CONT sch (S f) st v) ++ rest in
  nth (length pre + sch st) row 0 = ib d (N.of_nat (length v))
  /\ slice row (length pre) (length v) = inv_if d v
  /\ length (sblocks CONT sch (S f) st v) = S (sch st).
Proof.
  intros Hl row. subst row. cbn [sblocks].
  destruct (Nat.leb_spec (length v) (sch st)) as [_|]; [|lia].
  split; [|split].
  - unfold blk. cbn [Nat.add].
    replace (pre ++ inv_if d (v ++ repeat 0 (sch st - length v) ++ [N.of_nat (length v)]) ++ rest)
      with ((pre ++ inv_if d (v ++ repeat 0 (sch st - length v))) ++ ib d (N.of_nat (length v)) :: rest).
    + replace (length pre + sch st)%nat with (length (pre ++ inv_if d (v ++ repeat 0 (sch st - length v)))).
      * apply nth_app_at.
      * rewrite app_length, inv_if_length, app_length, repeat_length. lia.
    + rewrite !inv_if_app, inv_if_cons, inv_if_nil, <- !app_assoc. reflexivity.
  - unfold blk. rewrite inv_if_app, <- app_assoc.
    replace (length v) with (length (inv_if d v)) by apply inv_if_length. apply slice_app.
  - now apply blk_length.
Qed.

Lemma step_cont d f st v pre rest : (sch st < length v)%nat ->
  let row := pre ++ inv_if d (sblocks CONT sch (S f) st v) ++ rest in
  nth (length pre + sch st) row 0 = ib d CONT
  /\ slice row (length pre) (sch st) = inv_if d (firstn (sch st) v)
  /\ row = (pre ++ inv_if d (firstn (sch st) v) ++ [ib d CONT]) ++ inv_if d (sblocks CONT sch f (S st) (skipn (sch st) v)) ++ rest
  /\ length (sblocks CONT sch (S f) st v) = (S (sch st) + length (sblocks CONT sch f (S st) (skipn (sch st) v)))%nat.
Proof.
  intros Hl row. subst row. cbn [sblocks].
  destruct (Nat.leb_spec (length v) (sch st)) as [|_]; [lia|].
  assert (Hf : length (firstn (sch st) v) = sch st) by (rewrite firstn_length; lia).
  assert (E : pre ++ inv_if d (firstn (sch st) v ++ [CONT] ++ sblocks CONT sch f (S st) (skipn (sch st) v)) ++ rest
              = (pre ++ inv_if d (firstn (sch st) v) ++ [ib d CONT]) ++ inv_if d (sblocks CONT sch f (S st) (skipn (sch st) v)) ++ rest).
  { rewrite !inv_if_app, inv_if_cons, inv_if_nil, <- !app_assoc. reflexivity. }
  split; [|split; [|split]].
  - rewrite E. rewrite <- !app_assoc. cbn [app].
    replace (pre ++ inv_if d (firstn (sch st) v) ++ ib d CONT :: inv_if d (sblocks CONT sch f (S st) (skipn (sch st) v)) ++ rest)
      with ((pre ++ inv_if d (firstn (sch st) v)) ++ ib d CONT :: inv_if d (sblocks CONT sch f (S st) (skipn (sch st) v)) ++ rest)
      by (now rewrite <- app_assoc).
    replace (length pre + sch st)%nat with (length (pre ++ inv_if d (firstn (sch st) v)))
      by (rewrite app_length, inv_if_length; lia).
    apply nth_app_at.
  - rewrite inv_if_app, <- app_assoc.
    set (u := firstn (sch st) v) in *. rewrite <- Hf, <- (inv_if_length d u).
    apply slice_app.
  - exact E.
  - rewrite !app_length. cbn [length]. lia.
Qed.
End Step.

(* ------------------------------------------------------------------ decode_blocks *)
Lemma sched_full st : (MINI_BLOCK_COUNT <= st)%nat -> sched st = BLOCK_SIZE.
Proof. intros H. unfold sched. destruct (Nat.ltb_spec st MINI_BLOCK_COUNT); [lia|reflexivity]. Qed.
Lemma sched_mini st : (st < MINI_BLOCK_COUNT)%nat -> sched st = MINI_BLOCK_SIZE.
Proof. intros H. unfold sched. destruct (Nat.ltb_spec st MINI_BLOCK_COUNT); [reflexivity|lia]. Qed.

Lemma len_lt_cont st (v : list N) : (length v <= sched st)%nat -> N.of_nat (length v) < 256 /\ N.of_nat (length v) <> CONT.
Proof. intros H. pose proof (sched_lt st). unfold CONT in *. lia. Qed.

Lemma decode_full_correct d : forall f st v pre acc rest fuel,
  (MINI_BLOCK_COUNT <= st)%nat -> v <> [] -> (length v <= f)%nat -> (f <= fuel)%nat ->
  decode_full fuel d (pre ++ inv_if d (sblocks CONT sched f st v) ++ rest) (length pre) acc
  = (acc ++ inv_if d v, (length pre + length (sblocks CONT sched f st v))%nat).
Proof.
  induction f as [|f IH]; intros st v pre acc rest fuel Hst Nv Hl Hf.
  - destruct v; [congruence|cbn [length] in Hl; lia].
  - destruct fuel as [|fuel]; [lia|]. cbn [decode_full].
    pose proof (sched_full st Hst) as Es.
    destruct (Nat.leb_spec (length v) (sched st)) as [L|L].
    + destruct (step_final sched sched_pos sched_lt d f st v pre rest L) as (H1 & H2 & H3).
      rewrite <- Es. rewrite H1.
      destruct (len_lt_cont st v L) as [Hb Hc].
      destruct (N.eqb_spec (ib d (N.of_nat (length v))) (if d then not8 CONT else CONT)) as [E|_].
      { exfalso. apply Hc. apply (ib_inj d); [exact Hb | unfold CONT; lia | exact E]. }
      cbn [negb]. rewrite ib_invol by exact Hb. rewrite Nat2N.id, H2, H3. f_equal. lia.
    + destruct (step_cont sched sched_pos sched_lt d f st v pre rest L) as (H1 & H2 & H3 & H4).
      rewrite <- Es. rewrite H1.
      change (if d then not8 CONT else CONT) with (ib d CONT). rewrite N.eqb_refl. cbn [negb].
      rewrite H2, H3.
      replace (length pre + sched st + 1)%nat with (length (pre ++ inv_if d (firstn (sched st) v) ++ [ib d CONT]))
        by (rewrite !app_length, inv_if_length, firstn_length; cbn [length]; lia).
      rewrite IH; try lia.
      * rewrite <- app_assoc, <- inv_if_app, firstn_skipn. f_equal.
        rewrite H4, !app_length, inv_if_length, firstn_length. cbn [length]. lia.
      * apply skipn_nonempty. lia.
      * rewrite skipn_length. pose proof (sched_pos st). lia.
Qed.

Lemma sblocks_length_ge : forall f st v, (length v <= f)%nat -> (length v <= length (sblocks CONT sched f st v))%nat.
Proof.
  induction f as [|f IH]; intros st v Hl; [lia|]. cbn [sblocks].
  destruct (Nat.leb_spec (length v) (sched st)) as [L|L].
  - rewrite blk_length by exact L. lia.
  - rewrite !app_length, firstn_length. cbn [length]. pose proof (sched_pos st).
    specialize (IH (S st) (skipn (sched st) v)). rewrite skipn_length in IH. lia.
Qed.

Lemma decode_mini_correct d : forall n f st v pre acc rest,
  (st + n = MINI_BLOCK_COUNT)%nat -> v <> [] -> (length v <= f)%nat ->
  (f <= length (pre ++ inv_if d (sblocks CONT sched f st v) ++ rest))%nat ->
  decode_mini n d (pre ++ inv_if d (sblocks CONT sched f st v) ++ rest) (length pre) acc
  = (acc ++ inv_if d v, (length pre + length (sblocks CONT sched f st v))%nat).
Proof.
  induction n as [|n IH]; intros f st v pre acc rest Hst Nv Hl Hf.
  - cbn [decode_mini]. apply decode_full_correct; try assumption; lia.
  - destruct f as [|f]; [destruct v; [congruence|cbn [length] in Hl; lia]|].
    cbn [decode_mini].
    assert (Es : sched st = MINI_BLOCK_SIZE) by (apply sched_mini; lia).
    destruct (Nat.leb_spec (length v) (sched st)) as [L|L].
    + destruct (step_final sched sched_pos sched_lt d f st v pre rest L) as (H1 & H2 & H3).
      rewrite <- Es. rewrite H1.
      destruct (len_lt_cont st v L) as [Hb Hc].
      destruct (N.eqb_spec (ib d (N.of_nat (length v))) (if d then not8 CONT else CONT)) as [E|_].
      { exfalso. apply Hc. apply (ib_inj d); [exact Hb | unfold CONT; lia | exact E]. }
      cbn [negb]. rewrite ib_invol by exact Hb. rewrite Nat2N.id, H2, H3. f_equal. lia.
    + destruct (step_cont sched sched_pos sched_lt d f st v pre rest L) as (H1 & H2 & H3 & H4).
      rewrite <- Es. rewrite H1.
      change (if d then not8 CONT else CONT) with (ib d CONT). rewrite N.eqb_refl. cbn [negb].
      rewrite H2. rewrite H3 in Hf |- *.
      replace (length pre + sched st + 1)%nat with (length (pre ++ inv_if d (firstn (sched st) v) ++ [ib d CONT]))
        by (rewrite !app_length, inv_if_length, firstn_length; cbn [length]; lia).
      rewrite (IH f (S st)); try lia.
      * rewrite <- app_assoc, <- inv_if_app, firstn_skipn. f_equal.
        rewrite H4, !app_length, inv_if_length, firstn_length. cbn [length]. lia.
      * apply skipn_nonempty. lia.
      * rewrite skipn_length. pose proof (sched_pos st). lia.
Qed.

(* decode_blocks on an encoded non-null value followed by anything *)
Theorem decode_blocks_some o b rest : wf_bytes b ->
  decode_blocks o (encode_one o (Some b) ++ rest) = (inv_if (descending o) b, length (encode_one o (Some b))).
Proof.
  intros Wb. rewrite encode_one_some. unfold decode_blocks. set (d := descending o).
  destruct b as [|p b].
  - unfold var_body. rewrite inv_if_cons, inv_if_nil. cbn [app nth length].
    destruct (N.eqb_spec (ib d EMPTY_SENTINEL) (if d then not8 NON_EMPTY_SENTINEL else NON_EMPTY_SENTINEL)) as [E|_].
    { exfalso. destruct d; discriminate E. }
    reflexivity.
  - unfold var_body. rewrite encode_nonempty_sblocks by discriminate.
    rewrite inv_if_cons. cbn [app nth].
    change (if d then not8 NON_EMPTY_SENTINEL else NON_EMPTY_SENTINEL) with (ib d NON_EMPTY_SENTINEL).
    rewrite N.eqb_refl. cbn [negb].
    change (ib d NON_EMPTY_SENTINEL :: inv_if d (sblocks CONT sched (length (p :: b)) 0 (p :: b)) ++ rest)
      with ([ib d NON_EMPTY_SENTINEL] ++ inv_if d (sblocks CONT sched (length (p :: b)) 0 (p :: b)) ++ rest).
    change 1%nat with (length [ib d NON_EMPTY_SENTINEL]) at 1.
    rewrite decode_mini_correct; try discriminate; try reflexivity; try lia.
    + cbn [app length]. rewrite inv_if_length. reflexivity.
    + rewrite !app_length, inv_if_length. pose proof (sblocks_length_ge (length (p :: b)) 0 (p :: b)). lia.
Qed.

Lemma decode_blocks_null o rest : decode_blocks o (encode_null o ++ rest) = ([], 1%nat).
Proof.
  unfold decode_blocks, encode_null, null_sentinel. cbn [app nth].
  destruct (descending o), (nulls_first o); reflexivity.
Qed.


(* ------------------------------------------------------------------ fixed-width fields *)
Lemma dec_fixed_valid o w f e rest : length e = w -> wf_bytes e ->
  dec_fixed o w f (encode_fixed o w (Some e) ++ rest) = (f e, rest).
Proof.
  intros Hl We. unfold dec_fixed, encode_fixed. cbn [app nth]. cbn [N.eqb Pos.eqb].
  unfold slice. cbn [skipn].
  rewrite <- (inv_if_length (descending o) e) in Hl. rewrite <- Hl.
  rewrite firstn_app, firstn_all, Nat.sub_diag. cbn [firstn]. rewrite app_nil_r.
  rewrite inv_if_invol by exact We. now rewrite skipn_app_at.
Qed.

Lemma dec_fixed_null o w f rest : dec_fixed o w f (encode_fixed o w None ++ rest) = (VNull, rest).
Proof.
  unfold dec_fixed, encode_fixed. cbn [app nth].
  assert (E : N.eqb (null_sentinel o) 1 = false) by (unfold null_sentinel; destruct (nulls_first o); reflexivity).
  rewrite E. cbn [skipn]. f_equal.
  rewrite <- (repeat_length 0 w) at 1. apply skipn_app_at.
Qed.

(* ------------------------------------------------------------------ variable-length fields *)
Lemma encode_one_some_head o b : wf_bytes b -> exists h tl, encode_one o (Some b) = h :: tl /\ 0 < h < 255.
Proof. intros Wb. rewrite encode_one_some. apply inv_if_head; [now apply var_body_wf | apply var_body_head]. Qed.

Lemma decode_var_some o b rest : wf_bytes b -> decode_var o (encode_one o (Some b) ++ rest) = (Some b, rest).
Proof.
  intros Wb. unfold decode_var. rewrite decode_blocks_some by exact Wb.
  destruct (encode_one_some_head o b Wb) as (h & tl & E & Hr). rewrite E at 1. cbn [app nth].
  assert (En : N.eqb h (null_sentinel o) = false).
  { apply N.eqb_neq. unfold null_sentinel. destruct (nulls_first o); lia. }
  rewrite En. cbn [negb]. rewrite inv_if_invol by exact Wb. now rewrite skipn_app_at.
Qed.

Lemma decode_var_none o rest : decode_var o (encode_one o None ++ rest) = (None, rest).
Proof.
  unfold decode_var. cbn [encode_one]. rewrite decode_blocks_null. unfold encode_null. cbn [app nth skipn].
  now rewrite N.eqb_refl.
Qed.

(* ------------------------------------------------------------------ unfolding dec's nested loops *)
Fixpoint dec_fields (fs : list ftype) (o : opts) (row : list N) : list value * list N :=
  match fs with
  | [] => ([], row)
  | f :: fs' => let (v, r) := dec f o row in let (vs, r') := dec_fields fs' o r in (v :: vs, r')
  end.

Lemma dec_struct fs o row :
  dec (TStruct fs) o row =
  (let (vs, rest) := dec_fields fs o (skipn 1 row) in
   ((if N.eqb (nth 0 row 0) 1 then VStruct vs else VNull), rest)).
Proof.
  cbn [dec].
  assert (E : forall r, (fix go (fs : list ftype) (row : list N) {struct fs} : list value * list N :=
         match fs with
         | [] => ([], row)
         | f :: fs' => let (v, r) := dec f o row in let (vs, r') := go fs' r in (v :: vs, r')
         end) fs r = dec_fields fs o r).
  { induction fs as [|f fs IH]; intros r; [reflexivity|]. cbn [dec_fields]. destruct (dec f o r) as [v r1].
    first [reflexivity | now rewrite IH | now rewrite <- IH]. }
  rewrite E. reflexivity.
Qed.

Fixpoint dec_n (c : ftype) (o : opts) (k : nat) (row : list N) : list value * list N :=
  match k with
  | O => ([], row)
  | S k' => let (v, r) := dec c o row in let (vs, r') := dec_n c o k' r in (v :: vs, r')
  end.

Lemma dec_fsl c n o row :
  dec (TFsl c n) o row =
  (if N.eqb (nth 0 row 0) 1 then let (vs, rest) := dec_n c o n (skipn 1 row) in (VList vs, rest)
   else (VNull, skipn 1 row)).
Proof.
  cbn [dec]. destruct (N.eqb (nth 0 row 0) 1); [|reflexivity].
  assert (E : forall k r, (fix go (k : nat) (row : list N) {struct k} : list value * list N :=
         match k with
         | O => ([], row)
         | S k' => let (v, r) := dec c o row in let (vs, r') := go k' r in (v :: vs, r')
         end) k r = dec_n c o k r).
  { induction k as [|k IH]; intros r; [reflexivity|]. cbn [dec_n]. destruct (dec c o r) as [v r1].
    first [reflexivity | now rewrite IH | now rewrite <- IH]. }
  rewrite E. reflexivity.
Qed.

Lemma enc_fields_nil fs o : enc_fields fs o [] = null_fields fs o.
Proof. induction fs as [|f fs IH]; [reflexivity|]. cbn [enc_fields null_fields hd tl]. now rewrite IH. Qed.

(* ------------------------------------------------------------------ the list loop *)
Lemma encode_one_some_length o b : b <> [] -> (2 <= length (encode_one o (Some b)))%nat.
Proof.
  intros Nb. rewrite encode_one_some, inv_if_length. destruct (var_body_nonempty_head b Nb) as (tl & E).
  rewrite E. cbn [length]. destruct tl as [|x tl]; [|cbn [length]; lia].
  exfalso. destruct b as [|p b]; [congruence|]. unfold var_body in E.
  rewrite encode_nonempty_sblocks in E by discriminate. injection E as E.
  apply (sblocks_nonempty CONT sched (length (p :: b)) 0 (p :: b)); [cbn [length]; lia | exact E].
Qed.

Lemma dec_list_loop_correct o (g : value -> list N) rest : forall vs acc fuel,
  (forall e, In e vs -> wf_bytes (g e) /\ g e <> []) -> (length vs < fuel)%nat ->
  dec_list_loop fuel o (flat_map (fun e => encode_one o (Some (g e))) vs ++ encode_empty o ++ rest) acc
  = (acc ++ map g vs, rest).
Proof.
  induction vs as [|e vs IH]; intros acc fuel Hg Hf; (destruct fuel as [|fuel]; [lia|]); cbn [dec_list_loop flat_map map].
  - cbn [app]. change (encode_empty o) with (encode_one o (Some [])).
    rewrite decode_blocks_some by constructor. cbn [encode_one encode_empty length].
    destruct (Nat.leb_spec 1 1); [|lia]. rewrite app_nil_r. reflexivity.
  - destruct (Hg e (or_introl eq_refl)) as [We Ne].
    rewrite <- app_assoc. rewrite decode_blocks_some by exact We.
    pose proof (encode_one_some_length o (g e) Ne) as Hlen.
    destruct (Nat.leb_spec (length (encode_one o (Some (g e)))) 1); [lia|].
    rewrite skipn_app_at, inv_if_invol by exact We.
    rewrite IH.
    + rewrite <- app_assoc. reflexivity.
    + intros e' He'. apply Hg. now right.
    + cbn [length] in Hf. lia.
Qed.

Lemma flat_map_length_ge {A} (h : A -> list N) vs : (forall a, In a vs -> h a <> []) -> (length vs <= length (flat_map h vs))%nat.
Proof.
  induction vs as [|a vs IH]; intros H; cbn [flat_map length]; [lia|].
  rewrite app_length. specialize (IH (fun x Hx => H x (or_intror Hx))).
  assert (h a <> []) by (apply H; now left). destruct (h a); [congruence|cbn [length]; lia].
Qed.

Lemma enc_list_valid' c o vs :
  enc (TList c) o (VList vs) = flat_map (fun e => encode_one o (Some (enc c (child_opts o) e))) vs ++ encode_empty o.
Proof. cbn [enc]. destruct vs; reflexivity. Qed.

Lemma list_valid_head c o vs : (forall e, In e vs -> wf_bytes (enc c (child_opts o) e)) ->
  exists h tl, enc (TList c) o (VList vs) = h :: tl /\ 0 < h < 255.
Proof.
  intros Hw. rewrite enc_list_valid'. destruct vs as [|e vs]; cbn [flat_map app].
  - unfold encode_empty, not8, EMPTY_SENTINEL. eexists _, _. split; [reflexivity|]. destruct (descending o); lia.
  - destruct (encode_one_some_head o (enc c (child_opts o) e) (Hw e (or_introl eq_refl))) as (h & tl & -> & Hr).
    cbn [app]. eexists _, _. split; [reflexivity|exact Hr].
Qed.

Lemma decode_encode_tuple ws : wf_widths ws -> forall zs, wt_tuple ws zs -> decode_tuple ws (encode_tuple ws zs) = zs.
Proof.
  induction ws as [|w ws IH]; intros Hw zs Wz.
  - destruct zs; [reflexivity|contradiction].
  - destruct zs as [|[|z| | |] zs]; cbn [wt_tuple] in Wz; try contradiction. cbn [wf_widths] in Hw.
    cbn [encode_tuple decode_tuple hd tl vint].
    assert (Ef : firstn w (encode_signed w z ++ encode_tuple ws zs) = encode_signed w z).
    { rewrite <- (encode_signed_length w z) at 1. rewrite firstn_app, firstn_all, Nat.sub_diag. cbn [firstn]. apply app_nil_r. }
    assert (Es : skipn w (encode_signed w z ++ encode_tuple ws zs) = encode_tuple ws zs).
    { rewrite <- (encode_signed_length w z) at 1. apply skipn_app_at. }
    rewrite Ef, Es. rewrite decode_encode_signed; [| tauto | unfold in_signed; rewrite half_Z by tauto; tauto].
    f_equal. apply IH; tauto.
Qed.

(* ------------------------------------------------------------------ every field type *)
Theorem dec_enc : forall t, wf_type t -> forall o v rest, wt t v -> dec t o (enc t o v ++ rest) = (v, rest).
Proof.
  induction t as [w|w| |w|n| |fs IH|c IH|c n IH|c IH|ws] using ftype_ind'; intros Wt o v rest Wv.
  - cbn [dec enc wf_type] in *. destruct v; try (cbn [wt] in Wv; contradiction); [apply dec_fixed_null|].
    rewrite dec_fixed_valid; [|apply encode_signed_length | now apply encode_signed_wf].
    rewrite decode_encode_signed; [reflexivity | exact Wt |]. unfold in_signed. rewrite half_Z by exact Wt. exact Wv.
  - cbn [dec enc wf_type] in *. destruct v; try (cbn [wt] in Wv; contradiction); [apply dec_fixed_null|].
    rewrite dec_fixed_valid; [|apply encode_unsigned_length | apply encode_unsigned_wf].
    rewrite decode_encode_unsigned; [reflexivity|]. unfold in_unsigned. rewrite <- pow_bits_Z. exact Wv.
  - cbn [dec enc] in *. destruct v; try (cbn [wt] in Wv; contradiction); [apply dec_fixed_null|].
    rewrite dec_fixed_valid; [|reflexivity | apply encode_bool_wf].
    cbn [wt] in Wv. destruct Wv as [-> | ->]; reflexivity.
  - cbn [dec enc wf_type] in *. destruct v; try (cbn [wt] in Wv; contradiction); [apply dec_fixed_null|].
    rewrite dec_fixed_valid; [|apply encode_float_length | now apply encode_float_wf].
    rewrite decode_encode_float; [reflexivity | exact Wt |]. unfold in_unsigned. rewrite <- pow_bits_Z. exact Wv.
  - cbn [dec enc] in *. destruct v; try (cbn [wt] in Wv; contradiction); [apply dec_fixed_null|].
    cbn [wt] in Wv. rewrite dec_fixed_valid; [reflexivity | apply Wv | apply Wv].
  - cbn [dec enc] in *. destruct v; try (cbn [wt] in Wv; contradiction).
    + now rewrite decode_var_none.
    + rewrite decode_var_some by exact Wv. reflexivity.
  - rewrite wf_type_struct in Wt. rewrite dec_struct.
    destruct v as [| | |vs|]; try (cbn [wt] in Wv; contradiction).
    + rewrite enc_struct_null. cbn [app skipn nth].
      assert (E : N.eqb (null_sentinel o) 1 = false) by (unfold null_sentinel; destruct (nulls_first o); reflexivity).
      rewrite E.
      assert (H : snd (dec_fields fs o (null_fields fs o ++ rest)) = rest).
      { clear E Wv. revert rest. induction IH as [|f fs Hf Hfs IHfs]; intros rest; [reflexivity|].
        cbn [wf_types] in Wt. cbn [null_fields dec_fields]. rewrite <- app_assoc.
        rewrite (Hf (proj1 Wt) o VNull _ (wt_null f)).
        specialize (IHfs (proj2 Wt) rest). destruct (dec_fields fs o (null_fields fs o ++ rest)). exact IHfs. }
      destruct (dec_fields fs o (null_fields fs o ++ rest)) as [vs r]. cbn [snd] in H. now subst.
    + rewrite enc_struct_valid. cbn [app skipn nth]. cbn [N.eqb Pos.eqb].
      rewrite wt_struct in Wv.
      assert (H : dec_fields fs o (enc_fields fs o vs ++ rest) = (vs, rest)).
      { revert vs rest Wv. induction IH as [|f fs Hf Hfs IHfs]; intros vs rest Wv.
        - destruct vs; [reflexivity|contradiction].
        - destruct vs as [|x vs]; [contradiction|]. cbn [wf_types wt_fields] in *.
          cbn [enc_fields dec_fields hd tl]. rewrite <- app_assoc.
          rewrite (Hf (proj1 Wt) o x _ (proj1 Wv)). rewrite (IHfs (proj2 Wt) vs rest (proj2 Wv)). reflexivity. }
      rewrite H. reflexivity.
  - cbn [wf_type] in Wt. destruct v as [| | | |vs]; try (cbn [wt] in Wv; contradiction).
    + cbn [dec enc]. unfold encode_null. cbn [app nth length]. rewrite N.eqb_refl. cbn [negb dec_list_loop].
      change (null_sentinel o :: rest) with (encode_null o ++ rest). rewrite decode_blocks_null.
      cbn [Nat.leb skipn app]. reflexivity.
    + rewrite wt_list, wt_all_Forall in Wv. rewrite Forall_forall in Wv.
      assert (Hg : forall e, In e vs -> wf_bytes (enc c (child_opts o) e) /\ enc c (child_opts o) e <> []).
      { intros e He. split; [apply enc_wf; [exact Wt | now apply Wv] | apply enc_nonempty]. }
      destruct (list_valid_head c o vs (fun e He => proj1 (Hg e He))) as (h & tl & Eh & Hr).
      assert (En : N.eqb h (null_sentinel o) = false).
      { apply N.eqb_neq. unfold null_sentinel. destruct (nulls_first o); lia. }
      assert (Hn : nth 0 (enc (TList c) o (VList vs) ++ rest) 0 = h) by (rewrite Eh; reflexivity).
      cbn [dec]. rewrite Hn, En. cbn [negb]. clear Hn Eh.
      rewrite enc_list_valid'. rewrite <- !app_assoc.
      rewrite (dec_list_loop_correct o (enc c (child_opts o)) rest vs [] _ Hg).
      * cbn [app]. rewrite map_map. f_equal. f_equal.
        rewrite <- (map_id vs) at 2. apply map_ext_in. intros e He.
        rewrite <- (app_nil_r (enc c (child_opts o) e)). rewrite (IH Wt (child_opts o) e [] (Wv e He)). reflexivity.
      * rewrite !app_length.
        pose proof (flat_map_length_ge (fun e => encode_one o (Some (enc c (child_opts o) e))) vs
                      (fun a _ => encode_one_nonempty o _)).
        unfold encode_empty. cbn [length]. lia.
  - cbn [wf_type] in Wt. rewrite dec_fsl. destruct v as [| | | |vs]; try (cbn [wt] in Wv; contradiction).
    + cbn [enc app nth skipn].
      assert (E : N.eqb (null_sentinel o) 1 = false) by (unfold null_sentinel; destruct (nulls_first o); reflexivity).
      rewrite E. reflexivity.
    + cbn [enc app nth skipn]. cbn [N.eqb Pos.eqb].
      rewrite wt_fsl, wt_all_Forall in Wv. destruct Wv as [Hl Wv].
      assert (H : dec_n c o n (flat_map (fun e => enc c o e) vs ++ rest) = (vs, rest)).
      { clear - IH Wt Hl Wv. revert vs Hl Wv. induction n as [|n IHn]; intros vs Hl Wv.
        - destruct vs; [reflexivity|discriminate].
        - destruct vs as [|x vs]; [discriminate|]. inversion Wv as [|? ? Wx Wvs]; subst.
          cbn [flat_map dec_n]. rewrite <- app_assoc. rewrite (IH Wt o x _ Wx).
          rewrite (IHn vs); [reflexivity | cbn [length] in Hl; lia | exact Wvs]. }
      rewrite H. reflexivity.
  - cbn [wf_type wt] in *. cbn [dec enc].
    assert (We : wf_bytes (enc c (child_opts o) v)) by (now apply enc_wf).
    rewrite decode_blocks_some by exact We. rewrite inv_if_invol by exact We.
    rewrite skipn_app_at. rewrite <- (app_nil_r (enc c (child_opts o) v)).
    rewrite (IH Wt (child_opts o) v [] Wv). reflexivity.
  - rewrite wf_type_iv in Wt. cbn [dec enc]. destruct v; try (cbn [wt] in Wv; contradiction); [apply dec_fixed_null|].
    rewrite wt_iv in Wv. rewrite dec_fixed_valid; [|apply encode_tuple_length | now apply encode_tuple_wf].
    now rewrite decode_encode_tuple.
Qed.

(* ------------------------------------------------------------------ rows *)
Theorem dec_enc_row fs : wf_fields fs -> forall r rest, wt_row fs r -> 
  dec_row fs (enc_row fs r ++ rest) = r.
Proof.
  induction fs as [|[t o] fs IH]; intros Wf r rest Wr.
  - destruct r; [reflexivity|contradiction].
  - destruct r as [|x r]; [contradiction|]. cbn [wf_fields wt_row] in *.
    cbn [enc_row dec_row hd tl]. rewrite <- app_assoc. rewrite (dec_enc t (proj1 Wf) o x _ (proj1 Wr)).
    f_equal. apply IH; tauto.
Qed.

Lemma wf_fields_Forall fs : Forall (fun f : field => wf_type (fst f)) fs -> wf_fields fs.
Proof. induction 1 as [|[t o] fs H Hfs IH]; cbn [wf_fields]; auto. Qed.

(* ------------------------------------------------------------------ statements used by Props/C11.v *)
Lemma var_strong_asc nf v w x y :
  lex (encode_one (mkOpts false nf) (Some v) ++ x) (encode_one (mkOpts false nf) (Some w) ++ y)
  = match lex v w with Eq => lex x y | c => c end.
Proof. rewrite !encode_one_some. cbn [descending inv_if]. exact (var_body_strong v w x y I I). Qed.

Lemma complement_reverses {A} (P : A -> Prop) (e : A -> list N) (c : A -> A -> comparison) :
  (forall a, P a -> Forall (fun b => b < 256) (e a)) ->
  (forall a b x y, P a -> P b -> lex (e a ++ x) (e b ++ y) = match c a b with Eq => lex x y | r => r end) ->
  forall a b x y, P a -> P b ->
    lex (invert (e a) ++ x) (invert (e b) ++ y) = match CompOpp (c a b) with Eq => lex x y | r => r end.
Proof. intros W H. exact (strong_invert P e c W H). Qed.

Lemma field_order t o a b x y : wf_type t -> wt t a -> wt t b ->
  lex (enc t o a ++ x) (enc t o b ++ y) = match cmp_field t o a b with Eq => lex x y | c => c end.
Proof. intros Wt Wa Wb. exact (enc_strong t Wt o a b x y Wa Wb). Qed.

Lemma row_order_F fs r1 r2 : Forall (fun f : field => wf_type (fst f)) fs -> wt_row fs r1 -> wt_row fs r2 ->
  lex (enc_row fs r1) (enc_row fs r2) = row_cmp fs r1 r2.
Proof. intros Wf. apply row_order_thm, wf_fields_Forall, Wf. Qed.

Lemma row_prefix_free_F fs r1 r2 x y : Forall (fun f : field => wf_type (fst f)) fs -> wt_row fs r1 -> wt_row fs r2 ->
  lex (enc_row fs r1 ++ x) (enc_row fs r2 ++ y) = match row_cmp fs r1 r2 with Eq => lex x y | c => c end.
Proof. intros Wf W1 W2. exact (enc_row_strong fs (wf_fields_Forall fs Wf) r1 r2 x y W1 W2). Qed.

Lemma row_injective_F fs r1 r2 : Forall (fun f : field => wf_type (fst f)) fs -> wt_row fs r1 -> wt_row fs r2 ->
  (enc_row fs r1 = enc_row fs r2 <-> r1 = r2).
Proof. intros Wf. apply row_injective_thm, wf_fields_Forall, Wf. Qed.

Lemma row_cmp_eq_F fs r1 r2 : Forall (fun f : field => wf_type (fst f)) fs -> wt_row fs r1 -> wt_row fs r2 ->
  (row_cmp fs r1 r2 = Eq <-> r1 = r2).
Proof. intros Wf. apply row_cmp_eq_iff, wf_fields_Forall, Wf. Qed.

Lemma dec_enc_row_F fs r rest : Forall (fun f : field => wf_type (fst f)) fs -> wt_row fs r ->
  dec_row fs (enc_row fs r ++ rest) = r.
Proof. intros Wf. apply dec_enc_row, wf_fields_Forall, Wf. Qed.

Lemma rows_append_indep fs (a b : list (list value)) :
  map (enc_row fs) (a ++ b) = map (enc_row fs) a ++ map (enc_row fs) b.
Proof. apply map_app. Qed.

(* ------------------------------------------------------------------ non-vacuity *)
Example ex_fields : list field :=
  [ (TInt 4, mkOpts true false); (TVar, mkOpts false true);
    (TStruct [TFloat 8; TList (TUInt 1)], mkOpts true true); (TRee (TFsl TBool 2), mkOpts false false) ].
Example ex_row1 : list value :=
  [ VInt (-5); VBytes (repeat 255 33); VStruct [VInt 9221120237041090560; VList [VInt 1; VNull]]; VList [VInt 1; VNull] ].
Example ex_row2 : list value :=
  [ VInt (-5); VBytes (repeat 255 33); VStruct [VInt 9221120237041090560; VList [VInt 1]]; VNull ].

Example ex_wf : Forall (fun f : field => wf_type (fst f)) ex_fields.
Proof. repeat constructor. Qed.
Example ex_wt1 : wt_row ex_fields ex_row1.
Proof.
  cbn. repeat split; try lia; try (left; reflexivity); try (right; reflexivity);
    try (repeat constructor; unfold wf_byte; lia).
Qed.
Example ex_wt2 : wt_row ex_fields ex_row2.
Proof.
  cbn. repeat split; try lia; try (left; reflexivity); try (right; reflexivity);
    try (repeat constructor; unfold wf_byte; lia).
Qed.
Example ex_cmp : row_cmp ex_fields ex_row1 ex_row2 = Lt /\ lex (enc_row ex_fields ex_row1) (enc_row ex_fields ex_row2) = Lt.
Proof. split; vm_compute; reflexivity. Qed.
Example ex_dec : dec_row ex_fields (enc_row ex_fields ex_row1) = ex_row1.
Proof. vm_compute. reflexivity. Qed.
