(* C03 — merge: the run-by-run copy with running offsets equals the sequential specification. *)
From Coq Require Import List Arith ZArith Bool Lia.
From AV Require Import Base.ListX Model.C03_Select Proofs.C03_Filter Proofs.C03_Kernels.
From AV Require Model.C19_Bits.
Import ListNotations.

Section Merge.
Context {A : Type}.
Variables (ts : bool) (t : list (option A)) (fs : bool) (f : list (option A)).

Definition rows_at (sc : bool) (src : list (option A)) (off n : nat) : list (option A) :=
  map (fun j => nth (if sc then 0 else off + j) src None) (seq 0 n).

Lemma rows_at_snoc sc src off n :
  rows_at sc src off (S n) = rows_at sc src off n ++ [nth (if sc then 0 else off + n) src None].
Proof. unfold rows_at. rewrite seq_S, map_app. reflexivity. Qed.

Lemma map_seq_shift {X} (g : nat -> X) n : forall off, map g (seq off n) = map (fun j => g (off + j)) (seq 0 n).
Proof.
  induction n as [|n IH]; intros off; [reflexivity|]. cbn [seq map]. rewrite Nat.add_0_r. f_equal.
  rewrite IH. rewrite <- (seq_shift n 0), map_map. apply map_ext. intros j. f_equal. lia.
Qed.

Lemma firstn_skipn_rows (src : list (option A)) n off : off + n <= length src ->
  firstn n (skipn off src) = map (fun j => nth (off + j) src None) (seq 0 n).
Proof.
  intros H. pose proof (copy_range_pick None src (off, off + n)) as C. unfold copy_range, range in C. cbn [fst snd] in C.
  replace (off + n - off) with n in C by lia. rewrite C by lia. apply map_seq_shift.
Qed.

Lemma repeat_map_seq {X} (v : X) n : forall a, repeat v n = map (fun _ => v) (seq a n).
Proof. induction n as [|n IH]; intros a; [reflexivity|]. cbn. f_equal. apply IH. Qed.

Lemma take_rows_spec sc out src off n : (sc = false -> off + n <= length src) ->
  take_rows sc out src off n = (out ++ rows_at sc src off n, if sc then off else off + n).
Proof.
  intros H. unfold take_rows, rows_at. destruct sc.
  - unfold extend_scalar. f_equal. f_equal. apply repeat_map_seq.
  - unfold extend. f_equal. f_equal. replace (off + n - off) with n by lia.
    apply firstn_skipn_rows. auto.
Qed.

Fixpoint merge_b (m : list bool) (toff foff : nat) : list (option A) :=
  match m with
  | [] => []
  | true :: m' => nth (if ts then 0 else toff) t None :: merge_b m' (S toff) foff
  | false :: m' => nth (if fs then 0 else foff) f None :: merge_b m' toff (S foff)
  end.

Lemma merge_b_t_indep m : ts = true -> forall a a' b, merge_b m a b = merge_b m a' b.
Proof. intros E. induction m as [|[] m IH]; intros a a' b; cbn; [reflexivity| |]; rewrite ?E; f_equal; apply IH. Qed.
Lemma merge_b_f_indep m : fs = true -> forall a b b', merge_b m a b = merge_b m a b'.
Proof. intros E. induction m as [|[] m IH]; intros a b b'; cbn; [reflexivity| |]; rewrite ?E; f_equal; apply IH. Qed.

Lemma hd_skipn (l : list (option A)) k : hd None (skipn k l) = nth k l None.
Proof. revert l; induction k as [|k IH]; intros [|x l]; cbn; auto. Qed.
Lemma tl_skipn (l : list (option A)) k : tl (skipn k l) = skipn (S k) l.
Proof.
  revert l; induction k as [|k IH]; intros [|x l]; cbn [skipn tl]; auto.
  rewrite IH. destruct l; reflexivity.
Qed.

Lemma merge_b_spec m : forall toff foff,
  merge_b (map sel m) toff foff
  = merge_spec m ts (if ts then t else skipn toff t) fs (if fs then f else skipn foff f).
Proof.
  induction m as [|b m IH]; intros toff foff; [reflexivity|].
  cbn [map merge_b merge_spec]. destruct (sel b).
  - f_equal.
    + destruct ts; [now destruct t|symmetry; apply hd_skipn].
    + rewrite IH. destruct ts; [reflexivity|]. now rewrite tl_skipn.
  - f_equal.
    + destruct fs; [now destruct f|symmetry; apply hd_skipn].
    + rewrite IH. destruct fs; [reflexivity|]. now rewrite tl_skipn.
Qed.

Notation mstate := (list (option A) * nat * nat * nat)%type.
Definition mfinalize (len : nat) (st : mstate) : list (option A) :=
  let '(out, filled, toff, foff) := st in
  if filled <? len then fst (take_rows fs out f foff (len - filled)) else out.

Definition count_false (m : list bool) : nat := length (filter negb m).

Lemma merge_step_rows out filled toff foff s e : filled <= s -> s <= e ->
  (ts = false -> toff + (e - s) <= length t) -> (fs = false -> foff + (s - filled) <= length f) ->
  merge_step ts t fs f (out, filled, toff, foff) (s, e)
  = (out ++ rows_at fs f foff (s - filled) ++ rows_at ts t toff (e - s), e,
     if ts then toff else toff + (e - s), if fs then foff else foff + (s - filled)).
Proof.
  intros H1 H2 Ht Hf. unfold merge_step.
  destruct (Nat.ltb_spec filled s) as [Hlt|Hge].
  - rewrite (take_rows_spec fs out f foff (s - filled)) by exact Hf.
    rewrite (take_rows_spec ts _ t toff (e - s)) by exact Ht. now rewrite <- app_assoc.
  - assert (filled = s) by lia. subst filled. rewrite Nat.sub_diag.
    rewrite (take_rows_spec ts _ t toff (e - s)) by exact Ht.
    unfold rows_at at 1. cbn [seq map app]. rewrite Nat.add_0_r. now destruct fs.
Qed.

Definition mpending (out : list (option A)) (filled toff foff : nat) (open : option nat) (k : nat) (m : list bool) :=
  match open with
  | Some s => out ++ rows_at fs f foff (s - filled) ++ rows_at ts t toff (k - s)
                  ++ merge_b m (toff + (k - s)) (foff + (s - filled))
  | None => out ++ rows_at fs f foff (k - filled) ++ merge_b m toff (foff + (k - filled))
  end.
Definition t_need (open : option nat) (k : nat) : nat := match open with Some s => k - s | None => 0 end.
Definition f_need (filled : nat) (open : option nat) (k : nat) : nat :=
  match open with Some s => s - filled | None => k - filled end.

Lemma count_true_cons' b m : count_true (b :: m) = (if b then 1 else 0) + count_true m.
Proof. unfold C19_Bits.count_true. cbn. destruct b; reflexivity. Qed.
Lemma count_false_cons b m : count_false (b :: m) = (if b then 0 else 1) + count_false m.
Proof. unfold count_false. cbn. destruct b; reflexivity. Qed.

Lemma merge_fold m : forall k open out filled toff foff,
  pending_ok filled open k ->
  (ts = false -> toff + t_need open k + count_true m <= length t) ->
  (fs = false -> foff + f_need filled open k + count_false m <= length f) ->
  mfinalize (k + length m) (fold_left (merge_step ts t fs f) (C19_Bits.runs_from k open m) (out, filled, toff, foff))
  = mpending out filled toff foff open k m.
Proof.
  induction m as [|b m IH]; intros k open out filled toff foff Hok Ht Hf.
  - cbn [C19_Bits.runs_from length]. rewrite Nat.add_0_r.
    unfold count_false, C19_Bits.count_true in *. cbn [filter length] in *.
    destruct open as [s|]; cbn [pending_ok t_need f_need mpending merge_b] in *; cbn [fold_left].
    + rewrite merge_step_rows by (try lia; intros E; try specialize (Ht E); try specialize (Hf E); lia).
      cbn [mfinalize]. rewrite Nat.ltb_irrefl. now rewrite !app_nil_r.
    + cbn [mfinalize]. rewrite app_nil_r. destruct (Nat.ltb_spec filled k) as [Hlt|Hge].
      * rewrite take_rows_spec by (intros E; specialize (Hf E); lia). reflexivity.
      * assert (filled = k) by lia. subst. rewrite Nat.sub_diag. unfold rows_at. cbn. now rewrite app_nil_r.
  - cbn [length] in *. replace (k + S (length m)) with (S k + length m) by lia.
    rewrite count_true_cons' in Ht. rewrite count_false_cons in Hf.
    destruct b; cbn [C19_Bits.runs_from].
    + destruct open as [s|]; cbn [pending_ok t_need f_need] in *.
      * rewrite IH; [|cbn; lia|cbn [t_need]; intros E; specialize (Ht E); lia|cbn [f_need]; intros E; specialize (Hf E); lia].
        cbn [mpending merge_b]. replace (S k - s) with (S (k - s)) by lia.
        rewrite rows_at_snoc. rewrite <- !app_assoc. cbn [app].
        replace (toff + S (k - s)) with (S (toff + (k - s))) by lia. reflexivity.
      * rewrite IH; [|cbn; lia|cbn [t_need]; intros E; specialize (Ht E); lia|cbn [f_need]; intros E; specialize (Hf E); lia].
        cbn [mpending merge_b]. replace (S k - k) with 1 by lia.
        unfold rows_at at 2. cbn [seq map app]. rewrite Nat.add_0_r.
        replace (toff + 1) with (S toff) by lia. reflexivity.
    + destruct open as [s|]; cbn [pending_ok t_need f_need] in *; cbn [fold_left].
      * rewrite merge_step_rows by (try lia; intros E; try specialize (Ht E); try specialize (Hf E); lia).
        rewrite IH; [|cbn; lia|cbn [t_need]; intros E; specialize (Ht E); rewrite E; lia
                     |cbn [f_need]; intros E; specialize (Hf E); rewrite E; lia].
        cbn [mpending merge_b]. replace (S k - k) with 1 by lia.
        unfold rows_at at 3. cbn [seq map]. rewrite Nat.add_0_r.
        rewrite <- !app_assoc. cbn [app]. f_equal. f_equal. f_equal.
        assert (E1 : nth (if fs then 0 else (if fs then foff else foff + (s - filled))) f None
                     = nth (if fs then 0 else foff + (s - filled)) f None) by now destruct fs.
        rewrite E1. f_equal.
        replace ((if fs then foff else foff + (s - filled)) + 1) with (S (if fs then foff else foff + (s - filled))) by lia.
        destruct ts eqn:Ets; destruct fs eqn:Efs.
        -- rewrite (merge_b_t_indep m Ets toff (toff + (k - s))). apply (merge_b_f_indep m Efs).
        -- apply (merge_b_t_indep m Ets).
        -- apply (merge_b_f_indep m Efs).
        -- reflexivity.
      * rewrite IH; [|cbn; lia|cbn [t_need]; intros E; specialize (Ht E); lia|cbn [f_need]; intros E; specialize (Hf E); lia].
        cbn [mpending merge_b]. replace (S k - filled) with (S (k - filled)) by lia.
        rewrite rows_at_snoc. rewrite <- !app_assoc. cbn [app].
        replace (foff + S (k - filled)) with (S (foff + (k - filled))) by lia. reflexivity.
Qed.

Lemma count_false_prep m : count_false m = length m - count_true m.
Proof.
  induction m as [|b m IH]; [reflexivity|]. rewrite count_false_cons, count_true_cons'. cbn [length].
  pose proof (count_true_le m). destruct b; lia.
Qed.

Lemma merge_M_spec (m : pcol bool) : wf_col m ->
  (ts = false -> count_true (prep_mask m) <= length t) ->
  (fs = false -> length (fst m) - count_true (prep_mask m) <= length f) ->
  merge_M m ts t fs f = merge_spec (logical_mask m) ts t fs f.
Proof.
  intros Hm Ht Hf. unfold merge_M.
  pose proof (prep_mask_length m Hm) as HL.
  pose proof (merge_fold (prep_mask m) 0 None [] 0 0 0) as Z.
  cbn [Nat.add mpending app t_need f_need Nat.sub] in Z. rewrite HL in Z.
  unfold C19_Bits.runs. unfold mfinalize in Z.
  destruct (fold_left (merge_step ts t fs f) (C19_Bits.runs_from 0 None (prep_mask m)) ([], 0, 0, 0)) as [[[out filled] toff] foff].
  rewrite Z.
  - unfold rows_at. cbn [seq map app].
    rewrite <- (map_sel_logical m Hm), merge_b_spec. cbn [skipn]. now destruct ts, fs.
  - cbn. lia.
  - intros E. specialize (Ht E). lia.
  - intros E. specialize (Hf E). rewrite count_false_prep, HL. lia.
Qed.
End Merge.
