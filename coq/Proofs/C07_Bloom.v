(* C07 — split-block bloom filter: no false negatives, and folding (any number of halvings of a
   power-of-two block count) preserves every positive answer. *)
From Coq Require Import List NArith Arith Lia Bool ZArith ZifyN ZifyNat ZifyBool.
From AV Require Import Base.ListX Model.C07_Bloom.
Import ListNotations.
Local Open Scope N_scope.
Ltac Zify.zify_post_hook ::= Z.div_mod_to_equations.

(* ---------------------------------------------------------------- words *)
Lemma mask_word_nonzero x s : mask_word x s <> 0.
Proof. unfold mask_word. apply N.pow_nonzero. discriminate. Qed.

Lemma land_lor_keep_l a b m : N.land a m <> 0 -> N.land (N.lor a b) m <> 0.
Proof. intros H. rewrite N.land_lor_distr_l. intros E. apply N.lor_eq_0_iff in E. tauto. Qed.
Lemma land_lor_keep_r a b m : N.land b m <> 0 -> N.land (N.lor a b) m <> 0.
Proof. intros H. rewrite N.land_lor_distr_l. intros E. apply N.lor_eq_0_iff in E. tauto. Qed.
Lemma land_lor_self w m : m <> 0 -> N.land (N.lor w m) m <> 0.
Proof. intros H. apply land_lor_keep_r. now rewrite N.land_diag. Qed.

(* ---------------------------------------------------------------- blocks (generic in the mask) *)
Definition covers (b m : block) : bool := forallb (fun x => negb (x =? 0)) (map2 N.land b m).

Lemma block_check_covers b h : block_check b h = covers b (mask h).
Proof. reflexivity. Qed.

Lemma covers_or_l a b m : covers a m = true -> covers (block_or a b) m = true.
Proof.
  unfold covers, block_or. revert b m; induction a as [|x a IH]; intros [|y b] [|z m]; cbn [map2 forallb]; auto.
  intros H. apply andb_true_iff in H as [H1 H2]. apply andb_true_iff. split; [|now apply IH].
  apply negb_true_iff, N.eqb_neq. apply land_lor_keep_l. now apply N.eqb_neq, negb_true_iff.
Qed.

Lemma covers_or_r a b m : covers b m = true -> covers (block_or a b) m = true.
Proof.
  unfold covers, block_or. revert b m; induction a as [|x a IH]; intros [|y b] [|z m]; cbn [map2 forallb]; auto.
  intros H. apply andb_true_iff in H as [H1 H2]. apply andb_true_iff. split; [|now apply IH].
  apply negb_true_iff, N.eqb_neq. apply land_lor_keep_r. now apply N.eqb_neq, negb_true_iff.
Qed.

Lemma covers_or_self b m : Forall (fun x => x <> 0) m -> covers (block_or b m) m = true.
Proof.
  unfold covers, block_or. revert m; induction b as [|x b IH]; intros [|z m] F; cbn [map2 forallb]; auto.
  inversion F as [|? ? Hz Fm]; subst. apply andb_true_iff. split; [|now apply IH].
  apply negb_true_iff, N.eqb_neq. now apply land_lor_self.
Qed.

Lemma mask_nonzero h : Forall (fun x => x <> 0) (mask h).
Proof. unfold mask. apply Forall_forall. intros x Hx. apply in_map_iff in Hx as [s [<- _]]. apply mask_word_nonzero. Qed.

Lemma block_check_insert b h : block_check (block_insert b h) h = true.
Proof. rewrite block_check_covers. apply covers_or_self, mask_nonzero. Qed.

Lemma block_check_insert_mono b h h' : block_check b h = true -> block_check (block_insert b h') h = true.
Proof. rewrite !block_check_covers. apply covers_or_l. Qed.

(* ---------------------------------------------------------------- the filter *)
Lemma upd_length {A} (l : list A) i f : length (upd l i f) = length l.
Proof. revert i; induction l as [|x l IH]; intros [|i]; cbn [upd length]; auto. Qed.

Lemma nth_upd_same {A} (l : list A) i f d : (i < length l)%nat -> nth i (upd l i f) d = f (nth i l d).
Proof. revert i; induction l as [|x l IH]; intros [|i] H; cbn [upd nth length] in *; try lia; auto. apply IH. lia. Qed.

Lemma nth_upd_other {A} (l : list A) i j f d : i <> j -> nth j (upd l i f) d = nth j l d.
Proof. revert i j; induction l as [|x l IH]; intros [|i] [|j] H; cbn [upd nth]; auto; try congruence. Qed.

Lemma sat_mul64_exact a n : a < 2^32 -> n <= 2^32 -> sat_mul64 a n = a * n.
Proof.
  intros Ha Hn. unfold sat_mul64. apply N.min_l.
  assert (a * n <= (2^32 - 1) * 2^32) by (apply N.mul_le_mono; lia).
  change ((2^32 - 1) * 2^32) with 18446744069414584320 in *. change (2^64 - 1) with 18446744073709551615. lia.
Qed.

(* the index never leaves the filter (so the Rust indexing does not panic) *)
Lemma block_index_lt n h : (0 < n)%nat -> h < 2^64 -> (block_index n h < n)%nat.
Proof.
  intros Hn Hh. unfold block_index.
  assert (Ha : h / 2^32 < 2^32).
  { apply N.div_lt_upper_bound; [discriminate|]. change (2^32 * 2^32) with (2^64). exact Hh. }
  set (a := h / 2^32) in *.
  assert (sat_mul64 a (N.of_nat n) / 2^32 < N.of_nat n).
  { apply N.div_lt_upper_bound; [discriminate|].
    unfold sat_mul64. eapply N.le_lt_trans; [apply N.le_min_l|].
    apply N.mul_lt_mono_pos_r; [lia|exact Ha]. }
  lia.
Qed.

Lemma insert_hash_length f h : length (insert_hash f h) = length f.
Proof. apply upd_length. Qed.

Lemma check_insert_same f h : (0 < length f)%nat -> h < 2^64 -> check_hash (insert_hash f h) h = true.
Proof.
  intros Hn Hh. unfold check_hash. rewrite insert_hash_length. unfold insert_hash.
  rewrite nth_upd_same by (now apply block_index_lt). apply block_check_insert.
Qed.

Lemma check_insert_mono f h h' : check_hash f h = true -> check_hash (insert_hash f h') h = true.
Proof.
  unfold check_hash. rewrite insert_hash_length. unfold insert_hash. intros H.
  destruct (Nat.eq_dec (block_index (length f) h') (block_index (length f) h)) as [E|E].
  - rewrite E. destruct (Nat.lt_ge_cases (block_index (length f) h) (length f)) as [L|L].
    + rewrite nth_upd_same by exact L. now apply block_check_insert_mono.
    + rewrite nth_overflow by (rewrite upd_length; exact L). reflexivity.
  - now rewrite nth_upd_other by exact E.
Qed.

Lemma fold_insert_mono hs : forall f h, check_hash f h = true -> check_hash (fold_left insert_hash hs f) h = true.
Proof. induction hs as [|x hs IH]; intros f h H; cbn [fold_left]; [exact H|]. apply IH. now apply check_insert_mono. Qed.

Lemma fold_insert_length hs : forall f, length (fold_left insert_hash hs f) = length f.
Proof. induction hs as [|x hs IH]; intros f; cbn [fold_left]; [reflexivity|]. now rewrite IH, insert_hash_length. Qed.

Theorem no_false_negative hs : forall f h, (0 < length f)%nat -> Forall (fun x => x < 2^64) hs ->
  In h hs -> check_hash (fold_left insert_hash hs f) h = true.
Proof.
  induction hs as [|x hs IH]; intros f h Hn F Hin; [destruct Hin|].
  inversion F as [|? ? Hx Fr]; subst. cbn [fold_left]. destruct Hin as [->|Hin].
  - apply fold_insert_mono. now apply check_insert_same.
  - apply IH; [now rewrite insert_hash_length|exact Fr|exact Hin].
Qed.

(* ---------------------------------------------------------------- folding *)
Definition idx (n h : N) : N := ((h / 2^32) * n) / 2^32.

Lemma idx_half n h : idx (2 * n) h / 2 = idx n h.
Proof.
  unfold idx. set (u := h / 2^32).
  rewrite N.div_div by discriminate.
  replace (u * (2 * n)) with (u * n * 2) by lia.
  replace (2^32 * 2) with (2 * 2^32) by lia.
  rewrite <- N.div_div by discriminate.
  rewrite N.div_mul by discriminate. reflexivity.
Qed.

Lemma idx_pow k : forall n h, idx (2^k * n) h / 2^k = idx n h.
Proof.
  induction k as [|k IH] using N.peano_ind; intros n h.
  - rewrite N.pow_0_r, N.mul_1_l, N.div_1_r. reflexivity.
  - rewrite N.pow_succ_r'.
    replace (2 * 2^k * n) with (2^k * (2 * n)) by lia.
    replace (2 * 2^k) with (2^k * 2) by lia.
    rewrite <- N.div_div by (try discriminate; apply N.pow_nonzero; discriminate).
    rewrite IH. apply idx_half.
Qed.

Lemma block_index_idx n h : h < 2^64 -> N.of_nat n <= 2^32 -> block_index n h = N.to_nat (idx (N.of_nat n) h).
Proof.
  intros Hh Hn. unfold block_index, idx. rewrite sat_mul64_exact; [reflexivity| |exact Hn].
  apply N.div_lt_upper_bound; [discriminate|]. change (2^32 * 2^32) with (2^64). exact Hh.
Qed.

Lemma or_all_acc acc l m : covers acc m = true -> covers (or_all acc l) m = true.
Proof. revert acc; induction l as [|b l IH]; intros acc H; cbn [or_all]; [exact H|]. apply IH. now apply covers_or_l. Qed.

Lemma or_all_in acc l b m : In b l -> covers b m = true -> covers (or_all acc l) m = true.
Proof.
  revert acc; induction l as [|x l IH]; intros acc Hin H; [destruct Hin|].
  cbn [or_all]. destruct Hin as [->|Hin].
  - apply or_all_acc. now apply covers_or_r.
  - now apply IH.
Qed.

Lemma or_group_in g b m : In b g -> covers b m = true -> covers (or_group g) m = true.
Proof.
  destruct g as [|x g]; intros Hin H; [destruct Hin|]. cbn [or_group].
  destruct Hin as [->|Hin]; [now apply or_all_acc|eapply or_all_in; eauto].
Qed.

Lemma fold_groups_length n g f : length (fold_groups n g f) = n.
Proof. revert f; induction n as [|n IH]; intros f; cbn [fold_groups length]; auto. Qed.

Lemma skipn_skipn' {A} a b (l : list A) : skipn a (skipn b l) = skipn (b + a) l.
Proof. revert l; induction b as [|b IH]; intros l; [reflexivity|]. destruct l as [|x l]; cbn [skipn Nat.add]; [now destruct a|apply IH]. Qed.

Lemma fold_groups_nth n g : forall f j d, (j < n)%nat ->
  nth j (fold_groups n g f) d = or_group (firstn g (skipn (j * g) f)).
Proof.
  induction n as [|n IH]; intros f j d H; [lia|].
  cbn [fold_groups]. destruct j as [|j]; cbn [nth]; [reflexivity|].
  rewrite IH by lia. rewrite skipn_skipn'. do 3 f_equal.
Qed.

(* folding k times a filter of 2^k * n blocks keeps every positive answer *)
Theorem fold_preserves k n f h : (0 < n)%nat -> length f = (2^k * n)%nat -> N.of_nat (length f) <= 2^32 ->
  h < 2^64 -> check_hash f h = true -> check_hash (fold_n k f) h = true.
Proof.
  intros Hn Hlen Hsz Hh Hc.
  assert (Hg : (0 < 2^k)%nat) by (apply Nat.neq_0_lt_0, Nat.pow_nonzero; lia).
  assert (Hdiv : (length f / 2^k = n)%nat) by (rewrite Hlen, Nat.mul_comm; apply Nat.div_mul; lia).
  unfold check_hash in *. unfold fold_n. rewrite fold_groups_length, Hdiv.
  rewrite !block_check_covers in *.
  set (i := block_index (length f) h) in *.
  set (j := block_index n h).
  assert (Hi : (i < length f)%nat) by (apply block_index_lt; [lia|exact Hh]).
  assert (Hj : (j < n)%nat) by (apply block_index_lt; [exact Hn|exact Hh]).
  assert (Hij : (j = i / 2^k)%nat).
  { unfold i, j. rewrite !block_index_idx; try exact Hh; try lia.
    rewrite Hlen. rewrite <- (idx_pow (N.of_nat k) (N.of_nat n) h).
    replace (N.of_nat (2^k * n)) with (2 ^ N.of_nat k * N.of_nat n).
    2:{ rewrite Nat2N.inj_mul, Nat2N.inj_pow. reflexivity. }
    set (x := idx (2 ^ N.of_nat k * N.of_nat n) h).
    rewrite N2Nat.inj_div, N2Nat.inj_pow, Nat2N.id. reflexivity. }
  rewrite fold_groups_nth by exact Hj.
  eapply or_group_in; [|exact Hc].
  (* block i lies in group j *)
  assert (Hlo : (j * 2^k <= i)%nat) by (rewrite Hij; rewrite Nat.mul_comm; apply Nat.mul_div_le; lia).
  assert (Hhi : (i < j * 2^k + 2^k)%nat).
  { rewrite Hij. pose proof (Nat.div_mod i (2^k) ltac:(lia)) as Dm.
    pose proof (Nat.mod_upper_bound i (2^k) ltac:(lia)). lia. }
  replace i with (j * 2^k + (i - j * 2^k))%nat at 1 by lia.
  rewrite <- nth_skipn'. rewrite <- (nth_firstn' _ (2^k)) by lia.
  apply nth_In. rewrite firstn_length, skipn_length. lia.
Qed.

Lemma fold_n_length k n f : length f = (2^k * n)%nat -> length (fold_n k f) = n.
Proof.
  intros H. unfold fold_n. rewrite fold_groups_length, H, Nat.mul_comm. apply Nat.div_mul.
  apply Nat.pow_nonzero. lia.
Qed.
