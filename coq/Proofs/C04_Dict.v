(* C04 — dictionary tracker vs reader dictionary state: refinement over every history. *)
From Coq Require Import List Arith Lia Bool ZArith.
From AV Require Import Model.C04_Dict.
Import ListNotations.

Section D.
Variable V : Type.
Variable veq : V -> V -> bool.
Hypothesis veq_spec : forall a b, veq a b = true <-> a = b.

Notation leq := (leq V veq).
Notation compare_dictionaries := (compare_dictionaries V veq).
Notation insert_column := (insert_column V veq).
Notation apply_msg := (apply_msg V).
Notation run := (run V veq).
Notation emit := (emit V veq).
Notation is_prefix := (is_prefix V veq).

Lemma leq_spec a b : leq a b = true <-> a = b.
Proof.
  revert b; induction a as [|x a IH]; intros [|y b]; cbn; try (split; congruence).
  rewrite andb_true_iff, veq_spec, IH. split; [intros [-> ->]; reflexivity|intros E; inversion E; auto].
Qed.

(* one batch: after the messages emitted for it the reader holds exactly that batch's dictionary, and so does
   the tracker *)
Lemma dict_step eor h written d written' msgs :
  insert_column eor h written d = Some (written', msgs) ->
  fold_left apply_msg msgs written = Some d /\ written' = Some d.
Proof.
  unfold C04_Dict.insert_column. destruct written as [old|].
  - unfold C04_Dict.compare_dictionaries.
    destruct (Nat.eqb_spec (length old) (length d)) as [El|Nl].
    + destruct (leq old d) eqn:L.
      * apply leq_spec in L; subst. intros E; inversion E; subst. cbn. auto.
      * destruct eor; [discriminate|]. intros E; inversion E; subst. cbn. auto.
    + destruct (Nat.ltb_spec (length d) (length old)) as [Hlt|Hge].
      * destruct eor; [discriminate|]. intros E; inversion E; subst. cbn. auto.
      * destruct (leq (firstn (length old) d) old) eqn:L.
        -- apply leq_spec in L. destruct h.
           ++ destruct eor; [discriminate|]. intros E; inversion E; subst. cbn. auto.
           ++ intros E; inversion E; subst. cbn. split; [|auto].
              f_equal. rewrite <- L at 1. apply firstn_skipn.
        -- destruct eor; [discriminate|]. intros E; inversion E; subst. cbn. auto.
  - intros E; inversion E; subst. cbn. auto.
Qed.

(* streaming readers: the dictionary the reader holds when it decodes batch i is batch i's dictionary, for every
   history (unchanged / extended / shrunk / replaced dictionaries), both handling modes, with or without
   error_on_replacement (when the writer does not reject the history) *)
Theorem dict_refinement eor h : forall hist written obs,
  run eor h written written hist = Some obs -> obs = map Some hist.
Proof.
  induction hist as [|d rest IH]; intros written obs H; cbn [C04_Dict.run map] in *; [inversion H; reflexivity|].
  destruct (insert_column eor h written d) as [[w' msgs]|] eqn:E; [|discriminate].
  destruct (dict_step _ _ _ _ _ _ E) as [R W]. subst w'.
  rewrite R in H.
  destruct (run eor h (Some d) (Some d) rest) eqn:E2; [|discriminate].
  inversion H; subst. f_equal. eapply IH; eauto.
Qed.

(* without error_on_replacement (stream writer, encoder, Flight) no history is ever rejected *)
Lemma insert_never_fails h written d : exists r, insert_column false h written d = Some r.
Proof.
  unfold C04_Dict.insert_column. destruct written as [old|]; [|eauto].
  destruct (compare_dictionaries old d); [eauto|eauto|destruct h; eauto].
Qed.
Theorem stream_never_rejects h : forall hist written, exists obs, run false h written written hist = Some obs.
Proof.
  induction hist as [|d rest IH]; intros written; cbn [C04_Dict.run]; [eauto|].
  destruct (insert_never_fails h written d) as [[w' msgs] E]. rewrite E.
  destruct (dict_step _ _ _ _ _ _ E) as [R W]. subst w'. rewrite R.
  destruct (IH (Some d)) as [obs Ho]. rewrite Ho. cbn. eauto.
Qed.

(* ---- file format: every dictionary block is applied before any batch is decoded *)
Lemma is_prefix_spec a b : is_prefix a b = true <-> exists s, b = a ++ s.
Proof.
  revert b; induction a as [|x a IH]; intros b; cbn.
  - split; [intros _; exists b; reflexivity|auto].
  - destruct b as [|y b]; [split; [discriminate|intros [s Hs]; discriminate]|].
    rewrite andb_true_iff, veq_spec, IH. split.
    + intros [-> [s ->]]. exists s. reflexivity.
    + intros [s Hs]. inversion Hs. eauto.
Qed.

(* with error_on_replacement an accepted step keeps the old dictionary as a prefix of the new one *)
Lemma file_step h old d w' msgs :
  insert_column true h (Some old) d = Some (w', msgs) -> exists s, d = old ++ s.
Proof.
  unfold C04_Dict.insert_column, C04_Dict.compare_dictionaries.
  destruct (Nat.eqb_spec (length old) (length d)) as [El|Nl].
  - destruct (leq old d) eqn:L; [|discriminate]. apply leq_spec in L. subst. intros _. exists []. now rewrite app_nil_r.
  - destruct (Nat.ltb_spec (length d) (length old)) as [Hlt|Hge]; [discriminate|].
    destruct (leq (firstn (length old) d) old) eqn:L; [|discriminate].
    apply leq_spec in L. destruct h; [discriminate|]. intros _.
    exists (skipn (length old) d). rewrite <- L at 1. symmetry. apply firstn_skipn.
Qed.

(* the state of the reader after all messages of an accepted file history *)
Lemma emit_final eor h : forall hist written ms,
  emit eor h written hist = Some ms ->
  fold_left apply_msg ms written = match hist with [] => written | _ => Some (last hist []) end.
Proof.
  induction hist as [|d rest IH]; intros written ms H; cbn [C04_Dict.emit] in H.
  - inversion H. reflexivity.
  - destruct (insert_column eor h written d) as [[w' m1]|] eqn:E; [|discriminate].
    destruct (dict_step _ _ _ _ _ _ E) as [R W]. subst w'.
    destruct (emit eor h (Some d) rest) as [m2|] eqn:E2; [|discriminate].
    inversion H; subst. rewrite fold_left_app, R. rewrite (IH _ _ E2).
    destruct rest; reflexivity.
Qed.

Lemma file_prefix_chain h : forall hist d0 ms,
  emit true h (Some d0) hist = Some ms ->
  Forall (fun d => exists s, last (d0 :: hist) [] = d ++ s) (d0 :: hist).
Proof.
  induction hist as [|d rest IH]; intros d0 ms H.
  - constructor; [exists []; cbn; now rewrite app_nil_r|constructor].
  - cbn [C04_Dict.emit] in H.
    destruct (insert_column true h (Some d0) d) as [[w' m1]|] eqn:E; [|discriminate].
    destruct (file_step _ _ _ _ _ E) as [s Hs].
    destruct (dict_step _ _ _ _ _ _ E) as [_ W]. subst w'.
    destruct (emit true h (Some d) rest) as [m2|] eqn:E2; [|discriminate].
    specialize (IH d m2 E2).
    change (last (d0 :: d :: rest) []) with (last (d :: rest) []).
    constructor; [|exact IH].
    inversion IH as [|? ? [s2 Hs2] _]; subst. exists (s ++ s2). rewrite Hs2 at 1. now rewrite app_assoc.
Qed.

(* File reader (all dictionary messages applied up front): for an accepted history the reader's final
   dictionary extends the dictionary of EVERY batch, so every key of every batch denotes the value it
   denoted at the writer; and the FileWriter accepts a history only if each batch's dictionary extends
   the previous one (replacement is rejected). *)
Theorem file_dict_prefix h : forall d0 hist ms,
  emit true h None (d0 :: hist) = Some ms ->
  exists final, fold_left apply_msg ms None = Some final /\
                Forall (fun d => exists s, final = d ++ s) (d0 :: hist).
Proof.
  intros d0 hist ms H. exists (last (d0 :: hist) []). split.
  - rewrite (emit_final _ _ _ _ _ H). reflexivity.
  - cbn [C04_Dict.emit C04_Dict.insert_column] in H.
    destruct (emit true h (Some d0) hist) as [m2|] eqn:E2; [|discriminate].
    eapply file_prefix_chain; eauto.
Qed.

(* a replaced (non-extending) dictionary is rejected by the file writer *)
Theorem file_writer_rejects_replacement h old d :
  (forall s, d <> old ++ s) -> insert_column true h (Some old) d = None.
Proof.
  intros Hn. destruct (insert_column true h (Some old) d) as [[w' ms]|] eqn:E; [|reflexivity].
  destruct (file_step _ _ _ _ _ E) as [s Hs]. exfalso. eapply Hn; eauto.
Qed.
End D.
