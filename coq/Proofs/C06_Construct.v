(* C06 — constructors of RowSelection: From<Vec<RowSelector>>, mask -> selectors,
   from_consecutive_ranges, from_filters. *)
From Coq Require Import List Arith Lia Bool.
From AV Require Import Model.C06_RowSel Proofs.C06_Basics.
Import ListNotations.

(* ------------------------------------------------------------------ normal form *)
Definition nonzero (l : list sel) : Prop := Forall (fun s : sel => snd s <> 0) l.
Fixpoint alternating (l : list sel) : Prop :=
  match l with
  | (s1, _) :: (((s2, _) :: _) as r) => s1 <> s2 /\ alternating r
  | _ => True
  end.
Definition normal (l : list sel) : Prop := nonzero l /\ alternating l.

Lemma norm_go_dens l : forall cur, dens (norm_go cur l) = den1 cur ++ dens l.
Proof.
  induction l as [|[sk n] l IH]; intros [csk cn]; cbn [norm_go fst snd].
  - rewrite dens_cons, dens_nil. reflexivity.
  - destruct (Nat.eqb_spec n 0) as [->|Hn]; [rewrite IH, dens_zero; reflexivity|].
    destruct (Bool.eqb_spec csk sk) as [->|Hs].
    + rewrite IH, dens_cons. unfold den1. cbn [fst snd]. rewrite repeat_app, app_assoc. reflexivity.
    + rewrite dens_cons, IH. reflexivity.
Qed.

Theorem from_iter_dens l : dens (from_iter l) = dens l.
Proof.
  induction l as [|[sk n] l IH]; [reflexivity|]. cbn [from_iter].
  destruct (Nat.eqb_spec n 0) as [->|Hn]; [rewrite IH, dens_zero; reflexivity|].
  rewrite norm_go_dens, dens_cons. reflexivity.
Qed.

Lemma norm_go_normal l : forall csk cn, cn <> 0 ->
  normal (norm_go (csk, cn) l) /\ exists n r, norm_go (csk, cn) l = (csk, n) :: r.
Proof.
  induction l as [|[sk n] l IH]; intros csk cn Hc; cbn [norm_go fst snd].
  - split; [split; [constructor; [exact Hc|constructor]|exact I]|eauto].
  - destruct (Nat.eqb_spec n 0) as [->|Hn]; [apply IH, Hc|].
    destruct (Bool.eqb_spec csk sk) as [->|Hs]; [apply IH; lia|].
    destruct (IH sk n Hn) as [[Hnz Halt] (n' & r & Hr)].
    split; [|eauto]. rewrite Hr in *. split; [constructor; [exact Hc|exact Hnz]|].
    cbn [alternating]. split; [exact Hs|exact Halt].
Qed.

Theorem from_iter_normal l : normal (from_iter l).
Proof.
  induction l as [|[sk n] l IH]; [split; [constructor|exact I]|]. cbn [from_iter].
  destruct (Nat.eqb_spec n 0) as [->|Hn]; [exact IH|]. apply norm_go_normal, Hn.
Qed.

(* ------------------------------------------------------------------ mask -> selectors *)
Lemma dens_gap last_end s :
  dens (if last_end <? s then [(true, s - last_end)] else []) = repeat false (s - last_end).
Proof.
  destruct (Nat.ltb_spec last_end s) as [Hl|Hl].
  - rewrite dens_cons, dens_nil, app_nil_r. reflexivity.
  - replace (s - last_end) with 0 by lia. reflexivity.
Qed.

Lemma m2s_slices_dens l : forall pos cur last_end,
  match cur with
  | None => last_end <= pos ->
      dens (m2s_go (slices_go l pos None) last_end (pos + length l)) = repeat false (pos - last_end) ++ l
  | Some s => last_end <= s -> s <= pos ->
      dens (m2s_go (slices_go l pos (Some s)) last_end (pos + length l))
      = repeat false (s - last_end) ++ repeat true (pos - s) ++ l
  end.
Proof.
  induction l as [|b l IH]; intros pos cur last_end.
  - destruct cur as [s|]; cbn [slices_go m2s_go length]; rewrite Nat.add_0_r.
    + intros H1 H2. rewrite Nat.eqb_refl, dens_app, dens_gap, dens_cons, dens_nil. reflexivity.
    + intros H1. destruct (Nat.eqb_spec last_end pos) as [->|Hne].
      * rewrite Nat.sub_diag. reflexivity.
      * rewrite dens_cons, dens_nil. reflexivity.
  - cbn [length]. replace (pos + S (length l)) with (S pos + length l) by lia.
    destruct b; cbn [slices_go].
    + destruct cur as [s|].
      * intros H1 H2. specialize (IH (S pos) (Some s) last_end). cbn beta iota in IH.
        rewrite IH by lia. replace (S pos - s) with (pos - s + 1) by lia.
        rewrite repeat_app. cbn [repeat]. rewrite <- !app_assoc. reflexivity.
      * intros H1. specialize (IH (S pos) (Some pos) last_end). cbn beta iota in IH.
        rewrite IH by lia. replace (S pos - pos) with 1 by lia. reflexivity.
    + destruct cur as [s|].
      * intros H1 H2. cbn [m2s_go].
        specialize (IH (S pos) None pos). cbn beta iota in IH.
        rewrite dens_app, dens_gap, dens_cons, IH by lia. replace (S pos - pos) with 1 by lia.
        cbn [negb repeat app]. reflexivity.
      * intros H1. specialize (IH (S pos) None last_end). cbn beta iota in IH.
        rewrite IH by lia. replace (S pos - last_end) with (pos - last_end + 1) by lia.
        rewrite repeat_app. cbn [repeat]. rewrite <- !app_assoc. reflexivity.
Qed.

Theorem mask_to_selectors_dens m : dens (mask_to_selectors m) = m.
Proof.
  unfold mask_to_selectors, set_slices.
  destruct (Nat.eqb_spec (length m) 0) as [H0|H0].
  - destruct m; [reflexivity|discriminate].
  - pose proof (m2s_slices_dens m 0 None 0) as H. cbn beta iota in H.
    rewrite Nat.add_0_l in H. apply H. lia.
Qed.

(* ------------------------------------------------------------------ from_consecutive_ranges *)
Definition in_range (r : nat * nat) (i : nat) : bool := (fst r <=? i) && (i <? snd r).

Lemma in_ranges_app p q i : in_ranges (p ++ q) i = in_ranges p i || in_ranges q i.
Proof. unfold in_ranges. apply existsb_app. Qed.

Lemma map_seq_const (f : nat -> bool) c a n :
  (forall i, a <= i < a + n -> f i = c) -> map f (seq a n) = repeat c n.
Proof.
  revert a; induction n as [|n IH]; intros a H; [reflexivity|].
  cbn [seq map repeat]. f_equal; [apply H; lia|]. apply IH. intros i Hi. apply H. lia.
Qed.

Lemma map_seq_ext (f g : nat -> bool) a n :
  (forall i, a <= i < a + n -> f i = g i) -> map f (seq a n) = map g (seq a n).
Proof.
  intros H. apply map_ext_in. intros i Hi. apply in_seq in Hi. apply H. lia.
Qed.

Definition head_select (racc : list sel) : Prop :=
  match racc with [] => True | (sk, _) :: _ => sk = false end.

(* what has been built from the ranges processed so far *)
Definition fcr_inv (processed : list (nat * nat)) (last_end : nat) (racc : list sel) : Prop :=
  dens (rev racc) = map (in_ranges processed) (seq 0 last_end)
  /\ (forall i, last_end <= i -> in_ranges processed i = false)
  /\ head_select racc
  /\ (racc = [] -> last_end = 0).

Lemma fcr_go_inv rs : forall processed last_end racc racc' le',
  fcr_inv processed last_end racc ->
  fcr_go rs last_end racc = Some (racc', le') ->
  fcr_inv (processed ++ rs) le' racc'.
Proof.
  induction rs as [|[s e] rs IH]; intros processed last_end racc racc' le' Hinv H.
  - cbn [fcr_go] in H. inversion H; subst. now rewrite app_nil_r.
  - cbn [fcr_go] in H.
    destruct (Nat.ltb_spec e s) as [Hes|Hes]; [discriminate|].
    replace (processed ++ (s, e) :: rs) with ((processed ++ [(s, e)]) ++ rs) by now rewrite <- app_assoc.
    destruct Hinv as (Hd & Hout & Hhs & Hnil).
    assert (Hone : forall i, in_ranges (processed ++ [(s, e)]) i = in_ranges processed i || in_range (s, e) i).
    { intros i. rewrite in_ranges_app. unfold in_ranges at 2. cbn [existsb]. now rewrite orb_false_r. }
    destruct (Nat.eqb_spec (e - s) 0) as [Hlen|Hlen].
    { (* empty range: ignored *)
      eapply IH; [|exact H]. repeat split; try assumption.
      - rewrite Hd. apply map_seq_ext. intros i Hi. rewrite Hone. unfold in_range. cbn [fst snd].
        destruct (Nat.leb_spec s i); destruct (Nat.ltb_spec i e); cbn; try lia; now rewrite orb_false_r.
      - intros i Hi. rewrite Hone, Hout by exact Hi. unfold in_range. cbn [fst snd].
        destruct (Nat.leb_spec s i); destruct (Nat.ltb_spec i e); cbn; try lia; reflexivity. }
    assert (Hnew : forall le racc1,
      le = last_end ->
      dens (rev racc1) = dens (rev racc) ++ repeat false (s - last_end) ++ repeat true (e - s) ->
      last_end <= s -> head_select racc1 -> racc1 <> [] ->
      fcr_inv (processed ++ [(s, e)]) e racc1).
    { intros le racc1 _ Hd1 Hle Hh1 Hne. repeat split; [| |exact Hh1|intros; contradiction].
      - rewrite Hd1, Hd.
        replace e with (last_end + ((s - last_end) + (e - s))) at 3 by lia.
        rewrite !seq_app, !map_app. f_equal; [|f_equal].
        + apply map_seq_ext. intros i Hi. rewrite Hone. unfold in_range. cbn [fst snd].
          destruct (Nat.leb_spec s i); [lia|]. cbn. now rewrite orb_false_r.
        + symmetry. apply map_seq_const. intros i Hi. rewrite Hone, Hout by lia.
          unfold in_range. cbn [fst snd]. destruct (Nat.leb_spec s i); [lia|]. reflexivity.
        + symmetry. apply map_seq_const. intros i Hi. rewrite Hone, Hout by lia.
          unfold in_range. cbn [fst snd].
          destruct (Nat.leb_spec s i); [|lia]. destruct (Nat.ltb_spec i e); [|lia]. reflexivity.
      - intros i Hi. rewrite Hone, Hout by lia. unfold in_range. cbn [fst snd].
        destruct (Nat.ltb_spec i e); [lia|]. now rewrite andb_false_r. }
    destruct (Nat.compare_spec s last_end) as [Heq|Hlt|Hgt]; [| discriminate |].
    + (* adjacent to the previous range: extend the last selector *)
      destruct racc as [|[sk n] racc0].
      * eapply IH; [|exact H]. apply (Hnew last_end); try reflexivity; try discriminate; [|lia].
        specialize (Hnil eq_refl). subst. cbn [rev app]. rewrite dens_cons, !dens_nil, app_nil_r.
        reflexivity.
      * eapply IH; [|exact H]. cbn [head_select] in Hhs. subst sk.
        apply (Hnew last_end); try reflexivity; try discriminate; [|lia].
        rewrite !dens_rev_cons. subst s. rewrite Nat.sub_diag. cbn [repeat app negb].
        rewrite repeat_app, app_assoc. reflexivity.
    + eapply IH; [|exact H]. apply (Hnew last_end); try reflexivity; try discriminate; [|lia].
      rewrite !dens_rev_cons. cbn [negb]. rewrite <- app_assoc. reflexivity.
Qed.

Theorem from_consecutive_ranges_dens rs total l :
  from_consecutive_ranges rs total = Some l -> dens l = ranges_spec rs total.
Proof.
  unfold from_consecutive_ranges, ranges_spec.
  destruct (fcr_go rs 0 []) as [[racc last_end]|] eqn:E; [|discriminate].
  assert (H0 : fcr_inv [] 0 []).
  { repeat split; try reflexivity. }
  pose proof (fcr_go_inv rs [] 0 [] racc last_end H0 E) as (Hd & Hout & _ & _). cbn [app] in *.
  destruct (Nat.eqb_spec last_end total) as [->|Hne].
  - intros H; inversion H; subst l. exact Hd.
  - destruct (Nat.ltb_spec total last_end) as [Hlt|Hge]; [discriminate|].
    intros H; inversion H; subst l. rewrite dens_app, dens_cons, dens_nil, app_nil_r, Hd. cbn [negb].
    replace total with (last_end + (total - last_end)) at 2 by lia.
    rewrite seq_app, map_app. f_equal. symmetry. apply map_seq_const.
    intros i Hi. apply Hout. lia.
Qed.

(* ------------------------------------------------------------------ from_filters *)
Lemma fcr_step s e rest last_end racc :
  last_end <= s -> s < e -> head_select racc -> (racc = [] -> last_end = 0) ->
  exists racc1, fcr_go ((s, e) :: rest) last_end racc = fcr_go rest e racc1
    /\ dens (rev racc1) = dens (rev racc) ++ repeat false (s - last_end) ++ repeat true (e - s)
    /\ head_select racc1 /\ racc1 <> [].
Proof.
  intros Hle Hse Hhs Hnil. cbn [fcr_go].
  destruct (Nat.ltb_spec e s) as [Hes|Hes]; [lia|].
  destruct (Nat.eqb_spec (e - s) 0) as [Hlen|Hlen]; [lia|].
  destruct (Nat.compare_spec s last_end) as [Heq|Hlt|Hgt]; [|lia|].
  - subst s. rewrite Nat.sub_diag. cbn [repeat app].
    destruct racc as [|[sk n] racc0].
    + exists [(false, e - last_end)]. repeat split; [|discriminate].
      cbn [rev app]. rewrite dens_cons, !dens_nil, app_nil_r. reflexivity.
    + cbn [head_select] in Hhs. subst sk. exists ((false, n + (e - last_end)) :: racc0).
      repeat split; [|discriminate].
      rewrite !dens_rev_cons. cbn [negb]. rewrite repeat_app, app_assoc. reflexivity.
  - exists ((false, e - s) :: (true, s - last_end) :: racc). repeat split; [|discriminate].
    rewrite !dens_rev_cons. cbn [negb]. rewrite <- app_assoc. reflexivity.
Qed.

Lemma fcr_slices l : forall pos cur last_end racc rest,
  head_select racc -> (racc = [] -> last_end = 0) ->
  match cur with
  | None => last_end <= pos -> exists racc' le',
      fcr_go (slices_go l pos None ++ rest) last_end racc = fcr_go rest le' racc'
      /\ le' <= pos + length l /\ head_select racc' /\ (racc' = [] -> le' = 0)
      /\ dens (rev racc') ++ repeat false (pos + length l - le')
         = dens (rev racc) ++ repeat false (pos - last_end) ++ l
  | Some s => last_end <= s -> s < pos -> exists racc' le',
      fcr_go (slices_go l pos (Some s) ++ rest) last_end racc = fcr_go rest le' racc'
      /\ le' <= pos + length l /\ head_select racc' /\ (racc' = [] -> le' = 0)
      /\ dens (rev racc') ++ repeat false (pos + length l - le')
         = dens (rev racc) ++ repeat false (s - last_end) ++ repeat true (pos - s) ++ l
  end.
Proof.
  induction l as [|b l IH]; intros pos cur last_end racc rest Hhs Hnil.
  - destruct cur as [s|]; cbn [slices_go length app]; rewrite Nat.add_0_r.
    + intros H1 H2.
      destruct (fcr_step s pos rest last_end racc H1 H2 Hhs Hnil) as (racc1 & Hf & Hd & Hh1 & Hne).
      exists racc1, pos. repeat split; [exact Hf|lia|exact Hh1|intros; contradiction|].
      rewrite Nat.sub_diag, Hd. cbn [repeat]. rewrite !app_nil_r. reflexivity.
    + intros H1. exists racc, last_end. repeat split; [lia|exact Hhs|exact Hnil|].
      rewrite app_nil_r. reflexivity.
  - cbn [length]. replace (pos + S (length l)) with (S pos + length l) by lia.
    destruct b; cbn [slices_go].
    + destruct cur as [s|].
      * intros H1 H2. specialize (IH (S pos) (Some s) last_end racc rest Hhs Hnil). cbn beta iota in IH.
        destruct IH as (racc' & le' & Hf & Hl & Hh & Hn & Hd); [lia|lia|].
        exists racc', le'. repeat split; try assumption.
        rewrite Hd. replace (S pos - s) with (pos - s + 1) by lia.
        rewrite repeat_app. cbn [repeat]. rewrite <- !app_assoc. reflexivity.
      * intros H1. specialize (IH (S pos) (Some pos) last_end racc rest Hhs Hnil). cbn beta iota in IH.
        destruct IH as (racc' & le' & Hf & Hl & Hh & Hn & Hd); [lia|lia|].
        exists racc', le'. repeat split; try assumption.
        rewrite Hd. replace (S pos - pos) with 1 by lia. reflexivity.
    + destruct cur as [s|].
      * intros H1 H2. cbn [app].
        destruct (fcr_step s pos (slices_go l (S pos) None ++ rest) last_end racc H1 H2 Hhs Hnil)
          as (racc1 & Hf1 & Hd1 & Hh1 & Hne1).
        specialize (IH (S pos) None pos racc1 rest Hh1). cbn beta iota in IH.
        destruct IH as (racc' & le' & Hf & Hl & Hh & Hn & Hd); [intros; contradiction|lia|].
        exists racc', le'. repeat split; try assumption; [congruence|].
        rewrite Hd, Hd1. replace (S pos - pos) with 1 by lia. cbn [repeat app].
        rewrite <- !app_assoc. reflexivity.
      * intros H1. specialize (IH (S pos) None last_end racc rest Hhs Hnil). cbn beta iota in IH.
        destruct IH as (racc' & le' & Hf & Hl & Hh & Hn & Hd); [lia|].
        exists racc', le'. repeat split; try assumption.
        rewrite Hd. replace (S pos - last_end) with (pos - last_end + 1) by lia.
        rewrite repeat_app. cbn [repeat]. rewrite <- !app_assoc. reflexivity.
Qed.

Lemma fcr_filters filters : forall off last_end racc,
  last_end <= off -> head_select racc -> (racc = [] -> last_end = 0) ->
  exists racc' le',
    fcr_go (filter_ranges filters off) last_end racc = Some (racc', le')
    /\ le' <= off + length (concat filters)
    /\ dens (rev racc') ++ repeat false (off + length (concat filters) - le')
       = dens (rev racc) ++ repeat false (off - last_end) ++ concat filters.
Proof.
  induction filters as [|f filters IH]; intros off last_end racc Hle Hhs Hnil.
  - cbn [filter_ranges fcr_go concat length]. exists racc, last_end. rewrite Nat.add_0_r, app_nil_r.
    repeat split. lia.
  - cbn [filter_ranges concat].
    pose proof (fcr_slices f off None last_end racc (filter_ranges filters (off + length f)) Hhs Hnil) as Hs.
    cbn beta iota in Hs. destruct (Hs Hle) as (racc1 & le1 & Hf1 & Hl1 & Hh1 & Hn1 & Hd1).
    destruct (IH (off + length f) le1 racc1 Hl1 Hh1 Hn1) as (racc' & le' & Hf & Hl & Hd).
    exists racc', le'. rewrite app_length. repeat split.
    + congruence.
    + lia.
    + replace (off + (length f + length (concat filters))) with (off + length f + length (concat filters)) by lia.
      rewrite Hd, app_assoc, Hd1, <- !app_assoc. reflexivity.
Qed.

Theorem from_filters_dens filters :
  exists l, from_filters filters = Some l /\ dens l = concat filters.
Proof.
  unfold from_filters, from_consecutive_ranges.
  destruct (fcr_filters filters 0 0 []) as (racc & le & Hf & Hl & Hd); [lia|exact I|reflexivity|].
  rewrite Hf. cbn [rev dens flat_map app Nat.sub repeat Nat.add] in Hd, Hl.
  destruct (Nat.eqb_spec le (length (concat filters))) as [He|Hne].
  - eexists; split; [reflexivity|]. rewrite He, Nat.sub_diag in Hd. cbn [repeat] in Hd.
    now rewrite app_nil_r in Hd.
  - destruct (Nat.ltb_spec (length (concat filters)) le) as [Hlt|Hge]; [lia|].
    eexists; split; [reflexivity|]. rewrite dens_rev_cons. exact Hd.
Qed.
