(* C10 — the integer key of f{16,32,64}::total_cmp orders bit patterns exactly like IEEE-754 totalOrder,
   for every width. *)
From Coq Require Import ZArith Lia Bool.
From AV Require Import Model.C10_Order.
Local Open Scope Z_scope.

Section Arith.
  Variable H : Z.
  Hypothesis Hpos : 0 < H.

  (* arithmetic meaning of the key: positives keep their magnitude, a negative -H+m maps to -1-m *)
  Definition akey (x : Z) : Z := if f_sign H x then -1 - f_mag H x else f_mag H x.

  Lemma akey_total_order x y : 0 <= x < 2 * H -> 0 <= y < 2 * H ->
    (akey x ?= akey y) = total_order H x y.
  Proof.
    intros Hx Hy. unfold akey, total_order, f_mag, f_sign.
    destruct (Z.leb_spec H x), (Z.leb_spec H y).
    - destruct (Z.compare_spec (-1 - (x - H)) (-1 - (y - H))), (Z.compare_spec (y - H) (x - H)); try reflexivity; lia.
    - destruct (Z.compare_spec (-1 - (x - H)) y); try reflexivity; lia.
    - destruct (Z.compare_spec x (-1 - (y - H))); try reflexivity; lia.
    - reflexivity.
  Qed.
End Arith.

Lemma testbit_high_Z a k n : 0 <= a < 2 ^ k -> 0 <= k <= n -> Z.testbit a n = false.
Proof.
  intros Ha Hk. destruct (Z.eq_dec a 0) as [->|Hz]; [apply Z.bits_0|].
  apply Z.bits_above_log2; [lia|]. assert (Z.log2 a < k) by (apply Z.log2_lt_pow2; lia). lia.
Qed.

Lemma lxor_low_ones k m : 0 <= k -> 0 <= m < 2 ^ k -> Z.lxor m (2 ^ k - 1) = 2 ^ k - 1 - m.
Proof.
  intros Hk Hm. replace (2 ^ k - 1) with (Z.ones k) by (rewrite Z.ones_equiv; lia).
  apply Z.bits_inj'. intros n Hn.
  rewrite Z.lxor_spec.
  destruct (Z.ltb_spec n k).
  - rewrite Z.ones_spec_low by lia. rewrite xorb_true_r.
    replace (Z.ones k - m) with (Z.lnot m mod 2 ^ k).
    + rewrite Z.mod_pow2_bits_low by lia. now rewrite Z.lnot_spec by lia.
    + unfold Z.lnot. rewrite Z.ones_equiv.
      replace (Z.pred (- m)) with ((2 ^ k - 1 - m) + (-1) * 2 ^ k) by lia.
      rewrite Z.mod_add by lia. rewrite Z.mod_small; lia.
  - rewrite Z.ones_spec_high by lia. rewrite xorb_false_r.
    rewrite (testbit_high_Z m k n) by lia.
    rewrite (testbit_high_Z (Z.ones k - m) k n); [reflexivity| rewrite Z.ones_equiv; lia | lia].
Qed.

(* a negative two's-complement number -2^k + m xor the low-ones mask: only the low k bits flip *)
Lemma lxor_neg_low_ones k m : 0 <= k -> 0 <= m < 2 ^ k -> Z.lxor (m - 2 ^ k) (2 ^ k - 1) = -1 - m.
Proof.
  intros Hk Hm.
  replace (m - 2 ^ k) with (Z.lnot (2 ^ k - 1 - m)) by (unfold Z.lnot; lia).
  rewrite <- Z.lnot_lxor_l. rewrite lxor_low_ones by lia. unfold Z.lnot. lia.
Qed.

Lemma float_key_arith w x : 0 < w -> 0 <= x < 2 ^ w -> float_key w x = akey (2 ^ (w - 1)) x.
Proof.
  intros Hw Hx. set (k := w - 1).
  assert (Hk : 0 <= k) by lia.
  assert (Hpw : 2 ^ w = 2 * 2 ^ k) by (replace w with (Z.succ k) by lia; rewrite Z.pow_succ_r by lia; reflexivity).
  assert (Hkpos : 0 < 2 ^ k) by (apply Z.pow_pos_nonneg; lia).
  unfold float_key, akey, as_signed, as_unsigned, f_mag, f_sign. fold k.
  destruct (Z.leb_spec (2 ^ k) x) as [Hs|Hs].
  - (* sign bit set: s = x - 2^w in [-2^k, 0) *)
    assert (E1 : (x - 2 ^ w) / 2 ^ k = -1) by (symmetry; apply Z.div_unique with (r := x - 2 ^ k); lia).
    assert (E2 : -1 mod 2 ^ w = 2 ^ w - 1) by (symmetry; apply Z.mod_unique with (q := -1); lia).
    assert (E3 : (2 ^ w - 1) / 2 = 2 ^ k - 1) by (symmetry; apply Z.div_unique with (r := 1); lia).
    rewrite (Z.shiftr_div_pow2 (x - 2 ^ w) k) by lia. rewrite E1, E2.
    rewrite Z.shiftr_div_pow2 by lia. change (2 ^ 1) with 2. rewrite E3.
    replace (x - 2 ^ w) with ((x - 2 ^ k) - 2 ^ k) by lia.
    rewrite lxor_neg_low_ones by lia. lia.
  - rewrite (Z.shiftr_div_pow2 x k) by lia.
    rewrite Z.div_small by lia. rewrite Z.mod_0_l by lia. rewrite Z.shiftr_0_l. apply Z.lxor_0_r.
Qed.

Theorem float_key_total_order w x y : 0 < w -> 0 <= x < 2 ^ w -> 0 <= y < 2 ^ w ->
  total_cmp_key w x y = total_order (2 ^ (w - 1)) x y.
Proof.
  intros Hw Hx Hy. unfold total_cmp_key. rewrite !float_key_arith by assumption.
  assert (Hpw : 2 ^ w = 2 * 2 ^ (w - 1)) by (replace w with (Z.succ (w - 1)) at 1 by lia; rewrite Z.pow_succ_r by lia; reflexivity).
  apply akey_total_order; lia.
Qed.

(* totalOrder itself: a total order on bit patterns whose equivalence is bit equality *)
Lemma total_order_refl h x : total_order h x x = Eq.
Proof. unfold total_order. destruct (f_sign h x); apply Z.compare_refl. Qed.

Lemma total_order_eq h x y : total_order h x y = Eq -> x = y.
Proof.
  unfold total_order, f_mag, f_sign.
  destruct (Z.leb_spec h x), (Z.leb_spec h y); intros E; try discriminate; apply Z.compare_eq in E; lia.
Qed.

Lemma total_order_antisym h x y : total_order h y x = CompOpp (total_order h x y).
Proof.
  unfold total_order. destruct (f_sign h x), (f_sign h y); try reflexivity; apply Z.compare_antisym.
Qed.

Lemma total_order_trans h x y z :
  total_order h x y <> Gt -> total_order h y z <> Gt -> total_order h x z <> Gt.
Proof.
  unfold total_order, f_mag, f_sign.
  destruct (Z.leb_spec h x), (Z.leb_spec h y), (Z.leb_spec h z); intros A B; try congruence;
    rewrite ?Z.compare_gt_iff in *; lia.
Qed.
