(* C20 — Predicate::like / Predicate::ilike classification: every strategy the classifier selects
   computes the reference matcher on the code points, for every pattern and every haystack. *)
From Coq Require Import List NArith ZArith Arith Lia Bool.
From AV Require Import Base.Utf8 Model.C20_Like Proofs.C20_Utf8 Proofs.C20_Like.
Import ListNotations.
Local Open Scope N_scope.

Lemma Forall2_eqb_eq a b : Forall2 (fun x y => (x =? y) = true) a b <-> a = b.
Proof.
  split.
  - induction 1 as [|x y a b E _ IH]; [reflexivity|]. apply N.eqb_eq in E. congruence.
  - intros ->. induction b; constructor; [apply N.eqb_refl|assumption].
Qed.

Lemma scalars_app a b : scalars (a ++ b) <-> scalars a /\ scalars b.
Proof. apply Forall_app. Qed.

(* ------------------------------------------------------------------ byte-level kernels vs code points *)
Theorem starts_with_bytes_sound h n : scalars h -> scalars n ->
  bytes_starts_with N.eqb (utf8 h) (utf8 n) = starts_with_spec h n.
Proof.
  intros Hh Hn. apply bool_eq_iff. unfold starts_with_spec.
  rewrite bytes_starts_with_iff, prefix_by_iff. split.
  - intros (h1 & h2 & E & F). apply Forall2_eqb_eq in F. subst h1.
    destruct (proj1 (utf8_prefix_lemma n h Hn Hh) (ex_intro _ h2 E)) as (r & ->).
    exists n, r. split; [reflexivity|]. now apply Forall2_eqb_eq.
  - intros (h1 & h2 & -> & F). apply Forall2_eqb_eq in F. subst h1.
    exists (utf8 n), (utf8 h2). rewrite utf8_app. split; [reflexivity|]. now apply Forall2_eqb_eq.
Qed.

Theorem ends_with_bytes_sound h n : scalars h -> scalars n ->
  bytes_ends_with N.eqb (utf8 h) (utf8 n) = ends_with_spec h n.
Proof.
  intros Hh Hn. apply bool_eq_iff. unfold ends_with_spec.
  rewrite bytes_ends_with_iff, ends_with_by_iff. split.
  - intros (h1 & h2 & E & F). apply Forall2_eqb_eq in F. subst h2.
    destruct (proj1 (utf8_suffix_lemma n h Hn Hh) (ex_intro _ h1 E)) as (r & ->).
    exists r, n. split; [reflexivity|]. now apply Forall2_eqb_eq.
  - intros (h1 & h2 & -> & F). apply Forall2_eqb_eq in F. subst h2.
    exists (utf8 h1), (utf8 n). rewrite utf8_app. split; [reflexivity|]. now apply Forall2_eqb_eq.
Qed.

Theorem contains_bytes_sound h n : scalars h -> scalars n ->
  bytes_contains (utf8 h) (utf8 n) = contains_spec h n.
Proof.
  intros Hh Hn. apply bool_eq_iff. unfold bytes_contains, contains_spec.
  rewrite !exists_tail_iff. split.
  - intros (l & t & E & F). apply bytes_starts_with_iff in F as (t1 & t2 & -> & F).
    apply Forall2_eqb_eq in F. subst t1.
    destruct (proj1 (utf8_substring_lemma n h Hn Hh) (ex_intro _ l (ex_intro _ t2 E))) as (h1 & h2 & ->).
    exists h1, (n ++ h2). split; [reflexivity|]. apply prefix_by_iff. exists n, h2. split; [reflexivity|].
    now apply Forall2_eqb_eq.
  - intros (l & t & -> & F). apply prefix_by_iff in F as (t1 & t2 & -> & F).
    apply Forall2_eqb_eq in F. subst t1.
    exists (utf8 l), (utf8 (n ++ t2)). rewrite utf8_app. split; [reflexivity|].
    apply bytes_starts_with_iff. exists (utf8 n), (utf8 t2). rewrite utf8_app. split; [reflexivity|].
    now apply Forall2_eqb_eq.
Qed.

Theorem eq_bytes_sound a b : scalars a -> scalars b -> bytes_eq (utf8 a) (utf8 b) = eq_cp a b.
Proof.
  intros Ha Hb. apply bool_eq_iff. unfold bytes_eq, eq_cp.
  rewrite equals_bytes_eqlist, !eqlist_by_iff, !Forall2_eqb_eq. split; [now apply utf8_inj|congruence].
Qed.

(* ------------------------------------------------------------------ the classifier *)
Inductive like_class (p : list N) : pred -> Prop :=
| LC_eq : plain p -> like_class p (PEq (utf8 p))
| LC_starts q : p = q ++ [PCT] -> plain q -> like_class p (PStartsWith (utf8 q))
| LC_ends q : p = PCT :: q -> plain q -> like_class p (PEndsWith (utf8 q))
| LC_contains q : p = PCT :: q ++ [PCT] -> plain q -> like_class p (PContains (utf8 q))
| LC_regex : like_class p (PRegex false (regex_like p)).

Lemma pct_lt : PCT < 128. Proof. reflexivity. Qed.

Theorem classify_like_cases p : scalars p -> like_class p (classify_like (utf8 p)).
Proof.
  intros Hp. unfold classify_like.
  rewrite contains_like_pattern_utf8.
  destruct (existsb is_special p) eqn:Hsp; cbn [negb]; [|now apply LC_eq].
  (* StartsWith *)
  destruct (last_is PCT (utf8 p)) eqn:Hl.
  { destruct (last_is_utf8 PCT p pct_lt Hl) as (q & Ep & Er). rewrite Er, contains_like_pattern_utf8.
    destruct (existsb is_special q) eqn:Hq; cbn [negb andb]; [|now apply (LC_starts p q)].
    (* EndsWith *)
    destruct (first_is PCT (utf8 p)) eqn:Hf; cbn [andb]; [|rewrite cps_of_utf8 by assumption; apply LC_regex].
    destruct (first_is_utf8 PCT p pct_lt Hf) as (q1 & Ep1 & Et). rewrite Et, contains_like_pattern_utf8.
    destruct (existsb is_special q1) eqn:Hq1; cbn [negb]; [|now apply (LC_ends p q1)].
    (* Contains: p = % q1 = q %, so q1 = q2 % *)
    destruct q1 as [|c q1'].
    { (* p = [%] : already taken by StartsWith *)
      subst p. destruct q as [|? [|? ?]]; cbn in Ep1; try discriminate. }
    assert (Hl1 : last_is PCT (utf8 (c :: q1')) = true).
    { rewrite Ep1 in Hl. unfold last_is in *. rewrite (utf8_cons PCT) in Hl.
      change (encode PCT) with [PCT] in Hl. cbn [app rev] in Hl.
      destruct (rev (utf8 (c :: q1'))) as [|y ry] eqn:Ey; [|exact Hl].
      apply (f_equal (@rev N)) in Ey. rewrite rev_involutive in Ey. change (rev []) with (@nil N) in Ey.
      apply utf8_nil_inv in Ey. discriminate. }
    destruct (last_is_utf8 PCT (c :: q1') pct_lt Hl1) as (q2 & Eq2 & Er2).
    rewrite Er2, contains_like_pattern_utf8.
    destruct (existsb is_special q2) eqn:Hq2; cbn [negb];
      [rewrite cps_of_utf8 by assumption; apply LC_regex|].
    apply (LC_contains p q2); [|exact Hq2]. rewrite Ep1, Eq2. reflexivity. }
  cbn [andb].
  (* no trailing % *)
  destruct (first_is PCT (utf8 p)) eqn:Hf; cbn [andb]; [|rewrite cps_of_utf8 by assumption; apply LC_regex].
  destruct (first_is_utf8 PCT p pct_lt Hf) as (q1 & Ep1 & Et). rewrite Et, contains_like_pattern_utf8.
  destruct (existsb is_special q1) eqn:Hq1; cbn [negb]; [|now apply (LC_ends p q1)].
  rewrite cps_of_utf8 by assumption. apply LC_regex.
Qed.

(* each selected strategy is the reference matcher *)
Theorem like_class_sound p h pr : scalars p -> scalars h -> like_class p pr ->
  evaluate pr (utf8 h) = like_spec p h.
Proof.
  intros Hp Hh C. unfold like_spec. destruct C as [Hpl|q Ep Hq|q Ep Hq|q Ep Hq|]; cbn [evaluate].
  - rewrite like_plain by assumption. rewrite eq_bytes_sound by assumption. unfold eq_cp.
    apply bool_eq_iff. rewrite !eqlist_by_iff, !Forall2_eqb_eq. split; congruence.
  - subst p. apply scalars_app in Hp as [Hq' _]. rewrite like_prefix by assumption.
    now apply starts_with_bytes_sound.
  - subst p. inversion Hp; subst. rewrite like_suffix by assumption. now apply ends_with_bytes_sound.
  - subst p. inversion Hp as [|? ? _ Hp']; subst. apply scalars_app in Hp' as [Hq' _].
    rewrite like_infix by assumption. now apply contains_bytes_sound.
  - rewrite cps_of_utf8 by assumption. apply regex_like_sound_gen.
Qed.

Theorem like_classify_sound p h : scalars p -> scalars h -> like_m (utf8 p) (utf8 h) = like_spec p h.
Proof. intros Hp Hh. unfold like_m. apply like_class_sound; auto using classify_like_cases. Qed.

Theorem nlike_is_negation p h : scalars p -> scalars h -> nlike_m (utf8 p) (utf8 h) = negb (like_spec p h).
Proof. intros Hp Hh. unfold nlike_m. fold (like_m (utf8 p) (utf8 h)). rewrite like_classify_sound by assumption. now destruct (like_spec p h). Qed.

(* the array form (evaluate_array: length pre-check for Eq, StringView prefix / suffix iterators, negation) *)
Lemma evaluate_elem_eq view pr h neg : evaluate_elem view pr h neg = xorb (evaluate pr h) neg.
Proof.
  unfold evaluate_elem. f_equal. destruct pr; cbn [evaluate]; try reflexivity.
  - (* Eq *) unfold bytes_eq. rewrite !equals_bytes_eqlist.
    destruct (Nat.eqb_spec (length h) (length v)) as [L|L]; cbn [andb].
    + apply bool_eq_iff. rewrite !eqlist_by_iff, !Forall2_eqb_eq. split; congruence.
    + symmetry. apply not_true_is_false. intros E. apply eqlist_by_iff, Forall2_eqb_eq in E. subst. congruence.
  - destruct view; [apply view_prefix_path|reflexivity].
  - destruct view; [apply view_suffix_path|reflexivity].
  - destruct view; [apply view_prefix_path|reflexivity].
  - destruct view; [apply view_suffix_path|reflexivity].
Qed.

Theorem like_scalar_sound view neg p h : scalars p -> scalars h ->
  like_scalar_m view neg (utf8 p) (utf8 h) = xorb (like_spec p h) neg.
Proof.
  intros Hp Hh. unfold like_scalar_m. rewrite evaluate_elem_eq. fold (like_m (utf8 p) (utf8 h)).
  now rewrite like_classify_sound.
Qed.

Theorem starts_with_sound view h n : scalars h -> scalars n -> starts_with_m view (utf8 h) (utf8 n) = starts_with_spec h n.
Proof. intros. unfold starts_with_m. rewrite evaluate_elem_eq, xorb_false_r. cbn [evaluate]. now apply starts_with_bytes_sound. Qed.
Theorem ends_with_sound view h n : scalars h -> scalars n -> ends_with_m view (utf8 h) (utf8 n) = ends_with_spec h n.
Proof. intros. unfold ends_with_m. rewrite evaluate_elem_eq, xorb_false_r. cbn [evaluate]. now apply ends_with_bytes_sound. Qed.
Theorem contains_sound h n : scalars h -> scalars n -> contains_m (utf8 h) (utf8 n) = contains_spec h n.
Proof. intros. unfold contains_m. cbn [evaluate]. now apply contains_bytes_sound. Qed.

(* ------------------------------------------------------------------ ILIKE on ASCII text *)
Inductive ilike_class (p : list N) : pred -> Prop :=
| IC_eq : plain p -> ilike_class p (PIEqAscii p)
| IC_starts q : p = q ++ [PCT] -> plain q -> ilike_class p (PIStartsWithAscii q)
| IC_ends q : p = PCT :: q -> plain q -> ilike_class p (PIEndsWithAscii q)
| IC_regex : ilike_class p (PRegex true (regex_like p)).

Lemma is_ascii_app a b : is_ascii (a ++ b) = is_ascii a && is_ascii b.
Proof. apply forallb_app. Qed.

Theorem classify_ilike_cases p ha : is_ascii p = true -> ilike_class p (classify_ilike (utf8 p) ha).
Proof.
  intros Ha. pose proof (ascii_scalars p Ha) as Hp. unfold classify_ilike.
  rewrite (utf8_ascii p Ha) at 1. rewrite Ha, andb_true_r.
  destruct ha; [|rewrite cps_of_utf8 by assumption; apply IC_regex].
  rewrite contains_like_pattern_utf8.
  destruct (existsb is_special p) eqn:Hsp; cbn [negb]; [|rewrite (utf8_ascii p Ha); now apply IC_eq].
  assert (Hends : forall q1, first_is PCT (utf8 p) = true -> p = PCT :: q1 -> tl (utf8 p) = utf8 q1 ->
            ilike_class p (if negb (contains_like_pattern (utf8 q1)) then PIEndsWithAscii (utf8 q1)
                           else PRegex true (regex_like (cps_of (utf8 p))))).
  { intros q1 _ Ep1 Et. rewrite contains_like_pattern_utf8.
    assert (Hq1 : is_ascii q1 = true) by (subst p; change (is_ascii (PCT :: q1)) with ((PCT <? 128) && is_ascii q1) in Ha; now apply andb_true_iff in Ha as [_ ?]).
    destruct (existsb is_special q1) eqn:Hq1s; cbn [negb].
    - rewrite cps_of_utf8 by assumption. apply IC_regex.
    - rewrite (utf8_ascii q1 Hq1). now apply (IC_ends p q1). }
  destruct (last_is PCT (utf8 p)) eqn:Hl; cbn [andb].
  { destruct (last_is_utf8 PCT p pct_lt Hl) as (q & Ep & Er). rewrite Er, contains_like_pattern_utf8.
    assert (Hq : is_ascii q = true) by (subst p; rewrite is_ascii_app in Ha; now apply andb_true_iff in Ha as [? _]).
    destruct (negb (ends_with_bsl_pct (utf8 p)) && negb (existsb is_special q)) eqn:Hg.
    - apply andb_true_iff in Hg as [_ Hg]. apply negb_true_iff in Hg.
      rewrite (utf8_ascii q Hq). now apply (IC_starts p q).
    - destruct (first_is PCT (utf8 p)) eqn:Hf; cbn [andb]; [|rewrite cps_of_utf8 by assumption; apply IC_regex].
      destruct (first_is_utf8 PCT p pct_lt Hf) as (q1 & Ep1 & Et). rewrite Et. now apply Hends. }
  destruct (first_is PCT (utf8 p)) eqn:Hf; cbn [andb]; [|rewrite cps_of_utf8 by assumption; apply IC_regex].
  destruct (first_is_utf8 PCT p pct_lt Hf) as (q1 & Ep1 & Et). rewrite Et. now apply Hends.
Qed.

Theorem ilike_class_sound p h pr : is_ascii p = true -> is_ascii h = true -> ilike_class p pr ->
  evaluate pr (utf8 h) = ilike_ascii_spec p h.
Proof.
  intros Ha Hb C. rewrite (utf8_ascii h Hb). unfold ilike_ascii_spec.
  destruct C as [Hpl|q Ep Hq|q Ep Hq|]; cbn [evaluate].
  - rewrite like_plain by assumption. apply equals_bytes_eqlist.
  - subst p. rewrite like_prefix by assumption. apply bytes_starts_with_prefix.
  - subst p. rewrite like_suffix by assumption. apply bytes_ends_with_suffix.
  - rewrite <- (utf8_ascii h Hb) at 1. rewrite cps_of_utf8 by now apply ascii_scalars.
    apply regex_like_sound_gen.
Qed.

(* both the ASCII fast paths (haystack array all ASCII) and the regex path give ASCII-folded LIKE *)
Theorem ilike_ascii_paths_sound ha p h : is_ascii p = true -> is_ascii h = true ->
  ilike_m ha (utf8 p) (utf8 h) = ilike_ascii_spec p h.
Proof. intros Ha Hb. unfold ilike_m. apply ilike_class_sound; auto using classify_ilike_cases. Qed.

Theorem ilike_scalar_sound view neg ha p h : is_ascii p = true -> is_ascii h = true ->
  ilike_scalar_m view neg ha (utf8 p) (utf8 h) = xorb (ilike_ascii_spec p h) neg.
Proof.
  intros Ha Hb. unfold ilike_scalar_m. rewrite evaluate_elem_eq. fold (ilike_m ha (utf8 p) (utf8 h)).
  now rewrite ilike_ascii_paths_sound.
Qed.
