(* C04 — validity / boolean re-packing on write: Buffer::bit_slice keeps exactly the addressed bits. *)
From Coq Require Import List Arith NArith ZArith Lia Bool.
From AV Require Import Base.ListX Base.Bytes Model.C19_Bits Model.C09_Layout Model.C04_Walk Model.C04_Rebase Model.C04_Write Proofs.C04_Walk.
Import ListNotations.

Lemma byte_of_bits_testbit l j : N.testbit (byte_of_bits l) (N.of_nat j) = nth j l false.
Proof.
  revert j; induction l as [|b r IH]; intros j.
  - cbn [byte_of_bits]. rewrite N.bits_0. destruct j; reflexivity.
  - cbn [byte_of_bits]. replace ((if b then 1 else 0) + 2 * byte_of_bits r)%N with (2 * byte_of_bits r + N.b2n b)%N
      by (destruct b; cbn [N.b2n]; lia).
    destruct j as [|j].
    + change (N.of_nat 0) with 0%N. rewrite N.testbit_0_r. reflexivity.
    + rewrite Nat2N.inj_succ, N.testbit_succ_r. cbn [nth]. apply IH.
Qed.

Lemma bit_at_cons_lt x r i : i < 8 -> bit_at (x :: r) i = N.testbit x (N.of_nat i).
Proof. intros Hi. unfold bit_at. rewrite Nat.div_small, Nat.mod_small by exact Hi. reflexivity. Qed.
Lemma bit_at_cons_ge x r i : 8 <= i -> bit_at (x :: r) i = bit_at r (i - 8).
Proof.
  intros Hi. unfold bit_at. replace i with ((i - 8) + 1 * 8) at 1 2 by lia.
  rewrite Nat.div_add, Nat.mod_add by lia. replace ((i - 8) / 8 + 1) with (S ((i - 8) / 8)) by lia. reflexivity.
Qed.

Lemma bit_at_bytes_of_bits : forall fuel l i, i < length l -> length l <= 8 * fuel ->
  bit_at (bytes_of_bits fuel l) i = nth i l false.
Proof.
  induction fuel as [|f IH]; intros l i Hi Hl; [lia|].
  cbn [bytes_of_bits]. destruct l as [|b0 r0] eqn:El; [cbn in Hi; lia|]. rewrite <- El in *. clear El b0 r0.
  destruct (Nat.lt_ge_cases i 8) as [H8|H8].
  - rewrite bit_at_cons_lt by exact H8. rewrite byte_of_bits_testbit. apply nth_firstn'. exact H8.
  - rewrite bit_at_cons_ge by exact H8. rewrite IH.
    + rewrite nth_skipn'. f_equal. lia.
    + rewrite skipn_length. lia.
    + rewrite skipn_length. lia.
Qed.

(* Buffer::bit_slice: bit i of the result is bit off+i of the source, on both paths (shared bytes when the
   offset is byte aligned, re-packed bits otherwise) *)
Theorem bit_slice_spec b off len i : i < len ->
  bit_at (bit_slice b off len) i = bit_at b (off + i).
Proof.
  intros Hi. unfold bit_slice. destruct (Nat.eqb_spec (off mod 8) 0) as [Ha|Hn].
  - unfold bit_at. unfold ceil8.
    assert (Hq : i / 8 < (len + 7) / 8) by (apply Nat.div_lt_upper_bound; [lia|]; pose proof (Nat.div_mod (len + 7) 8); lia).
    rewrite nth_firstn' by exact Hq. rewrite nth_skipn'.
    pose proof (Nat.div_mod off 8 ltac:(lia)) as Ho. rewrite Ha in Ho.
    replace (off + i) with (i + (off / 8) * 8) by lia.
    rewrite Nat.div_add, Nat.mod_add by lia. f_equal. f_equal. lia.
  - rewrite bit_at_bytes_of_bits.
    + apply bits_range_nth. exact Hi.
    + rewrite bits_range_length. exact Hi.
    + rewrite bits_range_length. unfold ceil8. pose proof (Nat.div_mod (len + 7) 8 ltac:(lia)). lia.
Qed.

(* ---- the byte-level writer model emits exactly the nodes / buffers / variadic counts of the type-level walk *)
Definition counts_ok (v5 : bool) (t : dty) (k : parr) (o : wout) : Prop :=
  forall q, let '(toks, rest) := w_walk t v5 (var_counts k ++ q) in
            length (fst o) = nodes_of toks /\ length (snd o) = length (bufs_of toks) /\ rest = q.

Lemma wcat_fst x y : fst (wcat x y) = fst x ++ fst y. Proof. reflexivity. Qed.
Lemma wcat_snd x y : snd (wcat x y) = snd x ++ snd y. Proof. reflexivity. Qed.

Lemma thread_counts {A} (sel : A -> dty) v5 (F : parr -> wout) :
  forall (fs : list A) (ks : list parr),
  Forall2 (fun f k => counts_ok v5 (sel f) k (F k)) fs ks ->
  forall q, let '(toks, rest) := thread (fun p => w_walk (sel p) v5) fs (flat_map var_counts ks ++ q) in
            length (fst (wconcat (map F ks))) = nodes_of toks /\
            length (snd (wconcat (map F ks))) = length (bufs_of toks) /\ rest = q.
Proof.
  induction 1 as [|f k fs ks Hfk Hrest IH]; intros q.
  - cbn. repeat split; reflexivity.
  - cbn [flat_map map wconcat fold_right thread]. rewrite <- app_assoc.
    specialize (Hfk (flat_map var_counts ks ++ q)).
    destruct (w_walk (sel f) v5 (var_counts k ++ flat_map var_counts ks ++ q)) as [t1 r1].
    destruct Hfk as (H1 & H2 & ->).
    specialize (IH q). fold (wconcat (map F ks)) in *.
    destruct (thread (fun p => w_walk (sel p) v5) fs (flat_map var_counts ks ++ q)) as [t2 r2].
    destruct IH as (H3 & H4 & ->).
    rewrite wcat_fst, wcat_snd, !app_length, nodes_app, bufs_app, app_length. repeat split; lia.
Qed.

Lemma depth_kid a k : In k (p_kids a) -> depth k < depth a.
Proof.
  destruct a as [ty len off nulls bufs kids]. cbn [p_kids depth]. intros Hin.
  induction kids as [|x r IH]; [destruct Hin|]. cbn [fold_right]. destruct Hin as [->|Hin]; [lia|]. specialize (IH Hin). lia.
Qed.

Lemma w_arr_fixed f v5 w len off nulls bufs s l p : 0 < f ->
  length (fst (w_arr f v5 (PArr (TFixed w) len off nulls bufs []) s l p)) = 1 /\
  length (snd (w_arr f v5 (PArr (TFixed w) len off nulls bufs []) s l p)) = 2.
Proof. intros Hf. destruct f as [|f]; [lia|]. destruct v5; cbn; split; reflexivity. Qed.

Ltac leaf_case :=
  let a := fresh "a" in let Hty := fresh "Hty" in let Hk := fresh "Hk" in
  intros a [Hty Hk] fuel s l proper Hd q; (destruct fuel as [|f]; [lia|]);
  destruct a as [ty len off nulls bufs kids]; cbn [p_ty p_kids p_bufs] in *; subst.

Theorem w_arr_counts v5 : forall t a, shaped t a ->
  forall fuel s l proper, depth a < fuel -> counts_ok v5 t a (w_arr fuel v5 a s l proper).
Proof.
  apply (dty_ind2 (fun t => forall a, shaped t a -> forall fuel s l proper, depth a < fuel -> counts_ok v5 t a (w_arr fuel v5 a s l proper))).
  - leaf_case. destruct v5; cbn; repeat split; reflexivity.
  - leaf_case. destruct v5; cbn; repeat split; reflexivity.
  - intros w. leaf_case. destruct v5; cbn; repeat split; reflexivity.
  - intros n. leaf_case. destruct v5; cbn; repeat split; reflexivity.
  - intros lg u. leaf_case. cbn [w_arr p_ty var_counts flat_map app]. 
    destruct (l =? 0); [|destruct (reencode_bytes _ _ _ _) as [[ob st] n]]; destruct v5; cbn; repeat split; reflexivity.
  - (* view *)
    intros u. leaf_case. cbn [w_arr p_ty p_bufs var_counts app].
    destruct bufs as [|b0 br]; [congruence|]. cbn [length tl Nat.sub]. rewrite Nat.sub_0_r.
    destruct v5; cbn [w_walk has_validity app]; rewrite ?wcat_fst, ?wcat_snd; cbn [fst snd app length];
      norm; rewrite ?repeat_length; repeat split; reflexivity.
  - (* list *)
    intros lg nb c IH a [Hty [k [Hk Hs]]] fuel s l proper Hd q. destruct fuel as [|f]; [lia|].
    destruct a as [ty len off nulls bufs kids]; cbn [p_ty p_kids p_bufs] in *; subst.
    assert (Hdk : depth k < f) by (cbn [depth fold_right] in Hd; lia).
    cbn [w_arr p_ty p_kids p_off p_len p_bufs nth var_counts flat_map]. rewrite app_nil_r.
    destruct (l =? 0); [|destruct (reencode_bytes _ _ _ _) as [[ob st] n]].
    + specialize (IH k Hs f 0 0 false Hdk q). unfold counts_ok in IH.
      destruct (w_walk c v5 (var_counts k ++ q)) as [tc r] eqn:E. destruct IH as (H1 & H2 & ->).
      destruct v5; cbn [w_walk has_validity]; rewrite E; rewrite !wcat_fst, !wcat_snd; cbn [fst snd app]; rewrite ?app_length; norm; cbn [length]; repeat split; lia.
    + specialize (IH k Hs f st n false Hdk q). unfold counts_ok in IH.
      destruct (w_walk c v5 (var_counts k ++ q)) as [tc r] eqn:E. destruct IH as (H1 & H2 & ->).
      destruct v5; cbn [w_walk has_validity]; rewrite E; rewrite !wcat_fst, !wcat_snd; cbn [fst snd app]; rewrite ?app_length; norm; cbn [length]; repeat split; lia.
  - (* list view *)
    intros lg nb c IH a [Hty [k [Hk Hs]]] fuel s l proper Hd q. destruct fuel as [|f]; [lia|].
    destruct a as [ty len off nulls bufs kids]; cbn [p_ty p_kids p_bufs] in *; subst.
    assert (Hdk : depth k < f) by (cbn [depth fold_right] in Hd; lia).
    cbn [w_arr p_ty p_kids p_off p_len p_bufs nth var_counts flat_map]. rewrite app_nil_r.
    destruct (l =? 0).
    + specialize (IH k Hs f 0 0 false Hdk q). unfold counts_ok in IH.
      destruct (w_walk c v5 (var_counts k ++ q)) as [tc r] eqn:E. destruct IH as (H1 & H2 & ->).
      destruct v5; cbn [w_walk has_validity]; rewrite E; rewrite !wcat_fst, !wcat_snd; cbn [fst snd app]; rewrite ?app_length; norm; cbn [length]; repeat split; lia.
    + specialize (IH k Hs f 0 (p_len k) false Hdk q). unfold counts_ok in IH.
      destruct (w_walk c v5 (var_counts k ++ q)) as [tc r] eqn:E. destruct IH as (H1 & H2 & ->).
      destruct v5; cbn [w_walk has_validity]; rewrite E; rewrite !wcat_fst, !wcat_snd; cbn [fst snd app]; rewrite ?app_length; norm; cbn [length]; repeat split; lia.
  - (* fixed size list *)
    intros sz nb c IH a [Hty [k [Hk Hs]]] fuel s l proper Hd q. destruct fuel as [|f]; [lia|].
    destruct a as [ty len off nulls bufs kids]; cbn [p_ty p_kids p_bufs] in *; subst.
    assert (Hdk : depth k < f) by (cbn [depth fold_right] in Hd; lia).
    cbn [w_arr p_ty p_kids p_off p_len p_bufs nth var_counts flat_map]. rewrite app_nil_r.
    specialize (IH k Hs f ((off + s) * Z.to_nat sz) (l * Z.to_nat sz) proper Hdk q). unfold counts_ok in IH.
    destruct (w_walk c v5 (var_counts k ++ q)) as [tc r] eqn:E. destruct IH as (H1 & H2 & ->).
    destruct v5; cbn [w_walk has_validity]; rewrite E; rewrite !wcat_fst, !wcat_snd; cbn [fst snd app]; rewrite ?app_length; norm; cbn [length]; repeat split; lia.
  - (* struct *)
    intros fs IH a [Hty Hk] fuel s l proper Hd q. destruct fuel as [|f]; [lia|].
    destruct a as [ty len off nulls bufs kids]; cbn [p_ty p_kids p_bufs] in *; subst.
    assert (HF : Forall2 (fun (p : bool * dty) k => counts_ok v5 (snd p) k (w_arr f v5 k s l proper)) fs kids).
    { assert (Hdep : forall k, In k kids -> depth k < f).
      { intros k Hin. pose proof (depth_kid (PArr (TStruct fs) len off nulls bufs kids) k Hin). lia. }
      clear Hd. revert kids Hk Hdep. induction IH as [|p fs' Hp _ IHfs]; intros kids Hk Hdep; destruct kids as [|k ks]; try contradiction; [constructor|].
      destruct Hk as [Hs Hrest]. constructor.
      - apply Hp; [exact Hs|apply Hdep; now left].
      - apply IHfs; [exact Hrest|intros k' Hin; apply Hdep; now right]. }
    pose proof (thread_counts snd v5 (fun c => w_arr f v5 c s l proper) fs kids HF q) as HT.
    cbn [w_arr p_ty p_kids var_counts].
    destruct (thread (fun p : bool * dty => w_walk (snd p) v5) fs (flat_map var_counts kids ++ q)) as [tc r] eqn:E.
    destruct HT as (H1 & H2 & ->).
    destruct v5; cbn [w_walk has_validity]; rewrite E; rewrite !wcat_fst, !wcat_snd; cbn [fst snd app]; rewrite ?app_length; norm; cbn [length]; repeat split; lia.
  - (* dictionary *)
    intros w sg v _ a [Hty _] fuel s l proper Hd q. destruct fuel as [|f]; [lia|].
    destruct a as [ty len off nulls bufs kids]; cbn [p_ty] in *; subst.
    destruct v5; cbn; repeat split; reflexivity.
  - (* run-end encoded *)
    intros rw v IH a [Hty [re [k [Hk [Hre [Hrk Hs]]]]]] fuel s l proper Hd q. destruct fuel as [|f]; [lia|].
    destruct a as [ty len off nulls bufs kids]; cbn [p_ty p_kids p_bufs] in *; subst.
    destruct re as [rty rlen roff rnulls rbufs rkids]; cbn [p_ty p_kids] in *; subst.
    assert (Hdk : depth k < f) by (cbn [depth fold_right] in Hd; lia).
    assert (Hpos : 0 < f) by lia.
    cbn [w_arr p_ty p_kids p_off p_len p_bufs nth var_counts flat_map app]. rewrite app_nil_r.
    match goal with |- context [if ?c then _ else _] => destruct c end.
    + specialize (IH k Hs f 0 (p_len k) false Hdk q). unfold counts_ok in IH.
      destruct (w_arr_fixed f v5 rw rlen roff rnulls rbufs 0 rlen false Hpos) as [R1 R2].
      destruct (w_walk v v5 (var_counts k ++ q)) as [tc r] eqn:E. destruct IH as (H1 & H2 & ->).
      destruct v5; cbn [w_walk has_validity]; rewrite E; rewrite !wcat_fst, !wcat_snd; cbn [fst snd app]; rewrite ?app_length; norm; rewrite ?app_length, ?R1, ?R2; cbn [length]; repeat split; lia.
    + match goal with |- context [w_arr f v5 k ?a ?b true] => specialize (IH k Hs f a b true Hdk q) end. unfold counts_ok in IH.
      destruct (w_walk v v5 (var_counts k ++ q)) as [tc r] eqn:E. destruct IH as (H1 & H2 & ->).
      destruct v5; cbn [w_walk has_validity]; rewrite E; rewrite !wcat_fst, !wcat_snd; cbn [fst snd app]; rewrite ?app_length; norm; cbn [length]; repeat split; lia.
  - (* union *)
    intros d fs IH a [Hty [Hb Hk]] fuel s l proper Hd q. destruct fuel as [|f]; [lia|].
    destruct a as [ty len off nulls bufs kids]; cbn [p_ty p_kids p_bufs] in *; subst.
    assert (HF : forall (g1 g2 : parr -> nat) (g3 : parr -> bool),
               Forall2 (fun (p : Z * dty) k => counts_ok v5 (snd p) k (w_arr f v5 k (g1 k) (g2 k) (g3 k))) fs kids).
    { intros g1 g2 g3.
      assert (Hdep : forall k, In k kids -> depth k < f).
      { intros k Hin. pose proof (depth_kid (PArr (TUnion d fs) len off nulls bufs kids) k Hin). lia. }
      clear Hd. revert kids Hk Hdep. induction IH as [|p fs' Hp _ IHfs]; intros kids Hk Hdep; destruct kids as [|k ks]; try contradiction; [constructor|].
      destruct Hk as [Hs Hrest]. constructor.
      - apply Hp; [exact Hs|apply Hdep; now left].
      - apply IHfs; [exact Hrest|intros k' Hin; apply Hdep; now right]. }
    cbn [w_arr p_ty p_kids p_off p_len p_bufs var_counts].
    destruct proper.
    + pose proof (thread_counts snd v5 (fun c => if d then w_arr f v5 c 0 (p_len c) false else w_arr f v5 c (off + s) l true) fs kids) as HT.
      assert (HF' : Forall2 (fun (p : Z * dty) k => counts_ok v5 (snd p) k (if d then w_arr f v5 k 0 (p_len k) false else w_arr f v5 k (off + s) l true)) fs kids).
      { destruct d; [exact (HF (fun _ => 0) p_len (fun _ => false))|exact (HF (fun _ => off + s) (fun _ => l) (fun _ => true))]. }
      specialize (HT HF' q).
      destruct (thread (fun p : Z * dty => w_walk (snd p) v5) fs (flat_map var_counts kids ++ q)) as [tc r] eqn:E.
      destruct HT as (H1 & H2 & ->).
      destruct v5, d; cbn [w_walk has_validity]; rewrite E; rewrite !wcat_fst, !wcat_snd; cbn [fst snd app]; rewrite ?app_length; norm; cbn [length]; repeat split; lia.
    + pose proof (thread_counts snd v5 (fun c => w_arr f v5 c 0 (p_len c) false) fs kids (HF (fun _ => 0) p_len (fun _ => false)) q) as HT.
      destruct (thread (fun p : Z * dty => w_walk (snd p) v5) fs (flat_map var_counts kids ++ q)) as [tc r] eqn:E.
      destruct HT as (H1 & H2 & ->).
      destruct v5, d; cbn [w_walk has_validity]; rewrite E; rewrite !wcat_fst, !wcat_snd; cbn [fst snd app]; rewrite ?app_length; norm; rewrite ?app_length, ?Hb; cbn [length]; repeat split; lia.
Qed.
