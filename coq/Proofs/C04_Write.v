(* C04 — validity / boolean re-packing on write: Buffer::bit_slice keeps exactly the addressed bits. *)
From Coq Require Import List Arith NArith Lia Bool.
From AV Require Import Base.ListX Base.Bytes Model.C19_Bits Model.C04_Write.
Import ListNotations.

Lemma byte_of_bits_testbit l j : N.testbit (byte_of_bits l) (N.of_nat j) = nth j l false.
Proof.
  revert j; induction l as [|b r IH]; intros j.
  - cbn [byte_of_bits]. rewrite N.bits_0. destruct j; reflexivity.
  - cbn [byte_of_bits]. replace ((if b then 1 else 0) + 2 * byte_of_bits r)%N with (2 * byte_of_bits r + N.b2n b)%N
      by (destruct b; cbn [N.b2n]; lia).
    destruct j as [|j].
    + change (N.of_nat 0) with 0%N. rewrite N.testbit_0_r. reflexivity.
    + rewrite Nat2N.inj_succ, N.testbit_succ_r. cbn [nth]. apply IH.
Qed.

Lemma bit_at_cons_lt x r i : i < 8 -> bit_at (x :: r) i = N.testbit x (N.of_nat i).
Proof. intros Hi. unfold bit_at. rewrite Nat.div_small, Nat.mod_small by exact Hi. reflexivity. Qed.
Lemma bit_at_cons_ge x r i : 8 <= i -> bit_at (x :: r) i = bit_at r (i - 8).
Proof.
  intros Hi. unfold bit_at. replace i with ((i - 8) + 1 * 8) at 1 2 by lia.
  rewrite Nat.div_add, Nat.mod_add by lia. replace ((i - 8) / 8 + 1) with (S ((i - 8) / 8)) by lia. reflexivity.
Qed.

Lemma bit_at_bytes_of_bits : forall fuel l i, i < length l -> length l <= 8 * fuel ->
  bit_at (bytes_of_bits fuel l) i = nth i l false.
Proof.
  induction fuel as [|f IH]; intros l i Hi Hl; [lia|].
  cbn [bytes_of_bits]. destruct l as [|b0 r0] eqn:El; [cbn in Hi; lia|]. rewrite <- El in *. clear El b0 r0.
  destruct (Nat.lt_ge_cases i 8) as [H8|H8].
  - rewrite bit_at_cons_lt by exact H8. rewrite byte_of_bits_testbit. apply nth_firstn'. exact H8.
  - rewrite bit_at_cons_ge by exact H8. rewrite IH.
    + rewrite nth_skipn'. f_equal. lia.
    + rewrite skipn_length. lia.
    + rewrite skipn_length. lia.
Qed.

(* Buffer::bit_slice: bit i of the result is bit off+i of the source, on both paths (shared bytes when the
   offset is byte aligned, re-packed bits otherwise) *)
Theorem bit_slice_spec b off len i : i < len ->
  bit_at (bit_slice b off len) i = bit_at b (off + i).
Proof.
  intros Hi. unfold bit_slice. destruct (Nat.eqb_spec (off mod 8) 0) as [Ha|Hn].
  - unfold bit_at. unfold ceil8.
    assert (Hq : i / 8 < (len + 7) / 8) by (apply Nat.div_lt_upper_bound; [lia|]; pose proof (Nat.div_mod (len + 7) 8); lia).
    rewrite nth_firstn' by exact Hq. rewrite nth_skipn'.
    pose proof (Nat.div_mod off 8 ltac:(lia)) as Ho. rewrite Ha in Ho.
    replace (off + i) with (i + (off / 8) * 8) by lia.
    rewrite Nat.div_add, Nat.mod_add by lia. f_equal. f_equal. lia.
  - rewrite bit_at_bytes_of_bits.
    + apply bits_range_nth. exact Hi.
    + rewrite bits_range_length. exact Hi.
    + rewrite bits_range_length. unfold ceil8. pose proof (Nat.div_mod (len + 7) 8 ltac:(lia)). lia.
Qed.
