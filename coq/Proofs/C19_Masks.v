(* C19: UnalignedBitChunk prefix/suffix masks keep exactly the addressed bits. *)
From Coq Require Import NArith ZArith Lia Bool ZifyN ZifyNat ZifyBool.
From AV Require Import Base.Bits Model.C19_Bits.
Local Open Scope N_scope.
Ltac Zify.zify_post_hook ::= Z.div_mod_to_equations.

Lemma prefix_mask_spec lead i : lead < 64 -> i < 64 ->
  N.testbit (prefix_mask lead) i = (lead <=? i).
Proof.
  intros Hl Hi. unfold prefix_mask, u64_not. rewrite ones_pred, N.ldiff_spec.
  rewrite N.ones_spec_low by assumption.
  destruct (N.leb_spec lead i).
  - now rewrite N.ones_spec_high.
  - now rewrite N.ones_spec_low.
Qed.

Lemma suffix_mask_spec len lead i : i < 64 -> 0 < len -> len + lead <= 64 ->
  N.testbit (fst (suffix_mask len lead)) i = (i <? len + lead).
Proof.
  intros Hi Hlen Hle. unfold suffix_mask.
  destruct (N.eqb_spec ((len + lead) mod 64) 0) as [E|NE]; cbn [fst].
  - assert (len + lead = 64) by lia. rewrite N.ones_spec_low by assumption.
    destruct (N.ltb_spec i (len + lead)); [reflexivity|lia].
  - assert (Hm : (len + lead) mod 64 = len + lead) by (apply N.mod_small; lia).
    rewrite Hm, ones_pred.
    destruct (N.ltb_spec i (len + lead)).
    + now rewrite N.ones_spec_low.
    + now rewrite N.ones_spec_high.
Qed.

(* general form: the suffix mask keeps the bits below (len+lead) mod 64, or all when that is 0 *)
Lemma suffix_mask_spec_gen len lead i : i < 64 ->
  N.testbit (fst (suffix_mask len lead)) i =
  (((len + lead) mod 64 =? 0) || (i <? (len + lead) mod 64)).
Proof.
  intros Hi. unfold suffix_mask.
  destruct (N.eqb_spec ((len + lead) mod 64) 0) as [E|NE]; cbn [fst orb].
  - now apply N.ones_spec_low.
  - rewrite ones_pred. destruct (N.ltb_spec i ((len + lead) mod 64)).
    + now rewrite N.ones_spec_low.
    + now rewrite N.ones_spec_high.
Qed.

Theorem single_word_spec x len lead i : i < 64 -> lead < 8 -> 0 < len -> len + lead <= 64 ->
  N.testbit (N.land (N.land x (fst (suffix_mask len lead))) (prefix_mask lead)) i
  = (N.testbit x i && (lead <=? i) && (i <? len + lead)).
Proof.
  intros Hi Hl Hlen Hle.
  rewrite !N.land_spec, prefix_mask_spec, suffix_mask_spec by lia.
  destruct (N.testbit x i), (lead <=? i), (i <? len + lead); reflexivity.
Qed.

Lemma trailing_padding_spec len lead : 0 < len -> len + lead <= 64 ->
  snd (suffix_mask len lead) = 64 - (len + lead).
Proof.
  intros. unfold suffix_mask. destruct (N.eqb_spec ((len + lead) mod 64) 0); cbn [snd]; lia.
Qed.

Lemma trailing_padding_gen len lead :
  (snd (suffix_mask len lead) + len + lead) mod 64 = 0 /\ snd (suffix_mask len lead) < 64.
Proof.
  unfold suffix_mask. destruct (N.eqb_spec ((len + lead) mod 64) 0); cbn [snd]; lia.
Qed.
