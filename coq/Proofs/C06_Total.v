(* C06 — and_then does not panic under its documented precondition (the second selection
   covers exactly the rows the first one selects), and the read plan can always be built. *)
From Coq Require Import List ZArith Arith Lia Bool.
From AV Require Import Model.C06_RowSel Model.C06_Reader Proofs.C06_Basics Proofs.C06_AndThen
  Proofs.C06_Construct Proofs.C06_Algebra Proofs.C06_Plan.
Import ListNotations.

(* ------------------------------------------------------------------ selectors x selectors *)
Definition zc (l : list sel) : nat := match l with (_, 0) :: _ => 1 | _ => 0 end.

Lemma zc_le l : zc l <= 1 /\ zc l <= length l.
Proof. destruct l as [|[sk [|n]] l]; cbn [zc length]; lia. Qed.

Lemma zc_zero sk l : zc ((sk, 0) :: l) = 1.
Proof. reflexivity. Qed.
Lemma zc_nonzero sk n l : n <> 0 -> zc ((sk, n) :: l) = 0.
Proof. destruct n; [contradiction|reflexivity]. Qed.

Lemma drain_first_total first : forall ts, count_true (dens first) = 0 -> drain_first first ts <> None.
Proof.
  induction first as [|[sk n] first IH]; intros ts H; cbn [drain_first]; [discriminate|].
  rewrite dens_cons, count_true_app, count_true_repeat in H.
  destruct (Nat.eqb_spec n 0) as [->|Hn]; [apply IH; destruct sk; cbn [negb] in H; lia|].
  destruct sk; cbn [negb] in H; [apply IH; lia|lia].
Qed.

Lemma and_then_go_total fuel : forall first second to_skip out,
  count_true (dens first) = length (dens second) ->
  nonzero (tl second) ->
  (zc second = 1 -> first <> []) ->
  2 * length first + 2 * length second - zc first - zc second < fuel ->
  and_then_go fuel first second to_skip out <> None.
Proof.
  induction fuel as [|fuel IH]; intros first second to_skip out Hc Hnz Hz Hf; [lia|].
  cbn [and_then_go].
  destruct second as [|[bskip bn] second'].
  - cbn [dens flat_map length] in Hc.
    pose proof (drain_first_total first to_skip Hc) as Hd.
    destruct (drain_first first to_skip); [discriminate|contradiction].
  - cbn [tl] in Hnz.
    destruct first as [|[askip an] first'].
    { exfalso. destruct bn as [|bn]; [now apply Hz|].
      rewrite dens_cons, app_length, repeat_length in Hc. cbn in Hc. lia. }
    pose proof (zc_le first') as Hzf. pose proof (zc_le second') as Hzs.
    assert (Hs'z : zc second' = 0).
    { destruct second' as [|[sk [|n]] s2]; try reflexivity. inversion Hnz as [|x y Hx Hy]. exfalso. apply Hx. reflexivity. }
    destruct (Nat.eqb_spec bn 0) as [->|Hbn].
    { apply IH; [exact Hc| | |].
      - destruct second'; [constructor|now inversion Hnz].
      - rewrite Hs'z. discriminate.
      - pose proof (zc_le ((askip, an) :: first')) as Hzf0.
        rewrite Hs'z. rewrite zc_zero in Hf. cbn [length] in *. lia. }
    assert (Hzb : zc ((bskip, bn) :: second') = 0) by (now apply zc_nonzero).
    destruct (Nat.eqb_spec an 0) as [->|Han].
    { apply IH; [exact Hc|exact Hnz|rewrite Hzb; discriminate|].
      rewrite Hzb in *. rewrite zc_zero in Hf. cbn [length] in *. lia. }
    assert (Hza : zc ((askip, an) :: first') = 0) by (now apply zc_nonzero).
    destruct askip.
    { apply IH; [|exact Hnz|rewrite Hzb; discriminate|].
      - rewrite dens_cons, count_true_app, count_true_repeat in Hc. cbn [negb] in Hc. exact Hc.
      - rewrite Hzb, Hza in *. cbn [length] in Hf |- *. lia. }
    set (p := Nat.min an bn).
    assert (Hp : 1 <= p /\ p <= an /\ p <= bn /\ (an - p = 0 \/ bn - p = 0)) by (unfold p; lia).
    assert (Hc2 : count_true (dens ((false, an - p) :: first')) = length (dens ((bskip, bn - p) :: second'))).
    { rewrite !dens_cons, count_true_app, count_true_repeat, app_length, repeat_length in *.
      cbn [negb] in *. lia. }
    assert (Hz2 : zc ((false, an - p) :: first') + zc ((bskip, bn - p) :: second') >= 1).
    { destruct Hp as (_ & _ & _ & [H0|H0]); rewrite H0, zc_zero; lia. }
    assert (Hf2 : 2 * length ((false, an - p) :: first') + 2 * length ((bskip, bn - p) :: second')
                  - zc ((false, an - p) :: first') - zc ((bskip, bn - p) :: second') < fuel).
    { rewrite Hzb, Hza in Hf. cbn [length] in *. lia. }
    destruct bskip; (apply IH; [exact Hc2|exact Hnz|discriminate|exact Hf2]).
Qed.

Lemma and_then_sels_total first second :
  nonzero second -> count_true (dens first) = length (dens second) ->
  and_then_sels first second <> None.
Proof.
  intros Hnz Hc. unfold and_then_sels. apply and_then_go_total; [exact Hc| | |].
  - destruct second; [constructor|now inversion Hnz].
  - destruct second as [|[sk [|n]] s]; cbn [zc]; try discriminate.
    inversion Hnz as [|x y Hx Hy]. exfalso. apply Hx. reflexivity.
  - pose proof (zc_le first). pose proof (zc_le second). lia.
Qed.

(* ------------------------------------------------------------------ mask x selectors *)
Lemma dens_nil_forallb_zero l : dens l = [] -> forallb (fun s : sel => snd s =? 0) l = true.
Proof.
  induction l as [|[sk n] l IH]; intros H; [reflexivity|].
  rewrite dens_cons in H. apply app_eq_nil in H as [H1 H2].
  destruct n; [|discriminate]. cbn [forallb snd Nat.eqb andb]. now apply IH.
Qed.

Lemma and_then_mask_sels_total mask : forall other,
  count_true mask = length (dens other) -> and_then_mask_sels mask other <> None.
Proof.
  induction mask as [|b mask IH]; intros other Hc; cbn [and_then_mask_sels].
  - cbn [count_true] in Hc. rewrite dens_nil_forallb_zero; [discriminate|].
    destruct (dens other); [reflexivity|discriminate].
  - destruct b.
    + cbn [count_true] in Hc. pose proof (drop_zero_dens other) as Hd.
      destruct (drop_zero other) as [|[sk n] r] eqn:Ed.
      * cbn in Hd. rewrite <- Hd in Hc. cbn in Hc. lia.
      * pose proof (drop_zero_head _ _ _ _ Ed) as Hn.
        assert (Hc' : count_true mask = length (dens ((sk, n - 1) :: r))).
        { rewrite <- Hd, dens_cons, app_length, repeat_length in Hc.
          rewrite dens_cons, app_length, repeat_length. lia. }
        specialize (IH _ Hc'). destruct (and_then_mask_sels mask ((sk, n - 1) :: r)); [discriminate|contradiction].
    + cbn [count_true] in Hc. specialize (IH other Hc).
      destruct (and_then_mask_sels mask other); [discriminate|contradiction].
Qed.

(* ------------------------------------------------------------------ the run-length form of a bitmap has no empty run *)
Lemma slices_wf l : forall pos cur,
  (forall s, cur = Some s -> s < pos) ->
  Forall (fun r : nat * nat => fst r < snd r /\ snd r <= pos + length l) (slices_go l pos cur).
Proof.
  induction l as [|b l IH]; intros pos cur Hcur; cbn [slices_go length].
  - destruct cur as [s|]; [|constructor]. constructor; [|constructor]. cbn [fst snd].
    specialize (Hcur s eq_refl). lia.
  - assert (Hmono : forall P : nat * nat -> Prop, forall xs,
              Forall (fun r => fst r < snd r /\ snd r <= S pos + length l) xs ->
              Forall (fun r => fst r < snd r /\ snd r <= pos + S (length l)) xs).
    { intros _ xs. apply Forall_impl. intros a H. lia. }
    destruct b.
    + apply (Hmono (fun _ => True)). apply IH. intros s Hs.
      destruct cur as [s0|]; inversion Hs; subst; [specialize (Hcur s eq_refl)|]; lia.
    + destruct cur as [s|].
      * constructor; [cbn [fst snd]; specialize (Hcur s eq_refl); lia|].
        apply (Hmono (fun _ => True)). apply IH. intros s0 Hs0. discriminate.
      * apply (Hmono (fun _ => True)). apply IH. intros s0 Hs0. discriminate.
Qed.

Lemma m2s_go_nonzero sl : forall last_end total,
  Forall (fun r : nat * nat => fst r < snd r /\ snd r <= total) sl -> last_end <= total ->
  nonzero (m2s_go sl last_end total).
Proof.
  induction sl as [|[s e] sl IH]; intros last_end total Hwf Hle; cbn [m2s_go].
  - destruct (Nat.eqb_spec last_end total); [constructor|]. constructor; [cbn; lia|constructor].
  - inversion Hwf as [|x y [Hx1 Hx2] Hy]; subst. cbn [fst snd] in *.
    apply Forall_app. split.
    + destruct (Nat.ltb_spec last_end s); [|constructor]. constructor; [cbn; lia|constructor].
    + constructor; [cbn; lia|]. apply IH; [exact Hy|exact Hx2].
Qed.

Lemma mask_to_selectors_nonzero m : nonzero (mask_to_selectors m).
Proof.
  unfold mask_to_selectors, set_slices. destruct (length m =? 0); [constructor|].
  apply m2s_go_nonzero; [|lia]. apply (slices_wf m 0 None). intros s Hs. discriminate.
Qed.

(* ------------------------------------------------------------------ all pairings *)
Definition nonzero_rowsel (s : rowsel) : Prop := match s with Sels l => nonzero l | Mask _ => True end.

Theorem and_then_total a b :
  nonzero_rowsel b -> count_true (den a) = length (den b) -> and_then a b <> None.
Proof.
  destruct a as [f|m], b as [s|o]; cbn [and_then den nonzero_rowsel]; intros Hnz Hc.
  - pose proof (and_then_sels_total f s Hnz Hc). destruct (and_then_sels f s); [discriminate|contradiction].
  - assert (H : and_then_sels f (mask_to_selectors o) <> None).
    { apply and_then_sels_total; [apply mask_to_selectors_nonzero|now rewrite mask_to_selectors_dens]. }
    destruct (and_then_sels f (mask_to_selectors o)); [discriminate|contradiction].
  - pose proof (and_then_mask_sels_total m s Hc). destruct (and_then_mask_sels m s); [discriminate|contradiction].
  - pose proof (and_then_masks_total m o Hc). destruct (and_then_masks m o); [discriminate|contradiction].
Qed.

Example and_then_total_example :
  nonzero_rowsel (Sels [(false, 1); (true, 2); (false, 2)])
  /\ count_true (den (Sels [(true, 2); (false, 3); (true, 1); (false, 2)])) = length (den (Sels [(false, 1); (true, 2); (false, 2)]))
  /\ and_then (Sels [(true, 2); (false, 3); (true, 1); (false, 2)]) (Sels [(false, 1); (true, 2); (false, 2)])
     = Some (Sels [(true, 2); (false, 1); (true, 3); (false, 2)]).
Proof. split; [repeat constructor; cbn; discriminate|split; reflexivity]. Qed.

(* ------------------------------------------------------------------ the read plan can always be built *)
Lemma fcr_go_nonzero rs : forall last_end racc racc' le',
  fcr_go rs last_end racc = Some (racc', le') -> nonzero racc -> nonzero racc' /\ last_end <= le'.
Proof.
  induction rs as [|[s e] rs IH]; intros last_end racc racc' le' H Hnz; cbn [fcr_go] in H.
  - inversion H; subst. split; [exact Hnz|lia].
  - destruct (Nat.ltb_spec e s); [discriminate|].
    destruct (Nat.eqb_spec (e - s) 0) as [Hl|Hl]; [now apply IH in H|].
    destruct (Nat.compare_spec s last_end) as [Heq|Hlt|Hgt]; [|discriminate|].
    + destruct racc as [|[sk n] racc0].
      * apply IH in H; [split; [apply H|lia]|]. constructor; [exact Hl|constructor].
      * apply IH in H; [split; [apply H|lia]|]. inversion Hnz; subst. constructor; [cbn in *; lia|assumption].
    + apply IH in H; [split; [apply H|lia]|]. constructor; [exact Hl|]. constructor; [cbn; lia|exact Hnz].
Qed.

Lemma from_filters_nonzero filters l : from_filters filters = Some l -> nonzero l.
Proof.
  unfold from_filters, from_consecutive_ranges.
  destruct (fcr_go _ 0 []) as [[racc le]|] eqn:E; [|discriminate].
  apply fcr_go_nonzero in E as [Hnz _]; [|constructor].
  destruct (Nat.eqb_spec le (length (concat filters))) as [He|Hne].
  - intros H; inversion H. apply Forall_rev, Hnz.
  - destruct (Nat.ltb_spec (length (concat filters)) le) as [Hlt|Hge]; [discriminate|].
    intros H; inversion H. apply Forall_app. split; [apply Forall_rev, Hnz|].
    constructor; [cbn; lia|constructor].
Qed.

Lemma select_rows_full_length {A} l : forall rows : list A,
  length l <= length rows -> length (select_rows l rows) = count_true l.
Proof.
  induction l as [|b l IH]; intros [|r rs] H; cbn [select_rows count_true length] in *; try lia.
  destruct b; cbn [length]; rewrite IH by lia; reflexivity.
Qed.

(* selections never extend past the rows of the chosen row groups *)
Definition fits (sel : option rowsel) (rows : list Z) : Prop :=
  match sel with Some s => length (den s) <= length rows | None => True end.

Lemma with_predicate_total rows f sel :
  fits sel rows -> exists sel', with_predicate rows f sel = Some sel' /\ fits sel' rows.
Proof.
  intros Hfit. unfold with_predicate.
  set (current := match sel with Some s => select_rows (den s) rows | None => rows end).
  destruct (forallb (fun b => b) (map f current)); [eauto|].
  destruct (from_filters_dens [map f current]) as (l & Hl & Hdl).
  cbn [concat] in Hdl. rewrite app_nil_r in Hdl.
  assert (Hlen : forall s, sel = Some s -> length (map f current) = count_true (den s)).
  { intros s ->. rewrite map_length. apply select_rows_full_length. exact Hfit. }
  destruct sel as [[l0|m0]|].
  - rewrite Hl. cbn [option_map].
    assert (Ht : and_then (Sels l0) (Sels l) <> None).
    { apply and_then_total; [apply (from_filters_nonzero _ _ Hl)|]. cbn [den]. rewrite Hdl. symmetry. exact (Hlen (Sels l0) eq_refl). }
    destruct (and_then (Sels l0) (Sels l)) as [r|] eqn:Ea; [|contradiction].
    eexists; split; [reflexivity|]. cbn [fits] in *. apply den_and_then in Ea. rewrite Ea, spec_length. exact Hfit.
  - assert (Ht : and_then (Mask m0) (Mask (map f current)) <> None).
    { apply and_then_total; [exact I|]. cbn [den]. symmetry. exact (Hlen (Mask m0) eq_refl). }
    destruct (and_then (Mask m0) (Mask (map f current))) as [r|] eqn:Ea; [|contradiction].
    eexists; split; [reflexivity|]. cbn [fits] in *. apply den_and_then in Ea. rewrite Ea, spec_length. exact Hfit.
  - rewrite Hl. cbn [option_map]. eexists; split; [reflexivity|]. cbn [fits den]. rewrite Hdl, map_length. subst current. lia.
Qed.

Lemma with_predicates_total rows fs : forall sel,
  fits sel rows -> with_predicates rows fs sel <> None.
Proof.
  induction fs as [|f fs IH]; intros sel Hfit; cbn [with_predicates]; [discriminate|].
  destruct (match sel with Some s => selects_any s | None => true end); [|discriminate].
  destruct (with_predicate_total rows f sel Hfit) as (sel' & Hs & Hfit'). rewrite Hs. now apply IH.
Qed.

Theorem plan_read_total nullmod rg_counts chosen selection preds off lim :
  fits selection (rows_of rg_counts chosen) ->
  plan_read nullmod rg_counts chosen selection preds off lim
  = Some (reference_read nullmod rg_counts chosen (option_map den selection) preds off lim).
Proof.
  intros Hfit.
  destruct (plan_read nullmod rg_counts chosen selection preds off lim) as [ids|] eqn:E.
  - f_equal. now apply plan_read_refines.
  - exfalso. unfold plan_read in E.
    pose proof (with_predicates_total (rows_of rg_counts chosen) (map (eval_pred nullmod) preds) selection Hfit) as Ht.
    destruct (with_predicates _ _ selection); [discriminate|contradiction].
Qed.

(* non-vacuity: a concrete plan (two row groups, run-length selection, one predicate, offset, limit) *)
Example plan_read_example :
  plan_read 3 [5; 4]%Z [0; 1] (Some (Sels (from_iter [(false, 3); (true, 2); (false, 4)])))
    [{| p_kind := 0; p_1 := 2; p_2 := 0 |}] (Some 1) (Some 2) = Some [5; 7]%Z.
Proof. vm_compute. reflexivity. Qed.
