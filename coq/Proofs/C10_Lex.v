(* C10 — the tuple order of lexsort (LexicographicalComparator::compare: first non-Equal column
   comparator) is a total preorder on row numbers. *)
From Coq Require Import List ZArith Lia Bool Arith.
From AV Require Import Model.C10_Order Proofs.C10_Cmp Proofs.C10_SortImpl.
Import ListNotations.

Lemma tpo_then {A} (c1 c2 : A -> A -> comparison) : tpo c1 -> tpo c2 ->
  tpo (fun i j => match c1 i j with Eq => c2 i j | r => r end).
Proof.
  intros H1 H2. pose proof H1 as (R1 & A1 & T1). destruct H2 as (R2 & A2 & T2). split; [|split].
  - intros i. now rewrite R1.
  - intros i j. rewrite (A1 i j). destruct (c1 i j); cbn; [apply A2|reflexivity|reflexivity].
  - intros i j k. destruct (c1 i j) eqn:E1; try congruence.
    + rewrite (tpo_eq_l c1 H1 i j k E1). destruct (c1 j k); try congruence. apply T2.
    + intros _. destruct (c1 j k) eqn:E2; try congruence; intros _.
      * assert (X : c1 i k = Lt) by (apply (tpo_lt_le c1 H1 i j k); congruence). rewrite X. congruence.
      * assert (X : c1 i k = Lt) by (apply (tpo_lt_le c1 H1 i j k); congruence). rewrite X. congruence.
Qed.

Theorem lex_idx_tpo (cols : list column) : tpo (lex_idx cols).
Proof.
  induction cols as [|[[nf desc] a] r IH].
  - split; [intros i; reflexivity|split; [intros i j; reflexivity|intros i j k; cbn; congruence]].
  - cbn [lex_idx]. apply tpo_then; [|exact IH].
    unfold cmp_idx. apply (tpo_on (fun i => slot a i)). apply cmp_opts_tpo.
Qed.
