(* C01: on a node accepted by the specification validator every accessor read stays inside its
   buffer and every dereferenced child slot exists. *)
From Coq Require Import List Arith NArith ZArith Lia Bool ZifyN ZifyNat ZifyBool.
From AV Require Import Base.ListX Base.Bytes Model.C09_Layout Model.C01_Access Proofs.C09_Accept.
Import ListNotations.
Ltac Zify.zify_post_hook ::= Z.div_mod_to_equations.

Lemma spec_nulls_read a i : spec_nulls a = true -> (i < p_len a)%nat -> null_read_in_bounds a i = true.
Proof.
  unfold spec_nulls, null_read_in_bounds. destruct (p_nulls a) as [nb|]; [|reflexivity].
  intros H Hi. split_andb. apply Nat.ltb_lt.
  repeat match goal with H : (_ =? _)%nat = true |- _ => apply Nat.eqb_eq in H | H : (_ <=? _)%nat = true |- _ => apply Nat.leb_le in H end.
  lia.
Qed.

Ltac unb := repeat match goal with
  | H : (_ =? _)%nat = true |- _ => apply Nat.eqb_eq in H
  | H : (_ <=? _)%nat = true |- _ => apply Nat.leb_le in H
  | H : (_ <=? _)%Z = true |- _ => apply Z.leb_le in H
  | H : (_ <=? _)%N = true |- _ => apply N.leb_le in H end.

(* fixed-width layouts: Boolean, primitives, FixedSizeBinary, dictionary keys, views, union type ids *)
Lemma own_reads_fixed a i : spec_node a = true -> (i < p_len a)%nat ->
  match p_ty a with TBool | TFixed _ | TFixedBin _ | TDict _ _ _ | TView _ => True | _ => False end ->
  forallb (read_in_bounds a) (own_reads a i) = true.
Proof.
  destruct a as [ty len off nulls bufs kids]. unfold spec_node, own_reads. cbn [p_ty p_len p_off p_nulls p_bufs p_kids].
  intros H Hi Hty. destruct ty; try contradiction; split_andb; unb;
    cbn [forallb read_in_bounds andb]; rewrite andb_true_r; apply Nat.leb_le; unfold buf in *; cbn [p_bufs] in *; first [nia | lia].
Qed.

(* monotone offsets: every pair (offs[i], offs[i+1]) satisfies 0 <= s <= e <= last *)
Lemma monotone_nth l : forall prev i, monotone_from prev l = true -> (S i < length l)%nat ->
  (prev <= nth i l 0 /\ nth i l 0 <= nth (S i) l 0 /\ nth (S i) l 0 <= last l 0)%Z.
Proof.
  induction l as [|x r IH]; intros prev i H Hi; [cbn in Hi; lia|].
  cbn [monotone_from] in H. apply andb_true_iff in H. destruct H as [H1 H2]. apply Z.leb_le in H1.
  destruct r as [|y r']; [cbn in Hi; lia|].
  destruct i as [|i].
  - cbn [nth]. cbn [monotone_from] in H2. apply andb_true_iff in H2. destruct H2 as [H3 H4]. apply Z.leb_le in H3.
    split; [exact H1|]. split; [exact H3|].
    change (last (x :: y :: r') 0%Z) with (last (y :: r') 0%Z).
    clear -H4. revert y H4. induction r' as [|z r'' IHr]; intros y H4; [cbn; lia|].
    cbn [monotone_from] in H4. apply andb_true_iff in H4. destruct H4 as [H5 H6]. apply Z.leb_le in H5.
    change (last (y :: z :: r'') 0%Z) with (last (z :: r'') 0%Z). specialize (IHr z H6). lia.
  - cbn [length] in Hi. specialize (IH x i H2 ltac:(cbn [length]; lia)).
    change (nth (S i) (x :: y :: r') 0%Z) with (nth i (y :: r') 0%Z).
    change (nth (S (S i)) (x :: y :: r') 0%Z) with (nth (S i) (y :: r') 0%Z).
    change (last (x :: y :: r') 0%Z) with (last (y :: r') 0%Z). lia.
Qed.

Lemma offsets_of_nth a w i : (i <= p_len a)%nat -> nth i (offsets_of a w) 0%Z = sle_at (buf a 0) w (p_off a + i).
Proof. intros Hi. unfold offsets_of. rewrite nth_map_seq by lia. reflexivity. Qed.

Lemma offsets_of_length a w : length (offsets_of a w) = S (p_len a).
Proof. unfold offsets_of. now rewrite map_length, seq_length. Qed.

(* variable-size binary: both the two offsets read and the value bytes are in bounds *)
Lemma spec_offsets_pair a w limit i : spec_offsets a w limit = true -> (i < p_len a)%nat ->
  ((p_off a + i) * w + 2 * w <= length (buf a 0))%nat /\
  (0 <= sle_at (buf a 0) w (p_off a + i) <= sle_at (buf a 0) w (p_off a + i + 1))%Z /\
  (sle_at (buf a 0) w (p_off a + i + 1) <= Z.of_nat limit)%Z.
Proof.
  unfold spec_offsets. intros H Hi.
  destruct (Nat.eqb (p_len a) 0 && Nat.eqb (length (buf a 0)) 0)%bool eqn:E.
  { apply andb_true_iff in E. destruct E as [E _]. apply Nat.eqb_eq in E. lia. }
  split_andb. unb.
  pose proof (monotone_nth (offsets_of a w) 0 i ltac:(assumption) ltac:(rewrite offsets_of_length; lia)) as (A & B & C).
  rewrite !offsets_of_nth in * by lia.
  replace (p_off a + S i)%nat with (p_off a + i + 1)%nat in * by lia.
  repeat split; try lia. nia.
Qed.

Lemma own_reads_binary large utf8 len off nulls bufs kids i :
  let a := PArr (TBin large utf8) len off nulls bufs kids in
  spec_node a = true -> (i < len)%nat -> forallb (read_in_bounds a) (own_reads a i) = true.
Proof.
  intros a H Hi. subst a. unfold spec_node in H. cbn [p_ty p_len p_off p_nulls p_bufs p_kids] in H.
  split_andb.
  match goal with H : (if spec_offsets ?x ?w ?l then _ else false) = true |- _ =>
    destruct (spec_offsets x w l) eqn:Eo; [|discriminate];
    destruct (spec_offsets_pair x w l i Eo Hi) as (A & B & C) end.
  cbn [p_off p_len] in *.
  unfold own_reads. cbn [p_ty p_off forallb read_in_bounds].
  apply andb_true_iff; split; [apply Nat.leb_le; lia|].
  apply andb_true_iff; split; [|reflexivity]. apply Nat.leb_le. lia.
Qed.

(* lists: the child range [offs[i], offs[i+1]) exists in the child *)
Lemma child_slots_list large nullable c len off nulls bufs kids i :
  let a := PArr (TList large nullable c) len off nulls bufs kids in
  spec_node a = true -> (i < len)%nat ->
  forallb (read_in_bounds a) (own_reads a i) = true /\ forallb (child_slots_in_bounds a) (child_slots a i) = true.
Proof.
  intros a H Hi. subst a. unfold spec_node in H. cbn [p_ty p_len p_off p_nulls p_bufs p_kids] in H.
  split_andb.
  match goal with H : spec_offsets ?x ?w ?l = true |- _ => destruct (spec_offsets_pair x w l i H Hi) as (A & B & C) end.
  cbn [p_off p_len] in *. unfold own_reads, child_slots. cbn [p_ty p_off forallb read_in_bounds child_slots_in_bounds].
  split.
  - rewrite andb_true_r. apply Nat.leb_le. lia.
  - rewrite andb_true_r. repeat (apply andb_true_iff; split); apply Z.leb_le; lia.
Qed.

(* dictionaries: the key of a valid slot indexes an existing dictionary entry *)
Lemma child_slots_dict kw ks v len off nulls bufs kids i :
  let a := PArr (TDict kw ks v) len off nulls bufs kids in
  spec_node a = true -> (i < len)%nat -> forallb (child_slots_in_bounds a) (child_slots a i) = true.
Proof.
  intros a H Hi. subst a. unfold spec_node in H. cbn [p_ty p_len p_off p_nulls p_bufs p_kids] in H.
  split_andb.
  match goal with H : forallb _ (seq 0 len) = true |- _ => rename H into Hk end.
  rewrite forallb_forall in Hk; specialize (Hk i ltac:(apply in_seq; lia)).
  unfold child_slots. cbn [p_ty p_off].
  unfold key_in_range in *. cbn [p_off] in *.
  destruct (slot_valid (PArr (TDict kw ks v) len off nulls bufs kids) i); [|reflexivity].
  cbn [negb orb] in *. apply andb_true_iff in Hk. destruct Hk as [H1 H2].
  cbn [forallb child_slots_in_bounds]. rewrite andb_true_r.
  repeat (apply andb_true_iff; split); try apply Z.leb_le; apply Z.leb_le in H1; apply Z.ltb_lt in H2; lia.
Qed.

(* fixed-size lists and structs: the child slots addressed through the offset exist *)
Lemma child_slots_fixed_list n nullable c len off nulls bufs kids i :
  let a := PArr (TFixedList n nullable c) len off nulls bufs kids in
  spec_node a = true -> (i < len)%nat -> forallb (child_slots_in_bounds a) (child_slots a i) = true.
Proof.
  intros a H Hi. subst a. unfold spec_node in H. cbn [p_ty p_len p_off p_nulls p_bufs p_kids] in H.
  split_andb. unb. unfold child_slots. cbn [p_ty p_off forallb child_slots_in_bounds]. rewrite andb_true_r.
  repeat (apply andb_true_iff; split); apply Z.leb_le; try nia.
Qed.
