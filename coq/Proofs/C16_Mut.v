(* C16 — which operations change region content: only those acting on a region all of whose
   references are held by the acting object (mutation requires unique ownership), hence what every
   OTHER live object shows is unchanged (immutability). *)
From Coq Require Import List Arith ZArith Bool Lia.
From AV Require Import Model.C16_Own Proofs.C16_Inv Proofs.C16_Ops.
Import ListNotations.

(* all references to region [id] are held by the object in slot [i] *)
Definition Uniq (s : state) (i id : nat) : Prop :=
  0 < count_occ Nat.eq_dec (acts s i) id /\ cnt s id = count_occ Nat.eq_dec (acts s i) id.

(* objects that own their memory exclusively by type: MutableBuffer (2), Vec (3), PrimitiveBuilder (7) *)
Definition is_excl_kind (k : nat) : bool := (k =? 2) || (k =? 3) || (k =? 7).
Definition Excl (s : state) : Prop :=
  forall i o id, get_slot s i = Some o -> is_excl_kind (okind o) = true -> In id (obj_refs o) -> cnt s id = 1.

Lemma count_flat_map_nth {A} (f : A -> list nat) l j x id :
  nth_error l j = Some x -> count_occ Nat.eq_dec (f x) id <= count_occ Nat.eq_dec (flat_map f l) id.
Proof.
  revert j; induction l as [|h t IH]; intros [|j] H; cbn in *; try discriminate.
  - injection H as ->. rewrite count_occ_app. lia.
  - rewrite count_occ_app. specialize (IH j H). lia.
Qed.

Lemma acts_le_cnt s i id : count_occ Nat.eq_dec (acts s i) id <= cnt s id.
Proof.
  unfold acts, cnt, all_refs. rewrite count_occ_app.
  destruct (nth_error (slots s) i) as [so|] eqn:E.
  - rewrite (nth_error_nth _ _ _ E). pose proof (count_flat_map_nth slot_refs (slots s) i so id E). lia.
  - rewrite nth_overflow by (apply nth_error_None; exact E). cbn. lia.
Qed.

Lemma uniq_of_cnt1 s i id : In id (acts s i) -> cnt s id = 1 -> Uniq s i id.
Proof.
  intros Hin Hc. apply (count_occ_In Nat.eq_dec) in Hin. pose proof (acts_le_cnt s i id). unfold Uniq. lia.
Qed.

(* ------------------------------------------------------------------ reg_bytes through the combinators *)
Lemma rb_set_slot i o s id : reg_bytes (set_slot i o s) id = reg_bytes s id. Proof. reflexivity. Qed.
Lemma rb_push_slot o s id : reg_bytes (push_slot o s) id = reg_bytes s id. Proof. reflexivity. Qed.
Lemma rb_add_node n s id : id < length (nodes s) -> reg_bytes (add_node n s) id = reg_bytes s id.
Proof. intros H. unfold reg_bytes, get_reg, add_node. cbn [nodes]. rewrite nth_error_app1 by exact H. reflexivity. Qed.
Lemma rb_upd_other s id' n' id p : id <> id' ->
  reg_bytes (mkS (upd_nth id' n' (nodes s)) (slots s) p) id = reg_bytes s id.
Proof. intros H. unfold reg_bytes, get_reg. cbn [nodes]. rewrite nth_error_upd_nth_ne by auto. reflexivity. Qed.
Lemma rb_set_resv id' v s id : reg_bytes (set_resv id' v s) id = reg_bytes s id.
Proof.
  unfold set_resv. destruct (get_reg s id') as [r|] eqn:E; [|reflexivity].
  destruct (Nat.eq_dec id id') as [->|Hne]; [|apply rb_upd_other; auto].
  unfold reg_bytes at 1, get_reg at 1. cbn [nodes].
  unfold get_reg in E. destruct (nth_error (nodes s) id') as [[r'|e]|] eqn:E2; try discriminate. injection E as ->.
  rewrite nth_error_upd_nth_eq by (apply nth_error_Some; congruence).
  unfold reg_bytes, get_reg. rewrite E2. reflexivity.
Qed.
Lemma rb_write_reg id' b s id : id <> id' -> reg_bytes (write_reg id' b s) id = reg_bytes s id.
Proof.
  intros H. unfold write_reg. destruct (get_reg s id'); [|reflexivity]. unfold set_reg. apply rb_upd_other. auto.
Qed.

Section Writes.
  Variables (s : state) (i : nat).

  Record Wr (s1 : state) : Prop := mkWr {
    w_len : length (nodes s) <= length (nodes s1);
    w_bytes : forall id, id < length (nodes s) -> reg_bytes s1 id = reg_bytes s id \/ Uniq s i id }.

  Lemma wr_refl : Wr s. Proof. constructor; auto. Qed.
  Lemma wr_set_slot j o s1 : Wr s1 -> Wr (set_slot j o s1).
  Proof. intros [L B]. constructor; auto. Qed.
  Lemma wr_push_slot o s1 : Wr s1 -> Wr (push_slot o s1).
  Proof. intros [L B]. constructor; auto. Qed.
  Lemma wr_add_node n s1 : Wr s1 -> Wr (add_node n s1).
  Proof.
    intros [L B]. constructor.
    - unfold add_node. cbn [nodes]. rewrite app_length. lia.
    - intros id H. rewrite rb_add_node by lia. auto.
  Qed.
  Lemma wr_set_resv id v s1 : Wr s1 -> Wr (set_resv id v s1).
  Proof. intros [L B]. constructor; [rewrite set_resv_len; auto|]. intros id' H. rewrite rb_set_resv. auto. Qed.
  Lemma wr_write_reg id b s1 : Wr s1 -> (id < length (nodes s) -> Uniq s i id) -> Wr (write_reg id b s1).
  Proof.
    intros [L B] H. constructor; [rewrite write_reg_len; auto|].
    intros id' H'. destruct (Nat.eq_dec id' id) as [->|Hne]; [right; auto|]. rewrite rb_write_reg by auto. auto.
  Qed.
  Lemma wr_truncate id n s1 : Wr s1 -> (id < length (nodes s) -> Uniq s i id) -> Wr (truncate_reg s1 id n).
  Proof. intros. unfold truncate_reg. apply wr_write_reg; auto. Qed.
  Lemma wr_fresh_write b s1 : Wr s1 -> length (nodes s) <= next_id s1 -> forall n, Wr (write_reg (next_id s1) b (add_node n s1)).
  Proof. intros W L n. apply wr_write_reg; [apply wr_add_node; auto|]. intros. lia. Qed.

  Lemma wr_sliced s1 n : Wr s1 -> Wr (fst (sliced s1 n)).
  Proof. intros W. unfold sliced. destruct (_ =? _); cbn [fst]; [auto|apply wr_add_node; auto]. Qed.
  Lemma wr_export s1 k c hs : Wr s1 -> Wr (fst (export_arr s1 k c hs)).
  Proof.
    intros W. unfold export_arr. destruct (filter_nulls s1 hs) as [|v [|n [|]]]; cbn [fst]; try (apply wr_add_node; auto).
    match goal with |- context [let '(_, _) := ?X in _] => remember X as P eqn:EP end.
    assert (HP : Wr (fst P)).
    { rewrite EP. destruct (_ =? hbo n); [cbn; auto|]. destruct (_ =? 0); [apply wr_sliced; auto|cbn [fst]; apply wr_add_node; auto]. }
    destruct P as [s1' nb]. cbn [fst] in *. apply wr_add_node. auto.
  Qed.
  Lemma wr_import_buf s1 e src nb : Wr s1 -> Wr (fst (import_buf s1 e src nb)).
  Proof. intros W. unfold import_buf. cbn [fst]. apply wr_add_node; auto. Qed.
  Lemma wr_import s1 e : Wr s1 -> Wr (fst (import_arr s1 e)).
  Proof.
    intros W. unfold import_arr. destruct (get_exp s1 e) as [ex|]; [|auto].
    destruct (e_bufs ex) as [|v rest]; [auto|].
    match goal with |- context [let '(_, _) := ?X in _] => remember X as P eqn:EP end.
    assert (HP : Wr (fst P)).
    { rewrite EP. destruct (_ =? 0); [cbn [fst]; apply wr_add_node; auto|apply wr_import_buf; auto]. }
    destruct P as [s1' hv]. cbn [fst] in *. destruct rest as [|n rest']; [auto|].
    pose proof (wr_import_buf s1' e n (ceil8 (e_len ex + e_off ex)) HP) as W2.
    destruct (import_buf s1' e n (ceil8 (e_len ex + e_off ex))) as [s2 hn]. auto.
  Qed.
  Lemma wr_claim_regs ids s1 : Wr s1 -> Wr (claim_regs ids s1).
  Proof. unfold claim_regs. revert s1; induction ids as [|id t IH]; intros s1 W; [auto|]. cbn [fold_left]. apply IH. apply wr_set_resv. auto. Qed.
End Writes.

(* ------------------------------------------------------------------ guards *)
Lemma into_mutable_ok_cnt s h c : into_mutable_ok s h c = true -> c = 1.
Proof. unfold into_mutable_ok. intros H. apply andb_true_iff in H as [H _]. apply andb_true_iff in H as [_ H]. apply Nat.eqb_eq. auto. Qed.
Lemma into_vec_ok_cnt s h e c : into_vec_ok s h e c = true -> c = 1.
Proof. unfold into_vec_ok. intros H. apply andb_true_iff in H as [_ H]. apply Nat.eqb_eq. auto. Qed.

Lemma slot_1_acts s i k h : slot_1 s i k = Some h -> acts s i = [hreg h].
Proof. intros H. apply slot_1_some in H as (o & Ho & _ & E). rewrite (get_slot_acts _ _ _ Ho). unfold obj_refs. rewrite E. reflexivity. Qed.
Lemma slot_k_acts s i k hs : slot_k s i k = Some hs -> acts s i = map hreg hs.
Proof. intros H. apply slot_k_some in H as (o & Ho & _ & E). rewrite (get_slot_acts _ _ _ Ho). unfold obj_refs. rewrite E. reflexivity. Qed.

Section OpWrites.
  Variable s : state.
  Hypothesis X : Excl s.

  Ltac nowrite := repeat first [apply wr_refl | apply wr_set_slot | apply wr_push_slot | apply wr_add_node | apply wr_set_resv
                               | apply wr_sliced | apply wr_export | apply wr_import | apply wr_claim_regs].

  Lemma wr_na0 i : Wr s i (fst (na0 s)). Proof. apply wr_refl. Qed.
  Lemma wr_na1 i : Wr s i (fst (na1 s)). Proof. cbn. nowrite. Qed.
  Hint Resolve wr_na0 wr_na1 wr_refl : c16w.

  Lemma wr_new_std i e d : Wr s i (fst (ex_new_std s e d)).
  Proof. unfold ex_new_std. destruct (_ && _); [cbn [fst]; nowrite|auto with c16w]. Qed.
  Lemma wr_new_cust i c d : Wr s i (fst (ex_new_cust s c d)).
  Proof. unfold ex_new_cust. cbn [fst]. nowrite. Qed.
  Lemma wr_new_mut i c d : Wr s i (fst (ex_new_mut s c d)).
  Proof. unfold ex_new_mut. destruct (_ <=? _); [cbn [fst]; nowrite|auto with c16w]. Qed.
  Lemma wr_clone i : Wr s i (fst (ex_clone s i)).
  Proof. unfold ex_clone. destruct (get_slot s i) as [o|]; [|auto with c16w]. destruct (is_shared_kind _); [cbn [fst]; nowrite|auto with c16w]. Qed.
  Lemma wr_slice i a b : Wr s i (fst (ex_slice s i a b)).
  Proof.
    unfold ex_slice. destruct (get_slot s i) as [o|]; [|auto with c16w].
    destruct (okind o) as [|[|[|[|[|[|[|k]]]]]]]; auto with c16w; destruct (ohs o) as [|v rest]; auto with c16w;
      try (destruct rest; auto with c16w); destruct (_ <=? _); auto with c16w; cbn [fst]; nowrite.
  Qed.
  Lemma wr_drop i : Wr s i (fst (ex_drop s i)).
  Proof. unfold ex_drop. destruct (get_slot s i); [cbn [fst]; nowrite|auto with c16w]. Qed.
  Lemma wr_into_mutable i : Wr s i (fst (ex_into_mutable s i)).
  Proof.
    unfold ex_into_mutable. destruct (slot_1 s i 1) as [h|] eqn:E; [|auto with c16w].
    destruct (into_mutable_ok s h _) eqn:G; [|cbn; auto with c16w]. cbn [fst].
    apply wr_set_slot. apply wr_truncate; [apply wr_refl|]. intros _.
    apply uniq_of_cnt1; [rewrite (slot_1_acts _ _ _ _ E); left; auto|eapply into_mutable_ok_cnt; eauto].
  Qed.
  Lemma wr_freeze i k : Wr s i (fst (ex_freeze s i k)).
  Proof. unfold ex_freeze. destruct (slot_1 s i k); [cbn [fst]; nowrite|auto with c16w]. Qed.
  Lemma wr_write i k pos v : is_excl_kind k = true -> Wr s i (fst (ex_write s i k pos v)).
  Proof.
    intros Hk. unfold ex_write. destruct (slot_k s i k) as [[|h t]|] eqn:E; auto with c16w.
    destruct (_ <? _); auto with c16w. cbn [fst]. apply wr_write_reg; [apply wr_refl|]. intros _.
    pose proof (slot_k_acts _ _ _ _ E) as Ha. apply slot_k_some in E as (o & Ho & Hko & Eo).
    apply uniq_of_cnt1; [rewrite Ha; left; auto|].
    apply (X i o (hreg h) Ho); [rewrite Hko; auto|]. unfold obj_refs. rewrite Eo. left. auto.
  Qed.
  Lemma wr_into_vec i e : Wr s i (fst (ex_into_vec s i e)).
  Proof.
    unfold ex_into_vec. destruct (slot_1 s i 1) as [h|] eqn:E; [|auto with c16w].
    destruct (_ || _); [|auto with c16w]. destruct (into_vec_ok s h e _) eqn:G; [|cbn; auto with c16w]. cbn [fst].
    apply wr_set_slot. apply wr_set_resv. apply wr_truncate; [apply wr_refl|]. intros _.
    apply uniq_of_cnt1; [rewrite (slot_1_acts _ _ _ _ E); left; auto|eapply into_vec_ok_cnt; eauto].
  Qed.
  Lemma wr_wrap_arr i a b : Wr s i (fst (ex_wrap_arr s i a b)).
  Proof.
    unfold ex_wrap_arr. destruct (slot_1 s i 1); [|auto with c16w]. destruct (_ && _); [|auto with c16w].
    destruct (b =? 1); [destruct (slot_1 s a 5); [destruct (_ && _)|]|]; auto with c16w; cbn [fst]; nowrite.
  Qed.
  Lemma wr_wrap_barr i a b : Wr s i (fst (ex_wrap_barr s i a b)).
  Proof.
    unfold ex_wrap_barr. destruct (slot_1 s i 5); [|auto with c16w].
    destruct (b =? 1); [destruct (slot_1 s a 5); [destruct (_ && _)|]|]; auto with c16w; cbn [fst]; nowrite.
  Qed.
  Lemma wr_wrap_bits i a b : Wr s i (fst (ex_wrap_bits s i a b)).
  Proof. unfold ex_wrap_bits. destruct (slot_1 s i 1); [|auto with c16w]. destruct (_ <=? _); [cbn [fst]; nowrite|auto with c16w]. Qed.
  Lemma wr_finish i : Wr s i (fst (ex_finish s i)).
  Proof. unfold ex_finish. destruct (slot_k s i 7); [cbn [fst]; nowrite|auto with c16w]. Qed.
  Lemma wr_bit_assign i a w : Wr s i (fst (ex_bit_assign s i a w)).
  Proof.
    unfold ex_bit_assign. destruct (slot_1 s i 5) as [h|] eqn:E; [|auto with c16w].
    destruct (slot_1 s a 5); [|auto with c16w]. destruct (_ && _); [|auto with c16w].
    destruct (into_mutable_ok s h _) eqn:G; cbn [fst]; [|nowrite].
    assert (U : Uniq s i (hreg h)).
    { apply uniq_of_cnt1; [rewrite (slot_1_acts _ _ _ _ E); left; auto|eapply into_mutable_ok_cnt; eauto]. }
    apply wr_write_reg; [apply wr_truncate; [apply wr_refl|auto]|auto].
  Qed.
  Lemma wr_ex_export i : Wr s i (fst (ex_export s i)).
  Proof.
    unfold ex_export. destruct (get_slot s i) as [o|]; [|auto with c16w]. destruct (_ || _); [|auto with c16w].
    pose proof (wr_export s i s (okind o) true (ohs o) (wr_refl s i)) as W.
    destruct (export_arr s (okind o) true (ohs o)) as [s1 e]. cbn [fst] in *. nowrite. auto.
  Qed.
  Lemma wr_ex_import i : Wr s i (fst (ex_import s i)).
  Proof.
    unfold ex_import. destruct (slot_1 s i 8) as [h|]; [|auto with c16w].
    pose proof (wr_import s i s (hreg h) (wr_refl s i)) as W.
    destruct (import_arr s (hreg h)) as [s1 o]. cbn [fst] in *. nowrite. auto.
  Qed.
  Lemma wr_claim i : Wr s i (fst (ex_claim s i)).
  Proof.
    unfold ex_claim. destruct (get_slot s i) as [o|]; [|auto with c16w]. destruct (_ || _); [|auto with c16w].
    destruct (all_capk s _); [cbn [fst]; nowrite|auto with c16w].
  Qed.
  Lemma wr_stream_new i a b : Wr s i (fst (ex_stream_new s i a b)).
  Proof.
    unfold ex_stream_new. destruct (slot_k s i 4); [|auto with c16w].
    destruct (b =? 1); [destruct (slot_k s a 4)|]; auto with c16w; cbn [fst]; nowrite.
  Qed.
  Lemma wr_stream_next i : Wr s i (fst (ex_stream_next s i)).
  Proof.
    unfold ex_stream_next. destruct (get_slot s i) as [o|]; [|auto with c16w]. destruct (_ =? 9); [|auto with c16w].
    destruct (oaux o) as [|k ks]; [cbn; nowrite|].
    pose proof (wr_export s i s 4 false (firstn k (ohs o)) (wr_refl s i)) as W.
    destruct (export_arr s 4 false (firstn k (ohs o))) as [s1 e]. cbn [fst] in *.
    pose proof (wr_import s i s1 e W) as W2. destruct (import_arr s1 e) as [s2 o2]. cbn [fst] in *. nowrite. auto.
  Qed.
  Lemma wr_take i nl : Wr s i (fst (ex_take s i nl)).
  Proof.
    unfold ex_take. destruct (get_slot s i) as [o|]; [|auto with c16w]. destruct (_ || _); [|auto with c16w].
    destruct (ohs o) as [|v [|n [|]]]; auto with c16w; destruct nl; auto with c16w; cbn [fst]; nowrite.
  Qed.
  Lemma wr_ex_truncate i a : Wr s i (fst (ex_truncate s i a)).
  Proof.
    unfold ex_truncate. destruct (slot_1 s i 2) as [h|] eqn:E; [|auto with c16w].
    destruct (_ <=? _); [|cbn; auto with c16w]. cbn [fst]. apply wr_set_slot.
    assert (W1 : Wr s i (truncate_reg s (hreg h) a)).
    { apply wr_truncate; [apply wr_refl|]. intros _.
      pose proof (slot_1_acts _ _ _ _ E) as Ha. apply slot_1_some in E as (o & Ho & Hko & Eo).
      apply uniq_of_cnt1; [rewrite Ha; left; auto|].
      apply (X i o (hreg h) Ho); [rewrite Hko; auto|]. unfold obj_refs. rewrite Eo. left. auto. }
    destruct (get_reg _ (hreg h)) as [r|]; [destruct (r_resv r)|]; auto. apply wr_set_resv. auto.
  Qed.
End OpWrites.

(* ------------------------------------------------------------------ the in-place kernels *)
Lemma filter_nulls_cases s hs :
  filter_nulls s hs = hs \/ exists v n, hs = [v; n] /\ filter_nulls s hs = [v].
Proof.
  unfold filter_nulls. destruct hs as [|v [|n [|]]]; auto. destruct (has_nulls s n); [auto|right; eauto].
Qed.

Section Unary.
  Variables (s : state) (i : nat).

  Lemma wr_builder_values s1 v : Wr s i s1 -> Uniq s i (hreg v) ->
    Wr s i (fst (builder_values s1 v))
    /\ (hreg (snd (builder_values s1 v)) < length (nodes s) -> Uniq s i (hreg (snd (builder_values s1 v)))).
  Proof.
    intros W U. unfold builder_values.
    assert (W1 : Wr s i (truncate_reg s1 (hreg v) (hlen v))) by (apply wr_truncate; auto).
    destruct (_ && _); cbn [fst snd hreg]; [auto|]. split; [apply wr_add_node; auto|].
    intros H. exfalso. unfold next_id in H. rewrite truncate_reg_len in H. pose proof (w_len _ _ _ W). lia.
  Qed.

  Lemma wr_into_builder hs : acts s i = map hreg hs ->
    Wr s i (ib_state (into_builder s hs))
    /\ (forall s1 v rest, into_builder s hs = IbOk s1 (v :: rest) -> Uniq s i (hreg v)).
  Proof.
    intros Ha. unfold into_builder.
    destruct (filter_nulls s hs) as [|v rest] eqn:Ef; [cbn; split; [apply wr_refl|discriminate]|].
    assert (Hvin : In v hs) by (eapply filter_nulls_incl; rewrite Ef; left; auto).
    assert (Hv_act : In (hreg v) (acts s i)) by (rewrite Ha; apply in_map; auto).
    destruct rest as [|n rest'].
    - (* no validity buffer (possibly filtered out) *)
      match goal with |- context [into_mutable_ok s v ?c] => destruct (into_mutable_ok s v c) eqn:G end;
        cbn [ib_state]; (split; [apply wr_refl|]); [|discriminate].
      intros s1 v1 rest1 E. injection E as <- <- <-.
      apply into_mutable_ok_cnt in G.
      destruct (filter_nulls_cases s hs) as [Hsame|(v0 & n0 & Hhs & Hf)].
      + (* hs = [v] *) rewrite Hsame in Ef. subst hs. cbn in G. apply uniq_of_cnt1; auto. lia.
      + rewrite Hf in Ef. injection Ef as ->. subst hs. cbn [map] in Ha. cbn in G.
        destruct (Nat.eqb_spec (hreg n0) (hreg v)) as [En|En].
        * unfold Uniq. rewrite Ha. cbn [count_occ]. rewrite En.
          destruct (Nat.eq_dec (hreg v) (hreg v)); [|congruence].
          pose proof (acts_le_cnt s i (hreg v)) as Hle. rewrite Ha in Hle. cbn [count_occ] in Hle. rewrite En in Hle.
          destruct (Nat.eq_dec (hreg v) (hreg v)); [|congruence]. lia.
        * apply uniq_of_cnt1; auto. lia.
    - assert (Hhs : hs = v :: n :: rest').
      { destruct (filter_nulls_cases s hs) as [Hsame|(v0 & n0 & _ & Hf)]; [congruence|]. rewrite Hf in Ef. discriminate. }
      assert (Hn_act : In (hreg n) (acts s i)) by (rewrite Ha, Hhs; right; left; auto).
      destruct (sliced s n) as [s1 nb] eqn:Es.
      assert (W1 : Wr s i s1).
      { pose proof (wr_sliced s i s n (wr_refl s i)) as W. rewrite Es in W. exact W. }
      destruct (negb (if negb (hbo n mod 8 =? 0) then true else into_mutable_ok s nb (cnt s (hreg n)))) eqn:Gn;
        [cbn [ib_state]; split; [auto|discriminate]|].
      apply negb_false_iff in Gn.
      (* writing the validity region *)
      assert (Unb : hreg nb < length (nodes s) -> Uniq s i (hreg nb)).
      { unfold sliced in Es. destruct (hbo n mod 8 =? 0) eqn:Eo.
        - injection Es as <- <-. cbn [hreg negb] in *. intros _. apply uniq_of_cnt1; auto. eapply into_mutable_ok_cnt; eauto.
        - injection Es as <- <-. cbn [hreg]. unfold next_id. lia. }
      set (s2 := truncate_reg s1 (hreg nb) (hlen nb)).
      assert (W2 : Wr s i s2) by (apply wr_truncate; auto).
      match goal with |- context [into_mutable_ok s v ?c] => destruct (into_mutable_ok s v c) eqn:G end;
        cbn [ib_state]; (split; [exact W2|]); [|discriminate].
      intros s3 v1 rest1 E. injection E as <- <- <-.
      apply into_mutable_ok_cnt in G.
      destruct (negb (hbo n mod 8 =? 0) && (hreg n =? hreg v)) eqn:Adj.
      + apply andb_true_iff in Adj as [_ En]. apply Nat.eqb_eq in En.
        unfold Uniq. rewrite Ha, Hhs. cbn [map count_occ]. rewrite En.
        destruct (Nat.eq_dec (hreg v) (hreg v)); [|congruence].
        pose proof (acts_le_cnt s i (hreg v)) as Hle. rewrite Ha, Hhs in Hle. cbn [map count_occ] in Hle. rewrite En in Hle.
        destruct (Nat.eq_dec (hreg v) (hreg v)); [|congruence]. lia.
      + apply uniq_of_cnt1; auto. lia.
  Qed.

  Lemma wr_unary code a b : Wr s i (fst (ex_unary s code i a b)).
  Proof.
    unfold ex_unary. destruct (slot_k s i 4) as [hs|] eqn:E; [|apply wr_refl].
    destruct (wr_into_builder hs (slot_k_acts _ _ _ _ E)) as (W1 & HU).
    destruct (into_builder s hs) as [s1 hs1|s1 hs1]; cbn [ib_state] in *; [|cbn [fst]; apply wr_set_slot; auto].
    destruct hs1 as [|v rest]; [apply wr_refl|].
    pose proof (HU s1 v rest eq_refl) as Uv.
    destruct (wr_builder_values s1 v W1 Uv) as (W2 & Uv').
    destruct (builder_values s1 v) as [s2 v']. cbn [fst snd] in *.
    destruct (code =? 16); [cbn [fst]; apply wr_set_slot; auto|].
    destruct (code =? 14); [cbn [fst]; apply wr_set_slot; apply wr_write_reg; auto|].
    destruct (try_lanes _ _ _ _); cbn [fst]; apply wr_set_slot; [apply wr_write_reg; auto|auto].
  Qed.
End Unary.

(* ------------------------------------------------------------------ all operations *)
Theorem exec_writes s p : Excl s -> Wr s (o_a p) (fst (exec s p)).
Proof.
  intros X. unfold exec. destruct p as [cd a b c tid data zb zc]. cbn [o_code o_a o_b o_c o_data o_zb o_zc].
  do 28 (destruct cd as [|cd];
    [first [apply wr_new_std | apply wr_new_cust | apply wr_new_mut | apply wr_clone | apply wr_slice | apply wr_drop
           | apply wr_into_mutable | apply wr_freeze | apply wr_into_vec | apply wr_wrap_arr | apply wr_wrap_bits
           | apply wr_wrap_barr | apply wr_unary | apply wr_finish | (apply wr_write; [exact X|reflexivity]) | apply wr_bit_assign
           | apply wr_ex_export | apply wr_ex_import | apply wr_claim | apply wr_stream_new | apply wr_stream_next
           | (apply wr_ex_truncate; exact X) | apply wr_take | (destruct (slot_k s a 2); apply wr_write; [exact X|reflexivity|exact X|reflexivity])]|]).
  apply wr_refl.
Qed.

(* a region whose content an operation changes is referenced only by the object the operation acts on *)
Theorem mutation_requires_unique_l s p id : Excl s -> id < length (nodes s) ->
  reg_bytes (step s p) id <> reg_bytes s id -> Uniq s (o_a p) id.
Proof.
  intros X Hid Hne. unfold step in Hne. rewrite settle_reg_bytes in Hne.
  destruct (w_bytes _ _ _ (exec_writes s p X) id Hid) as [H|H]; [contradiction|exact H].
Qed.

(* what an object shows depends only on the content of the regions it refers to *)
Lemma hbytes_ext s s' h : reg_bytes s' (hreg h) = reg_bytes s (hreg h) -> hbytes s' h = hbytes s h.
Proof. unfold hbytes. intros ->. reflexivity. Qed.
Lemma hbits_ext s s' h : reg_bytes s' (hreg h) = reg_bytes s (hreg h) -> hbits s' h = hbits s h.
Proof. unfold hbits. intros H. rewrite (hbytes_ext _ _ _ H). reflexivity. Qed.

Lemma view_ext s s' o : (forall id, In id (obj_refs o) -> reg_bytes s' id = reg_bytes s id) -> view s' o = view s o.
Proof.
  intros H. unfold view. destruct o as [k hs aux]. cbn [okind ohs]. unfold obj_refs in H. cbn [ohs] in H.
  destruct hs as [|h1 [|h2 [|h3 t]]].
  - destruct k as [|[|[|[|[|[|[|[|k]]]]]]]]; reflexivity.
  - assert (E1 : reg_bytes s' (hreg h1) = reg_bytes s (hreg h1)) by (apply H; left; auto).
    rewrite (hbytes_ext _ _ _ E1), (hbits_ext _ _ _ E1). reflexivity.
  - assert (E1 : reg_bytes s' (hreg h1) = reg_bytes s (hreg h1)) by (apply H; left; auto).
    assert (E2 : reg_bytes s' (hreg h2) = reg_bytes s (hreg h2)) by (apply H; right; left; auto).
    rewrite (hbytes_ext _ _ _ E1), (hbits_ext _ _ _ E1), (hbits_ext _ _ _ E2). reflexivity.
  - destruct k as [|[|[|[|[|[|[|[|k]]]]]]]]; reflexivity.
Qed.

Lemma count_two_slots s i j id : i <> j ->
  count_occ Nat.eq_dec (acts s i) id + count_occ Nat.eq_dec (acts s j) id <= cnt s id.
Proof.
  intros Hne. unfold cnt, all_refs, acts. rewrite count_occ_app.
  assert (G : forall l i j, i <> j ->
             count_occ Nat.eq_dec (slot_refs (nth i l None)) id + count_occ Nat.eq_dec (slot_refs (nth j l None)) id
             <= count_occ Nat.eq_dec (flat_map slot_refs l) id).
  { induction l as [|h t IH]; intros [|i'] [|j'] Hn; cbn [nth flat_map]; try (cbn; lia); rewrite ?count_occ_app.
    - pose proof (acts_le_cnt (mkS [] t 0%Z) j' id) as Hl. unfold acts, cnt, all_refs in Hl. cbn in Hl.
      rewrite app_nil_r in Hl. lia.
    - pose proof (acts_le_cnt (mkS [] t 0%Z) i' id) as Hl. unfold acts, cnt, all_refs in Hl. cbn in Hl.
      rewrite app_nil_r in Hl. lia.
    - assert (i' <> j') by lia. specialize (IH i' j' H). lia. }
  specialize (G (slots s) i j Hne). lia.
Qed.

(* IMMUTABILITY: an operation does not change what any live object other than the one it acts on shows *)
Theorem immutability_l s p j o : Excl s -> I1 s -> get_slot s j = Some o -> j <> o_a p ->
  view (step s p) o = view s o.
Proof.
  intros X H1 Hs Hne. apply view_ext. intros id Hin.
  assert (Hlt : id < length (nodes s)).
  { destruct (H1 id (get_slot_refs _ _ _ _ Hs Hin)) as (n & Hn & _). apply nth_error_Some. unfold node_at in Hn. congruence. }
  destruct (list_eq_dec Z.eq_dec (reg_bytes (step s p) id) (reg_bytes s id)) as [E|E]; [exact E|exfalso].
  destruct (mutation_requires_unique_l s p id X Hlt E) as [Hpos Hc].
  pose proof (count_two_slots s (o_a p) j id (not_eq_sym Hne)) as H2.
  rewrite (get_slot_acts _ _ _ Hs) in H2. apply (count_occ_In Nat.eq_dec) in Hin. lia.
Qed.
