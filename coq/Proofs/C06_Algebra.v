(* C06 — intersection, union, split_off, offset, limit, trim and the counters. *)
From Coq Require Import List Arith Lia Bool.
From AV Require Import Model.C06_RowSel Proofs.C06_Basics Proofs.C06_Construct.
Import ListNotations.

(* ------------------------------------------------------------------ intersection / union *)
Lemma zip_tail_nil_r f a : zip_tail f a [] = a.
Proof. destruct a; reflexivity. Qed.

Lemma zip_tail_run f x y n a b :
  zip_tail f (repeat x n ++ a) (repeat y n ++ b) = repeat (f x y) n ++ zip_tail f a b.
Proof. induction n as [|n IH]; cbn [repeat app zip_tail]; congruence. Qed.

Lemma zip_tail_comm f (Hf : forall x y, f x y = f y x) a : forall b, zip_tail f a b = zip_tail f b a.
Proof.
  induction a as [|x a IH]; intros [|y b]; cbn [zip_tail]; try reflexivity.
  rewrite Hf, IH. reflexivity.
Qed.

Lemma dens_split_head sk n p l : p <= n ->
  dens ((sk, n) :: l) = repeat (negb sk) p ++ dens ((sk, n - p) :: l).
Proof. intros H. rewrite !dens_cons, app_assoc. f_equal. now apply repeat_split. Qed.

Lemma isect_go_dens fuel : forall l r, length l + length r < fuel ->
  dens (isect_go fuel l r) = intersection_spec (dens l) (dens r).
Proof.
  unfold intersection_spec.
  induction fuel as [|fuel IH]; intros l r Hf; [lia|]. cbn [isect_go].
  destruct l as [|[ls ln] l']; [reflexivity|].
  destruct (Nat.eqb_spec ln 0) as [->|Hln].
  { rewrite IH by (cbn [length] in Hf; lia). reflexivity. }
  destruct r as [|[rs rn] r']; [now rewrite dens_nil, zip_tail_nil_r|].
  destruct (Nat.eqb_spec rn 0) as [->|Hrn].
  { rewrite IH by (cbn [length] in *; lia). reflexivity. }
  cbn [length] in Hf.
  destruct (Nat.ltb_spec ln rn) as [Hlt|Hge].
  - rewrite (dens_split_head rs rn ln) by lia. rewrite (dens_cons ls ln), zip_tail_run.
    destruct (negb ls && negb rs) eqn:Ek; rewrite dens_cons, IH by (cbn [length]; lia);
      cbn [negb]; reflexivity.
  - rewrite (dens_split_head ls ln rn) by lia. rewrite (dens_cons rs rn), zip_tail_run.
    destruct (negb ls && negb rs) eqn:Ek; rewrite dens_cons, IH by (cbn [length]; lia);
      cbn [negb]; reflexivity.
Qed.

Lemma union_go_dens fuel : forall l r, length l + length r < fuel ->
  dens (union_go fuel l r) = union_spec (dens l) (dens r).
Proof.
  unfold union_spec.
  induction fuel as [|fuel IH]; intros l r Hf; [lia|]. cbn [union_go].
  destruct l as [|[ls ln] l']; [reflexivity|].
  destruct (Nat.eqb_spec ln 0) as [->|Hln].
  { rewrite IH by (cbn [length] in Hf; lia). reflexivity. }
  destruct r as [|[rs rn] r']; [now rewrite dens_nil, zip_tail_nil_r|].
  destruct (Nat.eqb_spec rn 0) as [->|Hrn].
  { rewrite IH by (cbn [length] in *; lia). reflexivity. }
  cbn [length] in Hf.
  destruct (Nat.ltb_spec ln rn) as [Hlt|Hge].
  - rewrite (dens_split_head rs rn ln) by lia. rewrite (dens_cons ls ln), zip_tail_run.
    destruct ls, rs; cbn [andb negb orb]; rewrite dens_cons, IH by (cbn [length]; lia); reflexivity.
  - rewrite (dens_split_head ls ln rn) by lia. rewrite (dens_cons rs rn), zip_tail_run.
    destruct ls, rs; cbn [andb negb orb]; rewrite dens_cons, IH by (cbn [length]; lia); reflexivity.
Qed.

Lemma intersect_sels_dens l r : dens (intersect_sels l r) = intersection_spec (dens l) (dens r).
Proof. unfold intersect_sels. rewrite from_iter_dens. apply isect_go_dens. lia. Qed.

Lemma union_sels_dens l r : dens (union_sels l r) = union_spec (dens l) (dens r).
Proof. unfold union_sels. rewrite from_iter_dens. apply union_go_dens. lia. Qed.

Lemma zip_with_tail f a : forall b, length b <= length a ->
  zip_with f (firstn (length b) a) b ++ skipn (length b) a = zip_tail f a b.
Proof.
  induction a as [|x a IH]; intros [|y b] H; cbn [length] in *; try reflexivity; [lia|].
  cbn [firstn skipn zip_with zip_tail app]. f_equal. apply IH. lia.
Qed.

Lemma zip_with_eq_len f a : forall b, length a = length b -> zip_with f a b = zip_tail f a b.
Proof.
  induction a as [|x a IH]; intros [|y b] H; cbn [length] in *; try reflexivity; try discriminate.
  cbn [zip_with zip_tail]. f_equal. apply IH. lia.
Qed.

Lemma combine_masks_spec f (Hf : forall x y, f x y = f y x) l r :
  combine_masks f l r = zip_tail f l r.
Proof.
  unfold combine_masks.
  destruct (Nat.eqb_spec (length l) (length r)) as [He|Hne]; [now apply zip_with_eq_len|].
  destruct (Nat.ltb_spec (length r) (length l)) as [Hlt|Hge].
  - apply zip_with_tail. lia.
  - rewrite zip_with_tail by lia. now apply zip_tail_comm.
Qed.

Theorem den_intersection a b : den (intersection a b) = intersection_spec (den a) (den b).
Proof.
  destruct a as [l|l], b as [r|r]; cbn [intersection den selectors_of];
    rewrite ?intersect_sels_dens, ?mask_to_selectors_dens; try reflexivity.
  apply combine_masks_spec. apply andb_comm.
Qed.

Theorem den_union a b : den (union a b) = union_spec (den a) (den b).
Proof.
  destruct a as [l|l], b as [r|r]; cbn [union den selectors_of];
    rewrite ?union_sels_dens, ?mask_to_selectors_dens; try reflexivity.
  apply combine_masks_spec. apply orb_comm.
Qed.

(* ------------------------------------------------------------------ split_off *)
Lemma split_go_spec l : forall total n, total <= n ->
  match split_go l total n with
  | Some (h, t) => dens h ++ dens t = dens l /\ total + length (dens h) = n
  | None => total + length (dens l) <= n
  end.
Proof.
  induction l as [|[sk c] l IH]; intros total n Hle; cbn [split_go].
  - cbn. lia.
  - destruct (Nat.ltb_spec n (total + c)) as [Hlt|Hge].
    + split.
      * destruct (Nat.eqb_spec c (total + c - n)) as [He|Hne].
        -- rewrite <- He. reflexivity.
        -- rewrite (dens_cons sk (c - _)), dens_nil, app_nil_r, (dens_cons sk (total + c - n)), (dens_cons sk c), app_assoc.
           f_equal. rewrite <- repeat_app. f_equal. lia.
      * destruct (Nat.eqb_spec c (total + c - n)) as [He|Hne].
        -- cbn. lia.
        -- rewrite dens_cons, dens_nil, app_nil_r, repeat_length. lia.
    + specialize (IH (total + c) n Hge).
      destruct (split_go l (total + c) n) as [[h t]|].
      * destruct IH as [Hd Hl]. split.
        -- rewrite !dens_cons, <- app_assoc, Hd. reflexivity.
        -- rewrite dens_cons, app_length, repeat_length. lia.
      * rewrite dens_cons, app_length, repeat_length. lia.
Qed.

Lemma app_firstn_skipn_eq {A} (h t l : list A) n :
  h ++ t = l -> length h = n -> h = firstn n l /\ t = skipn n l.
Proof.
  intros <- <-. split.
  - rewrite firstn_app, Nat.sub_diag, firstn_all. cbn. now rewrite app_nil_r.
  - rewrite skipn_app, Nat.sub_diag, skipn_all. reflexivity.
Qed.

Theorem den_split_off s n :
  den (fst (split_off s n)) = firstn n (den s) /\ den (snd (split_off s n)) = skipn n (den s).
Proof.
  destruct s as [l|m]; cbn [split_off].
  - unfold split_off_sels. pose proof (split_go_spec l 0 n (Nat.le_0_l n)) as H.
    destruct (split_go l 0 n) as [[h t]|]; cbn [fst snd den].
    + destruct H as [Hd Hl]. apply app_firstn_skipn_eq; [exact Hd|lia].
    + cbn [Nat.add] in H. rewrite firstn_all2, skipn_all2 by exact H. split; reflexivity.
  - unfold split_off_mask. destruct (Nat.leb_spec (length m) n) as [Hle|Hgt]; cbn [fst snd den].
    + rewrite firstn_all2, skipn_all2 by exact Hle. split; reflexivity.
    + split; reflexivity.
Qed.

(* ------------------------------------------------------------------ offset *)
Lemma clear_first_false_run c : forall k rest,
  clear_first k (repeat false c ++ rest) = repeat false c ++ clear_first k rest.
Proof.
  induction c as [|c IH]; intros k rest; [reflexivity|].
  cbn [repeat app]. destruct k as [|k].
  - destruct rest; reflexivity.
  - cbn [clear_first]. now rewrite IH.
Qed.

Lemma clear_first_0 l : clear_first 0 l = l.
Proof. destruct l; reflexivity. Qed.

Lemma clear_first_true_run c : forall k rest,
  clear_first k (repeat true c ++ rest)
  = repeat false (Nat.min k c) ++ repeat true (c - k) ++ clear_first (k - c) rest.
Proof.
  induction c as [|c IH]; intros k rest.
  - cbn [repeat app Nat.min Nat.sub]. rewrite Nat.min_0_r, Nat.sub_0_r. reflexivity.
  - destruct k as [|k].
    + cbn [Nat.min Nat.sub repeat app]. now rewrite clear_first_0, clear_first_0.
    + cbn [repeat app clear_first]. rewrite IH. reflexivity.
Qed.

Lemma offset_go_spec l : forall selected skipped offset, selected <= offset ->
  match offset_go l selected skipped offset with
  | Some res => dens res = repeat false (skipped + selected) ++ clear_first (offset - selected) (dens l)
                /\ offset - selected < count_true (dens l)
  | None => count_true (dens l) <= offset - selected
  end.
Proof.
  induction l as [|[sk c] l IH]; intros selected skipped offset Hle; cbn [offset_go].
  - cbn. lia.
  - destruct sk.
    + specialize (IH selected (skipped + c) offset Hle). rewrite dens_cons. cbn [negb].
      rewrite count_true_app, count_true_repeat, clear_first_false_run.
      destruct (offset_go l selected (skipped + c) offset); [|exact IH].
      destruct IH as [Hd Hc]. split; [|exact Hc].
      rewrite Hd, app_assoc, <- repeat_app. do 2 f_equal. lia.
    + rewrite dens_cons. cbn [negb]. rewrite count_true_app, count_true_repeat, clear_first_true_run.
      destruct (Nat.ltb_spec offset (selected + c)) as [Hlt|Hge].
      * split; [|lia]. rewrite !dens_cons. cbn [negb].
        replace (offset - selected - c) with 0 by lia. rewrite clear_first_0.
        rewrite (app_assoc (repeat false (skipped + selected))), <- repeat_app.
        f_equal; [f_equal; lia|]. f_equal. f_equal. lia.
      * specialize (IH (selected + c) skipped offset Hge).
        destruct (offset_go l (selected + c) skipped offset).
        -- destruct IH as [Hd Hc]. split; [|lia]. rewrite Hd.
           replace (c - (offset - selected)) with 0 by lia. cbn [repeat app].
           rewrite (app_assoc (repeat false (skipped + selected))), <- repeat_app.
           f_equal; [f_equal; lia|f_equal; lia].
        -- lia.
Qed.

Lemma offset_mask_spec m : forall n, n < count_true m ->
  repeat false (find_nth m n) ++ skipn (find_nth m n) m = clear_first n m.
Proof.
  induction m as [|b m IH]; intros n Hn; [cbn in Hn; lia|].
  destruct n as [|n]; [reflexivity|].
  cbn [find_nth repeat skipn app clear_first]. f_equal. apply IH.
  cbn [count_true] in Hn. destruct b; lia.
Qed.

Theorem den_offset s n : den (offset s n) = offset_spec n (den s).
Proof.
  unfold offset, offset_spec. destruct (Nat.eqb_spec n 0) as [Hn|Hn]; [reflexivity|].
  destruct s as [l|m]; cbn [den].
  - unfold offset_sels. pose proof (offset_go_spec l 0 0 n (Nat.le_0_l n)) as H.
    rewrite Nat.sub_0_r in H.
    destruct (offset_go l 0 0 n) as [res|].
    + destruct H as [Hd Hc]. destruct (Nat.leb_spec (count_true (dens l)) n); [lia|]. exact Hd.
    + destruct (Nat.leb_spec (count_true (dens l)) n); [reflexivity|lia].
  - unfold offset_mask. destruct (Nat.leb_spec (count_true m) n) as [Hle|Hgt]; [reflexivity|].
    now apply offset_mask_spec.
Qed.

(* ------------------------------------------------------------------ limit *)
Lemma limit_spec_false_run c : forall n rest, n <> 0 ->
  limit_spec n (repeat false c ++ rest) = repeat false c ++ limit_spec n rest.
Proof.
  induction c as [|c IH]; intros n rest Hn; [reflexivity|].
  destruct n as [|n]; [lia|]. cbn [repeat app limit_spec]. now rewrite IH.
Qed.

Lemma limit_spec_true_run c : forall n rest,
  limit_spec n (repeat true c ++ rest) = repeat true (Nat.min n c) ++ (if n <=? c then [] else limit_spec (n - c) rest).
Proof.
  induction c as [|c IH]; intros n rest.
  - cbn [repeat app]. rewrite Nat.min_0_r, Nat.sub_0_r. cbn [repeat app].
    destruct n; [destruct rest; reflexivity|reflexivity].
  - destruct n as [|n]; [reflexivity|].
    cbn [repeat app limit_spec Nat.min]. rewrite IH. reflexivity.
Qed.

Lemma limit_go_spec l : forall n, n <> 0 -> dens (limit_go l n) = limit_spec n (dens l).
Proof.
  induction l as [|[sk c] l IH]; intros n Hn; cbn [limit_go].
  - destruct n; reflexivity.
  - destruct sk.
    + rewrite !dens_cons. cbn [negb]. rewrite limit_spec_false_run by exact Hn. now rewrite IH.
    + rewrite (dens_cons false c l). cbn [negb]. rewrite limit_spec_true_run.
      destruct (Nat.leb_spec n c) as [Hle|Hgt].
      * rewrite dens_cons, dens_nil. cbn [negb]. now rewrite Nat.min_l by exact Hle.
      * rewrite dens_cons, IH by lia. cbn [negb]. now rewrite Nat.min_r by lia.
Qed.

Lemma limit_mask_spec m : forall n, firstn (find_nth m n) m = limit_spec n m.
Proof.
  induction m as [|b m IH]; intros n; [destruct n; reflexivity|].
  destruct n as [|n]; [reflexivity|]. cbn [find_nth firstn limit_spec]. now rewrite IH.
Qed.

Theorem den_limit s n : den (limit s n) = limit_spec n (den s).
Proof.
  destruct s as [l|m]; cbn [limit den].
  - unfold limit_sels. destruct (Nat.eqb_spec n 0) as [->|Hn].
    + destruct (dens l); reflexivity.
    + now apply limit_go_spec.
  - apply limit_mask_spec.
Qed.

(* ------------------------------------------------------------------ trim *)
(* every select run is non-empty (guaranteed by every public constructor) *)
Definition selects_nonzero (l : list sel) : Prop := Forall (fun s : sel => fst s = false -> snd s <> 0) l.

Lemma nonzero_selects_nonzero l : nonzero l -> selects_nonzero l.
Proof. apply Forall_impl. intros a H _. exact H. Qed.

Lemma rev_repeat {A} (x : A) n : rev (repeat x n) = repeat x n.
Proof.
  induction n as [|n IH]; [reflexivity|]. cbn [repeat rev]. rewrite IH.
  clear IH. induction n as [|n IH]; [reflexivity|]. cbn [repeat app]. now rewrite IH.
Qed.

Lemma rev_dens l : rev (dens l) = dens (rev l).
Proof.
  induction l as [|[sk n] l IH]; [reflexivity|].
  rewrite dens_cons, rev_app_distr, rev_repeat, IH. cbn [rev].
  rewrite dens_app, dens_cons, dens_nil, app_nil_r. reflexivity.
Qed.

Lemma drop_false_run c rest : drop_false (repeat false c ++ rest) = drop_false rest.
Proof. induction c as [|c IH]; [reflexivity|]. cbn [repeat app drop_false]. exact IH. Qed.

Lemma drop_skips_dens l : selects_nonzero l -> dens (drop_skips l) = drop_false (dens l).
Proof.
  induction 1 as [|[sk c] l Hx Hl IH]; [reflexivity|].
  destruct sk; cbn [drop_skips].
  - rewrite dens_cons. cbn [negb]. now rewrite drop_false_run.
  - rewrite dens_cons. cbn [negb]. destruct c as [|c]; [now specialize (Hx eq_refl)|]. reflexivity.
Qed.

Lemma trim_sels_spec l : selects_nonzero l -> dens (trim_sels l) = trim_spec (dens l).
Proof.
  intros H. unfold trim_sels, trim_spec.
  rewrite <- rev_dens, drop_skips_dens, <- rev_dens by (apply Forall_rev, H). reflexivity.
Qed.

Lemma drop_false_app_nonnil x y : drop_false x <> [] -> drop_false (x ++ y) = drop_false x ++ y.
Proof.
  induction x as [|b x IH]; intros H; [contradiction|].
  destruct b; [reflexivity|]. cbn [drop_false app] in *. now apply IH.
Qed.

Lemma drop_false_app_nil x y : drop_false x = [] -> drop_false (x ++ y) = drop_false y.
Proof.
  induction x as [|b x IH]; intros H; [reflexivity|].
  destruct b; [discriminate|]. cbn [drop_false app] in *. now apply IH.
Qed.

(* recursive characterisation of trim_spec *)
Lemma trim_spec_cons b r :
  trim_spec (b :: r) = match trim_spec r with
                       | [] => if b then [true] else []
                       | t => b :: t
                       end.
Proof.
  unfold trim_spec. cbn [rev].
  destruct (drop_false (rev r)) as [|y ys] eqn:E.
  - rewrite drop_false_app_nil by exact E. destruct b; reflexivity.
  - rewrite drop_false_app_nonnil by (rewrite E; discriminate). rewrite E, rev_app_distr.
    cbn [rev app]. destruct (rev ys ++ [y]) eqn:E2; [now destruct (rev ys)|]. reflexivity.
Qed.

Lemma last_true_found m : forall pos found,
  last_true m pos found = match last_true m pos None with Some p => Some p | None => found end.
Proof.
  induction m as [|b m IH]; intros pos found; [reflexivity|].
  cbn [last_true]. rewrite (IH (S pos) (if b then Some pos else found)), (IH (S pos) (if b then Some pos else None)).
  destruct (last_true m (S pos) None); [reflexivity|]. destruct b; reflexivity.
Qed.

Lemma last_true_ge m : forall pos p, last_true m pos None = Some p -> pos <= p.
Proof.
  induction m as [|b m IH]; intros pos p H; [discriminate|].
  cbn [last_true] in H. rewrite last_true_found in H.
  destruct (last_true m (S pos) None) as [q|] eqn:E.
  - inversion H; subst. apply IH in E. lia.
  - destruct b; inversion H. lia.
Qed.

Lemma trim_mask_general m : forall pos,
  firstn (match last_true m pos None with Some p => S p - pos | None => 0 end) m = trim_spec m.
Proof.
  induction m as [|b m IH]; intros pos.
  - reflexivity.
  - rewrite trim_spec_cons. cbn [last_true]. rewrite last_true_found.
    specialize (IH (S pos)).
    destruct (last_true m (S pos) None) as [q|] eqn:E.
    + pose proof (last_true_ge _ _ _ E) as Hq.
      replace (S q - pos) with (S (S q - S pos)) by lia. cbn [firstn]. rewrite IH.
      destruct (trim_spec m) eqn:Et; [|reflexivity].
      replace (S q - S pos) with (S (q - S pos)) in IH by lia.
      destruct m; [discriminate|]. discriminate.
    + cbn [firstn] in IH. rewrite <- IH. destruct b.
      * replace (S pos - pos) with 1 by lia. reflexivity.
      * reflexivity.
Qed.

Lemma trim_spec_last_true m : last m false = true -> trim_spec m = m.
Proof.
  intros H. destruct m as [|b m]; [reflexivity|].
  assert (Hne : b :: m <> []) by discriminate.
  rewrite (app_removelast_last false Hne), H. unfold trim_spec.
  rewrite rev_app_distr. cbn [rev app drop_false]. rewrite rev_involutive. reflexivity.
Qed.

Lemma trim_mask_spec m : trim_mask m = trim_spec m.
Proof.
  unfold trim_mask. destruct (Nat.eqb_spec (length m) 0) as [H0|H0].
  - destruct m; [reflexivity|discriminate].
  - cbn [orb]. destruct (last m false) eqn:El.
    + symmetry. now apply trim_spec_last_true.
    + pose proof (trim_mask_general m 0) as H. rewrite <- H.
      destruct (last_true m 0 None); [now rewrite Nat.sub_0_r|reflexivity].
Qed.

Definition wf_rowsel (s : rowsel) : Prop :=
  match s with Sels l => selects_nonzero l | Mask _ => True end.

Theorem den_trim s : wf_rowsel s -> den (trim s) = trim_spec (den s).
Proof.
  destruct s as [l|m]; cbn [trim den wf_rowsel]; intros H.
  - now apply trim_sels_spec.
  - apply trim_mask_spec.
Qed.

(* without the side condition the statement is false: an empty select run stops the pop loop *)
Theorem den_trim_unrestricted_refuted :
  exists s, den (trim s) <> trim_spec (den s).
Proof. exists (Sels [(false, 1); (true, 1); (false, 0)]). cbn. discriminate. Qed.

(* ------------------------------------------------------------------ counters *)
Theorem selects_any_den s : wf_rowsel s -> selects_any s = selects_any_spec (den s).
Proof.
  unfold selects_any_spec. destruct s as [l|m]; cbn [selects_any den wf_rowsel]; [|reflexivity].
  induction 1 as [|[sk c] l Hx Hl IH]; [reflexivity|].
  cbn [existsb fst]. rewrite dens_cons, existsb_app, existsb_repeat, IH.
  destruct sk; cbn [negb andb orb]; [reflexivity|].
  destruct c; [now specialize (Hx eq_refl)|reflexivity].
Qed.

Theorem selects_any_unrestricted_refuted :
  exists s, selects_any s <> selects_any_spec (den s).
Proof. exists (Sels [(false, 0)]). cbn. discriminate. Qed.

Theorem row_count_den s : row_count s = count_true (den s).
Proof.
  destruct s as [l|m]; cbn [row_count den]; [|reflexivity].
  induction l as [|[sk c] l IH]; [reflexivity|].
  rewrite dens_cons, count_true_app, count_true_repeat. cbn [filter fst negb].
  destruct sk; cbn [negb]; [exact IH|]. rewrite sum_counts_cons, IH. reflexivity.
Qed.

Theorem total_row_count_den s : total_row_count s = length (den s).
Proof. destruct s as [l|m]; cbn [total_row_count den]; [|reflexivity]. now rewrite dens_length. Qed.

Theorem skipped_row_count_den s : skipped_row_count s = length (den s) - count_true (den s).
Proof.
  destruct s as [l|m]; cbn [skipped_row_count den]; [|reflexivity].
  induction l as [|[sk c] l IH]; [reflexivity|].
  rewrite dens_cons, app_length, repeat_length, count_true_app, count_true_repeat. cbn [filter fst].
  pose proof (count_true_le (dens l)).
  destruct sk; cbn [negb]; [rewrite sum_counts_cons, IH|rewrite IH]; lia.
Qed.

Theorem den_split_off_parts s n :
  den (fst (split_off s n)) ++ den (snd (split_off s n)) = den s
  /\ length (den (fst (split_off s n))) = Nat.min n (length (den s)).
Proof.
  destruct (den_split_off s n) as [H1 H2]. rewrite H1, H2. split.
  - apply firstn_skipn.
  - apply firstn_length.
Qed.

Theorem counters_den s :
  row_count s = count_true (den s) /\ total_row_count s = length (den s)
  /\ skipped_row_count s = length (den s) - count_true (den s).
Proof. split; [apply row_count_den|split; [apply total_row_count_den|apply skipped_row_count_den]]. Qed.

(* non-vacuity of the side condition: a concrete selection satisfying it on which trim acts *)
Example trim_example :
  wf_rowsel (Sels [(false, 2); (true, 3); (false, 1); (true, 4)])
  /\ den (trim (Sels [(false, 2); (true, 3); (false, 1); (true, 4)])) = [true; true; false; false; false; true].
Proof. split; [repeat constructor; cbn; discriminate|reflexivity]. Qed.

(* ------------------------------------------------------------------ FromIterator<RowSelection> *)
Lemma dens_flat_map_selectors l : dens (flat_map selectors_of l) = flat_map den l.
Proof.
  induction l as [|s l IH]; [reflexivity|]. cbn [flat_map]. rewrite dens_app, IH. f_equal.
  destruct s as [x|m]; [reflexivity|apply mask_to_selectors_dens].
Qed.

Theorem den_concat l : den (concat_sel l) = flat_map den l.
Proof.
  unfold concat_sel. destruct (forallb is_mask l); cbn [den]; [reflexivity|].
  now rewrite from_iter_dens, dens_flat_map_selectors.
Qed.
