(* C12 — i256 two-limb arithmetic is exact modulo 2^256 / exact-or-None.
   Proved for abstract limb parameters B, H with 0 < B, B*B = 2H (B = 2^64, H = 2^127). *)
From Coq Require Import List ZArith Bool Lia.
From AV Require Import Model.C12_Int Model.C12_I256 Proofs.C12_Int.
Import ListNotations.
Local Open Scope Z_scope.

Section P.
Variable B : Z.
Variable H : Z.
Hypothesis Bpos : 0 < B.
Hypothesis BB : B * B = 2 * H.
Let W := 2 * H.

Lemma Hpos : 0 < H.
Proof. nia. Qed.
Lemma Wpos : 0 < W.
Proof. pose proof Hpos. unfold W. lia. Qed.
Lemma HWpos : 0 < H * W.
Proof. pose proof Hpos. unfold W. nia. Qed.

Definition wf (a : i256) : Prop := 0 <= low a < W /\ - H <= high a < H.
Notation wrap256 := (wrap true (H * W)).
Notation in256 := (in_range true (H * W)).
Notation value := (val H).

Lemma wraps_range z : - H <= wraps H z < H.
Proof.
  pose proof (wrap_in_range H Hpos true z) as R. apply (in_range_iff H) in R.
  unfold tmin, tmax in R. unfold wraps. lia.
Qed.
Lemma wraps_cong z : exists k, wraps H z = z + k * W.
Proof. apply (wrap_cong H Hpos true z). Qed.
Lemma wrapu_range z : 0 <= wrapu H z < W.
Proof.
  pose proof (wrap_in_range H Hpos false z) as R. apply (in_range_iff H) in R.
  unfold tmin, tmax in R. unfold wrapu, W. lia.
Qed.
Lemma wrapu_cong z : exists k, wrapu H z = z + k * W.
Proof. apply (wrap_cong H Hpos false z). Qed.
Lemma wrapu_small z : 0 <= z < W -> wrapu H z = z.
Proof. intros R. apply (wrap_small H false). apply in_range_iff. unfold tmin, tmax. fold W. lia. Qed.
Lemma wraps_small z : - H <= z < H -> wraps H z = z.
Proof. intros R. apply (wrap_small H true). apply in_range_iff. unfold tmin, tmax. lia. Qed.

Lemma wrapu_unique z r k : 0 <= r < W -> r = z + k * W -> r = wrapu H z.
Proof.
  intros R E. apply (wrap_unique H Hpos false z r k); [|exact E].
  apply in_range_iff. unfold tmin, tmax. fold W. lia.
Qed.
Lemma wraps_unique z r k : - H <= r < H -> r = z + k * W -> r = wraps H z.
Proof.
  intros R E. apply (wrap_unique H Hpos true z r k); [|exact E].
  apply in_range_iff. unfold tmin, tmax. lia.
Qed.

Lemma in256_iff z : in256 z = true <-> - (H * W) <= z < H * W.
Proof. rewrite (in_range_iff (H * W)). unfold tmin, tmax. lia. Qed.

Lemma wrap256_unique z r k : - (H * W) <= r < H * W -> r = z + k * (W * W) -> r = wrap256 z.
Proof.
  intros R E. apply (wrap_unique (H * W) HWpos true z r k).
  - now apply in256_iff.
  - rewrite E. unfold W. ring.
Qed.

Lemma val_range a : wf a -> - (H * W) <= value a < H * W.
Proof. unfold wf, val. fold W. intros [? ?]. pose proof Wpos. nia. Qed.

Lemma val_sign a : wf a -> (high a <? 0) = (value a <? 0).
Proof.
  unfold wf, val. fold W. intros [? ?]. pose proof Wpos.
  destruct (Z.ltb_spec (high a) 0); destruct (Z.ltb_spec (high a * W + low a) 0); try reflexivity; nia.
Qed.

Lemma val_inj a b : wf a -> wf b -> value a = value b -> a = b.
Proof.
  unfold wf, val. fold W. intros [? ?] [? ?] E. pose proof Wpos.
  assert (high a = high b) by nia. assert (low a = low b) by nia.
  destruct a, b; cbn in *; congruence.
Qed.

(* ---- u128 carries *)
Lemma u_add_carry a b : 0 <= a < W -> 0 <= b < W ->
  wrapu H (a + b) = a + b - b2z (W <=? a + b) * W.
Proof.
  intros Ra Rb. destruct (Z.leb_spec W (a + b)); cbn [b2z].
  - symmetry. apply wrapu_unique with (k := -1); lia.
  - rewrite wrapu_small by lia. lia.
Qed.
Lemma u_sub_borrow a b : 0 <= a < W -> 0 <= b < W ->
  wrapu H (a - b) = a - b + b2z (a - b <? 0) * W.
Proof.
  intros Ra Rb. destruct (Z.ltb_spec (a - b) 0); cbn [b2z].
  - symmetry. apply wrapu_unique with (k := 1); lia.
  - rewrite wrapu_small by lia. lia.
Qed.

(* ---- wrapping add / sub *)
Theorem wrapping_add_spec a b : wf a -> wf b ->
  wf (wrapping_add H a b) /\ value (wrapping_add H a b) = wrap256 (value a + value b).
Proof.
  intros [Hal Hah] [Hbl Hbh]. unfold wrapping_add, u_overflowing_add. fold W.
  set (c := W <=? low a + low b).
  pose proof (u_add_carry (low a) (low b) Hal Hbl) as Hlo. fold c in Hlo.
  destruct (wraps_cong (high a + high b)) as [k1 Hk1].
  destruct (wraps_cong (wraps H (high a + high b) + b2z c)) as [k2 Hk2].
  pose proof (wraps_range (wraps H (high a + high b) + b2z c)) as Hr.
  pose proof (wrapu_range (low a + low b)) as Hlr.
  assert (WF : wf (mk256 (wrapu H (low a + low b)) (wraps H (wraps H (high a + high b) + b2z c)))).
  { split; cbn [low high]; assumption. }
  split; [exact WF|].
  apply wrap256_unique with (k := k1 + k2); [apply (val_range _ WF)|].
  unfold val. cbn [low high]. fold W. rewrite Hk2, Hk1, Hlo. ring.
Qed.

Theorem wrapping_sub_spec a b : wf a -> wf b ->
  wf (wrapping_sub H a b) /\ value (wrapping_sub H a b) = wrap256 (value a - value b).
Proof.
  intros [Hal Hah] [Hbl Hbh]. unfold wrapping_sub, u_overflowing_sub.
  set (c := low a - low b <? 0).
  pose proof (u_sub_borrow (low a) (low b) Hal Hbl) as Hlo. fold c in Hlo.
  destruct (wraps_cong (high a - high b)) as [k1 Hk1].
  destruct (wraps_cong (wraps H (high a - high b) - b2z c)) as [k2 Hk2].
  pose proof (wraps_range (wraps H (high a - high b) - b2z c)) as Hr.
  pose proof (wrapu_range (low a - low b)) as Hlr.
  assert (WF : wf (mk256 (wrapu H (low a - low b)) (wraps H (wraps H (high a - high b) - b2z c)))).
  { split; cbn [low high]; assumption. }
  split; [exact WF|].
  apply wrap256_unique with (k := k1 + k2); [apply (val_range _ WF)|].
  unfold val. cbn [low high]. fold W. rewrite Hk2, Hk1, Hlo. ring.
Qed.

(* ---- wrapping neg / abs *)
Lemma wf_not a : wf a -> wf (mk256 (not_u H (low a)) (not_s (high a))) /\
  value (mk256 (not_u H (low a)) (not_s (high a))) = - value a - 1.
Proof.
  intros [Hl Hh]. unfold wf, not_u, not_s, val. cbn [low high]. fold W. split; [lia|ring].
Qed.
Lemma wf_ONE : wf ONE /\ value ONE = 1.
Proof. pose proof Hpos. unfold wf, ONE, val. cbn [low high]. fold W. unfold W. lia. Qed.
Lemma wf_ZERO : wf ZERO /\ value ZERO = 0.
Proof. pose proof Hpos. unfold wf, ZERO, val. cbn [low high]. fold W. unfold W. lia. Qed.
Lemma wf_MINUS_ONE : wf (MINUS_ONE H) /\ value (MINUS_ONE H) = -1.
Proof. pose proof Hpos. unfold wf, MINUS_ONE, val. cbn [low high]. fold W. unfold W. lia. Qed.
Lemma wf_MIN : wf (MIN H) /\ value (MIN H) = - (H * W).
Proof. pose proof Hpos. unfold wf, MIN, val. cbn [low high]. fold W. unfold W. split; [lia|ring]. Qed.

Theorem wrapping_neg_spec a : wf a ->
  wf (wrapping_neg256 H a) /\ value (wrapping_neg256 H a) = wrap256 (- value a).
Proof.
  intros Wa. unfold wrapping_neg256.
  destruct (wf_not a Wa) as [Wn Vn]. destruct wf_ONE as [W1 V1].
  destruct (wrapping_add_spec _ _ Wn W1) as [Wr Vr]. split; [exact Wr|].
  rewrite Vr, Vn, V1. f_equal. ring.
Qed.

Lemma wrap256_small z : - (H * W) <= z < H * W -> wrap256 z = z.
Proof. intros R. apply (wrap_small (H * W) true). now apply in256_iff. Qed.

Lemma is_eq_spec a b : wf a -> wf b -> is_eq a b = (value a =? value b).
Proof.
  intros Wa Wb. unfold is_eq.
  destruct (Z.eqb_spec (value a) (value b)) as [E|E].
  - rewrite (val_inj a b Wa Wb E), !Z.eqb_refl. reflexivity.
  - destruct (Z.eqb_spec (high a) (high b)) as [E1|E1]; [|reflexivity].
    destruct (Z.eqb_spec (low a) (low b)) as [E2|E2]; [|reflexivity].
    exfalso. apply E. unfold val. congruence.
Qed.

Theorem checked_neg_spec a : wf a ->
  match checked_neg256 H a with
  | Some r => wf r /\ value r = - value a /\ in256 (- value a) = true
  | None => in256 (- value a) = false
  end.
Proof.
  intros Wa. unfold checked_neg256. destruct wf_MIN as [Wm Vm].
  rewrite (is_eq_spec a _ Wa Wm), Vm. pose proof (val_range a Wa) as R. pose proof HWpos.
  destruct (Z.eqb_spec (value a) (- (H * W))) as [E|E]; cbn [negb].
  - rewrite E. destruct (in256 (- - (H * W))) eqn:I; [|reflexivity]. apply in256_iff in I. lia.
  - destruct (wrapping_neg_spec a Wa) as [Wr Vr]. split; [exact Wr|].
    assert (R' : - (H * W) <= - value a < H * W) by lia.
    split; [rewrite Vr; now apply wrap256_small | now apply in256_iff].
Qed.

(* wrapping_abs: |a| reduced into i256 (MIN stays MIN) *)
Theorem wrapping_abs_spec a : wf a ->
  wf (wrapping_abs256 H a) /\ value (wrapping_abs256 H a) = wrap256 (Z.abs (value a)).
Proof.
  intros Wa. unfold wrapping_abs256. rewrite (val_sign a Wa).
  destruct (Z.ltb_spec (value a) 0) as [N|N].
  - destruct (wf_not a Wa) as [Wn Vn]. destruct wf_MINUS_ONE as [W1 V1].
    destruct (wrapping_sub_spec _ _ Wn W1) as [Wr Vr]. split; [exact Wr|].
    rewrite Vr, Vn, V1. f_equal. lia.
  - destruct wf_ZERO as [W0 V0].
    destruct (wrapping_sub_spec _ _ Wa W0) as [Wr Vr]. split; [exact Wr|].
    rewrite Vr, V0. f_equal. lia.
Qed.

(* the unsigned reading of |a| is the magnitude, also for MIN *)
Lemma uval_abs a : wf a -> uval H (wrapping_abs256 H a) = Z.abs (value a).
Proof.
  intros Wa. destruct (wrapping_abs_spec a Wa) as [[Wl Wh] Vr].
  pose proof (val_range a Wa) as R. pose proof HWpos as HW. pose proof Wpos as Wp.
  set (r := wrapping_abs256 H a) in *.
  remember (value a) as va eqn:Eva. clear Eva.
  unfold uval. fold W. unfold val in Vr. fold W in Vr.
  destruct (Z.eq_dec (Z.abs va) (H * W)) as [E|E].
  - (* MIN *)
    assert (Em : high r * W + low r = - (H * W)).
    { rewrite Vr, E. symmetry. apply wrap256_unique with (k := -1); [lia|]. unfold W. ring. }
    assert (high r = - H) by nia. assert (low r = 0) by nia.
    assert (Eu : wrapu H (high r) = H).
    { symmetry. apply wrapu_unique with (k := 1); unfold W in *; lia. }
    rewrite Eu, E. unfold W in *. nia.
  - rewrite wrap256_small in Vr by lia.
    assert (0 <= high r) by nia.
    rewrite wrapu_small by (unfold W; lia). exact Vr.
Qed.

(* ---- overflowing / checked add, sub *)
Lemma high_pattern x y c : - H <= x < H -> - H <= y < H -> 0 <= c <= 1 ->
  exists k, wraps H (wrapu H (wrapu H (wrapu H x + wrapu H y) + c)) = x + y + c + k * W.
Proof.
  intros Rx Ry Rc.
  destruct (wrapu_cong x) as [k1 E1]. destruct (wrapu_cong y) as [k2 E2].
  destruct (wrapu_cong (wrapu H x + wrapu H y)) as [k3 E3].
  destruct (wrapu_cong (wrapu H (wrapu H x + wrapu H y) + c)) as [k4 E4].
  destruct (wraps_cong (wrapu H (wrapu H (wrapu H x + wrapu H y) + c))) as [k5 E5].
  exists (k1 + k2 + k3 + k4 + k5). rewrite E5, E4, E3, E1, E2. ring.
Qed.
Lemma high_pattern_sub x y c : - H <= x < H -> - H <= y < H -> 0 <= c <= 1 ->
  exists k, wraps H (wrapu H (wrapu H (wrapu H x - wrapu H y) - c)) = x - y - c + k * W.
Proof.
  intros Rx Ry Rc.
  destruct (wrapu_cong x) as [k1 E1]. destruct (wrapu_cong y) as [k2 E2].
  destruct (wrapu_cong (wrapu H x - wrapu H y)) as [k3 E3].
  destruct (wrapu_cong (wrapu H (wrapu H x - wrapu H y) - c)) as [k4 E4].
  destruct (wraps_cong (wrapu H (wrapu H (wrapu H x - wrapu H y) - c))) as [k5 E5].
  exists (k1 - k2 + k3 + k4 + k5). rewrite E5, E4, E3, E1, E2. ring.
Qed.

Lemma b2z_range c : 0 <= b2z c <= 1.
Proof. destruct c; cbn; lia. Qed.

Lemma overflowing_add_value a b : wf a -> wf b ->
  wf (fst (overflowing_add H a b)) /\ value (fst (overflowing_add H a b)) = wrap256 (value a + value b).
Proof.
  intros [Hal Hah] [Hbl Hbh]. unfold overflowing_add, u_overflowing_add. fold W. cbn [fst].
  set (c := W <=? low a + low b).
  pose proof (u_add_carry (low a) (low b) Hal Hbl) as Hlo. fold c in Hlo.
  destruct (high_pattern (high a) (high b) (b2z c) Hah Hbh (b2z_range c)) as [k Hk].
  set (hi := wraps H (wrapu H (wrapu H (wrapu H (high a) + wrapu H (high b)) + b2z c))) in *.
  assert (WF : wf (mk256 (wrapu H (low a + low b)) hi)).
  { split; cbn [low high]; [apply wrapu_range|apply wraps_range]. }
  split; [exact WF|].
  apply wrap256_unique with (k := k); [apply (val_range _ WF)|].
  unfold val. cbn [low high]. fold W. rewrite Hk, Hlo. ring.
Qed.

Lemma overflowing_sub_value a b : wf a -> wf b ->
  wf (fst (overflowing_sub H a b)) /\ value (fst (overflowing_sub H a b)) = wrap256 (value a - value b).
Proof.
  intros [Hal Hah] [Hbl Hbh]. unfold overflowing_sub, u_overflowing_sub. cbn [fst].
  set (c := low a - low b <? 0).
  pose proof (u_sub_borrow (low a) (low b) Hal Hbl) as Hlo. fold c in Hlo.
  destruct (high_pattern_sub (high a) (high b) (b2z c) Hah Hbh (b2z_range c)) as [k Hk].
  set (hi := wraps H (wrapu H (wrapu H (wrapu H (high a) - wrapu H (high b)) - b2z c))) in *.
  assert (WF : wf (mk256 (wrapu H (low a - low b)) hi)).
  { split; cbn [low high]; [apply wrapu_range|apply wraps_range]. }
  split; [exact WF|].
  apply wrap256_unique with (k := k); [apply (val_range _ WF)|].
  unfold val. cbn [low high]. fold W. rewrite Hk, Hlo. ring.
Qed.

(* wrap256 on sums of two in-range values: explicit cases *)
Lemma wrap256_add_cases x y : - (H * W) <= x < H * W -> - (H * W) <= y < H * W ->
  wrap256 (x + y) = if in256 (x + y) then x + y else if x <? 0 then x + y + W * W else x + y - W * W.
Proof.
  intros Rx Ry. pose proof HWpos. assert (Q : W * W = 2 * (H * W)) by (unfold W; ring).
  destruct (in256 (x + y)) eqn:I.
  - apply in256_iff in I. now apply wrap256_small.
  - assert (N : ~ (- (H * W) <= x + y < H * W)) by (intros C; apply in256_iff in C; congruence).
    destruct (Z.ltb_spec x 0).
    + symmetry. apply wrap256_unique with (k := 1); lia.
    + symmetry. apply wrap256_unique with (k := -1); lia.
Qed.

Theorem checked_add_spec a b : wf a -> wf b ->
  match checked_add256 H a b with
  | Some r => wf r /\ value r = value a + value b /\ in256 (value a + value b) = true
  | None => in256 (value a + value b) = false
  end.
Proof.
  intros Wa Wb. unfold checked_add256.
  pose proof (overflowing_add_value a b Wa Wb) as [Wr Vr].
  destruct (overflowing_add H a b) as [r o] eqn:E. cbn [fst] in *.
  assert (Eo : o = Bool.eqb (high a <? 0) (high b <? 0) && negb (Bool.eqb (high r <? 0) (high a <? 0))).
  { unfold overflowing_add in E. destruct (u_overflowing_add H (low a) (low b)) as [lo carry].
    inversion E. reflexivity. }
  rewrite (val_sign a Wa), (val_sign b Wb), (val_sign r Wr) in Eo.
  pose proof (val_range a Wa) as Ra. pose proof (val_range b Wb) as Rb. pose proof HWpos as HW.
  assert (Q : W * W = 2 * (H * W)) by (unfold W; ring).
  rewrite (wrap256_add_cases _ _ Ra Rb) in Vr.
  destruct (in256 (value a + value b)) eqn:I.
  - apply in256_iff in I. replace o with false; [auto|].
    rewrite Eo, Vr.
    destruct (Z.ltb_spec (value a) 0), (Z.ltb_spec (value b) 0), (Z.ltb_spec (value a + value b) 0); cbn [Bool.eqb negb andb]; try reflexivity; lia.
  - assert (N : ~ (- (H * W) <= value a + value b < H * W)) by (intros C; apply in256_iff in C; congruence).
    replace o with true; [reflexivity|].
    rewrite Eo, Vr.
    destruct (Z.ltb_spec (value a) 0), (Z.ltb_spec (value b) 0); cbn [Bool.eqb negb andb].
    + destruct (Z.ltb_spec (value a + value b + W * W) 0); cbn [Bool.eqb negb andb]; [lia|reflexivity].
    + lia.
    + lia.
    + destruct (Z.ltb_spec (value a + value b - W * W) 0); cbn [Bool.eqb negb andb]; [reflexivity|lia].
Qed.

Lemma wrap256_sub_cases x y : - (H * W) <= x < H * W -> - (H * W) <= y < H * W ->
  wrap256 (x - y) = if in256 (x - y) then x - y else if x <? 0 then x - y + W * W else x - y - W * W.
Proof.
  intros Rx Ry. pose proof HWpos. assert (Q : W * W = 2 * (H * W)) by (unfold W; ring).
  destruct (in256 (x - y)) eqn:I.
  - apply in256_iff in I. now apply wrap256_small.
  - assert (N : ~ (- (H * W) <= x - y < H * W)) by (intros C; apply in256_iff in C; congruence).
    destruct (Z.ltb_spec x 0).
    + symmetry. apply wrap256_unique with (k := 1); lia.
    + symmetry. apply wrap256_unique with (k := -1); lia.
Qed.

Theorem checked_sub_spec a b : wf a -> wf b ->
  match checked_sub256 H a b with
  | Some r => wf r /\ value r = value a - value b /\ in256 (value a - value b) = true
  | None => in256 (value a - value b) = false
  end.
Proof.
  intros Wa Wb. unfold checked_sub256.
  pose proof (overflowing_sub_value a b Wa Wb) as [Wr Vr].
  destruct (overflowing_sub H a b) as [r o] eqn:E. cbn [fst] in *.
  assert (Eo : o = negb (Bool.eqb (high a <? 0) (high b <? 0)) && negb (Bool.eqb (high r <? 0) (high a <? 0))).
  { unfold overflowing_sub in E. destruct (u_overflowing_sub H (low a) (low b)) as [lo carry].
    inversion E. reflexivity. }
  rewrite (val_sign a Wa), (val_sign b Wb), (val_sign r Wr) in Eo.
  pose proof (val_range a Wa) as Ra. pose proof (val_range b Wb) as Rb. pose proof HWpos as HW.
  assert (Q : W * W = 2 * (H * W)) by (unfold W; ring).
  rewrite (wrap256_sub_cases _ _ Ra Rb) in Vr.
  destruct (in256 (value a - value b)) eqn:I.
  - apply in256_iff in I. replace o with false; [auto|].
    rewrite Eo, Vr.
    destruct (Z.ltb_spec (value a) 0), (Z.ltb_spec (value b) 0), (Z.ltb_spec (value a - value b) 0); cbn [Bool.eqb negb andb]; try reflexivity; lia.
  - assert (N : ~ (- (H * W) <= value a - value b < H * W)) by (intros C; apply in256_iff in C; congruence).
    replace o with true; [reflexivity|].
    rewrite Eo, Vr.
    destruct (Z.ltb_spec (value a) 0), (Z.ltb_spec (value b) 0); cbn [Bool.eqb negb andb].
    + lia.
    + destruct (Z.ltb_spec (value a - value b + W * W) 0); cbn [Bool.eqb negb andb]; [lia|reflexivity].
    + destruct (Z.ltb_spec (value a - value b - W * W) 0); cbn [Bool.eqb negb andb]; [reflexivity|lia].
    + lia.
Qed.

(* ---- mulx: four 64x64 partial products = the full 128x128 product *)
Lemma WBB : W = B * B.
Proof. unfold W. lia. Qed.

Lemma shl64_spec x : 0 <= x -> shl64 B H x = (x mod B) * B.
Proof.
  intros Hx. unfold shl64, wrapu, wrap. fold W. rewrite WBB.
  apply Z.mul_mod_distr_r; lia.
Qed.

Theorem mulx_spec a b : 0 <= a < W -> 0 <= b < W ->
  mulx B H a b = ((a * b) mod W, (a * b) / W).
Proof.
  intros Ra Rb. unfold mulx, split. rewrite WBB in *.
  pose proof (Z.div_mod a B ltac:(lia)) as Da. pose proof (Z.mod_pos_bound a B Bpos) as Ma.
  pose proof (Z.div_mod b B ltac:(lia)) as Db. pose proof (Z.mod_pos_bound b B Bpos) as Mb.
  set (al := a mod B) in *. set (ah := a / B) in *. set (bl := b mod B) in *. set (bh := b / B) in *.
  assert (Hah : 0 <= ah < B) by nia. assert (Hbh : 0 <= bh < B) by nia.
  pose proof (Z.div_mod (al * bl) B ltac:(lia)) as D0. pose proof (Z.mod_pos_bound (al * bl) B Bpos) as M0.
  set (low0 := (al * bl) mod B) in *. set (carry0 := (al * bl) / B) in *.
  assert (Hc0 : 0 <= carry0 < B) by nia.
  assert (Wsm : forall z, 0 <= z < B * B -> wrapu H z = z).
  { intros z Hz. apply wrapu_small. rewrite WBB. exact Hz. }
  assert (E1 : wrapu H (carry0 + ah * bl) = carry0 + ah * bl) by (apply Wsm; nia).
  rewrite E1. set (carry1 := carry0 + ah * bl) in *.
  assert (Hc1 : 0 <= carry1 < B * B) by (unfold carry1; nia).
  rewrite (shl64_spec carry1) by lia.
  pose proof (Z.div_mod carry1 B ltac:(lia)) as D1. pose proof (Z.mod_pos_bound carry1 B Bpos) as M1.
  set (c1l := carry1 mod B) in *. set (c1h := carry1 / B) in *.
  assert (Hc1h : 0 <= c1h < B) by nia.
  assert (E2 : wrapu H (low0 + c1l * B) = low0 + c1l * B) by (apply Wsm; nia).
  rewrite E2.
  assert (E3 : (low0 + c1l * B) / B = c1l).
  { rewrite Z.div_add by lia. rewrite Z.div_small by lia. lia. }
  assert (E4 : (low0 + c1l * B) mod B = low0).
  { rewrite Z.mod_add by lia. apply Z.mod_small. lia. }
  rewrite E3, E4.
  assert (E5 : wrapu H (c1l + bh * al) = c1l + bh * al) by (apply Wsm; nia).
  rewrite E5. set (carry3 := c1l + bh * al) in *.
  assert (Hc3 : 0 <= carry3 < B * B) by (unfold carry3; nia).
  rewrite (shl64_spec carry3) by lia.
  pose proof (Z.div_mod carry3 B ltac:(lia)) as D3. pose proof (Z.mod_pos_bound carry3 B Bpos) as M3.
  set (c3l := carry3 mod B) in *. set (c3h := carry3 / B) in *.
  assert (Hc3h : 0 <= c3h < B) by nia.
  assert (E6 : wrapu H (low0 + c3l * B) = low0 + c3l * B) by (apply Wsm; nia).
  rewrite E6.
  assert (B2 : 2 <= B) by nia.
  assert (E7 : wrapu H (c1h + c3h) = c1h + c3h) by (apply Wsm; nia).
  rewrite E7.
  (* the product identity *)
  assert (P : a * b = (c1h + c3h + ah * bh) * (B * B) + (low0 + c3l * B)).
  { rewrite Da, Db. unfold carry3, carry1 in *. nia. }
  assert (Hhi : 0 <= c1h + c3h + ah * bh < B * B) by nia.
  rewrite (Wsm _ Hhi).
  assert (Hlo : 0 <= low0 + c3l * B < B * B) by nia.
  f_equal.
  - rewrite P. replace ((c1h + c3h + ah * bh) * (B * B) + (low0 + c3l * B))
      with ((low0 + c3l * B) + (c1h + c3h + ah * bh) * (B * B)) by ring.
    rewrite Z.mod_add by lia. symmetry. apply Z.mod_small. exact Hlo.
  - rewrite P. replace ((c1h + c3h + ah * bh) * (B * B) + (low0 + c3l * B))
      with ((low0 + c3l * B) + (c1h + c3h + ah * bh) * (B * B)) by ring.
    rewrite Z.div_add by lia. rewrite Z.div_small by exact Hlo. lia.
Qed.

(* ---- wrapping_mul *)
Theorem wrapping_mul_spec a b : wf a -> wf b ->
  wf (wrapping_mul256 B H a b) /\ value (wrapping_mul256 B H a b) = wrap256 (value a * value b).
Proof.
  intros [Hal Hah] [Hbl Hbh]. unfold wrapping_mul256.
  rewrite (mulx_spec (low a) (low b) Hal Hbl).
  pose proof Wpos as Wp.
  pose proof (Z.div_mod (low a * low b) W ltac:(lia)) as Hm.
  pose proof (Z.mod_pos_bound (low a * low b) W Wp) as Hlo.
  set (lo := (low a * low b) mod W) in *. set (hi := (low a * low b) / W) in *.
  destruct (wraps_cong (low b)) as [k1 E1]. destruct (wraps_cong (low a)) as [k2 E2].
  destruct (wraps_cong (high a * wraps H (low b))) as [k3 E3].
  destruct (wraps_cong (wraps H (low a) * high b)) as [k4 E4].
  destruct (wraps_cong hi) as [k5 E5].
  set (hl := wraps H (high a * wraps H (low b))) in *.
  set (lh := wraps H (wraps H (low a) * high b)) in *.
  destruct (wraps_cong (wraps H hi + hl)) as [k6 E6].
  destruct (wraps_cong (wraps H (wraps H hi + hl) + lh)) as [k7 E7].
  pose proof (wraps_range (wraps H (wraps H hi + hl) + lh)) as R.
  assert (WF : wf (mk256 lo (wraps H (wraps H (wraps H hi + hl) + lh)))).
  { split; cbn [low high]; assumption. }
  split; [exact WF|].
  assert (P : value a * value b
              = high a * high b * (W * W) + (high a * low b + low a * high b) * W + (W * hi + lo)).
  { rewrite <- Hm. unfold val. fold W. ring. }
  rewrite P.
  apply wrap256_unique with
    (k := k5 + k3 + k6 + k7 + k4 + high a * k1 + k2 * high b - high a * high b).
  - apply (val_range _ WF).
  - unfold val. cbn [low high]. fold W. rewrite E7, E6, E5, E3, E4, E1, E2. ring.
Qed.

(* ---- cmp *)
Theorem cmp256_spec a b : wf a -> wf b -> cmp256 a b = (value a ?= value b).
Proof.
  unfold wf, cmp256, val. fold W. intros [Hal Hah] [Hbl Hbh]. pose proof Wpos.
  destruct (Z.compare_spec (high a) (high b)) as [E|L|G].
  - rewrite E. destruct (Z.compare_spec (low a) (low b)); symmetry.
    + apply Z.compare_eq_iff. lia.
    + apply Z.compare_lt_iff. lia.
    + apply Z.compare_gt_iff. lia.
  - symmetry. apply Z.compare_lt_iff. nia.
  - symmetry. apply Z.compare_gt_iff. nia.
Qed.

End P.
