(* C11 — unfolding lemmas: the nested fixpoints of the model as standalone list functions,
   and an induction principle for field types. *)
From Coq Require Import List Arith NArith ZArith Lia Bool.
From AV Require Import Model.C11_Row.
Import ListNotations.
Local Open Scope N_scope.

Lemma ftype_ind' (P : ftype -> Prop)
  (HInt : forall w, P (TInt w)) (HUInt : forall w, P (TUInt w)) (HBool : P TBool)
  (HFloat : forall w, P (TFloat w)) (HFsb : forall n, P (TFsb n)) (HVar : P TVar)
  (HStruct : forall fs, Forall P fs -> P (TStruct fs))
  (HList : forall c, P c -> P (TList c)) (HFsl : forall c n, P c -> P (TFsl c n))
  (HRee : forall c, P c -> P (TRee c)) (HIv : forall ws, P (TIv ws)) : forall t, P t.
Proof.
  fix IH 1. intros [w|w| |w|n| |fs|c|c n|c|ws].
  - apply HInt. - apply HUInt. - apply HBool. - apply HFloat. - apply HFsb. - apply HVar.
  - apply HStruct. induction fs as [|f fs IHfs]; constructor; [apply IH | exact IHfs].
  - apply HList, IH. - apply HFsl, IH. - apply HRee, IH. - apply HIv.
Qed.

(* ------------------------------------------------------------------ struct *)
Fixpoint enc_fields (fs : list ftype) (o : opts) (vs : list value) : list N :=
  match fs with
  | [] => []
  | f :: fs' => enc f o (hd VNull vs) ++ enc_fields fs' o (tl vs)
  end.

Fixpoint null_fields (fs : list ftype) (o : opts) : list N :=
  match fs with
  | [] => []
  | f :: fs' => enc f o VNull ++ null_fields fs' o
  end.

Lemma enc_struct_valid fs o vs : enc (TStruct fs) o (VStruct vs) = 1 :: enc_fields fs o vs.
Proof.
  cbn [enc]. f_equal. revert vs. induction fs as [|f fs IH]; intros vs; [reflexivity|].
  cbn [enc_fields]. first [reflexivity | now rewrite <- IH | now rewrite IH].
Qed.

Lemma enc_struct_null fs o : enc (TStruct fs) o VNull = null_sentinel o :: null_fields fs o.
Proof.
  cbn [enc]. f_equal. induction fs as [|f fs IH]; [reflexivity|].
  cbn [null_fields]. first [reflexivity | now rewrite <- IH | now rewrite IH].
Qed.

Fixpoint struct_cmp (cf : ftype -> value -> value -> comparison) (fs : list ftype) (xs ys : list value) : comparison :=
  match fs with
  | [] => Eq
  | f :: fs' =>
    match cf f (hd VNull xs) (hd VNull ys) with
    | Eq => struct_cmp cf fs' (tl xs) (tl ys)
    | c => c
    end
  end.

Lemma cmp_asc_struct fs nf xs ys :
  cmp_asc (TStruct fs) nf (VStruct xs) (VStruct ys) = struct_cmp (fun f => cmp_asc f nf) fs xs ys.
Proof.
  cbn [cmp_asc]. revert xs ys. induction fs as [|f fs IH]; intros xs ys; [reflexivity|].
  cbn [struct_cmp]. first [reflexivity | now rewrite <- IH | now rewrite IH].
Qed.

Fixpoint wt_fields (fs : list ftype) (vs : list value) : Prop :=
  match fs, vs with
  | [], [] => True
  | f :: fs', x :: vs' => wt f x /\ wt_fields fs' vs'
  | _, _ => False
  end.

Lemma wt_struct fs vs : wt (TStruct fs) (VStruct vs) = wt_fields fs vs.
Proof.
  cbn [wt]. revert vs. induction fs as [|f fs IH]; intros vs; [reflexivity|].
  destruct vs as [|x vs]; [reflexivity|]. cbn [wt_fields]. first [reflexivity | now rewrite <- IH | now rewrite IH].
Qed.

Fixpoint wf_types (fs : list ftype) : Prop :=
  match fs with [] => True | f :: r => wf_type f /\ wf_types r end.

Lemma wf_type_struct fs : wf_type (TStruct fs) = wf_types fs.
Proof. cbn [wf_type]. induction fs as [|f fs IH]; [reflexivity|]. cbn [wf_types]. first [reflexivity | now rewrite <- IH | now rewrite IH]. Qed.

(* ------------------------------------------------------------------ lists *)
Fixpoint list_cmp (c : value -> value -> comparison) (xs ys : list value) : comparison :=
  match xs, ys with
  | [], [] => Eq
  | [], _ :: _ => Lt
  | _ :: _, [] => Gt
  | x :: xs', y :: ys' => match c x y with Eq => list_cmp c xs' ys' | r => r end
  end.

Lemma cmp_asc_list c nf xs ys :
  cmp_asc (TList c) nf (VList xs) (VList ys) = list_cmp (cmp_asc c nf) xs ys.
Proof.
  cbn [cmp_asc]. revert ys. induction xs as [|x xs IH]; intros [|y ys]; try reflexivity.
  cbn [list_cmp]. first [reflexivity | now rewrite <- IH | now rewrite IH].
Qed.

Lemma cmp_asc_fsl c n nf xs ys :
  cmp_asc (TFsl c n) nf (VList xs) (VList ys) = list_cmp (cmp_asc c nf) xs ys.
Proof.
  cbn [cmp_asc]. revert ys. induction xs as [|x xs IH]; intros [|y ys]; try reflexivity.
  cbn [list_cmp]. first [reflexivity | now rewrite <- IH | now rewrite IH].
Qed.

Fixpoint wt_all (c : ftype) (vs : list value) : Prop :=
  match vs with [] => True | x :: r => wt c x /\ wt_all c r end.

Lemma wt_list c vs : wt (TList c) (VList vs) = wt_all c vs.
Proof. cbn [wt]. induction vs as [|x vs IH]; [reflexivity|]. cbn [wt_all]. first [reflexivity | now rewrite <- IH | now rewrite IH]. Qed.

Lemma wt_fsl c n vs : wt (TFsl c n) (VList vs) = (length vs = n /\ wt_all c vs).
Proof. cbn [wt]. f_equal. induction vs as [|x vs IH]; [reflexivity|]. cbn [wt_all]. first [reflexivity | now rewrite <- IH | now rewrite IH]. Qed.

Lemma wt_all_Forall c vs : wt_all c vs <-> Forall (wt c) vs.
Proof.
  induction vs as [|x vs IH]; cbn [wt_all]; [split; constructor|].
  split; [intros [H1 H2]; constructor; tauto | intros H; inversion H; subst; tauto].
Qed.

(* ------------------------------------------------------------------ interval tuples *)
Fixpoint tuple_cmp (xs ys : list value) : comparison :=
  match xs, ys with
  | x :: xs', y :: ys' => match (vint x ?= vint y)%Z with Eq => tuple_cmp xs' ys' | r => r end
  | _, _ => Eq
  end.

Lemma cmp_asc_iv ws nf xs ys : cmp_asc (TIv ws) nf (VStruct xs) (VStruct ys) = tuple_cmp xs ys.
Proof.
  cbn [cmp_asc]. revert ys. induction xs as [|x xs IH]; intros [|y ys]; try reflexivity;
    cbn [tuple_cmp]; first [reflexivity | now rewrite <- IH | now rewrite IH].
Qed.

Fixpoint wt_tuple (ws : list nat) (vs : list value) : Prop :=
  match ws, vs with
  | [], [] => True
  | w :: ws', VInt z :: vs' =>
    (- 2 ^ (Z.of_N (bits w) - 1) <= z < 2 ^ (Z.of_N (bits w) - 1))%Z /\ wt_tuple ws' vs'
  | _, _ => False
  end.

Lemma wt_iv ws vs : wt (TIv ws) (VStruct vs) = wt_tuple ws vs.
Proof.
  cbn [wt]. revert vs. induction ws as [|w ws IH]; intros vs; [reflexivity|].
  destruct vs as [|[|z| | |] vs]; try reflexivity; cbn [wt_tuple];
    first [reflexivity | now rewrite <- IH | now rewrite IH].
Qed.

Fixpoint wf_widths (ws : list nat) : Prop :=
  match ws with [] => True | w :: r => (1 <= w)%nat /\ wf_widths r end.

Lemma wf_type_iv ws : wf_type (TIv ws) = wf_widths ws.
Proof. cbn [wf_type]. induction ws as [|w ws IH]; [reflexivity|]. cbn [wf_widths]. first [reflexivity | now rewrite <- IH | now rewrite IH]. Qed.
