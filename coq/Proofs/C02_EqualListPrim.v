(* C02 — (Large)List of a fixed-width child: `==` holds exactly when the logical columns coincide.
   Instance of the compositional list theorem with the primitive range theorem for the child. *)
From Coq Require Import List Arith NArith ZArith Bool Lia.
From AV Require Import Base.ListX Base.Bits Base.Bytes Model.C19_Bits Model.C09_Layout Model.C02_Logical Model.C02_Equal.
From AV Require Import Proofs.C02_Slice Proofs.C02_EqualNulls Proofs.C02_EqualPrim Proofs.C02_EqualBin Proofs.C02_EqualList.
Import ListNotations.

Lemma window_logical k s m : s + m <= p_len k -> window (logical k) s m = map (fun i => logical_at k (s + i)) (seq 0 m).
Proof. intros H. unfold window, logical. now apply window_map. Qed.

(* the child comparison on any range, for a fixed-width child *)
Lemma prim_range_ok w ka kb : p_ty ka = TFixed w -> p_ty kb = TFixed w ->
  spec_node ka = true -> spec_node kb = true -> wf_bytes (buf ka 0) -> wf_bytes (buf kb 0) ->
  forall s1 s2 m, s1 + m <= p_len ka -> s2 + m <= p_len kb ->
  (equal_nulls ka kb s1 s2 m && equal_values ka kb s1 s2 m = true
   <-> window (logical ka) s1 m = window (logical kb) s2 m).
Proof.
  intros Hta Htb Hsa Hsb Hwa Hwb s1 s2 m H1 H2.
  destruct (spec_node_fixed ka w Hta Hsa) as [_ Hba]. destruct (spec_node_fixed kb w Htb Hsb) as [_ Hbb].
  assert (Hev : equal_values ka kb s1 s2 m = primitive_equal w ka kb s1 s2 m)
    by (destruct ka; cbn [p_ty] in Hta; subst; reflexivity).
  rewrite Hev, andb_true_iff, equal_nulls_iff, !window_logical by assumption. rewrite map_seq_ext_iff.
  split.
  - intros [Hv He] i Hi.
    pose proof (proj1 (primitive_equal_iff w ka kb s1 s2 m ltac:(nia) ltac:(nia) Hv) He) as He'.
    rewrite (logical_at_fixed ka w _ Hta), (logical_at_fixed kb w _ Htb), <- (Hv i Hi).
    destruct (slot_valid ka (s1 + i)) eqn:Hval; [|reflexivity].
    specialize (He' i Hi Hval). rewrite !chunk_le_at. rewrite !Nat.add_assoc. now rewrite He'.
  - intros Hlog.
    assert (Hv : forall i, i < m -> slot_valid ka (s1 + i) = slot_valid kb (s2 + i)).
    { intros i Hi. specialize (Hlog i Hi). rewrite (logical_at_fixed ka w _ Hta), (logical_at_fixed kb w _ Htb) in Hlog.
      destruct (slot_valid ka (s1 + i)), (slot_valid kb (s2 + i)); try discriminate; reflexivity. }
    split; [exact Hv|]. apply primitive_equal_iff; [nia | nia | exact Hv|].
    intros i Hi Hval. specialize (Hlog i Hi). rewrite (logical_at_fixed ka w _ Hta), (logical_at_fixed kb w _ Htb), <- (Hv i Hi), Hval in Hlog.
    injection Hlog as Hle. rewrite !chunk_le_at, !Nat.add_assoc in Hle. apply le_val_inj in Hle; [exact Hle| | |].
    + apply wf_firstn_skipn, Hwa.
    + apply wf_firstn_skipn, Hwb.
    + unfold chunk. rewrite !firstn_skipn_length; [reflexivity|nia|nia].
Qed.

(* ------------------------------------------------------------------ structure of a well-formed list node *)
Lemma spec_node_list a large nullable c : p_ty a = TList large nullable c -> spec_node a = true ->
  exists k, p_kids a = [k] /\ dty_eqb (p_ty k) c = true /\ spec_nulls a = true /\ offs_ok a (offw large) (p_len k).
Proof.
  intros Ht H. unfold spec_node in H. rewrite Ht in H. cbn zeta in H.
  apply andb_true_iff in H as [_ H]. apply andb_true_iff in H as [H _]. apply andb_true_iff in H as [H Hoffs].
  apply andb_true_iff in H as [H Hkid]. apply andb_true_iff in H as [H Hk1]. apply andb_true_iff in H as [Hn _].
  apply Nat.eqb_eq in Hk1. unfold kid_is, kid in Hkid. unfold kid_len, kid in Hoffs.
  destruct (p_kids a) as [|k [|k2 r]] eqn:Ek; cbn [length] in Hk1; try discriminate. cbn [nth_error] in Hkid, Hoffs.
  exists k. split; [reflexivity|]. split; [exact Hkid|]. split; [exact Hn|].
  destruct (Nat.eq_dec (p_len a) 0) as [E0|Hpos].
  - unfold spec_offsets in Hoffs. rewrite E0 in Hoffs. cbn [Nat.eqb andb] in Hoffs.
    destruct (Nat.eqb_spec (length (buf a 0)) 0) as [Eb|Eb].
    + assert (Hz : forall i, off_at a (offw large) i = 0%Z).
      { intros i. unfold off_at, sle_at, le_at. destruct (buf a 0); [|discriminate Eb].
        rewrite skipn_nil, firstn_nil. destruct large; reflexivity. }
      constructor; intros; rewrite ?Hz; lia.
    + apply andb_true_iff in Hoffs as [Es Hlast]. apply andb_true_iff in Es as [_ Hm]. apply Z.leb_le in Hlast.
      unfold offsets_of in Hm, Hlast. rewrite E0 in Hm, Hlast. cbn [seq map monotone_from last] in Hm, Hlast.
      apply andb_true_iff in Hm as [Hm _]. apply Z.leb_le in Hm.
      constructor; rewrite ?E0.
      * intros i Hi. replace i with 0 by lia. unfold off_at. exact Hm.
      * intros i Hi. lia.
      * unfold off_at. exact Hlast.
  - destruct (spec_offsets_facts a (offw large) _ Hoffs ltac:(lia)) as (F1 & F2 & F3). constructor; assumption.
Qed.

Lemma logical_at_list large nullable c len off nulls bufs k kids i :
  let a := PArr (TList large nullable c) len off nulls bufs (k :: kids) in
  offs_ok a (offw large) (p_len k) -> i < len ->
  logical_at a i = if slot_valid a i then LList (lslice large a k i) else LNull.
Proof.
  intros a Hok Hi. unfold a at 1. cbn [logical_at]. fold (slot_valid a i).
  change (match nulls with None => true | Some nb => nb_valid nb i end) with (slot_valid a i).
  destruct (slot_valid a i); [|reflexivity]. f_equal.
  change (sle_at (nth 0 bufs []) (offw large) (off + i)) with (off_at a (offw large) i).
  replace (off + i + 1) with (off + S i) by lia.
  change (sle_at (nth 0 bufs []) (offw large) (off + S i)) with (off_at a (offw large) (S i)).
  rewrite (off_noff a (offw large) i Hok ltac:(cbn [p_len a]; unfold a; cbn [p_len]; lia)),
          (off_noff a (offw large) (S i) Hok ltac:(unfold a; cbn [p_len]; lia)).
  pose proof (noff_mono a (offw large) Hok i ltac:(unfold a; cbn [p_len]; lia)) as M1.
  pose proof (noff_le a (offw large) Hok (S i) (p_len a) ltac:(unfold a; cbn [p_len]; lia) ltac:(lia)) as M2.
  pose proof (noff_last a (offw large) Hok) as M3.
  unfold child_range.
  destruct (Z.leb_spec 0 (Z.of_nat (noff a (offw large) i))); [|lia].
  destruct (Z.leb_spec (Z.of_nat (noff a (offw large) i)) (Z.of_nat (noff a (offw large) (S i)))); [|lia].
  destruct (Z.leb_spec (Z.of_nat (noff a (offw large) (S i))) (Z.of_nat (p_len k))); [|lia].
  unfold lslice. rewrite window_logical by lia.
  rewrite Nat2Z.id. replace (Z.to_nat (Z.of_nat (noff a (offw large) (S i)) - Z.of_nat (noff a (offw large) i))) with (noff a (offw large) (S i) - noff a (offw large) i) by lia.
  rewrite (seq_shift_map (noff a (offw large) i)), map_map. reflexivity.
Qed.

Lemma dty_eqb_to_fixed t w : dty_eqb t (TFixed w) = true -> t = TFixed w.
Proof. destruct t; cbn [dty_eqb]; intros H; try discriminate. apply Nat.eqb_eq in H. now subst. Qed.
Lemma dty_eqb_list_fixed l n w t : dty_eqb (TList l n (TFixed w)) t = true <-> t = TList l n (TFixed w).
Proof.
  destruct t; cbn [dty_eqb]; split; intros H; try discriminate.
  - apply andb_true_iff in H as [H H3]. apply andb_true_iff in H as [H1 H2]. apply eqb_prop in H1, H2.
    apply dty_eqb_fixed in H3. now subst.
  - injection H as -> -> ->. rewrite !eqb_reflx. cbn [andb dty_eqb]. apply Nat.eqb_refl.
Qed.

Theorem equal_iff_logical_list_prim large nullable w a b :
  p_ty a = TList large nullable (TFixed w) -> spec_node a = true -> spec_node b = true ->
  (forall k, In k (p_kids a) -> spec_node k = true /\ wf_bytes (buf k 0)) ->
  (forall k, In k (p_kids b) -> spec_node k = true /\ wf_bytes (buf k 0)) ->
  (equal a b = true <-> p_ty a = p_ty b /\ logical a = logical b).
Proof.
  intros Ht Hsa Hsb Hka Hkb.
  destruct (spec_node_list a large nullable (TFixed w) Ht Hsa) as (ka & Eka & Htka & Hna & Hoa).
  apply dty_eqb_to_fixed in Htka.
  destruct (Hka ka ltac:(rewrite Eka; now left)) as [Hska Hwka].
  destruct a as [aty alen aoff anulls abufs akids]. cbn [p_ty p_kids] in Ht, Eka. subst aty akids.
  assert (Hside : forall b', p_ty b' = TList large nullable (TFixed w) -> spec_node b' = true ->
            (forall k, In k (p_kids b') -> spec_node k = true /\ wf_bytes (buf k 0)) -> alen = p_len b' ->
            (forall i, i < alen -> slot_valid (PArr (TList large nullable (TFixed w)) alen aoff anulls abufs [ka]) (0 + i) = slot_valid b' (0 + i)) ->
            (equal_values (PArr (TList large nullable (TFixed w)) alen aoff anulls abufs [ka]) b' 0 0 alen = true
             <-> forall i, i < alen -> logical_at (PArr (TList large nullable (TFixed w)) alen aoff anulls abufs [ka]) i = logical_at b' i)).
  { intros b' Htb' Hsb' Hkb' Hl Hv.
    destruct (spec_node_list b' large nullable (TFixed w) Htb' Hsb') as (kb & Ekb & Htkb & Hnb & Hob).
    apply dty_eqb_to_fixed in Htkb.
    destruct (Hkb' kb ltac:(rewrite Ekb; now left)) as [Hskb Hwkb].
    pose proof (list_equal_iff large nullable (TFixed w) alen aoff anulls abufs ka [] b' kb [] Ekb Hoa Hob
                  (prim_range_ok w ka kb Htka Htkb Hska Hskb Hwka Hwkb) 0 0 alen ltac:(lia) ltac:(lia) Hv) as L.
    etransitivity; [exact L|]. clear L.
    destruct b' as [bty blen boff bnulls bbufs bkids]. cbn [p_ty p_kids p_len] in *. subst bty bkids.
    split; intros H i Hi; specialize (H i Hi).
    - rewrite (logical_at_list large nullable (TFixed w) alen aoff anulls abufs ka [] i Hoa Hi).
      rewrite (logical_at_list large nullable (TFixed w) blen boff bnulls bbufs kb [] i Hob ltac:(lia)).
      specialize (Hv i Hi). cbn [Nat.add] in Hv, H. rewrite <- Hv.
      destruct (slot_valid (PArr (TList large nullable (TFixed w)) alen aoff anulls abufs [ka]) i) eqn:Hval; [|reflexivity]. f_equal. now apply H.
    - intros Hval. cbn [Nat.add] in *.
      rewrite (logical_at_list large nullable (TFixed w) alen aoff anulls abufs ka [] i Hoa Hi) in H.
      rewrite (logical_at_list large nullable (TFixed w) blen boff bnulls bbufs kb [] i Hob ltac:(lia)) in H.
      specialize (Hv i Hi). rewrite <- Hv, Hval in H. now injection H. }
  unfold equal, base_equal. cbn [p_ty p_len].
  rewrite !andb_true_iff, dty_eqb_list_fixed, Nat.eqb_eq, Nat.eqb_eq, equal_nulls_iff.
  split.
  - intros [[[[Htb Hl] Hnc] Hv] He]. split; [congruence|].
    apply logical_eq_iff. split; [exact Hl|].
    apply (Hside b Htb Hsb Hkb Hl Hv). exact He.
  - intros [Htb Hlog]. symmetry in Htb.
    apply logical_eq_iff in Hlog as [Hl Hlog]. cbn [p_len] in Hl, Hlog.
    destruct (spec_node_list b large nullable (TFixed w) Htb Hsb) as (kb & Ekb & Htkb & Hnb & Hob).
    assert (Hv : forall i, i < alen -> slot_valid (PArr (TList large nullable (TFixed w)) alen aoff anulls abufs [ka]) (0 + i) = slot_valid b (0 + i)).
    { intros i Hi. specialize (Hlog i Hi). cbn [Nat.add].
      destruct b as [bty blen boff bnulls bbufs bkids]. cbn [p_ty p_kids p_len] in *. subst bty bkids.
      rewrite (logical_at_list large nullable (TFixed w) alen aoff anulls abufs ka [] i Hoa Hi) in Hlog.
      rewrite (logical_at_list large nullable (TFixed w) blen boff bnulls bbufs kb [] i Hob ltac:(lia)) in Hlog.
      destruct (slot_valid (PArr (TList large nullable (TFixed w)) alen aoff anulls abufs [ka]) i),
               (slot_valid (PArr (TList large nullable (TFixed w)) blen boff bnulls bbufs [kb]) i); try discriminate; reflexivity. }
    repeat split; try assumption.
    + apply null_count_eq; assumption.
    + apply (Hside b Htb Hsb Hkb Hl Hv). exact Hlog.
Qed.
