(* C16 — objects that own their memory by type (MutableBuffer, Vec, PrimitiveBuilder) are the only
   reference to it, in every reachable state. *)
From Coq Require Import List Arith ZArith Bool Lia.
From AV Require Import Model.C16_Own Proofs.C16_Inv Proofs.C16_Ops Proofs.C16_Mut.
Import ListNotations.

(* ------------------------------------------------------------------ counting through the combinators *)
Lemma cnt_push o s id : cnt (push_slot o s) id = cnt s id + count_occ Nat.eq_dec (slot_refs o) id.
Proof.
  unfold cnt, all_refs, push_slot. cbn [slots nodes]. rewrite flat_map_app, !count_occ_app. cbn [flat_map].
  rewrite app_nil_r. lia.
Qed.
Lemma cnt_set j o s id : j < length (slots s) ->
  cnt (set_slot j o s) id + count_occ Nat.eq_dec (acts s j) id = cnt s id + count_occ Nat.eq_dec (slot_refs o) id.
Proof.
  intros H. destruct (nth_error (slots s) j) as [x|] eqn:E; [|apply nth_error_None in E; lia].
  unfold acts. rewrite (nth_error_nth _ _ _ E).
  unfold cnt, all_refs, set_slot. cbn [slots nodes]. rewrite !count_occ_app.
  pose proof (count_flat_map_upd slot_refs (slots s) j x o id E). lia.
Qed.
Lemma cnt_add n s id : cnt (add_node n s) id = cnt s id + count_occ Nat.eq_dec (node_refs n) id.
Proof.
  unfold cnt, all_refs, add_node. cbn [slots nodes]. rewrite flat_map_app, !count_occ_app. cbn [flat_map].
  rewrite app_nil_r. lia.
Qed.
Lemma all_refs_upd_same s id n n' p : nth_error (nodes s) id = Some n -> node_refs n' = node_refs n ->
  all_refs (mkS (upd_nth id n' (nodes s)) (slots s) p) = all_refs s.
Proof. intros H E. unfold all_refs. cbn [slots nodes]. rewrite (flat_map_upd_same node_refs _ _ _ _ H E). reflexivity. Qed.
Lemma all_refs_write id b s : all_refs (write_reg id b s) = all_refs s.
Proof.
  unfold write_reg, get_reg. destruct (nth_error (nodes s) id) as [[r|e]|] eqn:E; auto.
  unfold set_reg. apply all_refs_upd_same with (n := NReg r); auto.
Qed.
Lemma all_refs_set_resv id v s : all_refs (set_resv id v s) = all_refs s.
Proof.
  unfold set_resv, get_reg. destruct (nth_error (nodes s) id) as [[r|e]|] eqn:E; auto.
  apply all_refs_upd_same with (n := NReg r); auto.
Qed.
Lemma cnt_write id b s x : cnt (write_reg id b s) x = cnt s x.
Proof. unfold cnt. rewrite all_refs_write. reflexivity. Qed.
Lemma cnt_truncate id n s x : cnt (truncate_reg s id n) x = cnt s x.
Proof. apply cnt_write. Qed.
Lemma cnt_set_resv id v s x : cnt (set_resv id v s) x = cnt s x.
Proof. unfold cnt. rewrite all_refs_set_resv. reflexivity. Qed.
Lemma cnt_claim_regs ids s x : cnt (claim_regs ids s) x = cnt s x.
Proof. unfold claim_regs. revert s; induction ids as [|i t IH]; intros s; [reflexivity|]. cbn [fold_left]. rewrite IH. apply cnt_set_resv. Qed.

Lemma slots_write id b s : slots (write_reg id b s) = slots s.
Proof. unfold write_reg. destruct (get_reg s id); reflexivity. Qed.
Lemma slots_truncate id n s : slots (truncate_reg s id n) = slots s.
Proof. apply slots_write. Qed.
Lemma slots_set_resv id v s : slots (set_resv id v s) = slots s.
Proof. unfold set_resv. destruct (get_reg s id); reflexivity. Qed.
Lemma slots_claim_regs ids s : slots (claim_regs ids s) = slots s.
Proof. unfold claim_regs. revert s; induction ids as [|i t IH]; intros s; [reflexivity|]. cbn [fold_left]. rewrite IH. apply slots_set_resv. Qed.

Lemma get_slot_ext s s' j : slots s' = slots s -> get_slot s' j = get_slot s j.
Proof. unfold get_slot. intros ->. reflexivity. Qed.
Lemma acts_ext s s' j : slots s' = slots s -> acts s' j = acts s j.
Proof. unfold acts. intros ->. reflexivity. Qed.

Lemma gs_push_lt o s j : j < length (slots s) -> get_slot (push_slot o s) j = get_slot s j.
Proof. intros H. unfold get_slot, push_slot. cbn [slots]. rewrite nth_error_app1 by exact H. reflexivity. Qed.
Lemma gs_push_eq o s : get_slot (push_slot o s) (length (slots s)) = o.
Proof. unfold get_slot, push_slot. cbn [slots]. rewrite nth_error_app_last. destruct o; reflexivity. Qed.
Lemma gs_push_gt o s j : length (slots s) < j -> get_slot (push_slot o s) j = None.
Proof.
  intros H. unfold get_slot, push_slot. cbn [slots].
  assert (E : nth_error (slots s ++ [o]) j = None).
  { apply nth_error_None. rewrite app_length. cbn [length]. lia. }
  rewrite E. reflexivity.
Qed.
Lemma gs_set_eq j o s : j < length (slots s) -> get_slot (set_slot j o s) j = o.
Proof. intros H. unfold get_slot, set_slot. cbn [slots]. rewrite nth_error_upd_nth_eq by exact H. destruct o; reflexivity. Qed.
Lemma gs_set_ne j j' o s : j <> j' -> get_slot (set_slot j' o s) j = get_slot s j.
Proof. intros H. unfold get_slot, set_slot. cbn [slots]. rewrite nth_error_upd_nth_ne by auto. reflexivity. Qed.
Lemma get_slot_lt s j o : get_slot s j = Some o -> j < length (slots s).
Proof. unfold get_slot. intros H. apply nth_error_Some. destruct (nth_error (slots s) j); [discriminate|discriminate H]. Qed.

(* ------------------------------------------------------------------ settle keeps exclusivity *)
Lemma settle_from_cnt_le k pre cur id : cnt (settle_from k pre cur) id <= cnt cur id.
Proof.
  revert cur; induction k as [|k IH]; intros cur; [cbn [settle_from]; lia|]. cbn [settle_from].
  destruct (_ && _); [|apply IH]. etransitivity; [apply IH|].
  destruct (nth_error (nodes cur) k) as [n|] eqn:E.
  - pose proof (release_cnt cur k n id E). lia.
  - unfold release. rewrite E. lia.
Qed.

Lemma excl_settle pre cur : Excl cur -> Excl (settle pre cur).
Proof.
  intros X j o id Hs Hk Hin.
  assert (Hs' : get_slot cur j = Some o) by (rewrite <- Hs; symmetry; apply get_slot_ext, settle_slots).
  pose proof (X j o id Hs' Hk Hin) as H1.
  pose proof (settle_from_cnt_le (length (nodes cur)) pre cur id) as Hle. fold (settle pre cur) in Hle.
  assert (0 < cnt (settle pre cur) id).
  { apply in_refs_cnt. eapply get_slot_refs; eauto. }
  lia.
Qed.

(* ------------------------------------------------------------------ the frame: slots the operation does not touch *)
Lemma in_opA s p id : In id (opA s p) ->
  In id (acts s (o_a p)) \/
  (In id (acts s (o_b p)) /\ (o_code p = 11 \/ o_code p = 13 \/ (o_code p = 23 /\ o_c p = 1))).
Proof.
  unfold opA. destruct (o_code p) as [|[|[|[|[|[|[|[|[|[|[|[|[|[|[|[|[|[|[|[|[|[|[|[|c]]]]]]]]]]]]]]]]]]]]]]]]; cbn [In];
    try tauto; try solve [intros H; apply in_app_or in H; destruct H; [left; auto|right; split; auto]].
  intros H0; apply in_app_or in H0; destruct H0 as [H0|H0]; [left; auto|right].
  destruct (Nat.eqb_spec (o_c p) 1); [split; auto|destruct H0].
Qed.

Lemma excl_frame s p s1 j o id : Inv s -> Excl s -> RawA s (opA s p) (opT p) s1 ->
  ~ In j (opT p) -> j < length (slots s) -> (o_code p = 23 -> o_c p = 1 -> j <> o_b p) ->
  get_slot s1 j = Some o -> is_excl_kind (okind o) = true -> In id (obj_refs o) -> cnt s1 id = 1.
Proof.
  intros I X R HnT Hlt H23 Hs Hk Hin.
  assert (Hs0 : get_slot s j = Some o).
  { unfold get_slot in *. rewrite <- (ra_slots _ _ _ _ R j HnT Hlt). exact Hs. }
  pose proof (X j o id Hs0 Hk Hin) as H1.
  assert (Hidlt : id < length (nodes s)).
  { destruct (inv1 _ I id (get_slot_refs _ _ _ _ Hs0 Hin)) as (n & Hn & _). apply nth_error_Some. unfold node_at in Hn. congruence. }
  assert (HnA : ~ In id (opA s p)).
  { intros HA. assert (Hj : In id (acts s j)) by (rewrite (get_slot_acts _ _ _ Hs0); exact Hin).
    apply (count_occ_In Nat.eq_dec) in Hj.
    assert (Hne2 : forall t, In id (acts s t) -> t <> j -> False).
    { intros t Ht Hne. apply (count_occ_In Nat.eq_dec) in Ht. pose proof (count_two_slots s t j id Hne). lia. }
    destruct (in_opA _ _ _ HA) as [Ha|[Hb Hc]].
    - apply (Hne2 _ Ha). intros <-. apply HnT. unfold opT, opA in *.
      destruct (o_code p) as [|[|[|[|[|[|[|[|[|[|[|[|[|[|[|[|[|[|[|[|[|[|[|[|c]]]]]]]]]]]]]]]]]]]]]]]]; cbn [In] in *; tauto.
    - apply (Hne2 _ Hb). intros <-. destruct Hc as [Hc|[Hc|[Hc Hc1]]].
      + apply HnT. unfold opT. rewrite Hc. cbn. auto.
      + apply HnT. unfold opT. rewrite Hc. cbn. auto.
      + apply (H23 Hc Hc1). reflexivity. }
  pose proof (ra_cnt _ _ _ _ R id Hidlt HnA) as Hle.
  assert (0 < cnt s1 id) by (apply in_refs_cnt; eapply get_slot_refs; eauto).
  lia.
Qed.

(* ------------------------------------------------------------------ the slots an operation touches or creates *)
Definition TBJ (s : state) (J : nat -> Prop) (s1 : state) : Prop :=
  forall j o id, J j \/ length (slots s) <= j -> get_slot s1 j = Some o ->
                 is_excl_kind (okind o) = true -> In id (obj_refs o) -> cnt s1 id = 1.

Lemma gs_push_cases o' s' j o : get_slot (push_slot o' s') j = Some o ->
  (j < length (slots s') /\ get_slot s' j = Some o) \/ (j = length (slots s') /\ o' = Some o).
Proof.
  intros H. destruct (lt_eq_lt_dec j (length (slots s'))) as [[Hlt|Heq]|Hgt].
  - left. rewrite gs_push_lt in H by exact Hlt. auto.
  - right. subst j. rewrite gs_push_eq in H. auto.
  - rewrite gs_push_gt in H by exact Hgt. discriminate.
Qed.
Lemma gs_set_cases i o' s' j o : get_slot (set_slot i o' s') j = Some o ->
  (j <> i /\ get_slot s' j = Some o) \/ (j = i /\ i < length (slots s') /\ o' = Some o).
Proof.
  intros H. destruct (Nat.eq_dec j i) as [->|Hne]; [|left; rewrite gs_set_ne in H by exact Hne; auto].
  right. destruct (Nat.lt_ge_cases i (length (slots s'))) as [Hlt|Hge].
  - rewrite gs_set_eq in H by exact Hlt. auto.
  - unfold get_slot, set_slot in H. cbn [slots] in H. rewrite upd_nth_oob in H by exact Hge.
    rewrite (proj2 (nth_error_None _ _) Hge) in H. discriminate.
Qed.

Lemma excl_same s s1 : Excl s -> slots s1 = slots s -> (forall id, cnt s1 id = cnt s id) -> Excl s1.
Proof. intros X Hs Hc j o id H Hk Hin. rewrite (get_slot_ext _ _ _ Hs) in H. rewrite Hc. eapply X; eauto. Qed.

Lemma tbj_of_excl s J s1 : Excl s1 -> TBJ s J s1.
Proof. intros X j o id _ H Hk Hin. eapply X; eauto. Qed.

Lemma cnt_fresh_zero s id : Inv s -> length (nodes s) <= id -> cnt s id = 0.
Proof.
  intros I H. destruct (cnt s id) as [|c] eqn:C; [reflexivity|exfalso].
  assert (Hin : In id (all_refs s)) by (apply in_refs_cnt; lia).
  destruct (inv1 _ I id Hin) as (n & Hn & _). unfold node_at in Hn.
  assert (id < length (nodes s)) by (apply nth_error_Some; congruence). lia.
Qed.

Lemma excl_na1 s : Excl s -> Excl (push_slot None s).
Proof.
  intros X j o id H Hk Hin. apply gs_push_cases in H as [[_ H]|[_ H]]; [|discriminate].
  rewrite cnt_push. cbn. rewrite Nat.add_0_r. eapply X; eauto.
Qed.

Section TB.
  Variable s : state.
  Hypothesis I : Inv s.
  Hypothesis X : Excl s.

  Ltac na := first [apply tbj_of_excl; exact X | apply tbj_of_excl; apply excl_na1; exact X].
  Ltac kind_contra := match goal with
    | H : is_excl_kind _ = true |- _ => cbn in H; try discriminate H
    end.

  (* operations without operands: only the new slot matters *)
  Lemma tb_new_std e d : TBJ s (fun _ => False) (fst (ex_new_std s e d)).
  Proof.
    unfold ex_new_std. destruct (_ && _); [|cbn [fst na1]; na]. cbn [fst].
    intros j o id [[]|Hge] H Hk Hin. apply gs_push_cases in H as [[Hlt _]|[_ H]]; [cbn [add_node slots] in Hlt; lia|].
    injection H as <-. kind_contra.
  Qed.
  Lemma tb_new_cust c d : TBJ s (fun _ => False) (fst (ex_new_cust s c d)).
  Proof.
    unfold ex_new_cust. cbn [fst].
    intros j o id [[]|Hge] H Hk Hin. apply gs_push_cases in H as [[Hlt _]|[_ H]]; [cbn [add_node slots] in Hlt; lia|].
    injection H as <-. kind_contra.
  Qed.
  Lemma tb_new_mut c d : TBJ s (fun _ => False) (fst (ex_new_mut s c d)).
  Proof.
    unfold ex_new_mut. destruct (_ <=? _); [|cbn [fst na1]; na]. cbn [fst].
    intros j o id [[]|Hge] H Hk Hin. apply gs_push_cases in H as [[Hlt _]|[_ H]]; [cbn [add_node slots] in Hlt; lia|].
    injection H as <-. cbn in Hin. destruct Hin as [<-|[]].
    rewrite cnt_push, cnt_add. cbn [slot_refs obj_refs ohs map hreg node_refs fresh_region r_rel r_owner count_occ].
    rewrite (cnt_fresh_zero s (next_id s) I (le_n _)).
    destruct (Nat.eq_dec (next_id s) (next_id s)); [reflexivity|congruence].
  Qed.

  Variable i : nat.
  Let J := fun j => j = i.

  Lemma tb_clone : TBJ s J (fst (ex_clone s i)).
  Proof.
    unfold ex_clone. destruct (get_slot s i) as [oi|] eqn:E; [|cbn [fst na1]; na].
    destruct (is_shared_kind (okind oi)) eqn:K; [|cbn [fst na1]; na]. cbn [fst].
    intros j o id HJ H Hk Hin. apply gs_push_cases in H as [[Hlt H]|[_ H]].
    - destruct HJ as [->|Hge]; [|lia]. rewrite E in H. injection H as <-.
      unfold is_shared_kind, is_excl_kind in *. destruct (okind oi) as [|[|[|[|[|[|[|[|k]]]]]]]]; discriminate.
    - injection H as <-. unfold is_shared_kind, is_excl_kind in *. destruct (okind oi) as [|[|[|[|[|[|[|[|k]]]]]]]]; discriminate.
  Qed.

  (* a result whose touched slot keeps a non-exclusive object and whose new slot is non-exclusive *)
  Lemma tb_push_shared s' o' : slots s' = slots s ->
    (forall oi, get_slot s i = Some oi -> is_excl_kind (okind oi) = false) ->
    (forall o, o' = Some o -> is_excl_kind (okind o) = false) -> TBJ s J (push_slot o' s').
  Proof.
    intros Hs Hi Ho j o id HJ H Hk Hin. apply gs_push_cases in H as [[Hlt H]|[_ H]].
    - rewrite Hs in Hlt. destruct HJ as [->|Hge]; [|lia]. rewrite (get_slot_ext _ _ _ Hs) in H.
      rewrite (Hi o H) in Hk. discriminate.
    - rewrite (Ho o H) in Hk. discriminate.
  Qed.
  Lemma tb_set_shared s' o' : (forall o, o' = Some o -> is_excl_kind (okind o) = false) -> slots s' = slots s ->
    TBJ s J (set_slot i o' s').
  Proof.
    intros Ho Hs j o id HJ H Hk Hin. apply gs_set_cases in H as [[Hne H]|(-> & _ & H)].
    - destruct HJ as [->|Hge]; [congruence|]. apply get_slot_lt in H. rewrite Hs in H. lia.
    - rewrite (Ho o H) in Hk. discriminate.
  Qed.

  Lemma slot_k_kind k hs oi : slot_k s i k = Some hs -> get_slot s i = Some oi -> okind oi = k.
  Proof. intros H E. apply slot_k_some in H as (o0 & Ho & Hk & _). congruence. Qed.
  Lemma slot_1_kind k h oi : slot_1 s i k = Some h -> get_slot s i = Some oi -> okind oi = k.
  Proof. intros H E. apply slot_1_some in H as (o0 & Ho & Hk & _). congruence. Qed.

  Lemma tb_slice a b : TBJ s J (fst (ex_slice s i a b)).
  Proof.
    unfold ex_slice. destruct (get_slot s i) as [oi|] eqn:E; [|cbn [fst na1]; na].
    destruct (okind oi) as [|[|[|[|[|[|[|k]]]]]]] eqn:K; try (cbn [fst na1]; na);
      destruct (ohs oi) as [|v rest]; try (cbn [fst na1]; na); try (destruct rest; try (cbn [fst na1]; na));
      destruct (_ <=? _); try (cbn [fst na1]; na); cbn [fst];
      (apply tb_push_shared; [reflexivity|intros oi' E'; rewrite E in E'; injection E' as <-; rewrite K; reflexivity|intros o [= <-]; reflexivity]).
  Qed.
  Lemma tb_drop : TBJ s J (fst (ex_drop s i)).
  Proof.
    unfold ex_drop. destruct (get_slot s i); [|cbn [fst na0]; na]. cbn [fst].
    apply tb_set_shared; [intros o9 [=]|reflexivity].
  Qed.
  Lemma tb_into_mutable : TBJ s J (fst (ex_into_mutable s i)).
  Proof.
    unfold ex_into_mutable. destruct (slot_1 s i 1) as [h|] eqn:E; [|cbn [fst na0]; na].
    destruct (into_mutable_ok s h _) eqn:G; [|cbn [fst]; na]. cbn [fst].
    intros j o id HJ H Hk Hin. apply gs_set_cases in H as [[Hne H]|(-> & Hlt & H)].
    - destruct HJ as [->|Hge]; [congruence|]. apply get_slot_lt in H. rewrite slots_truncate in H. lia.
    - injection H as <-. cbn in Hin. destruct Hin as [<-|[]].
      pose proof (cnt_set i (Some (mkO 2 [mkH (hreg h) 0 (hlen h) 0 0] [])) (truncate_reg s (hreg h) (hlen h)) (hreg h) Hlt) as Hc.
      rewrite (acts_ext s _ i (slots_truncate _ _ _)), (slot_1_acts _ _ _ _ E), cnt_truncate in Hc.
      cbn [slot_refs obj_refs ohs map hreg] in Hc. apply into_mutable_ok_cnt in G. lia.
  Qed.
  Lemma tb_freeze k : TBJ s J (fst (ex_freeze s i k)).
  Proof.
    unfold ex_freeze. destruct (slot_1 s i k); [|cbn [fst na0]; na]. cbn [fst].
    apply tb_set_shared; [intros o [= <-]; reflexivity|reflexivity].
  Qed.
  Lemma tb_write k pos v : TBJ s J (fst (ex_write s i k pos v)).
  Proof.
    unfold ex_write. destruct (slot_k s i k) as [[|h t]|]; try (cbn [fst na0]; na).
    destruct (_ <? _); [|cbn [fst na0]; na]. cbn [fst]. apply tbj_of_excl.
    apply (excl_same s); [exact X|apply slots_write|intros; apply cnt_write].
  Qed.
  Lemma tb_into_vec e : TBJ s J (fst (ex_into_vec s i e)).
  Proof.
    unfold ex_into_vec. destruct (slot_1 s i 1) as [h|] eqn:E; [|cbn [fst na0]; na].
    destruct (_ || _); [|cbn [fst na0]; na]. destruct (into_vec_ok s h e _) eqn:G; [|cbn [fst]; na]. cbn [fst].
    set (s' := set_resv (hreg h) None (truncate_reg s (hreg h) (hlen h / e * e))).
    assert (Hs' : slots s' = slots s) by (unfold s'; rewrite slots_set_resv; apply slots_truncate).
    intros j o id HJ H Hk Hin. apply gs_set_cases in H as [[Hne H]|(-> & Hlt & H)].
    - destruct HJ as [->|Hge]; [congruence|]. apply get_slot_lt in H. rewrite Hs' in H. lia.
    - injection H as <-. cbn in Hin. destruct Hin as [<-|[]].
      pose proof (cnt_set i (Some (mkO 3 [mkH (hreg h) 0 (hlen h / e * e) 0 0] [e])) s' (hreg h) Hlt) as Hc.
      rewrite (acts_ext s _ i Hs'), (slot_1_acts _ _ _ _ E) in Hc. unfold s' in Hc at 2. rewrite cnt_set_resv, cnt_truncate in Hc.
      cbn [slot_refs obj_refs ohs map hreg] in Hc. apply into_vec_ok_cnt in G. lia.
  Qed.
  Lemma tb_wrap_bits a b : TBJ s J (fst (ex_wrap_bits s i a b)).
  Proof.
    unfold ex_wrap_bits. destruct (slot_1 s i 1); [|cbn [fst na0]; na]. destruct (_ <=? _); [|cbn [fst na0]; na]. cbn [fst].
    apply tb_set_shared; [intros o [= <-]; reflexivity|reflexivity].
  Qed.
  Lemma tb_finish : TBJ s J (fst (ex_finish s i)).
  Proof.
    unfold ex_finish. destruct (slot_k s i 7); [|cbn [fst na0]; na]. cbn [fst].
    apply tb_set_shared; [intros o [= <-]; reflexivity|reflexivity].
  Qed.
  Lemma tb_claim : TBJ s J (fst (ex_claim s i)).
  Proof.
    unfold ex_claim. destruct (get_slot s i) as [oi|]; [|cbn [fst na0]; na]. destruct (_ || _); [|cbn [fst na0]; na].
    destruct (all_capk s _); [|cbn [fst na0]; na]. cbn [fst]. apply tbj_of_excl.
    apply (excl_same s); [exact X|apply slots_claim_regs|intros; apply cnt_claim_regs].
  Qed.
  Lemma tb_truncate a : TBJ s J (fst (ex_truncate s i a)).
  Proof.
    unfold ex_truncate. destruct (slot_1 s i 2) as [h|] eqn:E; [|cbn [fst na0]; na].
    destruct (_ <=? _); [|cbn [fst]; na]. cbn [fst].
    set (s1 := truncate_reg s (hreg h) a).
    set (s2 := match get_reg s1 (hreg h) with
               | Some r => match r_resv r with Some _ => set_resv (hreg h) (Some a) s1 | None => s1 end
               | None => s1 end).
    assert (Hs2 : slots s2 = slots s).
    { unfold s2. destruct (get_reg s1 (hreg h)) as [r|]; [destruct (r_resv r)|]; rewrite ?slots_set_resv; apply slots_truncate. }
    assert (Hc2 : forall id, cnt s2 id = cnt s id).
    { intros id. unfold s2. destruct (get_reg s1 (hreg h)) as [r|]; [destruct (r_resv r)|]; rewrite ?cnt_set_resv; apply cnt_truncate. }
    intros j o id HJ H Hk Hin. apply gs_set_cases in H as [[Hne H]|(-> & Hlt & H)].
    - destruct HJ as [->|Hge]; [congruence|]. apply get_slot_lt in H. rewrite Hs2 in H. lia.
    - injection H as <-. cbn in Hin. destruct Hin as [<-|[]].
      pose proof (cnt_set i (Some (mkO 2 [mkH (hreg h) 0 a 0 0] [])) s2 (hreg h) Hlt) as Hc.
      rewrite (acts_ext s _ i Hs2), (slot_1_acts _ _ _ _ E), Hc2 in Hc.
      cbn [slot_refs obj_refs ohs map hreg] in Hc.
      assert (cnt s (hreg h) = 1).
      { apply slot_1_some in E as (oi & Hoi & Hki & Eo). apply (X i oi (hreg h) Hoi); [rewrite Hki; reflexivity|].
        unfold obj_refs. rewrite Eo. left. reflexivity. }
      lia.
  Qed.
  Lemma tb_take nl : TBJ s J (fst (ex_take s i nl)).
  Proof.
    unfold ex_take. destruct (get_slot s i) as [oi|]; [|cbn [fst na0]; na]. destruct (_ || _); [|cbn [fst na0]; na].
    destruct (ohs oi) as [|v [|n [|]]]; try (cbn [fst na0]; na); destruct nl; try (cbn [fst na0]; na); cbn [fst];
      (apply tb_set_shared; [intros o9 [= <-]; destruct (okind oi =? 4); reflexivity|reflexivity]).
  Qed.
  Lemma tb_bit_assign a w : TBJ s J (fst (ex_bit_assign s i a w)).
  Proof.
    unfold ex_bit_assign. destruct (slot_1 s i 5) as [h|]; [|cbn [fst na0]; na]. destruct (slot_1 s a 5); [|cbn [fst na0]; na].
    destruct (_ && _); [|cbn [fst na0]; na]. destruct (into_mutable_ok s h _); cbn [fst].
    - apply tbj_of_excl. apply (excl_same s); [exact X|rewrite slots_write; apply slots_truncate|intros; rewrite cnt_write; apply cnt_truncate].
    - apply tb_set_shared; [intros o [= <-]; reflexivity|reflexivity].
  Qed.
  Lemma tb_export : TBJ s J (fst (ex_export s i)).
  Proof.
    unfold ex_export. destruct (get_slot s i) as [oi|] eqn:E; [|cbn [fst na1]; na].
    destruct ((okind oi =? 4) || (okind oi =? 6)) eqn:K; [|cbn [fst na1]; na].
    destruct (export_arr s (okind oi) true (ohs oi)) as [s1 e] eqn:Ee. cbn [fst].
    apply tb_push_shared.
    - pose proof (f_equal fst Ee) as H1. cbn [fst] in H1. rewrite <- H1. clear.
      unfold export_arr. destruct (filter_nulls s (ohs oi)) as [|v [|n [|]]]; try reflexivity.
      destruct (_ =? hbo n); [reflexivity|]. destruct (_ =? 0); [|reflexivity].
      unfold sliced. destruct (_ =? 0); reflexivity.
    - intros oi' E'. rewrite E in E'. injection E' as <-.
      unfold is_excl_kind. apply orb_true_iff in K as [K|K]; apply Nat.eqb_eq in K; rewrite K; reflexivity.
    - intros o [= <-]. reflexivity.
  Qed.
  Lemma import_arr_slots s0 e : slots (fst (import_arr s0 e)) = slots s0.
  Proof.
    unfold import_arr. destruct (get_exp s0 e) as [ex|]; [|reflexivity]. destruct (e_bufs ex) as [|v rest]; [reflexivity|].
    destruct (_ =? 0); cbn [import_buf]; destruct rest; reflexivity.
  Qed.
  Lemma import_arr_kind s0 e o : snd (import_arr s0 e) = Some o -> is_excl_kind (okind o) = false.
  Proof.
    unfold import_arr. destruct (get_exp s0 e) as [ex|]; [|discriminate]. destruct (e_bufs ex) as [|v rest]; [discriminate|].
    destruct (_ =? 0); cbn [import_buf]; destruct rest; cbn [snd]; intros [= <-]; cbn [okind]; destruct (e_kind ex =? 6); reflexivity.
  Qed.
  Lemma export_arr_slots s0 k c hs : slots (fst (export_arr s0 k c hs)) = slots s0.
  Proof.
    unfold export_arr. destruct (filter_nulls s0 hs) as [|v [|n [|]]]; try reflexivity.
    destruct (_ =? hbo n); [reflexivity|]. destruct (_ =? 0); [|reflexivity]. unfold sliced. destruct (_ =? 0); reflexivity.
  Qed.
  Lemma tb_import : TBJ s J (fst (ex_import s i)).
  Proof.
    unfold ex_import. destruct (slot_1 s i 8) as [h|]; [|cbn [fst na0]; na].
    pose proof (import_arr_slots s (hreg h)) as Hs. pose proof (import_arr_kind s (hreg h)) as Hk.
    destruct (import_arr s (hreg h)) as [s1 o']. cbn [fst snd] in *. apply tb_set_shared; auto.
  Qed.
  Lemma tb_stream_new a b : TBJ s J (fst (ex_stream_new s i a b)).
  Proof.
    unfold ex_stream_new. destruct (slot_k s i 4) as [hs|] eqn:E; [|cbn [fst na1]; na].
    assert (Hi : forall oi, get_slot s i = Some oi -> is_excl_kind (okind oi) = false).
    { intros oi Hoi. rewrite (slot_k_kind _ _ _ E Hoi). reflexivity. }
    destruct (b =? 1); [destruct (slot_k s a 4); [|cbn [fst na1]; na]|]; cbn [fst];
      (apply tb_push_shared; [reflexivity|exact Hi|intros o [= <-]; reflexivity]).
  Qed.
  Lemma tb_stream_next : TBJ s J (fst (ex_stream_next s i)).
  Proof.
    unfold ex_stream_next. destruct (get_slot s i) as [oi|] eqn:E; [|cbn [fst na1]; na].
    destruct (okind oi =? 9) eqn:K; [|cbn [fst na1]; na]. destruct (oaux oi) as [|k ks]; [cbn [fst]; na|].
    pose proof (export_arr_slots s 4 false (firstn k (ohs oi))) as Hs1.
    destruct (export_arr s 4 false (firstn k (ohs oi))) as [s1 e]. cbn [fst] in *.
    pose proof (import_arr_slots s1 e) as Hs2. pose proof (import_arr_kind s1 e) as Hk2.
    destruct (import_arr s1 e) as [s2 o2]. cbn [fst snd] in *.
    intros j o id HJ H Hk Hin. apply gs_push_cases in H as [[Hlt H]|[_ H]].
    - apply gs_set_cases in H as [[Hne H]|(-> & _ & H)].
      + destruct HJ as [->|Hge]; [congruence|]. cbn [set_slot slots] in Hlt. rewrite upd_nth_length, Hs2, Hs1 in Hlt. lia.
      + injection H as <-. discriminate.
    - rewrite (Hk2 o H) in Hk. discriminate.
  Qed.
End TB.

(* ------------------------------------------------------------------ constructors that merge two slots *)
Lemma excl_set_samerefs s i oi o' : Excl s -> get_slot s i = Some oi -> obj_refs o' = obj_refs oi ->
  is_excl_kind (okind o') = false -> Excl (set_slot i (Some o') s).
Proof.
  intros X E Hr Hk. pose proof (get_slot_lt _ _ _ E) as Hlt.
  assert (Hc : forall id, cnt (set_slot i (Some o') s) id = cnt s id).
  { intros id. pose proof (cnt_set i (Some o') s id Hlt) as H. rewrite (get_slot_acts _ _ _ E) in H.
    cbn [slot_refs] in H. rewrite Hr in H. lia. }
  intros j o id H Hko Hin. rewrite Hc. apply gs_set_cases in H as [[Hne H]|(-> & _ & H)].
  - eapply X; eauto.
  - injection H as <-. rewrite Hk in Hko. discriminate.
Qed.

Lemma excl_merge s i a h n k : Excl s -> a <> i ->
  (exists oi, get_slot s i = Some oi /\ ohs oi = [h]) -> (exists oa, get_slot s a = Some oa /\ ohs oa = [n]) ->
  is_excl_kind k = false -> Excl (set_slot a None (set_slot i (Some (mkO k [h; n] [])) s)).
Proof.
  intros X Hne (oi & Ei & Hi) (oa & Ea & Ha) Hk.
  pose proof (get_slot_lt _ _ _ Ei) as Hlti. pose proof (get_slot_lt _ _ _ Ea) as Hlta.
  set (s1 := set_slot i (Some (mkO k [h; n] [])) s).
  assert (Hc : forall id, cnt (set_slot a None s1) id = cnt s id).
  { intros id. pose proof (cnt_set i (Some (mkO k [h; n] [])) s id Hlti) as H1. fold s1 in H1.
    assert (Hlta1 : a < length (slots s1)) by (unfold s1, set_slot; cbn [slots]; rewrite upd_nth_length; exact Hlta).
    pose proof (cnt_set a None s1 id Hlta1) as H2.
    assert (Ea1 : acts s1 a = acts s a).
    { unfold acts, s1, set_slot. cbn [slots]. rewrite <- !nth_default_eq. unfold nth_default.
      rewrite nth_error_upd_nth_ne by auto. reflexivity. }
    rewrite Ea1, (get_slot_acts _ _ _ Ea) in H2. rewrite (get_slot_acts _ _ _ Ei) in H1.
    unfold obj_refs in *. rewrite Hi in H1. rewrite Ha in H2. cbn [slot_refs obj_refs ohs map count_occ] in *.
    destruct (Nat.eq_dec (hreg h) id), (Nat.eq_dec (hreg n) id); lia. }
  intros j o id H Hko Hin. rewrite Hc. apply gs_set_cases in H as [[Hnea H]|(-> & _ & H)]; [|discriminate].
  unfold s1 in H. apply gs_set_cases in H as [[Hnei H]|(-> & _ & H)].
  - eapply X; eauto.
  - injection H as <-. cbn [okind] in Hko. rewrite Hk in Hko. discriminate.
Qed.

Section TB2.
  Variable s : state.
  Hypothesis I : Inv s.
  Hypothesis X : Excl s.
  Variable i : nat.

  Lemma excl_wrap_arr a b : Excl (fst (ex_wrap_arr s i a b)).
  Proof.
    unfold ex_wrap_arr. destruct (slot_1 s i 1) as [h|] eqn:E; [|exact X]. destruct (_ && _); [|exact X].
    apply slot_1_some in E as (oi & Ei & Hki & Hi).
    destruct (b =? 1).
    - destruct (slot_1 s a 5) as [n|] eqn:En; [|exact X]. destruct ((hbl n =? hlen h / 4) && negb (a =? i)) eqn:G; [|exact X].
      cbn [fst]. apply andb_true_iff in G as [_ G]. apply negb_true_iff, Nat.eqb_neq in G.
      apply slot_1_some in En as (oa & Ea & _ & Ha). apply excl_merge; eauto.
    - cbn [fst]. apply excl_set_samerefs with (oi := oi); auto. unfold obj_refs. rewrite Hi. reflexivity.
  Qed.
  Lemma excl_wrap_barr a b : Excl (fst (ex_wrap_barr s i a b)).
  Proof.
    unfold ex_wrap_barr. destruct (slot_1 s i 5) as [h|] eqn:E; [|exact X].
    apply slot_1_some in E as (oi & Ei & Hki & Hi).
    destruct (b =? 1).
    - destruct (slot_1 s a 5) as [n|] eqn:En; [|exact X]. destruct ((hbl n =? hbl h) && negb (a =? i)) eqn:G; [|exact X].
      cbn [fst]. apply andb_true_iff in G as [_ G]. apply negb_true_iff, Nat.eqb_neq in G.
      apply slot_1_some in En as (oa & Ea & _ & Ha). apply excl_merge; eauto.
    - cbn [fst]. apply excl_set_samerefs with (oi := oi); auto. unfold obj_refs. rewrite Hi. reflexivity.
  Qed.

  (* ---------------------------------------------------------------- into_builder *)
  Lemma sliced_slots s0 n : slots (fst (sliced s0 n)) = slots s0.
  Proof. unfold sliced. destruct (_ =? 0); reflexivity. Qed.
  Lemma sliced_cnt s0 n id : cnt (fst (sliced s0 n)) id = cnt s0 id.
  Proof. unfold sliced. destruct (_ =? 0); cbn [fst]; [reflexivity|]. rewrite cnt_add. cbn. lia. Qed.

  Lemma ib_slots hs : slots (ib_state (into_builder s hs)) = slots s.
  Proof.
    unfold into_builder. destruct (filter_nulls s hs) as [|v [|n rest]]; [reflexivity| |].
    - destruct (into_mutable_ok s v _); reflexivity.
    - pose proof (sliced_slots s n) as Hs. destruct (sliced s n) as [s1 nb]. cbn [fst] in Hs.
      destruct (negb _); [exact Hs|]. destruct (into_mutable_ok s v _); cbn [ib_state]; rewrite slots_truncate; exact Hs.
  Qed.
  Lemma ib_cnt hs id : cnt (ib_state (into_builder s hs)) id = cnt s id.
  Proof.
    unfold into_builder. destruct (filter_nulls s hs) as [|v [|n rest]]; [reflexivity| |].
    - destruct (into_mutable_ok s v _); reflexivity.
    - pose proof (sliced_cnt s n id) as Hs. destruct (sliced s n) as [s1 nb]. cbn [fst] in Hs.
      destruct (negb _); [exact Hs|]. destruct (into_mutable_ok s v _); cbn [ib_state]; rewrite cnt_truncate; exact Hs.
  Qed.
  Lemma bv_slots s0 v : slots (fst (builder_values s0 v)) = slots s0.
  Proof. unfold builder_values. destruct (_ && _); cbn [fst add_node slots]; apply slots_truncate. Qed.
  Lemma bv_cnt s0 v id : cnt (fst (builder_values s0 v)) id = cnt s0 id.
  Proof. unfold builder_values. destruct (_ && _); cbn [fst]; [|rewrite cnt_add; cbn [node_refs fresh_region r_rel r_owner count_occ]; rewrite Nat.add_0_r]; apply cnt_truncate. Qed.

  Lemma uniq_lt id : Uniq s i id -> id < length (nodes s).
  Proof.
    intros [Hpos Hc]. assert (Hin : In id (all_refs s)) by (apply in_refs_cnt; lia).
    destruct (inv1 _ I id Hin) as (n & Hn & _). apply nth_error_Some. unfold node_at in Hn. congruence.
  Qed.

  Lemma ib_ok_spec hs s' hs1 : acts s i = map hreg hs -> into_builder s hs = IbOk s' hs1 ->
    length (nodes s) <= length (nodes s') /\
    exists v, Uniq s i (hreg v) /\
      (hs1 = [v] \/ exists nb, hs1 = [v; nb] /\
         ((Uniq s i (hreg nb) /\ hreg nb <> hreg v) \/ (length (nodes s) <= hreg nb < length (nodes s')))).
  Proof.
    intros Ha E.
    assert (HU : forall v rest, hs1 = v :: rest -> Uniq s i (hreg v)).
    { intros v rest ->. destruct (wr_into_builder s i hs Ha) as (_ & H). eapply H; eauto. }
    revert E. unfold into_builder.
    destruct (filter_nulls s hs) as [|v rest] eqn:Ef; [discriminate|].
    destruct rest as [|n rest'].
    - destruct (into_mutable_ok s v _); [|discriminate]. intros [= <- <-]. split; [lia|]. exists v. split; [eapply HU; eauto|left; auto].
    - assert (Hhs : hs = v :: n :: rest').
      { destruct (filter_nulls_cases s hs) as [Hsame|(v0 & n0 & _ & Hf)]; [congruence|]. rewrite Hf in Ef. discriminate. }
      destruct (sliced s n) as [s1 nb] eqn:Es.
      destruct (negb (if negb (hbo n mod 8 =? 0) then true else into_mutable_ok s nb (cnt s (hreg n)))) eqn:Gn; [discriminate|].
      apply negb_false_iff in Gn.
      destruct (into_mutable_ok s v _); [|discriminate]. intros [= <- <-].
      pose proof (HU v [nb] eq_refl) as Uv.
      assert (L1 : length (nodes s) <= length (nodes s1) /\
                   ((hreg nb = hreg n /\ hbo n mod 8 = 0 /\ s1 = s) \/ (hreg nb = length (nodes s) /\ length (nodes s1) = S (length (nodes s))))).
      { unfold sliced in Es. destruct (Nat.eqb_spec (hbo n mod 8) 0) as [Eo|Eo]; injection Es as <- <-; cbn [hreg].
        - split; [lia|left; auto].
        - split; [unfold add_node; cbn [nodes]; rewrite app_length; lia|right].
          split; [reflexivity|]. unfold add_node. cbn [nodes]. rewrite app_length. cbn. lia. }
      destruct L1 as (L1 & Hnb). rewrite truncate_reg_len. split; [exact L1|].
      exists v. split; [exact Uv|]. right. exists nb. split; [reflexivity|].
      destruct Hnb as [(Hr & Ho & ->)|(Hr & Hl)].
      + left. rewrite Ho in Gn. cbn [Nat.eqb negb] in Gn. apply into_mutable_ok_cnt in Gn.
        assert (Hn_act : In (hreg n) (acts s i)) by (rewrite Ha, Hhs; right; left; auto).
        rewrite Hr. split; [apply uniq_of_cnt1; auto|].
        intros Heq. pose proof (acts_le_cnt s i (hreg v)) as Hle. rewrite Ha, Hhs in Hle. cbn [map count_occ] in Hle.
        rewrite Heq in Hle. destruct (Nat.eq_dec (hreg v) (hreg v)); [|congruence]. rewrite <- Heq in Hle. lia.
      + right. lia.
  Qed.

  Lemma tb_unary code a b : TBJ s (fun j => j = i) (fst (ex_unary s code i a b)).
  Proof.
    unfold ex_unary. destruct (slot_k s i 4) as [hs|] eqn:E; [|apply tbj_of_excl; exact X].
    pose proof (ib_slots hs) as Hs1. pose proof (ib_cnt hs) as Hc1.
    pose proof (ib_ok_spec hs) as Hspec.
    destruct (into_builder s hs) as [s1 hs1|s1 hs1]; cbn [ib_state] in *.
    2:{ cbn [fst]. apply tb_set_shared; [intros o [= <-]; reflexivity|exact Hs1]. }
    destruct hs1 as [|v rest]; [apply tbj_of_excl; exact X|].
    destruct (Hspec s1 (v :: rest) (slot_k_acts _ _ _ _ E) eq_refl) as (L1 & v0 & Uv & Hshape).
    assert (v0 = v) by (destruct Hshape as [H|(nb & H & _)]; congruence). subst v0.
    pose proof (bv_slots s1 v) as Hs2. pose proof (bv_cnt s1 v) as Hc2.
    assert (Hv' : hreg (snd (builder_values s1 v)) = hreg v \/
                  (hreg (snd (builder_values s1 v)) = length (nodes s1) /\ length (nodes s1) < length (nodes (fst (builder_values s1 v))))).
    { unfold builder_values. destruct (_ && _); cbn [fst snd hreg]; [left; reflexivity|right].
      unfold next_id. rewrite truncate_reg_len. split; [reflexivity|]. unfold add_node. cbn [nodes]. rewrite app_length, truncate_reg_len. cbn. lia. }
    destruct (builder_values s1 v) as [s2 v']. cbn [fst snd] in *.
    assert (Hs2' : slots s2 = slots s) by congruence.
    destruct (code =? 16).
    2:{ destruct (code =? 14); [cbn [fst]; apply tb_set_shared; [intros o [= <-]; reflexivity|rewrite slots_write; exact Hs2']|].
        destruct (try_lanes _ _ _ _); cbn [fst]; apply tb_set_shared;
          [intros o [= <-]; reflexivity|rewrite slots_write; exact Hs2'|intros o [=]|exact Hs2']. }
    (* the builder *)
    cbn [fst]. intros j o id HJ H Hk Hin. apply gs_set_cases in H as [[Hne H]|(-> & Hlt & H)].
    - destruct HJ as [->|Hge]; [congruence|]. apply get_slot_lt in H. rewrite Hs2' in H. lia.
    - injection H as <-. cbn [obj_refs ohs] in Hin.
      pose proof (cnt_set i (Some (mkO 7 (v' :: rest) [])) s2 id Hlt) as Hc.
      rewrite (acts_ext s _ i Hs2'), Hc2, Hc1 in Hc. cbn [slot_refs obj_refs ohs] in Hc.
      pose proof (uniq_lt _ Uv) as Hvlt.
      (* every region of the builder is either fresh or had all its references in the array *)
      assert (Hbal : cnt s id = count_occ Nat.eq_dec (acts s i) id).
      { assert (Hcases : Uniq s i id \/ length (nodes s) <= id).
        { destruct Hin as [<-|Hin].
          - destruct Hv' as [->|[-> _]]; [left; exact Uv|right; lia].
          - destruct Hshape as [Hr|(nb & Hr & Hnb)]; injection Hr as ->; [destruct Hin|]. destruct Hin as [<-|[]].
            destruct Hnb as [[Hu _]|Hr]; [left; exact Hu|right; lia]. }
        destruct Hcases as [[_ Hu]|Hfresh]; [exact Hu|].
        rewrite (cnt_fresh_zero s id I Hfresh). pose proof (acts_le_cnt s i id). rewrite (cnt_fresh_zero s id I Hfresh) in H. lia. }
      assert (Hone : count_occ Nat.eq_dec (map hreg (v' :: rest)) id = 1).
      { destruct Hshape as [Hr|(nb & Hr & Hnb)]; injection Hr as ->; cbn [map count_occ].
        - destruct Hin as [<-|[]]. destruct (Nat.eq_dec (hreg v') (hreg v')); [reflexivity|congruence].
        - assert (Hdiff : hreg nb <> hreg v').
          { destruct Hv' as [->|[-> Hl2]].
            - destruct Hnb as [[_ Hd]|Hr]; [exact Hd|lia].
            - destruct Hnb as [[Hu _]|Hr]; [pose proof (uniq_lt _ Hu); lia|lia]. }
          destruct Hin as [<-|[<-|[]]].
          + destruct (Nat.eq_dec (hreg v') (hreg v')); [|congruence]. destruct (Nat.eq_dec (hreg nb) (hreg v')); [congruence|reflexivity].
          + destruct (Nat.eq_dec (hreg v') (hreg nb)); [congruence|]. destruct (Nat.eq_dec (hreg nb) (hreg nb)); [reflexivity|congruence]. }
      unfold obj_refs in Hc. cbn [ohs] in Hc. lia.
  Qed.
End TB2.

(* ------------------------------------------------------------------ all operations *)
Lemma TBJ_weaken s (J J' : nat -> Prop) s1 : (forall j, J' j -> J j) -> TBJ s J s1 -> TBJ s J' s1.
Proof. intros H T j o id [HJ|Hge]; [apply T; left; auto|apply T; right; auto]. Qed.

Definition opJ (p : op) (j : nat) : Prop := In j (opT p) \/ (o_code p = 23 /\ o_c p = 1 /\ j = o_b p).

Lemma excl_assemble s p s1 : Inv s -> Excl s -> RawA s (opA s p) (opT p) s1 -> TBJ s (opJ p) s1 -> Excl s1.
Proof.
  intros I X R T j o id Hs Hk Hin.
  destruct (Nat.lt_ge_cases j (length (slots s))) as [Hlt|Hge]; [|apply (T j o id); [right; exact Hge|exact Hs|exact Hk|exact Hin]].
  destruct (in_dec Nat.eq_dec j (opT p)) as [HT|HnT]; [apply (T j o id); [left; left; exact HT|exact Hs|exact Hk|exact Hin]|].
  destruct (Nat.eq_dec (o_code p) 23) as [E23|N23]; [|eapply excl_frame; eauto; intros; congruence].
  destruct (Nat.eq_dec (o_c p) 1) as [Ec|Nc]; [|eapply excl_frame; eauto; intros; congruence].
  destruct (Nat.eq_dec j (o_b p)) as [Eb|Nb]; [apply (T j o id); [left; right; auto|exact Hs|exact Hk|exact Hin]|].
  eapply excl_frame; eauto.
Qed.

Lemma tb_stream_new2 s i a b : Excl s -> TBJ s (fun j => j = i \/ (b = 1 /\ j = a)) (fst (ex_stream_new s i a b)).
Proof.
  intros X. unfold ex_stream_new. destruct (slot_k s i 4) as [hs|] eqn:E; [|cbn [fst na1]; apply tbj_of_excl, excl_na1, X].
  destruct (Nat.eqb_spec b 1) as [Eb|Nb].
  - destruct (slot_k s a 4) as [hs2|] eqn:E2; [|cbn [fst na1]; apply tbj_of_excl, excl_na1, X]. cbn [fst].
    intros j o id HJ H Hk Hin. apply gs_push_cases in H as [[Hlt H]|[_ H]]; [|injection H as <-; discriminate].
    destruct HJ as [[->|[_ ->]]|Hge]; [| |lia].
    + apply slot_k_some in E as (oi & Hoi & Hki & _). rewrite Hoi in H. injection H as <-. rewrite Hki in Hk. discriminate.
    + apply slot_k_some in E2 as (oa & Hoa & Hka & _). rewrite Hoa in H. injection H as <-. rewrite Hka in Hk. discriminate.
  - cbn [fst]. intros j o id HJ H Hk Hin. apply gs_push_cases in H as [[Hlt H]|[_ H]]; [|injection H as <-; discriminate].
    destruct HJ as [[->|[Hb _]]|Hge]; [|congruence|lia].
    apply slot_k_some in E as (oi & Hoi & Hki & _). rewrite Hoi in H. injection H as <-. rewrite Hki in Hk. discriminate.
Qed.

Theorem exec_excl s p : Inv s -> Excl s -> Excl (fst (exec s p)).
Proof.
  intros I X. apply (excl_assemble s p); [exact I|exact X|apply exec_rawA; exact I|].
  unfold exec, opJ, opT. destruct p as [cd a b c tid data zb zc]. cbn [o_code o_a o_b o_c o_data o_zb o_zc].
  do 28 (destruct cd as [|cd]; [
    first
    [ (* no operand *)
      solve [apply (TBJ_weaken _ (fun _ => False)); [intros j [[]|(Hc & _)]; discriminate Hc|first [apply tb_new_std | apply tb_new_cust | apply tb_new_mut]; assumption]]
    | (* constructors merging two slots: whole state *)
      solve [apply tbj_of_excl; first [apply excl_wrap_arr | apply excl_wrap_barr]; assumption]
    | (* stream_new *)
      solve [apply (TBJ_weaken _ (fun j => j = a \/ (c = 1 /\ j = b))); [intros j [[<-|[]]|(_ & Hc & Hb)]; [left; reflexivity|right; auto]|apply tb_stream_new2; assumption]]
    | (* one operand *)
      solve [apply (TBJ_weaken _ (fun j => j = a)); [intros j [[<-|[]]|(Hc & _)]; [reflexivity|discriminate Hc]|
             first [apply tb_clone | apply tb_slice | apply tb_drop | apply tb_into_mutable | apply tb_freeze
                   | apply tb_write | apply tb_into_vec | apply tb_wrap_bits | apply tb_finish | apply tb_claim
                   | apply tb_truncate | apply tb_bit_assign | apply tb_export | apply tb_import
                   | apply tb_stream_next | apply tb_unary | apply tb_take
                   | (destruct (slot_k s a 2); apply tb_write)]; assumption]]
    ]|]).
  apply tbj_of_excl. exact X.
Qed.

Theorem step_excl s p : Inv s -> Excl s -> Excl (step s p).
Proof. intros I X. unfold step. apply excl_settle. apply exec_excl; assumption. Qed.

Lemma init_excl : Excl init.
Proof. intros j o id H. destruct j; discriminate. Qed.

Theorem run_excl ops : forall s, Inv s -> Excl s -> Excl (run ops s).
Proof.
  induction ops as [|p t IH]; intros s I X; [exact X|]. cbn. apply IH; [apply step_inv; exact I|apply step_excl; assumption].
Qed.
