(* C15: end-to-end progress.  The driver that answers every NeedsData with exactly the requested
   ranges reaches Finished within an explicit number of calls and has then produced the sync rows.
   The potential  |remaining batches| + 2 * |remaining request phases| + [current request unsatisfied]
   strictly decreases with every driver iteration. *)
From Coq Require Import List Arith NArith Lia Bool ZifyN ZifyNat ZifyBool.
From AV Require Import Model.C15_PushBuf Model.C15_Machine Proofs.C15_PushBuf Proofs.C15_Machine.
Import ListNotations.
Local Open Scope N_scope.

Section Drive.
Variables (Rw B U R : Type).
Variable fr_step : nat -> B -> fstep B R.
Variable plan : R -> phase Rw U.
Variable upd : B -> U -> B.
Variable file : list N.
Hypothesis plan_in_file : forall r, phase_ok Rw U file (in_file_range file) (plan r).

Notation phase := (phase Rw U).
Notation mach := (mach Rw B U).
Notation run_phase := (run_phase Rw U).
Notation next_reader := (next_reader Rw B U R fr_step plan upd).
Notation after_phase := (after_phase Rw B U upd).
Notation resume_reader := (resume_reader Rw B U R fr_step plan upd).
Notation try_decode := (try_decode Rw B U R fr_step plan upd).
Notation sync_phase := (sync_phase Rw U file).
Notation sync_read := (sync_read Rw B U R fr_step plan upd file).
Notation fchunks := (file_chunks file).
Notation rest := (rest Rw B U R fr_step plan upd file).
Notation inv := (inv Rw B U file).
Notation cons_buf := (cons_buf file).
Notation reach := (reach Rw U file).
Notation pok := (phase_ok Rw U file (in_file_range file)).

(* number of request phases along the sync execution *)
Fixpoint plen (p : phase) : nat :=
  match p with PNeed req k => S (plen (k (fchunks req))) | _ => O end.
Fixpoint work_read (q : list nat) (b : B) : nat :=
  match q with
  | [] => O
  | g :: q' =>
      match fr_step g b with
      | FStop => O
      | FSkip b' => work_read q' b'
      | FRead r b' => (plen (plan r) + work_read q' (upd b' (snd (sync_phase (plan r)))))%nat
      end
  end.
Definition work_rg (q : list nat) (b : B) (st : rgst Rw U) : nat :=
  match st with
  | RGIdle => work_read q b
  | RGWait req k => (plen (PNeed req k) + work_read q (upd b (snd (sync_phase (PNeed req k)))))%nat
  end.
Definition phases_left (m : mach) : nat :=
  match m_dec _ _ _ m with
  | DFinished => O
  | _ => work_rg (m_queue _ _ _ m) (m_b _ _ _ m) (m_rg _ _ _ m)
  end.
Definition unsat (m : mach) : nat :=
  match m_rg _ _ _ m with
  | RGWait req k => match needed_ranges (m_buf _ _ _ m) req with [] => O | _ => 1%nat end
  | RGIdle => 1%nat
  end.
Definition potential (m : mach) : nat := (length (rest m) + 2 * phases_left m + unsat m)%nat.

Definition W (s : list nat * B * rgst Rw U * pushbuf) : nat := let '(q, b, st, _) := s in work_rg q b st.

Lemma reach_plen p p' : reach p p' -> (plen p' <= plen p)%nat.
Proof. induction 1 as [p|req k p' _ IH]; [lia|]. cbn [plen]. lia. Qed.

(* the phase reached by run_phase is not deeper than the phase entered; strictly shallower when the
   entered request was already buffered *)
Lemma run_phase_work p pb : pok p -> cons_buf pb ->
  match run_phase p pb with
  | (BNeed rs, st, pb') =>
      exists req k, st = RGWait req k /\ (plen (PNeed req k) <= plen p)%nat /\ sync_phase (PNeed req k) = sync_phase p /\
        (forall req0 k0, p = PNeed req0 k0 -> needed_ranges pb req0 = [] -> (plen (PNeed req k) < plen p)%nat)
  | _ => True
  end.
Proof.
  intros Hok Hc. pose proof (run_phase_spec Rw U file p pb Hok Hc) as Hs.
  destruct (run_phase p pb) as [[[rs|u|bs u|] st] pb']; auto.
  destruct Hs as (req & k & -> & Hr & Hrs & Hne & _ & _ & Hadv). exists req, k.
  split; [reflexivity|]. split; [now apply reach_plen|]. split; [symmetry; now apply sync_reach|].
  intros req0 k0 -> Hn. destruct Hadv as [[Heq Hpb]|(req1 & k1 & Heq & _ & Hr1)].
  - inversion Heq; subst. rewrite Hn in Hne. now elim Hne.
  - inversion Heq; subst. apply reach_plen in Hr1. cbn [plen] in *. lia.
Qed.

Definition sat_entry (p : phase) (pb : pushbuf) : Prop :=
  exists req0 k0, p = PNeed req0 k0 /\ needed_ranges pb req0 = [].

Lemma after_phase_work se q b next p pb : pok p -> cons_buf pb ->
  (forall b1 pb1, cons_buf pb1 -> (W (snd (next b1 pb1)) <= work_read q b1)%nat) ->
  let T := (plen p + work_read q (upd b (snd (sync_phase p))))%nat in
  (W (snd (after_phase se q b next (run_phase p pb))) <= T)%nat /\
  (sat_entry p pb -> (W (snd (after_phase se q b next (run_phase p pb))) < T)%nat).
Proof.
  intros Hok Hc Hnext T. pose proof (run_phase_work p pb Hok Hc) as Hw.
  pose proof (run_phase_spec Rw U file p pb Hok Hc) as Hs.
  destruct (run_phase p pb) as [[[rs|u|bs u|] st] pb'] eqn:Er; cbn [C15_Machine.after_phase].
  - destruct Hw as (req & k & -> & Hle & Hsy & Hlt). cbn [snd W work_rg]. rewrite Hsy. subst T. split; [lia|].
    intros (req0 & k0 & -> & Hn). specialize (Hlt req0 k0 eq_refl Hn). lia.
  - destruct Hs as (_ & Hsy & Hc'). specialize (Hnext (upd b u) pb' Hc'). subst T. rewrite Hsy. cbn [snd]. split; [lia|].
    intros (req0 & k0 & -> & _). cbn [plen]. lia.
  - destruct Hs as (_ & Hsy & Hc'). subst T. rewrite Hsy. cbn [snd].
    assert (Hd : (W (q, upd b u, @RGIdle Rw U, pb') <= work_read q (upd b u))%nat) by (cbn; lia).
    specialize (Hnext (upd b u) pb' Hc').
    destruct bs as [|b0 bs0]; [destruct se|]; cbn [snd] in *; (split; [lia|]); intros (req0 & k0 & -> & _); cbn [plen]; lia.
  - contradiction.
Qed.

Lemma next_reader_work se q : forall b pb, cons_buf pb -> (W (snd (next_reader se q b pb)) <= work_read q b)%nat.
Proof.
  induction q as [|g q IH]; intros b pb Hc; cbn [C15_Machine.next_reader work_read]; [cbn; lia|].
  destruct (fr_step g b) as [|b'|r b'].
  - cbn. lia.
  - now apply IH.
  - apply (after_phase_work se q b' (next_reader se q) (plan r) pb (plan_in_file r) Hc IH).
Qed.

Lemma resume_reader_work se m : inv m ->
  let PL := work_rg (m_queue _ _ _ m) (m_b _ _ _ m) (m_rg _ _ _ m) in
  (W (snd (resume_reader se m)) <= PL)%nat /\ (unsat m = O -> (W (snd (resume_reader se m)) < PL)%nat).
Proof.
  intros [Hc Hrg]. unfold C15_Machine.resume_reader, unsat. destruct (m_rg _ _ _ m) as [|req k]; cbn [work_rg].
  - split; [now apply next_reader_work|discriminate].
  - pose proof (after_phase_work se (m_queue _ _ _ m) (m_b _ _ _ m) (next_reader se (m_queue _ _ _ m))
                  (PNeed req k) (m_buf _ _ _ m) Hrg Hc (next_reader_work se _)) as [H1 H2].
    split; [exact H1|]. intros Hu. apply H2. exists req, k. split; [reflexivity|].
    destruct (needed_ranges (m_buf _ _ _ m) req); [reflexivity|discriminate].
Qed.

Lemma unsat_le1 m : (unsat m <= 1)%nat.
Proof. unfold unsat. destruct (m_rg _ _ _ m); [lia|]. destruct (needed_ranges _ _); lia. Qed.

(* one call of try_decode: what it does to (phases_left, unsat) *)
Lemma pump_potential m : inv m -> m_dec _ _ _ m = DReading ->
  let '(m', res) := pump Rw B U R fr_step plan upd m in
  match res with
  | RFinished | RError => True
  | _ => m_dec _ _ _ m' <> DFinished /\ (phases_left m' <= phases_left m)%nat /\ (unsat m = O -> (phases_left m' < phases_left m)%nat)
  end.
Proof.
  intros Hi Hd. pose proof (resume_reader_work true m Hi) as [H1 H2].
  unfold pump, phases_left. rewrite Hd.
  destruct (resume_reader true m) as [res [[[q' b'] st'] pb']]. cbn [snd W] in *.
  destruct res as [rs|[|b0 bs0]| |]; cbn; auto; (split; [discriminate|auto]).
Qed.

Lemma decode_potential m m' res : inv m -> try_decode m = (m', res) ->
  match res with
  | RData _ => (potential m' < potential m)%nat
  | RNeed _ => m_dec _ _ _ m' = DReading /\ (phases_left m' <= phases_left m)%nat /\ (unsat m = O -> (phases_left m' < phases_left m)%nat)
  | _ => True
  end.
Proof.
  intros Hi E. pose proof (try_decode_spec Rw B U R fr_step plan upd file plan_in_file m Hi) as Hs. rewrite E in Hs.
  destruct Hs as (Hi' & _ & Hs).
  assert (Hpump : forall m0, inv m0 -> m_dec _ _ _ m0 = DReading -> rest m0 = rest m -> phases_left m0 = phases_left m ->
                    unsat m0 = unsat m -> pump Rw B U R fr_step plan upd m0 = (m', res) ->
                    match res with
                    | RData _ => (potential m' < potential m)%nat
                    | RNeed _ => m_dec _ _ _ m' = DReading /\ (phases_left m' <= phases_left m)%nat /\ (unsat m = O -> (phases_left m' < phases_left m)%nat)
                    | _ => True
                    end).
  { intros m0 Hi0 Hd0 Hr0 Hp0 Hu0 Ep. pose proof (pump_potential m0 Hi0 Hd0) as Hpp. rewrite Ep in Hpp.
    destruct res as [rs|b|bs| |]; auto.
    - destruct Hpp as (_ & Hle & Hlt). destruct Hs as (_ & Hd' & _). rewrite <- Hp0, <- Hu0. auto.
    - destruct Hpp as (_ & Hle & Hlt). unfold potential. rewrite Hs. cbn [length]. rewrite <- Hp0, <- Hu0 in *.
      pose proof (unsat_le1 m'). destruct (unsat m0) eqn:Eu; [specialize (Hlt eq_refl); lia|lia]. }
  revert E. unfold C15_Machine.try_decode. destruct (m_dec _ _ _ m) as [|bs|] eqn:Ed.
  - intros E. apply (Hpump m); auto.
  - destruct bs as [|b bs].
    + intros E. apply (Hpump (with_dec Rw B U m DReading)); auto.
      * unfold C15_Machine.rest. cbn. now rewrite Ed.
      * unfold phases_left. cbn. now rewrite Ed.
    + intros E; inversion E; subst. unfold potential, phases_left, unsat, C15_Machine.rest. cbn. rewrite Ed. cbn [length app]. lia.
  - intros E; inversion E; subst. exact I.
Qed.

(* a supply that covers every requested range by ONE supplied range satisfies the request *)
Definition covering (supplied rs : list range) : Prop :=
  Forall (in_file_range file) supplied /\
  forall r, In r rs -> exists p, In p supplied /\ fst p <= fst r /\ snd r <= snd p.

Lemma covering_supply_satisfies m req k rs supplied m2 : inv m -> waiting Rw B U m req k ->
  rs = needed_ranges (m_buf _ _ _ m) req -> covering supplied rs ->
  push_data Rw B U m supplied (fchunks supplied) = Some m2 ->
  inv m2 /\ rest m2 = rest m /\ phases_left m2 = phases_left m /\ unsat m2 = O /\ m_dec _ _ _ m2 = DReading.
Proof.
  intros Hi [Hd Hrg] -> [Hin Hcov] Hp.
  pose proof (push_data_spec Rw B U R fr_step plan upd file m _ Hin Hi) as Hs. rewrite Hp in Hs.
  destruct Hs as (Hi2 & Hr2 & Hq2 & Hrg2 & Hd2 & He2).
  assert (Hb : m_b _ _ _ m2 = m_b _ _ _ m).
  { revert Hp. unfold push_data. destruct (m_dec _ _ _ m); try discriminate;
    destruct (push_ranges _ _ _) as [pb [|]]; intros E; inversion E; reflexivity. }
  split; [exact Hi2|]. split; [exact Hr2|]. split; [unfold phases_left; rewrite Hq2, Hrg2, Hd2, Hb; reflexivity|].
  split; [|congruence].
  unfold unsat. rewrite Hrg2, Hrg.
  assert (Hall : forall r, In r req -> has_range (m_buf _ _ _ m2) r = true).
  { intros r Hr. destruct (has_range (m_buf _ _ _ m) r) eqn:Eh.
    - unfold has_range in *. rewrite He2, existsb_app, Eh. reflexivity.
    - unfold has_range. rewrite He2, existsb_app. apply orb_true_iff. right.
      destruct (Hcov r) as (p & Hp1 & Hp2 & Hp3); [apply needed_spec; auto|].
      apply existsb_exists. exists {| e_st := fst p; e_en := snd p; e_data := fslice file (fst p) (snd p - fst p) |}.
      split.
      + apply in_map_iff. exists p. split; [reflexivity|exact Hp1].
      + unfold covers; cbn. apply andb_true_iff. split; apply N.leb_le; assumption. }
  destruct (needed_ranges (m_buf _ _ _ m2) req) as [|r0 l] eqn:En; [reflexivity|].
  assert (Hr0 : In r0 (needed_ranges (m_buf _ _ _ m2) req)) by (rewrite En; now left).
  apply needed_spec in Hr0. destruct Hr0 as [Hr0 Hf]. rewrite (Hall _ Hr0) in Hf. discriminate.
Qed.

Section Supplier.
Variable sup : nat -> list range -> list range.
(* the supplier answers every request (of ranges within the file) with a covering supply *)
Hypothesis sup_covers : forall i rs, Forall (in_file_range file) rs -> covering (sup i rs) rs.

Theorem drive_with_completes : forall fuel i m, inv m -> (potential m < fuel)%nat ->
  drive_with Rw B U R fr_step plan upd file sup fuel i m = (concat (rest m), true).
Proof.
  induction fuel as [|f IH]; intros i m Hi Hf; [lia|]. cbn [drive_with].
  pose proof (try_decode_spec Rw B U R fr_step plan upd file plan_in_file m Hi) as Hs.
  destruct (try_decode m) as [m1 res] eqn:E.
  pose proof (decode_potential m m1 res Hi E) as Hp.
  destruct Hs as (Hi1 & _ & Hs). destruct res as [rs|b|bs| |].
  - destruct Hs as (Hr & Hd1 & req & k & Hrg1 & Hrs & Hne). destruct Hp as (_ & Hle & Hlt).
    assert (Hw : waiting Rw B U m1 req k) by (split; auto).
    assert (Hin : Forall (in_file_range file) rs).
    { destruct Hi1 as [_ Hok]. rewrite Hrg1 in Hok. inversion Hok as [? ? Hreq ?| |]; subst.
      apply Forall_forall. intros r Hr'. apply needed_spec in Hr'. rewrite Forall_forall in Hreq. now apply Hreq. }
    pose proof (sup_covers i rs Hin) as Hcov.
    destruct (push_data Rw B U m1 (sup i rs) (fchunks (sup i rs))) as [m2|] eqn:Epd.
    + destruct (covering_supply_satisfies m1 req k rs (sup i rs) m2 Hi1 Hw Hrs Hcov Epd) as (Hi2 & Hr2 & Hp2 & Hu2 & _).
      rewrite IH; [now rewrite Hr2, Hr|exact Hi2|].
      unfold potential in *. rewrite Hr2, Hp2, Hu2, <- Hr.
      destruct (unsat m) eqn:Eu; [specialize (Hlt eq_refl); lia|lia].
    + exfalso. destruct Hcov as [Hsin _].
      pose proof (push_data_spec Rw B U R fr_step plan upd file m1 (sup i rs) Hsin Hi1) as Hs.
      rewrite Epd, Hd1 in Hs. discriminate.
  - rewrite IH; [now rewrite Hs|exact Hi1|lia].
  - now apply try_decode_no_reader in E.
  - destruct Hs as [Hr _]. now rewrite Hr.
  - contradiction.
Qed.
End Supplier.

(* ------------------------------------------------------------------ suppliers that only make partial progress
   (one range per call, half of the ranges, ...): count the ranges that remain to be supplied *)
Fixpoint rlen (p : phase) : nat :=
  match p with PNeed req k => (length req + rlen (k (fchunks req)))%nat | _ => O end.
Fixpoint ranges_read (q : list nat) (b : B) : nat :=
  match q with
  | [] => O
  | g :: q' =>
      match fr_step g b with
      | FStop => O
      | FSkip b' => ranges_read q' b'
      | FRead r b' => (rlen (plan r) + ranges_read q' (upd b' (snd (sync_phase (plan r)))))%nat
      end
  end.
(* ranges of the phase about to run that are not buffered, plus all ranges of its continuation *)
Definition RL (p : phase) (pb : pushbuf) : nat :=
  match p with PNeed req k => (length (needed_ranges pb req) + rlen (k (fchunks req)))%nat | _ => O end.
Definition ranges_rg (q : list nat) (b : B) (st : rgst Rw U) (pb : pushbuf) : nat :=
  match st with
  | RGIdle => ranges_read q b
  | RGWait req k => (RL (PNeed req k) pb + ranges_read q (upd b (snd (sync_phase (PNeed req k)))))%nat
  end.
Definition ranges_left (m : mach) : nat :=
  match m_dec _ _ _ m with
  | DFinished => O
  | _ => ranges_rg (m_queue _ _ _ m) (m_b _ _ _ m) (m_rg _ _ _ m) (m_buf _ _ _ m)
  end.
Definition RW (s : list nat * B * rgst Rw U * pushbuf) : nat := let '(q, b, st, pb) := s in ranges_rg q b st pb.

Lemma needed_length pb req : (length (needed_ranges pb req) <= length req)%nat.
Proof.
  unfold needed_ranges. induction req as [|a l IH]; cbn [filter length]; [lia|].
  destruct (negb (has_range pb a)); cbn [length]; lia.
Qed.
Lemma RL_le p pb : (RL p pb <= rlen p)%nat.
Proof. destruct p; cbn [RL rlen]; [|lia|lia]. pose proof (needed_length pb req). lia. Qed.

Lemma run_phase_ranges p : forall pb, pok p -> cons_buf pb ->
  match run_phase p pb with
  | (BNeed rs, st, pb') => exists req k, st = RGWait req k /\ (RL (PNeed req k) pb' <= RL p pb)%nat
  | _ => True
  end.
Proof.
  induction p as [req k IH|u|bs u]; intros pb Hok Hc; cbn [C15_Machine.run_phase]; auto.
  inversion Hok as [req' k' Hreq Hk| |]; subst.
  destruct (needed_ranges pb req) as [|r0 rs0] eqn:En.
  - destruct (get_chunks pb req) as [cs|] eqn:Ecs; [|exact I].
    pose proof (get_chunks_file file _ _ _ Hc Ecs) as ->.
    specialize (IH (fchunks req) (clear_ranges pb req) Hk (clear_ranges_consistent file pb req Hc)).
    destruct (run_phase (k (fchunks req)) (clear_ranges pb req)) as [[[rs|u|bs u|] st] pb']; auto.
    destruct IH as (req2 & k2 & -> & Hle). exists req2, k2. split; [reflexivity|].
    cbn [RL] in *. rewrite En. cbn [length]. pose proof (RL_le (k (fchunks req)) (clear_ranges pb req)). cbn [RL] in *. lia.
  - exists req, k. split; [reflexivity|]. cbn [RL]. rewrite En. lia.
Qed.

Lemma after_phase_ranges se q b next p pb : pok p -> cons_buf pb ->
  (forall b1 pb1, cons_buf pb1 -> (RW (snd (next b1 pb1)) <= ranges_read q b1)%nat) ->
  (RW (snd (after_phase se q b next (run_phase p pb))) <= RL p pb + ranges_read q (upd b (snd (sync_phase p))))%nat.
Proof.
  intros Hok Hc Hnext. pose proof (run_phase_ranges p pb Hok Hc) as Hw.
  pose proof (run_phase_spec Rw U file p pb Hok Hc) as Hs.
  destruct (run_phase p pb) as [[[rs|u|bs u|] st] pb'] eqn:Er; cbn [C15_Machine.after_phase].
  - destruct Hw as (req & k & -> & Hle). destruct Hs as (req2 & k2 & Heq & Hr & _). inversion Heq; subst req2 k2.
    cbn [snd RW ranges_rg]. rewrite <- (sync_reach Rw U file _ _ Hr). lia.
  - destruct Hs as (_ & Hsy & Hc'). specialize (Hnext (upd b u) pb' Hc'). rewrite Hsy. cbn [snd] in *. lia.
  - destruct Hs as (_ & Hsy & Hc'). rewrite Hsy. cbn [snd]. specialize (Hnext (upd b u) pb' Hc').
    destruct bs as [|b0 bs0]; [destruct se|]; cbn [snd RW ranges_rg] in *; lia.
  - contradiction.
Qed.

Lemma next_reader_ranges se q : forall b pb, cons_buf pb -> (RW (snd (next_reader se q b pb)) <= ranges_read q b)%nat.
Proof.
  induction q as [|g q IH]; intros b pb Hc; cbn [C15_Machine.next_reader ranges_read]; [cbn; lia|].
  destruct (fr_step g b) as [|b'|r b'].
  - cbn. lia.
  - now apply IH.
  - pose proof (after_phase_ranges se q b' (next_reader se q) (plan r) pb (plan_in_file r) Hc IH) as H.
    pose proof (RL_le (plan r) pb). lia.
Qed.

Lemma resume_reader_ranges se m : inv m ->
  (RW (snd (resume_reader se m)) <= ranges_rg (m_queue _ _ _ m) (m_b _ _ _ m) (m_rg _ _ _ m) (m_buf _ _ _ m))%nat.
Proof.
  intros [Hc Hrg]. unfold C15_Machine.resume_reader. destruct (m_rg _ _ _ m) as [|req k]; cbn [ranges_rg].
  - now apply next_reader_ranges.
  - apply (after_phase_ranges se _ _ _ (PNeed req k) _ Hrg Hc (next_reader_ranges se _)).
Qed.

Lemma decode_ranges m m' res : inv m -> try_decode m = (m', res) -> (ranges_left m' <= ranges_left m)%nat.
Proof.
  intros Hi.
  assert (Hpump : forall m0, inv m0 -> m_dec _ _ _ m0 = DReading -> ranges_left m0 = ranges_left m ->
            pump Rw B U R fr_step plan upd m0 = (m', res) -> (ranges_left m' <= ranges_left m)%nat).
  { intros m0 Hi0 Hd0 Hr0. pose proof (resume_reader_ranges true m0 Hi0) as H. unfold pump.
    destruct (resume_reader true m0) as [r1 [[[q' b'] st'] pb']]. cbn [snd RW] in H.
    unfold ranges_left in Hr0 |- *. rewrite Hd0 in Hr0. rewrite <- Hr0.
    destruct r1 as [rs|[|b0 bs0]| |]; intros E; inversion E; subst; cbn; lia. }
  unfold C15_Machine.try_decode. destruct (m_dec _ _ _ m) as [|bs|] eqn:Ed.
  - intros E. apply (Hpump m); auto.
  - destruct bs as [|b bs].
    + intros E. apply (Hpump (with_dec Rw B U m DReading)); auto. unfold ranges_left. cbn. now rewrite Ed.
    + intros E; inversion E; subst. unfold ranges_left. cbn. rewrite Ed. lia.
  - intros E; inversion E; subst. lia.
Qed.

(* a supply makes progress when all of it lies in the file and it covers at least one requested range *)
Definition progressing (supplied rs : list range) : Prop :=
  Forall (in_file_range file) supplied /\
  exists r p, In r rs /\ In p supplied /\ fst p <= fst r /\ snd r <= snd p.

Lemma filter_shrinks {A} (f g : A -> bool) l x :
  (forall a, g a = true -> f a = true) -> In x l -> f x = true -> g x = false ->
  (length (filter g l) < length (filter f l))%nat.
Proof.
  intros Himp. induction l as [|a l IH]; [intros []|]. intros [->|Hin] Hf Hg; cbn [filter].
  - rewrite Hf, Hg. cbn [length].
    assert (length (filter g l) <= length (filter f l))%nat; [|lia].
    clear IH. induction l as [|a l IH]; [cbn; lia|]. cbn [filter].
    destruct (g a) eqn:Eg; [rewrite (Himp _ Eg); cbn [length]; lia|]. destruct (f a); cbn [length]; lia.
  - specialize (IH Hin Hf Hg). destruct (g a) eqn:Eg; [rewrite (Himp _ Eg); cbn [length]; lia|].
    destruct (f a); cbn [length]; lia.
Qed.

Lemma progressing_supply_shrinks m req k rs supplied m2 : inv m -> waiting Rw B U m req k ->
  rs = needed_ranges (m_buf _ _ _ m) req -> progressing supplied rs ->
  push_data Rw B U m supplied (fchunks supplied) = Some m2 ->
  inv m2 /\ rest m2 = rest m /\ (potential m2 <= potential m)%nat /\ (ranges_left m2 < ranges_left m)%nat.
Proof.
  intros Hi [Hd Hrg] -> [Hin (r & p & Hr & Hp & Hp1 & Hp2)] Hpd.
  pose proof (push_data_spec Rw B U R fr_step plan upd file m _ Hin Hi) as Hs. rewrite Hpd in Hs.
  destruct Hs as (Hi2 & Hr2 & Hq2 & Hrg2 & Hd2 & He2).
  assert (Hb : m_b _ _ _ m2 = m_b _ _ _ m).
  { revert Hpd. unfold push_data. destruct (m_dec _ _ _ m); try discriminate;
    destruct (push_ranges _ _ _) as [pb [|]]; intros E; inversion E; reflexivity. }
  assert (Hmono : forall a, has_range (m_buf _ _ _ m) a = true -> has_range (m_buf _ _ _ m2) a = true).
  { intros a Ha. unfold has_range in *. rewrite He2, existsb_app, Ha. reflexivity. }
  assert (Hnow : has_range (m_buf _ _ _ m2) r = true).
  { unfold has_range. rewrite He2, existsb_app. apply orb_true_iff. right. apply existsb_exists.
    exists {| e_st := fst p; e_en := snd p; e_data := fslice file (fst p) (snd p - fst p) |}. split.
    - apply in_map_iff. exists p. auto.
    - unfold covers; cbn. apply andb_true_iff. split; apply N.leb_le; assumption. }
  apply needed_spec in Hr. destruct Hr as [Hrin Hrf].
  assert (Hlen : (length (needed_ranges (m_buf _ _ _ m2) req) < length (needed_ranges (m_buf _ _ _ m) req))%nat).
  { unfold needed_ranges. apply (filter_shrinks _ _ req r); auto.
    - intros a Ha. apply negb_true_iff in Ha. apply negb_true_iff.
      destruct (has_range (m_buf _ _ _ m) a) eqn:E; [rewrite (Hmono _ E) in Ha; discriminate|reflexivity].
    - now rewrite Hrf.
    - now rewrite Hnow. }
  split; [exact Hi2|]. split; [exact Hr2|]. split.
  - unfold potential, phases_left, unsat. rewrite Hr2, Hq2, Hrg2, Hd2, Hb, Hrg.
    destruct (needed_ranges (m_buf _ _ _ m2) req); destruct (needed_ranges (m_buf _ _ _ m) req); cbn [length] in *; lia.
  - unfold ranges_left, ranges_rg. rewrite Hq2, Hrg2, Hd2, Hb, Hd, Hrg. cbn [RL]. lia.
Qed.

Section PartialSupplier.
Variable sup : nat -> list range -> list range.
Hypothesis sup_progresses : forall i rs, rs <> [] -> Forall (in_file_range file) rs -> progressing (sup i rs) rs.

Theorem drive_with_partial_completes : forall fuel i m, inv m -> (potential m + ranges_left m < fuel)%nat ->
  drive_with Rw B U R fr_step plan upd file sup fuel i m = (concat (rest m), true).
Proof.
  induction fuel as [|f IH]; intros i m Hi Hf; [lia|]. cbn [drive_with].
  pose proof (try_decode_spec Rw B U R fr_step plan upd file plan_in_file m Hi) as Hs.
  destruct (try_decode m) as [m1 res] eqn:E.
  pose proof (decode_potential m m1 res Hi E) as Hp.
  pose proof (decode_ranges m m1 res Hi E) as Hrl.
  destruct Hs as (Hi1 & _ & Hs). destruct res as [rs|b|bs| |].
  - destruct Hs as (Hr & Hd1 & req & k & Hrg1 & Hrs & Hne). destruct Hp as (_ & Hle & Hlt).
    assert (Hw : waiting Rw B U m1 req k) by (split; auto).
    assert (Hin : Forall (in_file_range file) rs).
    { destruct Hi1 as [_ Hok]. rewrite Hrg1 in Hok. inversion Hok as [? ? Hreq ?| |]; subst.
      apply Forall_forall. intros r Hr'. apply needed_spec in Hr'. rewrite Forall_forall in Hreq. now apply Hreq. }
    pose proof (sup_progresses i rs Hne Hin) as Hprog.
    assert (Hpot1 : (potential m1 <= potential m)%nat).
    { unfold potential. rewrite <- Hr. pose proof (unsat_le1 m1). destruct (unsat m) eqn:Eu; [specialize (Hlt eq_refl); lia|].
      pose proof (unsat_le1 m). lia. }
    destruct (push_data Rw B U m1 (sup i rs) (fchunks (sup i rs))) as [m2|] eqn:Epd.
    + destruct (progressing_supply_shrinks m1 req k rs (sup i rs) m2 Hi1 Hw Hrs Hprog Epd) as (Hi2 & Hr2 & Hp2 & Hl2).
      rewrite IH; [now rewrite Hr2, Hr|exact Hi2|lia].
    + exfalso. destruct Hprog as [Hsin _].
      pose proof (push_data_spec Rw B U R fr_step plan upd file m1 (sup i rs) Hsin Hi1) as Hs.
      rewrite Epd, Hd1 in Hs. discriminate.
  - rewrite IH; [now rewrite Hs|exact Hi1|lia].
  - now apply try_decode_no_reader in E.
  - destruct Hs as [Hr _]. now rewrite Hr.
  - contradiction.
Qed.
End PartialSupplier.

(* fair_schedule_completes: every supplier that, for each NeedsData, delivers ranges of the file
   covering AT LEAST ONE requested range (exact, one range per call, half of them, supersets,
   duplicates, any order, additional ranges) drives the decoder to Finished with the sync rows *)
Theorem fair_supply_completes sup q b fuel :
  (forall i rs, rs <> [] -> Forall (in_file_range file) rs -> progressing (sup i rs) rs) ->
  (potential (init Rw B U q b) + ranges_left (init Rw B U q b) < fuel)%nat ->
  drive_with Rw B U R fr_step plan upd file sup fuel O (init Rw B U q b) = (sync_rows Rw B U R fr_step plan upd file q b, true).
Proof.
  intros Hs Hf. rewrite drive_with_partial_completes; [reflexivity|exact Hs| |exact Hf]. split; cbn; constructor.
Qed.

Lemma exact_covers : forall (i : nat) rs, Forall (in_file_range file) rs -> covering rs rs.
Proof. intros _ rs H. split; [exact H|]. intros r Hr. exists r. repeat split; auto; lia. Qed.

Theorem responsive_supply_completes sup q b fuel :
  (forall i rs, Forall (in_file_range file) rs -> covering (sup i rs) rs) ->
  (potential (init Rw B U q b) < fuel)%nat ->
  drive_with Rw B U R fr_step plan upd file sup fuel O (init Rw B U q b) = (sync_rows Rw B U R fr_step plan upd file q b, true).
Proof.
  intros Hs Hf. rewrite drive_with_completes; [reflexivity|exact Hs| |exact Hf]. split; cbn; constructor.
Qed.

Theorem exact_supply_completes q b fuel :
  (potential (init Rw B U q b) < fuel)%nat ->
  drive Rw B U R fr_step plan upd file fuel (init Rw B U q b) = (sync_rows Rw B U R fr_step plan upd file q b, true).
Proof. intros Hf. unfold drive. apply responsive_supply_completes; [exact exact_covers|exact Hf]. Qed.

End Drive.
