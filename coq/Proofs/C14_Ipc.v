(* C14 — IPC StreamDecoder: the chunk-level loop (zero-copy / scratch paths, one batch per call,
   documented driver) computes exactly the byte-at-a-time automaton on the concatenated input. *)
From Coq Require Import List Arith NArith ZArith Bool Lia.
From AV Require Import Base.Bytes Model.C14_Ipc.
Import ListNotations.

Section P.
Variable orc : nat -> list N -> minfo.
Notation run1 := (run1 orc).
Notation step1 := (step1 orc).
Notation eps := (eps orc).
Notation consume := (consume orc).
Notation complete := (complete orc).
Notation after_message := (after_message orc).
Notation decode := (decode orc).
Notation feed := (feed orc).
Notation run := (run orc).

Lemma run1_app s a b : run1 s (a ++ b) =
  let '(s1, e1) := run1 s a in let '(s2, e2) := run1 s1 b in (s2, e1 ++ e2).
Proof.
  revert s; induction a as [|x a IH]; intros s; cbn [app C14_Ipc.run1].
  - destruct (run1 s b). reflexivity.
  - destruct (step1 s x) as [s1 e1]. rewrite IH.
    destruct (run1 s1 a) as [s2 e2]. destruct (run1 s2 b) as [s3 e3]. now rewrite app_assoc.
Qed.

Lemma run1_failed k rest : run1 (k, SFailed) rest = ((k, SFailed), []).
Proof.
  induction rest as [|b r IH]; cbn [C14_Ipc.run1]; [reflexivity|].
  unfold C14_Ipc.step1; cbn [C14_Ipc.eps C14_Ipc.consume app]. now rewrite IH.
Qed.

(* ---- copying a run of bytes inside one state ---- *)
Lemma run1_header_partial : forall rest k buf cont, length buf + length rest < 4 ->
  run1 (k, SHeader buf cont) rest = ((k, SHeader (buf ++ rest) cont), []).
Proof.
  induction rest as [|b r IH]; intros k buf cont Hk; cbn [C14_Ipc.run1].
  - now rewrite app_nil_r.
  - unfold C14_Ipc.step1; cbn [C14_Ipc.eps C14_Ipc.consume app]. cbn [length] in Hk.
    destruct (Nat.eqb_spec (length (buf ++ [b])) 4) as [E|_]; [rewrite app_length in E; cbn [length] in E; lia|].
    rewrite IH by (rewrite app_length; cbn [length]; lia). now rewrite <- app_assoc.
Qed.

Lemma run1_header_complete : forall rest k buf cont, rest <> [] -> length buf + length rest = 4 ->
  run1 (k, SHeader buf cont) rest = after_header k (buf ++ rest) cont.
Proof.
  induction rest as [|b r IH]; intros k buf cont Hne Hk; [congruence|]. cbn [C14_Ipc.run1].
  unfold C14_Ipc.step1; cbn [C14_Ipc.eps C14_Ipc.consume app]. cbn [length] in Hk.
  destruct r as [|b2 r].
  - cbn [C14_Ipc.run1]. cbn [length] in Hk.
    destruct (Nat.eqb_spec (length (buf ++ [b])) 4) as [_|NE]; [|rewrite app_length in NE; cbn [length] in NE; lia].
    destruct (after_header k (buf ++ [b]) cont) as [s e]. now rewrite app_nil_r.
  - destruct (Nat.eqb_spec (length (buf ++ [b])) 4) as [E|_]; [rewrite app_length in E; cbn [length] in *; lia|].
    rewrite IH; [rewrite <- app_assoc; cbn [app]; destruct (after_header k (buf ++ b :: b2 :: r) cont); reflexivity|discriminate|rewrite app_length; cbn [length] in *; lia].
Qed.

Lemma run1_message_partial : forall rest k size acc, length acc + length rest < size ->
  run1 (k, SMessage size acc) rest = ((k, SMessage size (acc ++ rest)), []).
Proof.
  induction rest as [|b r IH]; intros k size acc Hk; cbn [C14_Ipc.run1].
  - now rewrite app_nil_r.
  - unfold C14_Ipc.step1; cbn [C14_Ipc.eps C14_Ipc.consume app]. cbn [length] in Hk.
    destruct (Nat.eqb_spec (length (acc ++ [b])) size) as [E|_]; [rewrite app_length in E; cbn [length] in E; lia|].
    rewrite IH by (rewrite app_length; cbn [length]; lia). now rewrite <- app_assoc.
Qed.

Lemma run1_message_complete : forall rest k size acc, rest <> [] -> length acc + length rest = size ->
  run1 (k, SMessage size acc) rest = after_message k (acc ++ rest).
Proof.
  induction rest as [|b r IH]; intros k size acc Hne Hk; [congruence|]. cbn [C14_Ipc.run1].
  unfold C14_Ipc.step1; cbn [C14_Ipc.eps C14_Ipc.consume app]. cbn [length] in Hk.
  destruct r as [|b2 r].
  - cbn [C14_Ipc.run1]. cbn [length] in Hk.
    destruct (Nat.eqb_spec (length (acc ++ [b])) size) as [_|NE]; [|rewrite app_length in NE; cbn [length] in NE; lia].
    destruct (after_message k (acc ++ [b])) as [s e]. now rewrite app_nil_r.
  - destruct (Nat.eqb_spec (length (acc ++ [b])) size) as [E|_]; [rewrite app_length in E; cbn [length] in *; lia|].
    rewrite IH; [rewrite <- app_assoc; cbn [app]; destruct (after_message k (acc ++ b :: b2 :: r)); reflexivity|discriminate|rewrite app_length; cbn [length] in *; lia].
Qed.

Lemma run1_body_partial : forall rest k meta acc, length acc + length rest < mi_body (orc k meta) ->
  run1 (k, SBody meta acc) rest = ((k, SBody meta (acc ++ rest)), []).
Proof.
  induction rest as [|b r IH]; intros k meta acc Hk; cbn [C14_Ipc.run1].
  - now rewrite app_nil_r.
  - unfold C14_Ipc.step1; cbn [C14_Ipc.eps]. cbn [length] in Hk.
    destruct (Nat.eqb_spec (length acc) (mi_body (orc k meta))) as [E|_]; [lia|]. cbn [C14_Ipc.consume app].
    destruct (Nat.eqb_spec (length (acc ++ [b])) (mi_body (orc k meta))) as [E|_]; [rewrite app_length in E; cbn [length] in E; lia|].
    rewrite IH by (rewrite app_length; cbn [length]; lia). now rewrite <- app_assoc.
Qed.

Lemma run1_body_complete : forall rest k meta acc, rest <> [] -> length acc + length rest = mi_body (orc k meta) ->
  run1 (k, SBody meta acc) rest = complete k meta (acc ++ rest).
Proof.
  induction rest as [|b r IH]; intros k meta acc Hne Hk; [congruence|]. cbn [C14_Ipc.run1].
  unfold C14_Ipc.step1; cbn [C14_Ipc.eps]. cbn [length] in Hk.
  destruct (Nat.eqb_spec (length acc) (mi_body (orc k meta))) as [E|_]; [lia|]. cbn [C14_Ipc.consume app].
  destruct r as [|b2 r].
  - cbn [C14_Ipc.run1]. cbn [length] in Hk.
    destruct (Nat.eqb_spec (length (acc ++ [b])) (mi_body (orc k meta))) as [_|NE]; [|rewrite app_length in NE; cbn [length] in NE; lia].
    destruct (complete k meta (acc ++ [b])) as [s e]. now rewrite app_nil_r.
  - destruct (Nat.eqb_spec (length (acc ++ [b])) (mi_body (orc k meta))) as [E|_]; [rewrite app_length in E; cbn [length] in *; lia|].
    rewrite IH; [rewrite <- app_assoc; cbn [app]; destruct (complete k meta (acc ++ b :: b2 :: r)); reflexivity|discriminate|rewrite app_length; cbn [length] in *; lia].
Qed.

(* ---- epsilon moves ---- *)
Lemma eps_complete k meta body : eps (fst (complete k meta body)) = (fst (complete k meta body), []).
Proof. unfold C14_Ipc.complete. destruct (mi_out (orc k meta)); reflexivity. Qed.

Lemma eps_idem s : eps (fst (eps s)) = (fst (eps s), []).
Proof.
  destruct s as [k ph]. destruct ph as [buf c|size acc|meta acc| |]; try reflexivity.
  cbn [C14_Ipc.eps]. destruct (Nat.eqb_spec (length acc) (mi_body (orc k meta))) as [E|NE].
  - apply eps_complete.
  - cbn [fst C14_Ipc.eps]. destruct (Nat.eqb_spec (length acc) (mi_body (orc k meta))); [contradiction|reflexivity].
Qed.

(* the first byte of a non-empty input triggers the pending epsilon move *)
Lemma run1_eps_absorb s rest : rest <> [] ->
  run1 s rest = let '(s1, e1) := eps s in let '(s2, e2) := run1 s1 rest in (s2, e1 ++ e2).
Proof.
  destruct rest as [|b r]; [congruence|intros _]. cbn [C14_Ipc.run1]. unfold C14_Ipc.step1.
  pose proof (eps_idem s) as Hi. destruct (eps s) as [s1 e1]. cbn [fst] in Hi. rewrite Hi.
  destruct (consume s1 b) as [s2 e2]. destruct (run1 s2 r) as [s3 e3]. cbn [app]. now rewrite app_assoc.
Qed.

(* run1 followed by the pending epsilon move, used when more input is known to follow *)
Definition run1e (s : sstate) (p : list N) (last : bool) : sstate * list event :=
  if last then run1 s p
  else let '(s1, e1) := run1 s p in let '(s2, e2) := eps s1 in (s2, e1 ++ e2).

Lemma run1e_app s p0 p1 last s1 e0 : run1 s p0 = (s1, e0) ->
  run1e s (p0 ++ p1) last = let '(s2, e2) := run1e s1 p1 last in (s2, e0 ++ e2).
Proof.
  intros H. unfold run1e. rewrite run1_app, H. destruct last.
  - destruct (run1 s1 p1). reflexivity.
  - destruct (run1 s1 p1) as [s2 e2]. destruct (eps s2) as [s3 e3]. now rewrite app_assoc.
Qed.

(* ---- well-formed decoder states and the iteration measure ---- *)
Definition wf (d : dec) : Prop :=
  match d_st d with
  | DHeader buf _ => length buf < 4 /\ d_buf d = []
  | DMessage size => length (d_buf d) < size
  | DBody meta => length (d_buf d) < mi_body (orc (d_k d) meta) \/ d_buf d = []
  | DFinished => True
  end.

Definition slack (d : dec) : nat :=
  match d_st d with
  | DBody meta => if is_nil (d_buf d) && (mi_body (orc (d_k d) meta) =? 0) then 2 else 1
  | _ => 1
  end.
Lemma slack_bounds d : 1 <= slack d <= 2.
Proof. unfold slack. destruct (d_st d); try lia. destruct (_ && _); lia. Qed.

(* what one decode call guarantees *)
Definition decode_ok (d : dec) (buffer : list N) (r : dout) : Prop :=
  let '(d', rest, res, ev) := r in
  match res with
  | RErr => run1 (abs d) buffer = ((d_k d', SFailed), ev)
  | _ => (exists p, buffer = p ++ rest /\ run1e (abs d) p (is_nil rest) = (abs d', ev))
         /\ wf d' /\ (res = RNone -> rest = [])
         /\ (res <> RNone -> 2 * length rest + slack d' < 2 * length buffer + slack d)
  end.

Lemma pre_nil (r : dout) : pre [] r = r.
Proof. destruct r as [[[d b] res] ev]. reflexivity. Qed.

(* gluing a byte-consuming loop iteration in front of the rest of the call *)
Lemma glue_bytes d d1 p0 buffer' e0 r :
  run1 (abs d) p0 = (abs d1, e0) ->
  2 * length buffer' + slack d1 <= 2 * length (p0 ++ buffer') + slack d ->
  decode_ok d1 buffer' r -> decode_ok d (p0 ++ buffer') (pre e0 r).
Proof.
  intros Hr Hm Hok. destruct r as [[[d' rest] res] ev]. cbn [pre]. unfold decode_ok in *.
  destruct res as [|tag|].
  - destruct Hok as [[p [Hb Hp]] [Hwf [Hn Hs]]]. repeat split; try assumption.
    + exists (p0 ++ p). split; [now rewrite Hb, app_assoc|]. rewrite (run1e_app _ _ _ _ _ _ Hr), Hp. reflexivity.
    + intros C; congruence.
  - destruct Hok as [[p [Hb Hp]] [Hwf [Hn Hs]]]. repeat split; try assumption.
    + exists (p0 ++ p). split; [now rewrite Hb, app_assoc|]. rewrite (run1e_app _ _ _ _ _ _ Hr), Hp. reflexivity.
    + intros _. specialize (Hs ltac:(discriminate)). lia.
  - rewrite run1_app, Hr, Hok. reflexivity.
Qed.

(* gluing the completion of a pending zero-length body (no byte consumed) *)
Lemma glue_eps d d1 buffer e0 r : buffer <> [] ->
  eps (abs d) = (abs d1, e0) -> eps (abs d1) = (abs d1, []) ->
  slack d1 < slack d ->
  decode_ok d1 buffer r -> decode_ok d buffer (pre e0 r).
Proof.
  intros Hne He Hi Hm Hok. destruct r as [[[d' rest] res] ev]. cbn [pre]. unfold decode_ok in *.
  assert (Hgen : forall p, buffer = p ++ rest -> run1e (abs d1) p (is_nil rest) = (abs d', ev) ->
                 run1e (abs d) p (is_nil rest) = (abs d', e0 ++ ev)).
  { intros p Hb Hp. destruct p as [|b p].
    - cbn [app] in Hb. subst rest. destruct buffer as [|b0 buffer0]; [congruence|]. cbn [is_nil] in *.
      unfold run1e in *. cbn [C14_Ipc.run1] in *. rewrite Hi in Hp. cbn [app] in Hp.
      rewrite He. cbn [app]. apply pair_equal_spec in Hp. destruct Hp as [H1 H2]. subst ev. rewrite H1, app_nil_r. reflexivity.
    - unfold run1e in *. rewrite (run1_eps_absorb (abs d)) by discriminate. rewrite He.
      destruct (is_nil rest).
      + rewrite Hp. reflexivity.
      + destruct (run1 (abs d1) (b :: p)) as [s2 e2]. destruct (eps s2) as [s3 e3].
        apply pair_equal_spec in Hp. destruct Hp as [H1 H2]. subst s3 ev. now rewrite app_assoc. }
  destruct res as [|tag|].
  - destruct Hok as [[p [Hb Hp]] [Hwf [Hn Hs]]]. repeat split; try assumption.
    + exists p. split; [exact Hb|]. now apply Hgen.
    + intros C; congruence.
  - destruct Hok as [[p [Hb Hp]] [Hwf [Hn Hs]]]. repeat split; try assumption.
    + exists p. split; [exact Hb|]. now apply Hgen.
    + intros _. specialize (Hs ltac:(discriminate)). lia.
  - rewrite run1_eps_absorb by exact Hne. rewrite He, Hok. reflexivity.
Qed.

Lemma firstn_len_min {A} (l : list A) n : n <= length l -> length (firstn n l) = n.
Proof. intros H. rewrite firstn_length. lia. Qed.

Lemma is_nil_true {A} (l : list A) : is_nil l = true -> l = [].
Proof. destruct l; [reflexivity|discriminate]. Qed.

Theorem decode_spec : forall fuel d buffer, wf d -> 2 * length buffer + slack d <= fuel ->
  decode_ok d buffer (decode fuel d buffer).
Proof.
  induction fuel as [|fuel IH]; intros d buffer Hwf Hf; [pose proof (slack_bounds d); lia|].
  destruct buffer as [|b0 buffer0].
  { cbn [C14_Ipc.decode]. unfold decode_ok. repeat split; auto.
    - exists []. split; [reflexivity|]. reflexivity.
    - intros C; congruence. }
  cbn [C14_Ipc.decode].
  remember (b0 :: buffer0) as buffer eqn:Eb.
  assert (Hne : buffer <> []) by (rewrite Eb; discriminate).
  assert (Hlen : 0 < length buffer) by (rewrite Eb; cbn [length]; lia).
  destruct d as [st sb k]. unfold wf in Hwf. cbn [d_st d_buf d_k] in *.
  destruct st as [buf cont|size|meta|].
  - (* Header *)
    destruct Hwf as [Hbuf Hsb]. subst sb.
    set (n := Nat.min (length buffer) (4 - length buf)).
    assert (Hn : 0 < n <= length buffer) by (unfold n; lia).
    assert (Lf : length (firstn n buffer) = n) by (apply firstn_len_min; lia).
    assert (Ls : length (skipn n buffer) = length buffer - n) by apply skipn_length.
    assert (Hsplit : buffer = firstn n buffer ++ skipn n buffer) by (now rewrite firstn_skipn).
    assert (Hfne : firstn n buffer <> []) by (intros C; rewrite C in Lf; cbn in Lf; lia).
    destruct (Nat.eqb_spec (length (buf ++ firstn n buffer)) 4) as [E|NE].
    + rewrite app_length in E.
      assert (Hr : run1 (abs (MkDec (DHeader buf cont) [] k)) (firstn n buffer)
                   = after_header k (buf ++ firstn n buffer) cont)
        by (apply run1_header_complete; [exact Hfne|lia]).
      unfold after_header in Hr.
      destruct (negb cont && is_marker (buf ++ firstn n buffer)).
      * rewrite Hsplit at 1. rewrite <- (pre_nil (decode fuel _ _)).
        apply glue_bytes with (d1 := MkDec (DHeader [] true) [] k); [exact Hr| |].
        -- rewrite app_length. unfold slack; cbn [d_st]. lia.
        -- apply IH; [unfold wf; cbn; split; [lia|reflexivity]|]. unfold slack in *; cbn [d_st] in *. lia.
      * destruct (Nat.eqb_spec (N.to_nat (le_val (buf ++ firstn n buffer))) 0) as [Z|NZ].
        -- rewrite Hsplit at 1.
           apply glue_bytes with (d1 := MkDec DFinished [] k); [exact Hr| |].
           ++ rewrite app_length. unfold slack; cbn [d_st]. lia.
           ++ apply IH; [exact I|]. unfold slack in *; cbn [d_st] in *. lia.
        -- rewrite Hsplit at 1. rewrite <- (pre_nil (decode fuel _ _)).
           apply glue_bytes with (d1 := MkDec (DMessage (N.to_nat (le_val (buf ++ firstn n buffer)))) [] k); [exact Hr| |].
           ++ rewrite app_length. unfold slack; cbn [d_st]. lia.
           ++ apply IH; [unfold wf; cbn; lia|]. unfold slack in *; cbn [d_st] in *. lia.
    + rewrite app_length in NE.
      rewrite Hsplit at 1. rewrite <- (pre_nil (decode fuel _ _)).
      apply glue_bytes with (d1 := MkDec (DHeader (buf ++ firstn n buffer) cont) [] k).
      * apply run1_header_partial. unfold n in *. lia.
      * rewrite app_length. unfold slack; cbn [d_st]. lia.
      * apply IH; [unfold wf; cbn; rewrite app_length; split; [unfold n in *; lia|reflexivity]|].
        unfold slack in *; cbn [d_st] in *. lia.
  - (* Message *)
    destruct (is_nil sb && (size <? length buffer)) eqn:Ezc.
    + (* zero copy *)
      apply andb_prop in Ezc. destruct Ezc as [Enil Elt]. apply is_nil_true in Enil. subst sb.
      apply Nat.ltb_lt in Elt. cbn [length] in Hwf.
      assert (Lf : length (firstn size buffer) = size) by (apply firstn_len_min; lia).
      assert (Ls : length (skipn size buffer) = length buffer - size) by apply skipn_length.
      assert (Hsplit : buffer = firstn size buffer ++ skipn size buffer) by (now rewrite firstn_skipn).
      assert (Hfne : firstn size buffer <> []) by (intros C; rewrite C in Lf; cbn in Lf; lia).
      assert (Hr : run1 (abs (MkDec (DMessage size) [] k)) (firstn size buffer)
                   = after_message k ([] ++ firstn size buffer))
        by (apply run1_message_complete; [exact Hfne|cbn [length]; lia]).
      cbn [app] in Hr. unfold C14_Ipc.after_message in Hr.
      destruct (mi_valid (orc k (firstn size buffer))).
      * rewrite Hsplit at 1. rewrite <- (pre_nil (decode fuel _ _)).
        apply glue_bytes with (d1 := MkDec (DBody (firstn size buffer)) [] k); [exact Hr| |].
        -- rewrite app_length. pose proof (slack_bounds (MkDec (DBody (firstn size buffer)) [] k)).
           unfold slack at 2; cbn [d_st]. lia.
        -- apply IH; [unfold wf; cbn; right; reflexivity|].
           pose proof (slack_bounds (MkDec (DBody (firstn size buffer)) [] k)).
           unfold slack in Hf; cbn [d_st] in Hf. lia.
      * unfold decode_ok. cbn [d_k]. rewrite Hsplit, run1_app, Hr, run1_failed. reflexivity.
    + (* copy into the scratch buffer *)
      assert (Hcase : sb <> [] \/ length buffer <= size).
      { destruct sb as [|x sb']; [right|left; discriminate]. cbn [is_nil andb] in Ezc.
        apply Nat.ltb_ge in Ezc. exact Ezc. }
      set (n := Nat.min (length buffer) (size - length sb)).
      assert (Hn : 0 < n <= length buffer) by (unfold n; lia).
      assert (Lf : length (firstn n buffer) = n) by (apply firstn_len_min; lia).
      assert (Ls : length (skipn n buffer) = length buffer - n) by apply skipn_length.
      assert (Hsplit : buffer = firstn n buffer ++ skipn n buffer) by (now rewrite firstn_skipn).
      assert (Hfne : firstn n buffer <> []) by (intros C; rewrite C in Lf; cbn in Lf; lia).
      destruct (Nat.eqb_spec (length (sb ++ firstn n buffer)) size) as [E|NE].
      * rewrite app_length in E.
        assert (Hr : run1 (abs (MkDec (DMessage size) sb k)) (firstn n buffer)
                     = after_message k (sb ++ firstn n buffer))
          by (apply run1_message_complete; [exact Hfne|cbn [d_buf d_k]; lia]).
        unfold C14_Ipc.after_message in Hr.
        destruct (mi_valid (orc k (sb ++ firstn n buffer))).
        -- rewrite Hsplit at 1. rewrite <- (pre_nil (decode fuel _ _)).
           apply glue_bytes with (d1 := MkDec (DBody (sb ++ firstn n buffer)) [] k); [exact Hr| |].
           ++ rewrite app_length. pose proof (slack_bounds (MkDec (DBody (sb ++ firstn n buffer)) [] k)).
              unfold slack at 2; cbn [d_st]. lia.
           ++ apply IH; [unfold wf; cbn; right; reflexivity|].
              pose proof (slack_bounds (MkDec (DBody (sb ++ firstn n buffer)) [] k)).
              unfold slack in Hf; cbn [d_st] in Hf. lia.
        -- unfold decode_ok. cbn [d_k]. rewrite Hsplit, run1_app, Hr, run1_failed. reflexivity.
      * rewrite app_length in NE.
        rewrite Hsplit at 1. rewrite <- (pre_nil (decode fuel _ _)).
        apply glue_bytes with (d1 := MkDec (DMessage size) (sb ++ firstn n buffer) k).
        -- apply run1_message_partial. cbn [d_buf d_k]. unfold n in *. lia.
        -- rewrite app_length. unfold slack; cbn [d_st]. lia.
        -- apply IH; [unfold wf; cbn; rewrite app_length; unfold n in *; lia|].
           unfold slack in *; cbn [d_st] in *. lia.
  - (* Body *)
    set (bl := mi_body (orc k meta)) in *.
    (* what happens once the body is complete, for both the zero-copy and the scratch path *)
    assert (Hfin : forall body buffer' e0,
      (e0 = true -> buffer = body ++ buffer' /\ body <> [] /\
                    run1 (abs (MkDec (DBody meta) sb k)) body = complete k meta body) ->
      (e0 = false -> buffer' = buffer /\ body = [] /\ sb = [] /\ bl = 0) ->
      decode_ok (MkDec (DBody meta) sb k) buffer
        (match mi_out (orc k meta) with
         | ONone => pre [EMsg k meta body] (decode fuel (MkDec (DHeader [] false) [] (S k)) buffer')
         | OBatch => (MkDec (DHeader [] false) [] (S k), buffer', RBatch (mi_tag (orc k meta)), [EMsg k meta body])
         | OErr => (MkDec (DBody meta) [] k, buffer', RErr, [EMsg k meta body; EErr])
         end)).
    { intros body buffer' e0 Hbytes Hzero. destruct e0.
      - destruct (Hbytes eq_refl) as [Hb [Hbne Hr]]. clear Hbytes Hzero.
        assert (Lb : 0 < length body) by (destruct body; [congruence|cbn; lia]).
        unfold C14_Ipc.complete in Hr.
        destruct (mi_out (orc k meta)) eqn:Eo.
        + rewrite Hb. apply glue_bytes with (d1 := MkDec (DHeader [] false) [] (S k)); [exact Hr| |].
          * rewrite app_length. pose proof (slack_bounds (MkDec (DBody meta) sb k)).
            unfold slack at 1; cbn [d_st]. lia.
          * apply IH; [unfold wf; cbn; split; [lia|reflexivity]|].
            pose proof (slack_bounds (MkDec (DBody meta) sb k)).
            rewrite Hb, app_length in Hf. unfold slack at 1; cbn [d_st]. lia.
        + unfold decode_ok. repeat split.
          * exists body. split; [exact Hb|]. unfold run1e. rewrite Hr. destruct (is_nil buffer'); reflexivity.
          * unfold wf; cbn; lia.
          * intros C; congruence.
          * intros _. rewrite Hb, app_length. pose proof (slack_bounds (MkDec (DBody meta) sb k)).
            unfold slack at 1; cbn [d_st]. lia.
        + unfold decode_ok. cbn [d_k]. rewrite Hb, run1_app, Hr, run1_failed. reflexivity.
      - destruct (Hzero eq_refl) as [Hb' [Hbody [Hsb Hbl]]]. clear Hbytes Hzero. subst buffer' body sb.
        assert (Heps : eps (abs (MkDec (DBody meta) [] k)) = complete k meta []).
        { cbn [abs d_st d_buf d_k C14_Ipc.eps length]. fold bl. rewrite Hbl. reflexivity. }
        assert (Hsl : slack (MkDec (DBody meta) [] k) = 2).
        { unfold slack; cbn [d_st d_buf d_k is_nil andb]. fold bl. rewrite Hbl. reflexivity. }
        unfold C14_Ipc.complete in Heps.
        destruct (mi_out (orc k meta)) eqn:Eo.
        + apply glue_eps with (d1 := MkDec (DHeader [] false) [] (S k)); [exact Hne|exact Heps|reflexivity| |].
          * rewrite Hsl. unfold slack; cbn [d_st]. lia.
          * apply IH; [unfold wf; cbn; split; [lia|reflexivity]|].
            rewrite Hsl in Hf. unfold slack; cbn [d_st]. lia.
        + unfold decode_ok. repeat split.
          * exists []. split; [reflexivity|]. unfold run1e.
            destruct buffer as [|x buffer']; [congruence|]. cbn [is_nil C14_Ipc.run1]. rewrite Heps. reflexivity.
          * unfold wf; cbn; lia.
          * intros C; congruence.
          * intros _. rewrite Hsl. unfold slack; cbn [d_st]. lia.
        + unfold decode_ok. cbn [d_k]. rewrite run1_eps_absorb by exact Hne. rewrite Heps, run1_failed. reflexivity. }
    destruct (is_nil sb && (bl <=? length buffer)) eqn:Ezc.
    + (* zero copy *)
      apply andb_prop in Ezc. destruct Ezc as [Enil Ele]. apply is_nil_true in Enil. subst sb.
      apply Nat.leb_le in Ele.
      destruct (Nat.eq_dec bl 0) as [Z|NZ].
      * apply (Hfin (firstn bl buffer) (skipn bl buffer) false); [discriminate|].
        intros _. rewrite Z. cbn [firstn skipn]. repeat split; assumption.
      * apply (Hfin (firstn bl buffer) (skipn bl buffer) true); [|discriminate].
        intros _. assert (Lf : length (firstn bl buffer) = bl) by (apply firstn_len_min; lia).
        repeat split.
        -- now rewrite firstn_skipn.
        -- intros C; rewrite C in Lf; cbn in Lf; lia.
        -- change (firstn bl buffer) with ([] ++ firstn bl buffer) at 2.
           apply run1_body_complete; [intros C; rewrite C in Lf; cbn in Lf; lia|cbn [length]; fold bl; lia].
    + (* scratch *)
      assert (Hcase : length sb < bl /\ (sb <> [] \/ length buffer < bl)).
      { destruct sb as [|x sb'].
        - cbn [is_nil andb] in Ezc. apply Nat.leb_gt in Ezc. cbn [length]. split; [lia|right; exact Ezc].
        - destruct Hwf as [Hl|C]; [|discriminate]. split; [exact Hl|left; discriminate]. }
      destruct Hcase as [Hlt _].
      set (n := Nat.min (length buffer) (bl - length sb)).
      assert (Hn : 0 < n <= length buffer) by (unfold n; lia).
      assert (Lf : length (firstn n buffer) = n) by (apply firstn_len_min; lia).
      assert (Ls : length (skipn n buffer) = length buffer - n) by apply skipn_length.
      assert (Hsplit : buffer = firstn n buffer ++ skipn n buffer) by (now rewrite firstn_skipn).
      assert (Hfne : firstn n buffer <> []) by (intros C; rewrite C in Lf; cbn in Lf; lia).
      destruct (Nat.eqb_spec (length (sb ++ firstn n buffer)) bl) as [E|NE].
      * rewrite app_length in E.
        assert (Hr : run1 (abs (MkDec (DBody meta) sb k)) (firstn n buffer)
                     = complete k meta (sb ++ firstn n buffer))
          by (apply run1_body_complete; [exact Hfne|cbn [d_buf d_k]; fold bl; lia]).
        (* the events name the accumulated body, the consumed bytes are only its tail *)
        unfold C14_Ipc.complete in Hr.
        destruct (mi_out (orc k meta)) eqn:Eo.
        -- rewrite Hsplit at 1.
           apply glue_bytes with (d1 := MkDec (DHeader [] false) [] (S k)); [exact Hr| |].
           ++ rewrite app_length. pose proof (slack_bounds (MkDec (DBody meta) sb k)).
              unfold slack at 1; cbn [d_st]. lia.
           ++ apply IH; [unfold wf; cbn; split; [lia|reflexivity]|].
              pose proof (slack_bounds (MkDec (DBody meta) sb k)). unfold slack at 1; cbn [d_st]. lia.
        -- unfold decode_ok. repeat split.
           ++ exists (firstn n buffer). split; [exact Hsplit|]. unfold run1e. rewrite Hr.
              destruct (is_nil (skipn n buffer)); reflexivity.
           ++ unfold wf; cbn; lia.
           ++ intros C; congruence.
           ++ intros _. pose proof (slack_bounds (MkDec (DBody meta) sb k)).
              unfold slack at 1; cbn [d_st]. lia.
        -- unfold decode_ok. cbn [d_k]. rewrite Hsplit at 1. rewrite run1_app, Hr, run1_failed. reflexivity.
      * rewrite app_length in NE.
        rewrite Hsplit at 1. rewrite <- (pre_nil (decode fuel _ _)).
        apply glue_bytes with (d1 := MkDec (DBody meta) (sb ++ firstn n buffer) k).
        -- apply run1_body_partial. cbn [d_buf d_k]. fold bl. unfold n in *. lia.
        -- rewrite app_length.
           assert (S1 : slack (MkDec (DBody meta) (sb ++ firstn n buffer) k) = 1).
           { unfold slack; cbn [d_st d_buf]. destruct (sb ++ firstn n buffer) eqn:Ex; [|reflexivity].
             apply (f_equal (@length N)) in Ex. rewrite app_length in Ex. cbn [length] in Ex. lia. }
           rewrite S1. pose proof (slack_bounds (MkDec (DBody meta) sb k)). lia.
        -- assert (S1 : slack (MkDec (DBody meta) (sb ++ firstn n buffer) k) = 1).
           { unfold slack; cbn [d_st d_buf]. destruct (sb ++ firstn n buffer) eqn:Ex; [|reflexivity].
             apply (f_equal (@length N)) in Ex. rewrite app_length in Ex. cbn [length] in Ex. lia. }
           apply IH; [unfold wf; cbn [d_st d_buf d_k]; fold bl; left; rewrite app_length; unfold n in *; lia|].
           rewrite S1. pose proof (slack_bounds (MkDec (DBody meta) sb k)). lia.
  - (* Finished *)
    unfold decode_ok, abs. cbn [d_k d_st]. rewrite Eb. cbn [C14_Ipc.run1]. unfold C14_Ipc.step1.
    cbn [C14_Ipc.eps C14_Ipc.consume app]. now rewrite run1_failed.
Qed.

(* ---- the documented driver loop on one chunk ---- *)
Lemma run1_compose s p x' s1 ev1 s2 ev2 :
  run1e s p (is_nil x') = (s1, ev1) -> run1 s1 x' = (s2, ev2) -> run1 s (p ++ x') = (s2, ev1 ++ ev2).
Proof.
  intros H1 H2. unfold run1e in H1. destruct x' as [|b x'].
  - cbn [is_nil] in H1. cbn [C14_Ipc.run1] in H2. apply pair_equal_spec in H2. destruct H2 as [<- <-].
    now rewrite !app_nil_r.
  - cbn [is_nil] in H1. rewrite run1_app. destruct (run1 s p) as [a ea].
    rewrite run1_eps_absorb by discriminate. destruct (eps a) as [a' ea'].
    apply pair_equal_spec in H1. destruct H1 as [-> <-]. rewrite H2. now rewrite app_assoc.
Qed.

Definition feed_ok (d : dec) (x : list N) (r : dec * list call * bool * list event) : Prop :=
  let '(d', _, e, ev) := r in
  if e : bool then run1 (abs d) x = ((d_k d', SFailed), ev)
  else run1 (abs d) x = (abs d', ev) /\ wf d'.

Theorem feed_spec : forall fuel d x, wf d -> 2 * length x + slack d <= fuel -> feed_ok d x (feed fuel d x).
Proof.
  induction fuel as [|fuel IH]; intros d x Hwf Hf; [pose proof (slack_bounds d); lia|].
  destruct x as [|b0 x0].
  { cbn [C14_Ipc.feed feed_ok]. split; [reflexivity|exact Hwf]. }
  cbn [C14_Ipc.feed]. remember (b0 :: x0) as x eqn:Ex.
  pose proof (decode_spec (decode_fuel x) d x Hwf) as Hd.
  assert (Hdf : 2 * length x + slack d <= decode_fuel x) by (unfold decode_fuel; pose proof (slack_bounds d); lia).
  specialize (Hd Hdf). destruct (decode (decode_fuel x) d x) as [[[d1 x'] res] ev1].
  unfold decode_ok in Hd. destruct res as [|tag|].
  - destruct Hd as [[p [Hb Hp]] [Hwf1 [Hn _]]]. specialize (Hn eq_refl). subst x'.
    assert (Hfe : feed fuel d1 [] = (d1, [], false, [])) by (destruct fuel; reflexivity).
    rewrite Hfe. cbn [feed_ok]. split; [|exact Hwf1].
    rewrite Hb. apply run1_compose with (s1 := abs d1); [exact Hp|reflexivity].
  - destruct Hd as [[p [Hb Hp]] [Hwf1 [_ Hs]]]. specialize (Hs ltac:(discriminate)).
    assert (Hf1 : 2 * length x' + slack d1 <= fuel) by lia.
    specialize (IH d1 x' Hwf1 Hf1). destruct (feed fuel d1 x') as [[[d2 cs] e] ev2].
    cbn [feed_ok] in *. destruct e.
    + rewrite Hb. now apply run1_compose with (s1 := abs d1).
    + destruct IH as [IH1 IH2]. split; [|exact IH2]. rewrite Hb. now apply run1_compose with (s1 := abs d1).
  - cbn [feed_ok]. exact Hd.
Qed.

(* ---- all chunks of a stream ---- *)
Definition run_ok (d : dec) (chunks : list (list N)) (r : dec * list (list call) * bool * list event) : Prop :=
  let '(d', _, e, ev) := r in
  if e : bool then run1 (abs d) (concat chunks) = ((d_k d', SFailed), ev)
  else run1 (abs d) (concat chunks) = (abs d', ev) /\ wf d'.

Theorem run_spec : forall chunks d, wf d -> run_ok d chunks (run d chunks).
Proof.
  induction chunks as [|x rest IH]; intros d Hwf.
  { cbn [C14_Ipc.run run_ok concat]. split; [reflexivity|exact Hwf]. }
  cbn [C14_Ipc.run concat].
  pose proof (feed_spec (feed_fuel x) d x Hwf) as Hfd.
  assert (Hff : 2 * length x + slack d <= feed_fuel x) by (unfold feed_fuel; pose proof (slack_bounds d); lia).
  specialize (Hfd Hff). destruct (feed (feed_fuel x) d x) as [[[d1 cs] e] ev1]. cbn [feed_ok] in Hfd.
  destruct e.
  - cbn [run_ok concat]. rewrite run1_app, Hfd, run1_failed. now rewrite app_nil_r.
  - destruct Hfd as [H1 Hwf1]. specialize (IH d1 Hwf1). destruct (run d1 rest) as [[[d2 css] e2] ev2].
    cbn [run_ok concat] in *. rewrite run1_app, H1. destruct e2.
    + rewrite IH. reflexivity.
    + destruct IH as [IH1 IH2]. rewrite IH1. split; [reflexivity|exact IH2].
Qed.

Lemma finish_abs d : finish d = sfinish (abs d).
Proof. destruct d as [st sb k]. destruct st as [buf c|size|meta|]; reflexivity. Qed.

(* M = S: the chunked decoder observes exactly what the byte automaton observes on the whole input *)
Theorem run_is_run1 : forall d chunks, wf d ->
  obs (run d chunks) = obs1 (run1 (abs d) (concat chunks)).
Proof.
  intros d chunks Hwf. pose proof (run_spec chunks d Hwf) as H.
  destruct (run d chunks) as [[[d' css] e] ev]. cbn [run_ok obs] in *. destruct e.
  - rewrite H. reflexivity.
  - destruct H as [H _]. rewrite H. cbn [obs1]. rewrite finish_abs.
    destruct d' as [st sb k]. destruct st; reflexivity.
Qed.

Corollary chunk_independent : forall d c1 c2, wf d -> concat c1 = concat c2 ->
  obs (run d c1) = obs (run d c2).
Proof. intros d c1 c2 Hwf E. rewrite !run_is_run1 by exact Hwf. now rewrite E. Qed.

Lemma wf_dec0 : wf dec0.
Proof. unfold wf; cbn. split; [lia|reflexivity]. Qed.

End P.

(* non-vacuity: a concrete stream (schema with empty body, one batch with a 2-byte body, EOS) cut
   inside the continuation marker with an empty chunk in between *)
Example ipc_nonvacuous :
  let orc := fun (k : nat) (_ : list N) => match k with O => MkInfo true 0 ONone 0%Z | _ => MkInfo true 2 OBatch 7%Z end in
  let stream := [255; 255; 255; 255; 1; 0; 0; 0; 9;
                 255; 255; 255; 255; 2; 0; 0; 0; 8; 8; 5; 6;
                 255; 255; 255; 255; 0; 0; 0; 0]%N in
  obs (run orc dec0 [firstn 3 stream; []; skipn 3 stream]) = obs (run orc dec0 [stream]) /\
  obs (run orc dec0 [stream]) = ([EMsg 0 [9%N] []; EMsg 1 [8; 8]%N [5; 6]%N; EEos], false, true) /\
  wf orc dec0.
Proof. vm_compute. repeat split; try reflexivity; auto. Qed.
