(* C10 — sort_impl / sort_to_indices return an output accepted by the sort predicate, for every array,
   options and limit, given the contracts of the two std slice algorithms (oracles); insertion sort
   meets both contracts. *)
From Coq Require Import List ZArith Lia Bool Arith Permutation.
From AV Require Import Base.ListX Model.C10_Order Model.C10_Sort Proofs.C10_Cmp.
Import ListNotations.

Lemma In_firstn {A} (x : A) k l : In x (firstn k l) -> In x l.
Proof. intros H. rewrite <- (firstn_skipn k l). apply in_or_app. now left. Qed.
Lemma NoDup_firstn {A} k : forall l : list A, NoDup l -> NoDup (firstn k l).
Proof.
  induction k as [|k IH]; intros [|a l] H; cbn; try constructor.
  - inversion H; subst. intros Hin. apply In_firstn in Hin. contradiction.
  - inversion H; subst. now apply IH.
Qed.

Lemma not_gt_iff c : not_gt c = true <-> c <> Gt.
Proof. destruct c; cbn; split; congruence. Qed.

(* ------------------------------------------------------------------ "the first k elements are in order
   and not above anything that follows them" *)
Fixpoint le_after {R} (c : R -> R -> comparison) (k : nat) (l : list R) : Prop :=
  match k, l with
  | O, _ => True
  | _, [] => True
  | S k', x :: r => Forall (fun y => c x y <> Gt) r /\ le_after c k' r
  end.

Lemma le_after_nil {R} (c : R -> R -> comparison) k : le_after c k [] = True.
Proof. destruct k; reflexivity. Qed.

Lemma le_after_mono {R} (c : R -> R -> comparison) k k' l : k' <= k -> le_after c k l -> le_after c k' l.
Proof.
  revert k k'. induction l as [|x r IH]; intros k k' Hk H; [now rewrite le_after_nil|].
  destruct k' as [|k']; [exact I|]. destruct k as [|k]; [lia|]. cbn in *. destruct H as [H1 H2].
  split; [exact H1|]. apply (IH k); [lia|exact H2].
Qed.

Lemma le_after_all {R} (c : R -> R -> comparison) k l :
  (forall x y, In x l -> In y l -> c x y <> Gt) -> le_after c k l.
Proof.
  revert k. induction l as [|x r IH]; intros k H; [now rewrite le_after_nil|].
  destruct k as [|k]; [exact I|]. cbn. split.
  - apply Forall_forall. intros y Hy. apply H; [now left|now right].
  - apply IH. intros a b Ha Hb. apply H; now right.
Qed.

Lemma le_after_app {R} (c : R -> R -> comparison) A B : forall k,
  le_after c (length A) A -> (forall x y, In x A -> In y B -> c x y <> Gt) ->
  le_after c (k - length A) B -> le_after c k (A ++ B).
Proof.
  induction A as [|x A IH]; intros k HA HAB HB.
  - cbn in *. now rewrite Nat.sub_0_r in HB.
  - destruct k as [|k]; [exact I|]. cbn in HA |- *. destruct HA as [H1 H2]. split.
    + apply Forall_app. split; [exact H1|]. apply Forall_forall. intros y Hy. apply HAB; [now left|exact Hy].
    + apply IH; [exact H2| |exact HB]. intros a b Ha Hb. apply HAB; [now right|exact Hb].
Qed.

Lemma le_after_map {R S} (f : S -> R) (c : R -> R -> comparison) k l :
  le_after (fun x y => c (f x) (f y)) k l <-> le_after c k (map f l).
Proof.
  revert k. induction l as [|x r IH]; intros k; [cbn; now rewrite !le_after_nil|].
  destruct k as [|k]; [reflexivity|]. cbn. rewrite IH. rewrite Forall_map. reflexivity.
Qed.

Lemma le_after_ext {R} (c1 c2 : R -> R -> comparison) k l :
  (forall x y, In x l -> In y l -> c1 x y = c2 x y) -> le_after c1 k l -> le_after c2 k l.
Proof.
  revert k. induction l as [|x r IH]; intros k H; [now rewrite !le_after_nil|].
  destruct k as [|k]; [trivial|]. cbn. intros [H1 H2]. split.
  - rewrite Forall_forall in *. intros y Hy. rewrite <- H; [now apply H1|now left|now right].
  - apply IH; [|exact H2]. intros a b Ha Hb. apply H; now right.
Qed.

Lemma le_after_sortedb {R} (c : R -> R -> comparison) k l : le_after c k l -> sortedb c (firstn k l) = true.
Proof.
  revert k. induction l as [|x r IH]; intros k H; [now destruct k|].
  destruct k as [|k]; [reflexivity|]. cbn in H. destruct H as [H1 H2].
  cbn [firstn]. specialize (IH k H2). destruct k as [|k]; [reflexivity|]. destruct r as [|y r']; [reflexivity|].
  cbn [firstn] in IH |- *. cbn [sortedb]. fold (firstn k r') in *.
  inversion H1 as [|? ? Hy _]; subst. apply not_gt_iff in Hy. rewrite Hy. exact IH.
Qed.

Lemma le_after_split {R} (c : R -> R -> comparison) k l x y :
  le_after c k l -> In x (firstn k l) -> In y (skipn k l) -> c x y <> Gt.
Proof.
  revert k. induction l as [|a r IH]; intros k H Hx Hy; [destruct k; contradiction|].
  destruct k as [|k]; [contradiction|]. cbn in H, Hx, Hy. destruct H as [H1 H2]. destruct Hx as [->|Hx].
  - rewrite Forall_forall in H1. apply H1. rewrite <- (firstn_skipn k r). apply in_or_app. now right.
  - now apply (IH k).
Qed.

Section SortedTpo.
  Context {R : Type} (c : R -> R -> comparison).
  Hypothesis Hc : tpo c.

  Lemma sortedb_head_le x l : sortedb c (x :: l) = true -> Forall (fun y => c x y <> Gt) l.
  Proof.
    revert x. induction l as [|y l IH]; intros x H; [constructor|].
    cbn [sortedb] in H. apply andb_true_iff in H. destruct H as [H1 H2].
    assert (Hxy : c x y <> Gt) by (now apply not_gt_iff).
    constructor; [exact Hxy|]. specialize (IH y H2).
    rewrite Forall_forall in *. intros z Hz. destruct Hc as (_ & _ & Ht). apply (Ht x y z); [exact Hxy|now apply IH].
  Qed.

  Lemma sortedb_tail x l : sortedb c (x :: l) = true -> sortedb c l = true.
  Proof. destruct l; [reflexivity|]. cbn [sortedb]. intros H. apply andb_true_iff in H. apply H. Qed.

  (* the contract of sort_unstable_by(limit): sorted prefix, nothing after it is smaller *)
  Lemma le_after_of_contract k : forall l,
    sortedb c (firstn k l) = true ->
    (forall x y, In x (firstn k l) -> In y (skipn k l) -> c x y <> Gt) ->
    le_after c k l.
  Proof.
    induction k as [|k IH]; intros l Hs Hsplit; [exact I|].
    destruct l as [|x r]; [exact I|]. cbn [firstn skipn] in *. cbn. split.
    - rewrite <- (firstn_skipn k r). apply Forall_app. split.
      + now apply sortedb_head_le.
      + apply Forall_forall. intros y Hy. apply Hsplit; [now left|exact Hy].
    - apply IH; [now apply sortedb_tail in Hs|]. intros a b Ha Hb. apply Hsplit; [now right|exact Hb].
  Qed.

  Lemma sortedb_app_one l p : sortedb c l = true -> Forall (fun x => c x p <> Gt) l -> sortedb c (l ++ [p]) = true.
  Proof.
    induction l as [|x l IH]; intros Hs Hl; [reflexivity|].
    inversion Hl as [|? ? Hx Hl']; subst.
    destruct l as [|y l'].
    - cbn. apply not_gt_iff in Hx. now rewrite Hx.
    - cbn [app sortedb] in *. apply andb_true_iff in Hs. destruct Hs as [H1 H2]. rewrite H1. cbn. now apply IH.
  Qed.
End SortedTpo.

(* ------------------------------------------------------------------ the oracles' contracts *)

Definition sort_contract {T} (so : (T -> T -> comparison) -> list T -> list T) : Prop :=
  forall c l, tpo c -> Permutation (so c l) l /\ sortedb c (so c l) = true.

(* select_nth_unstable_by(n): a permutation with the n-th element p in its sorted place,
   nothing before it greater than p, nothing after it less than p *)
Definition select_contract {T} (se : (T -> T -> comparison) -> nat -> list T -> list T) : Prop :=
  forall c n l, tpo c -> n < length l ->
    Permutation (se c n l) l /\
    exists p, nth_error (se c n l) n = Some p /\
      Forall (fun x => c x p <> Gt) (firstn n (se c n l)) /\
      Forall (fun y => c p y <> Gt) (skipn (S n) (se c n l)).

Section Oracles.
  Context {T : Type}.
  Variable so : (T -> T -> comparison) -> list T -> list T.
  Variable se : (T -> T -> comparison) -> nat -> list T -> list T.
  Hypothesis Hso : sort_contract so.
  Hypothesis Hse : select_contract se.

  Lemma skipn_nth_error (l : list T) n p : nth_error l n = Some p -> skipn n l = p :: skipn (S n) l.
  Proof.
    revert n. induction l as [|x l IH]; intros [|n] H; try discriminate.
    - cbn in H. injection H as ->. reflexivity.
    - cbn in H. cbn [skipn]. now apply IH.
  Qed.

  Lemma sort_unstable_by_spec c k l : tpo c -> k <= length l ->
    Permutation (sort_unstable_by so se c k l) l /\ le_after c k (sort_unstable_by so se c k l).
  Proof.
    intros Hc Hk. unfold sort_unstable_by.
    destruct (length l =? k) eqn:E.
    - apply Nat.eqb_eq in E. destruct (Hso c l Hc) as [P Srt]. split; [exact P|].
      apply le_after_of_contract; [exact Hc| |].
      + rewrite firstn_all2; [exact Srt|]. rewrite (Permutation_length P). lia.
      + intros x y _ Hy. rewrite skipn_all2 in Hy; [contradiction|]. rewrite (Permutation_length P). lia.
    - apply Nat.eqb_neq in E. unfold partial_sort. destruct k as [|n]; [split; [reflexivity|exact I]|].
      assert (Hn : n < length l) by lia.
      destruct (Hse c n l Hc Hn) as (P & p & Hp & Hbefore & Hafter).
      set (l' := se c n l) in *.
      destruct (Hso c (firstn n l') Hc) as [P2 S2].
      assert (Ll' : length l' = length l) by apply (Permutation_length P).
      assert (Lf : length (so c (firstn n l')) = n).
      { rewrite (Permutation_length P2), firstn_length. lia. }
      split.
      + apply Permutation_trans with l'; [|exact P].
        apply Permutation_trans with (firstn n l' ++ skipn n l'); [apply Permutation_app_tail; exact P2|].
        rewrite firstn_skipn. reflexivity.
      + rewrite (skipn_nth_error l' n p Hp).
        assert (Hb' : Forall (fun x => c x p <> Gt) (so c (firstn n l'))).
        { apply Forall_forall. intros x Hx. rewrite Forall_forall in Hbefore. apply Hbefore.
          apply (Permutation_in _ P2). exact Hx. }
        apply le_after_of_contract; [exact Hc| |].
        * replace (S n) with (length (so c (firstn n l')) + 1) by lia.
          rewrite firstn_app_2. cbn [firstn]. now apply sortedb_app_one.
        * replace (S n) with (length (so c (firstn n l')) + 1) by lia.
          rewrite firstn_app_2. cbn [firstn]. rewrite skipn_app, Lf.
          replace (n + 1 - n) with 1 by lia. rewrite skipn_all2 by lia. cbn [app skipn].
          intros x y Hx Hy. replace (n + 1) with (S n) in Hy by lia.
          rewrite Forall_forall in Hafter. specialize (Hafter y Hy).
          apply in_app_or in Hx. destruct Hx as [Hx|[<-|[]]]; [|exact Hafter].
          rewrite Forall_forall in Hb'. destruct Hc as (_ & _ & Ht). apply (Ht x p y); [now apply Hb'|exact Hafter].
  Qed.
End Oracles.

(* ------------------------------------------------------------------ insertion sort meets both contracts *)

Section Isort.
  Context {T : Type} (c : T -> T -> comparison).
  Hypothesis Hc : tpo c.

  Lemma insert_perm x l : Permutation (insert c x l) (x :: l).
  Proof.
    induction l as [|y l IH]; [reflexivity|]. cbn. destruct (c x y); try reflexivity.
    rewrite IH. apply perm_swap.
  Qed.

  Lemma insert_sorted x l : sortedb c l = true -> sortedb c (insert c x l) = true.
  Proof.
    induction l as [|y l IH]; intros Hs; [reflexivity|].
    cbn [insert]. destruct (c x y) eqn:E.
    - cbn [sortedb]. rewrite E. exact Hs.
    - cbn [sortedb]. rewrite E. exact Hs.
    - assert (Hyx : c y x <> Gt). { destruct Hc as (_ & Ha & _). rewrite Ha, E. cbn. congruence. }
      specialize (IH (sortedb_tail c y l Hs)).
      destruct l as [|z l'].
      + cbn. apply not_gt_iff in Hyx. now rewrite Hyx.
      + cbn [insert] in IH |- *. cbn [sortedb] in Hs. apply andb_true_iff in Hs. destruct Hs as [Hyz _].
        apply not_gt_iff in Hyx.
        destruct (c x z); cbn [sortedb] in *; first [rewrite Hyz; exact IH | rewrite Hyx; exact IH].
  Qed.

  Lemma isort_perm l : Permutation (isort c l) l.
  Proof. induction l as [|x l IH]; [reflexivity|]. cbn. rewrite insert_perm. now constructor. Qed.
  Lemma isort_sorted l : sortedb c (isort c l) = true.
  Proof. induction l as [|x l IH]; [reflexivity|]. cbn. now apply insert_sorted. Qed.
End Isort.

Lemma isort_contract {T} : sort_contract (@isort T).
Proof. intros c l Hc. split; [apply isort_perm|now apply isort_sorted]. Qed.

Lemma sortedb_le_after {R} (c : R -> R -> comparison) l : tpo c -> sortedb c l = true -> le_after c (length l) l.
Proof.
  intros Hc Hs. apply le_after_of_contract; [exact Hc|now rewrite firstn_all|].
  intros x y _ Hy. rewrite skipn_all in Hy. contradiction.
Qed.

Lemma iselect_contract {T} : select_contract (@iselect T).
Proof.
  intros c n l Hc Hn. unfold iselect. split; [apply isort_perm|].
  pose proof (isort_sorted c Hc l) as Srt. pose proof (isort_perm c l) as P.
  assert (L : length (isort c l) = length l) by apply (Permutation_length P).
  destruct (nth_error (isort c l) n) as [p|] eqn:E; [|apply nth_error_None in E; lia].
  exists p. split; [reflexivity|].
  pose proof (sortedb_le_after c _ Hc Srt) as LA.
  pose proof (skipn_nth_error (isort c l) n p E) as Sk.
  split.
  - apply Forall_forall. intros x Hx. apply (le_after_split c n (isort c l)).
    + apply (le_after_mono c (length (isort c l))); [lia|exact LA].
    + exact Hx.
    + rewrite Sk. now left.
  - apply Forall_forall. intros y Hy. apply (le_after_split c (S n) (isort c l)).
    + apply (le_after_mono c (length (isort c l))); [lia|exact LA].
    + rewrite <- (firstn_skipn n (isort c l)) at 1. rewrite Sk.
      replace (S n) with (length (firstn n (isort c l)) + 1) by (rewrite firstn_length; lia).
      rewrite firstn_app_2. apply in_or_app. right. now left.
    + exact Hy.
Qed.

(* ------------------------------------------------------------------ the predicate accepts firstn lim L *)

Lemma mark_spec i : forall m m', mark i m = Some m' ->
  nth_error m i = Some false /\
  forall j, nth_error m' j = if j =? i then Some true else nth_error m j.
Proof.
  induction i as [|i IH]; intros [|b m] m' H; try discriminate.
  - cbn in H. destruct b; [discriminate|]. injection H as <-. split; [reflexivity|]. intros [|j]; reflexivity.
  - cbn in H. destruct (mark i m) as [r|] eqn:E; [|discriminate]. injection H as <-.
    destruct (IH m r E) as [H1 H2]. split; [exact H1|]. intros [|j]; [reflexivity|]. cbn. apply H2.
Qed.

Lemma mark_succeeds i : forall m, nth_error m i = Some false -> exists m', mark i m = Some m'.
Proof.
  induction i as [|i IH]; intros [|b m] H; try discriminate.
  - cbn in H. injection H as ->. eexists. reflexivity.
  - cbn in H. destruct (IH m H) as [r E]. exists (b :: r). cbn. now rewrite E.
Qed.

Lemma mark_all_spec out : forall m0 m, mark_all out m0 = Some m ->
  forall j, nth_error m j = Some false -> nth_error m0 j = Some false /\ ~ In j out.
Proof.
  induction out as [|i out IH]; intros m0 m H j Hj.
  - cbn in H. injection H as <-. split; [exact Hj|intros []].
  - cbn in H. destruct (mark i m0) as [m1|] eqn:E; [|discriminate].
    destruct (mark_spec i m0 m1 E) as [_ H2]. destruct (IH m1 m H j Hj) as [H3 H4].
    rewrite H2 in H3. destruct (j =? i) eqn:Eji; [discriminate|]. apply Nat.eqb_neq in Eji.
    split; [exact H3|]. intros [->|Hin]; [congruence|contradiction].
Qed.

Lemma mark_all_succeeds out : forall m0, NoDup out -> (forall i, In i out -> nth_error m0 i = Some false) ->
  exists m, mark_all out m0 = Some m.
Proof.
  induction out as [|i out IH]; intros m0 Hnd Hin; [eexists; reflexivity|].
  inversion Hnd as [|? ? Hni Hnd']; subst.
  destruct (mark_succeeds i m0 (Hin i (or_introl eq_refl))) as [m1 E]. cbn. rewrite E.
  apply IH; [exact Hnd'|]. intros j Hj. destruct (mark_spec i m0 m1 E) as [_ H2]. rewrite H2.
  destruct (j =? i) eqn:Eji; [apply Nat.eqb_eq in Eji; subst; contradiction|]. apply Hin. now right.
Qed.

Lemma unmarked_spec {R} (rows : list R) : forall m r, In r (unmarked rows m) ->
  exists i, nth_error rows i = Some r /\ nth_error m i = Some false.
Proof.
  induction rows as [|x rows IH]; intros [|b m] r H; try contradiction.
  cbn in H. destruct b.
  - destruct (IH m r H) as (i & H1 & H2). exists (S i). split; assumption.
  - destruct H as [<-|H]; [exists 0; split; reflexivity|].
    destruct (IH m r H) as (i & H1 & H2). exists (S i). split; assumption.
Qed.

Lemma nth_error_repeat {A} (x : A) n i : i < n -> nth_error (repeat x n) i = Some x.
Proof. revert i. induction n as [|n IH]; intros [|i] H; try lia; [reflexivity|]. cbn. apply IH. lia. Qed.

Lemma pick_map {R} (rows : list R) (row : nat -> R) out :
  (forall i, In i out -> nth_error rows i = Some (row i)) -> pick rows out = map row out.
Proof.
  induction out as [|i out IH]; intros H; [reflexivity|]. unfold pick in *. cbn.
  rewrite (H i (or_introl eq_refl)). cbn. f_equal. apply IH. intros j Hj. apply H. now right.
Qed.

Section Check.
  Context {R : Type} (c : R -> R -> comparison) (rows : list R) (row : nat -> R).
  Hypothesis Hrow : forall i, i < length rows -> nth_error rows i = Some (row i).

  (* L is an ordering of all indices whose first lim entries are in order and not above the rest *)
  Theorem sort_check_firstn L limit :
    Permutation L (seq 0 (length rows)) ->
    le_after (fun i j => c (row i) (row j)) (out_len (length rows) limit) L ->
    sort_check c rows limit (firstn (out_len (length rows) limit) L) = 1%Z.
  Proof.
    intros P LA. set (n := length rows) in *. set (lim := out_len n limit) in *.
    assert (Hlim : lim <= n) by (unfold lim, out_len; destruct limit; lia).
    assert (LL : length L = n) by (rewrite (Permutation_length P); apply seq_length).
    assert (Hrange : forall i, In i L -> i < n).
    { intros i Hi. apply (Permutation_in _ P) in Hi. apply in_seq in Hi. lia. }
    assert (HndL : NoDup L) by (apply (Permutation_NoDup (Permutation_sym P)), seq_NoDup).
    set (out := firstn lim L).
    assert (Hout_in : forall i, In i out -> In i L).
    { intros i Hi. unfold out in Hi. rewrite <- (firstn_skipn lim L). apply in_or_app. now left. }
    unfold sort_check. fold n. fold lim. fold out.
    assert (E1 : (length out =? lim) = true) by (apply Nat.eqb_eq; unfold out; rewrite firstn_length; lia).
    rewrite E1. cbn [negb].
    assert (E2 : forallb (fun i => i <? n) out = true).
    { apply forallb_forall. intros i Hi. apply Nat.ltb_lt. apply Hrange, Hout_in, Hi. }
    rewrite E2. cbn [negb].
    assert (Hnd : NoDup out).
    { unfold out. now apply NoDup_firstn. }
    destruct (mark_all_succeeds out (repeat false n) Hnd) as [m Em].
    { intros i Hi. apply nth_error_repeat. apply Hrange, Hout_in, Hi. }
    rewrite Em.
    assert (Epick : pick rows out = map row out).
    { apply pick_map. intros i Hi. apply Hrow. apply Hrange, Hout_in, Hi. }
    rewrite Epick.
    assert (E3 : sortedb c (map row out) = true).
    { unfold out. rewrite <- firstn_map. apply le_after_sortedb. apply (proj1 (le_after_map row c lim L)). exact LA. }
    rewrite E3. cbn [negb].
    destruct (rev (map row out)) as [|last rest] eqn:Erev; [reflexivity|].
    assert (Hlast : exists k, In k out /\ last = row k).
    { assert (In last (rev (map row out))) by (rewrite Erev; now left).
      apply in_rev, in_map_iff in H. destruct H as (k & <- & Hk). exists k. split; [exact Hk|reflexivity]. }
    destruct Hlast as (k & Hk & ->).
    assert (E4 : forallb (fun r => not_gt (c (row k) r)) (unmarked rows m) = true).
    { apply forallb_forall. intros r Hr.
      destruct (unmarked_spec rows m r Hr) as (i & Hi1 & Hi2).
      destruct (mark_all_spec out (repeat false n) m Em i Hi2) as [Hi3 Hi4].
      assert (Hin : i < n). { apply nth_error_Some. fold n. unfold n. rewrite Hi1. discriminate. }
      rewrite (Hrow i Hin) in Hi1. injection Hi1 as <-.
      assert (HiL : In i (skipn lim L)).
      { assert (In i L) by (apply (Permutation_in _ (Permutation_sym P)), in_seq; lia).
        rewrite <- (firstn_skipn lim L) in H. apply in_app_or in H. destruct H as [H|H]; [contradiction|exact H]. }
      pose proof (le_after_split _ lim L k i LA Hk HiL) as N. now apply not_gt_iff. }
    rewrite E4. reflexivity.
  Qed.
End Check.
