(* C15: the concrete planner replayed by the correspondence run (Model/C15_Plan.v) satisfies the
   hypothesis of the abstract theorems whenever the column chunk ranges it was given lie within the
   file; non-vacuity examples. *)
From Coq Require Import List Arith NArith ZArith Lia Bool.
From AV Require Import Model.C15_PushBuf Model.C15_Machine Model.C15_Trace Model.C15_Plan Proofs.C15_PushBuf Proofs.C15_Machine Proofs.C15_Drive.
Import ListNotations.
Local Open Scope N_scope.

Lemma chunk_ranges_incl cs : forall mask fetched c, In c (chunk_ranges cs mask fetched) -> In c cs.
Proof.
  induction cs as [|c0 cs IH]; intros mask fetched c; cbn [chunk_ranges]; [tauto|].
  intros H. apply in_app_or in H. destruct H as [H|H].
  - destruct (hd false mask && negb (hd false fetched)); [|contradiction]. destruct H as [<-|[]]. now left.
  - right. eapply IH; eauto.
Qed.

Section Inst.
Variable fp : fileplan.
Variable file : list N.
Hypothesis chunks_in_file : forall g c, In c (nth g (fp_chunks fp) []) -> in_file_range file c.

Notation pok := (phase_ok unit budget file (in_file_range file)).

Lemma data_phase_ok g b sel fetched : pok (data_phase fp g b sel fetched).
Proof.
  unfold data_phase. destruct ((sel =? 0) || (rows_after b sel =? 0)); constructor.
  - apply Forall_forall. intros c Hc. apply chunk_ranges_incl in Hc. eapply chunks_in_file; eauto.
  - constructor.
Qed.

Lemma filter_phases_ok g b preds : forall i sel fetched, pok (filter_phases fp g b preds i sel fetched).
Proof.
  induction preds as [|pm preds IH]; intros i sel fetched; cbn [filter_phases]; [apply data_phase_ok|].
  destruct (sel =? 0); constructor.
  - apply Forall_forall. intros c Hc. apply chunk_ranges_incl in Hc. eapply chunks_in_file; eauto.
  - apply IH.
Qed.

Theorem c_plan_in_file : forall r, pok (c_plan fp r).
Proof. intros [g b]. apply filter_phases_ok. Qed.

(* the abstract theorems, instantiated for the planner that the correspondence run replays *)
Theorem c_schedule_independence b sched :
  Forall (valid_action file) sched ->
  let '(m', evs) := run unit budget budget (nat * budget) (c_fr_step fp) (c_plan fp) c_upd file (c_init fp b) sched in
  (In EFinished evs -> rows_of unit evs = sync_rows unit budget budget (nat * budget) (c_fr_step fp) (c_plan fp) c_upd file (seq 0 (length (fp_rows fp))) b)
  /\ ~ In EError evs.
Proof.
  intros Hv.
  pose proof (schedule_independence unit budget budget (nat * budget) (c_fr_step fp) (c_plan fp) c_upd file c_plan_in_file
                (seq 0 (length (fp_rows fp))) b sched Hv) as H.
  unfold c_init. destruct (run _ _ _ _ _ _ _ file _ sched) as [m' evs]. tauto.
Qed.
End Inst.

(* ------------------------------------------------------------------ non-vacuity *)
(* a 40-byte file, two row groups of 3 and 2 rows, two leaf columns, one predicate on leaf 0,
   projection = both leaves, limit 4 *)
Definition ex_file : list N := map N.of_nat (seq 0 40).
Definition ex_fp : fileplan :=
  {| fp_rows := [3; 2];
     fp_chunks := [[(4, 10); (10, 18)]; [(18, 24); (24, 30)]];
     fp_proj := [true; true];
     fp_preds := [[true; false]];
     fp_match := [[2]; [2]] |}.
Definition ex_b : budget := {| b_off := None; b_lim := Some 3 |}.

Example ex_hyp : forall g c, In c (nth g (fp_chunks ex_fp) []) -> in_file_range ex_file c.
Proof.
  intros [|[|g]] c; cbn; [| |destruct g; cbn; tauto]; intros [<-|[<-|[]]]; unfold in_file_range; cbn; lia.
Qed.

(* a schedule with an early unrelated range, a superset, a duplicate, a partial supply and a clear *)
Definition ex_sched : list action :=
  [ APush [(30, 35)]; ADecode; APush [(0, 12)]; APush [(0, 12)]; ADecode; APush [(10, 18)]; ADecode; ADecode; ADecode;
    AClear; ADecode; APush [(24, 30)]; ADecode; APush [(18, 24)]; ADecode; ADecode; ADecode ].

Example ex_run :
  let '(_, evs) := run unit budget budget (nat * budget) (c_fr_step ex_fp) (c_plan ex_fp) c_upd ex_file (c_init ex_fp ex_b) ex_sched in
  evs = [ EPush [(30, 35)]; ENeed [(4, 10)]; EPush [(0, 12)]; EPush [(0, 12)]; ENeed [(10, 18)]; EPush [(10, 18)];
          EData [tt]; EData [tt]; ENeed [(18, 24)]; EClear; ENeed [(18, 24)]; EPush [(24, 30)]; ENeed [(18, 24)];
          EPush [(18, 24)]; EData [tt]; EFinished; EFinished ]
  /\ sync_rows unit budget budget (nat * budget) (c_fr_step ex_fp) (c_plan ex_fp) c_upd ex_file [0; 1]%nat ex_b = [tt; tt; tt].
Proof. vm_compute. split; reflexivity. Qed.

Example ex_valid : Forall (valid_action ex_file) ex_sched.
Proof. repeat constructor; cbn; lia. Qed.

Example ex_drive :
  drive unit budget budget (nat * budget) (c_fr_step ex_fp) (c_plan ex_fp) c_upd ex_file 20 (c_init ex_fp ex_b) = ([tt; tt; tt], true)
  /\ potential unit budget budget (nat * budget) (c_fr_step ex_fp) (c_plan ex_fp) c_upd ex_file (c_init ex_fp ex_b) = 12%nat.
Proof. vm_compute. split; reflexivity. Qed.

Example ex_async :
  stream_collect unit budget budget (nat * budget) (c_fr_step ex_fp) (c_plan ex_fp) c_upd ex_file 60 [2; 0; 5]%nat
    {| s_req := QNone; s_dec := c_init ex_fp ex_b |} = ([tt; tt; tt], true).
Proof. vm_compute. reflexivity. Qed.

(* the trace predicate accepts the trace of this run and rejects a stalled decoder *)
Example ex_trace_safe :
  trace_safe 40 [] false
    [ TPush [(30, 35)]; TNeed [(4, 10)]; TPush [(0, 12)]; TPush [(0, 12)]; TNeed [(10, 18)]; TPush [(10, 18)];
      TData 1; TData 1; TNeed [(18, 24)]; TClear; TNeed [(18, 24)]; TPush [(24, 30)]; TNeed [(18, 24)];
      TPush [(18, 24)]; TData 1; TFinished ] = true
  /\ trace_safe 40 [] false [ TNeed [(4, 10)]; TPush [(0, 12)]; TNeed [(4, 10)] ] = false
  /\ trace_safe 40 [] false [ TNeed [(4, 50)] ] = false
  /\ trace_safe 40 [] false [ TPush [(0, 40)]; TNeed [(4, 10)] ] = false.
Proof. vm_compute. repeat split; reflexivity. Qed.
