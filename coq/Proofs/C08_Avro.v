(* C08 — proofs about the Avro varint readers and the OCF block loop of Model/C08_Avro.v *)
From Coq Require Import List NArith ZArith Bool Lia ZifyN ZifyNat ZifyBool.
From AV Require Import Base.Bits Base.Bytes Model.C08_Avro.
Import ListNotations.
Local Open Scope N_scope.
Ltac Zify.zify_post_hook ::= Z.div_mod_to_equations.

(* ------------------------------------------------------------------ VLQDecoder::long *)
(* the shift counter only takes the values 0, 7, ..., 63: the `<<` never overflows (no debug-build panic) *)
Lemma vlq_long_no_panic : forall bs acc k, (k <= 9)%nat -> vlq_long bs acc (7 * N.of_nat k) <> VPanic.
Proof.
  induction bs as [|b r IH]; intros acc k Hk; cbn [vlq_long]; [discriminate|].
  destruct (N.eqb_spec (7 * N.of_nat k) 63) as [E|E].
  - destruct (N.leb_spec 2 b) as [Hb|Hb]; cbn [andb]; [discriminate|].
    destruct (N.leb_spec 64 (7 * N.of_nat k)) as [H64|H64]; [lia|].
    destruct (N.ltb_spec b 128) as [Hb1|Hb1]; [discriminate|lia].
  - cbn [andb]. destruct (N.leb_spec 64 (7 * N.of_nat k)) as [H64|H64]; [lia|].
    destruct (b <? 128); [discriminate|].
    replace (7 * N.of_nat k + 7) with (7 * N.of_nat (S k)) by lia. apply IH. lia.
Qed.

Lemma vlq_long_at_most_10 : forall bs acc k z r, (k <= 9)%nat -> vlq_long bs acc (7 * N.of_nat k) = VVal z r ->
  (length r < length bs /\ length bs - length r <= 10 - k)%nat.
Proof.
  induction bs as [|b t IH]; intros acc k z r Hk; cbn [vlq_long]; [discriminate|].
  destruct (N.eqb_spec (7 * N.of_nat k) 63) as [E|E].
  - destruct (N.leb_spec 2 b) as [Hb|Hb]; cbn [andb]; [discriminate|].
    destruct (N.leb_spec 64 (7 * N.of_nat k)) as [H64|H64]; [lia|].
    destruct (N.ltb_spec b 128) as [Hb1|Hb1]; [|lia]. intros H; inversion H; subst. cbn [length]. lia.
  - cbn [andb]. destruct (N.leb_spec 64 (7 * N.of_nat k)) as [H64|H64]; [lia|].
    destruct (b <? 128); [intros H; inversion H; subst; cbn [length]; lia|].
    replace (7 * N.of_nat k + 7) with (7 * N.of_nat (S k)) by lia. intros H. apply IH in H; [|lia]. cbn [length]. lia.
Qed.

Lemma vlq_long_start_no_panic bs : vlq_long bs 0 0 <> VPanic.
Proof. apply (vlq_long_no_panic bs 0 0). lia. Qed.

Lemma vlq_long_start_progress bs z r : vlq_long bs 0 0 = VVal z r -> (length r < length bs /\ length bs - length r <= 10)%nat.
Proof. intros H. apply (vlq_long_at_most_10 bs 0 0) in H; [lia|lia]. Qed.

(* ------------------------------------------------------------------ block decoder *)
Lemma decode_block_no_panic bs : decode_block bs <> BPanic.
Proof.
  unfold decode_block. pose proof (vlq_long_start_no_panic bs) as H1.
  destruct (vlq_long bs 0 0) as [c r1| | |]; try discriminate; [|contradiction].
  destruct (c <? 0)%Z; [discriminate|].
  pose proof (vlq_long_start_no_panic r1) as H2.
  destruct (vlq_long r1 0 0) as [s r2| | |]; try discriminate; [|contradiction].
  destruct (s <? 0)%Z; [discriminate|]. destruct (_ <? _); discriminate.
Qed.

(* a decoded block consumes its two varints, its data and the 16-byte marker *)
Lemma decode_block_progress bs c d s rest : decode_block bs = BBlock c d s rest ->
  (length rest + length d + 18 <= length bs)%nat /\ length s = 16%nat.
Proof.
  unfold decode_block.
  destruct (vlq_long bs 0 0) as [cz r1| | |] eqn:E1; try discriminate.
  destruct (cz <? 0)%Z; [discriminate|].
  destruct (vlq_long r1 0 0) as [sz r2| | |] eqn:E2; try discriminate.
  destruct (sz <? 0)%Z eqn:Es; [discriminate|].
  destruct (N.ltb_spec (N.of_nat (length r2)) (Z.to_N sz + 16)) as [Hl|Hl]; [discriminate|].
  cbv zeta.
  remember (N.to_nat (Z.to_N sz)) as k eqn:Ek.
  remember (firstn k r2) as dd eqn:Hdd. remember (skipn k r2) as r3 eqn:Hr3.
  remember (firstn 16 r3) as ss eqn:Hss. remember (skipn 16 r3) as rr eqn:Hrr.
  intros H. injection H as Hc Hd Hs Hr. subst c d s rest.
  apply vlq_long_start_progress in E1. apply vlq_long_start_progress in E2.
  assert (Hk : (k + 16 <= length r2)%nat) by lia.
  assert (L3 : length r3 = (length r2 - k)%nat) by (subst r3; apply skipn_length).
  assert (Ld : length dd = k) by (subst dd; rewrite firstn_length; lia).
  assert (Ls : length ss = 16%nat) by (subst ss; rewrite firstn_length; lia).
  assert (Lr : length rr = (length r3 - 16)%nat) by (subst rr; apply skipn_length).
  split; lia.
Qed.

(* ------------------------------------------------------------------ the reader loop *)
Lemma read_blocks_never_out_of_fuel : forall f sync bs acc, (length bs < f)%nat -> read_blocks f sync bs acc <> RFuel.
Proof.
  induction f as [|f IH]; intros sync bs acc Hl; [lia|]. cbn [read_blocks].
  destruct bs as [|b0 t]; [discriminate|].
  destruct (decode_block (b0 :: t)) as [c d s rest| | |] eqn:E; try discriminate.
  apply decode_block_progress in E. destruct E as [E _].
  destruct (negb _); [discriminate|].
  destruct d as [|d0 dt]; [apply IH; cbn in *; lia|].
  destruct (c =? 0); [discriminate|]. destruct (_ <? c); [discriminate|].
  destruct (decode_longs _ _ _) as [[vals [|x l]]|]; try discriminate.
  apply IH. cbn in *. lia.
Qed.

Lemma read_blocks_no_panic : forall f sync bs acc, read_blocks f sync bs acc <> RPanic.
Proof.
  induction f as [|f IH]; intros sync bs acc; cbn [read_blocks]; [discriminate|].
  destruct bs as [|b0 t]; [discriminate|].
  pose proof (decode_block_no_panic (b0 :: t)) as Hp.
  destruct (decode_block (b0 :: t)) as [c d s rest| | |]; try discriminate; [|contradiction].
  destruct (negb _); [discriminate|].
  destruct d as [|d0 dt]; [apply IH|].
  destruct (c =? 0); [discriminate|]. destruct (_ <? c); [discriminate|].
  destruct (decode_longs _ _ _) as [[vals [|x l]]|]; try discriminate. apply IH.
Qed.

(* The reader loop makes progress on every input?  Refuted: a block that declares 0 records but 1 byte of data
   (count 0, size 1, one data byte, sync marker) parks Reader::read in `while !finished` forever. *)
Definition sync0 : list N := repeat 7 16.
Lemma avro_reader_progress_refuted :
  exists bs, read_blocks (S (length bs)) sync0 bs [] = RHang.
Proof. exists ([0; 2; 5] ++ sync0). vm_compute. reflexivity. Qed.

(* ... and that is the only way: when every block's data is exactly its `count` records, the loop ends with Ok or Err *)
Lemma read_blocks_total f sync bs acc : (length bs < f)%nat ->
  match read_blocks f sync bs acc with ROk _ | RErr | RHang => True | _ => False end.
Proof.
  intros Hl. pose proof (read_blocks_never_out_of_fuel f sync bs acc Hl). pose proof (read_blocks_no_panic f sync bs acc).
  destruct (read_blocks f sync bs acc); auto.
Qed.
