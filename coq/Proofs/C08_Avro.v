(* C08 — proofs about the Avro varint readers and the OCF block loop of Model/C08_Avro.v *)
From Coq Require Import List NArith ZArith Bool Lia ZifyN ZifyNat ZifyBool.
From AV Require Import Base.Bits Base.Bytes Model.C08_Avro.
Import ListNotations.
Local Open Scope N_scope.
Ltac Zify.zify_post_hook ::= Z.div_mod_to_equations.

(* ------------------------------------------------------------------ VLQDecoder::long *)
(* the shift counter only takes the values 0, 7, ..., 63: the `<<` never overflows (no debug-build panic) *)
Lemma vlq_long_no_panic : forall bs acc k, (k <= 9)%nat -> vlq_long bs acc (7 * N.of_nat k) <> VPanic.
Proof.
  induction bs as [|b r IH]; intros acc k Hk; cbn [vlq_long]; [discriminate|].
  destruct (N.eqb_spec (7 * N.of_nat k) 63) as [E|E].
  - destruct (N.leb_spec 2 b) as [Hb|Hb]; cbn [andb]; [discriminate|].
    destruct (N.leb_spec 64 (7 * N.of_nat k)) as [H64|H64]; [lia|].
    destruct (N.ltb_spec b 128) as [Hb1|Hb1]; [discriminate|lia].
  - cbn [andb]. destruct (N.leb_spec 64 (7 * N.of_nat k)) as [H64|H64]; [lia|].
    destruct (b <? 128); [discriminate|].
    replace (7 * N.of_nat k + 7) with (7 * N.of_nat (S k)) by lia. apply IH. lia.
Qed.

Lemma vlq_long_at_most_10 : forall bs acc k z r, (k <= 9)%nat -> vlq_long bs acc (7 * N.of_nat k) = VVal z r ->
  (length r < length bs /\ length bs - length r <= 10 - k)%nat.
Proof.
  induction bs as [|b t IH]; intros acc k z r Hk; cbn [vlq_long]; [discriminate|].
  destruct (N.eqb_spec (7 * N.of_nat k) 63) as [E|E].
  - destruct (N.leb_spec 2 b) as [Hb|Hb]; cbn [andb]; [discriminate|].
    destruct (N.leb_spec 64 (7 * N.of_nat k)) as [H64|H64]; [lia|].
    destruct (N.ltb_spec b 128) as [Hb1|Hb1]; [|lia]. intros H; inversion H; subst. cbn [length]. lia.
  - cbn [andb]. destruct (N.leb_spec 64 (7 * N.of_nat k)) as [H64|H64]; [lia|].
    destruct (b <? 128); [intros H; inversion H; subst; cbn [length]; lia|].
    replace (7 * N.of_nat k + 7) with (7 * N.of_nat (S k)) by lia. intros H. apply IH in H; [|lia]. cbn [length]. lia.
Qed.

Lemma vlq_long_start_no_panic bs : vlq_long bs 0 0 <> VPanic.
Proof. apply (vlq_long_no_panic bs 0 0). lia. Qed.

Lemma vlq_long_start_progress bs z r : vlq_long bs 0 0 = VVal z r -> (length r < length bs /\ length bs - length r <= 10)%nat.
Proof. intros H. apply (vlq_long_at_most_10 bs 0 0) in H; [lia|lia]. Qed.

(* ------------------------------------------------------------------ block decoder *)
Lemma decode_block_no_panic bs : decode_block bs <> BPanic.
Proof.
  unfold decode_block. pose proof (vlq_long_start_no_panic bs) as H1.
  destruct (vlq_long bs 0 0) as [c r1| | |]; try discriminate; [|contradiction].
  destruct (c <? 0)%Z; [discriminate|].
  pose proof (vlq_long_start_no_panic r1) as H2.
  destruct (vlq_long r1 0 0) as [s r2| | |]; try discriminate; [|contradiction].
  destruct (s <? 0)%Z; [discriminate|]. destruct (_ <? _); discriminate.
Qed.

(* a decoded block consumes its two varints, its data and the 16-byte marker *)
Lemma decode_block_progress bs c d s rest : decode_block bs = BBlock c d s rest ->
  (length rest + length d + 18 <= length bs)%nat /\ length s = 16%nat.
Proof.
  unfold decode_block.
  destruct (vlq_long bs 0 0) as [cz r1| | |] eqn:E1; try discriminate.
  destruct (cz <? 0)%Z; [discriminate|].
  destruct (vlq_long r1 0 0) as [sz r2| | |] eqn:E2; try discriminate.
  destruct (sz <? 0)%Z eqn:Es; [discriminate|].
  destruct (N.ltb_spec (N.of_nat (length r2)) (Z.to_N sz + 16)) as [Hl|Hl]; [discriminate|].
  cbv zeta.
  remember (N.to_nat (Z.to_N sz)) as k eqn:Ek.
  remember (firstn k r2) as dd eqn:Hdd. remember (skipn k r2) as r3 eqn:Hr3.
  remember (firstn 16 r3) as ss eqn:Hss. remember (skipn 16 r3) as rr eqn:Hrr.
  intros H. injection H as Hc Hd Hs Hr. subst c d s rest.
  apply vlq_long_start_progress in E1. apply vlq_long_start_progress in E2.
  assert (Hk : (k + 16 <= length r2)%nat) by lia.
  assert (L3 : length r3 = (length r2 - k)%nat) by (subst r3; apply skipn_length).
  assert (Ld : length dd = k) by (subst dd; rewrite firstn_length; lia).
  assert (Ls : length ss = 16%nat) by (subst ss; rewrite firstn_length; lia).
  assert (Lr : length rr = (length r3 - 16)%nat) by (subst rr; apply skipn_length).
  split; lia.
Qed.

(* ------------------------------------------------------------------ the reader loop *)
Lemma read_blocks_never_out_of_fuel : forall f sync bs acc, (length bs < f)%nat -> read_blocks f sync bs acc <> RFuel.
Proof.
  induction f as [|f IH]; intros sync bs acc Hl; [lia|]. cbn [read_blocks].
  destruct bs as [|b0 t]; [discriminate|].
  destruct (decode_block (b0 :: t)) as [c d s rest| | |] eqn:E; try discriminate.
  apply decode_block_progress in E. destruct E as [E _].
  destruct (negb _); [discriminate|].
  destruct d as [|d0 dt]; [apply IH; cbn in *; lia|].
  destruct (c =? 0); [discriminate|]. destruct (_ <? c); [discriminate|].
  destruct (decode_longs _ _ _) as [[vals [|x l]]|]; try discriminate.
  apply IH. cbn in *. lia.
Qed.

Lemma read_blocks_no_panic : forall f sync bs acc, read_blocks f sync bs acc <> RPanic.
Proof.
  induction f as [|f IH]; intros sync bs acc; cbn [read_blocks]; [discriminate|].
  destruct bs as [|b0 t]; [discriminate|].
  pose proof (decode_block_no_panic (b0 :: t)) as Hp.
  destruct (decode_block (b0 :: t)) as [c d s rest| | |]; try discriminate; [|contradiction].
  destruct (negb _); [discriminate|].
  destruct d as [|d0 dt]; [apply IH|].
  destruct (c =? 0); [discriminate|]. destruct (_ <? c); [discriminate|].
  destruct (decode_longs _ _ _) as [[vals [|x l]]|]; try discriminate. apply IH.
Qed.

(* The reader loop makes progress on every input?  Refuted: a block that declares 0 records but 1 byte of data
   (count 0, size 1, one data byte, sync marker) parks Reader::read in `while !finished` forever. *)
Definition sync0 : list N := repeat 7 16.
Lemma avro_reader_progress_refuted :
  exists bs, read_blocks (S (length bs)) sync0 bs [] = RHang.
Proof. exists ([0; 2; 5] ++ sync0). vm_compute. reflexivity. Qed.

(* ... and that is the only way: when every block's data is exactly its `count` records, the loop ends with Ok or Err *)
Lemma read_blocks_total f sync bs acc : (length bs < f)%nat ->
  match read_blocks f sync bs acc with ROk _ | RErr | RHang => True | _ => False end.
Proof.
  intros Hl. pose proof (read_blocks_never_out_of_fuel f sync bs acc Hl). pose proof (read_blocks_no_panic f sync bs acc).
  destruct (read_blocks f sync bs acc); auto.
Qed.

(* ------------------------------------------------------------------ read_varint: the 10-byte array path (additive,
   with the continuation bit subtracted afterwards) and the slow path both compute the bounded ULEB128 specification *)
From AV Require Import Proofs.C08_Vlq.

(* the specification with a byte counter instead of the remaining input *)
Fixpoint udc (fuel : nat) (bs : list N) (idx acc : N) : option (N * N) :=
  match fuel with
  | O => None
  | S f => match bs with
           | [] => None
           | b :: r => let acc' := acc + (b mod 128) * 2^(7 * idx) in
                       if b <? 128 then (if (idx =? 9) && (1 <? b) then None else Some (acc', idx + 1))
                       else udc f r (idx + 1) acc'
           end
  end.

Lemma uleb_dec_len : forall fuel bs sh acc v r, uleb_dec fuel bs sh acc = Some (v, r) -> (length r < length bs)%nat.
Proof.
  induction fuel as [|f IH]; intros bs sh acc v r; cbn [uleb_dec]; [discriminate|].
  destruct bs as [|b t]; [discriminate|]. destruct (b <? 128).
  - destruct (_ && _); [discriminate|]. intros H; inversion H; subst. cbn. lia.
  - intros H. apply IH in H. cbn. lia.
Qed.

Lemma udc_spec : forall fuel bs idx acc,
  udc fuel bs idx acc = match uleb_dec fuel bs (7 * idx) acc with
                        | Some (v, r) => Some (v, idx + N.of_nat (length bs - length r))
                        | None => None end.
Proof.
  induction fuel as [|f IH]; intros bs idx acc; cbn [udc uleb_dec]; [reflexivity|].
  destruct bs as [|b t]; [reflexivity|].
  replace (7 * idx =? 63) with (idx =? 9) by (destruct (N.eqb_spec idx 9), (N.eqb_spec (7 * idx) 63); lia).
  destruct (b <? 128).
  - destruct (_ && _); [reflexivity|]. f_equal. f_equal. cbn [length]. lia.
  - rewrite IH. replace (7 * (idx + 1)) with (7 * idx + 7) by lia.
    destruct (uleb_dec f t (7 * idx + 7) _) as [[v r]|] eqn:E; [|reflexivity].
    apply uleb_dec_len in E. f_equal. f_equal. cbn [length]. lia.
Qed.

Lemma byte_hi b : b < 256 -> 128 <= b -> b mod 128 = b - 128.
Proof. intros. symmetry. apply (N.mod_unique b 128 1 (b - 128)); lia. Qed.

Lemma udc_cons f b r idx acc :
  udc (S f) (b :: r) idx acc =
  if b <? 128 then (if (idx =? 9) && (1 <? b) then None else Some (acc + (b mod 128) * 2^(7 * idx), idx + 1))
  else udc f r (idx + 1) (acc + (b mod 128) * 2^(7 * idx)).
Proof. reflexivity. Qed.

Lemma arr_cons k idx b r acc :
  varint_array_loop (S k) idx (b :: r) acc =
  if b <? 128 then inl (Some (acc + N.shiftl b (7 * idx), idx + 1))
  else varint_array_loop k (idx + 1) r (acc + N.shiftl b (7 * idx) - N.shiftl 128 (7 * idx)).
Proof. reflexivity. Qed.

Lemma array_path_spec : forall k idx bs acc,
  idx + N.of_nat k = 9 -> wf_bytes bs -> (k < length bs)%nat -> acc < 2^(7 * idx) ->
  match varint_array_loop k idx bs acc with
  | inl r => r
  | inr a => let b := nth k bs 0 in if b <? 2 then Some (a + N.shiftl b 63, 10) else None
  end = udc (S k) bs idx acc.
Proof.
  induction k as [|k IH]; intros idx bs acc Hi Hw Hl Ha.
  - assert (idx = 9) by lia. subst idx. destruct bs as [|b t]; [cbn in Hl; lia|].
    rewrite udc_cons. cbn [varint_array_loop nth]. cbv zeta. rewrite N.shiftl_mul_pow2. cbn [N.eqb andb].
    change (7 * 9) with 63.
    destruct (N.ltb_spec b 2) as [H2|H2].
    + destruct (N.ltb_spec b 128); [|lia]. destruct (N.ltb_spec 1 b); [lia|]. cbn [andb].
      rewrite N.mod_small by lia. reflexivity.
    + destruct (N.ltb_spec b 128); [|reflexivity]. destruct (N.ltb_spec 1 b); [reflexivity|lia].
  - destruct bs as [|b t]; [cbn in Hl; lia|].
    inversion Hw as [|? ? Hb Hw']; subst.
    rewrite arr_cons, udc_cons. cbn [nth]. rewrite (N.shiftl_mul_pow2 b), (N.shiftl_mul_pow2 128).
    destruct (N.ltb_spec b 128) as [Hlt|Hge].
    + destruct (N.eqb_spec idx 9); [lia|]. cbn [andb]. rewrite N.mod_small by exact Hlt. reflexivity.
    + rewrite (byte_hi b Hb Hge).
      replace (acc + b * 2^(7 * idx) - 128 * 2^(7 * idx)) with (acc + (b - 128) * 2^(7 * idx)) by nia.
      apply IH; [lia|exact Hw'|cbn in Hl; lia|].
      replace (7 * (idx + 1)) with (7 * idx + 7) by lia. rewrite N.pow_add_r. change (2^7) with 128. nia.
Qed.

Lemma slow_path_spec : forall k count bs value, value < 2^(7 * count) ->
  varint_slow_loop k count bs value = udc k bs count value.
Proof.
  induction k as [|k IH]; intros count bs value Hv; [reflexivity|].
  destruct bs as [|b t]; [reflexivity|]. rewrite udc_cons. cbn [varint_slow_loop]. cbv zeta.
  rewrite land127, N.shiftl_mul_pow2, (N.mul_comm count 7), (lor_add_shift value (b mod 128) (7 * count) Hv).
  assert (Hm : b mod 128 < 128) by (apply N.mod_lt; discriminate).
  destruct (N.leb_spec b 127) as [Hb|Hb]; destruct (N.ltb_spec b 128) as [Hb'|Hb']; try lia.
  - destruct (N.eqb_spec count 9); cbn [negb orb andb].
    + destruct (N.ltb_spec b 2), (N.ltb_spec 1 b); try lia; reflexivity.
    + reflexivity.
  - apply IH. replace (7 * (count + 1)) with (7 * count + 7) by lia. rewrite N.pow_add_r. change (2^7) with 128. nia.
Qed.

Theorem read_varint_spec bs : wf_bytes bs ->
  read_varint bs = match varint_spec bs with
                   | Some (v, r) => Some (v, N.of_nat (length bs - length r))
                   | None => None end.
Proof.
  intros Hw. unfold varint_spec.
  pose proof (udc_spec 10 bs 0 0) as Hs. rewrite N.mul_0_r in Hs.
  assert (Hu : read_varint bs = udc 10 bs 0 0).
  { destruct bs as [|b t]; [reflexivity|]. unfold read_varint.
    destruct (N.ltb_spec b 128) as [Hb|Hb].
    - rewrite udc_cons. destruct (N.ltb_spec b 128); [|lia]. cbn [N.eqb andb].
      rewrite N.mod_small by exact Hb. rewrite N.mul_0_r, N.pow_0_r, N.mul_1_r, !N.add_0_l. reflexivity.
    - destruct (Nat.leb_spec 10 (length (b :: t))) as [Hl|Hl].
      + unfold read_varint_array. apply (array_path_spec 9 0 (b :: t) 0); [reflexivity|exact Hw|lia|cbn; lia].
      + unfold read_varint_slow. apply slow_path_spec. cbn. lia. }
  rewrite Hu, Hs. destruct (uleb_dec 10 bs 0 0) as [[v r]|]; reflexivity.
Qed.

Lemma vlq_long_bounded bs : vlq_long bs 0 0 <> VPanic /\
  forall z r, vlq_long bs 0 0 = VVal z r -> (length r < length bs /\ length bs - length r <= 10)%nat.
Proof. split; [apply vlq_long_start_no_panic|apply vlq_long_start_progress]. Qed.

Lemma read_blocks_total_start sync bs :
  match read_blocks (S (length bs)) sync bs [] with ROk _ | RErr | RHang => True | _ => False end.
Proof. apply read_blocks_total. apply Nat.lt_succ_diag_r. Qed.
