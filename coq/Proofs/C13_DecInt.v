(* C13 — integer <-> decimal arms (non-negative scale) compute the exact scaled value with the range /
   precision check; decimal upscale followed by the inverse downscale returns the value (model level). *)
From Coq Require Import List ZArith Bool Lia.
From AV Require Import Model.C13_Num Model.C13_Decimal Proofs.C13_Pow Proofs.C13_Rescale Proofs.C13_Int.
Import ListNotations.
Local Open Scope Z_scope.

Lemma pow10_checked_some : forall w s, In w widths -> 0 <= s <= dec_maxp w -> pow10_checked w true s = Some (10 ^ s).
Proof.
  intros w s Hw Hs. unfold pow10_checked. cbv zeta.
  assert (F : fits w true (10 ^ s) = true).
  { apply fits_signed_abs. pose proof (pow10_pos s ltac:(lia)). rewrite Z.abs_eq by lia.
    pose proof (pow10_fits_width w Hw). pose proof (pow10_mono s (dec_maxp w) Hs). lia. }
  rewrite F. reflexivity.
Qed.

(* integer -> decimal, scale >= 0 (cast_integer_to_decimal): v * 10^s when it has at most p digits *)
Theorem int_decimal_exact : forall bits sg w p s v, In w widths ->
  1 <= p <= dec_maxp w -> 0 <= s <= dec_maxp w ->
  kernel_value (int_dec_kernel bits sg w p s) v = Some (int_dec_spec p s v).
Proof.
  intros bits sg w p s v Hw Hp Hs. unfold int_dec_kernel, int_dec_spec. cbv beta zeta.
  destruct (Z.ltb_spec s 0) as [Hn|_]; [lia|].
  rewrite (pow10_checked_some w s Hw Hs). cbn [kernel_value].
  pose proof (up_fallible_spec w p s v Hw Hp ltac:(lia)) as U. unfold up_fallible in U. rewrite U. reflexivity.
Qed.

Theorem int_decimal_exact_explicit : forall bits sg w p s v, In w widths ->
  1 <= p <= dec_maxp w -> 0 <= s <= dec_maxp w ->
  kernel_value (int_dec_kernel bits sg w p s) v
  = Some (let r := v * 10 ^ s in if Z.abs r <? 10 ^ p then Some r else None).
Proof.
  intros bits sg w p s v Hw Hp Hs. rewrite (int_decimal_exact bits sg w p s v Hw Hp Hs).
  unfold int_dec_spec, in_prec. cbv beta zeta. destruct (Z.ltb_spec s 0); [lia|reflexivity].
Qed.

(* decimal -> integer, scale >= 0 (cast_decimal_to_integer): truncating division, then the range check *)
Theorem decimal_int_exact : forall w s obits osg v, In w widths -> 0 <= s <= dec_maxp w ->
  kernel_value (dec_int_kernel w s obits osg) v = Some (num_cast obits osg (Z.quot v (10 ^ s))).
Proof.
  intros w s obits osg v Hw Hs. unfold dec_int_kernel.
  rewrite Z.abs_eq by lia. rewrite (pow10_checked_some w s Hw Hs).
  destruct (Z.ltb_spec s 0) as [Hn|_]; [lia|]. reflexivity.
Qed.

(* lossless inverse at the level of the modelled kernels: upscaling s1 -> s2 and casting back *)
Theorem decimal_kernel_inverse : forall w1 p1 s1 w2 p2 s2 x y,
  In w1 widths -> In w2 widths ->
  dec_type_ok w1 p1 s1 = true -> dec_type_ok w2 p2 s2 = true ->
  s1 <= s2 -> s2 - s1 <= 127 -> p1 + (s2 - s1) <= 127 -> s2 - s1 <= dec_maxp w2 ->
  Z.abs x < 10 ^ p1 ->
  kernel_value (dec_dec_kernel w1 p1 s1 w2 p2 s2) x = Some (Some y) ->
  kernel_value (dec_dec_kernel w2 p2 s2 w1 p1 s1) y = Some (Some x).
Proof.
  intros w1 p1 s1 w2 p2 s2 x y Hw1 Hw2 T1 T2 Hs Hd Hp Ht Hx Hk.
  rewrite (dec_dec_kernel_exact w1 p1 s1 w2 p2 s2 x Hw1 Hw2 T1 T2 ltac:(lia) Hp ltac:(intros; lia) Hx) in Hk.
  inversion Hk as [Hk']. clear Hk.
  assert (Hy : Z.abs y < 10 ^ p2).
  { unfold dec_dec_spec in Hk'. cbv beta zeta in Hk'. destruct (in_prec p2 (rescale_spec s1 s2 x)) eqn:P; [|discriminate].
    inversion Hk'; subst y. apply in_prec_true. assumption. }
  pose proof (dec_type_ok_bounds w1 p1 s1 T1) as (P1 & _). pose proof (dec_type_ok_bounds w2 p2 s2 T2) as (P2 & _).
  pose proof (dec_maxp_pos w1 Hw1) as M1. pose proof (dec_maxp_pos w2 Hw2) as M2.
  rewrite (dec_dec_kernel_exact w2 p2 s2 w1 p1 s1 y Hw2 Hw1 T2 T1 ltac:(lia) ltac:(lia)); [|intros; lia|assumption].
  f_equal. apply (decimal_upscale_inverse s1 p1 s2 p2 x y Hs Hx Hk').
Qed.
