(* C09: acceptance by the (transcribed) arrow-rs validator implies validity under the independent
   specification validator, for whole array trees over the covered data types. *)
From Coq Require Import List Arith NArith ZArith Lia Bool.
From AV Require Import Model.C09_Layout Model.C09_Validate Proofs.C09_Tree Proofs.C09_Accept Proofs.C09_Nodes Proofs.C09_Nodes2 Proofs.C09_Nodes3.
Import ListNotations.

Lemma node_accept a :
  phys a = true -> forallb node_ok (p_kids a) = true -> node_ok a = true -> covered a = true ->
  spec_node a && spec_nullability a = true.
Proof.
  destruct a as [ty len off nulls bufs kids]. unfold covered. cbn [p_ty p_kids p_off].
  intros Hp Hk Ho Hc. destruct ty; try discriminate.
  - now apply acc_TNull.
  - now apply acc_TBool.
  - now apply acc_TFixed.
  - now apply acc_TFixedBin.
  - destruct utf8; [discriminate|]. now apply acc_TBin.
  - now apply acc_TList.
  - now apply acc_TListView.
  - now apply acc_TFixedList.
  - apply Nat.eqb_eq in Hc. subst off. now apply acc_TStruct.
  - now apply acc_TDict.
  - now apply acc_TRee.
Qed.

Lemma tree_all_head P a : tree_all P a = true -> P a = true.
Proof. rewrite tree_all_unfold. intros H. apply andb_true_iff in H. apply H. Qed.

(* every node of an accepted tree also has accepted direct children *)
Lemma tree_all_kids P : forall a, tree_all P a = true -> tree_all (fun n => forallb P (p_kids n)) a = true.
Proof.
  fix IH 1. intros [ty len off nulls bufs kids]. cbn [tree_all p_kids]. intros H.
  apply andb_true_iff in H. destruct H as [_ Hk]. apply andb_true_iff. split.
  - clear IH. induction kids as [|k ks IHk]; [reflexivity|]. cbn [forallb] in *.
    apply andb_true_iff in Hk. destruct Hk as [H1 H2]. apply andb_true_iff. split; [exact (tree_all_head P k H1)|exact (IHk H2)].
  - induction kids as [|k ks IHk]; [reflexivity|]. cbn [forallb] in *.
    apply andb_true_iff in Hk. destruct Hk as [H1 H2]. apply andb_true_iff. split; [exact (IH k H1)|exact (IHk H2)].
Qed.

Theorem accept_implies_valid_tree a :
  tree_all phys a = true -> tree_all covered a = true -> impl_validate_full a = true -> spec_valid a = true.
Proof.
  unfold impl_validate_full, spec_valid. intros Hp Hc Ho.
  pose proof (tree_all_kids node_ok a Ho) as Hk.
  assert (H : tree_all (fun n => (phys n && covered n) && (node_ok n && forallb node_ok (p_kids n))) a = true).
  { rewrite !tree_all_and. rewrite Hp, Hc, Ho, Hk. reflexivity. }
  revert H. apply tree_all_impl. intros n Hn.
  apply andb_true_iff in Hn. destruct Hn as [H1 H2].
  apply andb_true_iff in H1. destruct H1 as [Hp1 Hc1].
  apply andb_true_iff in H2. destruct H2 as [Ho1 Hk1].
  now apply node_accept.
Qed.
