(* C08 — proofs about the Thrift compact readers of Model/C08_Thrift.v *)
From Coq Require Import List NArith ZArith Bool Lia ZifyN ZifyNat ZifyBool.
From AV Require Import Model.C08_Thrift.
Import ListNotations.
Local Open Scope N_scope.
Ltac Zify.zify_post_hook ::= Z.div_mod_to_equations.

(* ------------------------------------------------------------------ consumption relation *)
(* r is bs with at least k leading bytes removed *)
Definition consumed {A} (k : nat) (bs : list N) (x : res A) : Prop :=
  match x with Ok _ r => (length r + k <= length bs)%nat | Err _ => True end.
Definition no_fuel {A} (x : res A) : Prop := x <> Err e_fuel.

Lemma bind_consumed {A B} k1 k2 bs (x : res A) (f : A -> list N -> res B) :
  consumed k1 bs x -> (forall a r, (length r + k1 <= length bs)%nat -> consumed k2 r (f a r)) ->
  consumed (k1 + k2) bs (bind x f).
Proof.
  destruct x as [a r|k]; cbn; intros H Hf; [|exact I].
  specialize (Hf a r H). destruct (f a r); cbn in *; lia.
Qed.

Lemma consumed_weaken {A} k k' bs (x : res A) : (k' <= k)%nat -> consumed k bs x -> consumed k' bs x.
Proof. destruct x; cbn; lia. Qed.

Lemma read_byte_consumed bs : consumed 1 bs (read_byte bs).
Proof. destruct bs; cbn; lia. Qed.

Lemma take_bytes_consumed n bs : consumed (N.to_nat n) bs (take_bytes n bs).
Proof.
  unfold take_bytes. destruct (N.leb_spec n (N.of_nat (length bs))); cbn; [|exact I].
  rewrite skipn_length. lia.
Qed.

Lemma take_bytes_exact n bs s r : take_bytes n bs = Ok s r -> bs = s ++ r /\ length s = N.to_nat n.
Proof.
  unfold take_bytes. destruct (N.leb_spec n (N.of_nat (length bs))) as [Hle|Hle]; intros H; inversion H; subst.
  split; [symmetry; apply firstn_skipn|]. rewrite firstn_length. lia.
Qed.

Lemma vlq_loop_consumed bs : forall acc sh, consumed 1 bs (vlq_loop bs acc sh).
Proof.
  induction bs as [|b r IH]; intros acc sh; cbn [vlq_loop]; [exact I|].
  destruct (b <? 128); cbn; [lia|].
  specialize (IH (N.lor acc (wshl64 (N.land b 127) sh)) (sh + 7)).
  destruct (vlq_loop r _ _); cbn in *; lia.
Qed.

Lemma read_vlq_consumed bs : consumed 1 bs (read_vlq bs).
Proof.
  destruct bs as [|b r]; cbn [read_vlq]; [exact I|].
  destruct (b <? 128); cbn; [lia|].
  pose proof (vlq_loop_consumed r (N.land b 127) 7) as H. destruct (vlq_loop r _ _); cbn in *; lia.
Qed.

Lemma skip_vlq_consumed bs : consumed 1 bs (skip_vlq bs).
Proof.
  induction bs as [|b r IH]; cbn [skip_vlq]; [exact I|].
  destruct (b <? 128); cbn; [lia|]. destruct (skip_vlq r); cbn in *; lia.
Qed.

Lemma bind_consumed0 {A B} k bs (x : res A) (f : A -> list N -> res B) :
  consumed k bs x -> (forall a r, consumed 0 r (f a r)) -> consumed k bs (bind x f).
Proof.
  intros H Hf. replace k with (k + 0)%nat by lia. apply bind_consumed; auto.
Qed.

Lemma read_zig_zag_consumed bs : consumed 1 bs (read_zig_zag bs).
Proof. apply bind_consumed0; [apply read_vlq_consumed|]. intros; cbn; lia. Qed.
Lemma read_i16_consumed bs : consumed 1 bs (read_i16 bs).
Proof. apply bind_consumed0; [apply read_zig_zag_consumed|]. intros; cbn; lia. Qed.
Lemma read_i32_consumed bs : consumed 1 bs (read_i32 bs).
Proof. apply bind_consumed0; [apply read_zig_zag_consumed|]. intros; cbn; lia. Qed.

Lemma read_list_begin_consumed bs : consumed 1 bs (read_list_begin bs).
Proof.
  unfold read_list_begin. apply bind_consumed0; [apply read_byte_consumed|].
  intros h r. destruct (h =? 0); [cbn; lia|].
  destruct (elem_type _); [|exact I]. cbv zeta.
  destruct (negb (_ =? _)); [cbn; lia|].
  apply (consumed_weaken 1); [lia|]. apply bind_consumed0; [apply read_vlq_consumed|].
  intros a r'. destruct (a <=? i32_max); cbn; [lia|exact I].
Qed.

Lemma read_field_begin_consumed last bs : consumed 1 bs (read_field_begin last bs).
Proof.
  unfold read_field_begin. apply bind_consumed0; [apply read_byte_consumed|].
  intros b r. destruct (N.land b 15 =? 0); [cbn; lia|].
  cbv zeta. destruct (13 <? N.land b 15); [exact I|].
  destruct (negb (_ =? _)).
  - destruct (_ <=? 32767)%Z; cbn; [lia|exact I].
  - apply (consumed_weaken 1); [lia|]. apply bind_consumed0; [apply read_i16_consumed|]. intros; cbn; lia.
Qed.

Lemma read_bytes_consumed bs : consumed 1 bs (read_bytes bs).
Proof.
  unfold read_bytes. apply bind_consumed0; [apply read_vlq_consumed|].
  intros n r. apply (consumed_weaken (N.to_nat n)); [lia|apply take_bytes_consumed].
Qed.

(* read_bytes returns a slice of the input: the declared length is checked against what remains *)
Lemma read_bytes_in_bounds bs s r : read_bytes bs = Ok s r -> (length s + length r < length bs)%nat /\ exists p, bs = p ++ s ++ r.
Proof.
  unfold read_bytes, bind. pose proof (read_vlq_consumed bs) as Hc.
  destruct (read_vlq bs) as [n r0|] eqn:E; [|discriminate]. intros H.
  apply take_bytes_exact in H. destruct H as [H1 H2]. cbn in Hc. subst r0.
  rewrite app_length in Hc. split; [lia|].
  (* the prefix: read_vlq only drops leading bytes *)
  clear Hc H2.
  assert (Hsuf : forall bs v r, read_vlq bs = Ok v r -> exists p, bs = p ++ r).
  { clear. intros bs v r. destruct bs as [|b t]; cbn [read_vlq]; [discriminate|].
    destruct (b <? 128); [intros H; inversion H; subst; eexists [_]; reflexivity|].
    assert (G : forall t acc sh v r, vlq_loop t acc sh = Ok v r -> exists p, t = p ++ r).
    { clear. induction t as [|c t IH]; intros acc sh v r; cbn [vlq_loop]; [discriminate|].
      destruct (c <? 128); [intros H; inversion H; subst; eexists [_]; reflexivity|].
      intros H. apply IH in H. destruct H as [p ->]. now exists (c :: p). }
    intros H. apply G in H. destruct H as [p ->]. now exists (b :: p). }
  apply Hsuf in E. exact E.
Qed.


(* ------------------------------------------------------------------ no primitive reports "out of fuel" *)
Lemma bind_nf {A B} (x : res A) (f : A -> list N -> res B) :
  no_fuel x -> (forall a r, no_fuel (f a r)) -> no_fuel (bind x f).
Proof. destruct x as [a r|k]; cbn; intros H Hf; [apply Hf|]. intros E. apply H. inversion E. reflexivity. Qed.
Lemma nf_err_cast {A B} k : no_fuel (@Err A k) -> no_fuel (@Err B k).
Proof. intros H E. apply H. inversion E. reflexivity. Qed.
Lemma nf_ok {A} (a : A) r : no_fuel (Ok a r). Proof. discriminate. Qed.
Lemma nf_eof {A} : no_fuel (@Err A e_eof). Proof. discriminate. Qed.
Lemma nf_inv {A} : no_fuel (@Err A e_inv). Proof. discriminate. Qed.
#[local] Hint Resolve nf_ok nf_eof nf_inv : nf.

Lemma read_byte_nf bs : no_fuel (read_byte bs). Proof. destruct bs; cbn; auto with nf. Qed.
Lemma take_bytes_nf n bs : no_fuel (take_bytes n bs). Proof. unfold take_bytes. destruct (_ <=? _); auto with nf. Qed.
Lemma vlq_loop_nf bs : forall acc sh, no_fuel (vlq_loop bs acc sh).
Proof. induction bs as [|b r IH]; intros; cbn [vlq_loop]; auto with nf. destruct (b <? 128); auto with nf. Qed.
Lemma read_vlq_nf bs : no_fuel (read_vlq bs).
Proof. destruct bs as [|b r]; cbn [read_vlq]; auto with nf. destruct (b <? 128); auto with nf. apply vlq_loop_nf. Qed.
Lemma skip_vlq_nf bs : no_fuel (skip_vlq bs).
Proof. induction bs as [|b r IH]; cbn [skip_vlq]; auto with nf. destruct (b <? 128); auto with nf. Qed.
Lemma read_zig_zag_nf bs : no_fuel (read_zig_zag bs).
Proof. apply bind_nf; [apply read_vlq_nf|auto with nf]. Qed.
Lemma read_i16_nf bs : no_fuel (read_i16 bs). Proof. apply bind_nf; [apply read_zig_zag_nf|auto with nf]. Qed.
Lemma read_i32_nf bs : no_fuel (read_i32 bs). Proof. apply bind_nf; [apply read_zig_zag_nf|auto with nf]. Qed.
Lemma read_list_begin_nf bs : no_fuel (read_list_begin bs).
Proof.
  apply bind_nf; [apply read_byte_nf|]. intros h r. destruct (h =? 0); auto with nf.
  destruct (elem_type _); auto with nf. cbv zeta. destruct (negb (_ =? _)); auto with nf.
  apply bind_nf; [apply read_vlq_nf|]. intros n0 r'. destruct (_ <=? _); auto with nf.
Qed.
Lemma read_field_begin_nf last bs : no_fuel (read_field_begin last bs).
Proof.
  apply bind_nf; [apply read_byte_nf|]. intros b r. destruct (_ =? 0); auto with nf.
  cbv zeta. destruct (13 <? _); auto with nf. destruct (negb (_ =? _)).
  - destruct (_ <=? _)%Z; auto with nf.
  - apply bind_nf; [apply read_i16_nf|auto with nf].
Qed.
Lemma read_bytes_nf bs : no_fuel (read_bytes bs).
Proof. apply bind_nf; [apply read_vlq_nf|]. intros; apply take_bytes_nf. Qed.
Lemma read_string_nf bs : no_fuel (read_string bs).
Proof. apply bind_nf; [apply read_bytes_nf|]. intros s r. destruct (Base.Utf8.valid_utf8 s); auto with nf. Qed.

(* ------------------------------------------------------------------ skip: progress and fuel *)
Section SkipInd.
  Variable skip_d : N -> list N -> res unit.
  Variable d_pos : bool.
  Hypothesis Hc0 : forall ft bs, consumed 0 bs (skip_d ft bs).
  Hypothesis Hc1 : forall ft bs, is_bool_ty ft = false -> consumed 1 bs (skip_d ft bs).
  Hypothesis Hnf : forall ft bs, no_fuel (skip_d ft bs).

  Lemma struct_loop_consumed : forall f bs, consumed 1 bs (skip_struct_loop skip_d f bs).
  Proof.
    induction f as [|f IH]; intros bs; cbn [skip_struct_loop]; [exact I|].
    apply bind_consumed0; [apply read_field_begin_consumed|].
    intros [ty id] r. cbn [fst]. destruct (ty =? 0); [cbn; lia|].
    apply bind_consumed0; [apply Hc0|]. intros _ r'. apply (consumed_weaken 1); [lia|apply IH].
  Qed.

  Lemma struct_loop_no_fuel : forall f bs, (length bs < f)%nat -> no_fuel (skip_struct_loop skip_d f bs).
  Proof.
    induction f as [|f IH]; intros bs Hl; [lia|]. cbn [skip_struct_loop].
    pose proof (read_field_begin_consumed 0 bs) as H1. pose proof (read_field_begin_nf 0 bs) as N1.
    destruct (read_field_begin 0 bs) as [[ty id] r|k] eqn:E; cbn [bind]; [|exact (nf_err_cast _ N1)].
    cbn [fst]. destruct (ty =? 0); [auto with nf|].
    pose proof (Hc0 ty r) as H2. pose proof (Hnf ty r) as H3.
    destruct (skip_d ty r) as [u r'|k] eqn:E2; cbn [bind]; [|exact (nf_err_cast _ H3)].
    apply IH. cbn in *. lia.
  Qed.

  Lemma rep_consumed : forall f n et bs, consumed 0 bs (skip_rep skip_d f n et bs).
  Proof.
    induction f as [|f IH]; intros n et bs; cbn [skip_rep]; destruct (n =? 0); try (cbn; lia); try exact I.
    apply bind_consumed0; [apply Hc0|]. intros _ r. apply IH.
  Qed.

  Lemma rep_no_fuel : forall f n et bs, is_bool_ty et = false -> (length bs < f)%nat -> no_fuel (skip_rep skip_d f n et bs).
  Proof.
    induction f as [|f IH]; intros n et bs Hb Hl; [lia|]. cbn [skip_rep]. destruct (n =? 0); [discriminate|].
    unfold no_fuel, bind. pose proof (Hc1 et bs Hb) as H1. pose proof (Hnf et bs) as H2.
    destruct (skip_d et bs) as [u r|k]; [|exact (nf_err_cast _ H2)]. apply IH; [exact Hb|]. cbn in H1. lia.
  Qed.

  Lemma rep2_consumed : forall f n kt vt bs, consumed 0 bs (skip_rep2 skip_d f n kt vt bs).
  Proof.
    induction f as [|f IH]; intros n kt vt bs; cbn [skip_rep2]; destruct (n =? 0); try (cbn; lia); try exact I.
    apply bind_consumed0; [apply Hc0|]. intros _ r. apply bind_consumed0; [apply Hc0|]. intros _ r'. apply IH.
  Qed.

  Lemma rep2_no_fuel : forall f n kt vt bs, is_bool_ty kt && is_bool_ty vt = false -> (length bs < f)%nat ->
    no_fuel (skip_rep2 skip_d f n kt vt bs).
  Proof.
    induction f as [|f IH]; intros n kt vt bs Hb Hl; [lia|]. cbn [skip_rep2]. destruct (n =? 0); [discriminate|].
    unfold no_fuel, bind.
    pose proof (Hc0 kt bs) as H0. pose proof (Hnf kt bs) as H2.
    destruct (skip_d kt bs) as [u r|k] eqn:E1; [|exact (nf_err_cast _ H2)].
    pose proof (Hc0 vt r) as H0'. pose proof (Hnf vt r) as H2'.
    destruct (skip_d vt r) as [u' r'|k] eqn:E2; [|exact (nf_err_cast _ H2')].
    apply IH; [exact Hb|]. cbn in H0, H0'.
    destruct (is_bool_ty kt) eqn:Ek.
    - cbn in Hb. pose proof (Hc1 vt r Hb) as H. rewrite E2 in H. cbn in H. lia.
    - pose proof (Hc1 kt bs Ek) as H. rewrite E1 in H. cbn in H. lia.
  Qed.

  Lemma skip_body_consumed0 ft bs : consumed 0 bs (skip_body skip_d d_pos ft bs).
  Proof.
    unfold skip_body.
    destruct (is_bool_ty ft); [cbn; lia|].
    destruct (ft =? 3). { apply bind_consumed0; [apply (consumed_weaken 1); [lia|apply read_byte_consumed]|]. intros; cbn; lia. }
    destruct (_ || _ || _). { apply (consumed_weaken 1); [lia|apply skip_vlq_consumed]. }
    destruct (ft =? 7). { apply bind_consumed0; [apply (consumed_weaken 8); [lia|apply (take_bytes_consumed 8)]|]. intros; cbn; lia. }
    destruct (ft =? 8). { apply bind_consumed0; [apply (consumed_weaken 1); [lia|apply read_vlq_consumed]|].
      intros n r. apply bind_consumed0; [apply (consumed_weaken (N.to_nat n)); [lia|apply take_bytes_consumed]|]. intros; cbn; lia. }
    destruct (ft =? 12). { apply (consumed_weaken 1); [lia|apply struct_loop_consumed]. }
    destruct (_ || _). { apply bind_consumed0; [apply (consumed_weaken 1); [lia|apply read_list_begin_consumed]|].
      intros [et n] r. destruct (n =? 0); [cbn; lia|]. destruct (is_bool_ty et); [destruct d_pos; cbn; [lia|exact I]|apply rep_consumed]. }
    destruct (ft =? 11). { apply bind_consumed0; [apply (consumed_weaken 1); [lia|apply read_vlq_consumed]|].
      intros n r. destruct (i32_max <? n); [exact I|]. destruct (n =? 0); [cbn; lia|].
      apply bind_consumed0; [apply (consumed_weaken 1); [lia|apply read_byte_consumed]|].
      intros kv r'. destruct (elem_type _); [|exact I]. destruct (elem_type _); [|exact I].
      destruct (_ && _); [destruct d_pos; cbn; [lia|exact I]|apply rep2_consumed]. }
    destruct (ft =? 13). { apply bind_consumed0; [apply (consumed_weaken 16); [lia|apply (take_bytes_consumed 16)]|]. intros; cbn; lia. }
    exact I.
  Qed.

  Lemma skip_body_consumed1 ft bs : is_bool_ty ft = false -> consumed 1 bs (skip_body skip_d d_pos ft bs).
  Proof.
    intros Hb. unfold skip_body. rewrite Hb.
    destruct (ft =? 3). { apply bind_consumed0; [apply read_byte_consumed|]. intros; cbn; lia. }
    destruct (_ || _ || _). { apply skip_vlq_consumed. }
    destruct (ft =? 7). { apply bind_consumed0; [apply (consumed_weaken 8); [lia|apply (take_bytes_consumed 8)]|]. intros; cbn; lia. }
    destruct (ft =? 8). { apply bind_consumed0; [apply read_vlq_consumed|].
      intros n r. apply bind_consumed0; [apply (consumed_weaken (N.to_nat n)); [lia|apply take_bytes_consumed]|]. intros; cbn; lia. }
    destruct (ft =? 12). { apply struct_loop_consumed. }
    destruct (_ || _). { apply bind_consumed0; [apply read_list_begin_consumed|].
      intros [et n] r. destruct (n =? 0); [cbn; lia|]. destruct (is_bool_ty et); [destruct d_pos; cbn; [lia|exact I]|apply rep_consumed]. }
    destruct (ft =? 11). { apply bind_consumed0; [apply read_vlq_consumed|].
      intros n r. destruct (i32_max <? n); [exact I|]. destruct (n =? 0); [cbn; lia|].
      apply bind_consumed0; [apply (consumed_weaken 0); [lia|apply (consumed_weaken 1); [lia|apply read_byte_consumed]]|].
      intros kv r'. destruct (elem_type _); [|exact I]. destruct (elem_type _); [|exact I].
      destruct (_ && _); [destruct d_pos; cbn; [lia|exact I]|apply rep2_consumed]. }
    destruct (ft =? 13). { apply bind_consumed0; [apply (consumed_weaken 16); [lia|apply (take_bytes_consumed 16)]|]. intros; cbn; lia. }
    exact I.
  Qed.
End SkipInd.

Section SkipNf.
  Variable skip_d : N -> list N -> res unit.
  Variable d_pos : bool.
  Hypothesis Hc0 : forall ft bs, consumed 0 bs (skip_d ft bs).
  Hypothesis Hc1 : forall ft bs, is_bool_ty ft = false -> consumed 1 bs (skip_d ft bs).
  Hypothesis Hnf : forall ft bs, no_fuel (skip_d ft bs).

  Lemma skip_body_nf ft bs : no_fuel (skip_body skip_d d_pos ft bs).
  Proof.
    unfold skip_body.
    destruct (is_bool_ty ft); [auto with nf|].
    destruct (ft =? 3). { apply bind_nf; [apply read_byte_nf|auto with nf]. }
    destruct (_ || _ || _). { apply skip_vlq_nf. }
    destruct (ft =? 7). { apply bind_nf; [apply take_bytes_nf|auto with nf]. }
    destruct (ft =? 8). { apply bind_nf; [apply read_vlq_nf|]. intros n r. apply bind_nf; [apply take_bytes_nf|auto with nf]. }
    destruct (ft =? 12). { apply struct_loop_no_fuel; auto. }
    destruct (_ || _). { apply bind_nf; [apply read_list_begin_nf|].
      intros [et n] r. destruct (n =? 0); [auto with nf|]. destruct (is_bool_ty et) eqn:Eb; [destruct d_pos; auto with nf|].
      apply rep_no_fuel; auto. }
    destruct (ft =? 11). { apply bind_nf; [apply read_vlq_nf|].
      intros n r. destruct (i32_max <? n); [auto with nf|]. destruct (n =? 0); [auto with nf|].
      apply bind_nf; [apply read_byte_nf|].
      intros kv r'. destruct (elem_type _); [|auto with nf]. destruct (elem_type _); [|auto with nf].
      destruct (_ && _) eqn:Eb; [destruct d_pos; auto with nf|apply rep2_no_fuel; auto]. }
    destruct (ft =? 13). { apply bind_nf; [apply take_bytes_nf|auto with nf]. }
    auto with nf.
  Qed.
End SkipNf.

(* ------------------------------------------------------------------ the three facts about skip, by induction on the depth budget *)
Lemma skip_facts d : (forall ft bs, consumed 0 bs (skip d ft bs))
                  /\ (forall ft bs, is_bool_ty ft = false -> consumed 1 bs (skip d ft bs))
                  /\ (forall ft bs, no_fuel (skip d ft bs)).
Proof.
  induction d as [|d [I0 [I1 I2]]]; cbn [skip].
  - repeat split; intros; try exact I; auto with nf.
  - repeat split; intros.
    + apply skip_body_consumed0; auto.
    + apply skip_body_consumed1; auto.
    + apply skip_body_nf; auto.
Qed.

(* every successful skip of a non-boolean field consumes at least one byte; no skip ever grows the input *)
Lemma skip_progress d ft bs r : skip d ft bs = Ok tt r -> (length r <= length bs)%nat /\ (is_bool_ty ft = false -> (length r < length bs)%nat).
Proof.
  intros H. destruct (skip_facts d) as [I0 [I1 _]]. split.
  - specialize (I0 ft bs). rewrite H in I0. cbn in I0. lia.
  - intros Hb. specialize (I1 ft bs Hb). rewrite H in I1. cbn in I1. lia.
Qed.

(* the loops of the model never run out of their input-length fuel: the un-fuelled Rust loops terminate *)
Lemma skip_never_out_of_fuel d ft bs : skip d ft bs <> Err e_fuel.
Proof. destruct (skip_facts d) as [_ [_ I2]]. apply I2. Qed.

(* depth budget: a chain of d nested containers is rejected *)
Lemma skip_depth_zero ft bs : skip 0 ft bs = Err e_inv.
Proof. reflexivity. Qed.

(* ------------------------------------------------------------------ footer decoders never run out of fuel *)
Lemma mbind_nf {A} (x : res A) (f : A -> list N -> mres) :
  no_fuel x -> (forall a r, f a r <> MErr e_fuel) -> mbind x f <> MErr e_fuel.
Proof. destruct x as [a r|k]; cbn; intros H Hf; [apply Hf|]. intros E. apply H. inversion E. reflexivity. Qed.

Lemma meta_finish_nf st : meta_finish st <> MErr e_fuel.
Proof. unfold meta_finish. destruct (m_version st), (m_rows st); try discriminate. destruct (m_rgs st); discriminate. Qed.

Lemma mbind_nf_c {A} k bs (x : res A) (f : A -> list N -> mres) :
  consumed k bs x -> no_fuel x -> (forall a r, (length r + k <= length bs)%nat -> f a r <> MErr e_fuel) ->
  mbind x f <> MErr e_fuel.
Proof. destruct x as [a r|e]; cbn; intros Hc H Hf; [apply Hf; exact Hc|]. intros E. apply H. inversion E. reflexivity. Qed.

Lemma meta_loop_nf : forall f last st bs, (length bs < f)%nat -> meta_loop f last st bs <> MErr e_fuel.
Proof.
  induction f as [|f IH]; intros last st bs Hl; [lia|]. cbn [meta_loop].
  apply (mbind_nf_c 1 bs); [apply read_field_begin_consumed|apply read_field_begin_nf|].
  intros [ty id] r Hr.
  destruct (ty =? 0); [apply meta_finish_nf|].
  destruct (id =? 1)%Z. { apply (mbind_nf_c 1 r); [apply read_i32_consumed|apply read_i32_nf|]. intros; apply IH; lia. }
  destruct (id =? 3)%Z. { apply (mbind_nf_c 1 r); [apply read_zig_zag_consumed|apply read_zig_zag_nf|]. intros; apply IH; lia. }
  destruct (id =? 4)%Z. { apply (mbind_nf_c 1 r); [apply read_list_begin_consumed|apply read_list_begin_nf|].
    intros [et n] r' Hr'. cbn [fst snd]. destruct (negb _); [discriminate|]. destruct (n =? 0); [apply IH; lia|discriminate]. }
  destruct (_ || _)%bool; [discriminate|].
  destruct (id =? 6)%Z. { apply (mbind_nf_c 1 r).
    - unfold read_string. apply bind_consumed0; [apply read_bytes_consumed|]. intros s r'. destruct (Base.Utf8.valid_utf8 s); cbn; [lia|exact I].
    - apply read_string_nf.
    - intros; apply IH; lia. }
  destruct (skip_facts 64) as [I0 [_ I2]].
  apply (mbind_nf_c 0 r); [apply I0|apply I2|]. intros; apply IH; lia.
Qed.

Lemma meta_probe_never_out_of_fuel bs : meta_probe bs <> MErr e_fuel.
Proof. apply meta_loop_nf. lia. Qed.

Lemma schema_loop_nf : forall f last bs, (length bs < f)%nat -> no_fuel (schema_loop f last bs).
Proof.
  induction f as [|f IH]; intros last bs Hl; [lia|]. cbn [schema_loop].
  pose proof (read_field_begin_consumed last bs) as H1. pose proof (read_field_begin_nf last bs) as N1.
  destruct (read_field_begin last bs) as [[ty id] r|k] eqn:E; cbn [bind]; [|exact (nf_err_cast _ N1)].
  cbn in H1. destruct (ty =? 0); [auto with nf|]. destruct (id =? 2)%Z; [auto with nf|].
  destruct (skip_facts 64) as [I0 [_ I2]].
  pose proof (I0 ty r) as H2. pose proof (I2 ty r) as N2. unfold skip_default.
  destruct (skip 64 ty r) as [u r'|k]; cbn [bind]; [|exact (nf_err_cast _ N2)].
  apply IH. cbn in H2. lia.
Qed.

Lemma schema_probe_never_out_of_fuel bs : schema_probe bs <> Err e_fuel.
Proof. apply schema_loop_nf. lia. Qed.

(* the schema list handed to read_thrift_vec is a suffix of the footer, strictly shorter than it *)
Lemma schema_loop_suffix : forall f last bs r x, schema_loop f last bs = Ok r x -> (length r < length bs)%nat.
Proof.
  induction f as [|f IH]; intros last bs r x; cbn [schema_loop]; [discriminate|].
  pose proof (read_field_begin_consumed last bs) as H1.
  destruct (read_field_begin last bs) as [[ty id] r0|k]; cbn [bind]; [|discriminate].
  cbn in H1. destruct (ty =? 0); [discriminate|]. destruct (id =? 2)%Z; [intros H; inversion H; subst; lia|].
  destruct (skip_facts 64) as [I0 _]. pose proof (I0 ty r0) as H2. unfold skip_default.
  destruct (skip 64 ty r0) as [u r'|k]; cbn [bind]; [|discriminate].
  intros H. apply IH in H. cbn in H2. lia.
Qed.

Lemma skip_terminates_and_budget d ft bs : skip d ft bs <> Err e_fuel /\ skip 0 ft bs = Err e_inv.
Proof. split; [apply skip_never_out_of_fuel|apply skip_depth_zero]. Qed.

Lemma footer_decoders_never_out_of_fuel bs : meta_probe bs <> MErr e_fuel /\ schema_probe bs <> Err e_fuel.
Proof. split; [apply meta_probe_never_out_of_fuel|apply schema_probe_never_out_of_fuel]. Qed.
