(* C18 - theorems about the readers' end-of-data logic (Model/C18_Frame.v). *)
From Coq Require Import List Arith ZArith Bool Lia.
From AV Require Import Model.C18_Frame.
Import ListNotations.
Local Open Scope Z_scope.

(* ------------------------------------------------------------------ list helpers *)
Lemma split_at_app (a b : list Z) : split_at (length a) (a ++ b) = Some (a, b).
Proof.
  unfold split_at. rewrite app_length.
  destruct (Nat.ltb_spec (length a + length b) (length a)) as [H|_]; [lia|].
  rewrite firstn_app, Nat.sub_diag, firstn_all, skipn_app, Nat.sub_diag, skipn_all. cbn [firstn skipn].
  now rewrite app_nil_r.
Qed.
Lemma split_at_app4 (a b : list Z) : length a = 4%nat -> split_at 4 (a ++ b) = Some (a, b).
Proof. intros H. rewrite <- H. apply split_at_app. Qed.
Lemma split_at_short n (l : list Z) : (length l < n)%nat -> split_at n l = None.
Proof. intros H. unfold split_at. destruct (Nat.ltb_spec (length l) n); [reflexivity|lia]. Qed.
Lemma split_at_some n (l a b : list Z) : split_at n l = Some (a, b) -> l = a ++ b /\ length a = n.
Proof.
  unfold split_at. destruct (Nat.ltb_spec (length l) n) as [|H]; [discriminate|].
  intros E. inversion E; subst. split; [now rewrite firstn_skipn|rewrite firstn_length; lia].
Qed.

Lemma firstn_app_le {A} k (a b : list A) : (k <= length a)%nat -> firstn k (a ++ b) = firstn k a.
Proof.
  intros H. rewrite firstn_app. replace (k - length a)%nat with 0%nat by lia.
  cbn [firstn]. now rewrite app_nil_r.
Qed.
Lemma firstn_app_ge {A} k (a b : list A) : (length a <= k)%nat -> firstn k (a ++ b) = a ++ firstn (k - length a) b.
Proof. intros H. rewrite firstn_app. now rewrite firstn_all2 by exact H. Qed.

(* ------------------------------------------------------------------ little-endian *)
Lemma le_le32 n : 0 <= n < 2 ^ 32 -> le (le32 n) = n.
Proof.
  intros H. unfold le32. cbn [le]. change (2 ^ 32) with 4294967296 in H.
  pose proof (Z.div_mod n 256 ltac:(lia)). pose proof (Z.mod_pos_bound n 256 ltac:(lia)).
  pose proof (Z.div_mod (n / 256) 256 ltac:(lia)). pose proof (Z.mod_pos_bound (n / 256) 256 ltac:(lia)).
  pose proof (Z.div_mod (n / 65536) 256 ltac:(lia)). pose proof (Z.mod_pos_bound (n / 65536) 256 ltac:(lia)).
  assert (n / 65536 = n / 256 / 256) by (rewrite Z.div_div by lia; reflexivity).
  assert (n / 16777216 = n / 65536 / 256) by (rewrite Z.div_div by lia; reflexivity).
  assert (0 <= n / 16777216 < 256) by (split; [apply Z.div_pos; lia|apply Z.div_lt_upper_bound; lia]).
  rewrite (Z.mod_small (n / 16777216) 256) by lia. lia.
Qed.
Lemma le32_length n : length (le32 n) = 4%nat.
Proof. reflexivity. Qed.
Lemma signed32_small v : 0 <= v < 2 ^ 31 -> signed 32 v = v.
Proof.
  intros H. unfold signed. change (2 ^ (32 - 1)) with (2 ^ 31).
  destruct (Z.ltb_spec v (2 ^ 31)); [reflexivity|lia].
Qed.
Lemma le32_not_marker n : 0 <= n < 2 ^ 31 -> le32 n <> marker.
Proof.
  intros H E. apply (f_equal le) in E. rewrite le_le32 in E by (change (2 ^ 32) with 4294967296; change (2 ^ 31) with 2147483648 in H; lia).
  cbn in E. change (2 ^ 31) with 2147483648 in H. lia.
Qed.

(* ------------------------------------------------------------------ one message *)
Section Stream.
  Variable body_len : list Z -> option Z.
  Notation next_message := (next_message body_len).
  Notation decode := (decode body_len).
  Notation decode_all := (decode_all body_len).
  Notation wf_msg := (wf_msg body_len).

  Lemma frame_length m : length (frame m) = (8 + length (fst m) + length (snd m))%nat.
  Proof. unfold frame. rewrite !app_length. cbn [length marker le32]. lia. Qed.

  Lemma next_message_frame m rest : wf_msg m -> next_message (frame m ++ rest) = SMsg m rest.
  Proof.
    destruct m as [meta body]. intros (Hpos & Hlt & Hbl). cbn [fst snd] in *.
    unfold C18_Frame.next_message, frame. cbn [fst snd].
    rewrite <- !app_assoc. rewrite split_at_app4 by reflexivity.
    destruct (list_eq_dec Z.eq_dec marker marker) as [_|N]; [|congruence].
    rewrite split_at_app4 by reflexivity.
    rewrite le_le32 by (change (2 ^ 32) with 4294967296; change (2 ^ 31) with 2147483648 in Hlt; lia).
    rewrite signed32_small by lia.
    destruct (Z.eqb_spec (Z.of_nat (length meta)) 0) as [E|_]; [lia|].
    destruct (Z.ltb_spec (Z.of_nat (length meta)) 0) as [E|_]; [lia|].
    rewrite !app_length.
    destruct (Z.ltb_spec (Z.of_nat (length meta + (length body + length rest))) (Z.of_nat (length meta))) as [E|_]; [lia|].
    rewrite Nat2Z.id.
    rewrite firstn_app, Nat.sub_diag, firstn_all. cbn [firstn]. rewrite app_nil_r.
    rewrite skipn_app, Nat.sub_diag, skipn_all. cbn [skipn app].
    rewrite Hbl. rewrite app_length.
    destruct (Z.ltb_spec (Z.of_nat (length body + length rest)) (Z.of_nat (length body))) as [E|_]; [lia|].
    rewrite Nat2Z.id.
    rewrite firstn_app, Nat.sub_diag, firstn_all. cbn [firstn]. rewrite app_nil_r.
    rewrite skipn_app, Nat.sub_diag, skipn_all. cbn [skipn app]. reflexivity.
  Qed.

  (* a message cut anywhere: no message is produced; a clean end is reported only inside the first
     4 bytes of the frame, everything else is an error *)
  Lemma next_message_cut m k : wf_msg m -> (k < length (frame m))%nat ->
    next_message (firstn k (frame m)) = if (k <? 4)%nat then SEnd else SErr.
  Proof.
    destruct m as [meta body]. intros (Hpos & Hlt & Hbl) Hk. rewrite frame_length in Hk. cbn [fst snd] in *.
    unfold C18_Frame.next_message, frame. cbn [fst snd].
    destruct (Nat.ltb_spec k 4) as [H4|H4].
    - rewrite split_at_short; [reflexivity|]. rewrite firstn_length. lia.
    - rewrite firstn_app_ge by (cbn [length marker]; lia). rewrite split_at_app4 by reflexivity.
      destruct (list_eq_dec Z.eq_dec marker marker) as [_|N]; [|congruence].
      cbn [length marker].
      destruct (Nat.lt_ge_cases k 8) as [H8|H8].
      + rewrite split_at_short; [reflexivity|]. rewrite firstn_length. lia.
      + rewrite firstn_app_ge by (rewrite le32_length; lia). rewrite split_at_app4 by reflexivity.
        rewrite le32_length.
        rewrite le_le32 by (change (2 ^ 32) with 4294967296; change (2 ^ 31) with 2147483648 in Hlt; lia).
        rewrite signed32_small by lia.
        destruct (Z.eqb_spec (Z.of_nat (length meta)) 0) as [E|_]; [lia|].
        destruct (Z.ltb_spec (Z.of_nat (length meta)) 0) as [E|_]; [lia|].
        replace (k - 4 - 4)%nat with (k - 8)%nat by lia.
        destruct (Nat.lt_ge_cases (k - 8) (length meta)) as [Hm|Hm].
        * destruct (Z.ltb_spec (Z.of_nat (length (firstn (k - 8) (meta ++ body)))) (Z.of_nat (length meta))) as [_|E]; [reflexivity|].
          rewrite firstn_length, app_length in E. lia.
        * rewrite firstn_app_ge by exact Hm. rewrite app_length, firstn_length.
          destruct (Z.ltb_spec (Z.of_nat (length meta + Nat.min (k - 8 - length meta) (length body))) (Z.of_nat (length meta))) as [E|_]; [lia|].
          rewrite Nat2Z.id.
          rewrite firstn_app, Nat.sub_diag, firstn_all. cbn [firstn]. rewrite app_nil_r.
          rewrite skipn_app, Nat.sub_diag, skipn_all. cbn [skipn app].
          rewrite Hbl. rewrite firstn_length.
          destruct (Z.ltb_spec (Z.of_nat (Nat.min (k - 8 - length meta) (length body))) (Z.of_nat (length body))) as [_|E]; [reflexivity|lia].
  Qed.

  Lemma next_message_shrinks bs m rest : next_message bs = SMsg m rest -> (length rest < length bs)%nat.
  Proof.
    unfold C18_Frame.next_message. destruct (split_at 4 bs) as [[w r]|] eqn:E1; [|discriminate].
    apply split_at_some in E1 as [-> L1].
    assert (Hgen : forall w' r', (length r' <= length r)%nat ->
      (let meta_len := signed 32 (le w') in
       if meta_len =? 0 then SEnd else if meta_len <? 0 then SErr
       else if Z.of_nat (length r') <? meta_len then SErr
       else match body_len (firstn (Z.to_nat meta_len) r') with
            | None => SErr
            | Some bl => if Z.of_nat (length (skipn (Z.to_nat meta_len) r')) <? bl then SErr
                         else SMsg (firstn (Z.to_nat meta_len) r', firstn (Z.to_nat bl) (skipn (Z.to_nat meta_len) r'))
                                   (skipn (Z.to_nat bl) (skipn (Z.to_nat meta_len) r'))
            end) = SMsg m rest -> (length rest < length (w ++ r))%nat).
    { intros w' r' Hl. cbn zeta.
      destruct (_ =? 0); [discriminate|]. destruct (_ <? 0); [discriminate|].
      destruct (_ <? _); [discriminate|]. destruct (body_len _) as [bl|]; [|discriminate].
      destruct (_ <? bl); [discriminate|]. intros E. inversion E; subst.
      rewrite !skipn_length, app_length. lia. }
    destruct (list_eq_dec Z.eq_dec w marker) as [_|_].
    - destruct (split_at 4 r) as [[w2 r2]|] eqn:E2; [|discriminate].
      apply split_at_some in E2 as [-> L2]. apply Hgen. rewrite app_length. lia.
    - apply Hgen. lia.
  Qed.

  Lemma decode_fuel : forall f1 f2 bs, (length bs < f1)%nat -> (length bs < f2)%nat -> decode f1 bs = decode f2 bs.
  Proof.
    induction f1 as [|f1 IH]; intros f2 bs H1 H2; [lia|]. destruct f2 as [|f2]; [lia|].
    cbn [C18_Frame.decode]. destruct (next_message bs) as [| |m rest] eqn:E; try reflexivity.
    apply next_message_shrinks in E. now rewrite (IH f2 rest) by lia.
  Qed.

  Lemma decode_all_frame m rest : wf_msg m ->
    decode_all (frame m ++ rest) = let '(ms, t) := decode_all rest in (m :: ms, t).
  Proof.
    intros W. unfold C18_Frame.decode_all. cbn [C18_Frame.decode]. rewrite next_message_frame by exact W.
    rewrite (decode_fuel (length (frame m ++ rest)) (S (length rest))); [reflexivity| |lia].
    rewrite app_length, frame_length. lia.
  Qed.

  Lemma decode_all_cut m k : wf_msg m -> (k < length (frame m))%nat ->
    decode_all (firstn k (frame m)) = ([], if (k <? 4)%nat then End else Err).
  Proof.
    intros W Hk. unfold C18_Frame.decode_all. cbn [C18_Frame.decode]. rewrite next_message_cut by assumption.
    destruct (k <? 4)%nat; reflexivity.
  Qed.

  (* ---------------------------------------------------------------- the truncation theorem *)
  Definition off (n : nat) (ms : list msg) : nat := length (encode (firstn n ms) false).

  Lemma encode_cons m ms e : encode (m :: ms) e = frame m ++ encode ms e.
  Proof. unfold encode. cbn [map concat]. now rewrite app_assoc. Qed.

  Lemma off_S n m ms : off (S n) (m :: ms) = (length (frame m) + off n ms)%nat.
  Proof. unfold off. cbn [firstn]. now rewrite encode_cons, app_length. Qed.

  Theorem stream_truncation : forall ms with_eos k,
    Forall wf_msg ms -> (k <= length (encode ms with_eos))%nat ->
    exists n t,
      decode_all (firstn k (encode ms with_eos)) = (firstn n ms, t) /\
      (n <= length ms)%nat /\ (off n ms <= k)%nat /\
      (t = End -> (k < off n ms + 4)%nat \/ (n = length ms /\ with_eos = true /\ k = length (encode ms with_eos))) /\
      (k = length (encode ms with_eos) -> n = length ms /\ t = End).
  Proof.
    induction ms as [|m ms IH]; intros e k W Hk.
    - exists 0%nat. unfold off. cbn [firstn encode map concat app length].
      destruct e; cbn [encode map concat app] in *.
      + (* only the end-of-stream marker *)
        cbn [length eos marker app] in Hk.
        do 9 (destruct k as [|k]; [eexists; split; [reflexivity|]; cbn [length eos marker app];
                                   repeat split; try lia; try (intros; lia); try discriminate;
                                   try (intros _; right; repeat split; reflexivity);
                                   try (intros _; left; lia)|]).
        lia.
      + cbn [length] in Hk. replace k with 0%nat by lia. exists End. cbn.
        split; [reflexivity|]. split; [lia|]. split; [lia|]. split; [intros _; left; lia|intros _; split; reflexivity].
    - inversion W as [|? ? Wm Wms]; subst. rewrite encode_cons in *. rewrite app_length in Hk.
      destruct (Nat.lt_ge_cases k (length (frame m))) as [Hc|Hc].
      + (* the cut falls inside the first frame *)
        rewrite firstn_app_le by lia. rewrite decode_all_cut by assumption.
        exists 0%nat. eexists. split; [reflexivity|]. unfold off. cbn [firstn encode map concat app length].
        split; [lia|]. split; [lia|]. split.
        * destruct (Nat.ltb_spec k 4); [intros _; left; lia|discriminate].
        * intros E. rewrite app_length in E. lia.
      + rewrite firstn_app_ge by exact Hc. rewrite decode_all_frame by exact Wm.
        destruct (IH e (k - length (frame m))%nat Wms ltac:(lia)) as (n & t & E & Hn & Ho & He & Hf).
        rewrite E. exists (S n), t. cbn [firstn length]. rewrite off_S.
        split; [reflexivity|]. split; [lia|]. split; [lia|]. split.
        * intros Et. destruct (He Et) as [H|(H1 & H2 & H3)]; [left; lia|right]. rewrite app_length. repeat split; [lia|exact H2|lia].
        * rewrite app_length. intros Ek. destruct (Hf ltac:(lia)) as [H1 H2]. split; [lia|exact H2].
  Qed.
End Stream.

(* ------------------------------------------------------------------ footers *)
Lemma skipn_firstn_sub (l : list Z) a b : skipn a (firstn (a + b) l) = firstn b (skipn a l).
Proof. symmetry. apply firstn_skipn_comm. Qed.

Lemma skipn_skipn' (l : list Z) a b : skipn a (skipn b l) = skipn (b + a) l.
Proof. revert l. induction b as [|b IH]; intros l; [reflexivity|]. destruct l; [now rewrite !skipn_nil|apply IH]. Qed.

Lemma last_n_firstn (file : list Z) k n : (n <= k)%nat -> (k <= length file)%nat ->
  last_n n (firstn k file) = sub file (k - n) n.
Proof.
  intros Hn Hk. unfold last_n, sub. rewrite firstn_length, Nat.min_l by exact Hk.
  replace k with ((k - n) + n)%nat at 2 by lia. apply skipn_firstn_sub.
Qed.

Lemma sub_sub_tail (file : list Z) k : (8 <= k)%nat -> skipn 4 (sub file (k - 8) 8) = sub file (k - 4) 4.
Proof.
  intros H. unfold sub. change (firstn 8 (skipn (k - 8) file)) with (firstn (4 + 4) (skipn (k - 8) file)).
  rewrite skipn_firstn_sub, skipn_skipn'. f_equal. f_equal. lia.
Qed.
Lemma sub_sub_head (file : list Z) from : firstn 4 (sub file from 8) = sub file from 4.
Proof. unfold sub. rewrite firstn_firstn. reflexivity. Qed.

Theorem pq_footer_cut_iff : forall file k, (k <= length file)%nat ->
  pq_footer_ok (firstn k file) = true <-> pq_coincidence file k.
Proof.
  intros file k Hk. unfold pq_footer_ok, pq_coincidence. rewrite firstn_length, Nat.min_l by exact Hk.
  destruct (Nat.ltb_spec k 8) as [H8|H8]; [split; [discriminate|intros [H _]; lia]|].
  rewrite last_n_firstn by lia. unfold pq_tail. rewrite sub_sub_tail, sub_sub_head by exact H8.
  destruct (list_eq_dec Z.eq_dec (sub file (k - 4) 4) pare) as [Ee|Ne].
  - rewrite Z.leb_le. split; [intros H; repeat split; auto|intros (_ & _ & H); exact H].
  - destruct (list_eq_dec Z.eq_dec (sub file (k - 4) 4) par1) as [E1|N1].
    + rewrite Z.leb_le. split; [intros H; repeat split; auto|intros (_ & _ & H); exact H].
    + split; [discriminate|intros (_ & [H|H] & _); contradiction].
Qed.

Lemma sub_sub_tail10 (file : list Z) k : (10 <= k)%nat -> skipn 4 (sub file (k - 10) 10) = sub file (k - 6) 6.
Proof.
  intros H. unfold sub. change (firstn 10 (skipn (k - 10) file)) with (firstn (4 + 6) (skipn (k - 10) file)).
  rewrite skipn_firstn_sub, skipn_skipn'. f_equal. f_equal. lia.
Qed.
Lemma sub_sub_head10 (file : list Z) from : firstn 4 (sub file from 10) = sub file from 4.
Proof. unfold sub. rewrite firstn_firstn. reflexivity. Qed.

Theorem ipc_footer_cut_iff : forall file k, (k <= length file)%nat ->
  ipc_footer_ok (firstn k file) = true <-> ipc_coincidence file k.
Proof.
  intros file k Hk. unfold ipc_footer_ok, ipc_coincidence. rewrite firstn_length, Nat.min_l by exact Hk.
  destruct (Nat.ltb_spec k 10) as [H8|H8]; [split; [discriminate|intros [H _]; lia]|].
  rewrite last_n_firstn by lia. unfold ipc_footer_len. rewrite sub_sub_tail10, sub_sub_head10 by exact H8.
  destruct (list_eq_dec Z.eq_dec (sub file (k - 6) 6) arrow1) as [Ee|Ne].
  - destruct (Z.ltb_spec (signed 32 (le (sub file (k - 10) 4))) 0) as [Hn|Hn].
    + split; [discriminate|intros (_ & _ & H & _); lia].
    + rewrite Z.leb_le. split; [intros H; repeat split; auto|intros (_ & _ & _ & H); exact H].
  - split; [discriminate|intros (_ & H & _); contradiction].
Qed.

(* a file without an embedded magic in front of any cut point is rejected at every truncation *)
Corollary pq_no_embedded_footer : forall file,
  (forall k, (k < length file)%nat -> sub file (k - 4) 4 <> par1 /\ sub file (k - 4) 4 <> pare) ->
  forall k, (k < length file)%nat -> pq_footer_ok (firstn k file) = false.
Proof.
  intros file H k Hk. destruct (pq_footer_ok (firstn k file)) eqn:E; [|reflexivity].
  apply pq_footer_cut_iff in E; [|lia]. destruct E as (_ & [E|E] & _); destruct (H k Hk); contradiction.
Qed.
Corollary ipc_no_embedded_footer : forall file,
  (forall k, (k < length file)%nat -> sub file (k - 6) 6 <> arrow1) ->
  forall k, (k < length file)%nat -> ipc_footer_ok (firstn k file) = false.
Proof.
  intros file H k Hk. destruct (ipc_footer_ok (firstn k file)) eqn:E; [|reflexivity].
  apply ipc_footer_cut_iff in E; [|lia]. destruct E as (_ & E & _). now destruct (H k Hk).
Qed.

(* ------------------------------------------------------------------ non-vacuity: a real two-message stream *)
Example stream_example :
  let bl := fun meta : list Z => Some (hd 0 meta) in
  let ms := [([2; 9; 9; 9; 9; 9; 9; 9], [7; 8]); ([0; 1; 1; 1; 1; 1; 1; 1], [])] in
  decode_all bl (firstn 27 (encode ms true)) = (firstn 1 ms, Err) /\
  decode_all bl (firstn 19 (encode ms true)) = (firstn 1 ms, End) /\
  decode_all bl (encode ms true) = (ms, End).
Proof. vm_compute. repeat split. Qed.
