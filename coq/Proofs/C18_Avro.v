(* C18 - Avro OCF block framing: truncation theorem (Model/C18_Avro.v). *)
From Coq Require Import List Arith ZArith Bool Lia.
From AV Require Import Model.C18_Frame Model.C18_Avro Proofs.C18_Frame.
Import ListNotations.
Local Open Scope Z_scope.

(* ------------------------------------------------------------------ varints *)
Lemma zz_dec_even z : zz_dec (2 * z) = z.
Proof.
  unfold zz_dec. replace (Z.even (2 * z)) with true by (rewrite Z.even_mul; reflexivity).
  rewrite Z.mul_comm. apply Z.div_mul. lia.
Qed.

Lemma pow_split s : 0 <= s -> s + 7 <= 64 -> 2 ^ (64 - s) = 128 * 2 ^ (64 - (s + 7)).
Proof.
  intros H0 H1. replace (64 - s) with (7 + (64 - (s + 7))) by lia.
  rewrite Z.pow_add_r by lia. reflexivity.
Qed.

Lemma vlq_venc : forall fuel v shift acc rest,
  0 <= v < 2 ^ (64 - shift) -> 0 <= shift -> shift + 7 * Z.of_nat fuel = 63 ->
  vlq (venc (S fuel) v ++ rest) shift acc = VOk (zz_dec (acc + v * 2 ^ shift)) rest.
Proof.
  induction fuel as [|fuel IH]; intros v shift acc rest Hv Hs Hf.
  - assert (shift = 63) as -> by lia. change (2 ^ (64 - 63)) with 2 in Hv.
    cbn [venc]. destruct (Z.ltb_spec v 128) as [_|H]; [|lia]. cbn [app vlq].
    rewrite Z.eqb_refl. destruct (Z.leb_spec 2 v) as [H|_]; [lia|]. cbn [andb].
    rewrite Z.mod_small by lia. destruct (Z.ltb_spec v 128) as [_|H]; [reflexivity|lia].
  - assert (Hs63 : shift <> 63) by lia.
    change (venc (S (S fuel)) v) with (if v <? 128 then [v] else (v mod 128 + 128) :: venc (S fuel) (v / 128)).
    destruct (Z.ltb_spec v 128) as [Hlt|Hge].
    + cbn [app vlq]. destruct (Z.eqb_spec shift 63) as [E|_]; [contradiction|]. cbn [andb].
      rewrite Z.mod_small by lia. destruct (Z.ltb_spec v 128) as [_|H]; [reflexivity|lia].
    + cbn [app vlq]. destruct (Z.eqb_spec shift 63) as [E|_]; [contradiction|]. cbn [andb].
      pose proof (Z.mod_pos_bound v 128 ltac:(lia)) as Hm.
      replace ((v mod 128 + 128) mod 128) with (v mod 128)
        by (rewrite Z.add_mod, Z.mod_same, Z.add_0_r, !Z.mod_mod by lia; reflexivity).
      destruct (Z.ltb_spec (v mod 128 + 128) 128) as [H|_]; [lia|].
      rewrite Nat2Z.inj_succ in Hf.
      rewrite IH; [| |lia|lia].
      * f_equal. f_equal. rewrite Z.pow_add_r by lia. change (2 ^ 7) with 128.
        pose proof (Z.div_mod v 128 ltac:(lia)). nia.
      * rewrite (pow_split shift) in Hv by lia. split; [apply Z.div_pos; lia|apply Z.div_lt_upper_bound; lia].
Qed.

Lemma vlq_venc_cut : forall fuel v shift acc j,
  0 <= v < 2 ^ (64 - shift) -> 0 <= shift -> shift + 7 * Z.of_nat fuel = 63 ->
  (j < length (venc (S fuel) v))%nat ->
  vlq (firstn j (venc (S fuel) v)) shift acc = VMore.
Proof.
  induction fuel as [|fuel IH]; intros v shift acc j Hv Hs Hf Hj.
  - assert (shift = 63) as -> by lia. change (2 ^ (64 - 63)) with 2 in Hv.
    cbn [venc] in *. destruct (Z.ltb_spec v 128) as [_|H]; [|lia]. cbn [length] in Hj.
    replace j with 0%nat by lia. reflexivity.
  - assert (Hs63 : shift <> 63) by lia.
    change (venc (S (S fuel)) v) with (if v <? 128 then [v] else (v mod 128 + 128) :: venc (S fuel) (v / 128)) in *.
    destruct (Z.ltb_spec v 128) as [Hlt|Hge].
    + cbn [length] in Hj. replace j with 0%nat by lia. reflexivity.
    + destruct j as [|j]; [reflexivity|]. cbn [length] in Hj. cbn [firstn vlq].
      destruct (Z.eqb_spec shift 63) as [E|_]; [contradiction|]. cbn [andb].
      pose proof (Z.mod_pos_bound v 128 ltac:(lia)) as Hm.
      destruct (Z.ltb_spec (v mod 128 + 128) 128) as [H|_]; [lia|].
      rewrite Nat2Z.inj_succ in Hf. apply IH; [|lia|lia|lia].
      rewrite (pow_split shift) in Hv by lia. split; [apply Z.div_pos; lia|apply Z.div_lt_upper_bound; lia].
Qed.

Lemma zz_enc_range z : 0 <= z < 2 ^ 62 -> 0 <= zz_enc z < 2 ^ (64 - 0) /\ zz_enc z = 2 * z.
Proof.
  intros H. unfold zz_enc. destruct (Z.leb_spec 0 z); [|lia].
  change (2 ^ 62) with 4611686018427387904 in H. change (2 ^ (64 - 0)) with 18446744073709551616. lia.
Qed.

Lemma vlq_long z rest : 0 <= z < 2 ^ 62 -> vlq (long_enc z ++ rest) 0 0 = VOk z rest.
Proof.
  intros H. destruct (zz_enc_range z H) as [Hr He]. unfold long_enc.
  rewrite (vlq_venc 9) by (assumption || lia).
  rewrite He. cbn [Z.add]. rewrite Z.pow_0_r, Z.mul_1_r, zz_dec_even. reflexivity.
Qed.

Lemma vlq_long_cut z j : 0 <= z < 2 ^ 62 -> (j < length (long_enc z))%nat -> vlq (firstn j (long_enc z)) 0 0 = VMore.
Proof.
  intros H Hj. destruct (zz_enc_range z H) as [Hr _]. unfold long_enc in *.
  apply (vlq_venc_cut 9); assumption || lia.
Qed.

Lemma vlq_shrinks : forall bs s a v r, vlq bs s a = VOk v r -> (length r < length bs)%nat.
Proof.
  induction bs as [|b bs IH]; intros s a v r H; cbn [vlq] in H; [discriminate|].
  destruct ((s =? 63) && (2 <=? b)); [discriminate|].
  destruct (b <? 128).
  - inversion H; subst. cbn [length]. lia.
  - apply IH in H. cbn [length]. lia.
Qed.

(* ------------------------------------------------------------------ one block *)
Section Blocks.
  Variable sync : list Z.
  Hypothesis sync_len : length sync = 16%nat.

  Lemma enc_block_length b : length (enc_block sync b) =
    (length (long_enc (fst b)) + length (long_enc (Z.of_nat (length (snd b)))) + length (snd b) + 16)%nat.
  Proof. unfold enc_block. rewrite !app_length, sync_len. lia. Qed.

  Lemma next_block_full b rest : wf_block b -> next_block sync (enc_block sync b ++ rest) = BBlock b rest.
  Proof.
    destruct b as [c data]. intros [Hc Hd]. cbn [fst snd] in *.
    unfold next_block, enc_block. cbn [fst snd]. rewrite <- !app_assoc.
    rewrite vlq_long by exact Hc. destruct (Z.ltb_spec c 0) as [H|_]; [lia|].
    rewrite vlq_long by lia. destruct (Z.ltb_spec (Z.of_nat (length data)) 0) as [H|_]; [lia|].
    rewrite !app_length, sync_len.
    destruct (Z.ltb_spec (Z.of_nat (length data + (16 + length rest))) (Z.of_nat (length data) + 16)) as [H|_]; [lia|].
    rewrite Nat2Z.id.
    replace (skipn (length data) (data ++ sync ++ rest)) with (sync ++ rest)
      by (rewrite skipn_app, Nat.sub_diag, skipn_all; reflexivity).
    replace (firstn (length data) (data ++ sync ++ rest)) with data
      by (rewrite firstn_app, Nat.sub_diag, firstn_all; cbn [firstn]; now rewrite app_nil_r).
    replace (firstn 16 (sync ++ rest)) with sync
      by (rewrite <- sync_len, firstn_app, Nat.sub_diag, firstn_all; cbn [firstn]; now rewrite app_nil_r).
    replace (skipn 16 (sync ++ rest)) with rest
      by (rewrite <- sync_len, skipn_app, Nat.sub_diag, skipn_all; reflexivity).
    destruct (list_eq_dec Z.eq_dec sync sync) as [_|N]; [reflexivity|congruence].
  Qed.

  (* a block cut anywhere: nothing is decoded from it and the reader reports a clean end *)
  Lemma next_block_cut b k : wf_block b -> (k < length (enc_block sync b))%nat ->
    next_block sync (firstn k (enc_block sync b)) = BEnd.
  Proof.
    destruct b as [c data]. intros [Hc Hd] Hk. rewrite enc_block_length in Hk. cbn [fst snd] in *.
    unfold next_block, enc_block. cbn [fst snd].
    set (L1 := long_enc c) in *. set (L2 := long_enc (Z.of_nat (length data))) in *.
    destruct (Nat.lt_ge_cases k (length L1)) as [H1|H1].
    - rewrite firstn_app_le by lia. unfold L1. now rewrite vlq_long_cut by assumption.
    - rewrite firstn_app_ge by exact H1. unfold L1 at 1. rewrite vlq_long by exact Hc.
      destruct (Z.ltb_spec c 0) as [H|_]; [lia|].
      destruct (Nat.lt_ge_cases (k - length L1) (length L2)) as [H2|H2].
      + rewrite firstn_app_le by lia. unfold L2. now rewrite vlq_long_cut by (assumption || lia).
      + rewrite firstn_app_ge by exact H2. unfold L2 at 1. rewrite vlq_long by lia.
        destruct (Z.ltb_spec (Z.of_nat (length data)) 0) as [H|_]; [lia|].
        rewrite firstn_length, app_length, sync_len.
        destruct (Z.ltb_spec (Z.of_nat (Nat.min (k - length L1 - length L2) (length data + 16))) (Z.of_nat (length data) + 16)) as [_|H]; [reflexivity|lia].
  Qed.

  Lemma next_block_shrinks bs b rest : next_block sync bs = BBlock b rest -> (length rest < length bs)%nat.
  Proof.
    unfold next_block. destruct (vlq bs 0 0) as [| |c r1] eqn:E1; try discriminate.
    destruct (c <? 0); [discriminate|].
    destruct (vlq r1 0 0) as [| |sz r2] eqn:E2; try discriminate.
    destruct (sz <? 0); [discriminate|]. destruct (_ <? sz + 16); [discriminate|].
    destruct (list_eq_dec _ _ _); [|discriminate].
    remember (skipn 16 (skipn (Z.to_nat sz) r2)) as tl eqn:Etl.
    intros H. assert (rest = tl) as -> by congruence.
    assert (length tl <= length r2)%nat by (rewrite Etl, !skipn_length; lia).
    apply vlq_shrinks in E1, E2. lia.
  Qed.

  Lemma read_blocks_fuel : forall f1 f2 bs, (length bs < f1)%nat -> (length bs < f2)%nat ->
    read_blocks f1 sync bs = read_blocks f2 sync bs.
  Proof.
    induction f1 as [|f1 IH]; intros f2 bs H1 H2; [lia|]. destruct f2 as [|f2]; [lia|].
    cbn [read_blocks]. destruct (next_block sync bs) as [| |b rest] eqn:E; try reflexivity.
    apply next_block_shrinks in E. now rewrite (IH f2 rest) by lia.
  Qed.

  Lemma read_all_full b rest : wf_block b ->
    read_all_blocks sync (enc_block sync b ++ rest) = let '(bl, t) := read_all_blocks sync rest in (b :: bl, t).
  Proof.
    intros W. unfold read_all_blocks. cbn [read_blocks]. rewrite next_block_full by exact W.
    rewrite (read_blocks_fuel (length (enc_block sync b ++ rest)) (S (length rest))); [reflexivity| |lia].
    rewrite app_length, enc_block_length. lia.
  Qed.

  Lemma enc_blocks_cons b bl : enc_blocks sync (b :: bl) = enc_block sync b ++ enc_blocks sync bl.
  Proof. reflexivity. Qed.

  (* every cut of a sequence of blocks yields exactly the blocks that lie completely before the
     cut - never an error, never part of a block *)
  Theorem blocks_truncation : forall bl k,
    Forall wf_block bl -> (k <= length (enc_blocks sync bl))%nat ->
    exists n,
      read_all_blocks sync (firstn k (enc_blocks sync bl)) = (firstn n bl, End) /\
      (n <= length bl)%nat /\ (length (enc_blocks sync (firstn n bl)) <= k)%nat /\
      (n = length bl \/ (k < length (enc_blocks sync (firstn (S n) bl)))%nat) /\
      (k = length (enc_blocks sync bl) -> n = length bl).
  Proof.
    induction bl as [|b bl IH]; intros k W Hk.
    - cbn in Hk. replace k with 0%nat by lia. exists 0%nat. cbn. repeat split; auto.
    - inversion W as [|? ? Wb Wbl]; subst. rewrite enc_blocks_cons in *. rewrite app_length in Hk.
      destruct (Nat.lt_ge_cases k (length (enc_block sync b))) as [Hc|Hc].
      + rewrite firstn_app_le by lia. exists 0%nat.
        unfold read_all_blocks. cbn [read_blocks]. rewrite next_block_cut by assumption.
        cbn [firstn length]. split; [reflexivity|]. split; [lia|]. split; [cbn; lia|]. split.
        * right. rewrite enc_blocks_cons. cbn [firstn enc_blocks map concat]. rewrite app_nil_r. exact Hc.
        * rewrite app_length. lia.
      + rewrite firstn_app_ge by exact Hc. rewrite read_all_full by exact Wb.
        destruct (IH (k - length (enc_block sync b))%nat Wbl ltac:(lia)) as (n & E & Hn & Ho & Hm & Hf).
        rewrite E. exists (S n). cbn [firstn length]. rewrite !enc_blocks_cons, !app_length.
        split; [reflexivity|]. split; [lia|]. split; [lia|]. split.
        * destruct Hm as [->|Hm]; [left; reflexivity|right].
          destruct bl as [|b2 bl2]; [unfold enc_blocks in Hm; cbn [firstn map concat length] in Hm; lia|].
          cbn [firstn] in Hm. lia.
        * intros Ek. rewrite Hf by lia. reflexivity.
  Qed.
End Blocks.

Example avro_example :
  let sync := [9;9;9;9;9;9;9;9;9;9;9;9;9;9;9;9] in
  let bl := [(2, [5; 6; 7]); (0, []); (300, [1])] in
  read_all_blocks sync (firstn 25 (enc_blocks sync bl)) = (firstn 1 bl, End) /\
  read_all_blocks sync (enc_blocks sync bl) = (bl, End).
Proof. vm_compute. split; reflexivity. Qed.
