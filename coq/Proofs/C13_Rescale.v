(* C13 — decimal -> decimal: the kernel cast_decimal_to_decimal picks (table lookups, wrapping
   multiplication, truncating division with manual rounding, the "infallible" fast path that skips
   the precision check) computes exactly  round_half_away(x * 10^(s2-s1))  when that is within the
   output precision, and a null / error otherwise. *)
From Coq Require Import List ZArith Bool Lia.
From AV Require Import Model.C13_Num Model.C13_Decimal Proofs.C13_Pow.
Import ListNotations.
Local Open Scope Z_scope.

(* ---- make_downscaler's rounding is round-half-away-from-zero (from spikes/coq/Rescale.v) *)
Theorem downscale_is_round_half_away : forall div x, 0 < div -> Z.even div = true ->
  downscale div x = round_half_away div x.
Proof.
  intros div x Hd Hev. unfold downscale, round_half_away.
  assert (Hh : div = 2 * Z.quot div 2).
  { rewrite Z.quot_div_nonneg by lia. apply Z.even_spec in Hev as [k ->]. rewrite Z.mul_comm, Z.div_mul by lia. lia. }
  set (h := Z.quot div 2) in *.
  pose proof (Z.quot_rem' x div) as QR.
  destruct (Z.leb_spec 0 x) as [Hx|Hx].
  - pose proof (Z.rem_bound_pos x div Hx Hd) as Rb.
    destruct (Z.leb_spec h (Z.rem x div)).
    + apply Z.div_unique with (r := 2 * Z.rem x div - div); lia.
    + apply Z.div_unique with (r := 2 * Z.rem x div + div); lia.
  - pose proof (Z.rem_bound_pos_neg x div Hd ltac:(lia)) as Rb.
    destruct (Z.leb_spec (Z.rem x div) (- h)).
    + assert (E : (2 * - x + div) / (2 * div) = - Z.quot x div + 1).
      { symmetry. apply Z.div_unique with (r := - 2 * Z.rem x div - div); lia. }
      rewrite E. lia.
    + assert (E : (2 * - x + div) / (2 * div) = - Z.quot x div).
      { symmetry. apply Z.div_unique with (r := - 2 * Z.rem x div + div); lia. }
      rewrite E. lia.
Qed.

Lemma rha_bound : forall div x B, 0 < div -> 0 <= B -> Z.abs x < B * div -> Z.abs (round_half_away div x) <= B.
Proof.
  intros div x B Hd HB Hx. unfold round_half_away. apply Z.abs_lt in Hx.
  destruct (Z.leb_spec 0 x) as [H0|H0].
  - assert (U : (2 * x + div) / (2 * div) < B + 1) by (apply Z.div_lt_upper_bound; lia).
    assert (L : 0 <= (2 * x + div) / (2 * div)) by (apply Z.div_pos; lia).
    rewrite Z.abs_eq; lia.
  - assert (U : (2 * - x + div) / (2 * div) < B + 1) by (apply Z.div_lt_upper_bound; lia).
    assert (L : 0 <= (2 * - x + div) / (2 * div)) by (apply Z.div_pos; lia).
    rewrite Z.abs_opp, Z.abs_eq; lia.
Qed.

Lemma rha_zero : forall div x, 0 < div -> 2 * Z.abs x < div -> round_half_away div x = 0.
Proof.
  intros div x Hd Hx. unfold round_half_away.
  destruct (Z.leb_spec 0 x) as [H0|H0].
  - apply Z.div_small. lia.
  - rewrite Z.div_small by lia. reflexivity.
Qed.

Lemma even_pow10 : forall k, 0 < k -> Z.even (10 ^ k) = true.
Proof. intros k Hk. rewrite Z.even_pow by assumption. reflexivity. Qed.

Lemma in_prec_true : forall p v, in_prec p v = true <-> Z.abs v < 10 ^ p.
Proof. intros p v. unfold in_prec. cbv beta zeta. apply Z.ltb_lt. Qed.
Lemma in_prec_false : forall p v, in_prec p v = false <-> 10 ^ p <= Z.abs v.
Proof. intros p v. unfold in_prec. cbv beta zeta. apply Z.ltb_ge. Qed.

Lemma from_decimal_some : forall w v, fits w true v = true -> from_decimal w v = Some v.
Proof. intros w v H. unfold from_decimal, num_cast. rewrite H. reflexivity. Qed.
Lemma from_decimal_inv : forall w v r, from_decimal w v = Some r -> r = v /\ fits w true v = true.
Proof. intros w v r. unfold from_decimal, num_cast. destruct (fits w true v); [|discriminate]. intros H. inversion H. split; reflexivity. Qed.
Lemma checked_mul_inv : forall w a b r, checked_mul w a b = Some r -> r = a * b.
Proof. intros w a b r. unfold checked_mul. cbv zeta. destruct (fits w true (a * b)); [|discriminate]. intros H. inversion H. reflexivity. Qed.
Lemma checked_mul_some : forall w a b, fits w true (a * b) = true -> checked_mul w a b = Some (a * b).
Proof. intros w a b H. unfold checked_mul. cbv zeta. rewrite H. reflexivity. Qed.

Lemma wrap_signed_id : forall w v, 0 < w -> Z.abs v < 2 ^ (w - 1) -> wrap_signed w v = v.
Proof.
  intros w v Hw Hv. unfold wrap_signed. cbv zeta. apply Z.abs_lt in Hv.
  assert (C : (- 2 ^ (w - 1) <=? v) && (v <? 2 ^ (w - 1)) = true).
  { apply andb_true_iff. split; [apply Z.leb_le|apply Z.ltb_lt]; lia. }
  rewrite C. reflexivity.
Qed.

Lemma width_pos : forall w, In w widths -> 0 < w.
Proof. intros w [<-|[<-|[<-|[<-|[]]]]]; lia. Qed.

Lemma abs_mul_pow : forall x k, 0 <= k -> Z.abs (x * 10 ^ k) = Z.abs x * 10 ^ k.
Proof. intros x k Hk. rewrite Z.abs_mul. rewrite (Z.abs_eq (10 ^ k)); [reflexivity|]. pose proof (pow10_pos k Hk). lia. Qed.

(* ---------------------------------------------------------------- the upscaler *)
Lemma up_fallible_spec : forall w2 p2 delta x, In w2 widths -> 1 <= p2 <= dec_maxp w2 -> 0 <= delta ->
  obind (up_fallible w2 (10 ^ delta) x) (check_prec w2 p2)
  = if in_prec p2 (x * 10 ^ delta) then Some (x * 10 ^ delta) else None.
Proof.
  intros w2 p2 delta x Hw Hp Hd.
  pose proof (pow10_ge1 delta Hd) as Hm.
  destruct (in_prec p2 (x * 10 ^ delta)) eqn:E.
  - apply in_prec_true in E.
    assert (Fx : fits w2 true x = true).
    { apply (in_prec_fits w2 p2); [assumption|lia|]. rewrite abs_mul_pow in E by assumption. nia. }
    assert (Fm : fits w2 true (x * 10 ^ delta) = true) by (apply (in_prec_fits w2 p2); [assumption|lia|assumption]).
    unfold up_fallible. rewrite from_decimal_some by assumption. cbn [obind]. rewrite checked_mul_some by assumption. cbn [obind].
    rewrite check_prec_spec by (assumption || lia). apply in_prec_true in E. rewrite E. reflexivity.
  - unfold up_fallible. destruct (from_decimal w2 x) as [y|] eqn:F; [|reflexivity]. cbn [obind].
    apply from_decimal_inv in F. destruct F as [-> _].
    destruct (checked_mul w2 x (10 ^ delta)) as [m|] eqn:M; [|reflexivity]. cbn [obind].
    apply checked_mul_inv in M. subst m. rewrite check_prec_spec by (assumption || lia). rewrite E. reflexivity.
Qed.

Lemma up_infallible_spec : forall w2 p1 p2 delta x, In w2 widths -> 1 <= p1 -> 1 <= p2 <= dec_maxp w2 -> 0 <= delta ->
  p1 + delta <= p2 -> Z.abs x < 10 ^ p1 ->
  up_infallible w2 (10 ^ delta) x = Some (x * 10 ^ delta) /\ in_prec p2 (x * 10 ^ delta) = true.
Proof.
  intros w2 p1 p2 delta x Hw Hp1 Hp2 Hd Hle Hx.
  pose proof (pow10_ge1 delta Hd) as Hm.
  assert (B : Z.abs (x * 10 ^ delta) < 10 ^ p2).
  { rewrite abs_mul_pow by assumption. pose proof (pow10_mono (p1 + delta) p2 ltac:(lia)) as M.
    rewrite pow10_add in M by lia. nia. }
  split; [|apply in_prec_true; assumption].
  assert (Fx : fits w2 true x = true).
  { apply (in_prec_fits w2 p2); [assumption|lia|]. rewrite abs_mul_pow in B by assumption. nia. }
  unfold up_infallible. rewrite from_decimal_some by assumption. f_equal.
  apply wrap_signed_id; [apply width_pos; assumption|].
  pose proof (pow10_fits_width w2 Hw). pose proof (pow10_mono p2 (dec_maxp w2) ltac:(lia)). lia.
Qed.

(* ---------------------------------------------------------------- the downscaler *)
Lemma down_fallible_spec : forall w2 p2 delta x, In w2 widths -> 1 <= p2 <= dec_maxp w2 -> 0 < delta ->
  obind (down_fallible w2 (10 ^ delta) x) (check_prec w2 p2)
  = let r := round_half_away (10 ^ delta) x in if in_prec p2 r then Some r else None.
Proof.
  intros w2 p2 delta x Hw Hp Hd. cbv zeta.
  unfold down_fallible. rewrite downscale_is_round_half_away by (apply pow10_pos; lia) || (apply even_pow10; assumption).
  set (r := round_half_away (10 ^ delta) x).
  destruct (in_prec p2 r) eqn:E.
  - rewrite from_decimal_some by (apply (in_prec_fits w2 p2); [assumption|lia|apply in_prec_true; assumption]).
    cbn [obind]. rewrite check_prec_spec by (assumption || lia). rewrite E. reflexivity.
  - destruct (from_decimal w2 r) as [y|] eqn:F; [|reflexivity]. cbn [obind].
    apply from_decimal_inv in F. destruct F as [-> _]. rewrite check_prec_spec by (assumption || lia). rewrite E. reflexivity.
Qed.

Lemma down_result_bound : forall p1 delta x, 1 <= p1 -> 0 < delta -> Z.abs x < 10 ^ p1 ->
  Z.abs (round_half_away (10 ^ delta) x) <= 10 ^ (Z.max (p1 - delta) 0).
Proof.
  intros p1 delta x Hp Hd Hx. pose proof (pow10_pos delta ltac:(lia)) as Dp.
  apply rha_bound; [assumption|pose proof (pow10_pos (Z.max (p1 - delta) 0) ltac:(lia)); lia|].
  destruct (Z.le_gt_cases delta p1) as [L|G].
  - rewrite Z.max_l by lia. rewrite <- pow10_add by lia. replace (p1 - delta + delta) with p1 by lia. assumption.
  - rewrite Z.max_r by lia. pose proof (pow10_mono_lt p1 delta ltac:(lia)). lia.
Qed.

Lemma down_infallible_spec : forall w2 p1 p2 delta x, In w2 widths -> 1 <= p1 -> 1 <= p2 <= dec_maxp w2 -> 0 < delta ->
  p1 - delta < p2 -> Z.abs x < 10 ^ p1 ->
  down_fallible w2 (10 ^ delta) x = Some (round_half_away (10 ^ delta) x)
  /\ in_prec p2 (round_half_away (10 ^ delta) x) = true.
Proof.
  intros w2 p1 p2 delta x Hw Hp1 Hp2 Hd Hlt Hx.
  pose proof (down_result_bound p1 delta x Hp1 Hd Hx) as B.
  assert (B2 : Z.abs (round_half_away (10 ^ delta) x) < 10 ^ p2).
  { pose proof (pow10_mono_lt (Z.max (p1 - delta) 0) p2 ltac:(lia)). lia. }
  split; [|apply in_prec_true; assumption].
  unfold down_fallible. rewrite downscale_is_round_half_away by (apply pow10_pos; lia) || (apply even_pow10; assumption).
  apply from_decimal_some. apply (in_prec_fits w2 p2); [assumption|lia|assumption].
Qed.

(* ---------------------------------------------------------------- the whole arm *)
Theorem dec_dec_kernel_exact : forall w1 p1 s1 w2 p2 s2 x,
  In w1 widths -> In w2 widths ->
  dec_type_ok w1 p1 s1 = true -> dec_type_ok w2 p2 s2 = true ->
  - 127 <= s2 - s1 <= 127 -> p1 + (s2 - s1) <= 127 ->
  (s1 <= s2 -> s2 - s1 <= dec_maxp w2) ->
  Z.abs x < 10 ^ p1 ->
  kernel_value (dec_dec_kernel w1 p1 s1 w2 p2 s2) x = Some (dec_dec_spec s1 p2 s2 x).
Proof.
  intros w1 p1 s1 w2 p2 s2 x Hw1 Hw2 T1 T2 Hi8 Hi8p Hup Hx.
  apply dec_type_ok_bounds in T1. destruct T1 as (P1 & _ & _ & _).
  apply dec_type_ok_bounds in T2. destruct T2 as (P2 & _ & _ & _).
  unfold dec_dec_kernel, dec_dec_spec, rescale_spec. cbv beta zeta.
  destruct ((w1 =? w2) && (s1 =? s2) && (p1 <=? p2)) eqn:Same.
  - (* clone *)
    apply andb_true_iff in Same. destruct Same as [Same Hp]. apply andb_true_iff in Same. destruct Same as [_ Hs].
    apply Z.eqb_eq in Hs. apply Z.leb_le in Hp. subst s2.
    rewrite Z.leb_refl, Z.sub_diag. cbn [kernel_value]. rewrite Z.mul_1_r.
    assert (E : in_prec p2 x = true).
    { apply in_prec_true. pose proof (pow10_mono p1 p2 ltac:(lia)). lia. }
    rewrite E. reflexivity.
  - destruct (Z.leb_spec s1 s2) as [Hs|Hs].
    + (* upscale *)
      set (delta := s2 - s1) in *.
      assert (Hi : i8_ok delta = true) by (unfold i8_ok; apply andb_true_iff; split; apply Z.leb_le; lia).
      rewrite Hi. cbn [negb].
      rewrite (table_get_some w2 delta Hw2) by lia.
      replace (10 ^ delta - 1 + 1) with (10 ^ delta) by lia.
      assert (Hi2 : i8_ok (p1 + delta) = true) by (unfold i8_ok; apply andb_true_iff; split; apply Z.leb_le; lia).
      rewrite Hi2. cbn [negb].
      destruct (Z.leb_spec (p1 + delta) p2) as [Hinf|Hinf].
      * cbn [kernel_value].
        destruct (up_infallible_spec w2 p1 p2 delta x Hw2 ltac:(lia) P2 ltac:(lia) Hinf Hx) as [E1 E2].
        rewrite E1, E2. reflexivity.
      * cbn [kernel_value]. rewrite up_fallible_spec by (assumption || lia). reflexivity.
    + (* downscale *)
      set (delta := s1 - s2) in *.
      assert (Hi : i8_ok delta = true) by (unfold i8_ok; apply andb_true_iff; split; apply Z.leb_le; lia).
      rewrite Hi. cbn [negb].
      destruct (Z.le_gt_cases delta (dec_maxp w1)) as [Hin|Hout].
      * rewrite (table_get_some w1 delta Hw1) by lia.
        replace (10 ^ delta - 1 + 1) with (10 ^ delta) by lia.
        assert (Hi2 : i8_ok (p1 - delta) = true).
        { unfold i8_ok; apply andb_true_iff; split; apply Z.leb_le; pose proof (dec_maxp_pos w1 Hw1); lia. }
        rewrite Hi2. cbn [negb].
        destruct (Z.ltb_spec (p1 - delta) p2) as [Hinf|Hinf].
        -- cbn [kernel_value].
           destruct (down_infallible_spec w2 p1 p2 delta x Hw2 ltac:(lia) P2 ltac:(lia) Hinf Hx) as [E1 E2].
           rewrite E1, E2. reflexivity.
        -- cbn [kernel_value]. rewrite down_fallible_spec by (assumption || lia). reflexivity.
      * rewrite (table_get_none w1 delta Hw1) by lia. cbn [kernel_value].
        assert (Z0 : round_half_away (10 ^ delta) x = 0).
        { apply rha_zero; [apply pow10_pos; lia|].
          pose proof (pow10_mono p1 (delta - 1) ltac:(lia)) as M.
          replace delta with (1 + (delta - 1)) at 1 by lia. rewrite pow10_add by lia. change (10 ^ 1) with 10. lia. }
        rewrite Z0. assert (E : in_prec p2 0 = true) by (apply in_prec_true; pose proof (pow10_pos p2 ltac:(lia)); cbn; lia).
        rewrite E. reflexivity.
Qed.

(* The fast path that skips the precision check is sound for values within the declared precision:
   it cannot panic, the result is within the output precision and fits the native type. *)
Theorem infallible_path_sound : forall w1 p1 s1 w2 p2 s2 f x,
  In w1 widths -> In w2 widths ->
  dec_type_ok w1 p1 s1 = true -> dec_type_ok w2 p2 s2 = true ->
  - 127 <= s2 - s1 <= 127 -> p1 + (s2 - s1) <= 127 -> (s1 <= s2 -> s2 - s1 <= dec_maxp w2) ->
  dec_dec_kernel w1 p1 s1 w2 p2 s2 = KUnwrap f ->
  Z.abs x < 10 ^ p1 ->
  exists r, f x = Some r /\ Z.abs r < 10 ^ p2 /\ fits w2 true r = true /\ r = rescale_spec s1 s2 x.
Proof.
  intros w1 p1 s1 w2 p2 s2 f x Hw1 Hw2 T1 T2 Hi8 Hi8p Hup Hk Hx.
  pose proof (dec_dec_kernel_exact w1 p1 s1 w2 p2 s2 x Hw1 Hw2 T1 T2 Hi8 Hi8p Hup Hx) as E.
  rewrite Hk in E. cbn [kernel_value] in E. destruct (f x) as [r|]; [|discriminate].
  unfold dec_dec_spec in E. cbv beta zeta in E. destruct (in_prec p2 (rescale_spec s1 s2 x)) eqn:P; [|discriminate].
  inversion E; subst r. exists (rescale_spec s1 s2 x). split; [reflexivity|].
  apply in_prec_true in P. split; [assumption|]. split; [|reflexivity].
  apply dec_type_ok_bounds in T2. destruct T2 as (P2 & _).
  apply (in_prec_fits w2 p2); [assumption|lia|assumption].
Qed.

(* outside the hypothesis the fast path is NOT safe: unary visits null slots too, and a raw value
   under a null that does not fit the output native type makes the closure's unwrap panic *)
Theorem infallible_path_garbage_refuted :
  exists c, logical c = [None]
    /\ run_kernel (dec_dec_kernel 128 5 0 32 9 2) true c = RPanic.
Proof. exists [(false, 2 ^ 100)]. split; vm_compute; reflexivity. Qed.
