(* C06 — RowSelection::and_then: every backing pairing computes and_then_spec. *)
From Coq Require Import List Arith Lia Bool.
From AV Require Import Model.C06_RowSel Proofs.C06_Basics.
Import ListNotations.

Lemma den_push_skip n out : dens (push_skip n out) = dens out ++ repeat false n.
Proof.
  unfold push_skip. destruct (Nat.eqb_spec n 0) as [->|Hn].
  - cbn [repeat]. now rewrite app_nil_r.
  - rewrite dens_app, dens_cons, dens_nil, app_nil_r. reflexivity.
Qed.

Lemma spec_skip_run n a b : and_then_spec (repeat false n ++ a) b = repeat false n ++ and_then_spec a b.
Proof. induction n as [|n IH]; cbn [repeat app and_then_spec]; congruence. Qed.

Lemma spec_sel_run p a y b :
  and_then_spec (repeat true p ++ a) (repeat y p ++ b) = repeat y p ++ and_then_spec a b.
Proof. induction p as [|p IH]; cbn [repeat app and_then_spec]; congruence. Qed.

Lemma spec_nil_second a : and_then_spec a [] = repeat false (length a).
Proof. induction a as [|[] a IH]; cbn [and_then_spec length repeat]; congruence. Qed.

Lemma spec_length a b : length (and_then_spec a b) = length a.
Proof.
  revert b; induction a as [|x a IH]; intros b; [reflexivity|].
  destruct x; [destruct b|]; cbn [and_then_spec length]; now rewrite IH.
Qed.

Lemma drain_first_spec first : forall ts r,
  drain_first first ts = Some r -> r = ts + length (dens first).
Proof.
  induction first as [|[sk n] first IH]; intros ts r H; cbn [drain_first] in H.
  - inversion H. cbn. lia.
  - rewrite dens_cons, app_length, repeat_length.
    destruct (Nat.eqb_spec n 0) as [->|Hn]; [apply IH in H; lia|].
    destruct sk; [apply IH in H; lia|discriminate].
Qed.

(* main invariant of and_then_iter *)
Lemma and_then_go_spec fuel : forall first second to_skip out res,
  and_then_go fuel first second to_skip out = Some res ->
  dens res = dens out ++ repeat false to_skip ++ and_then_spec (dens first) (dens second).
Proof.
  induction fuel as [|fuel IH]; intros first second to_skip out res H; [discriminate|].
  cbn [and_then_go] in H.
  destruct second as [|[bskip bn] second'].
  - destruct (drain_first first to_skip) as [ts|] eqn:Ed; [|discriminate].
    inversion H; subst res. apply drain_first_spec in Ed. subst ts.
    rewrite den_push_skip, dens_nil, spec_nil_second, repeat_app. reflexivity.
  - destruct first as [|[askip an] first']; [discriminate|].
    destruct (Nat.eqb_spec bn 0) as [->|Hbn].
    { apply IH in H. rewrite H. reflexivity. }
    destruct (Nat.eqb_spec an 0) as [->|Han].
    { apply IH in H. rewrite H. reflexivity. }
    destruct askip.
    { apply IH in H. rewrite H. rewrite (dens_cons true an). cbn [negb].
      rewrite spec_skip_run, repeat_app, <- ?app_assoc. reflexivity. }
    set (p := Nat.min an bn) in *.
    assert (Hp1 : p <= an) by (unfold p; lia). assert (Hp2 : p <= bn) by (unfold p; lia).
    assert (Hd1 : dens ((false, an) :: first') = repeat true p ++ dens ((false, an - p) :: first')).
    { rewrite !dens_cons. cbn [negb]. rewrite app_assoc. f_equal. now apply repeat_split. }
    assert (Hd2 : dens ((bskip, bn) :: second') = repeat (negb bskip) p ++ dens ((bskip, bn - p) :: second')).
    { rewrite !dens_cons. rewrite app_assoc. f_equal. now apply repeat_split. }
    rewrite Hd1, Hd2, spec_sel_run.
    destruct bskip.
    + apply IH in H. rewrite H. cbn [negb]. rewrite repeat_app, <- !app_assoc. reflexivity.
    + apply IH in H. rewrite H. cbn [negb repeat app].
      rewrite dens_app, den_push_skip, (dens_cons false p []). cbn [negb]. rewrite dens_nil.
      rewrite app_nil_r, <- !app_assoc. reflexivity.
Qed.

Lemma and_then_sels_spec first second res :
  and_then_sels first second = Some res ->
  dens res = and_then_spec (dens first) (dens second).
Proof. unfold and_then_sels. intros H. apply and_then_go_spec in H. exact H. Qed.

(* mask first, selectors second *)
Lemma drop_zero_dens l : dens (drop_zero l) = dens l.
Proof. induction l as [|[sk [|n]] l IH]; cbn [drop_zero]; [reflexivity| |reflexivity]. rewrite IH. reflexivity. Qed.

Lemma drop_zero_head l sk n r : drop_zero l = (sk, n) :: r -> n <> 0.
Proof.
  induction l as [|[sk0 [|n0]] l IH]; cbn [drop_zero]; intros H; [discriminate|auto|].
  inversion H; subst. discriminate.
Qed.

Lemma forallb_zero_dens l : forallb (fun s : sel => snd s =? 0) l = true -> dens l = [].
Proof.
  induction l as [|[sk n] l IH]; cbn [forallb snd]; intros H; [reflexivity|].
  apply andb_prop in H as [H1 H2]. apply Nat.eqb_eq in H1. subst n. rewrite dens_zero. auto.
Qed.

Lemma and_then_mask_sels_spec mask : forall other res,
  and_then_mask_sels mask other = Some res -> res = and_then_spec mask (dens other).
Proof.
  induction mask as [|b mask IH]; intros other res H; cbn [and_then_mask_sels] in H.
  - destruct (forallb _ other); [|discriminate]. inversion H. reflexivity.
  - destruct b.
    + destruct (drop_zero other) as [|[sk n] r] eqn:Ed; [discriminate|].
      pose proof (drop_zero_head _ _ _ _ Ed) as Hn.
      destruct (and_then_mask_sels mask ((sk, n - 1) :: r)) as [res'|] eqn:Er; [|discriminate].
      inversion H; subst res. apply IH in Er. subst res'.
      rewrite <- (drop_zero_dens other), Ed.
      destruct n as [|n]; [congruence|].
      rewrite !dens_cons. cbn [repeat app and_then_spec]. replace (S n - 1) with n by lia. reflexivity.
    + destruct (and_then_mask_sels mask other) as [res'|] eqn:Er; [|discriminate].
      inversion H; subst res. apply IH in Er. subst res'. reflexivity.
Qed.

(* mask first, mask second *)
Lemma spec_all_false a : forall b, count_true b = 0 -> and_then_spec a b = repeat false (length a).
Proof.
  induction a as [|x a IH]; intros b Hb; [reflexivity|].
  destruct x; cbn [and_then_spec length repeat].
  - destruct b as [|y b]; [now rewrite spec_nil_second|].
    cbn [count_true] in Hb. destruct y; [lia|]. f_equal. apply IH. lia.
  - f_equal. now apply IH.
Qed.

Lemma spec_all_true a : forall b,
  count_true a = length b -> count_true b = length b -> and_then_spec a b = a.
Proof.
  induction a as [|x a IH]; intros b Hl Hb; [reflexivity|].
  destruct x; cbn [and_then_spec].
  - destruct b as [|y b]; [cbn in Hl; lia|].
    cbn [count_true length] in *. pose proof (count_true_le b).
    destruct y; [|lia]. f_equal. apply IH; lia.
  - f_equal. apply IH; [exact Hl|exact Hb].
Qed.

Lemma positions_from_app a b pos :
  positions_from (a ++ b) pos = positions_from a pos ++ positions_from b (pos + length a).
Proof.
  revert pos; induction a as [|x a IH]; intros pos; cbn [positions_from app length].
  - now rewrite Nat.add_0_r.
  - rewrite IH, <- app_assoc. do 3 f_equal. lia.
Qed.

Lemma positions_from_false n pos : positions_from (repeat false n) pos = [].
Proof. revert pos; induction n as [|n IH]; intros pos; cbn [repeat positions_from app]; auto. Qed.

Lemma positions_from_length l pos : length (positions_from l pos) = count_true l.
Proof.
  revert pos; induction l as [|b l IH]; intros pos; [reflexivity|].
  cbn [positions_from count_true]. rewrite app_length, IH. destruct b; reflexivity.
Qed.

(* a list with no set bit is all false; otherwise it starts with k falses and a true *)
Lemma split_first_true l :
  (count_true l = 0 /\ l = repeat false (length l)) \/
  (exists k r, l = repeat false k ++ true :: r).
Proof.
  induction l as [|b l IH]; [left; split; reflexivity|].
  destruct b; [right; exists 0, l; reflexivity|].
  destruct IH as [[H0 Hl]|(k & r & Hl)].
  - left. split; [exact H0|]. cbn [length repeat]. congruence.
  - right. exists (S k), r. cbn [repeat app]. congruence.
Qed.

(* the first k set bits of the mask sit in a prefix m1 *)
Lemma split_kth m : forall k, k < count_true m ->
  exists m1 m', m = m1 ++ true :: m' /\ count_true m1 = k.
Proof.
  induction m as [|b m IH]; intros k Hk; cbn [count_true] in Hk; [lia|].
  destruct b.
  - destruct k as [|k].
    + exists [], m. split; reflexivity.
    + destruct (IH k) as (m1 & m' & Hm & Hc); [lia|].
      exists (true :: m1), m'. split; [cbn [app]; congruence|cbn [count_true]; lia].
  - destruct (IH k) as (m1 & m' & Hm & Hc); [lia|].
    exists (false :: m1), m'. split; [cbn [app]; congruence|cbn [count_true]; lia].
Qed.

Lemma skipn_positions m1 rest pos :
  skipn (count_true m1) (positions_from (m1 ++ rest) pos) = positions_from rest (pos + length m1).
Proof.
  rewrite positions_from_app. rewrite <- (positions_from_length m1 pos).
  rewrite skipn_app, skipn_all, Nat.sub_diag. reflexivity.
Qed.

Lemma spec_consume m1 : forall rest o2,
  and_then_spec (m1 ++ rest) (repeat false (count_true m1) ++ o2)
  = repeat false (length m1) ++ and_then_spec rest o2.
Proof.
  induction m1 as [|b m1 IH]; intros rest o2; [reflexivity|].
  destruct b; cbn [count_true app repeat and_then_spec length Nat.add]; f_equal; apply IH.
Qed.

Lemma atmm_go_spec : forall n o m next_ord cursor,
  length o = n -> count_true m = length o ->
  atmm_go (positions_from o next_ord) (positions_from m cursor) next_ord cursor (cursor + length m)
  = and_then_spec m o.
Proof.
  induction n as [n IHn] using lt_wf_ind. intros o m next_ord cursor En Hc.
  destruct (split_first_true o) as [[H0 Ho]|(k & o' & Ho)].
  - rewrite Ho, positions_from_false. cbn [atmm_go].
    rewrite <- Ho, spec_all_false by exact H0. f_equal. lia.
  - subst o. rewrite positions_from_app, positions_from_false, repeat_length. cbn [app positions_from].
    cbn [atmm_go]. replace (next_ord + k - next_ord) with k by lia.
    rewrite app_length, repeat_length in Hc, En. cbn [length] in Hc, En.
    destruct (split_kth m k) as (m1 & m' & Hm & Hk); [lia|].
    subst m. rewrite <- Hk at 1. rewrite skipn_positions. cbn [positions_from app].
    rewrite <- Hk, spec_consume. cbn [and_then_spec].
    replace (cursor + length m1 - cursor) with (length m1) by lia. f_equal. f_equal.
    rewrite count_true_app in Hc. cbn [count_true] in Hc.
    rewrite app_length. cbn [length].
    replace (cursor + (length m1 + S (length m'))) with (S (cursor + length m1) + length m') by lia.
    replace (next_ord + count_true m1) with (next_ord + count_true m1 + 0) by lia.
    rewrite Nat.add_0_r.
    apply (IHn (length o')); [lia|reflexivity|lia].
Qed.

Lemma and_then_masks_spec mask other res :
  and_then_masks mask other = Some res -> res = and_then_spec mask other.
Proof.
  unfold and_then_masks.
  destruct (Nat.ltb_spec (length other) (count_true mask)) as [H1|H1]; [discriminate|].
  destruct (Nat.ltb_spec (count_true mask) (length other)) as [H2|H2]; [discriminate|].
  assert (Hc : count_true mask = length other) by lia.
  destruct (Nat.eqb_spec (count_true other) 0) as [H0|H0].
  { intros H; inversion H. symmetry. now apply spec_all_false. }
  destruct (Nat.eqb_spec (count_true other) (count_true mask)) as [Ha|Ha].
  { intros H; inversion H; subst res. symmetry. apply spec_all_true; [exact Hc|lia]. }
  intros H; inversion H.
  apply (atmm_go_spec (length other) other mask 0 0 eq_refl Hc).
Qed.

(* the precondition under which the mask pairing does not panic *)
Lemma and_then_masks_total mask other :
  count_true mask = length other -> and_then_masks mask other <> None.
Proof.
  intros Hc. unfold and_then_masks. rewrite Hc, Nat.ltb_irrefl.
  destruct (count_true other =? 0); [discriminate|].
  destruct (count_true other =? length other); discriminate.
Qed.
