(* C05 — BitWriter::put_value, word level (64-bit accumulator, spill at 64 bits, checked shifts) = the
   bit-stream specification: the bytes produced are the concatenated w-bit groups, zero padded. *)
From Coq Require Import List NArith ZArith Arith Lia Bool ZifyN ZifyNat ZifyBool.
From AV Require Import Base.ListX Base.Bits Model.C05_Enc Proofs.C05_Bits Proofs.C05_Plain.
Import ListNotations.
Ltac Zify.zify_post_hook ::= Z.div_mod_to_equations.
Local Open Scope N_scope.

(* disjoint bits: or = add *)
Lemma lor_shiftl_add a b k : a < 2^k -> N.lor a (N.shiftl b k) = a + 2^k * b.
Proof.
  intros Ha. apply N.bits_inj. intros i.
  rewrite N.lor_spec, testbit_add_shift by exact Ha.
  destruct (N.ltb_spec i k) as [Hlt|Hge].
  - rewrite N.shiftl_spec_low by exact Hlt. apply orb_false_r.
  - rewrite N.shiftl_spec_high' by exact Hge. rewrite (testbit_high a k i Ha Hge). reflexivity.
Qed.

Lemma u64_shiftl v off : off <= 64 -> u64 (N.shiftl v off) = 2^off * (v mod 2^(64 - off)).
Proof.
  intros H. unfold u64. rewrite N.land_ones, N.shiftl_mul_pow2.
  replace (2^64) with (2^off * 2^(64 - off)) by (rewrite <- N.pow_add_r; f_equal; lia).
  rewrite (N.mul_comm v). apply N.mul_mod_distr_l; apply N.pow_nonzero; lia.
Qed.

Lemma bits_of_low a v k : a < 2^N.of_nat k -> bits_of k (a + 2^N.of_nat k * v) = bits_of k a.
Proof.
  intros Ha. rewrite <- bits_of_mod. rewrite <- (bits_of_mod k a). f_equal.
  rewrite N.mul_comm, N.mod_add by (apply N.pow_nonzero; lia). reflexivity.
Qed.

Lemma bits_of_concat a v k m : a < 2^N.of_nat k ->
  bits_of (k + m) (a + 2^N.of_nat k * v) = bits_of k a ++ bits_of m v.
Proof.
  intros Ha. rewrite bits_of_app, bits_of_low by exact Ha. f_equal. f_equal.
  rewrite N.mul_comm, N.div_add by (apply N.pow_nonzero; lia). rewrite N.div_small by exact Ha. reflexivity.
Qed.

Lemma bits_of_zero k : bits_of k 0 = repeat false k.
Proof. induction k as [|k IH]; [reflexivity|]. cbn [bits_of repeat]. f_equal. exact IH. Qed.

(* ---- state denotation and invariant ---- *)
Definition bw_bits (s : bitw) : list bool :=
  bytes_bits (rev (bw_rbuf s)) ++ bits_of (N.to_nat (bw_off s)) (bw_acc s).
Definition bw_inv (s : bitw) : Prop :=
  bw_off s < 64 /\ bw_acc s < 2^(bw_off s) /\ Forall (fun b => b < 256) (bw_rbuf s).

Lemma le_bytes_wf k v : Forall (fun b => b < 256) (le_bytes k v).
Proof. apply bits_bytes_wf. Qed.

Lemma bytes_bits_le_bytes k v : bytes_bits (le_bytes k v) = bits_of (8 * k) v.
Proof. unfold le_bytes. apply bytes_bits_bits_bytes. apply bits_of_length. Qed.

Lemma put_value_ok s v nb : bw_inv s -> nb <= 64 -> v < 2^nb ->
  bw_bits (bw_put_value s v nb) = bw_bits s ++ bits_of (N.to_nat nb) v /\ bw_inv (bw_put_value s v nb).
Proof.
  intros (Hoff & Hacc & Hwf) Hnb Hv. destruct s as [rbuf acc off]. cbn [bw_rbuf bw_acc bw_off] in *.
  unfold bw_put_value. cbn [bw_rbuf bw_acc bw_off].
  assert (Hacc' : acc < 2^N.of_nat (N.to_nat off)) by (rewrite N2Nat.id; exact Hacc).
  assert (Eor : N.lor acc (u64 (N.shiftl v off)) = acc + 2^off * (v mod 2^(64 - off))).
  { rewrite u64_shiftl by lia.
    rewrite <- (lor_shiftl_add acc (v mod 2^(64 - off)) off Hacc). f_equal. rewrite N.shiftl_mul_pow2. lia. }
  destruct (N.leb_spec 64 (off + nb)) as [Hspill|Hfit].
  - (* the accumulator fills up: 8 bytes are emitted, the rest of v starts the next word *)
    set (rem := off + nb - 64). set (k := 64 - off).
    assert (Hk : N.to_nat nb = (N.to_nat k + N.to_nat rem)%nat) by (unfold k, rem; lia).
    assert (Hword : bits_of 64 (N.lor acc (u64 (N.shiftl v off))) = bits_of (N.to_nat off) acc ++ bits_of (N.to_nat k) v).
    { rewrite Eor. replace 64%nat with (N.to_nat off + N.to_nat k)%nat by (unfold k; lia).
      replace (2^off) with (2^N.of_nat (N.to_nat off)) by (rewrite N2Nat.id; reflexivity).
      rewrite bits_of_concat by exact Hacc'. f_equal. fold k.
      replace (2^k) with (2^N.of_nat (N.to_nat k)) by (rewrite N2Nat.id; reflexivity). apply bits_of_mod. }
    split.
    + unfold bw_bits. cbn [bw_rbuf bw_acc bw_off].
      rewrite rev_app_distr, rev_involutive, bytes_bits_app, bytes_bits_le_bytes.
      change (8 * 8)%nat with 64%nat. rewrite Hword. rewrite <- !app_assoc. f_equal. f_equal.
      rewrite Hk, bits_of_app. f_equal. fold rem.
      unfold shr_checked. replace (nb - rem) with k by (unfold k, rem; lia).
      destruct (N.ltb_spec k 64) as [Hk64|Hk64].
      * rewrite N.shiftr_div_pow2, N2Nat.id. reflexivity.
      * (* off = 0 and nb = 64: nothing is left over *)
        assert (rem = 0) by (unfold k, rem in *; lia). rewrite H. reflexivity.
    + unfold bw_inv. cbn [bw_rbuf bw_acc bw_off]. fold rem. split; [unfold rem; lia|]. split.
      * unfold shr_checked. replace (nb - rem) with k by (unfold k, rem; lia).
        destruct (N.ltb_spec k 64) as [Hk64|Hk64].
        -- rewrite N.shiftr_div_pow2. apply N.div_lt_upper_bound; [apply N.pow_nonzero; lia|].
           rewrite <- N.pow_add_r. replace (k + rem) with nb by (unfold k, rem; lia). exact Hv.
        -- apply N.neq_0_lt_0, N.pow_nonzero. lia.
      * apply Forall_app; split; [|exact Hwf]. apply Forall_rev, le_bytes_wf.
  - (* stays within the accumulator *)
    assert (Esmall : v mod 2^(64 - off) = v).
    { apply N.mod_small. eapply N.lt_le_trans; [exact Hv|]. apply N.pow_le_mono_r; lia. }
    rewrite Esmall in Eor. split.
    + unfold bw_bits. cbn [bw_rbuf bw_acc bw_off]. rewrite <- app_assoc. f_equal.
      rewrite Eor. replace (N.to_nat (off + nb)) with (N.to_nat off + N.to_nat nb)%nat by lia.
      replace (2^off) with (2^N.of_nat (N.to_nat off)) by (rewrite N2Nat.id; reflexivity).
      apply bits_of_concat, Hacc'.
    + unfold bw_inv. cbn [bw_rbuf bw_acc bw_off]. split; [lia|]. split; [|exact Hwf].
      rewrite Eor. rewrite N.pow_add_r. nia.
Qed.

Lemma fold_put_ok : forall ops s, bw_inv s ->
  Forall (fun p => snd p <= 64 /\ fst p < 2^(snd p)) ops ->
  let s' := fold_left (fun s p => bw_put_value s (fst p) (snd p)) ops s in
  bw_bits s' = bw_bits s ++ flat_map (fun p => bits_of (N.to_nat (snd p)) (fst p)) ops /\ bw_inv s'.
Proof.
  induction ops as [|[v nb] ops IH]; intros s Hs Hops.
  - cbn. rewrite app_nil_r. split; [reflexivity|exact Hs].
  - inversion Hops as [|? ? [Hnb Hv] Hrest]; subst. cbn [fst snd] in *.
    destruct (put_value_ok s v nb Hs Hnb Hv) as [Hb Hi].
    destruct (IH (bw_put_value s v nb) Hi Hrest) as [Hb2 Hi2].
    cbn [fold_left flat_map fst snd]. split; [|exact Hi2].
    rewrite Hb2, Hb, <- app_assoc. reflexivity.
Qed.

(* whole bytes in front of a bit stream come out unchanged *)
Lemma bits_bytes_app_bytes : forall B m t, Forall (fun b => b < 256) B ->
  bits_bytes (length B + m) (bytes_bits B ++ t) = B ++ bits_bytes m t.
Proof.
  induction B as [|b B IH]; intros m t Hwf; [reflexivity|].
  inversion Hwf as [|? ? Hb HB]; subst.
  cbn [length Nat.add bits_bytes bytes_bits flat_map app]. fold (bytes_bits B). rewrite <- app_assoc.
  rewrite firstn_app, byte_bits_length, Nat.sub_diag, firstn_O, app_nil_r, firstn_all2 by (rewrite byte_bits_length; lia).
  rewrite skipn_app, byte_bits_length, Nat.sub_diag, skipn_O, skipn_all2 by (rewrite byte_bits_length; lia).
  cbn [app]. unfold byte_bits at 1. rewrite val_bits by exact Hb. f_equal. apply IH, HB.
Qed.

(* M = S: any sequence of put_value calls followed by consume() *)
Theorem bitwriter_spec ops :
  Forall (fun p => snd p <= 64 /\ fst p < 2^(snd p)) ops -> bw_run ops = bw_run_spec ops.
Proof.
  intros Hops. unfold bw_run, bw_run_spec, bw_consume, bw_flush.
  assert (H0 : bw_inv bw_new). { unfold bw_inv, bw_new. cbn. repeat split; try lia. constructor. }
  destruct (fold_put_ok ops bw_new H0 Hops) as [Hb (Hoff & Hacc & Hwf)].
  set (s := fold_left (fun s p => bw_put_value s (fst p) (snd p)) ops bw_new) in *.
  set (bits := flat_map (fun p => bits_of (N.to_nat (snd p)) (fst p)) ops) in *.
  cbn [bw_rbuf]. rewrite rev_app_distr, rev_involutive.
  unfold bw_bits, bw_new in Hb. cbn [bw_rbuf bw_acc bw_off rev bytes_bits flat_map bits_of N.to_nat app] in Hb.
  rewrite <- Hb. unfold bits_to_bytes.
  set (B := rev (bw_rbuf s)). set (off := N.to_nat (bw_off s)).
  assert (HB : Forall (fun b => b < 256) B) by (apply Forall_rev, Hwf).
  rewrite app_length, bytes_bits_length, bits_of_length.
  replace ((8 * length B + off + 7) / 8)%nat with (length B + (off + 7) / 8)%nat
    by lia.
  rewrite bits_bytes_app_bytes by exact HB. f_equal.
  replace (N.to_nat ((bw_off s + 7) / 8)) with ((off + 7) / 8)%nat.
  2:{ unfold off. rewrite N2Nat.inj_div, N2Nat.inj_add. reflexivity. }
  unfold le_bytes. set (nbytes := ((off + 7) / 8)%nat).
  assert (Hle : (off <= 8 * nbytes)%nat) by (unfold nbytes; lia).
  replace (8 * nbytes)%nat with (off + (8 * nbytes - off))%nat by lia.
  rewrite bits_of_app. rewrite N.div_small by (unfold off; rewrite N2Nat.id; exact Hacc).
  rewrite bits_of_zero. apply bits_bytes_pad.
Qed.
