(* C05 — two's-complement wrapping at an abstract width: range + congruence => unique wrap. *)
From Coq Require Import List NArith ZArith Lia Bool ZifyN ZifyNat ZifyBool.
From AV Require Import Model.C05_Enc.
Import ListNotations.
Local Open Scope Z_scope.

Section Width.
Variable tw : N.
Hypothesis tw_pos : (0 < tw)%N.

Definition Mz : Z := Z.of_N (2^tw).
Definition Hz : Z := Z.of_N (2^(tw - 1)).

Lemma M_2H : Mz = 2 * Hz.
Proof.
  unfold Mz, Hz. replace tw with (N.succ (tw - 1)) at 1 by lia. rewrite N.pow_succ_r'. lia.
Qed.
Lemma H_pos : 0 < Hz.
Proof. unfold Hz. assert (2^(tw-1) <> 0)%N by (apply N.pow_nonzero; lia). lia. Qed.

Definition in_range (z : Z) : Prop := - Hz <= z < Hz.

Lemma to_unsigned_spec z : Z.of_N (to_unsigned tw z) = z mod Mz.
Proof.
  unfold to_unsigned. fold Mz. pose proof M_2H. pose proof H_pos.
  rewrite Z2N.id; [reflexivity|]. apply Z.mod_pos_bound. lia.
Qed.

Lemma to_signed_spec u : (u < 2^tw)%N ->
  to_signed tw u = if Z.of_N u <? Hz then Z.of_N u else Z.of_N u - Mz.
Proof.
  intros _. unfold to_signed. fold Mz. unfold Hz.
  destruct (N.ltb_spec u (2^(tw-1))); destruct (Z.ltb_spec (Z.of_N u) (Z.of_N (2^(tw-1)))); try reflexivity; lia.
Qed.

Lemma wrap_s_range z : in_range (wrap_s tw z).
Proof.
  unfold wrap_s, in_range. pose proof M_2H as HM. pose proof H_pos as HH.
  assert (Hb : (to_unsigned tw z < 2^tw)%N).
  { apply N2Z.inj_lt. rewrite to_unsigned_spec. fold Mz. apply Z.mod_pos_bound. lia. }
  rewrite to_signed_spec by exact Hb. rewrite to_unsigned_spec.
  pose proof (Z.mod_pos_bound z Mz ltac:(lia)).
  destruct (Z.ltb_spec (z mod Mz) Hz); lia.
Qed.

Lemma wrap_s_cong z : exists q, wrap_s tw z = z + q * Mz.
Proof.
  unfold wrap_s. pose proof M_2H as HM. pose proof H_pos as HH.
  assert (Hb : (to_unsigned tw z < 2^tw)%N).
  { apply N2Z.inj_lt. rewrite to_unsigned_spec. fold Mz. apply Z.mod_pos_bound. lia. }
  rewrite to_signed_spec by exact Hb. rewrite to_unsigned_spec.
  pose proof (Z.div_mod z Mz ltac:(lia)) as E.
  destruct (Z.ltb_spec (z mod Mz) Hz).
  - exists (- (z / Mz)). lia.
  - exists (- (z / Mz) - 1). lia.
Qed.

Lemma range_cong_unique x y q : in_range x -> in_range y -> x = y + q * Mz -> x = y.
Proof.
  unfold in_range. pose proof M_2H as HM. pose proof H_pos as HH. intros Hx Hy E.
  assert (q = 0) by nia. subst q. lia.
Qed.

Lemma wrap_s_unique z x : in_range x -> (exists q, x = z + q * Mz) -> wrap_s tw z = x.
Proof.
  intros Hx (q & E). destruct (wrap_s_cong z) as (q' & E').
  apply (range_cong_unique _ _ (q' - q)); [apply wrap_s_range|exact Hx|]. lia.
Qed.

Lemma wrap_s_id z : in_range z -> wrap_s tw z = z.
Proof. intros H. apply wrap_s_unique; [exact H|]. exists 0. lia. Qed.

Lemma wrap_s_add_l a b : wrap_s tw (wrap_s tw a + b) = wrap_s tw (a + b).
Proof.
  apply wrap_s_unique; [apply wrap_s_range|].
  destruct (wrap_s_cong (a + b)) as (q & E). destruct (wrap_s_cong a) as (q' & E').
  exists (q - q'). lia.
Qed.

Lemma wrap_s_add_r a b : wrap_s tw (a + wrap_s tw b) = wrap_s tw (a + b).
Proof. rewrite (Z.add_comm a), wrap_s_add_l. f_equal. lia. Qed.

Lemma wrap_s_eq a b q : a = b + q * Mz -> wrap_s tw a = wrap_s tw b.
Proof.
  intros E. apply wrap_s_unique; [apply wrap_s_range|]. destruct (wrap_s_cong b) as (q' & E'). exists (q' - q). lia.
Qed.

(* the difference of two in-range values, taken modulo 2^tw, is the exact difference when it is non-negative *)
Lemma to_unsigned_diff a b : in_range a -> in_range b -> b <= a ->
  Z.of_N (to_unsigned tw (a - b)) = a - b /\ (to_unsigned tw (a - b) < 2^tw)%N.
Proof.
  unfold in_range. pose proof M_2H as HM. pose proof H_pos as HH. intros Ha Hb Hle.
  rewrite to_unsigned_spec. rewrite Z.mod_small by lia. split; [reflexivity|].
  apply N2Z.inj_lt. rewrite to_unsigned_spec. fold Mz. rewrite Z.mod_small by lia. lia.
Qed.

(* ---- delta reconstruction ---- *)
Fixpoint recon (last : Z) (ds : list Z) : list Z :=
  match ds with [] => [] | d :: r => let v := wrap_s tw (last + d) in v :: recon v r end.

Lemma recon_deltas : forall vs prev, Forall in_range vs -> recon prev (deltas_of tw prev vs) = vs.
Proof.
  induction vs as [|v vs IH]; intros prev Hr; [reflexivity|].
  inversion Hr as [|? ? Hv Hvs]; subst. cbn [deltas_of recon].
  rewrite wrap_s_add_r. replace (prev + (v - prev)) with v by lia. rewrite wrap_s_id by exact Hv.
  f_equal. apply IH, Hvs.
Qed.

Lemma deltas_in_range : forall vs prev, Forall in_range (deltas_of tw prev vs).
Proof. induction vs as [|v vs IH]; intros prev; cbn [deltas_of]; constructor; [apply wrap_s_range|apply IH]. Qed.

Lemma deltas_length : forall vs prev, length (deltas_of tw prev vs) = length vs.
Proof. induction vs as [|v vs IH]; intros prev; cbn [deltas_of length]; [reflexivity|]. f_equal. apply IH. Qed.

Lemma last_cons {A} : forall (l : list A) x d, List.last (x :: l) d = List.last l x.
Proof.
  induction l as [|y l IH]; intros x d; [reflexivity|].
  change (List.last (x :: y :: l) d) with (List.last (y :: l) d). rewrite !IH. reflexivity.
Qed.

Lemma recon_app : forall a b last, recon last (a ++ b) = recon last a ++ recon (List.last (recon last a) last) b.
Proof.
  induction a as [|x a IH]; intros b last; [reflexivity|].
  cbn [app recon]. f_equal. rewrite IH. rewrite last_cons. reflexivity.
Qed.

Lemma recon_length : forall ds last, length (recon last ds) = length ds.
Proof. induction ds as [|d ds IH]; intros last; cbn [recon length]; [reflexivity|]. f_equal. apply IH. Qed.

Lemma recon_range : forall ds last, Forall in_range (recon last ds).
Proof. induction ds as [|d ds IH]; intros last; cbn [recon]; constructor; [apply wrap_s_range|apply IH]. Qed.

Lemma last_in_range l d : Forall in_range l -> in_range d -> in_range (List.last l d).
Proof.
  revert d; induction l as [|x l IH]; intros d Hl Hd; [exact Hd|].
  inversion Hl; subst. rewrite last_cons. apply IH; assumption.
Qed.

End Width.
