(* C13 — column combinators: the safe (unary_opt) and strict (try_unary) runs of the same per-value
   function agree row by row; strict fails exactly when a VALID slot fails; nulls stay null. *)
From Coq Require Import List ZArith Bool Lia.
From AV Require Import Model.C13_Num Model.C13_Decimal Model.C13_Cast.
Import ListNotations.
Local Open Scope Z_scope.

Lemma unary_opt_logical : forall f c,
  logical (unary_opt f c) = map (fun x => match x with Some v => f v | None => None end) (logical c).
Proof.
  intros f c. unfold logical, unary_opt. rewrite !map_map. apply map_ext.
  intros [b v]. cbn [fst snd]. destruct b; [destruct (f v)|]; reflexivity.
Qed.

Lemma try_unary_none : forall f c,
  try_unary f c = None <-> exists v, In (true, v) c /\ f v = None.
Proof.
  intros f c. induction c as [|[b v] r IH].
  - cbn. split; [discriminate|]. intros (v & [] & _).
  - cbn [try_unary]. destruct b.
    + destruct (f v) eqn:E.
      * destruct (try_unary f r) eqn:T.
        -- split; [discriminate|]. intros (v' & [H|H] & Hn).
           ++ inversion H; subst. congruence.
           ++ destruct IH as [_ IH]. discriminate IH. exists v'. split; assumption.
        -- split; [|reflexivity]. intros _. destruct IH as [IH _]. destruct (IH eq_refl) as (v' & Hi & Hn).
           exists v'. split; [right; assumption|assumption].
      * split; [|reflexivity]. intros _. exists v. split; [left; reflexivity|assumption].
    + destruct (try_unary f r) eqn:T.
      * split; [discriminate|]. intros (v' & [H|H] & Hn).
        -- inversion H.
        -- destruct IH as [_ IH]. discriminate IH. exists v'. split; assumption.
      * split; [|reflexivity]. intros _. destruct IH as [IH _]. destruct (IH eq_refl) as (v' & Hi & Hn).
        exists v'. split; [right; assumption|assumption].
Qed.

Lemma try_unary_some : forall f c r, try_unary f c = Some r -> r = unary_opt f c.
Proof.
  intros f c. induction c as [|[b v] t IH]; intros r H.
  - cbn in H. inversion H. reflexivity.
  - cbn [try_unary] in H. unfold unary_opt. cbn [map fst snd]. fold (unary_opt f t). destruct b.
    + destruct (f v) eqn:E; [|discriminate]. destruct (try_unary f t) eqn:T; [|discriminate].
      inversion H; subst. rewrite (IH l eq_refl). reflexivity.
    + destruct (try_unary f t) eqn:T; [|discriminate]. inversion H; subst. rewrite (IH l eq_refl). reflexivity.
Qed.

Theorem strict_safe_dual_cols : forall (f : Z -> option Z) (c : column),
  logical (unary_opt f c) = map (fun x => match x with Some v => f v | None => None end) (logical c)
  /\ (try_unary f c = None <-> exists v, In (true, v) c /\ f v = None)
  /\ (forall r, try_unary f c = Some r -> r = unary_opt f c).
Proof.
  intros f c. split; [apply unary_opt_logical|]. split; [apply try_unary_none|apply try_unary_some].
Qed.

Lemma unary_logical : forall g c, logical (unary g c) = spec_safe (fun v => Some (g v)) (logical c).
Proof.
  intros g c. unfold logical, unary, spec_safe. rewrite !map_map. apply map_ext.
  intros [b v]. cbn [fst snd]. destruct b; reflexivity.
Qed.

Theorem cast_strict_safe_dual : forall a b f c, value_fn (kernel_of a b) = Some f ->
  exists r, cast_model a b true c = ROk r
    /\ logical r = spec_safe f (logical c)
    /\ (cast_model a b false c = RErr <-> exists v, In (true, v) c /\ f v = None)
    /\ (forall r', cast_model a b false c = ROk r' -> logical r' = logical r).
Proof.
  intros a b f c Hk. unfold cast_model. destruct (kernel_of a b) as [f0|g| | | |]; cbn in Hk; try discriminate.
  - inversion Hk; subst f0. exists (unary_opt f c). cbn [run_kernel]. split; [reflexivity|]. split; [apply unary_opt_logical|]. split.
    + destruct (try_unary f c) eqn:T.
      * split; [discriminate|]. intros H. apply try_unary_none in H. congruence.
      * split; [intros _; apply try_unary_none; assumption|reflexivity].
    + intros r' H. destruct (try_unary f c) eqn:T; [|discriminate]. inversion H; subst. rewrite (try_unary_some _ _ _ T). reflexivity.
  - inversion Hk; subst f. exists (unary g c). cbn [run_kernel]. split; [reflexivity|]. split; [apply unary_logical|]. split.
    + split; [discriminate|]. intros (v & _ & H). discriminate.
    + intros r' H. inversion H. reflexivity.
Qed.

(* the specification-level statement, for any conversion *)
Theorem spec_strict_safe_dual : forall conv xs,
  (spec_strict conv xs = None <-> exists v, In (Some v) xs /\ conv v = None)
  /\ (forall ys, spec_strict conv xs = Some ys -> ys = spec_safe conv xs)
  /\ (forall i, nth_error xs i = Some None -> nth_error (spec_safe conv xs) i = Some None).
Proof.
  intros conv xs. unfold spec_strict. split; [|split].
  - destruct (spec_fails conv xs) eqn:E.
    + split; [|reflexivity]. intros _. unfold spec_fails in E. apply existsb_exists in E. destruct E as ([v|] & Hi & Hv); [|discriminate].
      exists v. split; [assumption|]. destruct (conv v); [discriminate|reflexivity].
    + split; [discriminate|]. intros (v & Hi & Hv). assert (spec_fails conv xs = true); [|congruence].
      unfold spec_fails. apply existsb_exists. exists (Some v). split; [assumption|]. rewrite Hv. reflexivity.
  - intros ys H. destruct (spec_fails conv xs); [discriminate|]. inversion H. reflexivity.
  - intros i H. unfold spec_safe. rewrite nth_error_map, H. reflexivity.
Qed.

(* M and S agree on a column whenever the per-value functions agree on the valid values *)
Lemma spec_safe_ext : forall f g xs, (forall v, In (Some v) xs -> f v = g v) -> spec_safe f xs = spec_safe g xs.
Proof.
  intros f g xs H. unfold spec_safe. apply map_ext_in. intros [v|] Hi; [apply H; assumption|reflexivity].
Qed.
Lemma spec_fails_ext : forall f g xs, (forall v, In (Some v) xs -> f v = g v) -> spec_fails f xs = spec_fails g xs.
Proof.
  intros f g xs H. unfold spec_fails. induction xs as [|x r IH]; [reflexivity|]. cbn [existsb].
  rewrite IH by (intros v Hv; apply H; right; assumption). destruct x as [v|]; [|reflexivity].
  rewrite (H v) by (left; reflexivity). reflexivity.
Qed.

Lemma in_logical : forall c v, In (Some v) (logical c) <-> In (true, v) c.
Proof.
  intros c v. unfold logical. rewrite in_map_iff. split.
  - intros ([b x] & E & Hi). cbn [fst snd] in E. destruct b; [|discriminate]. inversion E; subst. assumption.
  - intros Hi. exists (true, v). split; [reflexivity|assumption].
Qed.

Theorem cast_model_refines_spec : forall a b f conv safe c,
  value_fn (kernel_of a b) = Some f ->
  (forall v, In (true, v) c -> f v = conv v) ->
  match cast_model a b safe c with
  | ROk r => spec_cast conv safe (logical c) = Some (logical r)
  | RErr => spec_cast conv safe (logical c) = None
  | RPanic => False
  end.
Proof.
  intros a b f conv safe c Hk Hv.
  assert (Hv' : forall v, In (Some v) (logical c) -> f v = conv v) by (intros v Hi; apply Hv, in_logical; assumption).
  destruct (cast_strict_safe_dual a b f c Hk) as (r & Hs & Hl & He & Ho).
  unfold spec_cast. destruct safe.
  - rewrite Hs, Hl. f_equal. symmetry. apply spec_safe_ext. assumption.
  - unfold spec_strict. rewrite <- (spec_fails_ext f conv) by assumption. rewrite <- (spec_safe_ext f conv) by assumption.
    destruct (cast_model a b false c) as [r'| |] eqn:E.
    + assert (spec_fails f (logical c) = false) as ->.
      { destruct (spec_fails f (logical c)) eqn:F; [|reflexivity]. exfalso.
        unfold spec_fails in F. apply existsb_exists in F. destruct F as ([v|] & Hi & Hn); [|discriminate].
        assert (X : ROk r' = RErr); [|discriminate X]. apply He. exists v. split; [apply in_logical; assumption|].
        destruct (f v); [discriminate|reflexivity]. }
      rewrite (Ho r' eq_refl), Hl. reflexivity.
    + destruct He as [He _]. destruct (He eq_refl) as (v & Hi & Hn).
      assert (spec_fails f (logical c) = true) as ->; [|reflexivity].
      unfold spec_fails. apply existsb_exists. exists (Some v). split; [apply in_logical; assumption|]. rewrite Hn. reflexivity.
    + unfold cast_model in E. destruct (kernel_of a b) as [f0|g0| | | |]; cbn in Hk; try discriminate Hk; cbn in E.
      * destruct (try_unary f0 c); discriminate E.
      * discriminate E.
Qed.
