(* C06 — basic lemmas about the denotation of selector lists and the list-bool vocabulary. *)
From Coq Require Import List Arith Lia Bool.
From AV Require Import Model.C06_RowSel.
Import ListNotations.

Lemma dens_app a b : dens (a ++ b) = dens a ++ dens b.
Proof. unfold dens. apply flat_map_app. Qed.

Lemma dens_cons sk n l : dens ((sk, n) :: l) = repeat (negb sk) n ++ dens l.
Proof. reflexivity. Qed.

Lemma dens_nil : dens [] = [].
Proof. reflexivity. Qed.

Lemma dens_zero sk l : dens ((sk, 0) :: l) = dens l.
Proof. reflexivity. Qed.

Lemma dens_rev_cons sk n racc : dens (rev ((sk, n) :: racc)) = dens (rev racc) ++ repeat (negb sk) n.
Proof. cbn [rev]. rewrite dens_app, dens_cons, dens_nil, app_nil_r. reflexivity. Qed.

Lemma repeat_split {A} (x : A) n p : p <= n -> repeat x n = repeat x p ++ repeat x (n - p).
Proof. intros. rewrite <- repeat_app. f_equal. lia. Qed.

Lemma count_true_app a b : count_true (a ++ b) = count_true a + count_true b.
Proof. induction a as [|x a IH]; cbn [count_true app]; [|destruct x]; lia. Qed.

Lemma count_true_repeat b n : count_true (repeat b n) = if b then n else 0.
Proof. induction n as [|n IH]; cbn [count_true repeat]; destruct b; lia. Qed.

Lemma count_true_le l : count_true l <= length l.
Proof. induction l as [|b l IH]; cbn [count_true length]; [|destruct b]; lia. Qed.

Lemma sum_counts_cons sk n l : sum_counts ((sk, n) :: l) = n + sum_counts l.
Proof. reflexivity. Qed.

Lemma dens_length l : length (dens l) = sum_counts l.
Proof.
  induction l as [|[sk n] l IH]; [reflexivity|].
  rewrite dens_cons, app_length, repeat_length, sum_counts_cons, IH. reflexivity.
Qed.

Lemma existsb_repeat (b : bool) n : existsb (fun x => x) (repeat b n) = b && negb (n =? 0).
Proof. induction n as [|n IH]; cbn [repeat existsb]; [now rewrite andb_false_r|]. destruct b; [reflexivity|]. rewrite IH. reflexivity. Qed.
