(* C04 — re-based offsets and truncated buffers denote the same values. *)
From Coq Require Import List Arith ZArith Lia Bool.
From AV Require Import Base.ListX Model.C04_Rebase.
Import ListNotations.

Lemma skipn_add' {A} (l : list A) a b : skipn (a + b) l = skipn b (skipn a l).
Proof.
  revert l; induction a as [|a IH]; intros l; [reflexivity|].
  destruct l; cbn [Nat.add skipn]; [now rewrite skipn_nil|apply IH].
Qed.

Lemma nth_map_lt {A B} (f : A -> B) l k d d' : k < length l -> nth k (map f l) d = f (nth k l d').
Proof. intros Hk. rewrite (nth_indep _ d (f d')) by (rewrite map_length; exact Hk). apply map_nth. Qed.

Lemma monotone_nth prev l : monotone prev l ->
  forall i j, i <= j -> j < length l -> (prev <= nth i l 0 /\ nth i l 0 <= nth j l 0)%Z.
Proof.
  revert prev. induction l as [|x r IH]; intros prev Hm i j Hij Hj; [cbn in Hj; lia|].
  cbn [monotone] in Hm. destruct Hm as [Hpx Hr]. cbn [length] in Hj.
  destruct i as [|i], j as [|j]; cbn [nth]; try lia.
  - destruct (IH x Hr 0 j) as [H1 H2]; [lia|lia|]. lia.
  - destruct (IH x Hr i j) as [H1 H2]; [lia|lia|]. lia.
Qed.

Lemma nth_slice (offs : list Z) off len k : k <= len -> off + len + 1 <= length offs ->
  nth k (firstn (len + 1) (skipn off offs)) 0%Z = nth (off + k) offs 0%Z.
Proof. intros Hk Hl. rewrite nth_firstn' by lia. apply nth_skipn'. Qed.

Lemma last_nth {A} (l : list A) d : last l d = nth (length l - 1) l d.
Proof.
  induction l as [|x [|y r] IH]; [reflexivity|reflexivity|].
  change (last (x :: y :: r) d) with (last (y :: r) d). rewrite IH. cbn [length]. 
  replace (S (S (length r)) - 1) with (S (S (length r) - 1)) by lia. reflexivity.
Qed.

(* the i-th re-based offset is the original one minus the first *)
Lemma reencode_nth offs off len k : k <= len -> off + len + 1 <= length offs ->
  let '(o', start, n) := reencode_offsets offs off len in
  nth k o' 0%Z = (nth (off + k) offs 0 - nth off offs 0)%Z /\
  start = Z.to_nat (nth off offs 0%Z) /\ n = Z.to_nat (nth (off + len) offs 0 - nth off offs 0)%Z /\
  length o' = len + 1.
Proof.
  intros Hk Hl. unfold reencode_offsets. cbv zeta.
  set (sl := firstn (len + 1) (skipn off offs)).
  assert (Hlen : length sl = len + 1) by (unfold sl; rewrite firstn_length, skipn_length; lia).
  assert (Hhd : hd 0%Z sl = nth off offs 0%Z).
  { replace (hd 0%Z sl) with (nth 0 sl 0%Z) by (destruct sl; reflexivity). unfold sl. rewrite nth_slice by lia. f_equal. lia. }
  assert (Hlast : last sl 0%Z = nth (off + len) offs 0%Z).
  { rewrite last_nth, Hlen. replace (len + 1 - 1) with len by lia. unfold sl. now rewrite nth_slice by lia. }
  rewrite Hhd, Hlast. repeat split.
  - destruct (Z.eqb_spec (nth off offs 0%Z) 0) as [E|E].
    + unfold sl. rewrite nth_slice by lia. lia.
    + assert (Hk' : k < length sl) by lia.
      rewrite (nth_map_lt _ sl k 0%Z 0%Z Hk'). unfold sl. now rewrite nth_slice by lia.
  - destruct (Z.eqb (nth off offs 0%Z) 0); [exact Hlen|now rewrite map_length].
Qed.

(* Re-basing preserves every slot: slot i of the written (offsets, values) is slot off+i of the original
   array, for every valid offsets buffer (non-negative, non-decreasing, within the values), every
   array offset and length, including a non-zero first offset. *)
Theorem rebase_logical_slots {A} (offs : list Z) (values : list A) (off len i : nat) :
  monotone 0 offs -> off + len + 1 <= length offs ->
  (nth (off + len) offs 0 <= Z.of_nat (length values))%Z -> i < len ->
  let '(o', v') := rebase offs values off len in
  var_slot o' v' i = var_slot offs values (off + i) /\ length o' = len + 1 /\ nth 0 o' 0%Z = 0%Z.
Proof.
  intros Hm Hl Hv Hi. unfold rebase.
  destruct (Nat.eqb_spec len 0) as [E|E]; [lia|].
  pose proof (reencode_nth offs off len i ltac:(lia) Hl) as H1.
  pose proof (reencode_nth offs off len (S i) ltac:(lia) Hl) as H2.
  pose proof (reencode_nth offs off len 0 ltac:(lia) Hl) as H0.
  destruct (reencode_offsets offs off len) as [[o' start] n].
  destruct H1 as (Ei & Es & En & Elen). destruct H2 as (Ei1 & _). destruct H0 as (E0 & _).
  destruct (monotone_nth 0 offs Hm off (off + i)) as [Ha Hb]; [lia|lia|].
  destruct (monotone_nth 0 offs Hm (off + i) (off + S i)) as [_ Hc]; [lia|lia|].
  destruct (monotone_nth 0 offs Hm (off + S i) (off + len)) as [_ Hd]; [lia|lia|].
  split; [|split; [exact Elen|rewrite E0; replace (off + 0) with off by lia; lia]].
  unfold var_slot. cbv zeta. rewrite Ei, Ei1. replace (S (off + i)) with (off + S i) by lia.
  set (a := nth off offs 0%Z) in *. set (b := nth (off + i) offs 0%Z) in *.
  set (c := nth (off + S i) offs 0%Z) in *. set (d := nth (off + len) offs 0%Z) in *.
  subst start n.
  rewrite skipn_firstn_comm, firstn_firstn, <- skipn_add'.
  replace (Z.to_nat a + Z.to_nat (b - a)) with (Z.to_nat b) by lia.
  f_equal. lia.
Qed.

(* fixed-width truncation keeps exactly the addressed elements *)
Theorem truncate_fixed_slots (b : list N) (w off len i : nat) :
  (off + len) * w <= length b -> i < len ->
  fixed_slot (truncate_fixed b w off len) w i = fixed_slot b w (off + i).
Proof.
  intros Hl Hi. unfold truncate_fixed, fixed_slot. cbv zeta.
  destruct (negb (off =? 0) || (len * w <? length b)) eqn:E.
  - rewrite skipn_firstn_comm, firstn_firstn, <- skipn_add'.
    replace (off * w + i * w) with ((off + i) * w) by lia. f_equal. nia.
  - apply orb_false_iff in E. destruct E as [E1 _]. apply negb_false_iff, Nat.eqb_eq in E1. subst. reflexivity.
Qed.
