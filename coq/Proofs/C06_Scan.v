(* C06 — scan_ranges never prunes a page that holds a selected row. *)
From Coq Require Import List Arith Lia Bool.
From AV Require Import Model.C06_RowSel Proofs.C06_Basics Proofs.C06_Construct.
Import ListNotations.

Lemma nth_repeat_app {A} (x d : A) c rest j :
  nth j (repeat x c ++ rest) d = if j <? c then x else nth (j - c) rest d.
Proof.
  destruct (Nat.ltb_spec j c) as [Hlt|Hge].
  - rewrite app_nth1 by (rewrite repeat_length; exact Hlt).
    rewrite (nth_indep _ d x) by (rewrite repeat_length; exact Hlt). apply nth_repeat.
  - rewrite app_nth2 by (rewrite repeat_length; exact Hge). now rewrite repeat_length.
Qed.

(* invariant of the scan loop: a selected row of the remaining selectors lies in a page that is
   pushed later, or in the current page when that has already been pushed *)
Lemma scan_go_cover fuel : forall sels pages row_offset incl j p,
  length sels + length pages < fuel ->
  nth j (dens sels) false = true ->
  page_of pages (row_offset + j) = Some p ->
  In p (scan_go fuel sels pages row_offset incl)
  \/ (incl = true /\ exists f rest, pages = (p, f) :: rest).
Proof.
  induction fuel as [|fuel IH]; intros sels pages row_offset incl j p Hf Hsel Hpage; [lia|].
  cbn [scan_go].
  destruct sels as [|[sk c] sels']; [destruct j; discriminate|].
  destruct pages as [|[pi pf] pages']; [discriminate|].
  cbn [length] in Hf. rewrite dens_cons, nth_repeat_app in Hsel.
  (* a selected row inside the current selector forces the current page to be pushed *)
  assert (Hcur : j < c -> sk = false) by (intros Hj; apply Nat.ltb_lt in Hj; rewrite Hj in Hsel; now destruct sk).
  assert (Hemit : sk = false -> p = pi ->
            forall tl, In p ((if negb (sk || incl) then [pi] else []) ++ tl) \/ (incl = true /\ exists f rest, (pi, pf) :: pages' = (p, f) :: rest)).
  { intros -> -> tl. destruct incl; cbn [orb negb]; [right; split; [reflexivity|eauto]|left; now left]. }
  assert (Hlater : forall tl, In p tl \/ (incl || negb (sk || incl) = true /\ p = pi) ->
            In p ((if negb (sk || incl) then [pi] else []) ++ tl) \/ (incl = true /\ exists f rest, (pi, pf) :: pages' = (p, f) :: rest)).
  { intros tl [Hin|[Hi ->]]; [left; apply in_or_app; now right|].
    destruct incl; [right; split; [reflexivity|eauto]|]. cbn [orb] in Hi. rewrite Hi. left. now left. }
  cbn [page_of] in Hpage.
  destruct pages' as [|[ni nf] pages''].
  - (* last page: every remaining row belongs to it *)
    inversion Hpage; subst p.
    destruct (Nat.ltb_spec j c) as [Hj|Hj]; [now apply Hemit; auto|].
    apply Hlater.
    destruct (IH sels' [(pi, pf)] row_offset (incl || negb (sk || incl)) (j - c) pi) as [Hin|[Hi _]];
      [cbn [length] in *; lia|exact Hsel|reflexivity|now left|right; now split].
  - destruct (Nat.ltb_spec nf (row_offset + c)) as [Hcross|Hnocross].
    + (* the selector runs past the end of the current page *)
      destruct (Nat.ltb_spec (row_offset + j) nf) as [Hin|Hout].
      * inversion Hpage; subst p. apply Hemit; [apply Hcur; lia|reflexivity].
      * apply Hlater. left.
        destruct (IH ((sk, c - (nf - row_offset)) :: sels') ((ni, nf) :: pages'') (row_offset + (nf - row_offset)) false
                     (j - (nf - row_offset)) p) as [Hi|[Hi _]]; [cbn [length] in *; lia| | |exact Hi|discriminate].
        -- rewrite dens_cons, nth_repeat_app.
           destruct (Nat.ltb_spec j c) as [Hj|Hj].
           ++ destruct (Nat.ltb_spec (j - (nf - row_offset)) (c - (nf - row_offset))); [exact Hsel|lia].
           ++ destruct (Nat.ltb_spec (j - (nf - row_offset)) (c - (nf - row_offset))); [lia|].
              replace (j - (nf - row_offset) - (c - (nf - row_offset))) with (j - c) by lia. exact Hsel.
        -- replace (row_offset + (nf - row_offset) + (j - (nf - row_offset))) with (row_offset + j) by lia.
           exact Hpage.
    + destruct (Nat.eqb_spec (row_offset + c) nf) as [Heq|Hneq].
      * (* the selector ends exactly at the page boundary *)
        destruct (Nat.ltb_spec (row_offset + j) nf) as [Hin|Hout].
        -- inversion Hpage; subst p. apply Hemit; [apply Hcur; lia|reflexivity].
        -- apply Hlater. left.
           destruct (Nat.ltb_spec j c) as [Hj|Hj]; [lia|].
           destruct (IH sels' ((ni, nf) :: pages'') (row_offset + c) false (j - c) p) as [Hi|[Hi _]];
             [cbn [length] in *; lia|exact Hsel| |exact Hi|discriminate].
           replace (row_offset + c + (j - c)) with (row_offset + j) by lia. exact Hpage.
      * (* the selector ends inside the current page *)
        destruct (Nat.ltb_spec j c) as [Hj|Hj].
        -- destruct (Nat.ltb_spec (row_offset + j) nf) as [Hin|Hout]; [|lia].
           inversion Hpage; subst p. apply Hemit; [now apply Hcur|reflexivity].
        -- apply Hlater.
           destruct (IH sels' ((pi, pf) :: (ni, nf) :: pages'') (row_offset + c) (incl || negb (sk || incl)) (j - c) p)
             as [Hi|[Hi (f & rest & Hp)]]; [cbn [length] in *; lia|exact Hsel| |now left|].
           ++ replace (row_offset + c + (j - c)) with (row_offset + j) by lia. cbn [page_of]. exact Hpage.
           ++ right. split; [exact Hi|]. now inversion Hp.
Qed.

Theorem scan_ranges_cover s first_rows i p :
  nth i (den s) false = true ->
  page_of (combine (seq 0 (length first_rows)) first_rows) i = Some p ->
  In p (scan_ranges s first_rows).
Proof.
  intros Hsel Hpage. unfold scan_ranges.
  assert (Hd : dens (selectors_of s) = den s).
  { destruct s as [l|m]; [reflexivity|apply mask_to_selectors_dens]. }
  rewrite <- Hd in Hsel.
  destruct (scan_go_cover (length (selectors_of s) + length first_rows + 1) (selectors_of s)
              (combine (seq 0 (length first_rows)) first_rows) 0 false i p) as [H|[H _]];
    [rewrite combine_length, seq_length; lia|exact Hsel|exact Hpage|exact H|discriminate].
Qed.

Example scan_ranges_cover_example :
  nth 6 (den (Sels [(true, 5); (false, 3); (true, 4)])) false = true
  /\ page_of (combine (seq 0 3) [0; 4; 9]) 6 = Some 1
  /\ scan_ranges (Sels [(true, 5); (false, 3); (true, 4)]) [0; 4; 9] = [1].
Proof. repeat split. Qed.
