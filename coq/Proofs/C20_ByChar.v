(* C20 — substring_by_char: the byte offsets computed by ascii_bounds / utf8_bounds delimit exactly
   the requested characters. *)
From Coq Require Import List NArith ZArith Arith Lia Bool.
From AV Require Import Base.ListX Base.Utf8 Model.C20_Like Model.C20_Substr Proofs.C20_Utf8 Proofs.C20_Layout Proofs.C20_Substr.
Import ListNotations.

(* byte offset of every character *)
Fixpoint cum (s : list N) (o : nat) : list nat :=
  match s with [] => [] | c :: r => o :: cum r (o + length (encode c)) end.

Lemma char_starts_conts t u o : Forall (fun b => cont b = true) t ->
  char_starts (t ++ u) o = char_starts u (o + length t).
Proof.
  intros F. revert o. induction F as [|b t Hb _ IH]; intros o; cbn [app char_starts length].
  - now rewrite Nat.add_0_r.
  - rewrite Hb, IH. f_equal. lia.
Qed.

Lemma char_starts_utf8 s : forall o, char_starts (utf8 s) o = cum s o.
Proof.
  induction s as [|c r IH]; intros o; [reflexivity|].
  rewrite utf8_cons. destruct (encode_shape c) as (b0 & t & Ec & Hb & Ht). rewrite Ec.
  cbn [app char_starts cum]. rewrite Hb, (char_starts_conts t (utf8 r) (S o) Ht), IH, Ec.
  cbn [length]. do 2 f_equal. lia.
Qed.

Lemma cum_length s : forall o, length (cum s o) = length s.
Proof. induction s as [|c r IH]; intros o; cbn; [reflexivity|]. now rewrite IH. Qed.

Lemma nth_cum s : forall o k d, k < length s -> nth k (cum s o) d = o + blen (firstn k s).
Proof.
  induction s as [|c r IH]; intros o k d L; [cbn in L; lia|].
  destruct k as [|k]; cbn [cum nth firstn].
  - unfold blen. cbn. lia.
  - rewrite IH by (cbn in L; lia). rewrite blen_cons. lia.
Qed.

Lemma len_le_blen s : length s <= blen s.
Proof.
  induction s as [|c r IH]; [unfold blen; cbn; lia|]. rewrite blen_cons. pose proof (encode_len_pos c). cbn [length]. lia.
Qed.

Lemma firstn_add_skipn {A} (s : list A) a k : firstn (a + k) s = firstn a s ++ firstn k (skipn a s).
Proof.
  revert s. induction a as [|a IH]; intros s; [reflexivity|].
  destruct s as [|x s]; [cbn [Nat.add firstn skipn app]; now rewrite firstn_nil|]. cbn [Nat.add firstn skipn app]. now rewrite IH.
Qed.

Lemma skipn_blen_utf8 s a : skipn (blen (firstn a s)) (utf8 s) = utf8 (skipn a s).
Proof.
  rewrite <- (firstn_skipn a s) at 2. rewrite utf8_app. unfold blen.
  rewrite skipn_app, skipn_all, Nat.sub_diag. reflexivity.
Qed.

(* characters [a, b) of s occupy bytes [blen (first a), blen (first b)) *)
Lemma utf8_slice s a b : a <= b ->
  slice (utf8 s) (blen (firstn a s)) (blen (firstn b s)) = utf8 (slice s a b).
Proof.
  intros L. unfold slice at 2.
  assert (E : s = firstn a s ++ firstn (b - a) (skipn a s) ++ skipn b s).
  { rewrite app_assoc, <- firstn_add_skipn. replace (a + (b - a)) with b by lia. now rewrite firstn_skipn. }
  assert (Eb : firstn b s = firstn a s ++ firstn (b - a) (skipn a s)).
  { rewrite <- firstn_add_skipn. f_equal. lia. }
  rewrite Eb, blen_app. rewrite E at 1. rewrite !utf8_app. apply slice_app_mid.
Qed.

Lemma slice_ascii s a b : is_ascii s = true -> is_ascii (slice s a b) = true.
Proof.
  unfold is_ascii, slice. rewrite !forallb_forall, <- !Forall_forall. intros H.
  apply Forall_firstn', Forall_skipn'. exact H.
Qed.

Lemma nth_z_nat z l d : (0 <= z)%Z -> nth_z z l d = nth (Z.to_nat z) l d.
Proof.
  intros Hz. unfold nth_z. destruct (Z.ltb_spec z (Z.of_nat (length l))); [reflexivity|].
  symmetry. apply nth_overflow. lia.
Qed.

Section ByChar.
Variables (s : list N) (start : Z) (len : option Z).
Hypothesis Hlen : (match len with Some k => 0 <= k | None => True end)%Z.
Let n := Z.of_nat (length s).
Let a := if (0 <=? start)%Z then Z.min start n else Z.max (n + start) 0.
Let b := match len with Some k => Z.min (a + k) n | None => n end.

Lemma ab_range : (0 <= a <= b)%Z /\ (b <= n)%Z.
Proof. subst a b n. destruct (Z.leb_spec 0 start), len; lia. Qed.

Lemma utf8_bounds_spec :
  utf8_bounds (utf8 s) start len = (blen (firstn (Z.to_nat a) s), blen (firstn (Z.to_nat b) s)).
Proof.
  pose proof ab_range as (Ha & Hb). unfold utf8_bounds. change (length (utf8 s)) with (blen s).
  rewrite char_starts_utf8.
  assert (Eso : (if (0 <=? start)%Z then nth_z start (cum s 0) (blen s) else nth_z (- start - 1) (rev (cum s 0)) 0)
                = blen (firstn (Z.to_nat a) s)).
  { subst a. destruct (Z.leb_spec 0 start) as [Hs|Hs].
    - unfold nth_z. rewrite cum_length. fold n. destruct (Z.ltb_spec start n) as [Lt|Ge].
      + rewrite nth_cum by (subst n; lia). cbn [Nat.add]. do 3 f_equal. lia.
      + replace (Z.to_nat (Z.min start n)) with (length s) by (subst n; lia). now rewrite firstn_all.
    - unfold nth_z. rewrite rev_length, cum_length. fold n. destruct (Z.ltb_spec (- start - 1) n) as [Lt|Ge].
      + rewrite rev_nth by (rewrite cum_length; subst n; lia). rewrite cum_length, nth_cum by (subst n; lia).
        cbn [Nat.add]. do 2 f_equal. subst n. lia.
      + replace (Z.to_nat (Z.max (n + start) 0)) with 0 by lia. reflexivity. }
  rewrite Eso. clear Eso. f_equal.
  set (an := Z.to_nat a). subst b. destruct len as [k|].
  - rewrite skipn_blen_utf8, char_starts_utf8.
    assert (Hr : blen s = blen (firstn an s) + blen (skipn an s)) by (rewrite <- blen_app; now rewrite firstn_skipn).
    assert (Hl : length (skipn an s) = length s - an) by apply skipn_length.
    pose proof (len_le_blen (skipn an s)) as Hle.
    destruct (Z.leb_spec (Z.of_nat (blen s - blen (firstn an s))) k) as [Le|Gt].
    + replace (Z.to_nat (Z.min (a + k) n)) with (length s) by (subst n an; lia). now rewrite firstn_all.
    + unfold nth_z. rewrite cum_length, Hl. destruct (Z.ltb_spec k (Z.of_nat (length s - an))) as [Lt|Ge].
      * rewrite nth_cum by lia. rewrite <- blen_app, <- firstn_add_skipn. do 2 f_equal. subst n an. lia.
      * replace (Z.to_nat (Z.min (a + k) n)) with (length s) by (subst n an; lia). now rewrite firstn_all.
  - subst n. now rewrite Nat2Z.id, firstn_all.
Qed.

Theorem substring_by_char_thm asc : (asc = true -> is_ascii s = true) ->
  substring_by_char_m asc (utf8 s) start len = utf8 (substring_by_char_spec s start len).
Proof.
  intros Hasc. pose proof ab_range as (Ha & Hb). unfold substring_by_char_m, substring_by_char_spec. fold n a b.
  destruct asc.
  - specialize (Hasc eq_refl). rewrite (utf8_ascii s Hasc). unfold ascii_bounds. fold n a b.
    symmetry. apply utf8_ascii. now apply slice_ascii.
  - rewrite utf8_bounds_spec. apply utf8_slice. lia.
Qed.
End ByChar.
