(* C11 — the pre-computed row length (padded_length) is exactly the encoded length. *)
From Coq Require Import List Arith NArith ZArith Lia Bool.
From AV Require Import Base.ListX Model.C11_Row Proofs.C11_Lex Proofs.C11_Var.
Import ListNotations.

Notation CONT := BLOCK_CONTINUATION.

Lemma ceil_small n B : (1 <= n)%nat -> (n <= B)%nat -> ceil n B = 1%nat.
Proof.
  intros H1 H2. unfold ceil. destruct (Nat.eq_dec n B) as [->|Hne].
  - rewrite Nat.div_same, Nat.mod_same by lia. reflexivity.
  - rewrite Nat.div_small, Nat.mod_small by lia. destruct (Nat.eqb_spec n 0); [lia|reflexivity].
Qed.

Lemma ceil_step n B : (0 < B)%nat -> (B < n)%nat -> ceil n B = S (ceil (n - B) B).
Proof.
  intros HB Hn. unfold ceil. replace n with ((n - B) + 1 * B)%nat at 1 2 by lia.
  rewrite Nat.div_add, Nat.mod_add by lia. lia.
Qed.

Lemma blk_length' k c (v : list N) : (length v <= k)%nat -> length (blk k c v) = S k.
Proof. intros H. unfold blk. rewrite !app_length, repeat_length. cbn [length]. lia. Qed.

Lemma sblocks_const_length B : (0 < B)%nat -> forall f st (v : list N), v <> [] -> (length v <= f)%nat ->
  length (sblocks CONT (fun _ => B) f st v) = (ceil (length v) B * (B + 1))%nat.
Proof.
  intros HB. induction f as [|f IH]; intros st v Nv Hl.
  - destruct v; [congruence|cbn [length] in Hl; lia].
  - cbn [sblocks]. destruct (Nat.leb_spec (length v) B) as [L|L].
    + rewrite blk_length' by exact L. rewrite ceil_small; [lia| |exact L].
      destruct v; [congruence|cbn [length]; lia].
    + rewrite !app_length, firstn_length. cbn [length].
      rewrite IH; [|apply skipn_nonempty; lia | rewrite skipn_length; lia].
      rewrite skipn_length. rewrite (ceil_step (length v) B) by lia. lia.
Qed.

Lemma set_last_length (l : list N) x : l <> [] -> length (set_last l x) = length l.
Proof.
  intros Nl. unfold set_last. rewrite app_length. cbn [length].
  destruct (exists_last Nl) as (l' & a & ->). rewrite removelast_last, app_length. cbn [length]. lia.
Qed.

Lemma encode_blocks_length B (v : list N) : (0 < B)%nat -> v <> [] ->
  length (encode_blocks B v) = (ceil (length v) B * (B + 1))%nat.
Proof. intros HB Nv. rewrite (encode_blocks_sblocks B 0 v HB Nv). apply sblocks_const_length; [exact HB | exact Nv | lia]. Qed.

Theorem encode_one_length o (v : option (list N)) :
  length (encode_one o v) = padded_length (option_map (@length N) v).
Proof.
  destruct v as [v|]; [|reflexivity]. cbn [option_map padded_length].
  destruct v as [|p v]; [reflexivity|].
  set (b := p :: v). assert (Nb : b <> []) by discriminate.
  change (encode_one o (Some b)) with (inv_if (descending o) (encode_nonempty b)).
  assert (El : length (inv_if (descending o) (encode_nonempty b)) = length (encode_nonempty b))
    by (destruct (descending o); [apply invert_length | reflexivity]).
  rewrite El. unfold encode_nonempty, non_null_padded_length.
  assert (HM : (0 < MINI_BLOCK_SIZE)%nat) by (unfold MINI_BLOCK_SIZE; lia).
  assert (HB : (0 < BLOCK_SIZE)%nat) by (unfold BLOCK_SIZE; lia).
  destruct (Nat.leb_spec (length b) BLOCK_SIZE) as [L|L].
  - cbn [length]. rewrite encode_blocks_length by assumption. reflexivity.
  - cbn [length]. rewrite app_length.
    assert (Hf : length (firstn BLOCK_SIZE b) = BLOCK_SIZE) by (rewrite firstn_length; lia).
    assert (Nf : firstn BLOCK_SIZE b <> []) by (intros E; rewrite E in Hf; cbn [length] in Hf; lia).
    assert (Ns : skipn BLOCK_SIZE b <> []) by (apply skipn_nonempty; lia).
    rewrite set_last_length.
    2:{ rewrite (encode_blocks_sblocks MINI_BLOCK_SIZE 0 _ HM Nf). apply sblocks_nonempty. lia. }
    rewrite !encode_blocks_length by assumption.
    rewrite Hf, skipn_length. rewrite (ceil_step (length b) BLOCK_SIZE) by lia.
    change (ceil BLOCK_SIZE MINI_BLOCK_SIZE) with MINI_BLOCK_COUNT.
    unfold MINI_BLOCK_COUNT, MINI_BLOCK_SIZE, BLOCK_SIZE. lia.
Qed.
