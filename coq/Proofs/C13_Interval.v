(* C13 — interval casts: Interval(MonthDayNano) -> Duration is defined exactly on the intervals without a
   calendar part (months = 0 and days = 0), in BOTH modes (strict errs iff safe nulls a valid row);
   Duration -> Interval -> Duration is the identity. *)
From Coq Require Import List ZArith Bool Lia.
From AV Require Import Model.C13_Num Model.C13_Interval Proofs.C13_Col Proofs.C13_Columns.
Import ListNotations.
Local Open Scope Z_scope.

Lemma mdn_unpack : forall m d n, - 2 ^ 31 <= d < 2 ^ 31 -> - 2 ^ 63 <= n < 2 ^ 63 ->
  mdn_months (pack_mdn m d n) = m /\ mdn_days (pack_mdn m d n) = d /\ mdn_nanos (pack_mdn m d n) = n.
Proof.
  intros m d n Hd Hn. unfold mdn_months, mdn_days, mdn_nanos, pack_mdn.
  change (2 ^ 96) with 79228162514264337593543950336 in *.
  change (2 ^ 64) with 18446744073709551616 in *.
  change (2 ^ 63) with 9223372036854775808 in *.
  change (2 ^ 32) with 4294967296 in *.
  change (2 ^ 31) with 2147483648 in *.
  set (v := m * 79228162514264337593543950336 + (d + 2147483648) * 18446744073709551616 + (n + 9223372036854775808)).
  assert (E64 : v / 18446744073709551616 = m * 4294967296 + (d + 2147483648)).
  { symmetry. apply Z.div_unique with (r := n + 9223372036854775808); subst v; lia. }
  split; [|split].
  - symmetry. apply Z.div_unique with (r := (d + 2147483648) * 18446744073709551616 + (n + 9223372036854775808)); subst v; lia.
  - rewrite E64. assert (M : (m * 4294967296 + (d + 2147483648)) mod 4294967296 = d + 2147483648).
    { symmetry. apply Z.mod_unique with (q := m); lia. }
    rewrite M. lia.
  - assert (M : v mod 18446744073709551616 = n + 9223372036854775808).
    { symmetry. apply Z.mod_unique with (q := m * 4294967296 + (d + 2147483648)); subst v; lia. }
    rewrite M. lia.
Qed.

Theorem mdn_to_dur_exact : forall u m d n, - 2 ^ 31 <= d < 2 ^ 31 -> - 2 ^ 63 <= n < 2 ^ 63 ->
  mdn_to_dur u (pack_mdn m d n) = if (m =? 0) && (d =? 0) then Some (Z.quot n (dur_scale u)) else None.
Proof.
  intros u m d n Hd Hn. unfold mdn_to_dur. destruct (mdn_unpack m d n Hd Hn) as (E1 & E2 & E3).
  rewrite E1, E2, E3. destruct (d =? 0), (m =? 0); reflexivity.
Qed.

Lemma dur_scale_pos : forall u, 0 < dur_scale u.
Proof. intros u. unfold dur_scale. destruct (u =? 0); [lia|]. destruct (u =? 1); [lia|]. destruct (u =? 2); lia. Qed.

Theorem dur_mdn_roundtrip : forall u v w, dur_to_mdn u v = Some w -> mdn_to_dur u w = Some v.
Proof.
  intros u v w H. unfold dur_to_mdn, checked_mul in H. cbv zeta in H.
  destruct (fits 64 true (v * dur_scale u)) eqn:F; [|discriminate]. inversion H; subst w.
  unfold fits, imin, imax in F. apply andb_true_iff in F. destruct F as [L U]. apply Z.leb_le in L, U.
  change (2 ^ (64 - 1)) with (2 ^ 63) in L, U.
  rewrite mdn_to_dur_exact by (change (2 ^ 31) with 2147483648; lia).
  cbn [Z.eqb andb]. pose proof (dur_scale_pos u). rewrite Z.quot_mul by lia. reflexivity.
Qed.

(* every modelled interval cast, whole column, either mode: the kernel run IS the specification cast
   (strict: error iff some VALID row is not representable; safe: null exactly there; rows under a
   null never matter) *)
Theorem interval_cast_refines : forall kind u conv safe c, interval_conv kind u = Some conv ->
  refines (run_kernel (interval_kernel kind u) safe c) conv safe c.
Proof.
  intros kind u conv safe c H. unfold interval_conv in H. unfold interval_kernel.
  destruct (kind =? 0).
  - inversion H; subst conv. apply (run_kernel_refines_fn _ (mdn_to_dur u)); [reflexivity|].
    intros v _. unfold mdn_to_dur. destruct (mdn_days v =? 0), (mdn_months v =? 0); reflexivity.
  - destruct (kind =? 1).
    + inversion H; subst conv. apply (run_kernel_refines_fn _ (dur_to_mdn u)); [reflexivity|].
      intros v _. unfold dur_to_mdn, checked_mul. cbv zeta. destruct (fits 64 true (v * dur_scale u)); reflexivity.
    + destruct (kind =? 2).
      * inversion H; subst conv. apply (run_kernel_refines_fn _ (fun v => Some (ym_to_mdn v))); [reflexivity|]. reflexivity.
      * destruct (kind =? 3).
        -- inversion H; subst conv. apply (run_kernel_refines_fn _ (fun v => Some (dt_to_mdn v))); [reflexivity|]. reflexivity.
        -- destruct (kind =? 4); [|discriminate].
           inversion H; subst conv. apply (run_kernel_refines_fn _ (fun v => Some v)); [reflexivity|]. reflexivity.
Qed.

(* ---- text form: the hours / mins / secs / sub-second fields printed for the time part of an interval are
   the canonical decomposition of the count (every lower field stays below its carry bound) *)
Theorem hms_decomposition : forall U v, 0 < U ->
  v = ((hms_hours U v * 60 + hms_mins U v) * 60 + hms_secs U v) * U + hms_sub U v
  /\ Z.abs (hms_mins U v) < 60 /\ Z.abs (hms_secs U v) < 60 /\ Z.abs (hms_sub U v) < U.
Proof.
  intros U v HU. unfold hms_mins, hms_secs, hms_sub, hms_hours.
  set (s0 := Z.quot v U). set (m0 := Z.quot s0 60). set (h := Z.quot m0 60).
  pose proof (Z.quot_rem' v U) as E1. fold s0 in E1.
  pose proof (Z.quot_rem' s0 60) as E2. fold m0 in E2.
  pose proof (Z.quot_rem' m0 60) as E3. fold h in E3.
  pose proof (Z.rem_bound_abs v U ltac:(lia)) as B1.
  pose proof (Z.rem_bound_abs s0 60 ltac:(lia)) as B2.
  pose proof (Z.rem_bound_abs m0 60 ltac:(lia)) as B3.
  clearbody s0 m0 h.
  split; [transitivity (U * s0 + Z.rem v U); [exact E1|ring]|].
  repeat split; lia.
Qed.

Theorem hms_nonneg : forall U v, 0 < U -> 0 <= v ->
  0 <= hms_hours U v /\ 0 <= hms_mins U v /\ 0 <= hms_secs U v /\ 0 <= hms_sub U v.
Proof.
  intros U v HU Hv. unfold hms_mins, hms_secs, hms_sub, hms_hours.
  set (s0 := Z.quot v U). set (m0 := Z.quot s0 60). set (h := Z.quot m0 60).
  assert (S0 : 0 <= s0) by (apply Z.quot_pos; lia).
  assert (M0 : 0 <= m0) by (apply Z.quot_pos; lia).
  assert (H0 : 0 <= h) by (apply Z.quot_pos; lia).
  pose proof (Z.quot_rem' s0 60) as E2. fold m0 in E2.
  pose proof (Z.quot_rem' m0 60) as E3. fold h in E3.
  pose proof (Z.rem_nonneg s0 60 ltac:(lia) S0). pose proof (Z.rem_nonneg m0 60 ltac:(lia) M0).
  pose proof (Z.rem_nonneg v U ltac:(lia) Hv).
  repeat split; lia.
Qed.
