(* C11 — the variable-length block encoding (variable.rs): strong order preservation for every
   length, and the link between the Rust-shaped encoder (mini blocks, then 32-byte blocks, with
   the overwritten continuation byte) and a staged recursive form. *)
From Coq Require Import List Arith NArith ZArith Lia Bool.
From AV Require Import Base.ListX Model.C11_Row Proofs.C11_Lex.
Import ListNotations.
Local Open Scope N_scope.

(* ------------------------------------------------------------------ one padded block *)
Lemma lex_zeros_marker k w c m y x : c < m -> (length w <= k)%nat ->
  lex (repeat 0 k ++ c :: x) (w ++ repeat 0 (k - length w) ++ m :: y) = Lt.
Proof.
  revert w; induction k as [|k IH]; intros w Hm Hl.
  - destruct w; cbn [length] in *; [|lia]. cbn [repeat app Nat.sub]. now apply lex_cons_lt.
  - destruct w as [|q w]; cbn [length] in *.
    + specialize (IH [] Hm ltac:(cbn [length]; lia)). cbn [app length] in IH. rewrite Nat.sub_0_r in IH.
      cbn [repeat app Nat.sub]. rewrite lex_cons_same. exact IH.
    + cbn [repeat app Nat.sub]. destruct (N.eq_dec q 0) as [->|Hq].
      * rewrite lex_cons_same. apply IH; [assumption|lia].
      * apply lex_cons_lt. lia.
Qed.

(* block of capacity k: data, zero padding, then the marker c + |v| *)
Definition blk (k c : nat) (v : list N) : list N :=
  v ++ repeat 0 (k - length v) ++ [N.of_nat (c + length v)].

Lemma blk_strong k : forall c v w x y, (length v <= k)%nat -> (length w <= k)%nat ->
  lex (blk k c v ++ x) (blk k c w ++ y) = match lex v w with Eq => lex x y | r => r end.
Proof.
  induction k as [|k IH]; intros c v w x y Hv Hw.
  - destruct v, w; cbn [length] in *; try lia. unfold blk; cbn [app repeat length Nat.sub].
    now rewrite lex_cons_same.
  - destruct v as [|p v], w as [|q w].
    + unfold blk. rewrite <- !app_assoc. cbn [app length]. rewrite Nat.sub_0_r.
      rewrite lex_app_same. cbn [app lex]. now rewrite N.compare_refl.
    + unfold blk. rewrite <- !app_assoc. cbn [app length lex]. rewrite Nat.sub_0_r.
      change (lex (repeat 0 (S k) ++ N.of_nat (c + 0) :: x)
                  ((q :: w) ++ repeat 0 (S k - length (q :: w)) ++ N.of_nat (c + length (q :: w)) :: y) = Lt).
      apply lex_zeros_marker; cbn [length] in *; lia.
    + unfold blk. rewrite <- !app_assoc. rewrite lex_opp. cbn [app length lex]. rewrite Nat.sub_0_r.
      change (CompOpp (lex (repeat 0 (S k) ++ N.of_nat (c + 0) :: y)
                  ((p :: v) ++ repeat 0 (S k - length (p :: v)) ++ N.of_nat (c + length (p :: v)) :: x)) = Gt).
      rewrite lex_zeros_marker by (cbn [length] in *; lia). reflexivity.
    + unfold blk. cbn [length app lex Nat.sub].
      destruct (N.compare p q); try reflexivity.
      replace (c + S (length v))%nat with (S c + length v)%nat by lia.
      replace (c + S (length w))%nat with (S c + length w)%nat by lia.
      apply (IH (S c) v w x y); cbn [length] in *; lia.
Qed.

Lemma lex_firstn_skipn n v w : (n <= length v)%nat -> (n <= length w)%nat ->
  lex v w = match lex (firstn n v) (firstn n w) with Eq => lex (skipn n v) (skipn n w) | c => c end.
Proof.
  intros Hv Hw. rewrite <- (firstn_skipn n v) at 1. rewrite <- (firstn_skipn n w) at 1.
  apply lex_app_same_len. rewrite !firstn_length. lia.
Qed.

Section Blocks.
Variable CONT : N.

(* a short final block of v against a full (continued) block of a longer w *)
Lemma short_vs_long k : forall v w1 w2 x y m, (length v <= k)%nat -> length w1 = k -> w2 <> [] -> m < CONT ->
  lex (v ++ repeat 0 (k - length v) ++ m :: x) (w1 ++ CONT :: y) = lex v (w1 ++ w2)
  /\ lex v (w1 ++ w2) <> Eq.
Proof.
  induction k as [|k IH]; intros v w1 w2 x y m Hv Hw1 Hw2 Hm.
  - destruct v; [|cbn [length] in Hv; lia]. destruct w1; [|discriminate]. cbn [app length repeat Nat.sub].
    destruct w2; [congruence|]. cbn [lex]. apply N.compare_lt_iff in Hm as ->. split; [reflexivity|discriminate].
  - destruct w1 as [|q w1]; [discriminate|]. injection Hw1 as Hw1.
    destruct v as [|p v].
    + cbn [app length Nat.sub repeat lex]. destruct (N.eq_dec q 0) as [->|Hq].
      * rewrite N.compare_refl.
        destruct (IH [] w1 w2 x y m ltac:(cbn [length]; lia) Hw1 Hw2 Hm) as [E _].
        cbn [app length] in E. rewrite Nat.sub_0_r in E. rewrite E.
        destruct (w1 ++ w2) eqn:Ew; [|split; [reflexivity|discriminate]].
        apply app_eq_nil in Ew as [_ ?]; congruence.
      * assert (Hlt : 0 < q) by lia. apply N.compare_lt_iff in Hlt as ->. split; [reflexivity|discriminate].
    + cbn [app length lex]. replace (S k - S (length v))%nat with (k - length v)%nat by lia.
      destruct (N.compare p q); try (split; [reflexivity|discriminate]).
      apply IH; cbn [length] in *; try assumption; lia.
Qed.

(* staged recursive form of the encoding: block size [sched s] at stage s *)
Variable sched : nat -> nat.
Hypothesis sched_pos : forall s, (0 < sched s)%nat.
Hypothesis sched_lt : forall s, N.of_nat (sched s) < CONT.

Fixpoint sblocks (fuel stage : nat) (v : list N) : list N :=
  match fuel with
  | O => []
  | S f =>
    let B := sched stage in
    if (length v <=? B)%nat then blk B 0 v
    else firstn B v ++ [CONT] ++ sblocks f (S stage) (skipn B v)
  end.

Lemma skipn_nonempty {A} n (v : list A) : (n < length v)%nat -> skipn n v <> [].
Proof. intros H E. apply (f_equal (@length A)) in E. rewrite skipn_length in E. cbn [length] in E. lia. Qed.

Theorem sblocks_strong : forall fuel stage v w x y,
  (length v <= fuel)%nat -> (length w <= fuel)%nat -> v <> [] -> w <> [] ->
  lex (sblocks fuel stage v ++ x) (sblocks fuel stage w ++ y) = match lex v w with Eq => lex x y | c => c end.
Proof.
  induction fuel as [|fuel IH]; intros stage v w x y Hv Hw Nv Nw.
  - destruct v; [congruence|cbn [length] in Hv; lia].
  - cbn [sblocks]. pose proof (sched_pos stage) as HB. pose proof (sched_lt stage) as HC.
    set (B := sched stage) in *.
    destruct (Nat.leb_spec (length v) B) as [Lv|Lv], (Nat.leb_spec (length w) B) as [Lw|Lw].
    + apply blk_strong; assumption.
    + unfold blk. rewrite <- !app_assoc. cbn [app Nat.add].
      destruct (short_vs_long B v (firstn B w) (skipn B w) x (sblocks fuel (S stage) (skipn B w) ++ y) (N.of_nat (length v)))
        as [E NE]; try assumption; try lia.
      * rewrite firstn_length. lia.
      * apply skipn_nonempty. lia.
      * rewrite (firstn_skipn B w) in E, NE. rewrite E. destruct (lex v w); [congruence|reflexivity|reflexivity].
    + rewrite lex_opp. rewrite (lex_opp w v).
      unfold blk. rewrite <- !app_assoc. cbn [app Nat.add].
      destruct (short_vs_long B w (firstn B v) (skipn B v) y (sblocks fuel (S stage) (skipn B v) ++ x) (N.of_nat (length w)))
        as [E NE]; try assumption; try lia.
      * rewrite firstn_length. lia.
      * apply skipn_nonempty. lia.
      * rewrite (firstn_skipn B v) in E, NE. rewrite E. destruct (lex w v); [congruence|reflexivity|reflexivity].
    + rewrite <- !app_assoc.
      rewrite lex_app_same_len by (rewrite !firstn_length; lia).
      rewrite (lex_firstn_skipn B v w) by lia.
      destruct (lex (firstn B v) (firstn B w)); try reflexivity.
      cbn [app]. rewrite lex_cons_same.
      apply IH; try (rewrite skipn_length; lia); apply skipn_nonempty; lia.
Qed.

(* fuel irrelevance *)
Lemma sblocks_fuel : forall f1 f2 stage v, (length v <= f1)%nat -> (length v <= f2)%nat -> v <> [] ->
  sblocks f1 stage v = sblocks f2 stage v.
Proof.
  induction f1 as [|f1 IH]; intros f2 stage v H1 H2 Nv.
  - destruct v; [congruence|cbn [length] in H1; lia].
  - destruct f2 as [|f2]; [destruct v; [congruence|cbn [length] in H2; lia]|].
    cbn [sblocks]. pose proof (sched_pos stage).
    destruct (Nat.leb_spec (length v) (sched stage)); [reflexivity|].
    f_equal. f_equal. apply IH; try (rewrite skipn_length; lia). apply skipn_nonempty. lia.
Qed.

Lemma sblocks_wf : forall fuel stage v, CONT < 256 -> wf_bytes v -> wf_bytes (sblocks fuel stage v).
Proof.
  induction fuel as [|fuel IH]; intros stage v HC Wv; cbn [sblocks]; [constructor|].
  pose proof (sched_lt stage).
  destruct (Nat.leb_spec (length v) (sched stage)) as [L|L].
  - unfold blk. apply Forall_app; split; [exact Wv|]. apply Forall_app; split.
    + apply Forall_forall. intros z Hz. apply repeat_spec in Hz. subst z. unfold wf_byte. lia.
    + constructor; [|constructor]. unfold wf_byte. cbn [Nat.add]. lia.
  - apply Forall_app; split; [apply Forall_firstn'; exact Wv|].
    constructor; [exact HC|]. apply IH; [exact HC|]. apply Forall_skipn'; exact Wv.
Qed.

End Blocks.

(* ------------------------------------------------------------------ the Rust-shaped encoder *)
Notation CONT := BLOCK_CONTINUATION.

Lemma set_last_snoc l a x : set_last (l ++ [a]) x = l ++ [x].
Proof. unfold set_last. now rewrite removelast_last. Qed.

Lemma set_last_app a b x : b <> [] -> set_last (a ++ b) x = a ++ set_last b x.
Proof. intros Hb. unfold set_last. rewrite removelast_app by exact Hb. now rewrite app_assoc. Qed.

Definition body (chunks : list (list N)) : list N := flat_map (fun c => c ++ [CONT]) chunks.
Definition finish (size : nat) (chunks : list (list N)) (rem : list N) : list N :=
  match rem with
  | [] => set_last (body chunks) (N.of_nat size)
  | _ => body chunks ++ rem ++ repeat 0 (size - length rem) ++ [N.of_nat (length rem)]
  end.

Lemma encode_blocks_finish size v :
  encode_blocks size v = finish size (fst (chunks_exact (length v) size v)) (snd (chunks_exact (length v) size v)).
Proof. unfold encode_blocks, finish, body. destruct (chunks_exact (length v) size v) as [c r]. reflexivity. Qed.

Lemma chunks_exact_nil_l fuel size v r : chunks_exact fuel size v = ([], r) -> r = v.
Proof.
  destruct fuel as [|f]; cbn [chunks_exact]; [congruence|].
  destruct (size <=? length v)%nat; [|congruence].
  destruct (chunks_exact f size (skipn size v)). discriminate.
Qed.

Lemma sblocks_nonempty C sched fuel st v : (0 < fuel)%nat -> sblocks C sched fuel st v <> [].
Proof.
  destruct fuel as [|f]; [lia|]. intros _. cbn [sblocks].
  destruct (length v <=? sched st)%nat.
  - unfold blk. intros E. apply app_eq_nil in E as [_ E]. apply app_eq_nil in E as [_ E]. discriminate.
  - intros E. apply app_eq_nil in E as [_ E]. discriminate.
Qed.

(* encode_blocks::<SIZE> is the staged form with a constant schedule *)
Lemma finish_sblocks size : (0 < size)%nat -> forall fuel st v, (length v <= fuel)%nat -> v <> [] ->
  finish size (fst (chunks_exact fuel size v)) (snd (chunks_exact fuel size v)) = sblocks CONT (fun _ => size) fuel st v.
Proof.
  intros Hs. induction fuel as [|f IH]; intros st v Hl Nv.
  - destruct v; [congruence|cbn [length] in Hl; lia].
  - cbn [chunks_exact sblocks].
    destruct (Nat.leb_spec size (length v)) as [Hge|Hlt].
    + destruct (Nat.leb_spec (length v) size) as [Hle|Hgt].
      * (* exactly one full chunk, no remainder *)
        assert (El : length v = size) by lia.
        assert (Es : skipn size v = []) by (apply skipn_all2; lia).
        rewrite Es.
        assert (Ec : chunks_exact f size [] = ([], [])).
        { destruct f; cbn [chunks_exact length]; [reflexivity|]. destruct (Nat.leb_spec size 0); [lia|reflexivity]. }
        rewrite Ec. cbn [fst snd finish body flat_map]. rewrite app_nil_r, set_last_snoc.
        rewrite firstn_all2 by lia. unfold blk. rewrite El, Nat.sub_diag. reflexivity.
      * (* a full chunk followed by more data *)
        assert (Nr : skipn size v <> []) by (apply skipn_nonempty; lia).
        assert (Hlr : (length (skipn size v) <= f)%nat) by (rewrite skipn_length; lia).
        specialize (IH (S st) (skipn size v) Hlr Nr).
        destruct (chunks_exact f size (skipn size v)) as [c r] eqn:Ech. cbn [fst snd] in *.
        rewrite <- IH. unfold finish. destruct r as [|r0 r].
        -- assert (Nc : c <> []).
           { intros ->. apply chunks_exact_nil_l in Ech. congruence. }
           cbn [body flat_map]. fold (body c).
           rewrite set_last_app; [now rewrite <- app_assoc|].
           destruct c as [|c0 c]; [congruence|]. cbn [body flat_map]. rewrite <- app_assoc.
           intros E. apply app_eq_nil in E as [_ E]. discriminate.
        -- cbn [body flat_map]. fold (body c). now rewrite <- !app_assoc.
    + (* only a remainder *)
      destruct (Nat.leb_spec (length v) size) as [Hle|Hgt]; [|lia].
      cbn [fst snd]. unfold finish, blk. destruct v as [|v0 v]; [congruence|]. reflexivity.
Qed.

Lemma encode_blocks_sblocks size st v : (0 < size)%nat -> v <> [] ->
  encode_blocks size v = sblocks CONT (fun _ => size) (length v) st v.
Proof. intros Hs Nv. rewrite encode_blocks_finish. now apply finish_sblocks. Qed.

(* the schedule of encode_one: MINI_BLOCK_COUNT mini blocks, then full blocks *)
Definition sched (s : nat) : nat := if (s <? MINI_BLOCK_COUNT)%nat then MINI_BLOCK_SIZE else BLOCK_SIZE.

Lemma sched_pos s : (0 < sched s)%nat.
Proof. unfold sched, MINI_BLOCK_SIZE, BLOCK_SIZE. destruct (s <? MINI_BLOCK_COUNT)%nat; lia. Qed.

Lemma sched_lt s : N.of_nat (sched s) < CONT.
Proof. unfold sched, MINI_BLOCK_SIZE, BLOCK_SIZE, CONT. destruct (s <? MINI_BLOCK_COUNT)%nat; lia. Qed.

(* while the remaining data fits the remaining mini blocks, the schedule is the constant mini one *)
Lemma sblocks_mini : forall fuel st st0 v, v <> [] ->
  (length v <= MINI_BLOCK_SIZE * (MINI_BLOCK_COUNT - st))%nat ->
  sblocks CONT (fun _ => MINI_BLOCK_SIZE) fuel st0 v = sblocks CONT sched fuel st v.
Proof.
  induction fuel as [|f IH]; intros st st0 v Nv Hl; [reflexivity|].
  cbn [sblocks].
  assert (Hst : (st < MINI_BLOCK_COUNT)%nat).
  { destruct v; [congruence|]. cbn [length] in Hl. destruct (Nat.lt_ge_cases st MINI_BLOCK_COUNT); [assumption|].
    replace (MINI_BLOCK_COUNT - st)%nat with 0%nat in Hl by lia. lia. }
  assert (Es : sched st = MINI_BLOCK_SIZE).
  { unfold sched. destruct (Nat.ltb_spec st MINI_BLOCK_COUNT); [reflexivity|lia]. }
  rewrite Es.
  destruct (Nat.leb_spec (length v) MINI_BLOCK_SIZE) as [L|L]; [reflexivity|].
  f_equal. f_equal. apply IH; [apply skipn_nonempty; lia|].
  rewrite skipn_length. replace (MINI_BLOCK_COUNT - st)%nat with (S (MINI_BLOCK_COUNT - S st)) in Hl by lia. lia.
Qed.

(* after the mini blocks the schedule is the constant full-block one *)
Lemma sblocks_full : forall fuel st st0 v, (MINI_BLOCK_COUNT <= st)%nat ->
  sblocks CONT (fun _ => BLOCK_SIZE) fuel st0 v = sblocks CONT sched fuel st v.
Proof.
  induction fuel as [|f IH]; intros st st0 v Hst; [reflexivity|].
  cbn [sblocks].
  assert (Es : sched st = BLOCK_SIZE).
  { unfold sched. destruct (Nat.ltb_spec st MINI_BLOCK_COUNT); [lia|reflexivity]. }
  rewrite Es. destruct (length v <=? BLOCK_SIZE)%nat; [reflexivity|].
  f_equal. f_equal. apply IH. lia.
Qed.

(* k full mini blocks followed by more data: the overwritten last length byte is the continuation *)
Lemma sblocks_prefix : forall k f1 f2 st st0 u rest,
  (1 <= k)%nat -> length u = (k * MINI_BLOCK_SIZE)%nat -> rest <> [] ->
  (st + k <= MINI_BLOCK_COUNT)%nat -> (length u <= f1)%nat -> (k <= f2)%nat ->
  sblocks CONT sched (f2 + length rest) st (u ++ rest)
  = set_last (sblocks CONT (fun _ => MINI_BLOCK_SIZE) f1 st0 u) CONT ++ sblocks CONT sched (f2 - k + length rest) (st + k) rest.
Proof.
  induction k as [|k IH]; intros f1 f2 st st0 u rest Hk Hu Nr Hst Hf1 Hf2; [lia|].
  assert (HM : (0 < MINI_BLOCK_SIZE)%nat) by (unfold MINI_BLOCK_SIZE; lia).
  assert (Es : sched st = MINI_BLOCK_SIZE).
  { unfold sched. destruct (Nat.ltb_spec st MINI_BLOCK_COUNT); [reflexivity|lia]. }
  destruct f2 as [|f2]; [lia|]. destruct f1 as [|f1]; [cbn [Nat.mul Nat.add] in Hu; lia|].
  cbn [Nat.add sblocks]. rewrite Es.
  assert (Lr : (0 < length rest)%nat) by (destruct rest; [congruence|cbn [length]; lia]).
  destruct (Nat.leb_spec (length (u ++ rest)) MINI_BLOCK_SIZE) as [L|L]; [rewrite app_length in L; cbn [Nat.mul Nat.add] in Hu; lia|].
  destruct k as [|k].
  - (* last mini block of the prefix *)
    assert (Hu1 : length u = MINI_BLOCK_SIZE) by (cbn [Nat.mul Nat.add] in Hu; lia).
    rewrite firstn_app, skipn_app, Hu1, Nat.sub_diag. cbn [firstn skipn]. rewrite app_nil_r.
    rewrite <- Hu1, firstn_all, skipn_all. cbn [app].
    destruct (Nat.leb_spec (length u) (length u)) as [_|]; [|lia].
    unfold blk. rewrite Nat.sub_diag. cbn [repeat app Nat.add].
    rewrite set_last_snoc, <- app_assoc. cbn [app].
    replace (S f2 - 1 + length rest)%nat with (f2 + length rest)%nat by lia.
    replace (st + 1)%nat with (S st) by lia. reflexivity.
  - assert (Hlu : (MINI_BLOCK_SIZE < length u)%nat) by (cbn [Nat.mul Nat.add] in Hu; lia).
    destruct (Nat.leb_spec (length u) MINI_BLOCK_SIZE) as [L'|_]; [lia|].
    rewrite firstn_app, skipn_app.
    replace (MINI_BLOCK_SIZE - length u)%nat with 0%nat by lia. cbn [firstn skipn]. rewrite app_nil_r.
    rewrite (IH f1 f2 (S st) (S st0) (skipn MINI_BLOCK_SIZE u) rest); try assumption; try lia.
    + rewrite (set_last_app (firstn MINI_BLOCK_SIZE u)).
      2:{ intros E. apply app_eq_nil in E as [E _]. discriminate. }
      rewrite (set_last_app [CONT]).
      2:{ apply sblocks_nonempty. cbn [Nat.mul Nat.add] in Hu. lia. }
      rewrite <- !app_assoc.
      replace (S f2 - S (S k))%nat with (f2 - S k)%nat by lia.
      replace (S st + S k)%nat with (st + S (S k))%nat by lia. reflexivity.
    + rewrite skipn_length. cbn [Nat.mul Nat.add] in *. lia.
    + rewrite skipn_length. lia.
Qed.

(* encode_one's non-empty arm is the staged encoding behind the non-empty sentinel *)
Theorem encode_nonempty_sblocks v : v <> [] ->
  encode_nonempty v = NON_EMPTY_SENTINEL :: sblocks CONT sched (length v) 0 v.
Proof.
  intros Nv. unfold encode_nonempty.
  assert (HM : (0 < MINI_BLOCK_SIZE)%nat) by (unfold MINI_BLOCK_SIZE; lia).
  assert (HB : (0 < BLOCK_SIZE)%nat) by (unfold BLOCK_SIZE; lia).
  assert (E32 : (MINI_BLOCK_COUNT * MINI_BLOCK_SIZE = BLOCK_SIZE)%nat) by reflexivity.
  destruct (Nat.leb_spec (length v) BLOCK_SIZE) as [L|L].
  - f_equal. rewrite (encode_blocks_sblocks MINI_BLOCK_SIZE 0 v HM Nv).
    apply sblocks_mini; [exact Nv|]. rewrite Nat.sub_0_r, Nat.mul_comm, E32. exact L.
  - f_equal.
    set (u := firstn BLOCK_SIZE v). set (rest := skipn BLOCK_SIZE v).
    assert (Hu : length u = BLOCK_SIZE) by (subst u; rewrite firstn_length; lia).
    assert (Nr : rest <> []) by (subst rest; apply skipn_nonempty; lia).
    assert (Nu : u <> []) by (intros E; rewrite E in Hu; cbn [length] in Hu; lia).
    assert (Ev : v = u ++ rest) by (subst u rest; symmetry; apply firstn_skipn).
    assert (Elen : length v = (BLOCK_SIZE + length rest)%nat) by (rewrite Ev at 1; rewrite app_length; lia).
    replace (sblocks CONT sched (length v) 0 v) with (sblocks CONT sched (BLOCK_SIZE + length rest) 0 (u ++ rest))
      by (rewrite <- Ev, <- Elen; reflexivity).
    rewrite (sblocks_prefix MINI_BLOCK_COUNT (length u) BLOCK_SIZE 0 0 u rest);
      try assumption; try (unfold MINI_BLOCK_COUNT, BLOCK_SIZE; lia); try lia.
    rewrite <- (encode_blocks_sblocks MINI_BLOCK_SIZE 0 u HM Nu).
    f_equal.
    rewrite <- (sblocks_full _ _ 0) by (cbn; lia).
    rewrite (encode_blocks_sblocks BLOCK_SIZE 0 rest HB Nr).
    apply sblocks_fuel; try lia; try assumption.
Qed.

Lemma encode_nonempty_wf v : v <> [] -> wf_bytes v -> wf_bytes (encode_nonempty v).
Proof.
  intros Nv Wv. rewrite encode_nonempty_sblocks by exact Nv.
  constructor; [unfold wf_byte, NON_EMPTY_SENTINEL; lia|].
  apply sblocks_wf; [apply sched_lt | unfold CONT; lia | exact Wv].
Qed.

(* ------------------------------------------------------------------ variable-length values are strong *)
(* the ascending encoding of a non-null value: [1] for empty, 2 :: blocks otherwise *)
Definition var_body (v : list N) : list N :=
  match v with [] => [EMPTY_SENTINEL] | _ => encode_nonempty v end.

Theorem var_body_strong : strong (fun _ => True) var_body lex.
Proof.
  intros v w x y _ _. unfold var_body.
  destruct v as [|p v], w as [|q w].
  - cbn [app lex]. now rewrite N.compare_refl.
  - rewrite encode_nonempty_sblocks by discriminate. reflexivity.
  - rewrite encode_nonempty_sblocks by discriminate. reflexivity.
  - rewrite !encode_nonempty_sblocks by discriminate. cbn [app]. rewrite lex_cons_same.
    set (a := p :: v). set (b := q :: w).
    rewrite (sblocks_fuel CONT sched sched_pos (length a) (Nat.max (length a) (length b)) 0 a) by (try lia; discriminate).
    rewrite (sblocks_fuel CONT sched sched_pos (length b) (Nat.max (length a) (length b)) 0 b) by (try lia; discriminate).
    apply (sblocks_strong CONT sched sched_pos sched_lt); try lia; discriminate.
Qed.

Lemma var_body_wf v : wf_bytes v -> wf_bytes (var_body v).
Proof.
  intros Wv. destruct v as [|p v].
  - constructor; [unfold wf_byte, EMPTY_SENTINEL; lia|constructor].
  - apply encode_nonempty_wf; [discriminate|exact Wv].
Qed.

Lemma var_body_head v : exists h t, var_body v = h :: t /\ 0 < h < 255.
Proof.
  destruct v as [|p v].
  - exists EMPTY_SENTINEL, []. split; [reflexivity|unfold EMPTY_SENTINEL; lia].
  - unfold var_body. rewrite encode_nonempty_sblocks by discriminate.
    eexists _, _. split; [reflexivity|unfold NON_EMPTY_SENTINEL; lia].
Qed.

Lemma encode_one_some o v : encode_one o (Some v) = inv_if (descending o) (var_body v).
Proof.
  unfold encode_one, var_body, encode_empty. destruct v as [|p v]; [|reflexivity].
  destruct (descending o); reflexivity.
Qed.
