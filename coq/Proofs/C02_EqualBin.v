(* C02 — arrow-data's variable_sized_equal (Binary / LargeBinary / Utf8 / LargeUtf8): the null-free
   path (lengths_equal with its first-offset-zero shortcut, then ONE comparison of the two value
   windows at their own start offsets) and the per-slot path decide exactly the equality of the
   logical columns, for any first offsets, any padding of the value buffers and any payload under nulls. *)
From Coq Require Import List Arith NArith ZArith Bool Lia.
From AV Require Import Base.ListX Base.Bits Base.Bytes Model.C19_Bits Model.C09_Layout Model.C02_Logical Model.C02_Equal.
From AV Require Import Proofs.C02_EqualNulls Proofs.C02_EqualPrim.
Import ListNotations.

(* ------------------------------------------------------------------ windows of a buffer cut by monotone offsets *)
Lemma mono_le (f : nat -> nat) n : (forall i, i < n -> f i <= f (S i)) -> forall i j, i <= j -> j <= n -> f i <= f j.
Proof.
  intros Hm i j Hij Hj. induction j as [|j IH]; [replace i with 0 by lia; lia|].
  destruct (Nat.eq_dec i (S j)) as [->|]; [lia|]. specialize (IH ltac:(lia) ltac:(lia)). specialize (Hm j ltac:(lia)). lia.
Qed.


Section Windows.
  Context {A : Type}.
  Variables (l r : list A) (fa fb : nat -> nat).

  Lemma diffs_sum n : (forall i, i < n -> fa i <= fa (S i)) -> (forall i, i < n -> fb i <= fb (S i)) ->
    (forall i, i < n -> fa (S i) - fa i = fb (S i) - fb i) -> fa n - fa 0 = fb n - fb 0.
  Proof.
    induction n as [|n IH]; intros Ha Hb Hd; [lia|].
    specialize (IH ltac:(intros; apply Ha; lia) ltac:(intros; apply Hb; lia) ltac:(intros; apply Hd; lia)).
    pose proof (mono_le fa n ltac:(intros; apply Ha; lia) 0 n ltac:(lia) ltac:(lia)).
    pose proof (mono_le fb n ltac:(intros; apply Hb; lia) 0 n ltac:(lia) ltac:(lia)).
    specialize (Ha n ltac:(lia)). specialize (Hb n ltac:(lia)). specialize (Hd n ltac:(lia)). lia.
  Qed.

  Lemma window_split (x : list A) (f : nat -> nat) n : f 0 <= f n -> f n <= f (S n) ->
    firstn (f (S n) - f 0) (skipn (f 0) x) = firstn (f n - f 0) (skipn (f 0) x) ++ firstn (f (S n) - f n) (skipn (f n) x).
  Proof.
    intros H0 H1. replace (f (S n) - f 0) with ((f n - f 0) + (f (S n) - f n)) by lia.
    rewrite firstn_plus, skipn_plus. f_equal. f_equal. f_equal. lia.
  Qed.

  Lemma windows_eq n :
    (forall i, i < n -> fa i <= fa (S i)) -> (forall i, i < n -> fb i <= fb (S i)) -> fa n <= length l -> fb n <= length r ->
    (((forall i, i < n -> fa (S i) - fa i = fb (S i) - fb i) /\
      firstn (fa n - fa 0) (skipn (fa 0) l) = firstn (fb n - fb 0) (skipn (fb 0) r))
     <-> forall i, i < n -> firstn (fa (S i) - fa i) (skipn (fa i) l) = firstn (fb (S i) - fb i) (skipn (fb i) r)).
  Proof.
    induction n as [|n IH]; intros Ha Hb Hla Hlb.
    - rewrite !Nat.sub_diag. cbn [firstn]. split; [intros _ i Hi; lia | intros _; split; [intros i Hi; lia | reflexivity]].
    - pose proof (mono_le fa (S n) Ha) as Ma. pose proof (mono_le fb (S n) Hb) as Mb.
      assert (Ha' : forall i, i < n -> fa i <= fa (S i)) by (intros; apply Ha; lia).
      assert (Hb' : forall i, i < n -> fb i <= fb (S i)) by (intros; apply Hb; lia).
      pose proof (Ma 0 n ltac:(lia) ltac:(lia)). pose proof (Mb 0 n ltac:(lia) ltac:(lia)).
      pose proof (Ha n ltac:(lia)). pose proof (Hb n ltac:(lia)).
      specialize (IH Ha' Hb' ltac:(lia) ltac:(lia)).
      rewrite (window_split l fa n), (window_split r fb n) by lia.
      split.
      + intros [Hd Hw].
        assert (Hsum : fa n - fa 0 = fb n - fb 0) by (apply diffs_sum; auto; intros; apply Hd; lia).
        apply app_eq_len in Hw; [|rewrite !firstn_skipn_length; lia].
        destruct Hw as [Hw Hs].
        intros i Hi. destruct (Nat.eq_dec i n) as [->|Hne]; [exact Hs|].
        apply (proj1 IH); [split; [intros; apply Hd; lia | exact Hw] | lia].
      + intros Hs.
        assert (Hd : forall i, i < S n -> fa (S i) - fa i = fb (S i) - fb i).
        { intros i Hi. specialize (Hs i Hi). apply (f_equal (@length _)) in Hs.
          pose proof (Ma (S i) (S n) ltac:(lia) ltac:(lia)). pose proof (Mb (S i) (S n) ltac:(lia) ltac:(lia)).
          pose proof (Ha i Hi). pose proof (Hb i Hi).
          rewrite !firstn_skipn_length in Hs by lia. exact Hs. }
        split; [exact Hd|].
        destruct (proj2 IH ltac:(intros; apply Hs; lia)) as [_ Hw].
        rewrite Hw, (Hs n ltac:(lia)). reflexivity.
  Qed.
End Windows.

(* ------------------------------------------------------------------ offsets of a well-formed binary array *)
Lemma monotone_from_facts l : forall p, monotone_from p l = true ->
  (forall i, i < length l -> (p <= nth i l 0)%Z) /\ (forall i, S i < length l -> (nth i l 0 <= nth (S i) l 0)%Z).
Proof.
  induction l as [|x l IH]; intros p H; [split; intros i Hi; cbn [length] in Hi; lia|].
  cbn [monotone_from] in H. apply andb_true_iff in H as [Hp H]. apply Z.leb_le in Hp.
  destruct (IH x H) as [H1 H2]. split.
  - intros i Hi. destruct i as [|i]; cbn [nth]; [exact Hp|]. specialize (H1 i ltac:(cbn [length] in Hi; lia)). lia.
  - intros i Hi. destruct i as [|i]; cbn [nth].
    + apply (H1 0). cbn [length] in Hi. lia.
    + apply H2. cbn [length] in Hi. lia.
Qed.

Lemma last_nth' {A} (l : list A) d : last l d = nth (length l - 1) l d.
Proof.
  induction l as [|x l IH]; [reflexivity|]. destruct l as [|y l]; [reflexivity|].
  change (last (x :: y :: l) d) with (last (y :: l) d). rewrite IH. cbn [length Nat.sub]. now rewrite Nat.sub_0_r.
Qed.

Lemma offsets_of_nth a w i : i <= p_len a -> nth i (offsets_of a w) 0%Z = off_at a w i.
Proof. intros Hi. unfold offsets_of, off_at. rewrite nth_map_seq by lia. reflexivity. Qed.

Lemma spec_offsets_facts a w limit : spec_offsets a w limit = true -> 0 < p_len a ->
  (forall i, i <= p_len a -> (0 <= off_at a w i)%Z) /\
  (forall i, i < p_len a -> (off_at a w i <= off_at a w (S i))%Z) /\
  (off_at a w (p_len a) <= Z.of_nat limit)%Z.
Proof.
  intros H Hpos. unfold spec_offsets in H.
  destruct (Nat.eqb_spec (p_len a) 0) as [E|_]; [lia|]. cbn [andb] in H.
  apply andb_true_iff in H as [H Hlast]. apply andb_true_iff in H as [_ Hm]. apply Z.leb_le in Hlast.
  destruct (monotone_from_facts _ _ Hm) as [H1 H2].
  assert (Hlen : length (offsets_of a w) = S (p_len a)) by (unfold offsets_of; now rewrite map_length, seq_length).
  split; [|split].
  - intros i Hi. rewrite <- offsets_of_nth by exact Hi. apply H1. lia.
  - intros i Hi. rewrite <- !offsets_of_nth by lia. apply H2. lia.
  - rewrite <- offsets_of_nth by lia.
    rewrite last_nth', Hlen in Hlast. now replace (S (p_len a) - 1) with (p_len a) in Hlast by lia.
Qed.

(* the value of slot j as the model reads it *)
Definition bin_slice (a : parr) (w j : nat) : list N := bytes_between (buf a 1) (off_at a w j) (off_at a w (j + 1)).
Definition noff (a : parr) (w j : nat) : nat := Z.to_nat (off_at a w j).

Record offs_ok (a : parr) (w limit : nat) : Prop := {
  bo_nonneg : forall i, i <= p_len a -> (0 <= off_at a w i)%Z;
  bo_mono : forall i, i < p_len a -> (off_at a w i <= off_at a w (S i))%Z;
  bo_last : (off_at a w (p_len a) <= Z.of_nat limit)%Z }.
(* (Large)Binary / Utf8: the offsets index the value buffer *)
Notation bin_ok a w := (offs_ok a w (length (buf a 1))).

Lemma noff_mono a w {lim} : offs_ok a w lim -> forall i, i < p_len a -> noff a w i <= noff a w (S i).
Proof. intros H i Hi. unfold noff. pose proof (bo_mono a w lim H i Hi). pose proof (bo_nonneg a w lim H i ltac:(lia)). lia. Qed.
Lemma noff_le a w {lim} : offs_ok a w lim -> forall i j, i <= j -> j <= p_len a -> noff a w i <= noff a w j.
Proof. intros H i j Hij Hj. apply (mono_le (noff a w) (p_len a)); [apply (noff_mono a w H) | exact Hij | exact Hj]. Qed.
Lemma noff_last a w {lim} : offs_ok a w lim -> noff a w (p_len a) <= lim.
Proof. intros H. unfold noff. pose proof (bo_last a w lim H). pose proof (bo_nonneg a w lim H (p_len a) ltac:(lia)). lia. Qed.
Lemma off_noff a w {lim} i : offs_ok a w lim -> i <= p_len a -> off_at a w i = Z.of_nat (noff a w i).
Proof. intros H Hi. unfold noff. pose proof (bo_nonneg a w lim H i Hi). lia. Qed.

Lemma bin_slice_nat a w j : bin_ok a w -> j < p_len a ->
  bin_slice a w j = firstn (noff a w (S j) - noff a w j) (skipn (noff a w j) (buf a 1)).
Proof.
  intros H Hj. unfold bin_slice, bytes_between. replace (j + 1) with (S j) by lia.
  rewrite (off_noff a w j H ltac:(lia)), (off_noff a w (S j) H ltac:(lia)).
  pose proof (noff_mono a w H j Hj). pose proof (noff_le a w H (S j) (p_len a) ltac:(lia) ltac:(lia)). pose proof (noff_last a w H).
  destruct (Z.leb_spec 0 (Z.of_nat (noff a w j))); [|lia].
  destruct (Z.leb_spec (Z.of_nat (noff a w j)) (Z.of_nat (noff a w (S j)))); [|lia].
  destruct (Z.leb_spec (Z.of_nat (noff a w (S j))) (Z.of_nat (length (buf a 1)))); [|lia].
  unfold slice_bytes. f_equal; [lia|]. f_equal. lia.
Qed.

(* ------------------------------------------------------------------ lengths_equal *)
Lemma diffs_map (f : nat -> Z) n : forall s, diffs (map f (seq s (S n))) = map (fun i => (f (S i) - f i)%Z) (seq s n).
Proof.
  induction n as [|n IH]; intros s; [reflexivity|].
  change (seq s (S (S n))) with (s :: seq (S s) (S n)). cbn [map].
  change (diffs (f s :: map f (seq (S s) (S n)))) with
    (match map f (seq (S s) (S n)) with y :: _ => (y - f s)%Z :: diffs (map f (seq (S s) (S n))) | [] => [] end).
  cbn [seq map]. rewrite <- (IH (S s)). reflexivity.
Qed.

Lemma forallb_combine_eq (p : list Z) : forall q, length p = length q ->
  (forallb (fun x : Z * Z => Z.eqb (fst x) (snd x)) (List.combine p q) = true <-> p = q).
Proof.
  induction p as [|u p IH]; intros [|v q] Hl; cbn [length] in Hl; try discriminate; [tauto|].
  cbn [List.combine forallb fst snd]. rewrite andb_true_iff, Z.eqb_eq, IH by lia. split; [intros [-> ->]; reflexivity | intros E; injection E; tauto].
Qed.

Lemma same_head_diffs (p : list Z) : forall q, length p = length q -> hd 0%Z p = hd 0%Z q -> diffs p = diffs q -> p = q.
Proof.
  induction p as [|u p IH]; intros [|v q] Hl Hh Hd; cbn [length] in Hl; try discriminate; [reflexivity|].
  cbn [hd] in Hh. subst v. f_equal.
  destruct p as [|u' p], q as [|v' q]; cbn [length] in Hl; try discriminate; [reflexivity|].
  cbn [diffs] in Hd. injection Hd as Hd0 Hd. apply IH; [cbn [length]; lia | cbn [hd]; lia | exact Hd].
Qed.

Lemma diffs_length (p : list Z) : length (diffs p) = length p - 1.
Proof.
  induction p as [|u p IH]; [reflexivity|]. destruct p as [|v p]; [reflexivity|].
  change (diffs (u :: v :: p)) with ((v - u)%Z :: diffs (v :: p)). cbn [length] in *. lia.
Qed.

Lemma lengths_equal_iff p q : length p = length q -> (lengths_equal p q = true <-> diffs p = diffs q).
Proof.
  intros Hl. unfold lengths_equal. destruct p as [|l0 p'] eqn:Ep.
  - destruct q; [|discriminate]. tauto.
  - rewrite <- Ep in *. assert (Hh : hd 0%Z p = l0) by now rewrite Ep.
    destruct (Z.eqb l0 0 && Z.eqb (hd 0%Z q) 0) eqn:E0.
    + apply andb_true_iff in E0 as [E1 E2]. apply Z.eqb_eq in E1, E2. rewrite zs_eqb_eq. split; [now intros -> |].
      intros Hd. apply same_head_diffs; [exact Hl | lia | exact Hd].
    + apply forallb_combine_eq. rewrite !diffs_length. lia.
Qed.

(* ------------------------------------------------------------------ variable_sized_equal on a range *)
Lemma equal_len_z_nat lv rv (s1 s2 n : nat) : s1 + n <= length lv -> s2 + n <= length rv ->
  equal_len_z lv rv (Z.of_nat s1) (Z.of_nat s2) (Z.of_nat n) = equal_len lv rv s1 s2 n.
Proof.
  intros H1 H2. unfold equal_len_z.
  destruct (Z.leb_spec 0 (Z.of_nat s1)); [|lia]. destruct (Z.leb_spec 0 (Z.of_nat s2)); [|lia]. destruct (Z.leb_spec 0 (Z.of_nat n)); [|lia].
  destruct (Z.leb_spec (Z.of_nat s1 + Z.of_nat n) (Z.of_nat (length lv))); [|lia].
  destruct (Z.leb_spec (Z.of_nat s2 + Z.of_nat n) (Z.of_nat (length rv))); [|lia].
  now rewrite !Nat2Z.id.
Qed.

Lemma offset_value_equal_iff a b w lpos rpos n : bin_ok a w -> bin_ok b w -> lpos + n <= p_len a -> rpos + n <= p_len b ->
  (offset_value_equal (buf a 1) (buf b 1) a b w lpos rpos n = true
   <-> (noff a w (lpos + n) - noff a w lpos = noff b w (rpos + n) - noff b w rpos /\
        firstn (noff a w (lpos + n) - noff a w lpos) (skipn (noff a w lpos) (buf a 1))
        = firstn (noff b w (rpos + n) - noff b w rpos) (skipn (noff b w rpos) (buf b 1)))).
Proof.
  intros Ha Hb Hla Hlb. unfold offset_value_equal.
  rewrite (off_noff a w lpos Ha ltac:(lia)), (off_noff a w (lpos + n) Ha ltac:(lia)),
          (off_noff b w rpos Hb ltac:(lia)), (off_noff b w (rpos + n) Hb ltac:(lia)).
  pose proof (noff_le a w Ha lpos (lpos + n) ltac:(lia) ltac:(lia)) as M1.
  pose proof (noff_le b w Hb rpos (rpos + n) ltac:(lia) ltac:(lia)) as M2.
  pose proof (noff_le a w Ha (lpos + n) (p_len a) ltac:(lia) ltac:(lia)) as M3.
  pose proof (noff_le b w Hb (rpos + n) (p_len b) ltac:(lia) ltac:(lia)) as M4.
  pose proof (noff_last a w Ha) as M5. pose proof (noff_last b w Hb) as M6.
  set (la := noff a w lpos) in *. set (ea := noff a w (lpos + n)) in *. set (lb := noff b w rpos) in *. set (eb := noff b w (rpos + n)) in *.
  destruct (Z.eqb_spec (Z.of_nat ea - Z.of_nat la) 0) as [Z1|Z1]; cbn [andb].
  - destruct (Z.eqb_spec (Z.of_nat eb - Z.of_nat lb) 0) as [Z2|Z2].
    + replace (ea - la) with 0 by lia. replace (eb - lb) with 0 by lia. cbn [firstn]. tauto.
    + destruct (Z.eqb_spec (Z.of_nat ea - Z.of_nat la) (Z.of_nat eb - Z.of_nat lb)) as [Z3|Z3]; [lia|]. split; [discriminate | intros [E _]; lia].
  - destruct (Z.eqb_spec (Z.of_nat ea - Z.of_nat la) (Z.of_nat eb - Z.of_nat lb)) as [Z3|Z3].
    + replace (Z.of_nat ea - Z.of_nat la)%Z with (Z.of_nat (ea - la)) by lia.
      rewrite equal_len_z_nat by lia. unfold equal_len. rewrite bytes_eqb_eq.
      replace (eb - lb) with (ea - la) by lia. tauto.
    + split; [discriminate | intros [E _]; lia].
Qed.

Lemma ove1 a b w p q : bin_ok a w -> bin_ok b w -> p < p_len a -> q < p_len b ->
  (offset_value_equal (buf a 1) (buf b 1) a b w p q 1 = true <-> bin_slice a w p = bin_slice b w q).
Proof.
  intros Ha Hb Hp Hq. rewrite (offset_value_equal_iff a b w p q 1 Ha Hb) by lia.
  rewrite !bin_slice_nat by assumption. replace (p + 1) with (S p) by lia. replace (q + 1) with (S q) by lia.
  split; [tauto|]. intros H. split; [|exact H]. apply (f_equal (@length _)) in H.
  pose proof (noff_mono a w Ha p Hp). pose proof (noff_mono b w Hb q Hq).
  pose proof (noff_le a w Ha (S p) (p_len a) ltac:(lia) ltac:(lia)). pose proof (noff_le b w Hb (S q) (p_len b) ltac:(lia) ltac:(lia)).
  pose proof (noff_last a w Ha). pose proof (noff_last b w Hb).
  rewrite !firstn_skipn_length in H by lia. exact H.
Qed.

Lemma lnull_eq a j : match p_nulls a with Some nb => is_null_at nb j | None => false end = negb (slot_valid a j).
Proof. unfold slot_valid, is_null_at. destruct (p_nulls a); reflexivity. Qed.

Theorem variable_sized_equal_iff w a b ls rs n :
  bin_ok a w -> bin_ok b w -> ls + n <= p_len a -> rs + n <= p_len b ->
  (forall i, i < n -> slot_valid a (ls + i) = slot_valid b (rs + i)) ->
  (variable_sized_equal w a b ls rs n = true
   <-> forall i, i < n -> slot_valid a (ls + i) = true -> bin_slice a w (ls + i) = bin_slice b w (rs + i)).
Proof.
  intros Ha Hb Hla Hlb Hv. unfold variable_sized_equal.
  destruct (contains_nulls (p_nulls a) ls n) eqn:Ec; cbn [negb].
  - (* per-slot loop *)
    rewrite forallb_seq_iff. split; intros H i Hi; specialize (H i Hi).
    + intros Hval. rewrite !lnull_eq, <- (Hv i Hi), Hval in H. cbn [negb orb Bool.eqb andb] in H.
      apply (ove1 a b w (ls + i) (rs + i) Ha Hb); [lia | lia | exact H].
    + rewrite !lnull_eq, <- (Hv i Hi). destruct (slot_valid a (ls + i)) eqn:Hval; cbn [negb orb Bool.eqb andb]; [|reflexivity].
      apply (ove1 a b w (ls + i) (rs + i) Ha Hb); [lia | lia | now apply H].
  - (* no null in the range: lengths, then one comparison of the two windows *)
    pose proof (proj1 (contains_nulls_false_iff _ _ _) Ec) as Hall.
    set (fa := fun i => noff a w (ls + i)). set (fb := fun i => noff b w (rs + i)).
    assert (Ma : forall i, i < n -> fa i <= fa (S i)) by (intros i Hi; unfold fa; replace (ls + S i) with (S (ls + i)) by lia; apply (noff_mono a w Ha); lia).
    assert (Mb : forall i, i < n -> fb i <= fb (S i)) by (intros i Hi; unfold fb; replace (rs + S i) with (S (rs + i)) by lia; apply (noff_mono b w Hb); lia).
    assert (La : fa n <= length (buf a 1)) by (unfold fa; etransitivity; [apply (noff_le a w Ha (ls + n) (p_len a)); lia | apply (noff_last a w Ha)]).
    assert (Lb : fb n <= length (buf b 1)) by (unfold fb; etransitivity; [apply (noff_le b w Hb (rs + n) (p_len b)); lia | apply (noff_last b w Hb)]).
    pose proof (windows_eq (buf a 1) (buf b 1) fa fb n Ma Mb La Lb) as W.
    assert (Hgoal : (forall i, i < n -> slot_valid a (ls + i) = true -> bin_slice a w (ls + i) = bin_slice b w (rs + i))
                    <-> (forall i, i < n -> firstn (fa (S i) - fa i) (skipn (fa i) (buf a 1)) = firstn (fb (S i) - fb i) (skipn (fb i) (buf b 1)))).
    { split; intros H i Hi.
      - specialize (H i Hi (Hall i Hi)). rewrite !bin_slice_nat in H by (try assumption; lia).
        unfold fa, fb. replace (ls + S i) with (S (ls + i)) by lia. now replace (rs + S i) with (S (rs + i)) by lia.
      - intros _. specialize (H i Hi). rewrite !bin_slice_nat by (try assumption; lia).
        unfold fa, fb in H. replace (ls + S i) with (S (ls + i)) in H by lia. now replace (rs + S i) with (S (rs + i)) in H by lia. }
    rewrite Hgoal, <- W. clear Hgoal W.
    (* lengths_equal <-> pointwise equal differences *)
    assert (Hle : lengths_equal (offs_range a w ls (n + 1)) (offs_range b w rs (n + 1)) = true
                  <-> forall i, i < n -> fa (S i) - fa i = fb (S i) - fb i).
    { rewrite lengths_equal_iff by (unfold offs_range; now rewrite !map_length, !seq_length).
      unfold offs_range. replace (n + 1) with (S n) by lia. rewrite !diffs_map, map_seq_ext_iff.
      split; intros H i Hi; specialize (H i Hi).
      - unfold fa, fb, noff.
        pose proof (bo_nonneg a w _ Ha (ls + i) ltac:(lia)). pose proof (bo_nonneg a w _ Ha (ls + S i) ltac:(lia)).
        pose proof (bo_nonneg b w _ Hb (rs + i) ltac:(lia)). pose proof (bo_nonneg b w _ Hb (rs + S i) ltac:(lia)). lia.
      - pose proof (Ma i Hi). pose proof (Mb i Hi). unfold fa, fb in *.
        rewrite (off_noff a w (ls + i) Ha ltac:(lia)), (off_noff a w (ls + S i) Ha ltac:(lia)),
                (off_noff b w (rs + i) Hb ltac:(lia)), (off_noff b w (rs + S i) Hb ltac:(lia)). lia. }
    destruct (lengths_equal (offs_range a w ls (n + 1)) (offs_range b w rs (n + 1))) eqn:El.
    + pose proof (proj1 Hle eq_refl) as Hd.
      rewrite (offset_value_equal_iff a b w ls rs n Ha Hb Hla Hlb).
      pose proof (diffs_sum fa fb n Ma Mb Hd) as Hs. unfold fa, fb in Hs, Hd. rewrite !Nat.add_0_r in Hs.
      unfold fa, fb. rewrite !Nat.add_0_r.
      split; [intros [_ Hw]; split; [exact Hd | exact Hw] | intros [_ Hw]; split; [exact Hs | exact Hw]].
    + split; [discriminate|]. intros [Hd _]. apply Hle in Hd. discriminate.
Qed.

(* ------------------------------------------------------------------ the theorem *)
Lemma spec_node_bin a large utf8 : p_ty a = TBin large utf8 -> spec_node a = true ->
  spec_nulls a = true /\ bin_ok a (offw large).
Proof.
  intros Ht H. unfold spec_node in H. rewrite Ht in H. cbn zeta in H.
  apply andb_true_iff in H as [_ H]. apply andb_true_iff in H as [H Ho]. apply andb_true_iff in H as [H _].
  apply andb_true_iff in H as [Hn _]. split; [exact Hn|].
  destruct (spec_offsets a (offw large) (length (buf a 1))) eqn:Es; [clear Ho|discriminate].
  destruct (Nat.eq_dec (p_len a) 0) as [E0|Hpos].
  - unfold spec_offsets in Es. rewrite E0 in Es. cbn [Nat.eqb andb] in Es.
    destruct (Nat.eqb_spec (length (buf a 0)) 0) as [Eb|Eb].
    + assert (Hz : forall i, off_at a (offw large) i = 0%Z).
      { intros i. unfold off_at, sle_at, le_at. destruct (buf a 0); [|discriminate Eb].
        rewrite skipn_nil, firstn_nil. destruct large; reflexivity. }
      constructor; intros; rewrite ?Hz; lia.
    + apply andb_true_iff in Es as [Es Hlast]. apply andb_true_iff in Es as [_ Hm]. apply Z.leb_le in Hlast.
      unfold offsets_of in Hm, Hlast. rewrite E0 in Hm, Hlast. cbn [seq map monotone_from last] in Hm, Hlast.
      apply andb_true_iff in Hm as [Hm _]. apply Z.leb_le in Hm.
      constructor; rewrite ?E0.
      * intros i Hi. replace i with 0 by lia. unfold off_at. exact Hm.
      * intros i Hi. lia.
      * unfold off_at. exact Hlast.
  - destruct (spec_offsets_facts a (offw large) _ Es ltac:(lia)) as (F1 & F2 & F3). constructor; assumption.
Qed.

Lemma dty_eqb_bin l u t : dty_eqb (TBin l u) t = true <-> t = TBin l u.
Proof.
  destruct t; cbn [dty_eqb]; split; intros H; try discriminate.
  - apply andb_true_iff in H as [H1 H2]. apply eqb_prop in H1, H2. now subst.
  - injection H as -> ->. now rewrite !eqb_reflx.
Qed.
Lemma logical_at_bin a l u i : p_ty a = TBin l u ->
  logical_at a i = if slot_valid a i then LBytes (bin_slice a (offw l) i) else LNull.
Proof.
  destruct a as [ty len off nulls bufs kids]. cbn [p_ty]. intros ->. cbn [logical_at].
  unfold slot_valid, bin_slice, off_at, buf. cbn [p_nulls p_bufs p_off]. now rewrite Nat.add_assoc.
Qed.

Theorem equal_iff_logical_bin large utf8 a b :
  p_ty a = TBin large utf8 -> spec_node a = true -> spec_node b = true ->
  (equal a b = true <-> p_ty a = p_ty b /\ logical a = logical b).
Proof.
  intros Ht Hsa Hsb.
  destruct (spec_node_bin a large utf8 Ht Hsa) as [Hna Hoa].
  assert (Hev : equal_values a b 0 0 (p_len a) = variable_sized_equal (offw large) a b 0 0 (p_len a))
    by (destruct a; cbn [p_ty] in Ht; subst; reflexivity).
  unfold equal, base_equal. rewrite Hev, Ht, !andb_true_iff, dty_eqb_bin, Nat.eqb_eq, Nat.eqb_eq, equal_nulls_iff.
  split.
  - intros [[[[Htb Hl] Hnc] Hv] He]. split; [congruence|].
    destruct (spec_node_bin b large utf8 Htb Hsb) as [Hnb Hob].
    apply logical_eq_iff. split; [exact Hl|]. intros i Hi.
    pose proof (proj1 (variable_sized_equal_iff (offw large) a b 0 0 (p_len a) Hoa Hob ltac:(lia) ltac:(lia) Hv) He) as He'.
    rewrite (logical_at_bin a large utf8 i Ht), (logical_at_bin b large utf8 i Htb).
    specialize (Hv i Hi). cbn [Nat.add] in Hv. rewrite <- Hv.
    destruct (slot_valid a i) eqn:Hval; [|reflexivity].
    specialize (He' i Hi Hval). cbn [Nat.add] in He'. now rewrite He'.
  - intros [Htb Hlog]. symmetry in Htb.
    destruct (spec_node_bin b large utf8 Htb Hsb) as [Hnb Hob].
    apply logical_eq_iff in Hlog as [Hl Hlog].
    assert (Hv : forall i, i < p_len a -> slot_valid a (0 + i) = slot_valid b (0 + i)).
    { intros i Hi. specialize (Hlog i Hi). rewrite (logical_at_bin a large utf8 i Ht), (logical_at_bin b large utf8 i Htb) in Hlog.
      cbn [Nat.add]. destruct (slot_valid a i), (slot_valid b i); try discriminate; reflexivity. }
    repeat split; try assumption.
    + apply null_count_eq; assumption.
    + apply (variable_sized_equal_iff (offw large) a b 0 0 (p_len a) Hoa Hob); [lia | lia | exact Hv|].
      intros i Hi Hval. cbn [Nat.add] in *.
      specialize (Hlog i Hi). rewrite (logical_at_bin a large utf8 i Ht), (logical_at_bin b large utf8 i Htb) in Hlog.
      specialize (Hv i Hi). cbn [Nat.add] in Hv. rewrite <- Hv, Hval in Hlog. now injection Hlog.
Qed.

Example equal_bin_nonvacuous :
  let a := PArr (TBin false true) 2 1 None [[9; 0; 0; 0; 2; 0; 0; 0; 3; 0; 0; 0; 5; 0; 0; 0]%N; [0; 0; 97; 98; 99; 7]%N] [] in
  let b := PArr (TBin false true) 2 0 None [[0; 0; 0; 0; 1; 0; 0; 0; 3; 0; 0; 0]%N; [97; 98; 99]%N] [] in
  spec_node a = true /\ spec_node b = true /\ equal a b = true /\ logical a = [LBytes [97%N]; LBytes [98; 99]%N].
Proof. vm_compute. repeat split. Qed.
