(* C07 — the column-chunk model: the chunk minimum/maximum the writer accumulates over pages and
   mini-batches (add_data_page / update_min / update_max on top of get_min_max) bound every
   non-null, non-NaN value of the chunk and are attained; the null count is exact. *)
From Coq Require Import List Arith Lia Bool NArith.
From AV Require Import Base.ListX Model.C07_Trunc Model.C07_Stats Model.C07_File Proofs.C07_MinMax.
Import ListNotations.

Lemma somes_app {A} (a b : list (option A)) : somes (a ++ b) = somes a ++ somes b.
Proof. induction a as [|[x|] a IH]; cbn [app somes]; [reflexivity| |assumption]. now rewrite IH. Qed.

Lemma somes_concat {A} (ls : list (list (option A))) : somes (concat ls) = concat (map somes ls).
Proof. induction ls as [|l ls IH]; cbn [concat map somes]; [reflexivity|]. now rewrite somes_app, IH. Qed.

Lemma chunks_concat {A} fuel bs : forall (l : list A), (1 <= bs)%nat -> (length l <= fuel)%nat -> concat (chunks fuel bs l) = l.
Proof.
  induction fuel as [|f IH]; intros l Hb Hl.
  - destruct l; [reflexivity|cbn [length] in Hl; lia].
  - destruct l as [|x l]; [reflexivity|]. cbn [chunks concat].
    rewrite IH; [apply firstn_skipn|exact Hb|].
    rewrite skipn_length. cbn [length] in *. lia.
Qed.

Lemma somes_length_le {A} (l : list (option A)) : (length (somes l) <= length l)%nat.
Proof. induction l as [|[x|] l IH]; cbn [somes length]; lia. Qed.

Lemma count_none_app {A} (a b : list (option A)) : count_none (a ++ b) = (count_none a + count_none b)%nat.
Proof.
  unfold count_none. rewrite somes_app, !app_length.
  pose proof (somes_length_le a). pose proof (somes_length_le b). lia.
Qed.

Section FileProofs.
  Variable T : Type.
  Variable gt : T -> T -> bool.
  Variable nan : T -> bool.
  Variable le : T -> T -> bool.
  Hypothesis le_trans : forall a b c, le a b = true -> le b c = true -> le a c = true.
  Hypothesis le_total : forall a b, le a b = true \/ le b a = true.
  Hypothesis gt_spec : forall a b, gt a b = negb (le a b).
  Variable enc : T -> bytes.
  Variable float : bool.
  Variable can_trunc utf8 : bool.

  Notation ismin := (is_min T nan le).
  Notation ismax := (is_max T nan le).
  Notation pmm := (page_minmax T gt nan float true None).

  (* the extrema a page hands to add_data_page *)
  Lemma page_minmax_spec bs rows :
    match somes rows with
    | [] => fst (fst (pmm bs rows)) = None /\ snd (fst (pmm bs rows)) = None
    | _ => exists a b, fst (fst (pmm bs rows)) = Some a /\ snd (fst (pmm bs rows)) = Some b /\
                       ismin (somes rows) a /\ ismax (somes rows) b
    end.
  Proof.
    unfold page_minmax. cbn [negb].
    set (batches := map somes (chunks (length rows) (Nat.max bs 1) rows)).
    assert (Hc : concat batches = somes rows).
    { unfold batches. rewrite <- somes_concat, chunks_concat; [reflexivity|lia|lia]. }
    pose proof (fold_write_slice_ok T gt nan le le_trans le_total gt_spec float batches [] (None, None, None)) as K.
    cbn [app] in K. rewrite Hc in K.
    destruct (fold_left (fun st s => write_slice gt nan float s st) batches (None, None, None)) as [[mn mx] nc].
    destruct K as [Km _]; [split; [now split|intros _; reflexivity]|]. cbn [fst snd].
    destruct (somes rows); exact Km.
  Qed.

  Notation addp := (add_page T gt nan enc float true None can_trunc utf8).

  (* add_page updates the chunk extrema with update_min/update_max whatever happens to the column index *)
  Lemma add_page_cmin pl tli bs w rows :
    w_cmin T (addp pl tli bs w rows) =
      match pmm bs rows with (Some mn, Some _, _) => update_min gt nan mn (w_cmin T w) | _ => w_cmin T w end.
  Proof.
    unfold add_page. destruct (pmm bs rows) as [[[mn|] [mx|]] pn]; cbn [fst snd];
    destruct (w_valid T w); cbn [negb]; try reflexivity;
    destruct (length rows =? count_none rows)%nat; try reflexivity;
    destruct pl; try reflexivity; destruct (w_last T w) as [[? ?]|]; reflexivity.
  Qed.
  Lemma add_page_cmax pl tli bs w rows :
    w_cmax T (addp pl tli bs w rows) =
      match pmm bs rows with (Some _, Some mx, _) => update_max gt nan mx (w_cmax T w) | _ => w_cmax T w end.
  Proof.
    unfold add_page. destruct (pmm bs rows) as [[[mn|] [mx|]] pn]; cbn [fst snd];
    destruct (w_valid T w); cbn [negb]; try reflexivity;
    destruct (length rows =? count_none rows)%nat; try reflexivity;
    destruct pl; try reflexivity; destruct (w_last T w) as [[? ?]|]; reflexivity.
  Qed.
  Lemma add_page_nulls pl tli bs w rows :
    w_nulls T (addp pl tli bs w rows) = (w_nulls T w + count_none rows)%nat.
  Proof.
    unfold add_page. destruct (pmm bs rows) as [[[mn|] [mx|]] pn]; cbn [fst snd];
    destruct (w_valid T w); cbn [negb]; try reflexivity;
    destruct (length rows =? count_none rows)%nat; try reflexivity;
    destruct pl; try reflexivity; destruct (w_last T w) as [[? ?]|]; reflexivity.
  Qed.

  Definition chunk_inv (seen : list T) (w : wstate T) : Prop :=
    match seen with
    | [] => w_cmin T w = None /\ w_cmax T w = None
    | _ => exists a b, w_cmin T w = Some a /\ w_cmax T w = Some b /\ ismin seen a /\ ismax seen b
    end.

  Lemma add_page_inv pl tli bs seen w rows :
    chunk_inv seen w -> chunk_inv (seen ++ somes rows) (addp pl tli bs w rows).
  Proof.
    intros H. unfold chunk_inv. rewrite add_page_cmin, add_page_cmax.
    pose proof (page_minmax_spec bs rows) as P.
    destruct (somes rows) as [|v vs] eqn:Es.
    - destruct P as [P1 P2]. rewrite app_nil_r.
      destruct (pmm bs rows) as [[mn mx] pn]. cbn [fst snd] in P1, P2. subst mn mx. exact H.
    - destruct P as (a & b & P1 & P2 & Pa & Pb).
      destruct (pmm bs rows) as [[mn mx] pn]. cbn [fst snd] in P1, P2. subst mn mx.
      destruct (seen ++ v :: vs) eqn:Eapp; [destruct seen; discriminate|]. rewrite <- Eapp.
      destruct seen as [|s0 seen].
      + destruct H as [-> ->]. cbn [update_min update_max app]. exists a, b. split; [reflexivity|]. split; [reflexivity|]. split; assumption.
      + destruct H as (a0 & b0 & -> & -> & Ha & Hb).
        rewrite (update_min_some T gt nan), (update_max_some T gt nan).
        exists (pick_min T gt nan a0 a), (pick_max T gt nan b0 b).
        split; [reflexivity|]. split; [reflexivity|]. split.
        * now apply (is_min_union T gt nan le le_trans le_total gt_spec).
        * now apply (is_max_union T gt nan le le_trans le_total gt_spec).
  Qed.

  Lemma run_pages_inv pl tli bs pages : forall seen w, chunk_inv seen w ->
    chunk_inv (seen ++ somes (concat pages)) (fold_left (addp pl tli bs) pages w).
  Proof.
    induction pages as [|p ps IH]; intros seen w H; cbn [fold_left concat].
    - now rewrite app_nil_r.
    - rewrite somes_app, app_assoc. apply IH. now apply add_page_inv.
  Qed.

  Lemma run_pages_nulls pl tli bs pages : forall w,
    w_nulls T (fold_left (addp pl tli bs) pages w) = (w_nulls T w + count_none (concat pages))%nat.
  Proof.
    induction pages as [|p ps IH]; intros w; cbn [fold_left concat].
    - unfold count_none. cbn. lia.
    - rewrite IH, add_page_nulls, count_none_app. lia.
  Qed.

  (* the chunk statistics before truncation: min <= v <= max for every non-null, non-NaN value of
     every page, both attained, never NaN when a non-NaN value exists; null count exact *)
  Theorem chunk_merges_pages pl tli bs pages :
    let w := run_pages T gt nan enc float true None can_trunc utf8 pl tli bs pages in
    let vs := somes (concat pages) in
    w_nulls T w = count_none (concat pages) /\
    match vs with
    | [] => w_cmin T w = None /\ w_cmax T w = None
    | _ => exists mn mx, w_cmin T w = Some mn /\ w_cmax T w = Some mx /\ In mn vs /\ In mx vs /\
           forall v, In v vs -> nan v = false ->
             nan mn = false /\ nan mx = false /\ le mn v = true /\ le v mx = true
    end.
  Proof.
    intros w vs. split.
    - unfold w, run_pages. rewrite run_pages_nulls. reflexivity.
    - pose proof (run_pages_inv pl tli bs pages [] (w_init T pl)) as K. cbn [app] in K.
      assert (K0 : chunk_inv [] (w_init T pl)) by (split; reflexivity). specialize (K K0).
      fold vs in K. unfold chunk_inv in K. fold w in K.
      destruct vs as [|x r] eqn:Ev; [exact K|]. rewrite <- Ev in *.
      destruct K as (a & b & Ea & Eb & Ha & Hb). exists a, b.
      split; [exact Ea|]. split; [exact Eb|].
      split; [exact (relevant_in T nan _ _ (proj1 Ha))|]. split; [exact (relevant_in T nan _ _ (proj1 Hb))|].
      intros v Hv Nv.
      pose proof (relevant_covers_nonnan T nan v vs Hv Nv) as R.
      assert (Hh : has T nan vs = true).
      { unfold has. apply existsb_exists. exists v. split; [exact Hv|]. unfold nonnan. now rewrite Nv. }
      rewrite (relevant_nan T nan a vs (proj1 Ha)), (relevant_nan T nan b vs (proj1 Hb)), Hh. cbn [negb].
      repeat split; [now apply Ha|now apply Hb].
  Qed.
End FileProofs.
