(* C19: UnalignedBitChunk::new, the single-word case (the addressed bytes fit in 8 bytes): the one word
   it yields holds exactly the addressed bits at positions [lead, lead+len) and zeros elsewhere. *)
From Coq Require Import List Arith NArith ZArith Lia Bool ZifyN ZifyNat ZifyBool.
From AV Require Import Base.ListX Base.Bits Base.Bytes Model.C19_Bits Proofs.C19_Chunks Proofs.C19_Masks.
Import ListNotations.
Local Open Scope N_scope.
Ltac Zify.zify_post_hook ::= Z.div_mod_to_equations.

Lemma bit_at_firstn bs n i : (i / 8 < n)%nat -> bit_at (firstn n bs) i = bit_at bs i.
Proof. intros H. unfold bit_at. now rewrite nth_firstn'. Qed.

Lemma wf_firstn bs n : wf_bytes bs -> wf_bytes (firstn n bs).
Proof. apply Forall_firstn'. Qed.

Theorem unaligned_single_word bs align off len :
  wf_bytes bs -> (0 < len)%nat ->
  let lead := (off mod 8)%nat in
  let bytes_len := ((len + lead + 7) / 8)%nat in
  (bytes_len <= 8)%nat -> (off / 8 + bytes_len <= length bs)%nat ->
  let u := ubc_new bs align off len in
  u_lead u = N.of_nat lead /\ u_trail u = 64 - N.of_nat (len + lead) /\ u_chunks u = [] /\ u_suffix u = None /\
  exists p, u_prefix u = Some p /\
    forall i, (i < 64)%nat ->
      N.testbit p (N.of_nat i) = ((lead <=? i)%nat && (i <? lead + len)%nat && bit_at bs (8 * (off / 8) + i)).
Proof.
  intros Hwf Hlen lead bytes_len Hb8 Hbound u.
  assert (Hl8 : (lead < 8)%nat) by (apply Nat.mod_upper_bound; lia).
  assert (H8 := Nat.div_mod (len + lead + 7) 8 ltac:(lia)). fold bytes_len in H8.
  assert (Hr8 : ((len + lead + 7) mod 8 < 8)%nat) by (apply Nat.mod_upper_bound; lia).
  assert (Hfit : (len + lead <= 64)%nat) by lia.
  subst u. unfold ubc_new.
  destruct (Nat.eqb_spec len 0) as [|_]; [lia|].
  fold lead. fold bytes_len.
  destruct (Nat.leb_spec bytes_len 8) as [_|]; [|lia].
  destruct (suffix_mask (N.of_nat len) (N.of_nat lead)) as [sm tp] eqn:Esm.
  cbn [u_lead u_trail u_prefix u_chunks u_suffix].
  assert (Htp : tp = 64 - N.of_nat (len + lead)).
  { pose proof (trailing_padding_spec (N.of_nat len) (N.of_nat lead) ltac:(lia) ltac:(lia)) as T. rewrite Esm in T. cbn [snd] in T. lia. }
  repeat split; try reflexivity; try exact Htp.
  eexists. split; [reflexivity|]. intros i Hi.
  replace sm with (fst (suffix_mask (N.of_nat len) (N.of_nat lead))) by (rewrite Esm; reflexivity).
  rewrite single_word_spec by lia.
  set (buffer := firstn bytes_len (skipn (off / 8) bs)).
  assert (Hx : N.testbit (read_u64_slice buffer) (N.of_nat i) = bit_at (firstn 8 buffer) i).
  { unfold read_u64_slice. apply le_val_testbit. apply wf_firstn. unfold buffer. apply wf_firstn, wf_skipn, Hwf. }
  rewrite Hx.
  assert (E1 : (N.of_nat lead <=? N.of_nat i) = (lead <=? i)%nat)
    by (destruct (N.leb_spec (N.of_nat lead) (N.of_nat i)), (Nat.leb_spec lead i); try reflexivity; lia).
  assert (E2 : (N.of_nat i <? N.of_nat len + N.of_nat lead) = (i <? lead + len)%nat)
    by (destruct (N.ltb_spec (N.of_nat i) (N.of_nat len + N.of_nat lead)), (Nat.ltb_spec i (lead + len)); try reflexivity; lia).
  rewrite E1, E2.
  destruct (Nat.leb_spec lead i) as [Hli|Hli]; [|now rewrite !andb_false_r].
  destruct (Nat.ltb_spec i (lead + len)) as [Hlt|Hge]; [|now rewrite !andb_false_r].
  rewrite ?andb_true_r, ?andb_true_l.
  assert (Hq : (i / 8 < bytes_len)%nat) by (apply Nat.div_lt_upper_bound; lia).
  rewrite bit_at_firstn by lia. unfold buffer. rewrite bit_at_firstn by exact Hq.
  rewrite bit_at_skipn. rewrite ?andb_true_r, ?andb_true_l. reflexivity.
Qed.
