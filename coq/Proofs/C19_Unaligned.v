(* C19: UnalignedBitChunk::new, the single-word case (the addressed bytes fit in 8 bytes): the one word
   it yields holds exactly the addressed bits at positions [lead, lead+len) and zeros elsewhere. *)
From Coq Require Import List Arith NArith ZArith Lia Bool ZifyN ZifyNat ZifyBool.
From AV Require Import Base.ListX Base.Bits Base.Bytes Model.C19_Bits Proofs.C19_Chunks Proofs.C19_Masks.
Import ListNotations.
Local Open Scope N_scope.
Ltac Zify.zify_post_hook ::= Z.div_mod_to_equations.

Lemma bit_at_firstn bs n i : (i / 8 < n)%nat -> bit_at (firstn n bs) i = bit_at bs i.
Proof. intros H. unfold bit_at. now rewrite nth_firstn'. Qed.

Lemma wf_firstn bs n : wf_bytes bs -> wf_bytes (firstn n bs).
Proof. apply Forall_firstn'. Qed.

Theorem unaligned_single_word bs align off len :
  wf_bytes bs -> (0 < len)%nat ->
  let lead := (off mod 8)%nat in
  let bytes_len := ((len + lead + 7) / 8)%nat in
  (bytes_len <= 8)%nat -> (off / 8 + bytes_len <= length bs)%nat ->
  let u := ubc_new bs align off len in
  u_lead u = N.of_nat lead /\ u_trail u = 64 - N.of_nat (len + lead) /\ u_chunks u = [] /\ u_suffix u = None /\
  exists p, u_prefix u = Some p /\
    forall i, (i < 64)%nat ->
      N.testbit p (N.of_nat i) = ((lead <=? i)%nat && (i <? lead + len)%nat && bit_at bs (8 * (off / 8) + i)).
Proof.
  intros Hwf Hlen lead bytes_len Hb8 Hbound u.
  assert (Hl8 : (lead < 8)%nat) by (apply Nat.mod_upper_bound; lia).
  assert (H8 := Nat.div_mod (len + lead + 7) 8 ltac:(lia)). fold bytes_len in H8.
  assert (Hr8 : ((len + lead + 7) mod 8 < 8)%nat) by (apply Nat.mod_upper_bound; lia).
  assert (Hfit : (len + lead <= 64)%nat) by lia.
  subst u. unfold ubc_new.
  destruct (Nat.eqb_spec len 0) as [|_]; [lia|].
  fold lead. fold bytes_len.
  destruct (Nat.leb_spec bytes_len 8) as [_|]; [|lia].
  destruct (suffix_mask (N.of_nat len) (N.of_nat lead)) as [sm tp] eqn:Esm.
  cbn [u_lead u_trail u_prefix u_chunks u_suffix].
  assert (Htp : tp = 64 - N.of_nat (len + lead)).
  { pose proof (trailing_padding_spec (N.of_nat len) (N.of_nat lead) ltac:(lia) ltac:(lia)) as T. rewrite Esm in T. cbn [snd] in T. lia. }
  repeat split; try reflexivity; try exact Htp.
  eexists. split; [reflexivity|]. intros i Hi.
  replace sm with (fst (suffix_mask (N.of_nat len) (N.of_nat lead))) by (rewrite Esm; reflexivity).
  rewrite single_word_spec by lia.
  set (buffer := firstn bytes_len (skipn (off / 8) bs)).
  assert (Hx : N.testbit (read_u64_slice buffer) (N.of_nat i) = bit_at (firstn 8 buffer) i).
  { unfold read_u64_slice. apply le_val_testbit. apply wf_firstn. unfold buffer. apply wf_firstn, wf_skipn, Hwf. }
  rewrite Hx.
  assert (E1 : (N.of_nat lead <=? N.of_nat i) = (lead <=? i)%nat)
    by (destruct (N.leb_spec (N.of_nat lead) (N.of_nat i)), (Nat.leb_spec lead i); try reflexivity; lia).
  assert (E2 : (N.of_nat i <? N.of_nat len + N.of_nat lead) = (i <? lead + len)%nat)
    by (destruct (N.ltb_spec (N.of_nat i) (N.of_nat len + N.of_nat lead)), (Nat.ltb_spec i (lead + len)); try reflexivity; lia).
  rewrite E1, E2.
  destruct (Nat.leb_spec lead i) as [Hli|Hli]; [|now rewrite !andb_false_r].
  destruct (Nat.ltb_spec i (lead + len)) as [Hlt|Hge]; [|now rewrite !andb_false_r].
  rewrite ?andb_true_r, ?andb_true_l.
  assert (Hq : (i / 8 < bytes_len)%nat) by (apply Nat.div_lt_upper_bound; lia).
  rewrite bit_at_firstn by lia. unfold buffer. rewrite bit_at_firstn by exact Hq.
  rewrite bit_at_skipn. rewrite ?andb_true_r, ?andb_true_l. reflexivity.
Qed.

(* the two-word case: the addressed bytes span 9..16 bytes *)
Theorem unaligned_two_words bs align off len :
  wf_bytes bs ->
  let lead := (off mod 8)%nat in
  let bytes_len := ((len + lead + 7) / 8)%nat in
  (8 < bytes_len <= 16)%nat -> (off / 8 + bytes_len <= length bs)%nat ->
  let u := ubc_new bs align off len in
  u_lead u = N.of_nat lead /\ u_trail u = N.of_nat (128 - (len + lead)) /\ u_chunks u = [] /\
  exists p q, u_prefix u = Some p /\ u_suffix u = Some q /\
    forall i, (i < 64)%nat ->
      N.testbit p (N.of_nat i) = ((lead <=? i)%nat && bit_at bs (8 * (off / 8) + i)) /\
      N.testbit q (N.of_nat i) = ((64 + i <? lead + len)%nat && bit_at bs (8 * (off / 8) + 64 + i)).
Proof.
  intros Hwf lead bytes_len Hb Hbound u.
  assert (Hl8 : (lead < 8)%nat) by (apply Nat.mod_upper_bound; lia).
  assert (H8 := Nat.div_mod (len + lead + 7) 8 ltac:(lia)). fold bytes_len in H8.
  assert (Hr8 : ((len + lead + 7) mod 8 < 8)%nat) by (apply Nat.mod_upper_bound; lia).
  assert (Hlen : (64 < len + lead <= 128)%nat) by lia.
  subst u. unfold ubc_new.
  destruct (Nat.eqb_spec len 0) as [|_]; [lia|].
  fold lead. fold bytes_len.
  destruct (Nat.leb_spec bytes_len 8) as [|_]; [lia|].
  destruct (Nat.leb_spec bytes_len 16) as [_|]; [|lia].
  destruct (suffix_mask (N.of_nat len) (N.of_nat lead)) as [sm tp] eqn:Esm.
  cbn [u_lead u_trail u_prefix u_chunks u_suffix].
  pose proof (trailing_padding_gen (N.of_nat len) (N.of_nat lead)) as [T1 T2]. rewrite Esm in T1, T2. cbn [snd] in T1, T2.
  assert (Htp : tp = N.of_nat (128 - (len + lead))) by lia.
  repeat split; try reflexivity; try exact Htp.
  do 2 eexists. split; [reflexivity|]. split; [reflexivity|]. intros i Hi.
  set (buffer := firstn bytes_len (skipn (off / 8) bs)).
  assert (Hwb : wf_bytes buffer) by (unfold buffer; apply wf_firstn, wf_skipn, Hwf).
  assert (Hlb : length buffer = bytes_len).
  { unfold buffer. rewrite firstn_length, skipn_length. lia. }
  split.
  - (* prefix = read_u64(buffer[..8]) & prefix_mask *)
    rewrite N.land_spec, prefix_mask_spec by lia.
    unfold read_u64_slice. rewrite le_val_testbit by (apply wf_firstn, wf_firstn, Hwb).
    assert (Hq : (i / 8 < 8)%nat) by (apply Nat.div_lt_upper_bound; lia).
    rewrite !bit_at_firstn by lia. unfold buffer. rewrite bit_at_firstn by lia. rewrite bit_at_skipn.
    assert (E1 : (N.of_nat lead <=? N.of_nat i)%N = (lead <=? i)%nat)
      by (destruct (N.leb_spec (N.of_nat lead) (N.of_nat i)), (Nat.leb_spec lead i); try reflexivity; lia).
    rewrite E1. apply andb_comm.
  - (* suffix = read_u64(buffer[8..]) & suffix_mask *)
    replace sm with (fst (suffix_mask (N.of_nat len) (N.of_nat lead))) by (rewrite Esm; reflexivity).
    rewrite N.land_spec, suffix_mask_spec_gen by lia.
    unfold read_u64_slice. rewrite le_val_testbit by (apply wf_firstn, wf_skipn, Hwb).
    assert (Em : ((((N.of_nat len + N.of_nat lead) mod 64 =? 0)%N || (N.of_nat i <? (N.of_nat len + N.of_nat lead) mod 64)%N)
                  = (64 + i <? lead + len)%nat)).
    { destruct (Nat.ltb_spec (64 + i) (lead + len)); destruct (N.eqb_spec ((N.of_nat len + N.of_nat lead) mod 64) 0);
        destruct (N.ltb_spec (N.of_nat i) ((N.of_nat len + N.of_nat lead) mod 64)); cbn [orb]; try reflexivity; lia. }
    rewrite Em.
    destruct (Nat.ltb_spec (64 + i) (lead + len)) as [Hin|Hout]; [|now rewrite andb_false_r].
    rewrite andb_true_r. cbn [andb].
    assert (Hq : (i / 8 < 8)%nat) by (apply Nat.div_lt_upper_bound; lia).
    rewrite bit_at_firstn by lia. rewrite bit_at_skipn.
    assert (Hq2 : ((8 * 8 + i) / 8 < bytes_len)%nat) by (apply Nat.div_lt_upper_bound; lia).
    unfold buffer. rewrite bit_at_firstn by exact Hq2. rewrite bit_at_skipn. f_equal. lia.
Qed.
