(* C10 — partition: the ranges produced from the boundary mask are exactly the runs of rows between
   positions where adjacent rows differ (in some column, under the comparator's equality). *)
From Coq Require Import List ZArith Lia Bool Arith.
From AV Require Import Base.ListX Model.C10_Order Model.C10_Sort Model.C10_Rank Proofs.C10_Cmp.
Import ListNotations.

(* the loop of Partitions::ranges over an arbitrary list of set indices *)
Fixpoint ranges_of (cur : nat) (l : list nat) : list (nat * nat) :=
  match l with [] => [] | i :: r => (cur, i + 1) :: ranges_of (i + 1) r end.
Fixpoint final_of (cur : nat) (l : list nat) : nat :=
  match l with [] => cur | i :: r => final_of (i + 1) r end.

Lemma ranges_fold l : forall out cur,
  fold_left (fun (st : list (nat * nat) * nat) idx => let '(out, current) := st in (out ++ [(current, idx + 1)], idx + 1))
            l (out, cur) = (out ++ ranges_of cur l, final_of cur l).
Proof.
  induction l as [|i l IH]; intros out cur; cbn; [now rewrite app_nil_r|].
  rewrite IH. rewrite <- app_assoc. reflexivity.
Qed.

Lemma ranges_of_fst cur l : map fst (ranges_of cur l) ++ [final_of cur l] = cur :: map (fun i => i + 1) l.
Proof. revert cur. induction l as [|i l IH]; intros cur; cbn; [reflexivity|]. now rewrite IH. Qed.
Lemma ranges_of_snd cur l : map snd (ranges_of cur l) = map (fun i => i + 1) l.
Proof. revert cur. induction l as [|i l IH]; intros cur; cbn; [reflexivity|]. now rewrite IH. Qed.

Lemma set_indices_from_lt k b : forall i, In i (set_indices_from k b) -> k <= i < k + length b.
Proof.
  revert k. induction b as [|x b IH]; intros k i H; [contradiction|]. cbn in H.
  apply in_app_or in H. destruct H as [H|H].
  - destruct x; [|contradiction]. destruct H as [<-|[]]. cbn. lia.
  - apply IH in H. cbn. lia.
Qed.

Lemma final_of_bound cur l n : cur <= n -> (forall i, In i l -> i < n) -> final_of cur l <= n.
Proof.
  revert cur. induction l as [|i l IH]; intros cur Hc H; [exact Hc|]. cbn.
  apply IH; [|intros j Hj; apply H; now right]. specialize (H i (or_introl eq_refl)). lia.
Qed.

(* starts: 0 and every set index + 1;  ends: every set index + 1 and the number of rows *)
Theorem ranges_some_spec b :
  map fst (ranges_some b) = 0 :: map (fun i => i + 1) (set_indices b) /\
  map snd (ranges_some b) = map (fun i => i + 1) (set_indices b) ++ [length b + 1].
Proof.
  unfold ranges_some. rewrite ranges_fold. cbn [app].
  assert (F : final_of 0 (set_indices b) <= length b).
  { apply final_of_bound; [lia|]. intros i Hi. apply set_indices_from_lt in Hi. lia. }
  destruct (final_of 0 (set_indices b) =? length b + 1) eqn:E; [apply Nat.eqb_eq in E; lia|].
  rewrite !map_app. cbn [map fst snd]. rewrite ranges_of_fst, ranges_of_snd. split; reflexivity.
Qed.

Lemma combine_fst_snd {A B} (l : list (A * B)) : combine (map fst l) (map snd l) = l.
Proof. induction l as [|[a b] l IH]; [reflexivity|]. cbn. now rewrite IH. Qed.

(* the set positions of a mask given as a function of the position *)
Lemma set_indices_from_map (d : nat -> bool) m : forall k,
  map (fun i => i + 1) (set_indices_from k (map d (seq k m))) = filter (fun i => d (i - 1)) (seq (S k) m).
Proof.
  induction m as [|m IH]; intros k; [reflexivity|]. cbn [seq map set_indices_from filter].
  rewrite map_app, (IH (S k)). replace (S k - 1) with k by lia.
  destruct (d k); cbn; [f_equal; lia|reflexivity].
Qed.

Lemma fold_orb_lists (cols : list (list oval)) (g : nat -> bool) s :
  (forall c, In c cols -> find_boundaries c = map (fun i => match cmp_idx false false c c i (S i) with Eq => false | _ => true end) s) ->
  fold_left (fun acc c => orb_lists acc (find_boundaries c)) cols (map g s)
  = map (fun i => g i || existsb (fun a => match cmp_idx false false a a i (S i) with Eq => false | _ => true end) cols) s.
Proof.
  revert g. induction cols as [|c cols IH]; intros g H; cbn [fold_left existsb].
  - apply map_ext. intros i. now rewrite orb_false_r.
  - rewrite (H c (or_introl eq_refl)).
    assert (Z : forall (f h : nat -> bool) s', orb_lists (map f s') (map h s') = map (fun i => f i || h i) s').
    { intros f h s'. induction s' as [|x s' IHs]; [reflexivity|]. cbn. now rewrite IHs. }
    rewrite Z. rewrite IH by (intros c' Hc'; apply H; now right).
    apply map_ext. intros i. now rewrite orb_assoc.
Qed.

(* partition(columns).ranges() = the specification, for columns of equal length *)
Theorem partition_m_spec cols : (forall c c', In c cols -> In c' cols -> length c = length c') ->
  partition_m cols = partition_spec cols.
Proof.
  intros Hlen. destruct cols as [|c0 rest]; [reflexivity|].
  unfold partition_m, partition_spec. set (n := length c0).
  set (d := fun i => rows_differ (c0 :: rest) i (S i)).
  assert (Hb : forall m, n = S m ->
    fold_left (fun acc c => orb_lists acc (find_boundaries c)) rest (find_boundaries c0) = map d (seq 0 m)).
  { intros m Hm. unfold find_boundaries at 2. fold n. rewrite Hm. replace (S m - 1) with m by lia.
    rewrite fold_orb_lists.
    - apply map_ext. intros i. reflexivity.
    - intros c Hc. unfold find_boundaries. rewrite (Hlen c c0 (or_intror Hc) (or_introl eq_refl)). fold n. rewrite Hm.
      replace (S m - 1) with m by lia. reflexivity. }
  assert (Hstarts : forall m, n = S m ->
    filter (fun i => (i =? 0) || rows_differ (c0 :: rest) (i - 1) i) (seq 0 n)
    = 0 :: map (fun i => i + 1) (set_indices (map d (seq 0 m)))).
  { intros m Hm. rewrite Hm. cbn [seq filter Nat.eqb orb]. f_equal.
    unfold set_indices. rewrite set_indices_from_map. apply filter_ext_in. intros i Hi. apply in_seq in Hi.
    destruct i as [|i]; [lia|]. cbn [Nat.eqb orb]. unfold d. replace (S i - 1) with i by lia. reflexivity. }
  destruct n as [|m] eqn:En; [reflexivity|].
  assert (G : forall b, b = map d (seq 0 m) -> ranges_some b =
     combine (filter (fun i => (i =? 0) || rows_differ (c0 :: rest) (i - 1) i) (seq 0 (S m)))
             (tl (filter (fun i => (i =? 0) || rows_differ (c0 :: rest) (i - 1) i) (seq 0 (S m))) ++ [S m])).
  { intros b ->. rewrite (Hstarts m eq_refl). cbn [tl].
    destruct (ranges_some_spec (map d (seq 0 m))) as [F S'].
    rewrite <- (combine_fst_snd (ranges_some (map d (seq 0 m)))). rewrite F, S'.
    rewrite map_length, seq_length. replace (m + 1) with (S m) by lia. reflexivity. }
  destruct m as [|m'].
  - apply (G []). reflexivity.
  - apply G. apply (Hb (S m')). reflexivity.
Qed.
