(* C17 — Avro long / int: zig-zag + 7-bit groups written by write_long are read back by read_varint
   (all three paths) and get_long / get_int. *)
From Coq Require Import List NArith ZArith Lia Bool ZifyN ZifyNat ZifyBool.
From AV Require Import Base.Bits Model.C17_Avro.
Import ListNotations.
Local Open Scope N_scope.
Ltac Zify.zify_post_hook ::= Z.div_mod_to_equations.

(* ------------------------------------------------------------------ arithmetic form of the writer loop *)
Fixpoint enc (fuel : nat) (n : N) : list N :=
  match fuel with
  | O => []
  | S fuel => if n <? 128 then [n] else (n mod 128 + 128) :: enc fuel (n / 128)
  end.

Lemma ldiff_127 z : (N.ldiff z 127 =? 0) = (z <? 128).
Proof.
  change 127 with (N.ones 7). rewrite N.ldiff_ones_r, N.shiftr_div_pow2, N.shiftl_mul_pow2.
  change (2^7) with 128.
  destruct (N.ltb_spec z 128) as [H|H].
  - rewrite N.div_small by exact H. reflexivity.
  - apply N.eqb_neq. assert (1 <= z / 128) by (apply N.div_le_lower_bound; lia). lia.
Qed.

Lemma land_127 z : N.land z 127 = z mod 128.
Proof. change 127 with (N.ones 7). now rewrite N.land_ones. Qed.

Lemma lor_shift_add a x s : a < 2^s -> N.lor a (N.shiftl x s) = a + x * 2^s.
Proof.
  intros Ha. apply N.bits_inj. intros i.
  rewrite N.lor_spec. replace (a + x * 2^s) with (a + 2^s * x) by lia.
  rewrite (testbit_add_shift a x s i Ha).
  destruct (N.ltb_spec i s) as [Hlt|Hge].
  - rewrite N.shiftl_spec_low by exact Hlt. apply orb_false_r.
  - rewrite (testbit_high a s i Ha Hge). rewrite N.shiftl_spec_high' by exact Hge. reflexivity.
Qed.

Lemma lor_128 x : x < 128 -> N.lor x 128 = x + 128.
Proof.
  intros H. change 128 with (N.shiftl 1 7) at 1. rewrite lor_shift_add by (change (2^7) with 128; exact H).
  change (2^7) with 128. lia.
Qed.

Lemma write_vlq_enc fuel z : write_vlq fuel z = enc fuel z.
Proof.
  revert z. induction fuel as [|f IH]; intros z; [reflexivity|].
  cbn [write_vlq enc]. rewrite ldiff_127, land_127.
  destruct (N.ltb_spec z 128) as [H|H].
  - now rewrite N.mod_small by exact H.
  - rewrite lor_128 by (apply N.mod_lt; lia). rewrite N.shiftr_div_pow2. change (2^7) with 128. now rewrite IH.
Qed.

Lemma enc_nonempty f z : enc (S f) z <> [].
Proof. cbn [enc]. destruct (z <? 128); discriminate. Qed.

Lemma enc_bytes f z : Forall (fun b => b < 256) (enc f z).
Proof.
  revert z. induction f as [|f IH]; intros z; cbn [enc]; [constructor|].
  destruct (N.ltb_spec z 128) as [H|H].
  - constructor; [lia|constructor].
  - constructor; [|apply IH]. pose proof (N.mod_lt z 128 ltac:(lia)). lia.
Qed.

(* ------------------------------------------------------------------ the 10-byte path *)
Lemma pow_succ7 i : 2^(7 * (i + 1)) = 128 * 2^(7 * i).
Proof. replace (7 * (i + 1)) with (7 + 7 * i) by lia. rewrite N.pow_add_r. reflexivity. Qed.

Lemma rv_array_enc : forall k idx acc v rest,
  N.of_nat k + idx = 9 -> v < 2^(7 * N.of_nat k + 1) ->
  rv_array k idx (enc (S k) v ++ rest) acc = Some (acc + v * 2^(7 * idx), rest).
Proof.
  induction k as [|k IH]; intros idx acc v rest Hidx Hv.
  - assert (idx = 9) by lia. subst idx. change (2^(7 * N.of_nat 0 + 1)) with 2 in Hv.
    cbn [enc]. destruct (N.ltb_spec v 128) as [_|?]; [|lia].
    cbn [app rv_array]. destruct (N.ltb_spec v 2) as [_|?]; [|lia].
    change (7 * 9) with 63. reflexivity.
  - change (enc (S (S k)) v) with (if v <? 128 then [v] else (v mod 128 + 128) :: enc (S k) (v / 128)).
    destruct (N.ltb_spec v 128) as [Hlt|Hge].
    + cbn [app rv_array]. destruct (N.ltb_spec v 128) as [_|?]; [reflexivity|lia].
    + cbn [app rv_array].
      pose proof (N.mod_lt v 128 ltac:(lia)) as Hm.
      destruct (N.ltb_spec (v mod 128 + 128) 128) as [?|_]; [lia|].
      rewrite IH.
      * f_equal. f_equal. rewrite pow_succ7.
        pose proof (N.div_mod v 128 ltac:(lia)) as Hdm.
        set (p := 2^(7 * idx)) in *. set (q := v / 128) in *. set (m := v mod 128) in *.
        assert (Hsub : acc + (m + 128) * p - 128 * p = acc + m * p) by nia.
        rewrite Hsub. nia.
      * lia.
      * replace (7 * N.of_nat (S k) + 1) with (7 + (7 * N.of_nat k + 1)) in Hv by lia.
        rewrite N.pow_add_r in Hv. change (2^7) with 128 in Hv.
        apply N.div_lt_upper_bound; lia.
Qed.

(* ------------------------------------------------------------------ the slow path *)
Lemma rv_slow_cons n count b r value :
  rv_slow (S n) count (b :: r) value =
  if b <=? 127 then (if negb (count =? 9) || (b <? 2) then Some (N.lor value (N.shiftl (N.land b 127) (count * 7)), r) else None)
  else rv_slow n (count + 1) r (N.lor value (N.shiftl (N.land b 127) (count * 7))).
Proof. reflexivity. Qed.
Lemma rv_slow_enc : forall k count value v rest,
  N.of_nat k + count = 9 -> v < 2^(7 * N.of_nat k + 1) -> value < 2^(7 * count) ->
  rv_slow (S k) count (enc (S k) v ++ rest) value = Some (value + v * 2^(7 * count), rest).
Proof.
  induction k as [|k IH]; intros count value v rest Hc Hv Hval.
  - assert (count = 9) by lia. subst count. change (2^(7 * N.of_nat 0 + 1)) with 2 in Hv.
    cbn [enc]. destruct (N.ltb_spec v 128) as [_|?]; [|lia].
    cbn [app]. rewrite rv_slow_cons. rewrite land_127, N.mod_small by lia.
    replace (9 * 7) with (7 * 9) by reflexivity.
    rewrite lor_shift_add by exact Hval.
    destruct (N.leb_spec v 127) as [_|?]; [|lia].
    destruct (N.ltb_spec v 2) as [_|?]; [|lia].
    rewrite orb_true_r. reflexivity.
  - change (enc (S (S k)) v) with (if v <? 128 then [v] else (v mod 128 + 128) :: enc (S k) (v / 128)).
    replace (count * 7) with (7 * count) by lia.
    destruct (N.ltb_spec v 128) as [Hlt|Hge].
    + cbn [app]. rewrite rv_slow_cons. replace (count * 7) with (7 * count) by lia.
      rewrite land_127, N.mod_small by lia. rewrite lor_shift_add by exact Hval.
      destruct (N.leb_spec v 127) as [_|?]; [|lia].
      destruct (N.eqb_spec count 9) as [?|_]; [lia|]. reflexivity.
    + cbn [app]. rewrite rv_slow_cons. replace (count * 7) with (7 * count) by lia.
      pose proof (N.mod_lt v 128 ltac:(lia)) as Hm.
      rewrite land_127.
      replace ((v mod 128 + 128) mod 128) with (v mod 128).
      2:{ rewrite N.add_mod by lia. rewrite N.mod_same by lia. rewrite N.add_0_r. now rewrite !N.mod_mod by lia. }
      rewrite lor_shift_add by exact Hval.
      destruct (N.leb_spec (v mod 128 + 128) 127) as [?|_]; [lia|].
      rewrite IH.
      * f_equal. f_equal. rewrite pow_succ7.
        pose proof (N.div_mod v 128 ltac:(lia)) as Hdm. nia.
      * lia.
      * replace (7 * N.of_nat (S k) + 1) with (7 + (7 * N.of_nat k + 1)) in Hv by lia.
        rewrite N.pow_add_r in Hv. change (2^7) with 128 in Hv.
        apply N.div_lt_upper_bound; lia.
      * rewrite pow_succ7. nia.
Qed.

(* ------------------------------------------------------------------ read_varint inverts the writer loop *)
Theorem read_varint_write v rest : v < 2^64 ->
  read_varint (write_vlq 10 v ++ rest) = Some (v, rest).
Proof.
  intros Hv. rewrite write_vlq_enc.
  assert (Hcases : v < 128 \/ 128 <= v) by lia. destruct Hcases as [Hlt|Hge].
  - change (enc 10 v) with (if v <? 128 then [v] else (v mod 128 + 128) :: enc 9 (v / 128)).
    destruct (N.ltb_spec v 128) as [_|?]; [|lia].
    cbn [app read_varint]. destruct (N.ltb_spec v 128) as [_|?]; [reflexivity|lia].
  - unfold read_varint.
    remember (enc 10 v ++ rest) as bs eqn:Hbs.
    assert (Hhd : exists r0, bs = (v mod 128 + 128) :: r0).
    { subst bs. change (enc 10 v) with (if v <? 128 then [v] else (v mod 128 + 128) :: enc 9 (v / 128)).
      destruct (N.ltb_spec v 128) as [?|_]; [lia|]. eexists. reflexivity. }
    destruct Hhd as [r0 Hr0]. rewrite Hr0.
    destruct (N.ltb_spec (v mod 128 + 128) 128) as [?|_]; [lia|].
    rewrite <- Hr0. subst bs.
    destruct (at_least 10 (enc 10 v ++ rest)).
    + rewrite (rv_array_enc 9 0 0 v rest); [f_equal; f_equal; change (7 * 0) with 0; change (2^0) with 1; lia|reflexivity|exact Hv].
    + rewrite (rv_slow_enc 9 0 0 v rest); [f_equal; f_equal; change (7 * 0) with 0; change (2^0) with 1; lia|reflexivity|exact Hv|].
      change (2^(7*0)) with 1. lia.
Qed.

(* ------------------------------------------------------------------ zig-zag *)
Local Open Scope Z_scope.

Lemma zz_enc64_val v : - 2^63 <= v < 2^63 ->
  Z.of_N (zz_enc64 v) = if 0 <=? v then 2 * v else - 2 * v - 1.
Proof.
  intros Hv. unfold zz_enc64.
  rewrite Z2N.id by (apply Z.mod_pos_bound; reflexivity).
  rewrite Z.shiftl_mul_pow2 by lia. rewrite Z.shiftr_div_pow2 by lia. change (2^1) with 2.
  destruct (Z.leb_spec 0 v) as [Hp|Hn].
  - rewrite Z.div_small by lia. rewrite Z.lxor_0_r. rewrite Z.mod_small by lia. lia.
  - replace (v / 2^63) with (-1) by (apply Z.div_unique with (r := v + 2^63); lia).
    rewrite Z.lxor_m1_r. unfold Z.lnot. rewrite Z.mod_small by lia. lia.
Qed.

Lemma zz_enc64_range v : - 2^63 <= v < 2^63 -> (zz_enc64 v < 2^64)%N.
Proof.
  intros Hv. pose proof (zz_enc64_val v Hv) as H.
  destruct (0 <=? v) eqn:E; [apply Z.leb_le in E|apply Z.leb_gt in E]; lia.
Qed.

Lemma zz_dec_alt val : zz_dec val = Z.lxor (Z.of_N val / 2) (- (Z.of_N val mod 2)).
Proof.
  unfold zz_dec. rewrite N.shiftr_div_pow2. change (2^1)%N with 2%N.
  replace (N.land val 1) with (val mod 2)%N by (change 1%N with (N.ones 1); now rewrite N.land_ones).
  now rewrite N2Z.inj_div, N2Z.inj_mod.
Qed.

Lemma zz_dec_even x : 0 <= x -> zz_dec (Z.to_N (2 * x)) = x.
Proof.
  intros Hx. rewrite zz_dec_alt, Z2N.id by lia.
  replace (2 * x / 2) with x by (apply Z.div_unique with (r := 0); lia).
  replace ((2 * x) mod 2) with 0 by (apply Z.mod_unique with (q := x); lia).
  now rewrite Z.lxor_0_r.
Qed.

Lemma zz_dec_odd x : 0 <= x -> zz_dec (Z.to_N (2 * x + 1)) = - x - 1.
Proof.
  intros Hx. rewrite zz_dec_alt, Z2N.id by lia.
  replace ((2 * x + 1) / 2) with x by (apply Z.div_unique with (r := 1); lia).
  replace ((2 * x + 1) mod 2) with 1 by (apply Z.mod_unique with (q := x); lia).
  rewrite Z.lxor_m1_r. unfold Z.lnot. lia.
Qed.

Lemma zz_roundtrip v : - 2^63 <= v < 2^63 -> zz_dec (zz_enc64 v) = v.
Proof.
  intros Hv. pose proof (zz_enc64_val v Hv) as H.
  rewrite <- (N2Z.id (zz_enc64 v)). rewrite H.
  destruct (Z.leb_spec 0 v) as [Hp|Hn].
  - apply zz_dec_even. exact Hp.
  - replace (- 2 * v - 1) with (2 * (- v - 1) + 1) by lia. rewrite zz_dec_odd by lia. lia.
Qed.

Theorem get_long_write v rest : - 2^63 <= v < 2^63 -> get_long (write_long v ++ rest) = Some (v, rest).
Proof.
  intros Hv. unfold get_long, write_long.
  rewrite read_varint_write by (apply zz_enc64_range; exact Hv).
  now rewrite zz_roundtrip.
Qed.

Theorem get_int_write v rest : - 2^31 <= v < 2^31 -> get_int (write_long v ++ rest) = Some (v, rest).
Proof.
  intros Hv. unfold get_int, write_long.
  assert (Hv64 : - 2^63 <= v < 2^63) by lia.
  rewrite read_varint_write by (apply zz_enc64_range; exact Hv64).
  pose proof (zz_enc64_val v Hv64) as H.
  assert (Hlt : (zz_enc64 v < 2^32)%N).
  { destruct (0 <=? v) eqn:E; [apply Z.leb_le in E|apply Z.leb_gt in E]; lia. }
  destruct (N.ltb_spec (zz_enc64 v) (2^32)) as [_|?]; [|lia].
  now rewrite zz_roundtrip.
Qed.

Lemma write_long_nonempty v : write_long v <> [].
Proof. unfold write_long. rewrite write_vlq_enc. apply enc_nonempty. Qed.

Lemma write_long_bytes v : Forall (fun b => (b < 256)%N) (write_long v).
Proof. unfold write_long. rewrite write_vlq_enc. apply enc_bytes. Qed.

Lemma write_long_0 : write_long 0 = [0%N].
Proof. reflexivity. Qed.
