(* C10 — lexsort_topk: the bounded max-heap keeps the `limit` smallest rows, so its sorted content is
   accepted by the sort predicate; sift_up / sift_down restore the heap property. *)
From Coq Require Import List ZArith Lia Bool Arith Permutation FinFun.
From Coq Require Import ZifyNat ZifyBool.
From AV Require Import Base.ListX Model.C10_Order Model.C10_Sort Model.C10_Rank Model.C10_Heap.
From AV Require Import Proofs.C10_Cmp Proofs.C10_Sort Proofs.C10_SortImpl Proofs.C10_Rank.
Import ListNotations.
Ltac Zify.zify_post_hook ::= Z.div_mod_to_equations.

Lemma hswap_length h i j : length (hswap h i j) = length h.
Proof. unfold hswap. now rewrite !upd_length. Qed.

Lemma hget_hswap h i j k : i < length h -> j < length h ->
  hget (hswap h i j) k = if k =? j then hget h i else if k =? i then hget h j else hget h k.
Proof.
  intros Hi Hj. unfold hswap, hget.
  destruct (k =? j) eqn:E1.
  - apply Nat.eqb_eq in E1. subst. apply upd_same. now rewrite upd_length.
  - apply Nat.eqb_neq in E1. rewrite upd_other by exact E1.
    destruct (k =? i) eqn:E2.
    + apply Nat.eqb_eq in E2. subst. now apply upd_same.
    + apply Nat.eqb_neq in E2. now apply upd_other.
Qed.

Lemma hswap_perm h i j : i < length h -> j < length h -> Permutation (hswap h i j) h.
Proof.
  intros Hi Hj. apply Permutation_sym. apply (Permutation_nth h (hswap h i j) 0).
  split; [apply hswap_length|].
  exists (fun k => if k =? j then i else if k =? i then j else k). split; [|split].
  - intros k Hk. destruct (k =? j); [exact Hi|]. destruct (k =? i); [exact Hj|exact Hk].
  - intros x y Hx Hy. destruct (x =? j) eqn:A, (y =? j) eqn:B, (x =? i) eqn:C, (y =? i) eqn:D;
      rewrite ?Nat.eqb_eq, ?Nat.eqb_neq in *; intros; lia.
  - intros k Hk. fold (hget (hswap h i j) k). rewrite hget_hswap by assumption.
    destruct (k =? j); [reflexivity|]. destruct (k =? i); reflexivity.
Qed.

Section Heap.
  Variable cmp : nat -> nat -> comparison.
  Hypothesis Hc : tpo cmp.

  Definition ge (a b : nat) : Prop := cmp a b <> Lt.
  Lemma ge_refl a : ge a a.
  Proof. unfold ge. destruct Hc as (Hr & _). rewrite Hr. congruence. Qed.
  Lemma ge_trans a b d : ge a b -> ge b d -> ge a d.
  Proof.
    unfold ge. destruct Hc as (_ & Ha & Ht). intros H1 H2.
    assert (X : cmp d b <> Gt) by (rewrite (Ha b d); destruct (cmp b d); cbn; congruence).
    assert (Y : cmp b a <> Gt) by (rewrite (Ha a b); destruct (cmp a b); cbn; congruence).
    pose proof (Ht d b a X Y) as Z. rewrite (Ha a d) in Z. destruct (cmp a d); cbn in Z; congruence.
  Qed.
  Lemma lt_ge a b : cmp a b = Lt -> ge b a.
  Proof. unfold ge. destruct Hc as (_ & Ha & _). intros H. rewrite (Ha a b), H. cbn. congruence. Qed.

  Definition par (i : nat) : nat := (i - 1) / 2.
  Definition heap_ok (h : list nat) : Prop := forall i, 0 < i < length h -> ge (hget h (par i)) (hget h i).

  Lemma root_max h : heap_ok h -> forall i, i < length h -> ge (hget h 0) (hget h i).
  Proof.
    intros H i. induction i as [i IH] using lt_wf_ind. intros Hi.
    destruct i as [|i]; [apply ge_refl|].
    apply ge_trans with (hget h (par (S i))).
    - apply IH; unfold par; lia.
    - apply H. lia.
  Qed.

  (* ---------------- sift_up *)
  Definition up_inv (h : list nat) (p : nat) : Prop :=
    (forall i, 0 < i < length h -> i <> p -> ge (hget h (par i)) (hget h i)) /\
    (forall i, 0 < i < length h -> par i = p -> 0 < p -> ge (hget h (par p)) (hget h i)).

  Lemma sift_up_ok fuel : forall h p, p < length h -> p <= fuel -> up_inv h p ->
    heap_ok (sift_up fuel cmp h p) /\ length (sift_up fuel cmp h p) = length h /\ Permutation (sift_up fuel cmp h p) h.
  Proof.
    induction fuel as [|f IH]; intros h p Hp Hf [U1 U2].
    - assert (p = 0) by lia. subst. cbn. split; [|split; [reflexivity|reflexivity]].
      intros i Hi. apply U1; lia.
    - cbn [sift_up]. destruct p as [|p'].
      + split; [|split; [reflexivity|reflexivity]]. intros i Hi. apply U1; lia.
      + set (p := S p') in *. fold (par p). set (q := par p).
        assert (Hq : q < p) by (unfold q, par, p; lia).
        destruct (cmp (hget h q) (hget h p)) eqn:E.
        * split; [|split; [reflexivity|reflexivity]]. intros i Hi.
          destruct (Nat.eq_dec i p) as [->|N]; [fold q; unfold ge; rewrite E; congruence|now apply U1].
        * (* swap and continue at the parent *)
          assert (Hqh : q < length h) by lia.
          assert (G : forall k, hget (hswap h q p) k = if k =? p then hget h q else if k =? q then hget h p else hget h k).
          { intros k. now apply hget_hswap. }
          assert (Gpq : ge (hget h p) (hget h q)) by (now apply lt_ge).
          destruct (IH (hswap h q p) q) as (R1 & R2 & R3).
          -- now rewrite hswap_length.
          -- lia.
          -- unfold up_inv. rewrite hswap_length. split.
             ++ intros i Hi Ni. rewrite !G.
                destruct (Nat.eq_dec i p) as [->|Nip].
                ** rewrite Nat.eqb_refl. fold q. replace (q =? p) with false by (symmetry; apply Nat.eqb_neq; lia).
                   rewrite Nat.eqb_refl. exact Gpq.
                ** replace (i =? p) with false by (symmetry; now apply Nat.eqb_neq).
                   replace (i =? q) with false by (symmetry; now apply Nat.eqb_neq).
                   destruct (Nat.eq_dec (par i) p) as [Ep|Np].
                   { rewrite Ep, Nat.eqb_refl. apply U2; [exact Hi|exact Ep|unfold p; lia]. }
                   replace (par i =? p) with false by (symmetry; now apply Nat.eqb_neq).
                   destruct (Nat.eq_dec (par i) q) as [Eq|Nq].
                   { rewrite Eq, Nat.eqb_refl. apply ge_trans with (hget h q); [exact Gpq|].
                     rewrite <- Eq. now apply U1. }
                   replace (par i =? q) with false by (symmetry; now apply Nat.eqb_neq). now apply U1.
             ++ intros i Hi Ei Hq0. rewrite !G.
                assert (Nqq : par q <> p /\ par q <> q) by (unfold par in *; lia).
                replace (par q =? p) with false by (symmetry; apply Nat.eqb_neq; lia).
                replace (par q =? q) with false by (symmetry; apply Nat.eqb_neq; lia).
                assert (Gq : ge (hget h (par q)) (hget h q)) by (apply U1; lia).
                destruct (Nat.eq_dec i p) as [->|Nip].
                ** rewrite Nat.eqb_refl. exact Gq.
                ** replace (i =? p) with false by (symmetry; now apply Nat.eqb_neq).
                   replace (i =? q) with false by (symmetry; apply Nat.eqb_neq; unfold par in *; lia).
                   apply ge_trans with (hget h q); [exact Gq|]. rewrite <- Ei. now apply U1.
          -- split; [exact R1|]. rewrite hswap_length in R2. split; [exact R2|].
             apply Permutation_trans with (hswap h q p); [exact R3|]. apply hswap_perm; lia.
        * split; [|split; [reflexivity|reflexivity]]. intros i Hi.
          destruct (Nat.eq_dec i p) as [->|N]; [fold q; unfold ge; rewrite E; congruence|now apply U1].
  Qed.

  (* ---------------- sift_down *)
  Definition down_inv (h : list nat) (p : nat) : Prop :=
    (forall i, 0 < i < length h -> par i <> p -> ge (hget h (par i)) (hget h i)) /\
    (forall i, 0 < i < length h -> par i = p -> 0 < p -> ge (hget h (par p)) (hget h i)).

  Lemma sift_down_ok fuel : forall h p, p < length h -> length h <= fuel + p -> down_inv h p ->
    heap_ok (sift_down fuel cmp h p) /\ length (sift_down fuel cmp h p) = length h /\ Permutation (sift_down fuel cmp h p) h.
  Proof.
    induction fuel as [|f IH]; intros h p Hp Hf [D1 D2]; [lia|].
    cbn [sift_down]. set (left := 2 * p + 1).
    destruct (length h <=? left) eqn:EL.
    - apply Nat.leb_le in EL. split; [|split; [reflexivity|reflexivity]].
      intros i Hi. apply D1; [exact Hi|]. unfold par, left in *. lia.
    - apply Nat.leb_gt in EL.
      set (w := if (left + 1 <? length h) && is_lt_c (cmp (hget h left) (hget h (left + 1))) then left + 1 else left).
      assert (Hw : w < length h /\ par w = p /\ p < w /\
                   forall i, 0 < i < length h -> par i = p -> ge (hget h w) (hget h i)).
      { unfold w. destruct (left + 1 <? length h) eqn:ER; cbn [andb].
        - apply Nat.ltb_lt in ER. destruct (cmp (hget h left) (hget h (left + 1))) eqn:EC; cbn [is_lt_c].
          + repeat split; try (unfold par, left; lia). intros i Hi Ei.
            assert (i = left \/ i = left + 1) as [->| ->] by (unfold par, left in *; lia); [apply ge_refl|].
            unfold ge. rewrite EC. congruence.
          + repeat split; try (unfold par, left; lia). intros i Hi Ei.
            assert (i = left \/ i = left + 1) as [->| ->] by (unfold par, left in *; lia); [now apply lt_ge|apply ge_refl].
          + repeat split; try (unfold par, left; lia). intros i Hi Ei.
            assert (i = left \/ i = left + 1) as [->| ->] by (unfold par, left in *; lia); [apply ge_refl|].
            unfold ge. rewrite EC. congruence.
        - apply Nat.ltb_ge in ER. repeat split; try (unfold par, left; lia). intros i Hi Ei.
          assert (i = left) as -> by (unfold par, left in *; lia). apply ge_refl. }
      destruct Hw as (Hw1 & Hw2 & Hw3 & HW). fold w.
      destruct (cmp (hget h p) (hget h w)) eqn:E.
      + split; [|split; [reflexivity|reflexivity]]. intros i Hi.
        destruct (Nat.eq_dec (par i) p) as [Ep|Np]; [|now apply D1].
        rewrite Ep. apply ge_trans with (hget h w); [unfold ge; rewrite E; congruence|now apply HW].
      + assert (G : forall k, hget (hswap h p w) k = if k =? w then hget h p else if k =? p then hget h w else hget h k).
        { intros k. now apply hget_hswap. }
        assert (Gwp : ge (hget h w) (hget h p)) by (now apply lt_ge).
        destruct (IH (hswap h p w) w) as (R1 & R2 & R3).
        * now rewrite hswap_length.
        * rewrite hswap_length. lia.
        * unfold down_inv. rewrite hswap_length. split.
          -- intros i Hi Ni. rewrite !G.
             destruct (Nat.eq_dec i w) as [->|Niw].
             ++ rewrite Nat.eqb_refl, Hw2. replace (p =? w) with false by (symmetry; apply Nat.eqb_neq; lia).
                rewrite Nat.eqb_refl. exact Gwp.
             ++ replace (i =? w) with false by (symmetry; now apply Nat.eqb_neq).
                replace (par i =? w) with false by (symmetry; now apply Nat.eqb_neq).
                destruct (Nat.eq_dec i p) as [->|Nip].
                ** rewrite Nat.eqb_refl. assert (par p <> p) by (unfold par in *; lia).
                   replace (par p =? p) with false by (symmetry; now apply Nat.eqb_neq).
                   apply D2; [lia|exact Hw2|lia].
                ** replace (i =? p) with false by (symmetry; now apply Nat.eqb_neq).
                   destruct (Nat.eq_dec (par i) p) as [Ep|Np].
                   { rewrite Ep, Nat.eqb_refl. now apply HW. }
                   replace (par i =? p) with false by (symmetry; now apply Nat.eqb_neq). now apply D1.
          -- intros i Hi Ei _. rewrite !G. rewrite Hw2.
             replace (p =? w) with false by (symmetry; apply Nat.eqb_neq; lia). rewrite Nat.eqb_refl.
             assert (i <> w /\ i <> p) by (unfold par in *; lia).
             replace (i =? w) with false by (symmetry; apply Nat.eqb_neq; lia).
             replace (i =? p) with false by (symmetry; apply Nat.eqb_neq; lia).
             rewrite <- Ei. apply D1; [exact Hi|lia].
        * split; [exact R1|]. rewrite hswap_length in R2. split; [exact R2|].
          apply Permutation_trans with (hswap h p w); [exact R3|]. apply hswap_perm; lia.
      + split; [|split; [reflexivity|reflexivity]]. intros i Hi.
        destruct (Nat.eq_dec (par i) p) as [Ep|Np]; [|now apply D1].
        rewrite Ep. apply ge_trans with (hget h w); [unfold ge; rewrite E; congruence|now apply HW].
  Qed.
End Heap.

(* ------------------------------------------------------------------ the top-k loop *)
Lemma nth_error_seq0 n i : i < n -> nth_error (seq 0 n) i = Some i.
Proof. intros H. rewrite (nth_error_nth' _ 0) by (now rewrite seq_length). now rewrite seq_nth. Qed.

Lemma hget_app1 h x i : i < length h -> hget (h ++ [x]) i = hget h i.
Proof. intros H. unfold hget. now apply app_nth1. Qed.

Section TopK.
  Variable cmp : nat -> nat -> comparison.
  Hypothesis Hc : tpo cmp.
  Variable limit : nat.
  Hypothesis Hlim : 0 < limit.

  Definition tk_inv (heap : list nat) (m : nat) : Prop :=
    NoDup heap /\ (forall x, In x heap -> x < m) /\ length heap = Nat.min limit m /\ heap_ok cmp heap /\
    (forall y, y < m -> ~ In y heap -> forall x, In x heap -> cmp x y <> Gt).

  Lemma ge_not_gt a b : ge cmp a b -> cmp b a <> Gt.
  Proof. unfold ge. destruct Hc as (_ & Ha & _). intros H. rewrite (Ha a b). destruct (cmp a b); cbn; congruence. Qed.

  Lemma root_ge heap root t x : heap = root :: t -> heap_ok cmp heap -> In x heap -> cmp x root <> Gt.
  Proof.
    intros E H Hx. apply ge_not_gt. destruct (In_nth heap x 0 Hx) as (i & Hi & Ei).
    pose proof (root_max cmp Hc heap H i Hi) as G. unfold hget in G. rewrite Ei in G. rewrite E in G at 1. exact G.
  Qed.

  Lemma step_inv heap m : tk_inv heap m -> tk_inv (topk_step limit cmp heap m) (S m).
  Proof.
    intros (Hnd & Hlt & Hlen & Hok & Hom). unfold topk_step.
    destruct (length heap <? limit) eqn:EL.
    - apply Nat.ltb_lt in EL. assert (Hm : length heap = m) by lia.
      destruct (sift_up_ok cmp Hc (length heap) (heap ++ [m]) (length heap)) as (R1 & R2 & R3).
      + rewrite app_length. cbn. lia.
      + lia.
      + split.
        * intros i Hi Ni. rewrite app_length in Hi. cbn in Hi.
          rewrite !hget_app1 by (unfold par; lia). apply Hok. lia.
        * intros i Hi Ei Hp. rewrite app_length in Hi. cbn in Hi. unfold par in Ei. lia.
      + rewrite app_length in R2. cbn in R2.
        assert (Hnd' : NoDup (heap ++ [m])).
        { apply (Permutation_NoDup (l := m :: heap)); [apply Permutation_cons_append|].
          constructor; [intros Hx; apply Hlt in Hx; lia|exact Hnd]. }
        split; [|split; [|split; [|split]]].
        * apply (Permutation_NoDup (Permutation_sym R3)). exact Hnd'.
        * intros x Hx. apply (Permutation_in _ R3) in Hx. apply in_app_or in Hx. destruct Hx as [Hx|[<-|[]]]; [apply Hlt in Hx|]; lia.
        * lia.
        * exact R1.
        * intros y Hy Hny. exfalso. apply Hny. apply (Permutation_in _ (Permutation_sym R3)).
          apply in_or_app. destruct (Nat.eq_dec y m) as [->|Ny]; [right; now left|left].
          assert (Inc : incl (seq 0 m) heap).
          { apply NoDup_length_incl; [exact Hnd|rewrite seq_length; lia|]. intros x Hx. apply in_seq. apply Hlt in Hx. lia. }
          apply Inc. apply in_seq. lia.
    - apply Nat.ltb_ge in EL. assert (Hl : length heap = limit /\ limit <= m) by lia. destruct Hl as [Hl Hlm].
      destruct heap as [|root t] eqn:Eh; [cbn in Hl; lia|]. rewrite <- Eh in *.
      assert (Hroot : In root heap) by (rewrite Eh; now left).
      destruct (cmp m root) eqn:E.
      + (* not better than the worst retained row: omitted *)
        split; [exact Hnd|]. split; [intros x Hx; apply Hlt in Hx; lia|]. split; [lia|]. split; [exact Hok|].
        intros y Hy Hny x Hx. destruct (Nat.eq_dec y m) as [->|Ny]; [|apply Hom; [lia|exact Hny|exact Hx]].
        destruct Hc as (_ & Ha & Ht). apply (Ht x root m); [now apply (root_ge heap root t)|].
        rewrite (Ha m root), E. cbn. congruence.
      + (* replaces the root *)
        assert (Eu : upd heap 0 m = m :: t) by (rewrite Eh; reflexivity).
        destruct (sift_down_ok cmp Hc (length heap) (upd heap 0 m) 0) as (R1 & R2 & R3).
        * rewrite upd_length, Eh. cbn. lia.
        * rewrite upd_length. lia.
        * rewrite Eu. split.
          -- intros i Hi Np. assert (par i <> 0 /\ i <> 0) as [P1 P2] by (unfold par in *; lia).
             unfold hget. destruct i as [|i]; [lia|]. destruct (par (S i)) as [|q] eqn:Eq; [lia|]. cbn [nth].
             pose proof (Hok (S i)) as K. rewrite Eh in K. cbn [length] in K, Hi. specialize (K Hi).
             rewrite Eq in K. unfold hget in K. cbn [nth] in K. exact K.
          -- intros i Hi Ei Hp. lia.
        * rewrite upd_length in R2. rewrite Eu in R1, R2, R3 |- *.
          assert (Hnt : NoDup t /\ ~ In root t) by (rewrite Eh in Hnd; inversion Hnd; auto). destruct Hnt as [Hndt Hrt].
          assert (Hmt : ~ In m t). { intros Hx. assert (In m heap) by (rewrite Eh; now right). apply Hlt in H. lia. }
          split; [|split; [|split; [|split]]].
          -- apply (Permutation_NoDup (Permutation_sym R3)). now constructor.
          -- intros x Hx. apply (Permutation_in _ R3) in Hx. destruct Hx as [<-|Hx]; [lia|].
             assert (In x heap) by (rewrite Eh; now right). apply Hlt in H. lia.
          -- lia.
          -- exact R1.
          -- intros y Hy Hny x Hx. apply (Permutation_in _ R3) in Hx.
             assert (Hny' : y <> m /\ ~ In y t).
             { split; [intros ->|intros Hyt]; apply Hny; apply (Permutation_in _ (Permutation_sym R3)); [now left|now right]. }
             destruct Hny' as [Nym Nyt].
             destruct (Nat.eq_dec y root) as [->|Nyr].
             ++ destruct Hx as [<-|Hx]; [rewrite E; congruence|].
                apply (root_ge heap root t); [exact Eh|exact Hok|rewrite Eh; now right].
             ++ assert (Hyh : ~ In y heap) by (rewrite Eh; intros [Z|Z]; [congruence|contradiction]).
                destruct Hx as [<-|Hx].
                ** assert (X : cmp m y = Lt).
                   { apply (tpo_lt_le cmp Hc m root y E). apply Hom; [lia|exact Hyh|exact Hroot]. }
                   rewrite X. congruence.
                ** apply Hom; [lia|exact Hyh|rewrite Eh; now right].
      + split; [exact Hnd|]. split; [intros x Hx; apply Hlt in Hx; lia|]. split; [lia|]. split; [exact Hok|].
        intros y Hy Hny x Hx. destruct (Nat.eq_dec y m) as [->|Ny]; [|apply Hom; [lia|exact Hny|exact Hx]].
        destruct Hc as (_ & Ha & Ht). apply (Ht x root m); [now apply (root_ge heap root t)|].
        rewrite (Ha m root), E. cbn. congruence.
  Qed.

  Lemma fold_inv k : forall heap m, tk_inv heap m -> tk_inv (fold_left (topk_step limit cmp) (seq m k) heap) (m + k).
  Proof.
    induction k as [|k IH]; intros heap m H; [now rewrite Nat.add_0_r|].
    cbn [seq fold_left]. replace (m + S k) with (S m + k) by lia. apply IH. now apply step_inv.
  Qed.

  Lemma topk_heap_inv n : tk_inv (topk_heap n limit cmp) n.
  Proof.
    unfold topk_heap. apply (fold_inv n [] 0).
    split; [constructor|]. split; [intros x []|]. split; [cbn; lia|]. split; [intros i Hi; cbn in Hi; lia|intros y Hy]. lia.
  Qed.

  (* lexsort_topk's result passes the sort predicate for the comparator it was run with *)
  Theorem lexsort_topk_check (so : (nat -> nat -> comparison) -> list nat -> list nat) n :
    sort_contract so -> sort_check cmp (seq 0 n) (Some limit) (lexsort_topk so n limit cmp) = 1%Z.
  Proof.
    intros Hso. unfold lexsort_topk. set (heap := topk_heap n limit cmp).
    destruct (topk_heap_inv n) as (Hnd & Hlt & Hlen & _ & Hom). fold heap in Hnd, Hlt, Hlen, Hom.
    destruct (Hso cmp heap Hc) as [P S].
    set (res := so cmp heap) in *.
    set (mem := fun y => existsb (Nat.eqb y) heap).
    assert (Hmem : forall y, mem y = true <-> In y heap).
    { intros y. unfold mem. rewrite existsb_exists. split; [intros (x & Hx & E); apply Nat.eqb_eq in E; now subst|].
      intros Hy. exists y. split; [exact Hy|apply Nat.eqb_refl]. }
    set (omitted := filter (fun y => negb (mem y)) (seq 0 n)).
    assert (Lres : length res = Nat.min limit n) by (rewrite (Permutation_length P); exact Hlen).
    assert (Elim : out_len (length (seq 0 n)) (Some limit) = length res) by (unfold out_len; rewrite seq_length; lia).
    assert (Efirst : firstn (length res) (res ++ omitted) = res).
    { rewrite firstn_app, Nat.sub_diag, firstn_all. cbn. apply app_nil_r. }
    rewrite <- Efirst. rewrite <- Elim.
    apply (sort_check_firstn cmp (seq 0 n) (fun i => i)).
    - intros i Hi. rewrite seq_length in Hi. now apply nth_error_seq0.
    - rewrite seq_length.
      apply Permutation_trans with (filter mem (seq 0 n) ++ omitted); [|apply filter_perm].
      apply Permutation_app_tail. apply Permutation_trans with heap; [exact P|].
      apply NoDup_Permutation; [exact Hnd|apply NoDup_filter, seq_NoDup|].
      intros x. rewrite filter_In, Hmem, in_seq. split; [intros Hx; split; [apply Hlt in Hx; lia|exact Hx]|tauto].
    - rewrite Elim. apply le_after_app.
      + now apply sortedb_le_after.
      + intros x y Hx Hy. apply (Permutation_in _ P) in Hx. unfold omitted in Hy. apply filter_In in Hy.
        destruct Hy as [Hy1 Hy2]. apply in_seq in Hy1. apply Hom; [lia| |exact Hx].
        intros Hin. apply Hmem in Hin. rewrite Hin in Hy2. discriminate.
      + rewrite Nat.sub_diag. exact I.
  Qed.
End TopK.
