(* C13 — decimal text: the mathematical reading of a decimal literal (parse_dec_spec) applied to
   the text format_decimal_str produces for any value within the declared precision returns the
   value: sign, leading "0.", zero padding of the fraction and the position of the point are
   consistent between the formatter and the parser. *)
From Coq Require Import List ZArith Bool Lia.
From AV Require Import Base.ListX Model.C13_Num Model.C13_Decimal Model.C13_Text Proofs.C13_Pow Proofs.C13_Rescale Proofs.C13_TextInt.
Import ListNotations.
Local Open Scope Z_scope.

Definition nonws (c : Z) : Prop := is_ws c = false.
Definition digitc (c : Z) : Prop := 48 <= c <= 57.

Lemma digitc_props : forall c, digitc c -> is_ws c = false /\ is_digit c = true /\ c <> POINT /\ c <> MINUS /\ c <> PLUS.
Proof.
  intros c [L U]. unfold is_ws, is_ascii_ws, is_digit, POINT, MINUS, PLUS.
  assert (E1 : (c =? 32) = false) by (apply Z.eqb_neq; lia).
  assert (E2 : (c =? 9) = false) by (apply Z.eqb_neq; lia).
  assert (E3 : (c =? 10) = false) by (apply Z.eqb_neq; lia).
  assert (E4 : (c =? 12) = false) by (apply Z.eqb_neq; lia).
  assert (E5 : (c =? 13) = false) by (apply Z.eqb_neq; lia).
  assert (E6 : (c =? 11) = false) by (apply Z.eqb_neq; lia).
  rewrite E1, E2, E3, E4, E5, E6. repeat split; try lia.
  all: try (apply andb_true_iff; split; apply Z.leb_le; lia).
Qed.

Lemma chars_digitc : forall ds, Forall digit ds -> Forall digitc (chars_of ds).
Proof.
  intros ds H. unfold chars_of. apply Forall_map. eapply Forall_impl; [|exact H].
  intros d [L U]. unfold digitc, ZERO. lia.
Qed.
Lemma vals_chars : forall ds, vals_of (chars_of ds) = ds.
Proof.
  intros ds. unfold vals_of, chars_of. rewrite map_map. rewrite <- (map_id ds) at 2. apply map_ext. intros d. lia.
Qed.
Lemma forallb_digits : forall cs, Forall digitc cs -> forallb is_digit cs = true.
Proof.
  intros cs H. apply forallb_forall. intros c Hc. rewrite Forall_forall in H. apply (digitc_props c (H c Hc)).
Qed.

Lemma trim_id : forall l, Forall nonws l -> trim_start is_ws (trim_end is_ws l) = l.
Proof.
  intros l H.
  assert (E : trim_end is_ws l = l).
  { unfold trim_end. assert (Hr : Forall nonws (rev l)) by (apply Forall_rev; assumption).
    destruct (rev l) as [|c r] eqn:R.
    - cbn. rewrite <- (rev_involutive l), R. reflexivity.
    - inversion Hr as [|? ? Hc _]; subst. cbn [drop_while]. unfold nonws in Hc. rewrite Hc.
      rewrite <- R. apply rev_involutive. }
  rewrite E. unfold trim_start. destruct l as [|c r]; [reflexivity|].
  inversion H as [|? ? Hc _]; subst. cbn [drop_while]. unfold nonws in Hc. rewrite Hc. reflexivity.
Qed.

Lemma split_point_nopoint : forall l, Forall (fun c => c <> POINT) l -> split_point l = (l, None).
Proof.
  induction l as [|c r IH]; intros H; [reflexivity|].
  inversion H as [|? ? Hc Hr]; subst. cbn [split_point].
  destruct (Z.eqb_spec c POINT); [contradiction|]. rewrite (IH Hr). reflexivity.
Qed.
Lemma split_point_at : forall l1 l2, Forall (fun c => c <> POINT) l1 -> split_point (l1 ++ POINT :: l2) = (l1, Some l2).
Proof.
  induction l1 as [|c r IH]; intros l2 H.
  - cbn [app split_point]. rewrite Z.eqb_refl. reflexivity.
  - inversion H as [|? ? Hc Hr]; subst. cbn [app split_point].
    destruct (Z.eqb_spec c POINT); [contradiction|]. rewrite (IH l2 Hr). reflexivity.
Qed.

Lemma digitc_nopoint : forall cs, Forall digitc cs -> Forall (fun c => c <> POINT) cs.
Proof. intros cs H. eapply Forall_impl; [|exact H]. intros c Hc. apply (digitc_props c Hc). Qed.
Lemma digitc_nonws : forall cs, Forall digitc cs -> Forall nonws cs.
Proof. intros cs H. eapply Forall_impl; [|exact H]. intros c Hc. apply (digitc_props c Hc). Qed.

(* the canonical literal  [-] int-digits [ . fraction-digits ]  with exactly `scale` fraction digits *)
Definition canon (neg : bool) (ip fp : list Z) : list Z :=
  (if neg then [MINUS] else []) ++ chars_of ip ++ (match fp with [] => [] | _ => POINT :: chars_of fp end).

Lemma parse_canon : forall w p s (neg : bool) ip fp,
  0 <= s -> Forall digit ip -> Forall digit fp -> ip <> [] -> length fp = Z.to_nat s ->
  let A := dv 0 (ip ++ fp) in
  let v := if neg then - A else A in
  fits w true v = true -> in_prec p v = true ->
  parse_dec_spec w p s (canon neg ip fp) = Some v.
Proof.
  intros w p s neg ip fp Hs Hip Hfp Hne Hlen A v Hfit Hprec.
  pose proof (chars_digitc ip Hip) as Cip. pose proof (chars_digitc fp Hfp) as Cfp.
  assert (NW : Forall nonws (canon neg ip fp)).
  { unfold canon. apply Forall_app. split.
    - destruct neg; constructor; [reflexivity|constructor].
    - apply Forall_app. split; [apply digitc_nonws; assumption|].
      destruct fp; [constructor|]. constructor; [reflexivity|apply digitc_nonws; assumption]. }
  unfold parse_dec_spec. rewrite (trim_id _ NW).
  (* sign *)
  assert (Hbody : (match canon neg ip fp with
                   | b :: r => if b =? MINUS then (true, r) else if b =? PLUS then (false, r) else (false, canon neg ip fp)
                   | [] => (false, []) end)
                  = (neg, chars_of ip ++ (match fp with [] => [] | _ => POINT :: chars_of fp end))).
  { unfold canon. destruct neg.
    - cbn [app]. rewrite Z.eqb_refl. reflexivity.
    - cbn [app]. destruct ip as [|d ip']; [congruence|]. cbn [chars_of map app].
      inversion Cip as [|? ? Hc _]; subst. destruct (digitc_props _ Hc) as (_ & _ & _ & Hm & Hp).
      destruct (Z.eqb_spec (d + ZERO) MINUS); [contradiction|]. destruct (Z.eqb_spec (d + ZERO) PLUS); [contradiction|]. reflexivity. }
  rewrite Hbody. clear Hbody.
  (* split at the point *)
  assert (Hsp : split_point (chars_of ip ++ (match fp with [] => [] | _ => POINT :: chars_of fp end))
                = (chars_of ip, match fp with [] => None | _ => Some (chars_of fp) end)).
  { destruct fp as [|f fp'].
    - rewrite app_nil_r. apply split_point_nopoint. apply digitc_nopoint. assumption.
    - apply split_point_at. apply digitc_nopoint. assumption. }
  rewrite Hsp. clear Hsp.
  set (fpc := match match fp with [] => None | _ :: _ => Some (chars_of fp) end with Some f => f | None => [] end).
  assert (Efpc : fpc = chars_of fp) by (subst fpc; destruct fp; reflexivity).
  rewrite Efpc.
  rewrite (forallb_digits _ Cip), (forallb_digits _ Cfp). cbn [andb negb].
  assert (Hnonempty : (match chars_of ip ++ chars_of fp with [] => true | _ => false end) = false).
  { destruct ip; [congruence|]. reflexivity. }
  rewrite Hnonempty.
  assert (Lc : length (chars_of fp) = Z.to_nat s) by (unfold chars_of; rewrite map_length; assumption).
  rewrite firstn_all2 by lia.
  assert (Hnth : nth_error (chars_of fp) (Z.to_nat s) = None) by (apply nth_error_None; lia).
  rewrite Hnth. rewrite Lc, Z2Nat.id by assumption. rewrite Z.sub_diag. change (10 ^ 0) with 1. rewrite Z.mul_1_r.
  unfold vals_of. rewrite map_app. fold (vals_of (chars_of ip)). fold (vals_of (chars_of fp)). rewrite !vals_chars.
  rewrite digits_val_dv. fold A. fold v. rewrite Hfit, Hprec. reflexivity.
Qed.

(* ---- the formatter produces the canonical literal *)
Lemma digits_of_small : forall n, 0 <= n < 10 -> digits_of n = [n].
Proof.
  intros n H. unfold digits_of. cbn [digits_fuel]. destruct (Z.ltb_spec n 10); [reflexivity|lia].
Qed.

Lemma dv_zeros : forall k ds, dv 0 (repeat 0 k ++ ds) = dv 0 ds.
Proof. induction k as [|k IH]; intros ds; [reflexivity|]. cbn [repeat app]. rewrite dv_cons. exact (IH ds). Qed.

Lemma digits_len_bound : forall A p, 1 <= p -> 0 <= A < 10 ^ p -> (length (digits_of A) <= Z.to_nat p)%nat.
Proof.
  intros A p Hp HA. destruct (Z.lt_ge_cases A 10) as [Hs|Hb].
  - rewrite digits_of_small by lia. cbn. lia.
  - destruct (digits_of_spec A ltac:(lia)) as (Hne & Hd & Hv & Hh).
    destruct (digits_of A) as [|d r]; [congruence|].
    pose proof (Forall_inv Hd) as D1. pose proof (Forall_inv_tail Hd) as D2. specialize (Hh ltac:(lia)). cbn in Hh.
    rewrite dv_cons, dv_linear in Hv. pose proof (dv_ge r 0 ltac:(lia) D2) as G.
    assert (Hpow : 10 ^ Z.of_nat (length r) <= A).
    { pose proof (pow10_pos (Z.of_nat (length r)) ltac:(lia)). nia. }
    assert (Z.of_nat (length r) < p).
    { apply (Z.pow_lt_mono_r_iff 10); lia. }
    cbn [length]. lia.
Qed.

Lemma chars_firstn : forall k ds, firstn k (chars_of ds) = chars_of (firstn k ds).
Proof. intros. unfold chars_of. apply firstn_map. Qed.
Lemma chars_skipn : forall k ds, skipn k (chars_of ds) = chars_of (skipn k ds).
Proof. intros. unfold chars_of. apply skipn_map. Qed.
Lemma chars_app : forall a b, chars_of (a ++ b) = chars_of a ++ chars_of b.
Proof. intros. unfold chars_of. apply map_app. Qed.
Lemma chars_repeat0 : forall k, repeat ZERO k = chars_of (repeat 0 k).
Proof. induction k; [reflexivity|]. cbn [repeat chars_of map]. f_equal. exact IHk. Qed.

Theorem fmt_dec_canon : forall v p s, 1 <= p -> 0 <= s -> Z.abs v < 10 ^ p ->
  exists ip fp, fmt_dec v p s = canon (v <? 0) ip fp
    /\ Forall digit ip /\ Forall digit fp /\ ip <> [] /\ length fp = Z.to_nat s /\ dv 0 (ip ++ fp) = Z.abs v.
Proof.
  intros v p s Hp Hs Hv.
  destruct (digits_of_spec (Z.abs v) (Z.abs_nonneg v)) as (Hne & Hd & Hval & _).
  pose proof (digits_len_bound (Z.abs v) p Hp ltac:(lia)) as HL.
  set (ds := digits_of (Z.abs v)) in *.
  unfold fmt_dec. fold ds. cbv zeta.
  assert (Lr : length (chars_of ds) = length ds) by (unfold chars_of; apply map_length).
  rewrite Lr, Nat.min_r by lia. rewrite <- Lr, firstn_all, Lr.
  set (sign := if v <? 0 then [MINUS] else []).
  destruct (Z.eqb_spec s 0) as [->|Hs0].
  - (* scale 0 *)
    exists ds, []. unfold canon. fold sign. rewrite !app_nil_r. repeat split; try assumption; try reflexivity; try (apply Forall_nil).
  - destruct (Z.ltb_spec s 0); [lia|].
    destruct (Z.gtb_spec (Z.of_nat (length ds)) s) as [Hgt|Hle].
    + (* the point falls inside the digits *)
      set (k := (length ds - Z.to_nat s)%nat).
      exists (firstn k ds), (skipn k ds).
      assert (Hk : (length (sign ++ chars_of ds) - Z.to_nat s = length sign + k)%nat).
      { rewrite app_length, Lr. subst k. lia. }
      rewrite Hk. rewrite firstn_app_2, skipn_app.
      replace (length sign + k - length sign)%nat with k by lia.
      rewrite (skipn_all2 sign) by lia. cbn [app].
      rewrite chars_firstn, chars_skipn.
      assert (Hsk : skipn k ds <> []).
      { intros E. assert (L : length (skipn k ds) = 0%nat) by (rewrite E; reflexivity). rewrite skipn_length in L. subst k. lia. }
      split.
      * unfold canon. fold sign. rewrite <- app_assoc. f_equal. f_equal.
        destruct (skipn k ds) eqn:E; [congruence|]. reflexivity.
      * split; [apply Forall_firstn'|]. 2: split; [apply Forall_skipn'|].
        all: try assumption.
        split; [intros E; assert (L : length (firstn k ds) = 0%nat) by (rewrite E; reflexivity); rewrite firstn_length in L; subst k; lia|].
        split; [rewrite skipn_length; subst k; lia|]. rewrite firstn_skipn. assumption.
    + (* "0." followed by zero padding *)
      exists [0], (repeat 0 (Z.to_nat s - length ds) ++ ds).
      split.
      * unfold canon. fold sign. f_equal. cbn [chars_of map app]. unfold pad_left.
        rewrite Lr, chars_repeat0, <- chars_app.
        destruct (repeat 0 (Z.to_nat s - length ds) ++ ds) eqn:E.
        -- apply app_eq_nil in E. destruct E as [_ E]. congruence.
        -- reflexivity.
      * split; [constructor; [unfold digit; lia|constructor]|].
        split; [apply Forall_app; split; [apply Forall_forall; intros x Hx; apply repeat_spec in Hx; subst; unfold digit; lia|assumption]|].
        split; [discriminate|].
        split; [rewrite app_length, repeat_length; lia|].
        cbn [app]. rewrite dv_cons. change (0 * 10 + 0) with 0. rewrite dv_zeros. assumption.
Qed.

Theorem decimal_text_roundtrip_spec : forall w p s v,
  In w widths -> 1 <= p <= dec_maxp w -> 0 <= s -> Z.abs v < 10 ^ p ->
  parse_dec_spec w p s (fmt_dec v p s) = Some v.
Proof.
  intros w p s v Hw Hp Hs Hv.
  destruct (fmt_dec_canon v p s ltac:(lia) Hs Hv) as (ip & fp & E & Hip & Hfp & Hne & Hlen & Hval).
  rewrite E.
  assert (Ev : (if v <? 0 then - dv 0 (ip ++ fp) else dv 0 (ip ++ fp)) = v).
  { rewrite Hval. destruct (Z.ltb_spec v 0); lia. }
  pose proof (parse_canon w p s (v <? 0) ip fp Hs Hip Hfp Hne Hlen) as P. cbv zeta in P. rewrite Ev in P.
  apply P.
  - apply (in_prec_fits w p); [assumption|lia|assumption].
  - apply in_prec_true. assumption.
Qed.
