(* C20 — the LIKE matcher: rewrites of the reference matcher (plain / prefix / suffix / infix),
   characterisations of the byte-level kernels, soundness of the regex_like translation. *)
From Coq Require Import List NArith ZArith Arith Lia Bool.
From AV Require Import Base.Utf8 Model.C20_Like.
Import ListNotations.
Local Open Scope N_scope.

Lemma bool_eq_iff (a b : bool) : (a = true <-> b = true) -> a = b.
Proof. destruct a, b; intuition congruence. Qed.

(* ------------------------------------------------------------------ generic list predicates *)
Section Gen.
Variable eqc : N -> N -> bool.
Notation R := (fun x y => eqc x y = true).

Lemma eqlist_by_iff a b : eqlist_by eqc a b = true <-> Forall2 R a b.
Proof.
  revert b. induction a as [|x a IH]; intros [|y b]; cbn [eqlist_by].
  - split; [constructor|reflexivity].
  - split; [discriminate|inversion 1].
  - split; [discriminate|inversion 1].
  - destruct (eqc x y) eqn:E.
    + rewrite IH. split; [now constructor|]. now inversion 1.
    + split; [discriminate|]. inversion 1; congruence.
Qed.

Lemma prefix_by_iff n h : prefix_by eqc n h = true <-> exists h1 h2, h = h1 ++ h2 /\ Forall2 R h1 n.
Proof.
  revert h. induction n as [|c n IH]; intros h; cbn [prefix_by].
  - split; [intros _; exists [], h; split; [reflexivity|constructor]|reflexivity].
  - destruct h as [|x h].
    + split; [discriminate|]. intros (h1 & h2 & E & F). inversion F; subst. discriminate.
    + destruct (eqc x c) eqn:E.
      * rewrite IH. split.
        -- intros (h1 & h2 & -> & F). exists (x :: h1), h2. split; [reflexivity|now constructor].
        -- intros (h1 & h2 & E' & F). inversion F; subst. inversion E'; subst. eauto.
      * split; [discriminate|]. intros (h1 & h2 & E' & F). inversion F; subst. inversion E'; subst. congruence.
Qed.

Lemma exists_tail_unfold f s :
  exists_tail f s = if f s then true else match s with [] => false | _ :: s' => exists_tail f s' end.
Proof. destruct s; reflexivity. Qed.

Lemma exists_tail_iff f h : exists_tail f h = true <-> exists l t, h = l ++ t /\ f t = true.
Proof.
  induction h as [|x h IH]; rewrite exists_tail_unfold.
  - destruct (f []) eqn:E.
    + split; [intros _; exists [], []; auto|reflexivity].
    + split; [discriminate|]. intros (l & t & E' & Ft). symmetry in E'. apply app_eq_nil in E' as [-> ->]. congruence.
  - destruct (f (x :: h)) eqn:E.
    + split; [intros _; exists [], (x :: h); auto|reflexivity].
    + rewrite IH. split.
      * intros (l & t & -> & Ft). exists (x :: l), t. auto.
      * intros (l & t & E' & Ft). destruct l as [|y l]; cbn in E'.
        -- subst t. congruence.
        -- inversion E'; subst. eauto.
Qed.

Lemma exists_tail_ext f g s : (forall t, f t = g t) -> exists_tail f s = exists_tail g s.
Proof.
  intros H. induction s as [|x s IH]; rewrite (exists_tail_unfold f), (exists_tail_unfold g), H; [reflexivity|].
  now rewrite IH.
Qed.

Lemma Forall2_rev_R a b : Forall2 R a b -> Forall2 R (rev a) (rev b).
Proof.
  induction 1 as [|x y a b Hxy _ IH]; [constructor|]. cbn. apply Forall2_app; [exact IH|]. now repeat constructor.
Qed.
Lemma Forall2_rev_iff a b : Forall2 R (rev a) (rev b) <-> Forall2 R a b.
Proof.
  split; [|apply Forall2_rev_R]. intros H. apply Forall2_rev_R in H. now rewrite !rev_involutive in H.
Qed.

(* ---- the byte-level kernels of predicate.rs *)
Lemma bytes_starts_with_prefix h n : bytes_starts_with eqc h n = prefix_by eqc n h.
Proof.
  unfold bytes_starts_with. revert h. induction n as [|c n IH]; intros h.
  - cbn. destruct h; reflexivity.
  - destruct h as [|x h]; [reflexivity|].
    cbn [length prefix_by zip_all]. change (S (length h) <? S (length n))%nat with (length h <? length n)%nat.
    specialize (IH h). destruct (length h <? length n)%nat.
    + rewrite <- IH. now destruct (eqc x c).
    + now rewrite IH.
Qed.

Lemma bytes_starts_with_iff h n :
  bytes_starts_with eqc h n = true <-> exists h1 h2, h = h1 ++ h2 /\ Forall2 R h1 n.
Proof. rewrite bytes_starts_with_prefix. apply prefix_by_iff. Qed.

Lemma bytes_ends_with_iff h n :
  bytes_ends_with eqc h n = true <-> exists h1 h2, h = h1 ++ h2 /\ Forall2 R h2 n.
Proof.
  assert (E : bytes_ends_with eqc h n = bytes_starts_with eqc (rev h) (rev n)).
  { unfold bytes_ends_with, bytes_starts_with. now rewrite !rev_length. }
  rewrite E, bytes_starts_with_iff. split.
  - intros (h1 & h2 & Eh & F). apply (f_equal (@rev N)) in Eh. rewrite rev_involutive, rev_app_distr in Eh.
    exists (rev h2), (rev h1). split; [exact Eh|]. apply Forall2_rev_iff. now rewrite rev_involutive.
  - intros (h1 & h2 & -> & F). exists (rev h2), (rev h1). rewrite rev_app_distr. split; [reflexivity|].
    now apply Forall2_rev_iff.
Qed.

Lemma ends_with_by_iff h n :
  exists_tail (fun t => eqlist_by eqc t n) h = true <-> exists h1 h2, h = h1 ++ h2 /\ Forall2 R h2 n.
Proof.
  rewrite exists_tail_iff. split; intros (l & t & E & F); exists l, t; (split; [exact E|]); now apply eqlist_by_iff.
Qed.

Lemma bytes_ends_with_suffix h n : bytes_ends_with eqc h n = exists_tail (fun t => eqlist_by eqc t n) h.
Proof. apply bool_eq_iff. now rewrite bytes_ends_with_iff, ends_with_by_iff. Qed.

Lemma Forall2_length_R a b : Forall2 R a b -> length a = length b.
Proof. induction 1; cbn; congruence. Qed.

Lemma zip_all_eqlen a b : length a = length b -> zip_all eqc a b = eqlist_by eqc a b.
Proof.
  revert b. induction a as [|x a IH]; intros [|y b] L; try discriminate; [reflexivity|].
  cbn. rewrite IH by (cbn in L; congruence). reflexivity.
Qed.
Lemma equals_bytes_eqlist a b : equals_bytes eqc a b = eqlist_by eqc a b.
Proof.
  unfold equals_bytes. destruct (Nat.eqb_spec (length a) (length b)) as [L|L]; [now apply zip_all_eqlen|].
  symmetry. apply not_true_is_false. intros H. apply eqlist_by_iff, Forall2_length_R in H. contradiction.
Qed.

(* ---- StringViewArray prefix / suffix fast paths *)
Lemma view_prefix_path h v : equals_bytes eqc (view_prefix (length v) h) v = bytes_starts_with eqc h v.
Proof.
  apply bool_eq_iff. rewrite equals_bytes_eqlist, eqlist_by_iff, bytes_starts_with_iff. unfold view_prefix.
  destruct (Nat.ltb_spec (length h) (length v)) as [L|L].
  - split.
    + intros F. apply Forall2_length_R in F. cbn in F. lia.
    + intros (h1 & h2 & -> & F). apply Forall2_length_R in F. rewrite app_length in L. lia.
  - split.
    + intros F. exists (firstn (length v) h), (skipn (length v) h). now rewrite firstn_skipn.
    + intros (h1 & h2 & -> & F). pose proof (Forall2_length_R _ _ F) as E. rewrite <- E.
      rewrite firstn_app, Nat.sub_diag, firstn_all. cbn. now rewrite app_nil_r.
Qed.
Lemma view_suffix_path h v : equals_bytes eqc (view_suffix (length v) h) v = bytes_ends_with eqc h v.
Proof.
  apply bool_eq_iff. rewrite equals_bytes_eqlist, eqlist_by_iff, bytes_ends_with_iff. unfold view_suffix.
  destruct (Nat.ltb_spec (length h) (length v)) as [L|L].
  - split.
    + intros F. apply Forall2_length_R in F. cbn in F. lia.
    + intros (h1 & h2 & -> & F). apply Forall2_length_R in F. rewrite app_length in L. lia.
  - split.
    + intros F. exists (firstn (length h - length v) h), (skipn (length h - length v) h). now rewrite firstn_skipn.
    + intros (h1 & h2 & -> & F). pose proof (Forall2_length_R _ _ F) as E. rewrite <- E.
      rewrite app_length, Nat.add_sub, skipn_app, Nat.sub_diag, skipn_all. exact F.
Qed.

(* ------------------------------------------------------------------ rewrites of the matcher *)
Definition plain (p : list N) : Prop := existsb is_special p = false.

Lemma plain_cons c p : plain (c :: p) ->
  (c =? PCT) = false /\ (c =? UND) = false /\ (c =? BSL) = false /\ plain p.
Proof. unfold plain, is_special. cbn [existsb]. rewrite !orb_false_iff. tauto. Qed.
Lemma plain_nil : plain [].
Proof. reflexivity. Qed.

Lemma like_pct_unfold p s :
  like_gen eqc (PCT :: p) s =
  if like_gen eqc p s then true else match s with [] => false | _ :: s' => like_gen eqc (PCT :: p) s' end.
Proof. destruct s; reflexivity. Qed.

(* a leading '%' : some suffix of the haystack matches the rest *)
Lemma like_pct_star p s : like_gen eqc (PCT :: p) s = exists_tail (like_gen eqc p) s.
Proof.
  induction s as [|x s IH]; rewrite like_pct_unfold, exists_tail_unfold; [reflexivity|]. now rewrite IH.
Qed.

(* no wildcard, no escape: equality (Predicate::Eq) *)
Lemma like_plain lit : plain lit -> forall s, like_gen eqc lit s = eqlist_by eqc s lit.
Proof.
  induction lit as [|c lit IH]; intros Hp s.
  - destruct s; reflexivity.
  - apply plain_cons in Hp as (E1 & E2 & E3 & Hp). cbn [like_gen]. rewrite E1, E2, E3.
    destruct s as [|x s]; [reflexivity|]. cbn [eqlist_by]. now rewrite IH.
Qed.

Lemma like_pct_any s : like_gen eqc [PCT] s = true.
Proof.
  induction s as [|x s IH]; rewrite like_pct_unfold; [reflexivity|].
  destruct (like_gen eqc [] (x :: s)); [reflexivity|exact IH].
Qed.

(* lit% : prefix (Predicate::StartsWith) *)
Lemma like_prefix lit : plain lit -> forall s, like_gen eqc (lit ++ [PCT]) s = prefix_by eqc lit s.
Proof.
  induction lit as [|c lit IH]; intros Hp s.
  - cbn [app prefix_by]. apply like_pct_any.
  - apply plain_cons in Hp as (E1 & E2 & E3 & Hp). cbn [app like_gen]. rewrite E1, E2, E3.
    destruct s as [|x s]; [reflexivity|]. cbn [prefix_by]. now rewrite IH.
Qed.

(* %lit : suffix (Predicate::EndsWith) *)
Lemma like_suffix lit : plain lit -> forall s,
  like_gen eqc (PCT :: lit) s = exists_tail (fun t => eqlist_by eqc t lit) s.
Proof. intros Hp s. rewrite like_pct_star. apply exists_tail_ext. intros t. now apply like_plain. Qed.

(* %lit% : infix (Predicate::Contains) *)
Lemma like_infix lit : plain lit -> forall s,
  like_gen eqc (PCT :: lit ++ [PCT]) s = exists_tail (prefix_by eqc lit) s.
Proof. intros Hp s. rewrite like_pct_star. apply exists_tail_ext. intros t. now apply like_prefix. Qed.

(* ------------------------------------------------------------------ regex_like *)
Lemma rx_dotstar_unfold t aend s :
  rx_match eqc (TDotStar :: t) aend s =
  if rx_match eqc t aend s then true else match s with [] => false | _ :: s' => rx_match eqc (TDotStar :: t) aend s' end.
Proof. destruct s; reflexivity. Qed.

Lemma rx_dotstar_star t aend s : rx_match eqc (TDotStar :: t) aend s = exists_tail (rx_match eqc t aend) s.
Proof.
  induction s as [|x s IH]; rewrite rx_dotstar_unfold, exists_tail_unfold; [reflexivity|]. now rewrite IH.
Qed.

(* the loop body of regex_like, anchored at both ends, is the matcher *)
Lemma regex_toks_sound_len : forall k p, (length p <= k)%nat ->
  forall s, rx_match eqc (regex_toks p) true s = like_gen eqc p s.
Proof.
  induction k as [|k IH]; intros p L s.
  - destruct p; [|cbn in L; lia]. destruct s; reflexivity.
  - destruct p as [|c r]; [destruct s; reflexivity|]. cbn [length] in L.
    cbn [regex_toks]. destruct (N.eqb_spec c BSL) as [Eb|Nb].
    { subst c. destruct r as [|n r'].
      - cbn. destruct s as [|x [|y s']]; [reflexivity| |]; cbn; destruct (eqc x BSL); reflexivity.
      - change (like_gen eqc (BSL :: n :: r') s) with
          (match s with [] => false | x :: s' => if eqc x n then like_gen eqc r' s' else false end).
        cbn [rx_match]. destruct s as [|x s']; [reflexivity|].
        rewrite IH by (cbn [length] in L; lia). reflexivity. }
    destruct (N.eqb_spec c PCT) as [Ep|Np].
    { subst c. rewrite rx_dotstar_star, like_pct_star. apply exists_tail_ext. intros t. apply IH. lia. }
    destruct (N.eqb_spec c UND) as [Eu|Nu].
    { subst c. cbn [rx_match]. change (like_gen eqc (UND :: r) s) with
        (match s with [] => false | _ :: s' => like_gen eqc r s' end).
      destruct s as [|x s']; [reflexivity|]. apply IH. lia. }
    cbn [rx_match like_gen].
    rewrite (proj2 (N.eqb_neq c PCT) Np), (proj2 (N.eqb_neq c UND) Nu), (proj2 (N.eqb_neq c BSL) Nb).
    destruct s as [|x s']; [reflexivity|]. rewrite IH by lia. reflexivity.
Qed.
Lemma regex_toks_sound p s : rx_match eqc (regex_toks p) true s = like_gen eqc p s.
Proof. now apply (regex_toks_sound_len (length p)). Qed.

(* dropping a trailing ".*" together with the "$" *)
Lemma rx_trailing_dotstar t : forall s, rx_match eqc (t ++ [TDotStar]) true s = rx_match eqc t false s.
Proof.
  induction t as [|x t IH]; intros s.
  - cbn [app]. rewrite rx_dotstar_star. cbn [rx_match].
    induction s as [|y s IHs]; rewrite exists_tail_unfold; [reflexivity|]. exact IHs.
  - destruct x; cbn [app].
    + cbn [rx_match]. destruct s as [|y s]; [reflexivity|]. now rewrite IH.
    + cbn [rx_match]. destruct s as [|y s]; [reflexivity|]. apply IH.
    + rewrite !rx_dotstar_star. now apply exists_tail_ext.
Qed.
End Gen.

(* the textual test `result.ends_with(".*")` sees exactly a trailing '%' token *)
Lemma is_meta_star : is_meta 42 = true. Proof. reflexivity. Qed.
Lemma text_ends_dotstar_spec astart ts :
  text_ends_dotstar (render astart ts) = match rev ts with TDotStar :: _ => true | _ => false end.
Proof.
  unfold text_ends_dotstar, render.
  destruct (rev ts) as [|x rt] eqn:Er.
  - apply (f_equal (@rev tok)) in Er. rewrite rev_involutive in Er. subst ts. destruct astart; reflexivity.
  - apply (f_equal (@rev tok)) in Er. rewrite rev_involutive in Er. cbn in Er. subst ts.
    rewrite flat_map_app. cbn [flat_map]. rewrite app_nil_r, app_assoc, rev_app_distr.
    destruct x as [c| |]; cbn [render_tok].
    + destruct (is_meta c) eqn:Em.
      * cbn. reflexivity.
      * assert (Hc : (c =? 42) = false).
        { destruct (N.eqb_spec c 42) as [->|]; [|reflexivity]. rewrite is_meta_star in Em. discriminate. }
        cbn. rewrite Hc. destruct (rev _) as [|z ?]; [reflexivity|]. now rewrite andb_false_r.
    + cbn. destruct (rev _) as [|z ?]; [reflexivity|]. now rewrite andb_false_r.
    + reflexivity.
Qed.

Theorem regex_like_sound_gen eqc p s : rx_is_match eqc (regex_like p) s = like_gen eqc p s.
Proof.
  unfold regex_like. rewrite text_ends_dotstar_spec.
  set (astart := negb (first_is PCT p)). set (body := if astart then p else tl p).
  assert (Hbody : like_gen eqc p s =
                  if astart then rx_match eqc (regex_toks body) true s
                  else exists_tail (rx_match eqc (regex_toks body) true) s).
  { subst astart body. destruct p as [|c r]; [reflexivity|]. cbn [first_is].
    destruct (N.eqb_spec c PCT) as [->|Hc]; cbn [negb tl].
    - rewrite like_pct_star. apply exists_tail_ext. intros t. symmetry. apply regex_toks_sound.
    - symmetry. apply regex_toks_sound. }
  rewrite Hbody. clear Hbody.
  destruct (rev (regex_toks body)) as [|x rt] eqn:Er.
  - unfold rx_is_match. cbn [rx_astart rx_toks rx_aend]. reflexivity.
  - apply (f_equal (@rev tok)) in Er. rewrite rev_involutive in Er. cbn in Er.
    destruct x; unfold rx_is_match; cbn [rx_astart rx_toks rx_aend]; try reflexivity.
    rewrite Er, removelast_last.
    destruct astart; [symmetry; apply rx_trailing_dotstar|].
    apply exists_tail_ext. intros t. symmetry. apply rx_trailing_dotstar.
Qed.

(* ------------------------------------------------------------------ flags *)
(* the flagged semantics with s set and m clear is the reference semantics used for LIKE *)
Lemma rx_match_f_s eqc ts aend : forall s, rx_match_f eqc true false ts aend s = rx_match eqc ts aend s.
Proof.
  induction ts as [|x t IH]; intros s.
  - cbn. destruct aend; [destruct s; reflexivity|reflexivity].
  - destruct x.
    + cbn [rx_match_f rx_match]. destruct s as [|y s]; [reflexivity|]. now rewrite IH.
    + cbn [rx_match_f rx_match dot_ok]. destruct s as [|y s]; [reflexivity|]. apply IH.
    + induction s as [|y s IHs].
      * cbn [rx_match_f rx_match]. now rewrite IH.
      * change (rx_match_f eqc true false (TDotStar :: t) aend (y :: s)) with
          (if rx_match_f eqc true false t aend (y :: s) then true else rx_match_f eqc true false (TDotStar :: t) aend s).
        rewrite (rx_dotstar_unfold eqc t aend (y :: s)), IH, IHs. reflexivity.
Qed.
Lemma rx_search_f_unanchored f ml : forall s b, rx_search_f f false ml b s = exists_tail f s.
Proof.
  induction s as [|x s IH]; intros b; rewrite exists_tail_unfold; cbn [rx_search_f]; [reflexivity|]. now rewrite IH.
Qed.
Lemma rx_search_f_anchored_off f : forall s, rx_search_f f true false false s = false.
Proof. induction s as [|x s IH]; cbn [rx_search_f]; [reflexivity|exact IH]. Qed.
Theorem rx_flags_s_is_reference eqc r s : rx_is_match_f eqc true false r s = rx_is_match eqc r s.
Proof.
  unfold rx_is_match_f, rx_is_match. destruct (rx_astart r).
  - destruct s as [|x s]; cbn [rx_search_f]; rewrite rx_match_f_s.
    + now destruct (rx_match eqc (rx_toks r) (rx_aend r) []).
    + rewrite rx_search_f_anchored_off. now destruct (rx_match eqc (rx_toks r) (rx_aend r) (x :: s)).
  - rewrite rx_search_f_unanchored. apply exists_tail_ext. intros t. apply rx_match_f_s.
Qed.
