(* C12 — the word-at-a-time boolean kernels equal three-valued (Kleene) logic row by row, for every
   length and for every value bit under a null ("garbage"). *)
From Coq Require Import List NArith Bool Arith Lia.
From AV Require Import Base.ListX Model.C12_Bool.
Import ListNotations.

(* ---- pack / unpack *)
Lemma pack_testbit : forall l i, N.testbit (pack l) (N.of_nat i) = nth i l false.
Proof.
  induction l as [|b l IH]; intros i.
  - cbn [pack]. rewrite N.bits_0. destruct i; reflexivity.
  - cbn [pack]. destruct i as [|i].
    + cbn [N.of_nat nth]. apply N.testbit_0_r.
    + rewrite Nat2N.inj_succ, N.testbit_succ_r. cbn [nth]. apply IH.
Qed.

Lemma unpack_length n w : length (unpack n w) = n.
Proof. unfold unpack. now rewrite map_length, seq_length. Qed.

Lemma seq_shift_add k : forall n s, seq (k + s) n = map (fun i => k + i) (seq s n).
Proof. induction n as [|n IH]; intros s; [reflexivity|]. cbn [seq map]. f_equal. rewrite <- IH. f_equal. lia. Qed.

Lemma nary_words_0 f : forall fuel ins, nary_words fuel f ins 0 = [].
Proof. induction fuel as [|k IH]; intros ins; [reflexivity|]. cbn [nary_words]. rewrite IH. reflexivity. Qed.

Section Bitwise.
Variable f : list N -> N.
Variable g : list bool -> bool.
Hypothesis fg : forall ws i, i < 64 -> N.testbit (f ws) (N.of_nat i) = g (map (fun w => N.testbit w (N.of_nat i)) ws).

Definition spec_bits (ins : list (list bool)) (len : nat) : list bool :=
  map (fun i => g (map (fun l => nth i l false) ins)) (seq 0 len).

Lemma chunk_spec ins n : n <= 64 ->
  unpack n (f (map (fun l => pack (firstn 64 l)) ins)) = spec_bits ins n.
Proof.
  intros Hn. unfold unpack, spec_bits. apply map_ext_in. intros i Hi. apply in_seq in Hi.
  rewrite fg by lia. f_equal. rewrite map_map. apply map_ext. intros l.
  rewrite pack_testbit. apply nth_firstn'. lia.
Qed.

Lemma nary_words_spec : forall fuel ins len, len < 64 * fuel ->
  nary_words fuel f ins len = spec_bits ins len.
Proof.
  induction fuel as [|k IH]; intros ins len Hl; [lia|].
  cbn [nary_words]. rewrite chunk_spec by lia.
  destruct (le_lt_dec len 64) as [Hs|Hb].
  - replace (len - 64) with 0 by lia. rewrite nary_words_0, app_nil_r.
    now replace (min 64 len) with len by lia.
  - replace (min 64 len) with 64 by lia. rewrite IH by lia.
    unfold spec_bits.
    assert (E : seq 0 len = seq 0 64 ++ seq 64 (len - 64)).
    { change 64 with (0 + 64) at 3. rewrite <- seq_app. f_equal. lia. }
    rewrite E, map_app. f_equal.
    change (seq 64 (len - 64)) with (seq (64 + 0) (len - 64)).
    rewrite (seq_shift_add 64 (len - 64) 0), map_map. apply map_ext. intros i.
    f_equal. rewrite map_map. apply map_ext. intros l. apply nth_skipn'.
Qed.

Lemma bitwise_op_spec ins len : bitwise_op f ins len = spec_bits ins len.
Proof.
  unfold bitwise_op. apply nary_words_spec.
  pose proof (Nat.div_mod len 64 ltac:(lia)). pose proof (Nat.mod_upper_bound len 64 ltac:(lia)). lia.
Qed.

Lemma bitwise_op_length ins len : length (bitwise_op f ins len) = len.
Proof. rewrite bitwise_op_spec. unfold spec_bits. now rewrite map_length, seq_length. Qed.

Lemma bitwise_op_bit ins len i : i < len ->
  bit (bitwise_op f ins len) i = g (map (fun l => nth i l false) ins).
Proof.
  intros Hi. unfold bit. rewrite bitwise_op_spec. unfold spec_bits.
  rewrite (nth_map_seq _ 0 len i false Hi). reflexivity.
Qed.
End Bitwise.

(* ---- the closures are bitwise *)
Lemma not64_bit x i : i < 64 -> N.testbit (not64 x) (N.of_nat i) = negb (N.testbit x (N.of_nat i)).
Proof.
  intros Hi. unfold not64. rewrite N.lxor_spec, N.ones_spec_low by lia. apply xorb_true_r.
Qed.

Definition g1 (h : bool -> bool) (bs : list bool) : bool := match bs with [a] => h a | _ => false end.
Definition g2 (h : bool -> bool -> bool) (bs : list bool) : bool := match bs with [a; b] => h a b | _ => false end.
Definition g4 (h : bool -> bool -> bool -> bool -> bool) (bs : list bool) : bool :=
  match bs with [a; b; c; d] => h a b c d | _ => false end.

Ltac arity ws :=
  destruct ws as [|?a [|?b [|?c [|?d [|?e ?r]]]]]; cbn [w1 w2 w4 g1 g2 g4 map]; try apply N.bits_0.

Lemma w2_land : forall ws i, i < 64 -> N.testbit (w2 N.land ws) (N.of_nat i) = g2 andb (map (fun w => N.testbit w (N.of_nat i)) ws).
Proof. intros ws i Hi. arity ws. apply N.land_spec. Qed.
Lemma w2_lor : forall ws i, i < 64 -> N.testbit (w2 N.lor ws) (N.of_nat i) = g2 orb (map (fun w => N.testbit w (N.of_nat i)) ws).
Proof. intros ws i Hi. arity ws. apply N.lor_spec. Qed.
Lemma w2_andnot : forall ws i, i < 64 ->
  N.testbit (w2 (fun a b => N.land a (not64 b)) ws) (N.of_nat i) = g2 (fun a b => a && negb b) (map (fun w => N.testbit w (N.of_nat i)) ws).
Proof. intros ws i Hi. arity ws. now rewrite N.land_spec, not64_bit. Qed.
Lemma w1_not : forall ws i, i < 64 -> N.testbit (w1 not64 ws) (N.of_nat i) = g1 negb (map (fun w => N.testbit w (N.of_nat i)) ws).
Proof. intros ws i Hi. arity ws. now apply not64_bit. Qed.
Lemma w2_and_kleene_one : forall ws i, i < 64 ->
  N.testbit (w2 and_kleene_one ws) (N.of_nat i) = g2 (fun a b => a || negb b) (map (fun w => N.testbit w (N.of_nat i)) ws).
Proof. intros ws i Hi. arity ws. unfold and_kleene_one. now rewrite N.lor_spec, not64_bit. Qed.
Lemma w2_or_kleene_one : forall ws i, i < 64 ->
  N.testbit (w2 or_kleene_one ws) (N.of_nat i) = g2 orb (map (fun w => N.testbit w (N.of_nat i)) ws).
Proof. intros ws i Hi. arity ws. unfold or_kleene_one. apply N.lor_spec. Qed.
Lemma w4_and_kleene_both : forall ws i, i < 64 ->
  N.testbit (w4 and_kleene_both ws) (N.of_nat i)
  = g4 (fun a b c d => (a || (c && negb d)) && (c || (a && negb b))) (map (fun w => N.testbit w (N.of_nat i)) ws).
Proof.
  intros ws i Hi. arity ws. unfold and_kleene_both.
  now rewrite !N.land_spec, !N.lor_spec, !N.land_spec, !not64_bit.
Qed.
Lemma w4_or_kleene_both : forall ws i, i < 64 ->
  N.testbit (w4 or_kleene_both ws) (N.of_nat i)
  = g4 (fun a b c d => (a || (c && d)) && (c || (a && b))) (map (fun w => N.testbit w (N.of_nat i)) ws).
Proof.
  intros ws i Hi. arity ws. unfold or_kleene_both.
  now rewrite !N.land_spec, !N.lor_spec, !N.land_spec.
Qed.

(* word-level statements (the 16-case truth table per bit), for any garbage under nulls *)
Definition mkrow (valid value : bool) : option bool := if valid then Some value else None.

Theorem and_kleene_word a b c d i : (i < 64)%N ->
  mkrow (N.testbit (and_kleene_both a b c d) i) (N.testbit (N.land b d) i)
  = k3_and (mkrow (N.testbit a i) (N.testbit b i)) (mkrow (N.testbit c i) (N.testbit d i)).
Proof.
  intros Hi. unfold and_kleene_both, not64.
  rewrite !N.land_spec, !N.lor_spec, !N.land_spec, !N.lxor_spec, N.ones_spec_low by assumption.
  destruct (N.testbit a i), (N.testbit b i), (N.testbit c i), (N.testbit d i); reflexivity.
Qed.
Theorem or_kleene_word a b c d i : (i < 64)%N ->
  mkrow (N.testbit (or_kleene_both a b c d) i) (N.testbit (N.lor b d) i)
  = k3_or (mkrow (N.testbit a i) (N.testbit b i)) (mkrow (N.testbit c i) (N.testbit d i)).
Proof.
  intros Hi. unfold or_kleene_both.
  rewrite !N.land_spec, !N.lor_spec, !N.land_spec.
  destruct (N.testbit a i), (N.testbit b i), (N.testbit c i), (N.testbit d i); reflexivity.
Qed.

(* ---- array-level *)
Lemma bmap2_map (h : option bool -> option bool -> option bool) (p q : nat -> option bool) : forall l,
  bmap2 h (map p l) (map q l) = map (fun i => h (p i) (q i)) l.
Proof. induction l as [|x l IH]; [reflexivity|]. cbn [map bmap2]. now rewrite IH. Qed.

Lemma bdenote_length a : length (bdenote a) = blen a.
Proof. unfold bdenote, bdenote_n. now rewrite map_length, seq_length. Qed.

Ltac bits_at Hi :=
  repeat first
    [ rewrite (bitwise_op_bit _ _ w2_land _ _ _ Hi)
    | rewrite (bitwise_op_bit _ _ w2_lor _ _ _ Hi)
    | rewrite (bitwise_op_bit _ _ w2_andnot _ _ _ Hi)
    | rewrite (bitwise_op_bit _ _ w1_not _ _ _ Hi)
    | rewrite (bitwise_op_bit _ _ w2_and_kleene_one _ _ _ Hi)
    | rewrite (bitwise_op_bit _ _ w2_or_kleene_one _ _ _ Hi)
    | rewrite (bitwise_op_bit _ _ w4_and_kleene_both _ _ _ Hi)
    | rewrite (bitwise_op_bit _ _ w4_or_kleene_both _ _ _ Hi) ];
  cbn [map g1 g2 g4].

Ltac bool_cases :=
  repeat match goal with |- context [nth ?i ?l false] =>
    let b := fresh "b" in generalize (nth i l false); intro b end;
  intros; repeat match goal with b : bool |- _ => destruct b end; reflexivity.

Theorem and_kleene_spec l r :
  bcanon (and_kleene l r) = spec_bool2 k3_and (bdenote l) (bdenote r).
Proof.
  unfold and_kleene, spec_bool2. rewrite !bdenote_length.
  destruct (Nat.eqb_spec (blen l) (blen r)) as [L|L]; cbn [negb]; [|reflexivity].
  cbn [bcanon]. rewrite (bitwise_op_length _ _ w2_land). f_equal.
  unfold bdenote. rewrite <- L. unfold bdenote_n. rewrite bmap2_map.
  apply map_ext_in. intros i Hi. apply in_seq in Hi. assert (Hi' : i < blen l) by lia.
  unfold brow. destruct (b_nulls l) as [ln|], (b_nulls r) as [rn|]; bits_at Hi'; unfold bit; bool_cases.
Qed.

Theorem or_kleene_spec l r :
  bcanon (or_kleene l r) = spec_bool2 k3_or (bdenote l) (bdenote r).
Proof.
  unfold or_kleene, spec_bool2. rewrite !bdenote_length.
  destruct (Nat.eqb_spec (blen l) (blen r)) as [L|L]; cbn [negb]; [|reflexivity].
  cbn [bcanon]. rewrite (bitwise_op_length _ _ w2_lor). f_equal.
  unfold bdenote. rewrite <- L. unfold bdenote_n. rewrite bmap2_map.
  apply map_ext_in. intros i Hi. apply in_seq in Hi. assert (Hi' : i < blen l) by lia.
  unfold brow. destruct (b_nulls l) as [ln|], (b_nulls r) as [rn|]; bits_at Hi'; unfold bit; bool_cases.
Qed.

Lemma binary_boolean_spec (fw : N -> N -> N) (h : bool -> bool -> bool) l r :
  (forall ws i, i < 64 -> N.testbit (w2 fw ws) (N.of_nat i) = g2 h (map (fun w => N.testbit w (N.of_nat i)) ws)) ->
  bcanon (binary_boolean fw l r) = spec_bool2 (strict2 h) (bdenote l) (bdenote r).
Proof.
  intros Hw. unfold binary_boolean, spec_bool2. rewrite !bdenote_length.
  destruct (Nat.eqb_spec (blen l) (blen r)) as [L|L]; cbn [negb]; [|reflexivity].
  cbn [bcanon]. rewrite (bitwise_op_length _ _ Hw). f_equal.
  unfold bdenote. rewrite <- L. unfold bdenote_n. rewrite bmap2_map.
  apply map_ext_in. intros i Hi. apply in_seq in Hi. assert (Hi' : i < blen l) by lia.
  unfold brow, nulls_union. rewrite (bitwise_op_bit _ _ Hw _ _ _ Hi'). cbn [map g2].
  destruct (b_nulls l) as [ln|], (b_nulls r) as [rn|]; bits_at Hi'; unfold bit, strict2; bool_cases.
Qed.

Theorem and_spec l r : bcanon (and_k l r) = spec_bool2 (strict2 andb) (bdenote l) (bdenote r).
Proof. apply binary_boolean_spec. exact w2_land. Qed.
Theorem or_spec l r : bcanon (or_k l r) = spec_bool2 (strict2 orb) (bdenote l) (bdenote r).
Proof. apply binary_boolean_spec. exact w2_lor. Qed.
Theorem and_not_spec l r : bcanon (and_not_k l r) = spec_bool2 (strict2 (fun a b => a && negb b)) (bdenote l) (bdenote r).
Proof. apply (binary_boolean_spec (fun a b => N.land a (not64 b))). exact w2_andnot. Qed.

Theorem not_spec l : bcanon (not_k l) = inl (map k3_not (bdenote l)).
Proof.
  unfold not_k. cbn [bcanon]. rewrite (bitwise_op_length _ _ w1_not). f_equal.
  unfold bdenote, bdenote_n. rewrite map_map.
  apply map_ext_in. intros i Hi. apply in_seq in Hi. assert (Hi' : i < blen l) by lia.
  unfold brow. destruct (b_nulls l) as [ln|]; bits_at Hi'; unfold bit, k3_not; bool_cases.
Qed.

(* non-vacuity: null AND false = false, null AND true = null, with garbage value bits under the nulls *)
Example ex_and_kleene :
  bcanon (and_kleene (mkb [true; true; false] (Some [false; false; true])) (mkb [false; true; true] None))
  = inl [Some false; None; Some false].
Proof. vm_compute. reflexivity. Qed.
