(* C16 — the ownership invariants and their preservation by [settle] (operation independent part). *)
From Coq Require Import List Arith ZArith Bool Lia.
From AV Require Import Model.C16_Own.
Import ListNotations.

(* ------------------------------------------------------------------ list helpers *)
Lemma upd_nth_length {A} i (x : A) l : length (upd_nth i x l) = length l.
Proof. revert i; induction l as [|h t IH]; intros [|i]; cbn; auto. Qed.

Lemma nth_error_upd_nth_eq {A} i (x : A) l : i < length l -> nth_error (upd_nth i x l) i = Some x.
Proof. revert i; induction l as [|h t IH]; intros [|i] H; cbn in *; try lia; auto. apply IH; lia. Qed.

Lemma nth_error_upd_nth_ne {A} i j (x : A) l : i <> j -> nth_error (upd_nth i x l) j = nth_error l j.
Proof. revert i j; induction l as [|h t IH]; intros [|i] [|j] H; cbn; auto; try lia. Qed.

Lemma upd_nth_oob {A} i (x : A) l : length l <= i -> upd_nth i x l = l.
Proof. revert i; induction l as [|h t IH]; intros [|i] H; cbn in *; auto; try lia. f_equal. apply IH; lia. Qed.

Lemma count_flat_map_upd {A} (f : A -> list nat) l j x y id :
  nth_error l j = Some x ->
  count_occ Nat.eq_dec (flat_map f (upd_nth j y l)) id + count_occ Nat.eq_dec (f x) id
  = count_occ Nat.eq_dec (flat_map f l) id + count_occ Nat.eq_dec (f y) id.
Proof.
  revert j; induction l as [|h t IH]; intros [|j] H; cbn in *; try discriminate.
  - injection H as ->. rewrite !count_occ_app. lia.
  - rewrite !count_occ_app. specialize (IH j H). lia.
Qed.

Lemma in_flat_map_nth {A} (f : A -> list nat) l j x id :
  nth_error l j = Some x -> In id (f x) -> In id (flat_map f l).
Proof. intros H Hi. apply in_flat_map. exists x. split; [eapply nth_error_In; eauto|auto]. Qed.

Lemma in_flat_map_nth_inv {A} (f : A -> list nat) l id :
  In id (flat_map f l) -> exists j x, nth_error l j = Some x /\ In id (f x).
Proof.
  intros H. apply in_flat_map in H as (x & Hx & Hi). apply In_nth_error in Hx as (j & Hj). eauto.
Qed.

(* ------------------------------------------------------------------ invariants *)
Definition node_at (s : state) (id : nat) (n : node) : Prop := nth_error (nodes s) id = Some n.

(* no reference (from a live object, a live exported structure or a live imported region) points
   to a released or non-existent node *)
Definition I1 (s : state) : Prop := forall id, In id (all_refs s) -> exists n, node_at s id n /\ node_rel n = 0.
Definition I2 (s : state) : Prop := forall id n, node_at s id n -> node_rel n <= 1.
(* no leak: an unreleased node is still referenced *)
Definition I3 (s : state) : Prop := forall id n, node_at s id n -> node_rel n = 0 -> In id (all_refs s).
Definition Dag (s : state) : Prop := forall id n r, node_at s id n -> In r (node_refs n) -> r < id.
Definition I4 (s : state) : Prop := pool s = live_resv s.

Record Inv (s : state) : Prop := mkInv { inv1 : I1 s; inv2 : I2 s; inv3 : I3 s; inv_dag : Dag s; inv4 : I4 s }.

Lemma in_refs_cnt s id : In id (all_refs s) <-> 0 < cnt s id.
Proof. unfold cnt. rewrite (count_occ_In Nat.eq_dec). lia. Qed.

(* ------------------------------------------------------------------ what an operation may do before [settle] *)
Definition Fresh (s s1 : state) (id : nat) : Prop := length (nodes s) <= id < length (nodes s1).
Definition OkRef (s s1 : state) (id : nat) : Prop := In id (all_refs s) \/ Fresh s s1 id.

Definition node_resv_live (n : node) : Z :=
  match n with NReg r => match r_rel r with O => resv_z (r_resv r) | S _ => 0%Z end | NExp _ => 0%Z end.

Record Raw (s s1 : state) : Prop := mkRaw {
  raw_len : length (nodes s) <= length (nodes s1);
  raw_old : forall id n, node_at s id n ->
            exists n1, node_at s1 id n1 /\ node_rel n1 = node_rel n /\ node_refs n1 = node_refs n;
  raw_new : forall id n, length (nodes s) <= id -> node_at s1 id n ->
            node_rel n = 0 /\ forall r, In r (node_refs n) -> r < id;
  raw_refs : forall id, In id (all_refs s1) -> OkRef s s1 id;
  raw_pool : (pool s1 - live_resv s1 = pool s - live_resv s)%Z }.

Lemma live_resv_app l1 l2 :
  fold_right (fun n acc => match n with
                           | NReg r => match r_rel r with O => (resv_z (r_resv r) + acc)%Z | S _ => acc end
                           | NExp _ => acc end) 0%Z (l1 ++ l2)
  = (fold_right (fun n acc => (node_resv_live n + acc)%Z) 0%Z l1
     + fold_right (fun n acc => (node_resv_live n + acc)%Z) 0%Z l2)%Z.
Proof.
  induction l1 as [|n t IH]; cbn [app fold_right].
  - induction l2 as [|n t IH]; cbn [fold_right]; [lia|].
    destruct n as [r|e]; cbn [node_resv_live]; [destruct (r_rel r)|]; lia.
  - destruct n as [r|e]; cbn [node_resv_live]; [destruct (r_rel r)|]; lia.
Qed.

Definition sum_resv (l : list node) : Z := fold_right (fun n acc => (node_resv_live n + acc)%Z) 0%Z l.
Lemma live_resv_sum s : live_resv s = sum_resv (nodes s).
Proof. unfold live_resv. rewrite <- (app_nil_r (nodes s)) at 1. rewrite live_resv_app. cbn. unfold sum_resv. lia. Qed.

Lemma sum_resv_upd l j x y : nth_error l j = Some x ->
  (sum_resv (upd_nth j y l) + node_resv_live x = sum_resv l + node_resv_live y)%Z.
Proof.
  revert j; induction l as [|h t IH]; intros [|j] H; cbn in *; try discriminate.
  - injection H as ->. lia.
  - specialize (IH j H). unfold sum_resv in *. lia.
Qed.
Lemma sum_resv_app l1 l2 : sum_resv (l1 ++ l2) = (sum_resv l1 + sum_resv l2)%Z.
Proof. unfold sum_resv. induction l1; cbn; lia. Qed.

(* ------------------------------------------------------------------ I1 survives the raw operation *)
Lemma raw_I1 s s1 : Inv s -> Raw s s1 -> I1 s1.
Proof.
  intros I R id Hin. destruct (raw_refs _ _ R id Hin) as [Hold|[Hlo Hhi]].
  - destruct (inv1 _ I id Hold) as (n & Hn & Hr).
    destruct (raw_old _ _ R id n Hn) as (n1 & Hn1 & Hr1 & _). exists n1. split; [auto|lia].
  - destruct (nth_error (nodes s1) id) as [n|] eqn:E; [|apply nth_error_None in E; lia].
    exists n. split; [exact E|]. apply (raw_new _ _ R id n Hlo E).
Qed.

Lemma raw_I2 s s1 : Inv s -> Raw s s1 -> I2 s1.
Proof.
  intros I R id n Hn. destruct (Nat.lt_ge_cases id (length (nodes s))) as [Hlt|Hge].
  - destruct (nth_error (nodes s) id) as [n0|] eqn:E; [|apply nth_error_None in E; lia].
    destruct (raw_old _ _ R id n0 E) as (n1 & Hn1 & Hr1 & _).
    unfold node_at in *. rewrite Hn in Hn1. injection Hn1 as <-. rewrite Hr1. apply (inv2 _ I id n0 E).
  - destruct (raw_new _ _ R id n Hge Hn) as [H0 _]. lia.
Qed.

Lemma raw_Dag s s1 : Inv s -> Raw s s1 -> Dag s1.
Proof.
  intros I R id n r Hn Hr. destruct (Nat.lt_ge_cases id (length (nodes s))) as [Hlt|Hge].
  - destruct (nth_error (nodes s) id) as [n0|] eqn:E; [|apply nth_error_None in E; lia].
    destruct (raw_old _ _ R id n0 E) as (n1 & Hn1 & _ & Hf1).
    unfold node_at in *. rewrite Hn in Hn1. injection Hn1 as <-. rewrite Hf1 in Hr.
    apply (inv_dag _ I id n0 r E Hr).
  - apply (raw_new _ _ R id n Hge Hn); auto.
Qed.

Lemma raw_I4 s s1 : Inv s -> Raw s s1 -> I4 s1.
Proof. intros I R. unfold I4. pose proof (raw_pool _ _ R). pose proof (inv4 _ I) as H4. unfold I4 in H4. lia. Qed.

(* ------------------------------------------------------------------ one release event *)
Lemma release_node_refs n : node_refs (fst (release_node n)) = [].
Proof. destruct n as [r|e]; reflexivity. Qed.
Lemma release_node_rel n : node_rel (fst (release_node n)) = S (node_rel n).
Proof. destruct n as [r|e]; reflexivity. Qed.
Lemma release_node_freed n : node_rel n = 0 -> snd (release_node n) = node_resv_live n.
Proof. destruct n as [r|e]; cbn; [|reflexivity]. intros ->. destruct (r_resv r); reflexivity. Qed.
Lemma release_node_resv n : node_resv_live (fst (release_node n)) = 0%Z.
Proof. destruct n as [r|e]; reflexivity. Qed.

Lemma release_nodes s j n : node_at s j n ->
  nodes (release j s) = upd_nth j (fst (release_node n)) (nodes s) /\ slots (release j s) = slots s
  /\ pool (release j s) = (pool s - snd (release_node n))%Z.
Proof. unfold node_at, release. intros ->. destruct (release_node n) as [n' f]. auto. Qed.

Lemma release_cnt s j n id : node_at s j n ->
  cnt (release j s) id + count_occ Nat.eq_dec (node_refs n) id = cnt s id.
Proof.
  intros Hn. destruct (release_nodes s j n Hn) as (Hns & Hsl & _).
  unfold cnt, all_refs. rewrite Hns, Hsl, !count_occ_app.
  pose proof (count_flat_map_upd node_refs (nodes s) j n (fst (release_node n)) id Hn) as H.
  rewrite release_node_refs in H. cbn [count_occ] in H. lia.
Qed.

Lemma release_in s j n id : node_at s j n -> In id (all_refs (release j s)) -> In id (all_refs s).
Proof. intros Hn. rewrite !in_refs_cnt. pose proof (release_cnt s j n id Hn). lia. Qed.

Lemma release_node_at_ne s j id : id <> j -> nth_error (nodes (release j s)) id = nth_error (nodes s) id.
Proof.
  intros Hne. unfold release. destruct (nth_error (nodes s) j) as [n|] eqn:E; [|reflexivity].
  destruct (release_node n). cbn [nodes]. apply nth_error_upd_nth_ne. auto.
Qed.

Lemma release_length s j : length (nodes (release j s)) = length (nodes s).
Proof.
  unfold release. destruct (nth_error (nodes s) j) as [n|]; [|reflexivity].
  destruct (release_node n). cbn [nodes]. apply upd_nth_length.
Qed.

(* ------------------------------------------------------------------ the settle pass *)
Section Settle.
  Variables (pre s1 : state).
  Hypothesis (Ipre : Inv pre) (R : Raw pre s1).

  Record Pass (k : nat) (cur : state) : Prop := mkPass {
    p1 : I1 cur; p2 : I2 cur; pdag : Dag cur; p4 : I4 cur;
    plen : length (nodes cur) = length (nodes s1);
    puntouched : forall id n, id < k -> node_at cur id n -> node_at s1 id n;
    psettled : forall id n, k <= id -> node_at cur id n -> node_rel n = 0 -> In id (all_refs cur) }.

  Lemma pass_init : Pass (length (nodes s1)) s1.
  Proof.
    constructor; [exact (raw_I1 _ _ Ipre R)|exact (raw_I2 _ _ Ipre R)|exact (raw_Dag _ _ Ipre R)|exact (raw_I4 _ _ Ipre R)|reflexivity|auto|].
    intros id n Hk Hn.
    unfold node_at in Hn. assert (id < length (nodes s1)) by (apply nth_error_Some; congruence). lia.
  Qed.

  (* the node about to be processed is unreleased when the release condition holds *)
  Lemma cond_rel0 k cur n : Pass (S k) cur -> node_at cur k n ->
    (0 <? cnt pre k) || (length (nodes pre) <=? k) = true -> node_rel n = 0.
  Proof.
    intros P Hn Hc. pose proof (puntouched _ _ P k n (Nat.lt_succ_diag_r k) Hn) as Hs1.
    apply orb_true_iff in Hc as [Hc|Hc].
    - apply Nat.ltb_lt in Hc. apply in_refs_cnt in Hc.
      destruct (inv1 _ Ipre k Hc) as (n0 & Hn0 & Hr0).
      destruct (raw_old _ _ R k n0 Hn0) as (n1 & Hn1 & Hr1 & _).
      unfold node_at in *. rewrite Hs1 in Hn1. injection Hn1 as <-. lia.
    - apply Nat.leb_le in Hc. apply (raw_new _ _ R k n Hc Hs1).
  Qed.

  Lemma pass_step k cur : Pass (S k) cur ->
    Pass k (if (cnt cur k =? 0) && ((0 <? cnt pre k) || (length (nodes pre) <=? k)) then release k cur else cur).
  Proof.
    intros P.
    destruct ((cnt cur k =? 0) && ((0 <? cnt pre k) || (length (nodes pre) <=? k))) eqn:C.
    - (* release *)
      apply andb_true_iff in C as [C0 C1]. apply Nat.eqb_eq in C0.
      destruct (nth_error (nodes cur) k) as [n|] eqn:En.
      2:{ (* no such node: release is the identity *)
          unfold release. rewrite En. destruct P as [a1 a2 a3 a4 a5 puntouched0 psettled0]. constructor; try assumption.
          - intros id n Hk Hn. apply puntouched0; [lia|exact Hn].
          - intros id n Hk Hn. destruct (Nat.eq_dec id k) as [->|Hne]; [unfold node_at in Hn; congruence|].
            apply (psettled0 id n); auto; lia. }
      pose proof (cond_rel0 k cur n P En C1) as Hrel0.
      destruct (release_nodes cur k n En) as (Hns & Hsl & Hpool).
      assert (Hk : k < length (nodes cur)) by (apply nth_error_Some; congruence).
      constructor.
      + (* I1 *)
        intros id Hin. pose proof (release_in cur k n id En Hin) as Hin0.
        destruct (p1 _ _ P id Hin0) as (m & Hm & Hr).
        assert (id <> k). { intros ->. apply in_refs_cnt in Hin0. lia. }
        exists m. split; [|exact Hr]. unfold node_at. rewrite release_node_at_ne; auto.
      + (* I2 *)
        intros id m Hm. destruct (Nat.eq_dec id k) as [->|Hne].
        * unfold node_at in Hm. rewrite Hns, nth_error_upd_nth_eq in Hm by exact Hk. injection Hm as <-.
          rewrite release_node_rel. lia.
        * unfold node_at in Hm. rewrite release_node_at_ne in Hm by exact Hne. apply (p2 _ _ P id m Hm).
      + (* Dag *)
        intros id m r Hm Hr. destruct (Nat.eq_dec id k) as [->|Hne].
        * unfold node_at in Hm. rewrite Hns, nth_error_upd_nth_eq in Hm by exact Hk. injection Hm as <-.
          rewrite release_node_refs in Hr. destruct Hr.
        * unfold node_at in Hm. rewrite release_node_at_ne in Hm by exact Hne. apply (pdag _ _ P id m r Hm Hr).
      + (* I4 *)
        unfold I4. rewrite Hpool, live_resv_sum, Hns.
        pose proof (sum_resv_upd (nodes cur) k n (fst (release_node n)) En) as Hs.
        rewrite release_node_resv in Hs. rewrite (release_node_freed n Hrel0).
        pose proof (p4 _ _ P) as H4. unfold I4 in H4. rewrite live_resv_sum in H4. lia.
      + rewrite release_length. apply (plen _ _ P).
      + intros id m Hlt Hm. assert (id <> k) by lia.
        unfold node_at in Hm. rewrite release_node_at_ne in Hm by auto.
        apply (puntouched _ _ P id m); [lia|exact Hm].
      + intros id m Hge Hm Hr. destruct (Nat.eq_dec id k) as [->|Hne].
        * unfold node_at in Hm. rewrite Hns, nth_error_upd_nth_eq in Hm by exact Hk. injection Hm as <-.
          rewrite release_node_rel in Hr. discriminate.
        * unfold node_at in Hm. rewrite release_node_at_ne in Hm by exact Hne.
          assert (Hin : In id (all_refs cur)) by (apply (psettled _ _ P id m); [lia|exact Hm|exact Hr]).
          apply in_refs_cnt. apply in_refs_cnt in Hin.
          pose proof (release_cnt cur k n id En) as Hc.
          assert (count_occ Nat.eq_dec (node_refs n) id = 0).
          { apply count_occ_not_In. intros Hi. pose proof (pdag _ _ P k n id En Hi). lia. }
          lia.
    - (* no release *)
      destruct P as [a1 a2 a3 a4 a5 puntouched0 psettled0]. constructor; try assumption.
      + intros id n Hlt Hn. apply puntouched0; [lia|exact Hn].
      + intros id n Hge Hn Hr. destruct (Nat.eq_dec id k) as [->|Hne]; [|apply (psettled0 id n); auto; lia].
        apply andb_false_iff in C as [C|C].
        * apply Nat.eqb_neq in C. apply in_refs_cnt. lia.
        * apply orb_false_iff in C as [Ca Cb]. apply Nat.ltb_ge in Ca. apply Nat.leb_gt in Cb.
          (* an old node with no reference before the operation was already released *)
          exfalso. pose proof (puntouched0 k n (Nat.lt_succ_diag_r k) Hn) as Hs1.
          destruct (nth_error (nodes pre) k) as [n0|] eqn:E0; [|apply nth_error_None in E0; lia].
          destruct (raw_old _ _ R k n0 E0) as (n1 & Hn1 & Hr1 & _).
          unfold node_at in *. rewrite Hs1 in Hn1. injection Hn1 as <-.
          assert (Hin : In k (all_refs pre)) by (apply (inv3 _ Ipre k n0 E0); lia).
          apply in_refs_cnt in Hin. lia.
  Qed.

  Lemma pass_all k cur : Pass k cur -> Pass 0 (settle_from k pre cur).
  Proof.
    revert cur; induction k as [|k IH]; intros cur P; [exact P|].
    cbn [settle_from]. apply IH. apply pass_step. exact P.
  Qed.

  Lemma settle_length : length (nodes (settle pre s1)) = length (nodes s1).
  Proof. unfold settle. apply (plen _ _ (pass_all _ _ pass_init)). Qed.

  Theorem settle_inv : Inv (settle pre s1).
  Proof.
    unfold settle. destruct (pass_all _ _ pass_init). constructor; auto.
    intros id n Hn Hr. apply (psettled0 id n); auto; lia.
  Qed.
End Settle.

(* settle changes neither the slots nor any region content *)
Lemma release_slots j s : slots (release j s) = slots s.
Proof. unfold release. destruct (nth_error (nodes s) j) as [n|]; [destruct (release_node n)|]; reflexivity. Qed.
Lemma release_reg_bytes j s id : reg_bytes (release j s) id = reg_bytes s id.
Proof.
  unfold reg_bytes, get_reg. destruct (Nat.eq_dec id j) as [->|Hne].
  - unfold release. destruct (nth_error (nodes s) j) as [n|] eqn:E; [|rewrite E; reflexivity].
    assert (Hj : j < length (nodes s)) by (apply nth_error_Some; congruence).
    destruct n as [r|e]; cbn [release_node nodes]; rewrite nth_error_upd_nth_eq by exact Hj; reflexivity.
  - rewrite release_node_at_ne by exact Hne. reflexivity.
Qed.
Lemma settle_from_slots k pre cur : slots (settle_from k pre cur) = slots cur.
Proof.
  revert cur; induction k as [|k IH]; intros cur; [reflexivity|]. cbn [settle_from]. rewrite IH.
  destruct (_ && _); [apply release_slots|reflexivity].
Qed.
Lemma settle_from_reg_bytes k pre cur id : reg_bytes (settle_from k pre cur) id = reg_bytes cur id.
Proof.
  revert cur; induction k as [|k IH]; intros cur; [reflexivity|]. cbn [settle_from]. rewrite IH.
  destruct (_ && _); [apply release_reg_bytes|reflexivity].
Qed.
Lemma settle_slots pre cur : slots (settle pre cur) = slots cur.
Proof. apply settle_from_slots. Qed.
Lemma settle_reg_bytes pre cur id : reg_bytes (settle pre cur) id = reg_bytes cur id.
Proof. apply settle_from_reg_bytes. Qed.
