(* C03 — take: take_native / take_bits / take_nulls / check_bounds compute take_spec. *)
From Coq Require Import List Arith ZArith Bool Lia.
From AV Require Import Base.ListX Model.C03_Select Proofs.C03_Filter.
Import ListNotations.

Lemma nth_error_map2 {X Y Z} (f : X -> Y -> Z) xs ys k : length xs = length ys ->
  nth_error (map2 f xs ys) k =
  match nth_error xs k, nth_error ys k with Some x, Some y => Some (f x y) | _, _ => None end.
Proof.
  revert ys k; induction xs as [|x xs IH]; intros [|y ys] k H; cbn in *; try discriminate.
  - destruct k; reflexivity.
  - destruct k as [|k]; [reflexivity|]. cbn. apply IH. lia.
Qed.

Lemma nth_error_both {X Y} (xs : list X) (ys : list Y) k : length xs = length ys ->
  (exists x y, nth_error xs k = Some x /\ nth_error ys k = Some y) \/
  (nth_error xs k = None /\ nth_error ys k = None).
Proof.
  intros H. destruct (nth_error xs k) eqn:E1; destruct (nth_error ys k) eqn:E2; eauto.
  - apply nth_error_None in E2. assert (k < length xs) by (apply nth_error_Some; congruence). lia.
  - apply nth_error_None in E1. assert (k < length ys) by (apply nth_error_Some; congruence). lia.
Qed.

(* ------------------------------------------------------------------ per-branch lemmas *)
Definition pair_col {T} (v : option (list T)) (n : option (list bool)) : option (list (option T)) :=
  match v, n with Some v, Some n => Some (map2 mk_row v n) | _, _ => None end.

Lemma get_neg {T} (vs : list T) i : out_of_range (length vs) i = true -> get vs i = None.
Proof. intros H. unfold get. now rewrite H. Qed.
Lemma get_nonneg {T} (vs : list T) i : out_of_range (length vs) i = false -> get vs i = nth_error vs (Z.to_nat i).
Proof. intros H. unfold get. now rewrite H. Qed.

(* indices with nulls, values with nulls *)
Lemma take_nn {T} (d : T) vs cn : length vs = length cn -> forall ivals n,
  length ivals = length n ->
  pair_col (take_native_n d vs ivals n) (take_bits_n cn ivals n)
  = take_spec (map2 mk_row vs cn) (map2 mk_row ivals n).
Proof.
  intros Hc. induction ivals as [|i ir IH]; intros [|b nr] Hl; cbn in Hl; try discriminate; [reflexivity|].
  assert (Hl' : length ir = length nr) by lia. specialize (IH nr Hl').
  cbn [take_native_n take_bits_n map2 take_spec]. destruct b; cbn [mk_row].
  - rewrite map2_length, <- Hc, Nat.min_id.
    destruct (out_of_range (length vs) i) eqn:Ei.
    + rewrite get_neg by exact Ei. reflexivity.
    + rewrite (get_nonneg vs) by exact Ei. rewrite (get_nonneg cn) by (rewrite <- Hc; exact Ei).
      rewrite nth_error_map2 by exact Hc.
      destruct (nth_error_both vs cn (Z.to_nat i) Hc) as [(x & y & E1 & E2)|[E1 E2]]; rewrite E1, E2; [|reflexivity].
      rewrite <- IH. destruct (take_native_n d vs ir nr); destruct (take_bits_n cn ir nr); reflexivity.
  - rewrite <- IH.
    destruct (get vs i); destruct (take_native_n d vs ir nr); destruct (take_bits_n cn ir nr); reflexivity.
Qed.

(* indices with nulls, values without nulls: the validity is the index validity *)
Lemma take_na {T} (d : T) vs : forall ivals n, length ivals = length n ->
  option_map (fun v => map2 mk_row v n) (take_native_n d vs ivals n)
  = take_spec (map Some vs) (map2 mk_row ivals n).
Proof.
  induction ivals as [|i ir IH]; intros [|b nr] Hl; cbn in Hl; try discriminate; [reflexivity|].
  assert (Hl' : length ir = length nr) by lia. specialize (IH nr Hl').
  cbn [take_native_n map2 take_spec]. destruct b; cbn [mk_row].
  - rewrite map_length. destruct (out_of_range (length vs) i) eqn:Ei.
    + rewrite get_neg by exact Ei. reflexivity.
    + rewrite get_nonneg by exact Ei. rewrite nth_error_map.
      destruct (nth_error vs (Z.to_nat i)); cbn; [|reflexivity].
      rewrite <- IH. destruct (take_native_n d vs ir nr); reflexivity.
  - rewrite <- IH. destruct (get vs i); destruct (take_native_n d vs ir nr); reflexivity.
Qed.

(* indices without nulls, values with nulls *)
Lemma take_an {T} vs cn : length vs = length cn -> forall ivals,
  pair_col (take_native_a vs ivals) (take_native_a cn ivals)
  = take_spec (map2 (@mk_row T) vs cn) (map Some ivals).
Proof.
  intros Hc. induction ivals as [|i ir IH]; [reflexivity|].
  cbn [take_native_a map take_spec]. rewrite map2_length, <- Hc, Nat.min_id.
  destruct (out_of_range (length vs) i) eqn:Ei.
  - rewrite get_neg by exact Ei. reflexivity.
  - rewrite (get_nonneg vs) by exact Ei. rewrite (get_nonneg cn) by (rewrite <- Hc; exact Ei).
    rewrite nth_error_map2 by exact Hc.
    destruct (nth_error_both vs cn (Z.to_nat i) Hc) as [(x & y & E1 & E2)|[E1 E2]]; rewrite E1, E2; [|reflexivity].
    rewrite <- IH. destruct (take_native_a vs ir); destruct (take_native_a cn ir); reflexivity.
Qed.

(* neither has nulls *)
Lemma take_aa {T} (vs : list T) : forall ivals,
  option_map (map Some) (take_native_a vs ivals) = take_spec (map Some vs) (map Some ivals).
Proof.
  induction ivals as [|i ir IH]; [reflexivity|].
  cbn [take_native_a map take_spec]. rewrite map_length.
  destruct (out_of_range (length vs) i) eqn:Ei.
  - rewrite get_neg by exact Ei. reflexivity.
  - rewrite get_nonneg by exact Ei. rewrite nth_error_map.
    destruct (nth_error vs (Z.to_nat i)); cbn; [|reflexivity].
    rewrite <- IH. destruct (take_native_a vs ir); reflexivity.
Qed.

Lemma take_native_a_length {T} (vs : list T) ivals v : take_native_a vs ivals = Some v -> length v = length ivals.
Proof.
  revert v; induction ivals as [|i ir IH]; intros v; cbn; [now intros [= <-]|].
  destruct (get vs i); [|discriminate]. destruct (take_native_a vs ir) eqn:E; [|discriminate].
  cbn. intros [= <-]. cbn. f_equal. now apply IH.
Qed.

(* ------------------------------------------------------------------ has_nulls normal forms *)
Lemma has_nulls_some n l : has_nulls n = Some l -> n = Some l.
Proof. destruct n as [x|]; cbn; [|discriminate]. destruct (all_true x); [discriminate|]. now intros [= ->]. Qed.

Lemma logical_norm {T} (c : pcol T) : wf_col c -> logical c = logical (fst c, has_nulls (snd c)).
Proof.
  destruct c as [v n]. unfold wf_col; cbn. intros H. symmetry. apply logical_has_nulls.
  destruct n; lia.
Qed.

(* ------------------------------------------------------------------ take_impl *)
Lemma take_impl_spec {T} (d : T) (c : pcol T) (idx : pcol Z) : wf_col c -> wf_col idx ->
  option_map logical
    (match take_native d (fst c) idx, take_nulls (snd c) idx with
     | Some v, Some n => Some (v, n)
     | _, _ => None
     end)
  = take_spec (logical c) (logical_idx idx).
Proof.
  intros Hc Hi. unfold logical_idx. rewrite (logical_norm c Hc), (logical_norm idx Hi).
  destruct c as [vs cn]; destruct idx as [ivals inl]. unfold wf_col in *; cbn [fst snd] in *.
  unfold take_native, take_nulls, take_bits; cbn [fst snd].
  destruct (has_nulls inl) as [n|] eqn:En; destruct (has_nulls cn) as [cl|] eqn:Ec; unfold logical; cbn [fst snd].
  - apply has_nulls_some in En, Ec. subst inl cn.
    rewrite <- (take_nn d vs cl) by lia. unfold pair_col.
    destruct (take_native_n d vs ivals n); destruct (take_bits_n cl ivals n); reflexivity.
  - apply has_nulls_some in En. subst inl.
    rewrite <- (take_na d vs) by lia. destruct (take_native_n d vs ivals n); reflexivity.
  - apply has_nulls_some in Ec. subst cn.
    rewrite <- (take_an vs cl) by lia. unfold pair_col.
    destruct (take_native_a vs ivals); destruct (take_native_a cl ivals); reflexivity.
  - rewrite <- take_aa. destruct (take_native_a vs ivals) as [v|] eqn:Ev; [|reflexivity].
    cbn [option_map]. f_equal.
    change (logical (v, inl) = map Some v). rewrite (logical_norm (v, inl)).
    + cbn [fst snd]. now rewrite En.
    + unfold wf_col; cbn. destruct inl; [|exact I]. rewrite (take_native_a_length _ _ _ Ev). exact Hi.
Qed.

(* ------------------------------------------------------------------ check_bounds *)
Lemma take_spec_oob_n {A} (xs : list (option A)) : forall ivals n,
  forallb (fun p : Z * bool => negb (snd p) || (fst p <? Z.of_nat (length xs))%Z) (List.combine ivals n) = false ->
  take_spec xs (map2 mk_row ivals n) = None.
Proof.
  induction ivals as [|i ir IH]; intros [|b nr]; cbn; try discriminate.
  destruct b; cbn [negb orb mk_row].
  - destruct (i <? Z.of_nat (length xs))%Z eqn:Ei; cbn [andb]; intros H.
    + rewrite (IH nr H). destruct (out_of_range (length xs) i); [reflexivity|]. destruct (nth_error xs (Z.to_nat i)); reflexivity.
    + replace (out_of_range (length xs) i) with true; [reflexivity|].
      symmetry. unfold out_of_range. apply orb_true_iff. right. apply Z.leb_le. apply Z.ltb_ge in Ei. exact Ei.
  - intros H. now rewrite (IH nr H).
Qed.

Lemma take_spec_oob_a {A} (xs : list (option A)) : forall ivals,
  forallb (fun i => (0 <=? i)%Z && (i <? Z.of_nat (length xs))%Z) ivals = false ->
  take_spec xs (map Some ivals) = None.
Proof.
  induction ivals as [|i ir IH]; cbn; try discriminate.
  destruct ((0 <=? i)%Z && (i <? Z.of_nat (length xs))%Z) eqn:Ei; cbn [andb]; intros H.
  - rewrite (IH H). destruct (out_of_range (length xs) i); [reflexivity|]. destruct (nth_error xs (Z.to_nat i)); reflexivity.
  - replace (out_of_range (length xs) i) with true; [reflexivity|].
    symmetry. unfold out_of_range. apply andb_false_iff in Ei. apply orb_true_iff.
    destruct Ei as [Ei|Ei]; [left; apply Z.ltb_lt; apply Z.leb_gt in Ei; exact Ei|right; apply Z.leb_le; apply Z.ltb_ge in Ei; exact Ei].
Qed.

Lemma check_bounds_sound {A} (xs : list (option A)) (idx : pcol Z) : wf_col idx ->
  check_bounds (length xs) idx = false -> take_spec xs (logical_idx idx) = None.
Proof.
  intros Hi. unfold logical_idx. rewrite (logical_norm idx Hi). unfold check_bounds, logical.
  destruct idx as [ivals inl]; cbn [fst snd].
  destruct (has_nulls inl) as [n|]; cbn [fst snd].
  - apply take_spec_oob_n.
  - apply take_spec_oob_a.
Qed.

(* ------------------------------------------------------------------ take *)
Lemma take_M_spec {T} (d : T) (cb : bool) (c : pcol T) (idx : pcol Z) : wf_col c -> wf_col idx ->
  option_map logical (take_M d cb c idx) = take_spec (logical c) (logical_idx idx).
Proof.
  intros Hc Hi. unfold take_M.
  destruct (cb && negb (check_bounds (length (fst c)) idx)) eqn:Ecb.
  - cbn. symmetry. apply andb_prop in Ecb. destruct Ecb as [_ Ecb]. apply negb_true_iff in Ecb.
    rewrite <- (logical_length c Hc) in Ecb. now apply check_bounds_sound.
  - destruct (fst idx) as [|i0 ir] eqn:Ef.
    + cbn. unfold logical_idx, logical. destruct idx as [iv inl]; cbn in *. subst iv. now destruct inl.
    + rewrite <- (take_impl_spec d c idx Hc Hi). reflexivity.
Qed.

(* the payload under a null index slot is never observable, and never causes an error *)
Definition agree_on_valid (n : list bool) (a b : list Z) : Prop := map2 mk_row a n = map2 mk_row b n.

Lemma take_null_payload_irrelevant {T} (d : T) (cb : bool) (c : pcol T) (iv iv' : list Z) (n : list bool) :
  wf_col c -> length iv = length n -> length iv' = length n -> agree_on_valid n iv iv' ->
  option_map logical (take_M d cb c (iv, Some n)) = option_map logical (take_M d cb c (iv', Some n)).
Proof.
  intros Hc H1 H2 Ha. rewrite !take_M_spec; try exact Hc; try (unfold wf_col; cbn; lia).
  unfold logical_idx, logical; cbn [fst snd]. now rewrite Ha.
Qed.

Lemma take_all_null_ok {T} (d : T) (cb : bool) (c : pcol T) (iv : list Z) :
  wf_col c ->
  option_map logical (take_M d cb c (iv, Some (repeat false (length iv)))) = Some (repeat None (length iv)).
Proof.
  intros Hc. rewrite take_M_spec; try exact Hc; [|unfold wf_col; cbn; now rewrite repeat_length].
  unfold logical_idx, logical; cbn [fst snd].
  induction iv as [|i iv IH]; [reflexivity|]. cbn. now rewrite IH.
Qed.
