(* C10 — rank_impl (sort, reverse when descending, the backwards windows(2) loop) assigns to every slot
   the rank of the specification: nulls before it (when nulls come first) plus the number of valid
   values not after it; ranks embed the comparator's order. *)
From Coq Require Import List ZArith Lia Bool Arith Permutation.
From AV Require Import Base.ListX Model.C10_Order Model.C10_Sort Model.C10_Rank Proofs.C10_Cmp Proofs.C10_Sort Proofs.C10_SortImpl.
Import ListNotations.

Lemma upd_length l i x : length (upd l i x) = length l.
Proof. revert i. induction l as [|y l IH]; intros [|i]; cbn; auto. Qed.
Lemma upd_same l i x : i < length l -> nth i (upd l i x) 0 = x.
Proof.
  revert i. induction l as [|y l IH]; intros i H; [cbn in H; lia|].
  destruct i as [|i]; [reflexivity|]. cbn in *. apply IH. lia.
Qed.
Lemma upd_other l i j x : j <> i -> nth j (upd l i x) 0 = nth j l 0.
Proof.
  revert i j. induction l as [|y l IH]; intros [|i] [|j] H; cbn; try reflexivity; try congruence.
  apply IH. congruence.
Qed.

Lemma nth_map_lt {A B} (f : A -> B) l j d d' : j < length l -> nth j (map f l) d = f (nth j l d').
Proof.
  revert j. induction l as [|x l IH]; intros j H; [cbn in H; lia|].
  destruct j as [|j]; [reflexivity|]. cbn in *. apply IH. lia.
Qed.

Lemma is_eq_c_iff c : is_eq_c c = true <-> c = Eq.
Proof. destruct c; cbn; split; congruence. Qed.

Section Back.
  Variable c : val -> val -> comparison.
  Hypothesis Hc : tpo c.
  Variable veq : val -> val -> bool.
  Hypothesis Hveq : forall x y, veq x y = is_eq_c (c x y).

  Definition cf (p q : val * nat) : comparison := c (fst p) (fst q).
  Definition cnt_le (s : list (val * nat)) (v : val) : nat := length (filter (fun p => not_gt (c (fst p) v)) s).
  Definition cnt_eq (s : list (val * nat)) (v : val) : nat := length (filter (fun p => is_eq_c (c (fst p) v)) s).

  Lemma cnt_le_cons p s v : cnt_le (p :: s) v = (if not_gt (c (fst p) v) then 1 else 0) + cnt_le s v.
  Proof. unfold cnt_le. cbn. destruct (not_gt (c (fst p) v)); reflexivity. Qed.
  Lemma cnt_eq_cons p s v : cnt_eq (p :: s) v = (if is_eq_c (c (fst p) v) then 1 else 0) + cnt_eq s v.
  Proof. unfold cnt_eq. cbn. destruct (is_eq_c (c (fst p) v)); reflexivity. Qed.

  Lemma cnt_le_ext s v w : c v w = Eq -> cnt_le s v = cnt_le s w.
  Proof.
    intros E. unfold cnt_le. f_equal. apply filter_ext. intros p. now rewrite (tpo_eq_r c Hc v w (fst p) E).
  Qed.
  Lemma cnt_eq_ext s v w : c v w = Eq -> cnt_eq s v = cnt_eq s w.
  Proof.
    intros E. unfold cnt_eq. f_equal. apply filter_ext. intros p. now rewrite (tpo_eq_r c Hc v w (fst p) E).
  Qed.

  Lemma filter_none {A} (f : A -> bool) l : (forall x, In x l -> f x = false) -> filter f l = [].
  Proof.
    induction l as [|y l IH]; intros H; [reflexivity|]. cbn. rewrite (H y (or_introl eq_refl)).
    apply IH. intros x Hx. apply H. now right.
  Qed.

  Theorem rank_back_spec : forall s base out,
    le_after cf (length s) s -> NoDup (map snd s) -> (forall p, In p s -> snd p < length out) ->
    let '(vr, cnt, out') := rank_back veq s (base + length s) out in
    length out' = length out /\
    (forall v i, In (v, i) s -> nth i out' 0 = base + cnt_le s v) /\
    (forall j, ~ In j (map snd s) -> nth j out' 0 = nth j out 0) /\
    match s with (v0, _) :: _ => vr = base + cnt_le s v0 /\ cnt = cnt_eq s v0 | [] => True end.
  Proof.
    destruct Hc as (Hr & Ha & Ht).
    induction s as [|[v i] s' IH]; intros base out Hs Hnd Hin.
    - cbn. repeat split; try reflexivity. intros v i [].
    - cbn [length] in Hs. cbn [le_after] in Hs. destruct Hs as [Hhead Hs'].
      cbn [map snd] in Hnd. inversion Hnd as [|? ? Hni Hnd']; subst.
      assert (Hi : i < length out) by (apply (Hin (v, i)); now left).
      assert (Hvv : not_gt (c v v) = true) by (rewrite Hr; reflexivity).
      assert (Hvve : is_eq_c (c v v) = true) by (rewrite Hr; reflexivity).
      destruct s' as [|[nxt j0] s''].
      + cbn [rank_back length]. replace (base + 1) with (base + 1) by lia.
        rewrite upd_length. split; [reflexivity|]. split; [|split; [|split]].
        * intros u k [E|[]]. injection E as <- <-. rewrite upd_same by exact Hi.
          rewrite cnt_le_cons. cbn [fst]. rewrite Hvv. unfold cnt_le. cbn. lia.
        * intros j Hj. apply upd_other. intros ->. apply Hj. now left.
        * rewrite cnt_le_cons. cbn [fst]. rewrite Hvv. unfold cnt_le. cbn. lia.
        * rewrite cnt_eq_cons. cbn [fst]. rewrite Hvve. unfold cnt_eq. cbn. lia.
      + set (s' := (nxt, j0) :: s'') in *.
        assert (Etop : base + length ((v, i) :: s') = (base + 1) + length s') by (cbn [length]; lia).
        change (rank_back veq ((v, i) :: s') (base + length ((v, i) :: s')) out)
          with (let '(vr, cnt, out') := rank_back veq s' (base + length ((v, i) :: s')) out in
                if veq v nxt then (vr, S cnt, upd out' i vr) else (vr - cnt, 1, upd out' i (vr - cnt))).
        rewrite Etop.
        specialize (IH (base + 1) out Hs' Hnd' (fun p Hp => Hin p (or_intror Hp))).
        destruct (rank_back veq s' (base + 1 + length s') out) as [[vr cnt] out1].
        destruct IH as (L1 & A1 & B1 & C1). unfold s' in C1. destruct C1 as [Cvr Ccnt]. fold s' in Cvr, Ccnt.
        assert (Hi1 : i < length out1) by (rewrite L1; exact Hi).
        (* every later element is not below v; the head of s' is its minimum *)
        assert (Hle : forall u k, In (u, k) s' -> not_gt (c v u) = true).
        { intros u k Hu. rewrite Forall_forall in Hhead. apply not_gt_iff. apply (Hhead (u, k) Hu). }
        assert (Hmin : forall p, In p s' -> c nxt (fst p) <> Gt).
        { intros p Hp. unfold s' in Hp. destruct Hp as [<-|Hp]; [cbn; rewrite Hr; congruence|].
          unfold s' in Hs'. cbn [length le_after] in Hs'. destruct Hs' as [Hh _]. rewrite Forall_forall in Hh. apply (Hh p Hp). }
        assert (Hrest : forall u k, In (u, k) s' -> k <> i).
        { intros u k Hu ->. apply Hni. apply in_map_iff. exists (u, i). split; [reflexivity|exact Hu]. }
        assert (Hle_eq : cnt_le s' nxt = cnt_eq s' nxt).
        { unfold cnt_le, cnt_eq. f_equal. apply filter_ext_in. intros p Hp. specialize (Hmin p Hp).
          rewrite (Ha nxt (fst p)). destruct (c nxt (fst p)); cbn; congruence. }
        assert (Others : forall x u k, In (u, k) s' ->
                  nth k (upd out1 i x) 0 = base + cnt_le ((v, i) :: s') u).
        { intros x u k Hu. rewrite upd_other by (eapply Hrest; eassumption). rewrite (A1 u k Hu).
          rewrite cnt_le_cons. cbn [fst]. rewrite (Hle u k Hu). lia. }
        rewrite Hveq. destruct (c v nxt) eqn:Evn; cbn [is_eq_c].
        * (* same run as the successor *)
          rewrite upd_length. split; [exact L1|]. split; [|split; [|split]].
          -- intros u k [E|Hu]; [|now apply Others]. injection E as <- <-. rewrite upd_same by exact Hi1.
             rewrite Cvr, cnt_le_cons. cbn [fst]. rewrite Hvv. rewrite (cnt_le_ext s' v nxt Evn). lia.
          -- intros j Hj. rewrite upd_other by (intros ->; apply Hj; now left). apply B1. intros Hj'. apply Hj. now right.
          -- rewrite Cvr, cnt_le_cons. cbn [fst]. rewrite Hvv. rewrite (cnt_le_ext s' v nxt Evn). lia.
          -- rewrite Ccnt, cnt_eq_cons. cbn [fst]. rewrite Hvve. rewrite (cnt_eq_ext s' v nxt Evn). lia.
        * (* strictly below the successor: a new run *)
          assert (Hgt : forall p, In p s' -> c (fst p) v = Gt).
          { intros p Hp. assert (X : c v (fst p) = Lt) by (apply (tpo_lt_le c (conj Hr (conj Ha Ht)) v nxt); [exact Evn|now apply Hmin]).
            rewrite Ha, X. reflexivity. }
          assert (Z1 : cnt_le s' v = 0).
          { unfold cnt_le. rewrite filter_none; [reflexivity|]. intros p Hp. now rewrite (Hgt p Hp). }
          assert (Z2 : cnt_eq s' v = 0).
          { unfold cnt_eq. rewrite filter_none; [reflexivity|]. intros p Hp. now rewrite (Hgt p Hp). }
          assert (Evr : vr - cnt = base + 1) by (rewrite Cvr, Ccnt, Hle_eq; lia).
          rewrite upd_length. split; [exact L1|]. split; [|split; [|split]].
          -- intros u k [E|Hu]; [|now apply Others]. injection E as <- <-. rewrite upd_same by exact Hi1.
             rewrite cnt_le_cons. cbn [fst]. rewrite Hvv, Z1. lia.
          -- intros j Hj. rewrite upd_other by (intros ->; apply Hj; now left). apply B1. intros Hj'. apply Hj. now right.
          -- rewrite cnt_le_cons. cbn [fst]. rewrite Hvv, Z1. lia.
          -- rewrite cnt_eq_cons. cbn [fst]. rewrite Hvve, Z2. lia.
        * exfalso. rewrite Forall_forall in Hhead. apply (Hhead (nxt, j0)); [now left|exact Evn].
  Qed.
End Back.

(* ------------------------------------------------------------------ the (value, index) pairs *)

Lemma vpf_in k a : forall v i, In (v, i) (valid_pairs_from k a) <-> k <= i /\ nth_error a (i - k) = Some (Some v).
Proof.
  revert k. induction a as [|o a IH]; intros k v i; cbn [valid_pairs_from].
  - split; [intros []|]. intros [_ H]. destruct (i - k); discriminate.
  - rewrite in_app_iff, IH. split.
    + intros [H|[H1 H2]].
      * destruct o as [u|]; [|contradiction]. destruct H as [E|[]]. injection E as <- <-. rewrite Nat.sub_diag. split; [lia|reflexivity].
      * split; [lia|]. replace (i - k) with (S (i - S k)) by lia. exact H2.
    + intros [H1 H2]. destruct (Nat.eq_dec i k) as [->|Ne].
      * rewrite Nat.sub_diag in H2. cbn in H2. injection H2 as ->. left. now left.
      * right. split; [lia|]. replace (i - k) with (S (i - S k)) in H2 by lia. exact H2.
Qed.

Lemma vpf_snd_ge k a : forall i, In i (map snd (valid_pairs_from k a)) -> k <= i.
Proof. intros i H. apply in_map_iff in H. destruct H as ([v j] & <- & H). apply vpf_in in H. cbn. lia. Qed.

Lemma vpf_nodup k a : NoDup (map snd (valid_pairs_from k a)).
Proof.
  revert k. induction a as [|o a IH]; intros k; cbn [valid_pairs_from]; [constructor|].
  rewrite map_app. destruct o as [u|]; cbn; [|apply IH].
  constructor; [|apply IH]. intros H. apply vpf_snd_ge in H. lia.
Qed.

Lemma vpf_count (f : val -> bool) k a :
  length (filter (fun p : val * nat => f (fst p)) (valid_pairs_from k a))
  = length (filter (fun o : oval => match o with Some u => f u | None => false end) a).
Proof.
  revert k. induction a as [|o a IH]; intros k; [reflexivity|]. cbn [valid_pairs_from].
  rewrite filter_app, app_length, (IH (S k)). destruct o as [u|]; cbn; [|reflexivity]. destruct (f u); reflexivity.
Qed.

Lemma vpf_length k a : length (valid_pairs_from k a) + count_nulls a = length a.
Proof.
  revert k. induction a as [|o a IH]; intros k; [reflexivity|]. cbn [valid_pairs_from].
  rewrite app_length. specialize (IH (S k)). unfold count_nulls in *. destruct o; cbn in *; lia.
Qed.

Lemma filter_length_perm {A} (f : A -> bool) l l' : Permutation l l' -> length (filter f l) = length (filter f l').
Proof. induction 1; cbn; try lia; repeat match goal with |- context [if f ?x then _ else _] => destruct (f x) end; cbn; lia. Qed.

Lemma le_after_rev {R} (c : R -> R -> comparison) l : c_antisym c ->
  le_after c (length l) l -> le_after (fun x y => CompOpp (c x y)) (length (rev l)) (rev l).
Proof.
  intros Ha. induction l as [|x r IH]; intros H; [exact I|].
  cbn [length le_after] in H. destruct H as [H1 H2]. cbn [rev].
  apply le_after_app.
  - apply IH. exact H2.
  - intros y z Hy [<-|[]]. apply in_rev in Hy. rewrite Forall_forall in H1. specialize (H1 y Hy).
    rewrite (Ha x y). destruct (c x y); cbn in *; congruence.
  - generalize (length (rev r ++ [x]) - length (rev r)). intros [|k]; [exact I|].
    cbn [le_after]. split; [constructor|]. now rewrite le_after_nil.
Qed.

(* ------------------------------------------------------------------ rank_impl = rank_spec *)

Section RankImpl.
  Variable so : (val * nat -> val * nat -> comparison) -> list (val * nat) -> list (val * nat).
  Hypothesis Hso : sort_contract so.
  Variable vc : val -> val -> comparison.
  Hypothesis Hvc : tpo vc.
  Variable veq : val -> val -> bool.
  Hypothesis Hveq : forall x y, veq x y = is_eq_c (vc x y).

  Theorem rank_m_spec nf desc a : rank_m so vc veq nf desc a = rank_spec vc nf desc a.
  Proof.
    unfold rank_m, rank_impl, rank_valid_pairs.
    set (valid := valid_pairs_from 0 a). set (len := length a).
    set (c0 := fun p q : val * nat => vc (fst p) (fst q)).
    assert (Hc0 : tpo c0) by (apply (tpo_on (@fst val nat)); exact Hvc).
    destruct (Hso c0 valid Hc0) as [P0 S0].
    set (s := if desc then rev (so c0 valid) else so c0 valid).
    set (cd := fun x y => rev_if desc (vc x y)).
    assert (Hcd : tpo cd) by (apply tpo_rev_if; exact Hvc).
    assert (Ps : Permutation s valid).
    { unfold s. destruct desc; [|exact P0]. apply Permutation_trans with (so c0 valid); [symmetry; apply Permutation_rev|exact P0]. }
    assert (Ls : length s = length valid) by apply (Permutation_length Ps).
    assert (Ss : le_after (cf cd) (length s) s).
    { unfold s, cd, cf. destruct desc; cbn [rev_if].
      - apply (le_after_rev c0 (so c0 valid)); [apply Hc0|]. now apply sortedb_le_after.
      - now apply (sortedb_le_after c0). }
    assert (Hveq' : forall x y, veq x y = is_eq_c (cd x y)).
    { intros x y. rewrite Hveq. unfold cd. destruct desc; cbn; [|reflexivity]. destruct (vc x y); reflexivity. }
    assert (Hlen : length valid + count_nulls a = len) by apply vpf_length.
    set (base := if nf then len - length s else 0).
    set (null_rank := if nf then len - length s else len).
    assert (Etop : (if nf then (len, len - length s) else (length s, len)) = (base + length s, null_rank)).
    { unfold base, null_rank. destruct nf; f_equal; lia. }
    rewrite Etop.
    assert (Hnd : NoDup (map snd s)).
    { apply (Permutation_NoDup (l := map snd valid)); [apply Permutation_map; symmetry; exact Ps|apply vpf_nodup]. }
    assert (Hin : forall p, In p s -> snd p < length (repeat null_rank len)).
    { intros [v i] Hp. apply (Permutation_in _ Ps) in Hp. apply vpf_in in Hp. rewrite repeat_length. cbn.
      destruct Hp as [_ Hp]. rewrite Nat.sub_0_r in Hp. apply nth_error_Some. unfold len. rewrite Hp. discriminate. }
    pose proof (rank_back_spec cd Hcd veq Hveq' s base (repeat null_rank len) Ss Hnd Hin) as RB.
    destruct (rank_back veq s (base + length s) (repeat null_rank len)) as [[vr cnt] out'].
    destruct RB as (L & A & B & _). rewrite repeat_length in L.
    cbv beta iota zeta. unfold rank_spec.
    match goal with |- out' = ?rhs => apply (nth_ext_len out' rhs 0) end; [rewrite map_length; exact L|].
    intros j Hj. rewrite L in Hj.
    rewrite (nth_map_lt _ a j 0 None) by exact Hj. fold (slot a j).
    destruct (slot a j) as [v|] eqn:Sj.
    - assert (Hv : In (v, j) s).
      { apply (Permutation_in _ (Permutation_sym Ps)). apply vpf_in. split; [lia|]. rewrite Nat.sub_0_r.
        unfold slot in Sj. rewrite <- Sj. apply nth_error_nth'. exact Hj. }
      rewrite (A v j Hv). f_equal.
      + unfold base. destruct nf; [|reflexivity]. rewrite Ls. lia.
      + unfold cnt_le. rewrite (filter_length_perm _ _ _ Ps).
        unfold valid. rewrite (vpf_count (fun u => not_gt (cd u v)) 0 a). reflexivity.
    - rewrite B.
      + rewrite (nth_indep _ 0 null_rank) by (rewrite repeat_length; exact Hj).
        rewrite nth_repeat. unfold null_rank. destruct nf; [|reflexivity]. rewrite Ls. lia.
      + intros H. apply in_map_iff in H. destruct H as ([u k] & E & Hk). cbn in E. subst k.
        apply (Permutation_in _ Ps) in Hk. apply vpf_in in Hk. destruct Hk as [_ Hk]. rewrite Nat.sub_0_r in Hk.
        unfold slot in Sj. rewrite (nth_error_nth _ _ _ Hk) in Sj. discriminate.
  Qed.
End RankImpl.

(* ------------------------------------------------------------------ ranks embed the order (why sorting
   dictionaries and lists by the ranks of their values is sorting by the comparator) *)
Lemma count_le_mono vc desc a u v : tpo vc -> rev_if desc (vc u v) <> Gt -> count_le desc vc a u <= count_le desc vc a v.
Proof.
  intros Hvc H. unfold count_le. induction a as [|o a IH]; [reflexivity|]. cbn.
  destruct o as [w|]; [|exact IH].
  pose proof (tpo_rev_if vc desc Hvc) as (_ & _ & Ht).
  destruct (not_gt (rev_if desc (vc w u))) eqn:E1.
  - apply not_gt_iff in E1. assert (E2 : rev_if desc (vc w v) <> Gt) by (apply (Ht w u v); assumption).
    apply not_gt_iff in E2. rewrite E2. cbn. lia.
  - destruct (not_gt (rev_if desc (vc w v))); cbn; lia.
Qed.

Lemma count_le_strict vc desc a u v : tpo vc -> In (Some v) a ->
  rev_if desc (vc u v) = Lt -> count_le desc vc a u < count_le desc vc a v.
Proof.
  intros Hvc Hv H. destruct (tpo_rev_if vc desc Hvc) as (Hr & Ha & _).
  assert (E1 : not_gt (rev_if desc (vc v u)) = false) by (rewrite (Ha u v), H; reflexivity).
  assert (E2 : not_gt (rev_if desc (vc v v)) = true) by (rewrite (Hr v); reflexivity).
  assert (N : rev_if desc (vc u v) <> Gt) by (rewrite H; congruence).
  destruct (in_split _ _ Hv) as (a1 & a2 & ->).
  pose proof (count_le_mono vc desc a1 u v Hvc N) as M1.
  pose proof (count_le_mono vc desc a2 u v Hvc N) as M2.
  unfold count_le in *. rewrite !filter_app, !app_length. cbn [filter]. rewrite E1, E2. cbn [length]. lia.
Qed.
