(* C12 — lane-split aggregation = the fold over the non-null values, for every lane count 2^k,
   every length and every null pattern; instantiated for wrapping sum, min and max.
   sum_checked = left-to-right exact sum with Overflow on the first unrepresentable partial sum. *)
From Coq Require Import List ZArith Bool Arith Lia.
From AV Require Import Base.ListX Model.C12_Int Model.C12_Kernel Model.C12_Agg Proofs.C12_Int Proofs.C12_Kernel.
Import ListNotations.
Local Open Scope Z_scope.

(* ---- generic: a commutative monoid (op, e) on a carrier P *)
Section Mono.
Variable op : Z -> Z -> Z.
Variable e : Z.
Variable P : Z -> Prop.
Hypothesis op_assoc : forall a b c, op (op a b) c = op a (op b c).
Hypothesis op_comm : forall a b, op a b = op b a.
Hypothesis op_P : forall a b, P a -> P b -> P (op a b).
Hypothesis e_P : P e.
Hypothesis op_e : forall a, P a -> op e a = a.

Definition big (l : list Z) : Z := fold_right op e l.
Let A := mkacc e op op.

Lemma big_P l : Forall P l -> P (big l).
Proof. induction 1; cbn [big fold_right]; auto. Qed.

Lemma op_e_r a : P a -> op a e = a.
Proof. intros. rewrite op_comm. auto. Qed.

Lemma big_app l1 l2 : Forall P l1 -> Forall P l2 -> big (l1 ++ l2) = op (big l1) (big l2).
Proof.
  intros F1 F2. induction F1 as [|x l1 Px F1 IH]; cbn [app big fold_right].
  - symmetry. apply op_e. now apply big_P.
  - fold (big (l1 ++ l2)) (big l1). rewrite IH. now rewrite op_assoc.
Qed.

Lemma fold_left_big : forall l a, Forall P l -> P a -> fold_left op l a = op a (big l).
Proof.
  induction l as [|x l IH]; intros a F Pa; cbn [fold_left big fold_right].
  - symmetry. now apply op_e_r.
  - inversion F; subst. rewrite IH by auto. fold (big l). now rewrite op_assoc.
Qed.

Lemma valid_values_P : forall v a, Forall P a -> Forall P (valid_values (mk v a)).
Proof.
  induction v as [|b v IH]; intros [|x a] F; try constructor.
  inversion F; subst. cbn [mk map2 valid_values]. fold (mk v a). destruct b; [constructor|]; auto.
Qed.

Lemma chunk_step_spec : forall acc vals valid,
  Forall P acc -> Forall P vals -> (length vals <= length acc)%nat ->
  Forall P (chunk_step A acc vals valid) /\ length (chunk_step A acc vals valid) = length acc /\
  big (chunk_step A acc vals valid) = op (big acc) (big (valid_values (mk valid vals))).
Proof.
  induction acc as [|a acc IH]; intros vals valid Fa Fv L.
  - destruct vals; [|cbn in L; lia]. cbn [chunk_step]. repeat split; auto.
    destruct valid; cbn [mk map2 valid_values big fold_right]; symmetry; now apply op_e.
  - inversion Fa as [|? ? Pa Fa']; subst.
    destruct vals as [|v vals].
    { cbn [chunk_step]. repeat split; auto. destruct valid; cbn [mk map2 valid_values]; symmetry; apply op_e_r; now apply big_P. }
    destruct valid as [|b valid].
    { cbn [chunk_step]. repeat split; auto. cbn [mk map2 valid_values]. symmetry; apply op_e_r; now apply big_P. }
    inversion Fv as [|? ? Pv Fv']; subst. cbn [length] in L.
    destruct (IH vals valid Fa' Fv' ltac:(lia)) as [F' [L' B']].
    cbn [chunk_step]. split; [|split].
    + constructor; [|exact F']. unfold accumulate_nullable. destruct b; cbn [A acc_accumulate]; auto.
    + cbn [length]. now rewrite L'.
    + cbn [big fold_right]. fold (big (chunk_step A acc vals valid)) (big acc). rewrite B'.
      cbn [mk map2 valid_values]. fold (mk valid vals).
      assert (Pb : P (big acc)) by now apply big_P.
      assert (Pvv : P (big (valid_values (mk valid vals)))) by (apply big_P; now apply valid_values_P).
      unfold accumulate_nullable. destruct b; cbn [A acc_accumulate valid_values big fold_right].
      * fold (big (valid_values (mk valid vals))).
        rewrite !op_assoc. f_equal. rewrite <- !op_assoc. f_equal. apply op_comm.
      * now rewrite op_assoc.
Qed.

Lemma mk_split n : forall (v : list bool) (a : list Z),
  mk v a = mk (firstn n v) (firstn n a) ++ mk (skipn n v) (skipn n a).
Proof.
  induction n as [|n IH]; intros v a; [reflexivity|].
  destruct v as [|b v], a as [|x a]; try reflexivity.
  - cbn [firstn skipn mk map2 app]. destruct (skipn n v); reflexivity.
  - cbn [firstn skipn mk map2 app]. fold (mk v a) (mk (firstn n v) (firstn n a)). now rewrite (IH v a).
Qed.
Lemma valid_values_app l1 l2 : valid_values (l1 ++ l2) = valid_values l1 ++ valid_values l2.
Proof. induction l1 as [|[x|] l1 IH]; cbn [app valid_values]; [reflexivity| |]; now rewrite IH. Qed.

Lemma lanes_loop_spec L : (0 < L)%nat -> forall fuel acc vals valid,
  (length vals < fuel)%nat -> length acc = L -> Forall P acc -> Forall P vals ->
  let r := lanes_loop fuel A L acc vals valid in
  Forall P r /\ length r = L /\ big r = op (big acc) (big (valid_values (mk valid vals))).
Proof.
  intros HL. induction fuel as [|k IH]; intros acc vals valid Hf La Fa Fv; [lia|].
  cbn [lanes_loop]. destruct vals as [|v0 vals0] eqn:Ev.
  - cbv zeta. repeat split; auto. destruct valid; cbn [mk map2 valid_values big fold_right]; symmetry; apply op_e_r; now apply big_P.
  - assert (Hne : (0 < length vals)%nat) by (rewrite Ev; cbn [length]; lia).
    rewrite <- Ev in *. clear Ev v0 vals0.
    assert (Lf : (length (firstn L vals) <= length acc)%nat) by (rewrite firstn_length; lia).
    destruct (chunk_step_spec acc (firstn L vals) (firstn L valid) Fa (Forall_firstn' _ _ _ Fv) Lf) as [F1 [L1 B1]].
    assert (Hlen : (length (skipn L vals) < k)%nat).
    { rewrite skipn_length. lia. }
    destruct (IH _ (skipn L vals) (skipn L valid) Hlen (eq_trans L1 La) F1 (Forall_skipn' _ _ _ Fv)) as [F2 [L2 B2]].
    cbv zeta. split; [exact F2|]. split; [exact L2|].
    rewrite B2, B1. rewrite (mk_split L valid vals), valid_values_app.
    rewrite big_app by (apply valid_values_P; first [apply Forall_firstn'|apply Forall_skipn']; assumption).
    now rewrite op_assoc.
Qed.

Lemma big_map2 : forall x y, length x = length y -> Forall P x -> Forall P y ->
  Forall P (map2 op x y) /\ big (map2 op x y) = op (big x) (big y).
Proof.
  induction x as [|a x IH]; intros [|b y] L Fx Fy; cbn [length] in *; try discriminate.
  - cbn [map2 big fold_right]. split; [constructor|]. symmetry. now apply op_e.
  - inversion Fx; inversion Fy; subst. destruct (IH y ltac:(lia) ltac:(assumption) ltac:(assumption)) as [F B].
    cbn [map2 big fold_right]. fold (big (map2 op x y)) (big x) (big y). split; [constructor; auto|].
    rewrite B. assert (P (big x)) by now apply big_P. assert (P (big y)) by now apply big_P.
    rewrite !op_assoc. f_equal. rewrite <- !op_assoc. f_equal. apply op_comm.
Qed.

Lemma reduce_tree_spec : forall fuel k acc, (k < fuel)%nat -> length acc = (2 ^ k)%nat -> Forall P acc ->
  reduce_tree fuel A acc = [big acc].
Proof.
  induction fuel as [|f IH]; intros k acc Hk L F; [lia|].
  cbn [reduce_tree]. destruct k as [|k].
  - cbn in L. destruct acc as [|x [|? ?]]; try discriminate. cbn [length Nat.leb].
    inversion F; subst. cbn [big fold_right]. now rewrite op_e_r.
  - assert (H2 : (2 <= length acc)%nat).
    { rewrite L. cbn [Nat.pow]. pose proof (Nat.pow_nonzero 2 k ltac:(lia)). lia. }
    apply Nat.leb_le in H2. rewrite H2.
    assert (Mid : (length acc / 2 = 2 ^ k)%nat).
    { rewrite L. cbn [Nat.pow]. rewrite Nat.mul_comm. apply Nat.div_mul. lia. }
    rewrite Mid. set (mid := (2 ^ k)%nat) in *.
    assert (L1 : length (firstn mid acc) = mid) by (rewrite firstn_length; cbn [Nat.pow] in L; lia).
    assert (L2 : length (skipn mid acc) = mid) by (rewrite skipn_length; cbn [Nat.pow] in L; lia).
    assert (E2 : firstn mid (skipn mid acc) = skipn mid acc) by (apply firstn_all2; lia).
    rewrite E2.
    destruct (big_map2 (firstn mid acc) (skipn mid acc) (eq_trans L1 (eq_sym L2))
                (Forall_firstn' _ _ _ F) (Forall_skipn' _ _ _ F)) as [Fm Bm].
    change (acc_merge A) with op.
    rewrite (IH k _ ltac:(lia)); [|rewrite map2_length by lia; exact L1|exact Fm].
    f_equal. rewrite Bm. rewrite <- big_app by (try apply Forall_firstn'; try apply Forall_skipn'; assumption).
    now rewrite firstn_skipn.
Qed.

Lemma big_repeat_e n : big (repeat e n) = e.
Proof. induction n as [|n IH]; [reflexivity|]. cbn [repeat big fold_right]. fold (big (repeat e n)). rewrite IH. now apply op_e. Qed.

Theorem lanes_eq_fold k vals valid : Forall P vals ->
  aggregate_nullable_lanes A (2 ^ k) vals valid = fold_left op (valid_values (mk valid vals)) e.
Proof.
  intros Fv. unfold aggregate_nullable_lanes. change (acc_default A) with e.
  assert (HL : (0 < 2 ^ k)%nat) by (pose proof (Nat.pow_nonzero 2 k ltac:(lia)); lia).
  assert (Fr : Forall P (repeat e (2 ^ k))) by (apply Forall_forall; intros x Hx; apply repeat_spec in Hx; now subst).
  destruct (lanes_loop_spec (2 ^ k) HL (S (length vals)) (repeat e (2 ^ k)) vals valid
              ltac:(lia) (repeat_length _ _) Fr Fv) as [F [L B]].
  rewrite (reduce_tree_spec (S (2 ^ k)) k _ ltac:(pose proof (Nat.pow_gt_lin_r 2 k ltac:(lia)); lia) L F).
  cbn [hd]. rewrite B, big_repeat_e.
  assert (Fvv : Forall P (valid_values (mk valid vals))) by now apply valid_values_P.
  rewrite fold_left_big by assumption. reflexivity.
Qed.
End Mono.

(* ---- counting nulls *)
Lemma valid_values_count : forall (n : list bool) (a : list Z), length n = length a ->
  (length (valid_values (mk n a)) + count_false n = length a)%nat.
Proof.
  induction n as [|b n IH]; intros [|x a] L; cbn [length] in *; try discriminate; [reflexivity|].
  cbn [mk map2 valid_values count_false]. fold (mk n a). specialize (IH a ltac:(lia)).
  destruct b; cbn [valid_values length]; lia.
Qed.
Lemma valid_values_map_Some a : valid_values (map Some a) = a.
Proof. induction a as [|x a IH]; [reflexivity|]. cbn [map valid_values]. now rewrite IH. Qed.

Lemma count_false_le n : (count_false n <= length n)%nat.
Proof. induction n as [|b n IH]; [cbn; lia|]. cbn [count_false length]. destruct b; lia. Qed.

(* aggregate = None iff no non-null value, else the fold over the non-null values *)
Theorem aggregate_spec op e (P : Z -> Prop) k a :
  (forall a b c, op (op a b) c = op a (op b c)) -> (forall a b, op a b = op b a) ->
  (forall a b, P a -> P b -> P (op a b)) -> P e -> (forall a, P a -> op e a = a) ->
  wf a -> Forall P (a_vals a) ->
  aggregate (mkacc e op op) (2 ^ k) a =
  match valid_values (denote a) with [] => None | vs => Some (fold_left op vs e) end.
Proof.
  intros Ha Hc Hp He Hi W F. unfold aggregate. rewrite denote_mk.
  pose proof (vof_length a W) as Lv. unfold arr_len in *.
  pose proof (valid_values_count (vof a) (a_vals a) Lv) as Cnt.
  unfold null_count, vof in *. destruct (a_nulls a) as [n|] eqn:An.
  - destruct (Nat.eqb_spec (count_false n) (length (a_vals a))) as [E|E].
    + destruct (valid_values (mk n (a_vals a))); [reflexivity|cbn [length] in Cnt; lia].
    + destruct (Nat.ltb_spec 0 (count_false n)) as [Z0|Z0].
      * rewrite (lanes_eq_fold op e P Ha Hc Hp He Hi k (a_vals a) n F).
        destruct (valid_values (mk n (a_vals a))) eqn:Ev; [cbn [length] in Cnt; lia|reflexivity].
      * assert (En : n = repeat true (length (a_vals a))).
        { rewrite <- Lv. apply count_false_0. lia. }
        rewrite En, mk_true, valid_values_map_Some. unfold aggregate_nonnull_simple. cbn [acc_accumulate acc_default].
        destruct (a_vals a); [cbn [length] in *; lia|reflexivity].
  - unfold arr_len. rewrite mk_true, valid_values_map_Some.
    destruct (a_vals a) as [|x l]; [reflexivity|]. cbn [length Nat.eqb]. reflexivity.
Qed.

(* ---- sum *)
Section Width.
Variable H : Z.
Hypothesis Hpos : 0 < H.

Lemma wadd_assoc s a b c : wrapping_add s H (wrapping_add s H a b) c = wrapping_add s H a (wrapping_add s H b c).
Proof.
  unfold wrapping_add.
  destruct (wrap_cong H Hpos s (a + b)) as [k1 E1]. destruct (wrap_cong H Hpos s (wrap s H (a + b) + c)) as [k2 E2].
  destruct (wrap_cong H Hpos s (b + c)) as [k3 E3].
  apply (wrap_unique H Hpos s _ _ (k1 + k2 - k3)); [apply (wrap_in_range H Hpos)|].
  rewrite E2, E1, E3. ring.
Qed.
Lemma wadd_comm s a b : wrapping_add s H a b = wrapping_add s H b a.
Proof. unfold wrapping_add. f_equal. ring. Qed.

Lemma fold_wadd s : forall l a, fold_left (wrapping_add s H) l (wrap s H a) = wrap s H (a + zsum l).
Proof.
  induction l as [|x l IH]; intros a; cbn [fold_left zsum fold_right].
  - now rewrite Z.add_0_r.
  - fold (zsum l). replace (wrapping_add s H (wrap s H a) x) with (wrap s H (a + x)).
    + rewrite IH. f_equal. ring.
    + unfold wrapping_add. destruct (wrap_cong H Hpos s a) as [k E].
      destruct (wrap_cong H Hpos s (wrap s H a + x)) as [k2 E2].
      symmetry. apply (wrap_unique H Hpos s _ _ (k + k2)); [apply (wrap_in_range H Hpos)|]. rewrite E2, E. ring.
Qed.

Lemma in_range_0 s : in_range s H 0 = true.
Proof. apply in_range_iff. unfold tmin, tmax. destruct s; lia. Qed.

(* sum over ANY number 2^k of lanes = the exact sum of the non-null values reduced into the type *)
Theorem sum_lanes_spec s k a : wf a -> vals_in_range H s a ->
  aggregate (sum_acc s H) (2 ^ k) a = spec_sum s H (denote a).
Proof.
  intros W R. unfold sum_acc, spec_sum.
  rewrite (aggregate_spec (wrapping_add s H) 0 (fun x => in_range s H x = true) k a
             (wadd_assoc s) (wadd_comm s)
             (fun a b _ _ => wrap_in_range H Hpos s (a + b)) (in_range_0 s)
             (fun a Ra => eq_trans (f_equal (wrap s H) (Z.add_0_l a)) (wrap_small H s a Ra)) W R).
  destruct (valid_values (denote a)) as [|v vs]; [reflexivity|]. f_equal.
  rewrite <- (wrap_small H s 0 (in_range_0 s)) at 1. rewrite fold_wadd. f_equal.
Qed.

(* ---- min / max *)
Lemma min_op_assoc a b c : (if c <? (if b <? a then b else a) then c else (if b <? a then b else a))
  = (let m := if c <? b then c else b in if m <? a then m else a).
Proof. cbv zeta. destruct (Z.ltb_spec b a), (Z.ltb_spec c b); destruct (Z.ltb_spec c a); try destruct (Z.ltb_spec b a); try lia; reflexivity. Qed.

Definition minop (st v : Z) : Z := if v <? st then v else st.
Definition maxop (st v : Z) : Z := if v >? st then v else st.
Lemma minop_min a b : minop a b = Z.min a b.
Proof. unfold minop. destruct (Z.ltb_spec b a); lia. Qed.
Lemma maxop_max a b : maxop a b = Z.max a b.
Proof. unfold maxop. rewrite Z.gtb_ltb. destruct (Z.ltb_spec a b); lia. Qed.

Lemma fold_min_top : forall vs v t, Forall (fun x => x <= t) (v :: vs) ->
  fold_left minop (v :: vs) t = fold_left Z.min vs v.
Proof.
  intros vs v t F. inversion F; subst. cbn [fold_left]. rewrite minop_min, Z.min_r by lia.
  clear. revert v. induction vs as [|x vs IH]; intros v; [reflexivity|]. cbn [fold_left]. now rewrite minop_min, IH.
Qed.
Lemma fold_max_bot : forall vs v t, Forall (fun x => t <= x) (v :: vs) ->
  fold_left maxop (v :: vs) t = fold_left Z.max vs v.
Proof.
  intros vs v t F. inversion F; subst. cbn [fold_left]. rewrite maxop_max, Z.max_r by lia.
  clear. revert v. induction vs as [|x vs IH]; intros v; [reflexivity|]. cbn [fold_left]. now rewrite maxop_max, IH.
Qed.

Lemma valid_values_in (Q : Z -> Prop) a : Forall Q (a_vals a) -> Forall Q (valid_values (denote a)).
Proof.
  intros F. rewrite denote_mk. generalize (vof a). induction F as [|x l Qx F IH]; intros [|b v]; try constructor.
  cbn [mk map2 valid_values]. fold (mk v l). destruct b; [constructor|]; auto.
Qed.

Theorem min_lanes_spec s k a : wf a -> vals_in_range H s a ->
  aggregate (min_acc s H) (2 ^ k) a = spec_min (denote a).
Proof.
  intros W R. unfold spec_min. change (min_acc s H) with (mkacc (tmax s H) minop minop).
  rewrite (aggregate_spec minop (tmax s H) (fun x => x <= tmax s H) k a).
  - destruct (valid_values (denote a)) as [|v vs] eqn:Ev; [reflexivity|]. f_equal.
    apply fold_min_top. rewrite <- Ev. apply valid_values_in.
    eapply Forall_impl; [|exact R]. intros x Rx. apply in_range_iff in Rx. lia.
  - intros x y z. rewrite !minop_min. lia.
  - intros x y. rewrite !minop_min. lia.
  - intros x y Px Py. rewrite minop_min. lia.
  - lia.
  - intros x Px. rewrite minop_min. lia.
  - exact W.
  - eapply Forall_impl; [|exact R]. intros x Rx. apply in_range_iff in Rx. lia.
Qed.

Theorem max_lanes_spec s k a : wf a -> vals_in_range H s a ->
  aggregate (max_acc s H) (2 ^ k) a = spec_max (denote a).
Proof.
  intros W R. unfold spec_max. change (max_acc s H) with (mkacc (tmin s H) maxop maxop).
  rewrite (aggregate_spec maxop (tmin s H) (fun x => tmin s H <= x) k a).
  - destruct (valid_values (denote a)) as [|v vs] eqn:Ev; [reflexivity|]. f_equal.
    apply fold_max_bot. rewrite <- Ev. apply valid_values_in.
    eapply Forall_impl; [|exact R]. intros x Rx. apply in_range_iff in Rx. lia.
  - intros x y z. rewrite !maxop_max. lia.
  - intros x y. rewrite !maxop_max. lia.
  - intros x y Px Py. rewrite maxop_max. lia.
  - lia.
  - intros x Px. rewrite maxop_max. lia.
  - exact W.
  - eapply Forall_impl; [|exact R]. intros x Rx. apply in_range_iff in Rx. lia.
Qed.

(* ---- sum_checked *)
Lemma checked_fold_spec s : forall vals valid st,
  checked_fold s H st vals valid = spec_checked_fold s H st (valid_values (mk valid vals)).
Proof.
  induction vals as [|v vals IH]; intros [|b valid] st; try reflexivity.
  cbn [checked_fold mk map2 valid_values]. fold (mk valid vals). destruct b.
  - cbn [valid_values spec_checked_fold]. rewrite (add_checked_spec H Hpos).
    destruct (in_range s H (st + v)); [apply IH|reflexivity].
  - apply IH.
Qed.

Lemma count_false_repeat_true n : count_false (repeat true n) = 0%nat.
Proof. induction n; [reflexivity|]. cbn [repeat count_false]. lia. Qed.

Theorem sum_checked_spec s a : wf a -> sum_checked s H a = spec_sum_checked s H (denote a).
Proof.
  intros W. unfold sum_checked, spec_sum_checked. rewrite checked_fold_spec, denote_mk.
  change (match a_nulls a with Some n => n | None => repeat true (arr_len a) end) with (vof a).
  pose proof (vof_length a W) as Lv. unfold arr_len in Lv.
  pose proof (valid_values_count (vof a) (a_vals a) Lv) as Cnt.
  assert (NC : null_count a = count_false (vof a)).
  { unfold null_count, vof. destruct (a_nulls a); [reflexivity|]. symmetry. apply count_false_repeat_true. }
  rewrite NC. unfold arr_len.
  destruct (Nat.eqb_spec (count_false (vof a)) (length (a_vals a)));
    destruct (valid_values (mk (vof a) (a_vals a))) eqn:Ev; cbn [length] in Cnt; try lia; reflexivity.
Qed.

End Width.

(* non-vacuity: i8 sum over 4 lanes wraps; the value under the null is ignored *)
Example ex_sum_lanes :
  aggregate (sum_acc true 128) (2 ^ 2) (mkarr [127; 1; 100; 5; 6; 7] (Some [true; true; false; true; true; true])) = Some (-110).
Proof. vm_compute. reflexivity. Qed.
Example ex_sum_checked_prefix :
  sum_checked true 128 (mkarr [127; 1; -1] None) = inr E_OVERFLOW /\ sum_checked true 128 (mkarr [127; -1; 1] None) = inl (Some 127).
Proof. vm_compute. split; reflexivity. Qed.
