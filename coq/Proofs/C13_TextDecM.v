(* C13 — decimal text, the real parser: parse_string_to_decimal_native (19-digit u64 chunks folded
   into the native value with checked multiply / add, sign applied per chunk) followed by the
   precision check returns v on the text format_decimal_str produces for v. *)
From Coq Require Import List ZArith Bool Lia.
From AV Require Import Base.ListX Gen.Consts Model.C13_Num Model.C13_Decimal Model.C13_Text.
From AV Require Import Proofs.C13_Pow Proofs.C13_Rescale Proofs.C13_TextInt Proofs.C13_TextDec.
Import ListNotations.
Local Open Scope Z_scope.

Definition sgn (neg : bool) (x : Z) : Z := if neg then - x else x.

Lemma dv_app : forall a x y, dv a (x ++ y) = dv (dv a x) y.
Proof. intros. unfold dv. apply fold_left_app. Qed.

Lemma fits_sgn : forall w neg x B, In w widths -> 0 <= x <= B -> B < 10 ^ dec_maxp w -> fits w true (sgn neg x) = true.
Proof.
  intros w neg x B Hw Hx HB. pose proof (dec_maxp_pos w Hw).
  apply (in_prec_fits w (dec_maxp w)); [assumption|lia|]. unfold sgn. destruct neg; lia.
Qed.

(* fold_decimal_chunk on a state that represents the magnitude M = Vh * 10^clen + chunk *)
Lemma fold_chunk_ok : forall w neg Vh chunk clen M, In w widths ->
  0 <= Vh -> 0 <= clen -> 0 <= chunk < 10 ^ clen -> M = Vh * 10 ^ clen + chunk -> M < 10 ^ dec_maxp w ->
  fold_chunk w (sgn neg Vh) chunk clen neg = Some (sgn neg M).
Proof.
  intros w neg Vh chunk clen M Hw HV Hc Hch HM HB.
  pose proof (pow10_pos clen Hc) as Pp.
  assert (HVle : Vh * 10 ^ clen <= M) by nia.
  unfold fold_chunk.
  assert (F1 : from_decimal w (if neg then - chunk else chunk) = Some (sgn neg chunk)).
  { apply from_decimal_some. apply (fits_sgn w neg chunk M Hw); [nia|assumption]. }
  rewrite F1. cbn [obind].
  destruct (Z.eqb_spec (sgn neg Vh) 0) as [E0|N0].
  - assert (Vh = 0) by (unfold sgn in E0; destruct neg; lia). subst Vh. f_equal. f_equal. lia.
  - assert (V1 : 1 <= Vh) by (unfold sgn in N0; destruct neg; lia).
    assert (Hlt : clen < dec_maxp w).
    { apply (Z.pow_lt_mono_r_iff 10); [lia|pose proof (dec_maxp_pos w Hw); lia|nia]. }
    unfold decimal_pow. rewrite (table_get_some w clen Hw) by lia. cbn [obind].
    replace (10 ^ clen - 1 + 1) with (10 ^ clen) by lia.
    assert (Em : sgn neg Vh * 10 ^ clen = sgn neg (Vh * 10 ^ clen)) by (unfold sgn; destruct neg; ring).
    rewrite checked_mul_some by (rewrite Em; apply (fits_sgn w neg _ M Hw); [nia|assumption]).
    cbn [obind]. unfold checked_add, num_cast.
    assert (Es : sgn neg Vh * 10 ^ clen + sgn neg chunk = sgn neg M) by (subst M; unfold sgn; destruct neg; ring).
    rewrite Es. rewrite (fits_sgn w neg M M Hw) by (assumption || nia). reflexivity.
Qed.

(* the loop invariant: the state represents the magnitude M of the digits consumed so far *)
Definition inv (neg : bool) (M : Z) (st : dstate) : Prop :=
  0 <= d_chunk_len st < 19 /\ 0 <= d_chunk st < 10 ^ d_chunk_len st
  /\ exists Vh, 0 <= Vh /\ d_value st = sgn neg Vh /\ Vh * 10 ^ d_chunk_len st + d_chunk st = M.

Lemma dec_loop_digit_eq : forall w scale neg d r st, digit d ->
  d_saw_point st && (d_fractionals st =? scale) = false ->
  dec_loop w scale neg ((d + ZERO) :: r) st =
  (let fr := if d_saw_point st then d_fractionals st + 1 else d_fractionals st in
   let chunk := d_chunk st * 10 + d in
   let clen := d_chunk_len st + 1 in
   if clen =? 19 then
     match fold_chunk w (d_value st) chunk clen neg with
     | None => None
     | Some v => dec_loop w scale neg r (mk_dstate v 0 0 true (d_saw_point st) fr (d_first_disc st))
     end
   else dec_loop w scale neg r (mk_dstate (d_value st) chunk clen true (d_saw_point st) fr (d_first_disc st))).
Proof.
  intros w scale neg d r st Hd Hc. cbn [dec_loop].
  destruct (is_digit_char d Hd) as [E1 E2]. rewrite E1, E2, Hc. reflexivity.
Qed.

Lemma dec_loop_run : forall w scale neg, In w widths -> forall ds st M rest,
  Forall digit ds -> inv neg M st -> 0 <= M -> dv M ds < 10 ^ dec_maxp w ->
  (d_saw_point st = true -> d_fractionals st + Z.of_nat (length ds) <= scale) ->
  exists st', dec_loop w scale neg (chars_of ds ++ rest) st = dec_loop w scale neg rest st'
    /\ inv neg (dv M ds) st'
    /\ d_saw_point st' = d_saw_point st
    /\ d_fractionals st' = (if d_saw_point st then d_fractionals st + Z.of_nat (length ds) else d_fractionals st)
    /\ d_first_disc st' = d_first_disc st
    /\ d_saw_digit st' = (match ds with [] => d_saw_digit st | _ => true end).
Proof.
  intros w scale neg Hw ds. induction ds as [|d ds IH]; intros st M rest Hd Hinv HM0 HB Hfr.
  - exists st. cbn [chars_of map app]. split; [reflexivity|]. split; [exact Hinv|]. split; [reflexivity|].
    split; [destruct (d_saw_point st); [cbn [length]; lia|reflexivity]|]. split; reflexivity.
  - pose proof (Forall_inv Hd) as D1. pose proof (Forall_inv_tail Hd) as D2. unfold digit in D1.
    rewrite dv_cons in HB. pose proof (dv_ge ds (M * 10 + d) ltac:(lia) D2) as G.
    assert (Hcond : d_saw_point st && (d_fractionals st =? scale) = false).
    { destruct (d_saw_point st) eqn:SP; [|reflexivity]. cbn [andb]. apply Z.eqb_neq.
      specialize (Hfr eq_refl). cbn [length] in Hfr. lia. }
    cbn [chars_of map app]. fold (chars_of ds).
    rewrite (dec_loop_digit_eq w scale neg d (chars_of ds ++ rest) st D1 Hcond). cbv zeta.
    destruct Hinv as (Hlen & Hch & Vh & HV & Eval & EM).
    set (fr := if d_saw_point st then d_fractionals st + 1 else d_fractionals st).
    destruct (Z.eqb_spec (d_chunk_len st + 1) 19) as [E19|N19].
    + (* the chunk is full: fold *)
      assert (F : fold_chunk w (d_value st) (d_chunk st * 10 + d) (d_chunk_len st + 1) neg = Some (sgn neg (M * 10 + d))).
      { rewrite Eval. apply fold_chunk_ok; try assumption; try lia.
        - rewrite Z.pow_add_r by lia. change (10 ^ 1) with 10. nia.
        - rewrite Z.pow_add_r by lia. change (10 ^ 1) with 10. nia. }
      rewrite F.
      set (st1 := mk_dstate (sgn neg (M * 10 + d)) 0 0 true (d_saw_point st) fr (d_first_disc st)).
      assert (I1 : inv neg (M * 10 + d) st1).
      { unfold inv, st1. cbn [d_chunk_len d_chunk d_value]. split; [lia|]. split; [cbn; lia|].
        exists (M * 10 + d). split; [lia|]. split; [reflexivity|]. cbn. lia. }
      destruct (IH st1 (M * 10 + d) rest D2 I1 ltac:(lia) HB) as (st' & E & I' & SP' & FR' & FD' & SD').
      { unfold st1. cbn [d_saw_point d_fractionals]. intros SP. specialize (Hfr SP). subst fr. rewrite SP. cbn [length] in Hfr. lia. }
      exists st'. split; [exact E|]. rewrite dv_cons. split; [exact I'|].
      unfold st1 in SP', FR', FD', SD'. cbn [d_saw_point d_fractionals d_first_disc d_saw_digit] in SP', FR', FD', SD'.
      split; [exact SP'|]. split.
      * rewrite FR'. subst fr. destruct (d_saw_point st); [cbn [length]; lia|reflexivity].
      * split; [exact FD'|]. rewrite SD'. destruct ds; reflexivity.
    + set (st1 := mk_dstate (d_value st) (d_chunk st * 10 + d) (d_chunk_len st + 1) true (d_saw_point st) fr (d_first_disc st)).
      assert (I1 : inv neg (M * 10 + d) st1).
      { unfold inv, st1. cbn [d_chunk_len d_chunk d_value]. split; [lia|].
        split; [rewrite Z.pow_add_r by lia; change (10 ^ 1) with 10; lia|].
        exists Vh. split; [assumption|]. split; [assumption|]. rewrite Z.pow_add_r by lia. change (10 ^ 1) with 10. nia. }
      destruct (IH st1 (M * 10 + d) rest D2 I1 ltac:(lia) HB) as (st' & E & I' & SP' & FR' & FD' & SD').
      { unfold st1. cbn [d_saw_point d_fractionals]. intros SP. specialize (Hfr SP). subst fr. rewrite SP. cbn [length] in Hfr. lia. }
      exists st'. split; [exact E|]. rewrite dv_cons. split; [exact I'|].
      unfold st1 in SP', FR', FD', SD'. cbn [d_saw_point d_fractionals d_first_disc d_saw_digit] in SP', FR', FD', SD'.
      split; [exact SP'|]. split.
      * rewrite FR'. subst fr. destruct (d_saw_point st); [cbn [length]; lia|reflexivity].
      * split; [exact FD'|]. rewrite SD'. destruct ds; reflexivity.
Qed.

Lemma canon_sign : forall neg ip fp, Forall digit ip -> ip <> [] ->
  (match canon neg ip fp with
   | b :: r => if b =? MINUS then (true, r) else if b =? PLUS then (false, r) else (false, canon neg ip fp)
   | [] => (false, []) end)
  = (neg, chars_of ip ++ (match fp with [] => [] | _ => POINT :: chars_of fp end)).
Proof.
  intros neg ip fp Hip Hne. pose proof (chars_digitc ip Hip) as Cip. unfold canon. destruct neg.
  - cbn [app]. rewrite Z.eqb_refl. reflexivity.
  - cbn [app]. destruct ip as [|d ip']; [congruence|]. cbn [chars_of map app].
    inversion Cip as [|? ? Hc _]; subst. destruct (digitc_props _ Hc) as (_ & _ & _ & Hm & Hp).
    destruct (Z.eqb_spec (d + ZERO) MINUS); [contradiction|]. destruct (Z.eqb_spec (d + ZERO) PLUS); [contradiction|]. reflexivity.
Qed.

Lemma canon_nonws : forall neg ip fp, Forall digit ip -> Forall digit fp -> Forall nonws (canon neg ip fp).
Proof.
  intros neg ip fp Hip Hfp. pose proof (chars_digitc ip Hip) as Cip. pose proof (chars_digitc fp Hfp) as Cfp.
  unfold canon. apply Forall_app. split.
  - destruct neg; constructor; [reflexivity|constructor].
  - apply Forall_app. split; [apply digitc_nonws; assumption|].
    destruct fp; [constructor|]. constructor; [reflexivity|apply digitc_nonws; assumption].
Qed.

Lemma dec_loop_point : forall w scale neg r st, d_saw_point st = false ->
  dec_loop w scale neg (POINT :: r) st =
  dec_loop w scale neg r (mk_dstate (d_value st) (d_chunk st) (d_chunk_len st) (d_saw_digit st) true (d_fractionals st) (d_first_disc st)).
Proof.
  intros w scale neg r st H. cbn [dec_loop]. change (is_digit POINT) with false. cbv iota.
  rewrite Z.eqb_refl, H. reflexivity.
Qed.

Lemma finish_value : forall w neg stf A, In w widths -> inv neg A stf -> A < 10 ^ dec_maxp w ->
  (if 0 <? d_chunk_len stf then fold_chunk w (d_value stf) (d_chunk stf) (d_chunk_len stf) neg else Some (d_value stf))
  = Some (sgn neg A).
Proof.
  intros w neg stf A Hw (Hlen & Hch & Vh & HV & Eval & EM) HB.
  destruct (Z.ltb_spec 0 (d_chunk_len stf)) as [Hpos|Hz].
  - rewrite Eval. apply fold_chunk_ok; try assumption; try lia.
  - assert (E0 : d_chunk_len stf = 0) by lia. rewrite E0 in *. change (10 ^ 0) with 1 in *.
    rewrite Eval. f_equal. f_equal. lia.
Qed.

Theorem parse_native_canon : forall w s neg ip fp, In w widths ->
  0 <= s -> Forall digit ip -> Forall digit fp -> ip <> [] -> length fp = Z.to_nat s ->
  dv 0 (ip ++ fp) < 10 ^ dec_maxp w ->
  parse_dec_native w s (canon neg ip fp) = Some (sgn neg (dv 0 (ip ++ fp))).
Proof.
  intros w s neg ip fp Hw Hs Hip Hfp Hne Hlen HB.
  unfold parse_dec_native. rewrite (trim_id _ (canon_nonws neg ip fp Hip Hfp)).
  rewrite (canon_sign neg ip fp Hip Hne).
  set (st0 := mk_dstate 0 0 0 false false 0 None).
  assert (I0 : inv neg 0 st0).
  { unfold inv, st0. cbn [d_chunk_len d_chunk d_value]. split; [lia|]. split; [cbn; lia|].
    exists 0. split; [lia|]. split; [unfold sgn; destruct neg; reflexivity|reflexivity]. }
  rewrite dv_app in HB.
  pose proof (dv_ge ip 0 ltac:(lia) Hip) as Gip.
  pose proof (dv_ge fp (dv 0 ip) Gip Hfp) as Gfp.
  destruct (dec_loop_run w s neg Hw ip st0 0
              (match fp with [] => [] | _ :: _ => POINT :: chars_of fp end) Hip I0 ltac:(lia) ltac:(lia))
    as (st1 & E1 & I1 & SP1 & FR1 & FD1 & SD1).
  { unfold st0. cbn [d_saw_point]. discriminate. }
  rewrite E1. unfold st0 in SP1, FR1, FD1, SD1. cbn [d_saw_point d_fractionals d_first_disc d_saw_digit] in SP1, FR1, FD1, SD1.
  assert (SD1' : d_saw_digit st1 = true) by (rewrite SD1; destruct ip; [congruence|reflexivity]).
  destruct fp as [|f fp'] eqn:Efp.
  - (* no fraction: scale = 0 *)
    cbn [dec_loop]. cbv iota beta.
    assert (s = 0) by (cbn [length] in Hlen; lia). subst s.
    rewrite app_nil_r in *. cbn [dv fold_left] in HB.
    rewrite (finish_value w neg st1 (dv 0 ip) Hw I1 HB).
    rewrite SD1'. cbn [negb]. rewrite FR1. change (0 <? 0) with false. cbn [andb]. rewrite FD1. reflexivity.
  - rewrite <- Efp in *. clear Efp.
    rewrite (dec_loop_point w s neg (chars_of fp) st1 SP1).
    set (st2 := mk_dstate (d_value st1) (d_chunk st1) (d_chunk_len st1) (d_saw_digit st1) true (d_fractionals st1) (d_first_disc st1)).
    assert (I2 : inv neg (dv 0 ip) st2) by exact I1.
    rewrite <- (app_nil_r (chars_of fp)).
    destruct (dec_loop_run w s neg Hw fp st2 (dv 0 ip) [] Hfp I2 Gip HB) as (st3 & E3 & I3 & SP3 & FR3 & FD3 & SD3).
    { unfold st2. cbn [d_saw_point d_fractionals]. intros _. rewrite FR1, Hlen, Z2Nat.id by assumption. lia. }
    rewrite E3. cbn [dec_loop]. cbv iota beta.
    unfold st2 in SP3, FR3, FD3, SD3. cbn [d_saw_point d_fractionals d_first_disc d_saw_digit] in SP3, FR3, FD3, SD3.
    rewrite (finish_value w neg st3 (dv (dv 0 ip) fp) Hw I3 HB).
    assert (SD3' : d_saw_digit st3 = true) by (rewrite SD3; destruct fp; assumption || reflexivity).
    rewrite SD3'. cbn [negb].
    assert (FR3' : d_fractionals st3 = s) by (rewrite FR3, FR1, Hlen, Z2Nat.id by assumption; lia).
    rewrite FR3', Z.ltb_irrefl. cbn [andb]. rewrite FD3, FD1. rewrite dv_app. reflexivity.
Qed.

(* decimal text, the real parser: for every decimal type with a non-negative scale and every value
   within the declared precision, Utf8 -> Decimal applied to the text Decimal -> Utf8 produces returns
   the value *)
Theorem decimal_text_roundtrip_M : forall w p s v,
  In w widths -> 1 <= p <= dec_maxp w -> 0 <= s <= dec_maxs w -> Z.abs v < 10 ^ p ->
  exists f, cast_str_dec w p s = Some f /\ f (fmt_dec v p s) = Some v.
Proof.
  intros w p s v Hw Hp Hs Hv.
  unfold cast_str_dec.
  assert (C : (s <? 0) || (dec_maxs w <? s) = false).
  { apply orb_false_iff. split; [apply Z.ltb_ge|apply Z.ltb_ge]; lia. }
  rewrite C. eexists. split; [reflexivity|]. cbv beta.
  destruct (fmt_dec_canon v p s ltac:(lia) ltac:(lia) Hv) as (ip & fp & E & Hip & Hfp & Hne & Hlen & Hval).
  rewrite E.
  assert (HB : dv 0 (ip ++ fp) < 10 ^ dec_maxp w).
  { rewrite Hval. pose proof (pow10_mono p (dec_maxp w) ltac:(lia)). lia. }
  rewrite (parse_native_canon w s (v <? 0) ip fp Hw ltac:(lia) Hip Hfp Hne Hlen HB). cbn [obind].
  assert (Ev : sgn (v <? 0) (dv 0 (ip ++ fp)) = v).
  { rewrite Hval. unfold sgn. destruct (Z.ltb_spec v 0); lia. }
  rewrite Ev. rewrite check_prec_spec by (assumption || lia).
  assert (P : in_prec p v = true) by (apply in_prec_true; assumption). rewrite P. reflexivity.
Qed.
