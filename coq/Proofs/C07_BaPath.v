(* C07 — the arrow byte-array encoder path (compute_min_max with Ord::min/Ord::max, then the
   is_none_or comparisons): the accumulated bounds are the lexicographic extrema. *)
From Coq Require Import List Arith Lia Bool NArith.
From AV Require Import Model.C07_Trunc Model.C07_Stats Proofs.C07_Trunc Proofs.C07_MinMax.
Import ListNotations.

Lemma lexle_trans a b c : lex_leb a b = true -> lex_leb b c = true -> lex_leb a c = true.
Proof. rewrite !lex_leb_spec. apply lex_le_trans. Qed.
Lemma lexle_total a b : lex_leb a b = true \/ lex_leb b a = true.
Proof.
  rewrite !lex_leb_spec. rewrite (lex_antisym a b). destruct (lex a b); cbn [CompOpp]; [left|left|right]; discriminate.
Qed.
Lemma lexgt_spec a b : lex_gtb a b = negb (lex_leb a b).
Proof. unfold lex_leb. now rewrite negb_involutive. Qed.

Notation blmin := (lmin bytes lex_leb).
Notation blmax := (lmax bytes lex_leb).

Lemma ord_min_merge R v mn : blmin R mn -> blmin (R ++ [v]) (ord_min mn v).
Proof.
  intros H. pose proof (lmin_merge bytes lex_gtb lex_leb lexle_trans lexle_total lexgt_spec R [v] mn v H
                          (lmin_single bytes lex_leb lexle_total v)) as M.
  unfold ord_min. unfold lex_gtb in M. destruct (lex mn v); exact M.
Qed.

Lemma ord_max_merge R v mx : blmax R mx -> blmax (R ++ [v]) (ord_max mx v).
Proof.
  intros H. pose proof (lmax_merge bytes lex_gtb lex_leb lexle_trans lexle_total lexgt_spec R [v] mx v H
                          (lmax_single bytes lex_leb lexle_total v)) as M.
  unfold ord_max. unfold lex_gtb in M. rewrite (lex_antisym mx v) in M.
  destruct (lex mx v) eqn:E; cbn [CompOpp] in M; try exact M.
  apply lex_eq in E. now subst.
Qed.

Lemma ba_loop_spec vs : forall seen mn mx, blmin seen mn -> blmax seen mx ->
  blmin (seen ++ vs) (fst (ba_loop vs mn mx)) /\ blmax (seen ++ vs) (snd (ba_loop vs mn mx)).
Proof.
  induction vs as [|v vs IH]; intros seen mn mx Hmn Hmx; cbn [ba_loop fst snd].
  - now rewrite app_nil_r.
  - replace (seen ++ v :: vs) with ((seen ++ [v]) ++ vs) by (now rewrite <- app_assoc).
    apply IH; [now apply ord_min_merge|now apply ord_max_merge].
Qed.

Lemma ba_compute_spec vs mn mx : ba_compute_min_max vs = Some (mn, mx) -> blmin vs mn /\ blmax vs mx.
Proof.
  destruct vs as [|f r]; [discriminate|]. cbn [ba_compute_min_max]. intros H. inversion H as [E].
  pose proof (ba_loop_spec r [f] f f (lmin_single bytes lex_leb lexle_total f) (lmax_single bytes lex_leb lexle_total f)) as K.
  rewrite E in K. exact K.
Qed.

Definition ba_ok (seen : list bytes) (st : option bytes * option bytes) : Prop :=
  match seen with
  | [] => st = (None, None)
  | _ => exists a b, st = (Some a, Some b) /\ blmin seen a /\ blmax seen b
  end.

Lemma ba_write_ok seen st s : ba_ok seen st -> ba_ok (seen ++ s) (ba_write s st).
Proof.
  intros H. unfold ba_write. destruct (ba_compute_min_max s) as [[mn mx]|] eqn:E.
  - apply ba_compute_spec in E as [Hmn Hmx].
    assert (Hs : s <> []) by (intros ->; destruct Hmn as [[] _]).
    unfold ba_ok. destruct (seen ++ s) eqn:Eapp; [apply app_eq_nil in Eapp; tauto|]. rewrite <- Eapp.
    destruct seen as [|x seen].
    + red in H. subst st. cbn [fst snd app]. exists mn, mx. split; [reflexivity|]. split; assumption.
    + destruct H as (a & b & -> & Ha & Hb). cbn [fst snd].
      exists (if lex_gtb a mn then mn else a), (if lex_gtb mx b then mx else b).
      split; [|split].
      * rewrite <- (lex_gtb_flip mx b). destruct (lex_gtb a mn), (lex_gtb mx b); reflexivity.
      * now apply (lmin_merge bytes lex_gtb lex_leb lexle_trans lexle_total lexgt_spec).
      * now apply (lmax_merge bytes lex_gtb lex_leb lexle_trans lexle_total lexgt_spec).
  - destruct s; [|discriminate]. now rewrite app_nil_r.
Qed.

(* the page bounds of a String/Binary column written through the arrow byte-array encoder *)
Theorem ba_fold_bounds batches mn mx :
  fold_left (fun st s => ba_write s st) batches (None, None) = (Some mn, Some mx) ->
  let vs := concat batches in
  In mn vs /\ In mx vs /\ forall v, In v vs -> lex mn v <> Gt /\ lex v mx <> Gt.
Proof.
  intros H vs.
  assert (K : forall bs seen st, ba_ok seen st -> ba_ok (seen ++ concat bs) (fold_left (fun st s => ba_write s st) bs st)).
  { induction bs as [|s r IH]; intros seen st Hs; cbn [fold_left concat]; [now rewrite app_nil_r|].
    rewrite app_assoc. apply IH. now apply ba_write_ok. }
  specialize (K batches [] (None, None) eq_refl). cbn [app] in K. rewrite H in K. fold vs in K.
  unfold ba_ok in K. destruct vs as [|x r] eqn:Ev; [discriminate|]. rewrite <- Ev in *.
  destruct K as (a & b & E & Ha & Hb). inversion E; subst a b.
  split; [exact (proj1 Ha)|]. split; [exact (proj1 Hb)|].
  intros v Hv. split; apply lex_leb_spec; [now apply Ha|now apply Hb].
Qed.
