(* C04 — split_batch_for_grpc_response: the pieces are non-empty, in order, and concatenate to the batch. *)
From Coq Require Import List Arith NArith Lia Bool.
From AV Require Import Model.C04_Flight.
Import ListNotations.

Lemma skipn_add {A} (l : list A) a b : skipn (a + b) l = skipn b (skipn a l).
Proof.
  revert l; induction a as [|a IH]; intros l; [reflexivity|].
  destruct l; cbn [Nat.add skipn]; [now rewrite skipn_nil|apply IH].
Qed.

Lemma split_loop_spec {A} (rows : list A) rp : 0 < rp ->
  forall fuel off, off <= length rows -> length rows - off <= fuel ->
  concat (map (slice_rows rows) (split_loop fuel rp off (length rows))) = skipn off rows /\
  Forall (fun p => 0 < snd p /\ fst p + snd p <= length rows /\ snd p <= rp) (split_loop fuel rp off (length rows)).
Proof.
  intros Hrp. induction fuel as [|f IH]; intros off Hoff Hfuel.
  - cbn. assert (off = length rows) by lia. subst. rewrite skipn_all. split; [reflexivity|constructor].
  - cbn [split_loop]. destruct (Nat.ltb_spec off (length rows)) as [Hlt|Hge].
    + set (len := Nat.min rp (length rows - off)).
      assert (Hlen : 0 < len /\ off + len <= length rows /\ len <= rp) by (unfold len; lia).
      destruct (IH (off + len)) as [Hc Hf]; [lia|lia|].
      cbn [map concat]. rewrite Hc. split.
      * unfold slice_rows. cbn [fst snd]. rewrite skipn_add. apply firstn_skipn.
      * constructor; [cbn [fst snd]; lia|exact Hf].
    + assert (off = length rows) by lia. subst. rewrite skipn_all. split; [reflexivity|constructor].
Qed.

(* successive pieces are adjacent: piece k+1 starts where piece k ends (no reordering, no gap, no overlap) *)
Fixpoint adjacent (start : nat) (ps : list (nat * nat)) : Prop :=
  match ps with [] => True | (o, l) :: r => o = start /\ adjacent (o + l) r end.
Lemma split_loop_adjacent rp n : forall fuel off, adjacent off (split_loop fuel rp off n).
Proof.
  induction fuel as [|f IH]; intros off; cbn [split_loop]; [exact I|].
  destruct (off <? n); [|exact I]. cbn [adjacent]. split; [reflexivity|apply IH].
Qed.

Theorem flight_split_concat_all {A} (rows : list A) size max :
  let ps := split (length rows) size max in
  concat (map (slice_rows rows) ps) = rows /\
  Forall (fun p => 0 < snd p /\ fst p + snd p <= length rows) ps /\
  adjacent 0 ps.
Proof.
  cbn zeta. unfold split.
  assert (Hrp : 0 < rows_per_batch (length rows) (n_batches size max)) by (unfold rows_per_batch; lia).
  destruct (split_loop_spec rows _ Hrp (length rows) 0) as [Hc Hf]; [lia|lia|].
  split; [exact Hc|]. split; [|apply split_loop_adjacent].
  eapply Forall_impl; [|exact Hf]. cbn. intros p Hp. lia.
Qed.

(* every piece has at most rows_per_batch rows, and when the batch is at least n_batches rows long the number of
   pieces is at least n_batches (each piece then targets size / n_batches bytes) *)
Theorem flight_split_piece_bound (num_rows : nat) (size max : N) :
  Forall (fun p => snd p <= rows_per_batch num_rows (n_batches size max)) (split num_rows size max).
Proof.
  unfold split.
  assert (Hrp : 0 < rows_per_batch num_rows (n_batches size max)) by (unfold rows_per_batch; lia).
  destruct (split_loop_spec (repeat tt num_rows) _ Hrp num_rows 0) as [_ Hf]; rewrite ?repeat_length; try lia.
  rewrite repeat_length in Hf. eapply Forall_impl; [|exact Hf]. cbn. intros p Hp. lia.
Qed.
