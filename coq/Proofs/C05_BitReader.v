(* C05 — BitReader::get_value, word level (64-bit buffered word, reload on crossing, split reads) = cutting
   the LSB-first bit stream. *)
From Coq Require Import List NArith ZArith Arith Lia Bool ZifyN ZifyNat ZifyBool.
From AV Require Import Base.ListX Base.Bits Model.C05_Enc Proofs.C05_Bits Proofs.C05_BitWriter.
Import ListNotations.
Ltac Zify.zify_post_hook ::= Z.div_mod_to_equations.

(* ---- val_of and list surgery ---- *)
Lemma val_of_firstn k : forall l, val_of (firstn k l) = (val_of l mod 2^N.of_nat k)%N.
Proof.
  induction k as [|k IH]; intros l.
  - cbn [firstn val_of N.of_nat]. rewrite N.pow_0_r, N.mod_1_r. reflexivity.
  - destruct l as [|b l]; [cbn [firstn val_of]; rewrite N.mod_0_l by (apply N.pow_nonzero; lia); reflexivity|].
    cbn [firstn val_of]. rewrite IH, Nat2N.inj_succ, N.pow_succ_r'.
    assert (Hp : (2^N.of_nat k <> 0)%N) by (apply N.pow_nonzero; lia).
    rewrite (N.mod_mul_r (N.b2n b + 2 * val_of l) 2 (2^N.of_nat k)) by lia.
    replace ((N.b2n b + 2 * val_of l) mod 2)%N with (N.b2n b) by (destruct b; cbn [N.b2n]; lia).
    replace ((N.b2n b + 2 * val_of l) / 2)%N with (val_of l) by (destruct b; cbn [N.b2n]; lia).
    reflexivity.
Qed.

Lemma val_of_skipn k : forall l, val_of (skipn k l) = (val_of l / 2^N.of_nat k)%N.
Proof.
  induction k as [|k IH]; intros l.
  - cbn [skipn N.of_nat]. rewrite N.pow_0_r, N.div_1_r. reflexivity.
  - destruct l as [|b l]; [cbn [skipn val_of]; rewrite N.div_0_l by (apply N.pow_nonzero; lia); reflexivity|].
    cbn [skipn val_of]. rewrite IH, Nat2N.inj_succ, N.pow_succ_r'.
    rewrite <- N.div_div by (try apply N.pow_nonzero; lia).
    replace ((N.b2n b + 2 * val_of l) / 2)%N with (val_of l) by (destruct b; cbn [N.b2n]; lia).
    reflexivity.
Qed.

Lemma bytes_bits_firstn n : forall bs, bytes_bits (firstn n bs) = firstn (8 * n) (bytes_bits bs).
Proof.
  induction n as [|n IH]; intros bs; [reflexivity|].
  destruct bs as [|b bs]; [reflexivity|].
  cbn [firstn bytes_bits flat_map]. fold (bytes_bits bs) (bytes_bits (firstn n bs)).
  replace (8 * S n)%nat with (8 + 8 * n)%nat by lia.
  rewrite firstn_app, byte_bits_length.
  rewrite (firstn_all2 (byte_bits b)) by (rewrite byte_bits_length; lia).
  replace (8 + 8 * n - 8)%nat with (8 * n)%nat by lia. rewrite IH. reflexivity.
Qed.

Lemma bytes_bits_skipn n : forall bs, bytes_bits (skipn n bs) = skipn (8 * n) (bytes_bits bs).
Proof.
  induction n as [|n IH]; intros bs; [reflexivity|].
  destruct bs as [|b bs]; [cbn [skipn bytes_bits flat_map]; rewrite skipn_nil; reflexivity|].
  cbn [skipn bytes_bits flat_map]. fold (bytes_bits bs).
  replace (8 * S n)%nat with (8 + 8 * n)%nat by lia.
  rewrite skipn_app, byte_bits_length.
  rewrite (skipn_all2 (byte_bits b)) by (rewrite byte_bits_length; lia).
  replace (8 + 8 * n - 8)%nat with (8 * n)%nat by lia. cbn [app]. apply IH.
Qed.

Lemma skipn_skipn' {A} a b (l : list A) : skipn a (skipn b l) = skipn (b + a) l.
Proof.
  revert l; induction b as [|b IH]; intros l; [reflexivity|].
  destruct l; [rewrite !skipn_nil; reflexivity|]. cbn [skipn Nat.add]. apply IH.
Qed.

Lemma firstn_firstn' {A} a b (l : list A) : firstn a (firstn b l) = firstn (Nat.min a b) l.
Proof. apply firstn_firstn. Qed.

Lemma skipn_firstn_split {A} m n (l : list A) : skipn m (firstn (m + n) l) = firstn n (skipn m l).
Proof.
  revert l; induction m as [|m IH]; intros l; [reflexivity|].
  destruct l; [rewrite firstn_nil, !skipn_nil, firstn_nil; reflexivity|]. cbn [Nat.add firstn skipn]. apply IH.
Qed.

Lemma load8_bits data byte :
  load8 data byte = val_of (firstn 64 (skipn (8 * byte) (bytes_bits data))).
Proof. unfold load8, le_value. rewrite bytes_bits_firstn, bytes_bits_skipn. reflexivity. Qed.

Lemma trailing_bits_val W k : (length W <= 64)%nat ->
  trailing_bits (val_of W) (N.of_nat k) = val_of (firstn k W).
Proof.
  intros HW. unfold trailing_bits. destruct (N.leb_spec 64 (N.of_nat k)) as [Hge|Hlt].
  - rewrite firstn_all2 by lia. reflexivity.
  - rewrite N.land_ones. symmetry. apply val_of_firstn.
Qed.

(* ---- one read ---- *)
Definition br_pos (s : bitr) : nat := (8 * br_byte s + N.to_nat (br_bit s))%nat.
Definition br_inv (data : list N) (s : bitr) : Prop :=
  (br_bit s < 64)%N /\ (br_bit s <> 0%N -> br_buf s = load8 data (br_byte s)) /\ (br_pos s <= 8 * length data)%nat.

Lemma get_value_ok data s nb : br_inv data s -> (nb <= 64)%N ->
  let rem := skipn (br_pos s) (bytes_bits data) in
  if (length rem <? N.to_nat nb)%nat then br_get_value data s nb = None
  else exists s', br_get_value data s nb = Some (val_of (firstn (N.to_nat nb) rem), s') /\
                  br_inv data s' /\ br_pos s' = (br_pos s + N.to_nat nb)%nat.
Proof.
  intros (Hbit & Hbuf & Hpos) Hnb rem. destruct s as [byte bit buf]. unfold br_pos in *. cbn [br_byte br_bit br_buf] in *.
  set (bits := bytes_bits data) in *. set (b := N.to_nat bit). set (n := N.to_nat nb).
  set (X := skipn (8 * byte) bits).
  assert (Hrem : rem = skipn b X) by (unfold rem, X; rewrite skipn_skipn'; reflexivity).
  assert (Hlenb : length bits = (8 * length data)%nat) by apply bytes_bits_length.
  unfold br_get_value. cbn [br_byte br_bit br_buf].
  assert (Hcond : (N.of_nat (length data) * 8 <? N.of_nat byte * 8 + bit + nb)%N = (length rem <? n)%nat).
  { unfold rem. rewrite skipn_length, Hlenb.
    destruct (N.ltb_spec (N.of_nat (length data) * 8) (N.of_nat byte * 8 + bit + nb));
    destruct (Nat.ltb_spec (8 * length data - (8 * byte + N.to_nat bit)) n); try reflexivity; unfold n in *; lia. }
  rewrite Hcond. destruct (Nat.ltb_spec (length rem) n) as [Hshort|Hok]; [reflexivity|].
  set (W := firstn 64 X).
  assert (HWlen : (length W <= 64)%nat) by (unfold W; rewrite firstn_length; lia).
  assert (Hword : (if (bit =? 0)%N then load8 data byte else buf) = val_of W).
  { unfold W, X, bits. rewrite <- load8_bits. destruct (N.eqb_spec bit 0) as [E|E]; [reflexivity|apply Hbuf, E]. }
  rewrite Hword.
  replace (bit + nb)%N with (N.of_nat (b + n)) by (unfold b, n; lia).
  rewrite trailing_bits_val by exact HWlen.
  assert (Ev1 : N.shiftr (val_of (firstn (b + n) W)) bit = val_of (skipn b (firstn (b + n) W))).
  { rewrite N.shiftr_div_pow2, val_of_skipn. unfold b. rewrite N2Nat.id. reflexivity. }
  rewrite !Ev1.
  assert (HXlen : (b + n <= length X)%nat).
  { assert (HXl : length X = (8 * length data - 8 * byte)%nat) by (unfold X; rewrite skipn_length, Hlenb; reflexivity).
    rewrite Hrem, skipn_length in Hok. unfold b in *. lia. }
  destruct (N.leb_spec 64 (N.of_nat (b + n))) as [Hcross|Hin].
  - (* the value reaches the end of the buffered word *)
    assert (HW64 : length W = 64%nat) by (unfold W; rewrite firstn_length; lia).
    rewrite (firstn_all2 (n := (b + n)%nat)) by lia.
    set (bit' := (N.of_nat (b + n) - 64)%N).
    assert (HXsplit : X = W ++ skipn 64 X) by (unfold W; symmetry; apply firstn_skipn).
    assert (Hspec : firstn n rem = skipn b W ++ firstn (N.to_nat bit') (skipn 64 X)).
    { rewrite Hrem. rewrite HXsplit at 1. rewrite skipn_app. rewrite HW64.
      replace (b - 64)%nat with 0%nat by (unfold b; lia). rewrite skipn_O.
      rewrite firstn_app, skipn_length, HW64.
      rewrite firstn_all2 by (rewrite skipn_length; lia). f_equal. f_equal. unfold bit'. lia. }
    destruct (N.eqb_spec bit' 0) as [E0|Hne].
    + eexists. split; [|split].
      * f_equal. f_equal. rewrite Hspec, E0. cbn [N.to_nat firstn]. rewrite app_nil_r. reflexivity.
      * unfold br_inv, br_pos. cbn [br_bit br_byte br_buf]. split; [lia|]. split; [intros C; contradiction|].
        rewrite Hrem, skipn_length in Hok. unfold X in Hok. rewrite skipn_length, Hlenb in Hok. unfold bit' in E0. unfold b, n in *. lia.
      * unfold br_pos. cbn [br_bit br_byte]. unfold bit' in E0. unfold b, n in *. lia.
    + eexists. split; [|split].
      * f_equal. f_equal. rewrite Hspec, val_of_app.
        rewrite load8_bits. replace (8 * (byte + 8))%nat with (8 * byte + 64)%nat by lia.
        rewrite <- skipn_skipn'. fold bits X.
        replace bit' with (N.of_nat (N.to_nat bit')) at 1 by lia.
        rewrite trailing_bits_val by (rewrite firstn_length; lia).
        rewrite firstn_firstn'. replace (Nat.min (N.to_nat bit') 64) with (N.to_nat bit') by (unfold bit'; lia).
        set (hi := val_of (firstn (N.to_nat bit') (skipn 64 X))).
        assert (Hk : (nb - bit' = N.of_nat (length (skipn b W)))%N).
        { rewrite skipn_length, HW64. unfold bit', b, n. lia. }
        rewrite Hk.
        assert (Hhi : (hi < 2^bit')%N).
        { unfold hi. eapply N.lt_le_trans; [apply val_of_bound|]. apply N.pow_le_mono_r; [lia|]. rewrite firstn_length. lia. }
        assert (Hnowrap : u64 (N.shiftl hi (N.of_nat (length (skipn b W)))) = N.shiftl hi (N.of_nat (length (skipn b W)))).
        { unfold u64. rewrite N.land_ones. apply N.mod_small. rewrite N.shiftl_mul_pow2.
          rewrite <- Hk. replace (2^64)%N with (2^bit' * 2^(64 - bit'))%N by (rewrite <- N.pow_add_r; f_equal; unfold bit'; lia).
          assert (2^(nb - bit') <= 2^(64 - bit'))%N by (apply N.pow_le_mono_r; lia). nia. }
        rewrite Hnowrap. apply lor_shiftl_add. apply val_of_bound.
      * unfold br_inv, br_pos. cbn [br_bit br_byte br_buf]. split; [unfold bit'; lia|]. split; [intros _; reflexivity|].
        rewrite Hrem, skipn_length in Hok. unfold X in Hok. rewrite skipn_length, Hlenb in Hok. unfold bit', b, n in *. lia.
      * unfold br_pos. cbn [br_bit br_byte]. unfold bit', b, n in *. lia.
  - (* the value lies inside the buffered word *)
    eexists. split; [|split].
    + f_equal. f_equal. unfold W. rewrite firstn_firstn'. replace (Nat.min (b + n) 64) with (b + n)%nat by lia.
      rewrite skipn_firstn_split, Hrem. reflexivity.
    + unfold br_inv, br_pos. cbn [br_bit br_byte br_buf]. split; [lia|]. split.
      * intros _. unfold W, X, bits. symmetry. apply load8_bits.
      * rewrite Hrem, skipn_length in Hok. unfold X in Hok. rewrite skipn_length, Hlenb in Hok. unfold b, n in *. lia.
    + unfold br_pos. cbn [br_bit br_byte]. unfold b, n. lia.
Qed.

(* M = S: any sequence of get_value calls, up to and excluding the first that runs out of data *)
Theorem bitreader_spec_gen data : forall ws s, br_inv data s -> Forall (fun w => (w <= 64)%N) ws ->
  br_run data s ws = br_run_spec (skipn (br_pos s) (bytes_bits data)) ws.
Proof.
  induction ws as [|w ws IH]; intros s Hs Hws; [reflexivity|].
  inversion Hws as [|? ? Hw Hrest]; subst. cbn [br_run br_run_spec].
  pose proof (get_value_ok data s w Hs Hw) as G. cbv zeta in G.
  destruct (Nat.ltb_spec (length (skipn (br_pos s) (bytes_bits data))) (N.to_nat w)) as [Hshort|Hok].
  - rewrite G. reflexivity.
  - destruct G as (s' & E & Hs' & Hpos). rewrite E. f_equal.
    rewrite IH by assumption. rewrite Hpos, <- skipn_skipn'. reflexivity.
Qed.

Theorem bitreader_spec data ws : Forall (fun w => (w <= 64)%N) ws ->
  br_run data br_new ws = br_run_spec (bytes_bits data) ws.
Proof.
  intros H. rewrite bitreader_spec_gen; [reflexivity| |exact H].
  unfold br_inv, br_pos, br_new. cbn [br_bit br_byte br_buf]. split; [lia|]. split; [intros C; contradiction|cbn; lia].
Qed.
