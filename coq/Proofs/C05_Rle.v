(* C05 — RLE / bit-packed hybrid: the decoder inverts the serialisation of well-formed runs, and the
   RleEncoder state machine emits well-formed runs whose expansion is the input (plus < 8 zero pad). *)
From Coq Require Import List NArith ZArith Arith Lia Bool ZifyN ZifyNat ZifyBool.
From AV Require Import Base.ListX Model.C05_Enc Proofs.C05_Bits.
Import ListNotations.
Ltac Zify.zify_post_hook ::= Z.div_mod_to_equations.

(* ------------------------------------------------------------------ decoder *)
Lemma ser_nonempty w r : wf_run w r -> exists h rest, forall tl, vlq_dec (ser w r ++ tl) 0 0 = Some (h, rest ++ tl) /\ h <> 0%N.
Proof.
  destruct r as [c v|g vs]; cbn [wf_run ser].
  - intros (Hc & Hb & _). eexists _, _. intros tl. rewrite <- app_assoc. rewrite vlq_roundtrip.
    + split; [reflexivity|lia].
    + change (2^64)%N with 18446744073709551616%N. lia.
  - intros (Hg & Hb & _). eexists _, _. intros tl. rewrite <- app_assoc. rewrite vlq_roundtrip.
    + split; [reflexivity|lia].
    + change (2^64)%N with 18446744073709551616%N. lia.
Qed.

Lemma firstn_repeat {A} (x : A) n c : firstn n (repeat x c) = repeat x (Nat.min n c).
Proof.
  revert c; induction n as [|n IH]; intros c; [reflexivity|].
  destruct c as [|c]; [reflexivity|]. cbn [repeat firstn Nat.min]. f_equal. apply IH.
Qed.

Lemma vbytes_pow w v : (v < 2^N.of_nat w)%N -> (v < 2^N.of_nat (8 * vbytes w))%N.
Proof.
  intros H. eapply N.lt_le_trans; [exact H|]. apply N.pow_le_mono_r; [lia|]. unfold vbytes. lia.
Qed.

Lemma ser_length_pos w r : wf_run w r -> (1 <= length (ser w r))%nat.
Proof.
  intros H. destruct (ser_nonempty w r H) as (h & rest & Hd). specialize (Hd []). destruct Hd as [Hd _].
  destruct (ser w r) as [|b l] eqn:E; [cbn in Hd; discriminate|cbn; lia].
Qed.

Theorem rle_decode_aux_runs w : forall runs fuel n,
  Forall (wf_run w) runs -> (length (flat_map (ser w) runs) < fuel)%nat ->
  rle_decode_aux fuel w n (flat_map (ser w) runs) = Some (firstn n (flat_map expand runs)).
Proof.
  induction runs as [|r runs IH]; intros fuel n Hwf Hfuel.
  - destruct fuel as [|fuel]; [cbn in Hfuel; lia|]. cbn [flat_map rle_decode_aux vlq_dec].
    destruct (n =? 0)%nat; rewrite firstn_nil; reflexivity.
  - inversion Hwf as [|? ? Hr Hrs]; subst.
    pose proof (ser_length_pos w r Hr) as Hpos.
    cbn [flat_map] in *. rewrite app_length in Hfuel.
    destruct fuel as [|fuel]; [lia|].
    cbn [rle_decode_aux].
    destruct (Nat.eqb_spec n 0) as [->|Hn]; [reflexivity|].
    destruct r as [c v|g vs]; cbn [wf_run ser expand] in *.
    + destruct Hr as (Hc & Hb & Hv).
      rewrite <- app_assoc. rewrite vlq_roundtrip by (change (2^64)%N with 18446744073709551616%N; lia).
      destruct (N.eqb_spec (2 * N.of_nat c) 0); [lia|].
      replace (N.even (2 * N.of_nat c)) with true by (rewrite N.even_mul; reflexivity).
      replace ((2 * N.of_nat c / 2) mod 2^32)%N with (N.of_nat c)
        by (change (2^32)%N with 4294967296%N; lia).
      replace (N.to_nat (N.min (N.of_nat n) (N.of_nat c))) with (Nat.min n c) by lia.
      rewrite app_length, le_bytes_length.
      destruct (Nat.ltb_spec (vbytes w + length (flat_map (ser w) runs)) (vbytes w)); [lia|].
      rewrite firstn_app, le_bytes_length, Nat.sub_diag, firstn_O, app_nil_r.
      rewrite firstn_all2 by (rewrite le_bytes_length; lia).
      rewrite skipn_app, le_bytes_length, Nat.sub_diag, skipn_O.
      rewrite skipn_all2 by (rewrite le_bytes_length; lia). cbn [app].
      rewrite le_value_le_bytes by (apply vbytes_pow, Hv).
      rewrite IH by (try assumption; lia).
      rewrite firstn_app, firstn_repeat, repeat_length.
      f_equal. f_equal. f_equal. lia.
    + destruct Hr as (Hg & Hb & Hl & Hv).
      rewrite <- app_assoc. rewrite vlq_roundtrip by (change (2^64)%N with 18446744073709551616%N; lia).
      destruct (N.eqb_spec (2 * N.of_nat g + 1) 0); [lia|].
      replace (N.even (2 * N.of_nat g + 1)) with false
        by (rewrite N.add_comm, N.even_add_mul_2; reflexivity).
      replace (((2 * N.of_nat g + 1) / 2 * 8) mod 2^32)%N with (N.of_nat (8 * g))
        by (change (2^32)%N with 4294967296%N; lia).
      set (payload := bits_bytes (g * w) (pack w vs)).
      set (tl := flat_map (ser w) runs).
      assert (Hpl : length payload = (g * w)%nat) by apply bits_bytes_length.
      assert (Hbits : bytes_bits (payload ++ tl) = pack w vs ++ bytes_bits tl).
      { rewrite bytes_bits_app. unfold payload. rewrite bytes_bits_bits_bytes; [reflexivity|].
        rewrite pack_length, Hl. lia. }
      set (avail := if (w =? 0)%nat then (8 * g)%nat else (8 * length (payload ++ tl) / w)%nat).
      assert (Hav : (8 * g <= avail)%nat).
      { unfold avail. destruct (Nat.eqb_spec w 0); [lia|]. rewrite app_length, Hpl.
        apply Nat.div_le_lower_bound; [lia|]. nia. }
      assert (EavN : (if (w =? 0)%nat then N.of_nat (8 * g) else N.of_nat (8 * length (payload ++ tl) / w)) = N.of_nat avail)
        by (unfold avail; destruct (w =? 0)%nat; reflexivity).
      rewrite EavN.
      assert (EkN : N.min (N.min (N.of_nat n) (N.of_nat (8 * g))) (N.of_nat avail) = N.of_nat (Nat.min n (8 * g))) by lia.
      rewrite EkN. rewrite Nat2N.id.
      destruct (Nat.eqb_spec (Nat.min n (8 * g)) 0); [lia|].
      rewrite Hbits. rewrite unpack_firstn by (try exact Hv; lia).
      destruct (N.ltb_spec (N.of_nat (Nat.min n (8 * g))) (N.of_nat (8 * g))) as [Hlt|Hge].
      * (* the request ends inside this run *)
        assert (E0 : (n - Nat.min n (8 * g) = 0)%nat) by lia. rewrite E0.
        assert (Hz : forall f bs, rle_decode_aux f w 0 bs = Some []) by (intros [|f] bs; reflexivity).
        rewrite Hz. rewrite app_nil_r.
        rewrite firstn_app. replace (n - length vs)%nat with 0%nat by lia. rewrite firstn_O, app_nil_r.
        f_equal. f_equal. lia.
      * assert (Eg : N.to_nat (N.of_nat (8 * g) / 8) = g) by lia. rewrite Eg.
        rewrite skipn_app, Hpl, Nat.sub_diag, skipn_O.
        rewrite skipn_all2 by lia. cbn [app]. unfold tl.
        rewrite IH by (try assumption; lia).
        rewrite firstn_app. rewrite (firstn_all2 (n := Nat.min n (8 * g))) by lia.
        replace (firstn n vs) with vs by (rewrite firstn_all2; [reflexivity|lia]).
        f_equal. f_equal. f_equal. lia.
Qed.

Theorem rle_decode_runs w runs n :
  Forall (wf_run w) runs ->
  rle_decode w n (flat_map (ser w) runs) = Some (firstn n (flat_map expand runs)).
Proof.
  intros Hwf. unfold rle_decode.
  assert (E : match vlq_dec (flat_map (ser w) runs) 0 0 with
              | Some (h, rest) => if (h =? 0)%N then rest else flat_map (ser w) runs
              | None => flat_map (ser w) runs end = flat_map (ser w) runs).
  { destruct runs as [|r runs]; [reflexivity|]. inversion Hwf as [|? ? Hr _]; subst.
    destruct (ser_nonempty w r Hr) as (h & rest & Hd). cbn [flat_map].
    destruct (Hd (flat_map (ser w) runs)) as [E Hh]. rewrite E.
    destruct (N.eqb_spec h 0); [contradiction|reflexivity]. }
  rewrite E. apply rle_decode_aux_runs; [exact Hwf|lia].
Qed.

(* ------------------------------------------------------------------ encoder state machine *)
Definition pending (s : rle_st) : list N :=
  if (8 <=? r_rc s)%nat then repeat (r_cur s) (r_rc s) else r_buf s.
Definition den (s : rle_st) : list N := flat_map expand (r_out s) ++ r_bp s ++ pending s.

Record Inv (w : nat) (s : rle_st) : Prop := {
  i_out : Forall (wf_run w) (r_out s);
  i_bp8 : exists g, length (r_bp s) = (8 * g)%nat /\ (g <= 62)%nat;
  i_bpb : bounded w (r_bp s);
  i_bufb : bounded w (r_buf s);
  i_cur : (r_cur s < 2^N.of_nat w)%N;
  i_rle : (8 <= r_rc s)%nat -> r_buf s = [] /\ r_bp s = [];
  i_buf : (r_rc s < 8)%nat -> (exists pre, r_buf s = pre ++ repeat (r_cur s) (r_rc s)) /\ (length (r_buf s) < 8)%nat;
  i_cnt : (r_rc s <= length (den s))%nat }.

Lemma repeat_snoc {A} (x : A) n : repeat x (S n) = repeat x n ++ [x].
Proof. induction n as [|n IH]; [reflexivity|]. cbn [repeat app] in *. f_equal. exact IH. Qed.

Lemma bounded_app w a b : bounded w a -> bounded w b -> bounded w (a ++ b).
Proof. intros. apply Forall_app; split; assumption. Qed.

Lemma pow_pos w : (0 < 2^N.of_nat w)%N.
Proof. apply N.neq_0_lt_0, N.pow_nonzero. lia. Qed.

Lemma bounded_repeat w x n : (x < 2^N.of_nat w)%N -> bounded w (repeat x n).
Proof. intros H. induction n; cbn; constructor; auto. Qed.

Lemma flat_expand_snoc out r : flat_map expand (out ++ [r]) = flat_map expand out ++ expand r.
Proof. rewrite flat_map_app. cbn. rewrite app_nil_r. reflexivity. Qed.

(* closing the open bit-packed run *)
Lemma finish_wf w bp g : length bp = (8 * g)%nat -> (0 < g)%nat -> (g <= 63)%nat -> bounded w bp ->
  wf_run w (Packed (length bp / 8) bp).
Proof.
  intros Hl Hg Hb Hv. rewrite Hl. rewrite Nat.mul_comm, Nat.div_mul by lia.
  cbn [wf_run]. repeat split; try lia; try assumption.
Qed.

(* [rle_push]: the value is appended to the buffer (the caller has already updated cur / rc) *)
Lemma push_ok w out bp buf cur rc v :
  Forall (wf_run w) out ->
  (exists g, length bp = (8 * g)%nat /\ (g <= 62)%nat) -> bounded w bp -> bounded w buf ->
  (cur < 2^N.of_nat w)%N -> (v < 2^N.of_nat w)%N ->
  (length buf < 8)%nat -> (1 <= rc <= 8)%nat ->
  (exists pre, buf ++ [v] = pre ++ repeat cur rc) ->
  let s' := rle_push {| r_out := out; r_bp := bp; r_buf := buf; r_cur := cur; r_rc := rc |} v in
  den s' = flat_map expand out ++ bp ++ buf ++ [v] /\ Inv w s'.
Proof.
  intros Hout (g & Hg8 & Hg62) Hbpb Hbufb Hcur Hv Hlen Hrc (pre & Hpre).
  assert (Hb' : bounded w (buf ++ [v])) by (apply bounded_app; [assumption|repeat constructor; assumption]).
  assert (Hl' : length (buf ++ [v]) = S (length buf)) by (rewrite app_length; cbn; lia).
  assert (Hrl : (rc <= length (buf ++ [v]))%nat).
  { rewrite Hpre, app_length, repeat_length. lia. }
  unfold rle_push. cbn [r_out r_bp r_buf r_cur r_rc].
  destruct (Nat.eqb_spec (length (buf ++ [v])) 8) as [H8|H8].
  - unfold flush_buffered_values. cbn [r_out r_bp r_buf r_cur r_rc].
    destruct (Nat.leb_spec 8 rc) as [Hge|Hlt].
    + (* all eight buffered values are the current value: switch to RLE accumulation *)
      assert (rc = 8)%nat by lia. subst rc.
      assert (Hpre0 : pre = []).
      { assert (length pre = 0)%nat. { pose proof (f_equal (@length N) Hpre) as E. rewrite !app_length, repeat_length in E. cbn [length] in E. lia. }
        destruct pre; [reflexivity|discriminate]. }
      subst pre. cbn [app] in Hpre.
      destruct (Nat.ltb_spec 0 (length bp)) as [Hbp|Hbp].
      * unfold finish_bp. cbn [r_out r_bp r_buf r_cur r_rc]. split.
        -- unfold den, pending. cbn [r_out r_bp r_buf r_cur r_rc]. cbn [Nat.leb]. rewrite flat_expand_snoc. cbn [expand app].
           rewrite <- app_assoc. rewrite Hpre. reflexivity.
        -- constructor; cbn [r_out r_bp r_buf r_cur r_rc].
           ++ apply Forall_app; split; [assumption|]. constructor; [|constructor]. apply (finish_wf w bp g); try assumption; lia.
           ++ exists 0%nat. cbn. lia.
           ++ constructor.
           ++ constructor.
           ++ assumption.
           ++ intros _. split; reflexivity.
           ++ intros; lia.
           ++ unfold den, pending. cbn [r_out r_bp r_buf r_cur r_rc]. cbn [Nat.leb]. rewrite !app_length, repeat_length. lia.
      * assert (bp = []) by (destruct bp; [reflexivity|cbn in Hbp; lia]). subst bp. split.
        -- unfold den, pending. cbn [r_out r_bp r_buf r_cur r_rc]. cbn [Nat.leb app]. rewrite Hpre. reflexivity.
        -- constructor; cbn [r_out r_bp r_buf r_cur r_rc]; try assumption.
           ++ exists 0%nat. cbn. lia.
           ++ intros _. split; reflexivity.
           ++ intros; lia.
           ++ unfold den, pending. cbn [r_out r_bp r_buf r_cur r_rc]. cbn [Nat.leb]. rewrite !app_length, repeat_length. lia.
    + (* a group of eight goes to the bit-packed run *)
      assert (Hl8 : length (bp ++ buf ++ [v]) = (8 * S g)%nat) by (rewrite app_length; lia).
      destruct (Nat.leb_spec 64 (length (bp ++ buf ++ [v]) / 8 + 1)) as [Hfull|Hroom].
      * unfold finish_bp. cbn [r_out r_bp r_buf r_cur r_rc]. split.
        -- unfold den, pending. cbn [r_out r_bp r_buf r_cur r_rc]. cbn [Nat.leb]. rewrite flat_expand_snoc. cbn [expand app].
           rewrite ?app_nil_r, <- ?app_assoc. reflexivity.
        -- constructor; cbn [r_out r_bp r_buf r_cur r_rc].
           ++ apply Forall_app; split; [assumption|]. constructor; [|constructor].
              apply (finish_wf w _ (S g)); try assumption; try lia. apply bounded_app; assumption.
           ++ exists 0%nat. cbn. lia.
           ++ constructor.
           ++ constructor.
           ++ assumption.
           ++ intros; lia.
           ++ intros _. split; [exists []; reflexivity|cbn; lia].
           ++ lia.
      * split.
        -- unfold den, pending. cbn [r_out r_bp r_buf r_cur r_rc]. cbn [Nat.leb]. rewrite ?app_nil_r, <- ?app_assoc. reflexivity.
        -- constructor; cbn [r_out r_bp r_buf r_cur r_rc]; try assumption.
           ++ exists (S g). split; [exact Hl8|]. rewrite Hl8 in Hroom. rewrite Nat.mul_comm, Nat.div_mul in Hroom by lia. lia.
           ++ apply bounded_app; assumption.
           ++ constructor.
           ++ intros; lia.
           ++ intros _. split; [exists []; reflexivity|cbn; lia].
           ++ lia.
  - (* still buffering *)
    assert (Hrc8 : (rc < 8)%nat) by lia.
    split.
    + unfold den, pending. cbn [r_out r_bp r_buf r_cur r_rc].
      destruct (Nat.leb_spec 8 rc); [lia|]. reflexivity.
    + constructor; cbn [r_out r_bp r_buf r_cur r_rc]; try assumption.
      * exists g. split; assumption.
      * intros; lia.
      * intros _. split; [exists pre; exact Hpre|lia].
      * unfold den, pending. cbn [r_out r_bp r_buf r_cur r_rc].
        destruct (Nat.leb_spec 8 rc); [lia|]. rewrite !app_length in *. cbn [length] in *. lia.
Qed.

Lemma put_ok w s v : Inv w s -> (v < 2^N.of_nat w)%N -> (N.of_nat (length (den s)) < 2147483648)%N ->
  den (rle_put s v) = den s ++ [v] /\ Inv w (rle_put s v).
Proof.
  intros HI Hv Hsmall. destruct HI as [Hout Hbp8 Hbpb Hbufb Hcur Hrle Hbuf Hcnt].
  destruct s as [out bp buf cur rc]. cbn [r_out r_bp r_buf r_cur r_rc] in *.
  unfold rle_put. cbn [r_out r_bp r_buf r_cur r_rc].
  destruct (N.eqb_spec cur v) as [<-|Hne].
  - destruct (Nat.ltb_spec 8 (S rc)) as [Hacc|Hnacc].
    + (* continuation of an RLE run *)
      destruct (Hrle ltac:(lia)) as [-> ->]. split.
      * unfold den, pending. cbn [r_out r_bp r_buf r_cur r_rc].
        destruct (Nat.leb_spec 8 (S rc)); [|lia]. destruct (Nat.leb_spec 8 rc); [|lia].
        rewrite repeat_snoc. cbn [app]. rewrite <- app_assoc. reflexivity.
      * constructor; cbn [r_out r_bp r_buf r_cur r_rc]; try assumption.
        -- intros _. split; reflexivity.
        -- intros; lia.
        -- unfold den, pending. cbn [r_out r_bp r_buf r_cur r_rc]. destruct (Nat.leb_spec 8 (S rc)); [|lia].
           rewrite !app_length, repeat_length. lia.
    + destruct (Hbuf ltac:(lia)) as [(pre & Hpre) Hlen].
      pose proof (push_ok w out bp buf cur (S rc) cur Hout Hbp8 Hbpb Hbufb Hcur Hcur Hlen ltac:(lia)) as P.
      destruct P as [Pd Pi].
      { exists pre. rewrite Hpre, repeat_snoc, app_assoc. reflexivity. }
      split; [|exact Pi]. rewrite Pd. unfold den, pending. cbn [r_out r_bp r_buf r_cur r_rc].
      destruct (Nat.leb_spec 8 rc); [lia|]. rewrite <- !app_assoc. reflexivity.
  - destruct (Nat.leb_spec 8 rc) as [Hge|Hlt].
    + (* the RLE run ends *)
      destruct (Hrle Hge) as [-> ->]. unfold flush_rle_run. cbn [r_out r_bp r_buf r_cur r_rc].
      assert (Hd : den {| r_out := out; r_bp := []; r_buf := []; r_cur := cur; r_rc := rc |} = flat_map expand out ++ repeat cur rc).
      { unfold den, pending. cbn [r_out r_bp r_buf r_cur r_rc]. destruct (Nat.leb_spec 8 rc); [|lia]. reflexivity. }
      rewrite Hd in *.
      assert (Hout' : Forall (wf_run w) (out ++ [Rle rc cur])).
      { apply Forall_app; split; [assumption|]. constructor; [|constructor]. cbn [wf_run].
        rewrite app_length, repeat_length in Hsmall. repeat split; first [lia|assumption]. }
      assert (Hnil : bounded w []) by constructor.
      assert (Hpre1 : exists pre, [] ++ [v] = pre ++ repeat v 1) by (exists []; reflexivity).
      pose proof (push_ok w (out ++ [Rle rc cur]) [] [] v 1 v Hout' Hbp8 Hnil Hnil Hv Hv ltac:(cbn; lia) ltac:(lia) Hpre1) as P.
      destruct P as [Pd Pi].
      split; [|exact Pi]. rewrite Pd. rewrite flat_expand_snoc. cbn [expand app]. rewrite <- app_assoc. reflexivity.
    + cbn [r_out r_bp r_buf r_cur r_rc]. destruct (Hbuf Hlt) as [(pre & Hpre) Hlen].
      pose proof (push_ok w out bp buf v 1 v Hout Hbp8 Hbpb Hbufb Hv Hv Hlen ltac:(lia)) as P.
      destruct P as [Pd Pi].
      { exists buf. reflexivity. }
      split; [|exact Pi]. rewrite Pd. unfold den, pending. cbn [r_out r_bp r_buf r_cur r_rc].
      destruct (Nat.leb_spec 8 rc); [lia|]. rewrite <- !app_assoc. reflexivity.
Qed.

Lemma inv_new w : Inv w rle_new /\ den rle_new = [].
Proof.
  split; [|reflexivity]. constructor; cbn [rle_new r_out r_bp r_buf r_cur r_rc].
  - constructor.
  - exists 0%nat. cbn. lia.
  - constructor.
  - constructor.
  - apply pow_pos.
  - intros; lia.
  - intros _. split; [exists []; reflexivity|cbn; lia].
  - lia.
Qed.

Lemma fold_put_ok w : forall vs s, Inv w s -> bounded w vs ->
  (N.of_nat (length (den s) + length vs) < 2147483648)%N ->
  den (fold_left rle_put vs s) = den s ++ vs /\ Inv w (fold_left rle_put vs s).
Proof.
  induction vs as [|v vs IH]; intros s HI Hb Hs.
  - cbn. rewrite app_nil_r. split; [reflexivity|assumption].
  - inversion Hb as [|? ? Hv Hvs]; subst. cbn [fold_left].
    destruct (put_ok w s v HI Hv) as [Hd HI']; [cbn [length] in Hs; lia|].
    destruct (IH (rle_put s v) HI' Hvs) as [Hd2 HI2].
    + rewrite Hd, app_length. cbn [length] in *. lia.
    + split; [|exact HI2]. rewrite Hd2, Hd, <- app_assoc. reflexivity.
Qed.

Lemma flush_ok w s : Inv w s -> (N.of_nat (length (den s)) < 2147483648)%N ->
  exists k, (k < 8)%nat /\ flat_map expand (rle_flush s) = den s ++ repeat 0%N k /\ Forall (wf_run w) (rle_flush s).
Proof.
  intros HI Hsmall. destruct HI as [Hout (g & Hg8 & Hg62) Hbpb Hbufb Hcur Hrle Hbuf Hcnt].
  destruct s as [out bp buf cur rc]. cbn [r_out r_bp r_buf r_cur r_rc] in *.
  unfold rle_flush. cbn [r_out r_bp r_buf r_cur r_rc].
  destruct ((0 <? length bp)%nat || (0 <? rc)%nat || (0 <? length buf)%nat) eqn:Eany.
  2:{ (* nothing buffered *)
      apply orb_false_iff in Eany. destruct Eany as [Eany E3]. apply orb_false_iff in Eany. destruct Eany as [E1 E2].
      apply Nat.ltb_ge in E1, E2, E3.
      assert (bp = []) by (destruct bp; [reflexivity|cbn in E1; lia]).
      assert (buf = []) by (destruct buf; [reflexivity|cbn in E3; lia]). assert (rc = 0)%nat by lia. subst.
      exists 0%nat. split; [lia|]. split; [|assumption].
      unfold den, pending. cbn. rewrite !app_nil_r. reflexivity. }
  destruct ((0 <? rc)%nat && ((length bp =? 0)%nat && ((rc =? length buf)%nat || (length buf =? 0)%nat))) eqn:Erep.
  - (* one final RLE run *)
    apply andb_true_iff in Erep. destruct Erep as [Erc Erep]. apply andb_true_iff in Erep. destruct Erep as [Ebp Ealt].
    apply Nat.ltb_lt in Erc. apply Nat.eqb_eq in Ebp.
    assert (bp = []) by (destruct bp; [reflexivity|cbn in Ebp; lia]). subst bp.
    assert (Hp : pending {| r_out := out; r_bp := []; r_buf := buf; r_cur := cur; r_rc := rc |} = repeat cur rc).
    { unfold pending. cbn [r_rc r_cur r_buf]. destruct (Nat.leb_spec 8 rc) as [Hge|Hlt]; [reflexivity|].
      destruct (Hbuf Hlt) as [(pre & Hpre) Hlen].
      apply orb_true_iff in Ealt. destruct Ealt as [E|E]; apply Nat.eqb_eq in E.
      - assert (length pre = 0)%nat. { pose proof (f_equal (@length N) Hpre) as El. rewrite app_length, repeat_length in El. lia. }
        destruct pre; [exact Hpre|discriminate].
      - pose proof (f_equal (@length N) Hpre) as El. rewrite app_length, repeat_length in El. lia. }
    exists 0%nat. split; [lia|]. unfold flush_rle_run. cbn [r_out r_bp r_buf r_cur r_rc].
    unfold den in *. cbn [r_out r_bp] in *. rewrite Hp in *. split.
    + rewrite flat_expand_snoc. cbn [expand app repeat]. rewrite app_nil_r. reflexivity.
    + apply Forall_app; split; [assumption|]. constructor; [|constructor]. cbn [wf_run].
      cbn [app] in Hsmall. rewrite app_length, repeat_length in Hsmall. repeat split; first [lia|assumption].
  - (* a final bit-packed run, padded with zeros to a whole group *)
    assert (Hlt : (rc < 8)%nat).
    { destruct (Nat.leb_spec 8 rc) as [Hge|]; [|assumption]. destruct (Hrle Hge) as [-> ->].
      replace (0 <? rc)%nat with true in Erep by (symmetry; apply Nat.ltb_lt; lia).
      change (length (@nil N)) with 0%nat in Erep. rewrite Nat.eqb_refl, orb_true_r in Erep. cbn in Erep. discriminate. }
    destruct (Hbuf Hlt) as [_ Hlen].
    set (padded := if (0 <? length buf)%nat then buf ++ repeat 0%N (8 - length buf) else []).
    assert (Hpl : length padded = if (0 <? length buf)%nat then 8%nat else 0%nat).
    { unfold padded. destruct (0 <? length buf)%nat; [|reflexivity]. rewrite app_length, repeat_length. lia. }
    assert (Hne : (0 < length (bp ++ padded))%nat).
    { rewrite app_length, Hpl. destruct (Nat.ltb_spec 0 (length buf)); [lia|].
      destruct (Nat.ltb_spec 0 (length bp)); [lia|].
      (* bp = [] and buf = []: then rc > 0 and the RLE branch would have been taken *)
      exfalso. assert (Hb0 : length bp = 0%nat) by lia. assert (Hf0 : length buf = 0%nat) by lia.
      rewrite Hb0, Hf0 in Erep.
      assert (Hrc : (0 <? rc)%nat = true). { destruct (0 <? rc)%nat; [reflexivity|]. cbn in Eany. discriminate. }
      rewrite Hrc in Erep. rewrite Nat.eqb_refl in Erep. rewrite orb_true_r in Erep. cbn in Erep. discriminate. }
    unfold finish_bp. cbn [r_out r_bp r_buf r_cur r_rc]. fold padded.
    exists (if (0 <? length buf)%nat then (8 - length buf)%nat else 0%nat).
    split; [destruct (Nat.ltb_spec 0 (length buf)); lia|]. split.
    + rewrite flat_expand_snoc. cbn [expand]. unfold den, pending. cbn [r_out r_bp r_buf r_cur r_rc].
      destruct (Nat.leb_spec 8 rc); [lia|]. unfold padded.
      destruct (Nat.ltb_spec 0 (length buf)) as [Hb|Hb].
      * rewrite <- !app_assoc. reflexivity.
      * assert (buf = []) by (destruct buf; [reflexivity|cbn in Hb; lia]). subst buf. cbn [repeat]. rewrite !app_nil_r. reflexivity.
    + apply Forall_app; split; [assumption|]. constructor; [|constructor].
      apply (finish_wf w _ (if (0 <? length buf)%nat then S g else g)).
      * rewrite app_length, Hpl. destruct (0 <? length buf)%nat; lia.
      * rewrite app_length, Hpl in Hne. destruct (0 <? length buf)%nat; lia.
      * destruct (0 <? length buf)%nat; lia.
      * apply bounded_app; [assumption|]. unfold padded. destruct (0 <? length buf)%nat; [|constructor].
        apply bounded_app; [assumption|]. apply bounded_repeat, pow_pos.
Qed.

(* the encoder emits well-formed runs that expand to the input followed by fewer than eight zeros *)
Theorem rle_runs_spec w vs : bounded w vs -> (N.of_nat (length vs) < 2147483648)%N ->
  exists k, (k < 8)%nat /\ flat_map expand (rle_runs vs) = vs ++ repeat 0%N k /\ Forall (wf_run w) (rle_runs vs).
Proof.
  intros Hb Hs. destruct (inv_new w) as [HI0 Hd0].
  destruct (fold_put_ok w vs rle_new HI0 Hb) as [Hd HI]; [rewrite Hd0; cbn [length]; lia|].
  rewrite Hd0 in Hd. cbn [app] in Hd.
  destruct (flush_ok w _ HI) as (k & Hk & He & Hw); [rewrite Hd; exact Hs|].
  exists k. unfold rle_runs. rewrite He, Hd. auto.
Qed.

(* decode (encode vs) = vs, every bit width, every value list below the u32 run-counter limit *)
Theorem rle_roundtrip w vs : bounded w vs -> (N.of_nat (length vs) < 2147483648)%N ->
  rle_decode w (length vs) (rle_encode w vs) = Some vs.
Proof.
  intros Hb Hs. destruct (rle_runs_spec w vs Hb Hs) as (k & _ & He & Hw).
  unfold rle_encode. rewrite rle_decode_runs by exact Hw. rewrite He.
  rewrite firstn_app, Nat.sub_diag, firstn_O, app_nil_r, firstn_all. reflexivity.
Qed.
