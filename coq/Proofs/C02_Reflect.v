(* C02 — the executable relation [logically_equal] used by the specification ops is the relation of the
   theorems: same data type and same logical column. *)
From Coq Require Import List Arith NArith ZArith Bool Lia.
From AV Require Import Base.ListX Model.C09_Layout Model.C02_Logical.
Import ListNotations.

(* induction principles for the nested inductives *)
Definition lval_ind' (P : lval -> Prop) (HN : P LNull) (HB : forall b, P (LBool b)) (HI : forall z, P (LInt z))
    (HY : forall l, P (LBytes l)) (HL : forall l, Forall P l -> P (LList l)) (HS : forall l, Forall P l -> P (LStruct l))
    : forall v, P v :=
  fix F (v : lval) : P v :=
    match v with
    | LNull => HN | LBool b => HB b | LInt z => HI z | LBytes l => HY l
    | LList l => HL l ((fix G (l : list lval) : Forall P l :=
                          match l with [] => Forall_nil P | x :: r => Forall_cons x (F x) (G r) end) l)
    | LStruct l => HS l ((fix G (l : list lval) : Forall P l :=
                            match l with [] => Forall_nil P | x :: r => Forall_cons x (F x) (G r) end) l)
    end.

Definition dty_ind' (P : dty -> Prop)
    (H0 : P TNull) (H1 : P TBool) (H2 : forall w, P (TFixed w)) (H3 : forall n, P (TFixedBin n))
    (H4 : forall l u, P (TBin l u)) (H5 : forall u, P (TView u))
    (H6 : forall l n c, P c -> P (TList l n c)) (H7 : forall l n c, P c -> P (TListView l n c))
    (H8 : forall s n c, P c -> P (TFixedList s n c))
    (H9 : forall fs, Forall (fun p : bool * dty => P (snd p)) fs -> P (TStruct fs))
    (H10 : forall kw s v, P v -> P (TDict kw s v)) (H11 : forall rw v, P v -> P (TRee rw v))
    (H12 : forall d fs, Forall (fun p : Z * dty => P (snd p)) fs -> P (TUnion d fs))
    : forall t, P t :=
  fix F (t : dty) : P t :=
    match t with
    | TNull => H0 | TBool => H1 | TFixed w => H2 w | TFixedBin n => H3 n | TBin l u => H4 l u | TView u => H5 u
    | TList l n c => H6 l n c (F c) | TListView l n c => H7 l n c (F c) | TFixedList s n c => H8 s n c (F c)
    | TStruct fs => H9 fs ((fix G (l : list (bool * dty)) : Forall (fun p : bool * dty => P (snd p)) l :=
                              match l with [] => Forall_nil _ | x :: r => Forall_cons x (F (snd x)) (G r) end) fs)
    | TDict kw s v => H10 kw s v (F v) | TRee rw v => H11 rw v (F v)
    | TUnion d fs => H12 d fs ((fix G (l : list (Z * dty)) : Forall (fun p : Z * dty => P (snd p)) l :=
                                  match l with [] => Forall_nil _ | x :: r => Forall_cons x (F (snd x)) (G r) end) fs)
    end.

Lemma bytes_go_eq (p : list N) : forall q,
  (fix go (p q : list N) : bool := match p, q with [], [] => true | u :: p', v :: q' => N.eqb u v && go p' q' | _, _ => false end) p q = true <-> p = q.
Proof.
  induction p as [|u p IH]; intros [|v q]; split; intros H; try discriminate; try reflexivity.
  - apply andb_true_iff in H as [H1 H2]. apply N.eqb_eq in H1. apply IH in H2. congruence.
  - injection H as -> ->. apply andb_true_iff. split; [apply N.eqb_refl | now apply IH].
Qed.

Lemma lval_eqb_eq : forall x y, lval_eqb x y = true <-> x = y.
Proof.
  induction x as [|b|z|l|l IH|l IH] using lval_ind'; intros y; destruct y as [|b'|z'|l'|l'|l']; cbn [lval_eqb];
    try (split; intros H; discriminate); try tauto.
  - rewrite eqb_true_iff. split; congruence.
  - rewrite N.eqb_eq. split; congruence.
  - rewrite bytes_go_eq. split; congruence.
  - assert (Hg : forall q, (fix go (p q : list lval) : bool := match p, q with [], [] => true | u :: p', v :: q' => lval_eqb u v && go p' q' | _, _ => false end) l q = true <-> l = q).
    { induction IH as [|u p Hu Hp IHp]; intros [|v q]; split; intros H; try discriminate; try reflexivity.
      - apply andb_true_iff in H as [H1 H2]. apply Hu in H1. apply IHp in H2. congruence.
      - injection H as -> ->. apply andb_true_iff. split; [now apply Hu | now apply IHp]. }
    rewrite Hg. split; congruence.
  - assert (Hg : forall q, (fix go (p q : list lval) : bool := match p, q with [], [] => true | u :: p', v :: q' => lval_eqb u v && go p' q' | _, _ => false end) l q = true <-> l = q).
    { induction IH as [|u p Hu Hp IHp]; intros [|v q]; split; intros H; try discriminate; try reflexivity.
      - apply andb_true_iff in H as [H1 H2]. apply Hu in H1. apply IHp in H2. congruence.
      - injection H as -> ->. apply andb_true_iff. split; [now apply Hu | now apply IHp]. }
    rewrite Hg. split; congruence.
Qed.

Lemma lvals_eqb_eq p : forall q, lvals_eqb p q = true <-> p = q.
Proof.
  induction p as [|u p IH]; intros [|v q]; cbn [lvals_eqb]; split; intros H; try discriminate; try reflexivity.
  - apply andb_true_iff in H as [H1 H2]. apply lval_eqb_eq in H1. apply IH in H2. congruence.
  - injection H as -> ->. apply andb_true_iff. split; [now apply lval_eqb_eq | now apply IH].
Qed.

Lemma dty_eqb_eq : forall a b, dty_eqb a b = true <-> a = b.
Proof.
  induction a as [| |w|n|l u|u|l n c IH|l n c IH|s n c IH|fs IH|kw s v IH|rw v IH|d fs IH] using dty_ind'; intros b;
    destruct b as [| |w'|n'|l' u'|u'|l' n' c'|l' n' c'|s' n' c'|fs'|kw' s' v'|rw' v'|d' fs']; cbn [dty_eqb];
    try (split; intros H; discriminate); try tauto.
  - rewrite Nat.eqb_eq. split; congruence.
  - rewrite Z.eqb_eq. split; congruence.
  - rewrite andb_true_iff, !eqb_true_iff. split; [intros [-> ->]; reflexivity | intros H; injection H; tauto].
  - rewrite eqb_true_iff. split; congruence.
  - rewrite !andb_true_iff, !eqb_true_iff, IH. split; [intros [[-> ->] ->]; reflexivity | intros H; injection H; tauto].
  - rewrite !andb_true_iff, !eqb_true_iff, IH. split; [intros [[-> ->] ->]; reflexivity | intros H; injection H; tauto].
  - rewrite !andb_true_iff, Z.eqb_eq, eqb_true_iff, IH. split; [intros [[-> ->] ->]; reflexivity | intros H; injection H; tauto].
  - assert (Hg : forall y, (fix go (x y : list (bool * dty)) : bool :=
                              match x, y with
                              | [], [] => true
                              | (n1, t1) :: x', (n2, t2) :: y' => Bool.eqb n1 n2 && dty_eqb t1 t2 && go x' y'
                              | _, _ => false end) fs y = true <-> fs = y).
    { induction IH as [|[n1 t1] p Hu Hp IHp]; intros [|[n2 t2] q]; split; intros H; try discriminate; try reflexivity.
      - apply andb_true_iff in H as [H H3]. apply andb_true_iff in H as [H1 H2].
        apply eqb_prop in H1. cbn [snd] in Hu. apply Hu in H2. apply IHp in H3. congruence.
      - injection H as -> -> ->. rewrite eqb_reflx. cbn [andb snd] in *. apply andb_true_iff. split; [now apply Hu | now apply IHp]. }
    rewrite Hg. split; congruence.
  - rewrite !andb_true_iff, Nat.eqb_eq, eqb_true_iff, IH. split; [intros [[-> ->] ->]; reflexivity | intros H; injection H; tauto].
  - rewrite !andb_true_iff, Nat.eqb_eq, IH. split; [intros [-> ->]; reflexivity | intros H; injection H; tauto].
  - assert (Hg : forall y, (fix go (x y : list (Z * dty)) : bool :=
                              match x, y with
                              | [], [] => true
                              | (i1, t1) :: x', (i2, t2) :: y' => Z.eqb i1 i2 && dty_eqb t1 t2 && go x' y'
                              | _, _ => false end) fs y = true <-> fs = y).
    { induction IH as [|[n1 t1] p Hu Hp IHp]; intros [|[n2 t2] q]; split; intros H; try discriminate; try reflexivity.
      - apply andb_true_iff in H as [H H3]. apply andb_true_iff in H as [H1 H2].
        apply Z.eqb_eq in H1. cbn [snd] in Hu. apply Hu in H2. apply IHp in H3. congruence.
      - injection H as -> -> ->. rewrite Z.eqb_refl. cbn [andb snd] in *. apply andb_true_iff. split; [now apply Hu | now apply IHp]. }
    rewrite andb_true_iff, eqb_true_iff, Hg. split; [intros [-> ->]; reflexivity | intros H; injection H; tauto].
Qed.

Theorem logically_equal_iff a b : logically_equal a b = true <-> (p_ty a = p_ty b /\ logical a = logical b).
Proof. unfold logically_equal. now rewrite andb_true_iff, dty_eqb_eq, lvals_eqb_eq. Qed.
