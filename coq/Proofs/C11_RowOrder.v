(* C11 — whole rows: order preservation, injectivity, logical equality. *)
From Coq Require Import List Arith NArith ZArith Lia Bool.
From AV Require Import Base.ListX Model.C11_Row Proofs.C11_Lex Proofs.C11_Fixed Proofs.C11_Var Proofs.C11_Unfold Proofs.C11_Field Proofs.C11_Nested.
Import ListNotations.
Local Open Scope N_scope.

Fixpoint wf_fields (fs : list field) : Prop :=
  match fs with [] => True | (t, _) :: r => wf_type t /\ wf_fields r end.

Theorem enc_row_strong fs : wf_fields fs -> strong (wt_row fs) (enc_row fs) (row_cmp fs).
Proof.
  induction fs as [|[t o] fs IH]; intros Wf a b x y Wa Wb.
  - reflexivity.
  - cbn [wf_fields] in Wf. destruct a as [|xa ra], b as [|xb rb]; cbn [wt_row] in Wa, Wb; try contradiction.
    cbn [enc_row row_cmp hd tl]. rewrite <- !app_assoc.
    rewrite (enc_strong t (proj1 Wf) o xa xb _ _ (proj1 Wa) (proj1 Wb)).
    destruct (cmp_field t o xa xb); try reflexivity. apply IH; tauto.
Qed.

Theorem row_order_thm fs r1 r2 : wf_fields fs -> wt_row fs r1 -> wt_row fs r2 ->
  lex (enc_row fs r1) (enc_row fs r2) = row_cmp fs r1 r2.
Proof. intros Wf W1 W2. exact (strong_nil _ _ _ (enc_row_strong fs Wf) r1 r2 W1 W2). Qed.

(* ------------------------------------------------------------------ logical equality *)
Lemma struct_cmp_eq cf fs xs ys :
  Forall (fun f => forall x y, wt f x -> wt f y -> cf f x y = Eq -> x = y) fs ->
  wt_fields fs xs -> wt_fields fs ys -> struct_cmp cf fs xs ys = Eq -> xs = ys.
Proof.
  intros H. revert xs ys. induction H as [|f fs Hf Hfs IH]; intros xs ys Wx Wy E.
  - destruct xs, ys; cbn [wt_fields] in *; try contradiction. reflexivity.
  - destruct xs as [|x xs], ys as [|y ys]; cbn [wt_fields] in *; try contradiction.
    cbn [struct_cmp hd tl] in E. destruct (cf f x y) eqn:Ec; try discriminate.
    f_equal; [apply Hf; tauto | apply IH; tauto].
Qed.

Lemma list_cmp_eq (P : value -> Prop) c xs ys :
  (forall x y, P x -> P y -> c x y = Eq -> x = y) ->
  Forall P xs -> Forall P ys -> list_cmp c xs ys = Eq -> xs = ys.
Proof.
  intros H. revert ys. induction xs as [|x xs IH]; intros [|y ys] Wx Wy E; cbn [list_cmp] in E; try discriminate; [reflexivity|].
  inversion Wx; inversion Wy; subst. destruct (c x y) eqn:Ec; try discriminate.
  f_equal; [now apply H | now apply IH].
Qed.

Lemma tuple_cmp_eq ws : forall xs ys, wt_tuple ws xs -> wt_tuple ws ys -> tuple_cmp xs ys = Eq -> xs = ys.
Proof.
  induction ws as [|w ws IH]; intros xs ys Wx Wy E.
  - destruct xs, ys; try contradiction. reflexivity.
  - destruct xs as [|[|x| | |] xs], ys as [|[|y| | |] ys]; cbn [wt_tuple] in Wx, Wy; try contradiction.
    cbn [tuple_cmp vint] in E. destruct (x ?= y)%Z eqn:Ec; try discriminate.
    apply Z.compare_eq_iff in Ec. subst y. f_equal. apply IH; tauto.
Qed.

Theorem cmp_asc_eq : forall t, wf_type t -> forall nf a b, wt t a -> wt t b -> cmp_asc t nf a b = Eq -> a = b.
Proof.
  induction t as [w|w| |w|n| |fs IH|c IH|c n IH|c IH|ws] using ftype_ind'; intros Wt nf a b Wa Wb E.
  - destruct a, b; cbn [wt] in Wa, Wb; try contradiction; cbn [cmp_asc] in E; try (destruct nf; discriminate); [reflexivity|].
    apply Z.compare_eq_iff in E. now subst.
  - destruct a, b; cbn [wt] in Wa, Wb; try contradiction; cbn [cmp_asc] in E; try (destruct nf; discriminate); [reflexivity|].
    apply Z.compare_eq_iff in E. now subst.
  - destruct a, b; cbn [wt] in Wa, Wb; try contradiction; cbn [cmp_asc] in E; try (destruct nf; discriminate); [reflexivity|].
    apply Z.compare_eq_iff in E. now subst.
  - destruct a, b; cbn [wt] in Wa, Wb; try contradiction; cbn [cmp_asc] in E; try (destruct nf; discriminate); [reflexivity|].
    cbn [wf_type] in Wt. rewrite <- half_Z in E by exact Wt.
    pose proof (half_double w Wt) as Hd. pose proof (half_pos w) as Hh.
    f_equal. apply (total_cmp_eq (Z.of_N (half w))); try exact E; rewrite ?pow_bits_Z, <- ?Hd in *; lia.
  - destruct a, b; cbn [wt] in Wa, Wb; try contradiction; cbn [cmp_asc] in E; try (destruct nf; discriminate); [reflexivity|].
    f_equal. now apply lex_eq.
  - destruct a, b; cbn [wt] in Wa, Wb; try contradiction; cbn [cmp_asc] in E; try (destruct nf; discriminate); [reflexivity|].
    f_equal. now apply lex_eq.
  - rewrite wf_type_struct in Wt.
    destruct a as [| | |xs|], b as [| | |ys|]; try (cbn [wt] in Wa, Wb; contradiction);
      try (cbn [cmp_asc] in E; destruct nf; discriminate); [reflexivity|].
    rewrite cmp_asc_struct in E. rewrite wt_struct in Wa, Wb. f_equal.
    apply (struct_cmp_eq (fun f => cmp_asc f nf) fs xs ys); try assumption.
    clear - IH Wt. induction IH as [|f fs Hf Hfs IHfs]; constructor; cbn [wf_types] in Wt.
    + intros x y Wx Wy. apply Hf; tauto.
    + apply IHfs; tauto.
  - cbn [wf_type] in Wt.
    destruct a as [| | | |xs], b as [| | | |ys]; try (cbn [wt] in Wa, Wb; contradiction);
      try (cbn [cmp_asc] in E; destruct nf; discriminate); [reflexivity|].
    rewrite cmp_asc_list in E. rewrite wt_list, wt_all_Forall in Wa, Wb. f_equal.
    apply (list_cmp_eq (wt c) (cmp_asc c nf)); try assumption. intros x y. now apply IH.
  - cbn [wf_type] in Wt.
    destruct a as [| | | |xs], b as [| | | |ys]; try (cbn [wt] in Wa, Wb; contradiction);
      try (cbn [cmp_asc] in E; destruct nf; discriminate); [reflexivity|].
    rewrite cmp_asc_fsl in E. rewrite wt_fsl, wt_all_Forall in Wa, Wb. f_equal.
    apply (list_cmp_eq (wt c) (cmp_asc c nf)); try tauto. intros x y. now apply IH.
  - cbn [wf_type wt cmp_asc] in *. now apply (IH Wt nf).
  - destruct a as [| | |xs|], b as [| | |ys|]; try (cbn [wt] in Wa, Wb; contradiction);
      try (cbn [cmp_asc] in E; destruct nf; discriminate); [reflexivity|].
    rewrite cmp_asc_iv in E. rewrite wt_iv in Wa, Wb. f_equal. now apply (tuple_cmp_eq ws).
Qed.

Lemma cmp_field_eq t o a b : wf_type t -> wt t a -> wt t b -> cmp_field t o a b = Eq -> a = b.
Proof.
  intros Wt Wa Wb E. unfold cmp_field in E. destruct (descending o).
  - apply (cmp_asc_eq t Wt (negb (nulls_first o))); try assumption.
    destruct (cmp_asc t (negb (nulls_first o)) a b); try discriminate. reflexivity.
  - now apply (cmp_asc_eq t Wt (nulls_first o)).
Qed.

Lemma row_cmp_eq fs r1 r2 : wf_fields fs -> wt_row fs r1 -> wt_row fs r2 -> row_cmp fs r1 r2 = Eq -> r1 = r2.
Proof.
  revert r1 r2. induction fs as [|[t o] fs IH]; intros r1 r2 Wf W1 W2 E.
  - destruct r1, r2; cbn [wt_row] in *; try contradiction. reflexivity.
  - destruct r1 as [|x r1], r2 as [|y r2]; cbn [wt_row wf_fields] in *; try contradiction.
    cbn [row_cmp hd tl] in E. destruct (cmp_field t o x y) eqn:Ec; try discriminate.
    f_equal; [apply (cmp_field_eq t o); tauto | apply IH; tauto].
Qed.

(* byte equality of rows <-> equality of the value tuples <-> row_cmp = Eq *)
Theorem row_injective_thm fs r1 r2 : wf_fields fs -> wt_row fs r1 -> wt_row fs r2 ->
  (enc_row fs r1 = enc_row fs r2 <-> r1 = r2).
Proof.
  intros Wf W1 W2. split; [|intros ->; reflexivity].
  intros E. apply (row_cmp_eq fs); try assumption.
  rewrite <- row_order_thm by assumption. rewrite E. apply lex_refl.
Qed.

Theorem row_cmp_eq_iff fs r1 r2 : wf_fields fs -> wt_row fs r1 -> wt_row fs r2 ->
  (row_cmp fs r1 r2 = Eq <-> r1 = r2).
Proof.
  intros Wf W1 W2. split; [now apply row_cmp_eq|].
  intros ->. rewrite <- row_order_thm by assumption. apply lex_refl.
Qed.

(* ------------------------------------------------------------------ value_eqb decides equality *)
Lemma value_ind' (P : value -> Prop)
  (HNull : P VNull) (HInt : forall z, P (VInt z)) (HBytes : forall b, P (VBytes b))
  (HStruct : forall vs, Forall P vs -> P (VStruct vs)) (HList : forall vs, Forall P vs -> P (VList vs)) :
  forall v, P v.
Proof.
  fix IH 1. intros [|z|b|vs|vs].
  - exact HNull. - apply HInt. - apply HBytes.
  - apply HStruct. induction vs as [|x vs IHvs]; constructor; [apply IH | exact IHvs].
  - apply HList. induction vs as [|x vs IHvs]; constructor; [apply IH | exact IHvs].
Qed.

Fixpoint bytes_eqb' (x y : list N) : bool :=
  match x, y with [], [] => true | p :: x', q :: y' => N.eqb p q && bytes_eqb' x' y' | _, _ => false end.

Lemma bytes_eqb'_eq x y : bytes_eqb' x y = true <-> x = y.
Proof.
  revert y. induction x as [|p x IH]; intros [|q y]; cbn [bytes_eqb']; split; try discriminate; try reflexivity.
  - intros H. apply andb_true_iff in H as [H1 H2]. apply N.eqb_eq in H1. apply IH in H2. now subst.
  - intros E. injection E as -> ->. apply andb_true_iff. split; [apply N.eqb_refl | now apply IH].
Qed.

Fixpoint values_eqb (xs ys : list value) : bool :=
  match xs, ys with [], [] => true | p :: x', q :: y' => value_eqb p q && values_eqb x' y' | _, _ => false end.

Lemma value_eqb_struct xs ys : value_eqb (VStruct xs) (VStruct ys) = values_eqb xs ys.
Proof. cbn [value_eqb]. revert ys. induction xs as [|x xs IH]; intros [|y ys]; try reflexivity; cbn [values_eqb]; first [reflexivity | now rewrite <- IH | now rewrite IH]. Qed.
Lemma value_eqb_list xs ys : value_eqb (VList xs) (VList ys) = values_eqb xs ys.
Proof. cbn [value_eqb]. revert ys. induction xs as [|x xs IH]; intros [|y ys]; try reflexivity; cbn [values_eqb]; first [reflexivity | now rewrite <- IH | now rewrite IH]. Qed.
Lemma value_eqb_bytes x y : value_eqb (VBytes x) (VBytes y) = bytes_eqb' x y.
Proof. cbn [value_eqb]. revert y. induction x as [|p x IH]; intros [|q y]; try reflexivity; cbn [bytes_eqb']; first [reflexivity | now rewrite <- IH | now rewrite IH]. Qed.

Lemma values_eqb_eq xs : Forall (fun a => forall b, value_eqb a b = true <-> a = b) xs ->
  forall ys, values_eqb xs ys = true <-> xs = ys.
Proof.
  induction 1 as [|x xs Hx Hxs IH]; intros [|y ys]; cbn [values_eqb]; split; try discriminate; try reflexivity.
  - intros H. apply andb_true_iff in H as [H1 H2]. apply Hx in H1. apply IH in H2. now subst.
  - intros E. injection E as -> ->. apply andb_true_iff. split; [now apply Hx | now apply IH].
Qed.

Theorem value_eqb_eq : forall a b, value_eqb a b = true <-> a = b.
Proof.
  induction a as [|z|x|xs IH|xs IH] using value_ind'; intros b.
  - destruct b; cbn [value_eqb]; split; try discriminate; reflexivity.
  - destruct b; cbn [value_eqb]; split; try discriminate.
    + intros H. apply Z.eqb_eq in H. now subst.
    + intros E. injection E as ->. apply Z.eqb_refl.
  - destruct b; try (cbn [value_eqb]; split; discriminate).
    rewrite value_eqb_bytes, bytes_eqb'_eq. split; [now intros -> | now intros [= ->]].
  - destruct b; try (cbn [value_eqb]; split; discriminate).
    rewrite value_eqb_struct, (values_eqb_eq xs IH). split; [now intros -> | now intros [= ->]].
  - destruct b; try (cbn [value_eqb]; split; discriminate).
    rewrite value_eqb_list, (values_eqb_eq xs IH). split; [now intros -> | now intros [= ->]].
Qed.

Theorem row_eqb_eq r1 r2 : row_eqb r1 r2 = true <-> r1 = r2.
Proof.
  revert r2. induction r1 as [|a r1 IH]; intros [|b r2]; cbn [row_eqb]; split; try discriminate; try reflexivity.
  - intros H. apply andb_true_iff in H as [H1 H2]. apply value_eqb_eq in H1. apply IH in H2. now subst.
  - intros E. injection E as -> ->. apply andb_true_iff. split; [now apply value_eqb_eq | now apply IH].
Qed.
