(* C17 — Avro codec: list / byte level lemmas (take, fixed-width little endian, two's complement decimals,
   block framing). *)
From Coq Require Import List NArith ZArith Lia Bool Arith ZifyN ZifyNat ZifyBool.
From AV Require Import Base.Utf8 Model.C17_Avro Proofs.C17_Varint.
Import ListNotations.
Local Open Scope N_scope.
Ltac Zify.zify_post_hook ::= Z.div_mod_to_equations.

(* ------------------------------------------------------------------ a finite check lifted to all bytes *)
Lemma forall_lt_bool (p : N -> bool) n :
  forallb (fun i => p (N.of_nat i)) (seq 0 n) = true -> forall b, b < N.of_nat n -> p b = true.
Proof.
  intros H b Hb. rewrite forallb_forall in H.
  specialize (H (N.to_nat b)). rewrite N2Nat.id in H. apply H. apply in_seq. lia.
Qed.

(* ------------------------------------------------------------------ take *)
Lemma take_app h r : take (length h) (h ++ r) = Some (h, r).
Proof. induction h as [|b h IH]; [reflexivity|]. cbn [length app take]. now rewrite IH. Qed.

Lemma take_z_app h r : take_z (Z.of_nat (length h)) (h ++ r) = Some (h, r).
Proof.
  unfold take_z. destruct (Z.ltb_spec (Z.of_nat (length h)) 0) as [?|_]; [lia|].
  rewrite app_length. destruct (Z.ltb_spec (Z.of_nat (length h + length r)) (Z.of_nat (length h))) as [?|_]; [lia|].
  rewrite Nat2Z.id. apply take_app.
Qed.

Lemma get_bytes_write l rest : len_ok l -> get_bytes (write_len_prefixed l ++ rest) = Some (l, rest).
Proof.
  intros Hl. unfold get_bytes, write_len_prefixed. rewrite <- app_assoc.
  rewrite get_long_write by (unfold len_ok in Hl; lia). apply take_z_app.
Qed.

(* ------------------------------------------------------------------ fixed width little endian *)
Lemma le_bytes_length n x : length (le_bytes n x) = n.
Proof. revert x. induction n as [|n IH]; intros x; cbn [le_bytes length]; [reflexivity|now rewrite IH]. Qed.

Lemma le_bytes_bytes n x : Forall (fun b => b < 256) (le_bytes n x).
Proof.
  revert x. induction n as [|n IH]; intros x; cbn [le_bytes]; constructor; [|apply IH].
  apply N.mod_lt. discriminate.
Qed.

Lemma le_value_le_bytes n x : le_value (le_bytes n x) = x mod 2^(8 * N.of_nat n).
Proof.
  revert x. induction n as [|n IH]; intros x.
  - cbn [le_bytes le_value]. change (2^(8 * N.of_nat 0)) with 1. now rewrite N.mod_1_r.
  - cbn [le_bytes le_value]. rewrite IH.
    replace (2^(8 * N.of_nat (S n))) with (256 * 2^(8 * N.of_nat n)).
    2:{ replace (8 * N.of_nat (S n)) with (8 + 8 * N.of_nat n) by lia. rewrite N.pow_add_r. reflexivity. }
    rewrite N.mod_mul_r by (try apply N.pow_nonzero; discriminate). reflexivity.
Qed.

Lemma take_le_bytes n x rest : take n (le_bytes n x ++ rest) = Some (le_bytes n x, rest).
Proof. rewrite <- (le_bytes_length n x) at 1. apply take_app. Qed.

(* ------------------------------------------------------------------ decimals: sign bytes *)
Definition sgn (b : N) : N := if N.land b 128 =? 0 then 0 else 255.

Lemma sgn_agrees b : b < 256 -> N.land (N.lxor b (sgn b)) 128 = 0.
Proof.
  intros H. apply N.eqb_eq.
  apply (forall_lt_bool (fun b => N.land (N.lxor b (sgn b)) 128 =? 0) 256); [vm_compute; reflexivity|exact H].
Qed.

Lemma sgn_unique b sb : b < 256 -> (sb = 0 \/ sb = 255) -> N.land (N.lxor b sb) 128 = 0 -> sgn b = sb.
Proof.
  intros H Hsb Hz.
  destruct Hsb as [-> | ->].
  - assert (Hp := forall_lt_bool (fun b => negb (N.land (N.lxor b 0) 128 =? 0) || (sgn b =? 0)) 256 ltac:(vm_compute; reflexivity) b H).
    cbv beta in Hp. rewrite Hz in Hp. cbn in Hp. now apply N.eqb_eq.
  - assert (Hp := forall_lt_bool (fun b => negb (N.land (N.lxor b 255) 128 =? 0) || (sgn b =? 255)) 256 ltac:(vm_compute; reflexivity) b H).
    cbv beta in Hp. rewrite Hz in Hp. cbn in Hp. now apply N.eqb_eq.
Qed.

Lemma sgn_values b : sgn b = 0 \/ sgn b = 255.
Proof. unfold sgn. destruct (N.land b 128 =? 0); auto. Qed.

Lemma sign_byte_of_cons b l : sign_byte_of (b :: l) = sgn b.
Proof. reflexivity. Qed.

Lemma sign_byte_values l : sign_byte_of l = 0 \/ sign_byte_of l = 255.
Proof. destruct l as [|b l]; [left; reflexivity|apply sgn_values]. Qed.

Lemma count_lead_le sb l : (count_lead sb l <= length l)%nat.
Proof. induction l as [|b l IH]; cbn [count_lead length]; [lia|]. destruct (b =? sb); lia. Qed.

Lemma count_lead_firstn sb l d : (d <= count_lead sb l)%nat -> firstn d l = repeat sb d.
Proof.
  revert d. induction l as [|b l IH]; intros d Hd; cbn [count_lead] in Hd.
  - assert (d = 0)%nat by lia. subst d. reflexivity.
  - destruct d as [|d]; [reflexivity|]. destruct (N.eqb_spec b sb) as [->|?]; [|lia].
    cbn [firstn repeat]. f_equal. apply IH. lia.
Qed.

Lemma count_lead_nth sb l : (count_lead sb l < length l)%nat -> nth (count_lead sb l) l 0 <> sb.
Proof.
  induction l as [|b l IH]; cbn [count_lead length]; [lia|].
  destruct (N.eqb_spec b sb) as [->|Hne]; intros H.
  - cbn [nth]. apply IH. lia.
  - cbn [nth]. exact Hne.
Qed.

Lemma forallb_eq_repeat sb l : forallb (fun b => b =? sb) l = true -> l = repeat sb (length l).
Proof.
  induction l as [|b l IH]; [reflexivity|]. cbn [forallb length repeat]. intros H.
  apply andb_true_iff in H. destruct H as [Hb Hl]. apply N.eqb_eq in Hb. subst b. f_equal. now apply IH.
Qed.

Lemma forallb_repeat sb n : forallb (fun b => b =? sb) (repeat sb n) = true.
Proof. induction n as [|n IH]; [reflexivity|]. cbn [repeat forallb]. now rewrite N.eqb_refl, IH. Qed.

Lemma nth_repeat_lt sb n i : (i < n)%nat -> nth i (repeat sb n) 0 = sb.
Proof. revert i. induction n as [|n IH]; intros i H; [lia|]. destruct i as [|i]; [reflexivity|]. cbn [repeat nth]. apply IH. lia. Qed.

(* dropping d redundant sign bytes is undone by sign extension *)
Lemma sign_fit_skip B d : Forall (fun b => b < 256) B -> (d < length B)%nat ->
  firstn d B = repeat (sign_byte_of B) d -> N.land (N.lxor (nth d B 0) (sign_byte_of B)) 128 = 0 ->
  sign_fit (length B) (skipn d B) = Some B.
Proof.
  intros HB Hd Hf Hs. unfold sign_fit. rewrite skipn_length.
  destruct d as [|d'].
  - rewrite Nat.sub_0_r, Nat.eqb_refl. reflexivity.
  - set (d := S d') in *.
    destruct (Nat.eqb_spec (length B - d) (length B)) as [?|_]; [lia|].
    destruct (Nat.ltb_spec (length B) (length B - d)) as [?|_]; [lia|].
    replace (length B - (length B - d))%nat with d by lia.
    assert (Hsk : skipn d B = nth d B 0 :: skipn (S d) B).
    { clear -Hd. revert B Hd. induction d as [|d IH]; intros B Hd; destruct B as [|b B]; cbn [length] in Hd; try lia.
      - reflexivity.
      - cbn [skipn nth]. rewrite IH by lia. reflexivity. }
    rewrite Hsk at 1. rewrite sign_byte_of_cons.
    rewrite (sgn_unique (nth d B 0) (sign_byte_of B)).
    + rewrite <- Hf. now rewrite firstn_skipn.
    + rewrite Forall_forall in HB. apply HB. apply nth_In. exact Hd.
    + apply sign_byte_values.
    + exact Hs.
Qed.

Lemma minimal_twos_skip B : Forall (fun b => b < 256) B -> B <> [] ->
  exists d, (d < length B)%nat /\ minimal_twos B = skipn d B /\ firstn d B = repeat (sign_byte_of B) d /\
            N.land (N.lxor (nth d B 0) (sign_byte_of B)) 128 = 0.
Proof.
  intros HB Hne. destruct B as [|b0 B']; [contradiction|]. set (B := b0 :: B') in *.
  assert (Hb0 : b0 < 256) by (inversion HB; assumption).
  unfold minimal_twos. fold B. cbv zeta.
  set (sb := sign_byte_of B). set (k := count_lead sb B).
  assert (Hk : (k <= length B)%nat) by apply count_lead_le.
  assert (Hlen : (0 < length B)%nat) by (unfold B; cbn [length]; lia).
  change (match B with [] => [] | _ :: _ => if (k =? 0)%nat then B else if (k =? length B)%nat then skipn (length B - 1) B
          else skipn (if N.land (N.lxor (nth k B 0) sb) 128 =? 0 then k else (k - 1)%nat) B end)
    with (if (k =? 0)%nat then B else if (k =? length B)%nat then skipn (length B - 1) B
          else skipn (if N.land (N.lxor (nth k B 0) sb) 128 =? 0 then k else (k - 1)%nat) B).
  assert (Hnth : forall j, (j < k)%nat -> nth j B 0 = sb).
  { intros j Hj. pose proof (count_lead_firstn sb B k (le_n _)) as Hf. fold k in Hf.
    rewrite <- (firstn_skipn k B). rewrite app_nth1 by (rewrite firstn_length; lia).
    rewrite Hf. apply nth_repeat_lt. exact Hj. }
  destruct (Nat.eqb_spec k 0) as [Hk0|Hk0].
  - exists 0%nat. split; [exact Hlen|]. split; [reflexivity|]. split; [reflexivity|].
    unfold sb, B. cbn [nth]. rewrite sign_byte_of_cons. now apply sgn_agrees.
  - destruct (Nat.eqb_spec k (length B)) as [Hkl|Hkl].
    + exists (length B - 1)%nat. split; [lia|]. split; [reflexivity|].
      split; [apply count_lead_firstn; fold k; lia|].
      rewrite Hnth by lia. rewrite N.lxor_nilpotent. reflexivity.
    + destruct (N.eqb_spec (N.land (N.lxor (nth k B 0) sb) 128) 0) as [Hz|Hz].
      * exists k. split; [lia|]. split; [reflexivity|]. split; [apply count_lead_firstn; fold k; lia|exact Hz].
      * exists (k - 1)%nat. split; [lia|]. split; [reflexivity|].
        split; [apply count_lead_firstn; fold k; lia|].
        rewrite Hnth by lia. rewrite N.lxor_nilpotent. reflexivity.
Qed.

Lemma sign_fit_length n src l : sign_fit n src = Some l -> length l = n.
Proof.
  unfold sign_fit. destruct (Nat.eqb_spec (length src) n) as [He|He]; [intros [= <-]; exact He|].
  destruct (Nat.ltb_spec n (length src)) as [Hlt|Hge].
  - destruct (forallb _ _); [|discriminate].
    destruct (Nat.eqb_spec n 0) as [->|?]; [intros [= <-]; reflexivity|].
    destruct (N.land _ 128 =? 0); [|discriminate]. intros [= <-]. rewrite skipn_length. lia.
  - intros [= <-]. rewrite app_length, repeat_length. lia.
Qed.

(* what the writer fitted into n bytes, the reader extends / truncates back to the w bytes it came from *)
Lemma sign_fit_back B n R : Forall (fun b => b < 256) B -> (0 < length B)%nat -> (0 < n)%nat ->
  sign_fit n B = Some R -> sign_fit (length B) R = Some B.
Proof.
  intros HB Hw Hn. unfold sign_fit at 1.
  destruct (Nat.eqb_spec (length B) n) as [He|He].
  - intros [= <-]. unfold sign_fit. now rewrite Nat.eqb_refl.
  - destruct (Nat.ltb_spec n (length B)) as [Hlt|Hge].
    + destruct (forallb (fun b => b =? sign_byte_of B) (firstn (length B - n) B)) eqn:Hall; [|discriminate].
      destruct (Nat.eqb_spec n 0) as [?|_]; [lia|].
      destruct (N.eqb_spec (N.land (N.lxor (nth (length B - n) B 0) (sign_byte_of B)) 128) 0) as [Hz|?]; [|discriminate].
      intros [= <-]. apply sign_fit_skip; [exact HB|lia| |exact Hz].
      apply forallb_eq_repeat in Hall. rewrite firstn_length in Hall.
      replace (Nat.min (length B - n) (length B)) with (length B - n)%nat in Hall by lia. exact Hall.
    + intros [= <-]. set (sb := sign_byte_of B). set (e := (n - length B)%nat).
      assert (He0 : (0 < e)%nat) by (unfold e; lia).
      unfold sign_fit. rewrite app_length, repeat_length.
      destruct (Nat.eqb_spec (e + length B) (length B)) as [?|_]; [lia|].
      destruct (Nat.ltb_spec (length B) (e + length B)) as [_|?]; [|lia].
      replace (e + length B - length B)%nat with e by lia.
      assert (Hsb' : sign_byte_of (repeat sb e ++ B) = sb).
      { destruct e as [|e']; [lia|]. cbn [repeat app]. rewrite sign_byte_of_cons.
        destruct (sign_byte_values B) as [H0|H255]; fold sb in H0 || fold sb in H255.
        - rewrite H0. reflexivity.
        - rewrite H255. reflexivity. }
      rewrite Hsb'.
      rewrite firstn_app, repeat_length, Nat.sub_diag. cbn [firstn]. rewrite app_nil_r.
      rewrite firstn_all2 by (rewrite repeat_length; lia). rewrite forallb_repeat.
      destruct (Nat.eqb_spec (length B) 0) as [?|_]; [lia|].
      rewrite app_nth2 by (rewrite repeat_length; lia). rewrite repeat_length, Nat.sub_diag.
      destruct B as [|b0 B']; [cbn [length] in Hw; lia|].
      cbn [nth]. unfold sb. rewrite sign_byte_of_cons.
      rewrite sgn_agrees by (inversion HB; assumption). cbn [N.eqb].
      rewrite skipn_app, repeat_length, Nat.sub_diag. cbn [skipn].
      rewrite skipn_all2 by (rewrite repeat_length; lia). reflexivity.
Qed.

(* ------------------------------------------------------------------ decimals: the integer *)
Lemma be_bytes_length w v : length (be_bytes w v) = w.
Proof. unfold be_bytes. now rewrite rev_length, le_bytes_length. Qed.

Lemma be_bytes_bytes w v : Forall (fun b => b < 256) (be_bytes w v).
Proof. unfold be_bytes. apply Forall_rev. apply le_bytes_bytes. Qed.

Lemma from_be_be_bytes w v : (0 < w)%nat ->
  (- 2^(8 * Z.of_nat w - 1) <= v < 2^(8 * Z.of_nat w - 1))%Z -> from_be (be_bytes w v) = v.
Proof.
  intros Hw Hv. unfold from_be. rewrite be_bytes_length.
  unfold be_value, be_bytes. rewrite rev_involutive, le_value_le_bytes.
  set (bits := (8 * Z.of_nat w)%Z) in *.
  assert (Hbits : (0 < bits)%Z) by (unfold bits; lia).
  assert (Hpow : (2^bits = 2 * 2^(bits - 1))%Z).
  { replace bits with (1 + (bits - 1))%Z at 1 by lia. rewrite Z.pow_add_r by lia. reflexivity. }
  assert (Hpos : (0 < 2^(bits - 1))%Z) by (apply Z.pow_pos_nonneg; lia).
  assert (Hm : (0 <= v mod 2^bits < 2^bits)%Z) by (apply Z.mod_pos_bound; lia).
  replace (2^(8 * N.of_nat w))%N with (Z.to_N (2^bits)).
  2:{ unfold bits. rewrite Z2N.inj_pow by lia. f_equal. lia. }
  rewrite N.mod_small by (apply Z2N.inj_lt; lia).
  rewrite Z2N.id by lia.
  destruct (Z.eqb_spec bits 0) as [?|_]; [lia|].
  set (P := (2^(bits - 1))%Z) in *.
  destruct (Z.leb_spec P (v mod 2^bits)) as [Hge|Hlt].
  - (* negative *)
    assert (v < 0)%Z. { destruct (Z.lt_ge_cases v 0); [assumption|]. rewrite Z.mod_small in Hge by lia. lia. }
    assert (E : (v mod 2^bits = v + 2^bits)%Z) by (symmetry; apply Z.mod_unique with (q := (-1)%Z); lia).
    lia.
  - assert (0 <= v)%Z.
    { destruct (Z.lt_ge_cases v 0) as [Hn|]; [|assumption].
      assert (E : (v mod 2^bits = v + 2^bits)%Z) by (symmetry; apply Z.mod_unique with (q := (-1)%Z); lia). lia. }
    rewrite Z.mod_small by lia. reflexivity.
Qed.

(* ------------------------------------------------------------------ counted iteration *)
Fixpoint iter_nat {A} (n : nat) (f : A -> option A) (x : A) : option A :=
  match n with O => Some x | S n' => match f x with Some y => iter_nat n' f y | None => None end end.

Lemma iter_nat_add {A} a b (f : A -> option A) x :
  iter_nat (a + b) f x = match iter_nat a f x with Some y => iter_nat b f y | None => None end.
Proof.
  revert x. induction a as [|a IH]; intros x; [reflexivity|]. cbn [Nat.add iter_nat].
  destruct (f x) as [y|]; [apply IH|reflexivity].
Qed.

Lemma iter_pos_nat {A} p (f : A -> option A) x : iter_pos p f x = iter_nat (Pos.to_nat p) f x.
Proof.
  revert x. induction p as [q IH|q IH|]; intros x.
  - cbn [iter_pos]. rewrite Pos2Nat.inj_xI. cbn [iter_nat].
    destruct (f x) as [y|]; [|reflexivity].
    replace (2 * Pos.to_nat q)%nat with (Pos.to_nat q + Pos.to_nat q)%nat by lia.
    rewrite iter_nat_add, IH. destruct (iter_nat (Pos.to_nat q) f y); [apply IH|reflexivity].
  - cbn [iter_pos]. rewrite Pos2Nat.inj_xO.
    replace (2 * Pos.to_nat q)%nat with (Pos.to_nat q + Pos.to_nat q)%nat by lia.
    rewrite iter_nat_add, IH. destruct (iter_nat (Pos.to_nat q) f x); [apply IH|reflexivity].
  - cbn [iter_pos]. change (Pos.to_nat 1) with 1%nat. cbn [iter_nat]. destruct (f x); reflexivity.
Qed.

Lemma iter_n_nat {A} n (f : A -> option A) x : iter_n (N.of_nat n) f x = iter_nat n f x.
Proof.
  destruct n as [|n]; [reflexivity|]. unfold iter_n. cbn [N.of_nat].
  rewrite iter_pos_nat, SuccNat2Pos.id_succ. reflexivity.
Qed.

Lemma iter_items {A} (item : list N -> option (A * list N)) (encA : A -> list N) blk : forall acc tail,
  (forall a r, In a blk -> item (encA a ++ r) = Some (a, r)) ->
  iter_nat (length blk) (item_step item) (acc, concat (map encA blk) ++ tail) = Some (rev blk ++ acc, tail).
Proof.
  induction blk as [|a blk IH]; intros acc tail H; [reflexivity|].
  cbn [length map concat iter_nat]. unfold item_step at 1. cbn [snd fst].
  rewrite <- app_assoc. rewrite H by (left; reflexivity).
  rewrite IH by (intros; apply H; right; assumption).
  cbn [rev]. now rewrite <- app_assoc.
Qed.

(* ------------------------------------------------------------------ blocks *)
Lemma concat_firstn_le {A} (l : list (list A)) m : (length (concat (firstn m l)) <= length (concat l))%nat.
Proof.
  revert m. induction l as [|x l IH]; intros m; destruct m; cbn [firstn concat length]; try lia.
  rewrite !app_length. specialize (IH m). lia.
Qed.
Lemma concat_skipn_le {A} (l : list (list A)) m : (length (concat (skipn m l)) <= length (concat l))%nat.
Proof.
  revert m. induction l as [|x l IH]; intros m; destruct m; cbn [skipn concat length]; try lia.
  rewrite app_length. specialize (IH m). lia.
Qed.

Section Blocks.
Context {A : Type}.
Variable item : list N -> option (A * list N).
Variable encA : A -> list N.
Variable bk : nat.
Variable sized : bool.

Lemma read_blocks_enc : forall n l rest total acc fuel,
  (forall a r, In a l -> item (encA a ++ r) = Some (a, r)) ->
  (sized = true -> (Z.of_nat (length (concat (map encA l))) < 2^63)%Z) ->
  (0 <= total)%Z -> (total + Z.of_nat (length l) <= 2147483647)%Z ->
  (length l <= n)%nat ->
  (length (enc_blocks n bk sized (map encA l)) <= fuel)%nat ->
  read_blocks fuel item (enc_blocks n bk sized (map encA l) ++ rest) total acc = Some (rev acc ++ l, rest).
Proof.
  induction n as [|n IH]; intros l rest total acc fuel Hitem Hsz Ht0 Htot Hln Hfuel.
  - destruct l as [|a l]; [|cbn [length] in Hln; lia].
    cbn [map enc_blocks] in *. rewrite write_long_0 in *. cbn [length] in Hfuel.
    destruct fuel as [|f]; [lia|]. cbn [app read_blocks].
    change (get_long (0 :: rest)) with (Some (0%Z, rest)). cbv iota beta. change (0 =? 0)%Z with true. cbv iota.
    now rewrite app_nil_r.
  - destruct l as [|a0 l0].
    + cbn [map enc_blocks] in *. rewrite write_long_0 in *. cbn [length] in Hfuel.
      destruct fuel as [|f]; [lia|]. cbn [app read_blocks].
      change (get_long (0 :: rest)) with (Some (0%Z, rest)). cbv iota beta. change (0 =? 0)%Z with true. cbv iota.
      now rewrite app_nil_r.
    + set (l := a0 :: l0) in *.
      set (m := match bk with O => length (map encA l) | S _ => Nat.min bk (length (map encA l)) end).
      assert (Hm : (1 <= m <= length l)%nat).
      { unfold m. rewrite map_length. unfold l. cbn [length]. destruct bk; lia. }
      assert (Henc : enc_blocks (S n) bk sized (map encA l) =
                     (if sized then write_long (- Z.of_nat m) ++ write_long (Z.of_nat (length (concat (firstn m (map encA l)))))
                      else write_long (Z.of_nat m)) ++ concat (firstn m (map encA l)) ++ enc_blocks n bk sized (skipn m (map encA l))).
      { unfold l. reflexivity. }
      rewrite Henc in *. clear Henc.
      rewrite firstn_map, skipn_map in *.
      set (blk := firstn m l) in *. set (tl := skipn m l) in *.
      assert (Hblk : length blk = m) by (unfold blk; rewrite firstn_length; lia).
      assert (Htl : length tl = (length l - m)%nat) by (unfold tl; now rewrite skipn_length).
      assert (Hsplit : l = blk ++ tl) by (unfold blk, tl; now rewrite firstn_skipn).
      assert (Hbody : sized = true -> (Z.of_nat (length (concat (map encA blk))) < 2^63)%Z).
      { intros Hs. specialize (Hsz Hs). unfold blk. rewrite <- firstn_map.
        pose proof (concat_firstn_le (map encA l) m). lia. }
      assert (Hrest : sized = true -> (Z.of_nat (length (concat (map encA tl))) < 2^63)%Z).
      { intros Hs. specialize (Hsz Hs). unfold tl. rewrite <- skipn_map.
        pose proof (concat_skipn_le (map encA l) m). lia. }
      (* the header is not empty: fuel = S f and the rest fits f *)
      set (hdr := if sized then write_long (- Z.of_nat m) ++ write_long (Z.of_nat (length (concat (map encA blk))))
                  else write_long (Z.of_nat m)) in *.
      assert (Hhdr : (1 <= length hdr)%nat).
      { unfold hdr. destruct sized.
        - rewrite app_length. pose proof (write_long_nonempty (- Z.of_nat m)). destruct (write_long (- Z.of_nat m)); [contradiction|cbn [length]; lia].
        - pose proof (write_long_nonempty (Z.of_nat m)). destruct (write_long (Z.of_nat m)); [contradiction|cbn [length]; lia]. }
      rewrite !app_length in Hfuel.
      destruct fuel as [|f]; [lia|].
      assert (Hstep : forall tail,
        read_blocks (S f) item (hdr ++ tail) total acc =
        match iter_n (Z.to_N (Z.of_nat m)) (item_step item) (acc, tail) with
        | None => None
        | Some (acc', r2) => read_blocks f item r2 (total + Z.of_nat m)%Z acc'
        end).
      { intros tail. cbn [read_blocks]. unfold hdr. destruct sized.
        - rewrite <- app_assoc. rewrite get_long_write by lia.
          destruct (Z.eqb_spec (- Z.of_nat m) 0) as [?|_]; [lia|].
          destruct (Z.ltb_spec (- Z.of_nat m) 0) as [_|?]; [|lia].
          rewrite get_long_write by (specialize (Hbody eq_refl); lia).
          destruct (Z.ltb_spec (Z.of_nat (length (concat (map encA blk)))) 0) as [?|_]; [lia|].
          replace (Z.abs (- Z.of_nat m)) with (Z.of_nat m) by lia.
          destruct (Z.ltb_spec 2147483647 (total + Z.of_nat m)) as [?|_]; [lia|]. reflexivity.
        - rewrite get_long_write by lia.
          destruct (Z.eqb_spec (Z.of_nat m) 0) as [?|_]; [lia|].
          destruct (Z.ltb_spec (Z.of_nat m) 0) as [?|_]; [lia|].
          replace (Z.abs (Z.of_nat m)) with (Z.of_nat m) by lia.
          destruct (Z.ltb_spec 2147483647 (total + Z.of_nat m)) as [?|_]; [lia|]. reflexivity. }
      rewrite <- !app_assoc. rewrite Hstep.
      replace (Z.to_N (Z.of_nat m)) with (N.of_nat m) by lia.
      rewrite iter_n_nat. rewrite <- Hblk.
      rewrite iter_items by (intros a r Hin; apply Hitem; rewrite Hsplit; apply in_or_app; left; exact Hin).
      rewrite Hblk.
      rewrite IH.
      * f_equal. f_equal. rewrite rev_app_distr, rev_involutive, <- app_assoc. now rewrite Hsplit.
      * intros a r Hin. apply Hitem. rewrite Hsplit. apply in_or_app. right. exact Hin.
      * exact Hrest.
      * lia.
      * lia.
      * lia.
      * lia.
Qed.
End Blocks.

(* the items of an array are part of its encoding *)
Lemma in_concat_le {A} (x : list A) l : In x l -> (length x <= length (concat l))%nat.
Proof.
  induction l as [|y l IH]; [contradiction|]. cbn [concat]. rewrite app_length. intros [->|H]; [lia|]. specialize (IH H). lia.
Qed.

Lemma enc_blocks_concat_le : forall n bk sized items, (length items <= n)%nat ->
  (length (concat items) <= length (enc_blocks n bk sized items))%nat.
Proof.
  induction n as [|n IH]; intros bk sized items Hn.
  - destruct items; [cbn; lia|cbn [length] in Hn; lia].
  - destruct items as [|x r]; [cbn [concat length]; lia|].
    set (items := x :: r) in *.
    set (m := match bk with O => length items | S _ => Nat.min bk (length items) end).
    assert (Hm : (1 <= m <= length items)%nat) by (unfold m, items; cbn [length]; destruct bk; lia).
    assert (Henc : enc_blocks (S n) bk sized items =
                   (if sized then write_long (- Z.of_nat m) ++ write_long (Z.of_nat (length (concat (firstn m items))))
                    else write_long (Z.of_nat m)) ++ concat (firstn m items) ++ enc_blocks n bk sized (skipn m items)) by reflexivity.
    rewrite Henc. rewrite <- (firstn_skipn m items) at 1. rewrite concat_app, !app_length.
    assert (Hs : (length (skipn m items) <= n)%nat) by (rewrite skipn_length; lia).
    specialize (IH bk sized (skipn m items) Hs). lia.
Qed.
