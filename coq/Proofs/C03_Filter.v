(* C03 — filter: every iteration strategy computes filter_spec. *)
From Coq Require Import List Arith ZArith Bool Lia.
From AV Require Import Base.ListX Model.C03_Select.
From AV Require Model.C19_Bits.
Import ListNotations.

(* ------------------------------------------------------------------ generic list facts *)
Fixpoint bfilter {T} (l : list T) (f : list bool) : list T :=
  match l, f with
  | x :: l', b :: f' => if b then x :: bfilter l' f' else bfilter l' f'
  | _, _ => []
  end.

Lemma map2_length {X Y Z} (f : X -> Y -> Z) xs ys : length (map2 f xs ys) = Nat.min (length xs) (length ys).
Proof. revert ys; induction xs as [|x xs IH]; intros [|y ys]; cbn; auto. Qed.

Lemma map2_app {X Y Z} (f : X -> Y -> Z) xs xs' ys ys' : length xs = length ys ->
  map2 f (xs ++ xs') (ys ++ ys') = map2 f xs ys ++ map2 f xs' ys'.
Proof.
  revert ys; induction xs as [|x xs IH]; intros [|y ys] H; cbn in *; try discriminate; [reflexivity|].
  f_equal. apply IH. lia.
Qed.

Lemma map2_firstn {X Y Z} (f : X -> Y -> Z) n xs ys : map2 f (firstn n xs) (firstn n ys) = firstn n (map2 f xs ys).
Proof. revert xs ys; induction n as [|n IH]; intros [|x xs] [|y ys]; cbn; auto. now rewrite IH. Qed.

Lemma map2_skipn {X Y Z} (f : X -> Y -> Z) n xs ys : map2 f (skipn n xs) (skipn n ys) = skipn n (map2 f xs ys).
Proof.
  revert xs ys; induction n as [|n IH]; intros xs ys; [reflexivity|].
  destruct xs as [|x xs]; destruct ys as [|y ys]; cbn [skipn map2]; auto.
  destruct (skipn n xs); reflexivity.
Qed.

Lemma map2_repeat_true {T} (l : list T) n : length l <= n -> map2 mk_row l (repeat true n) = map Some l.
Proof. revert n; induction l as [|x l IH]; intros [|n] H; cbn in *; try lia; auto. f_equal. apply IH. lia. Qed.

Lemma all_true_repeat l : all_true l = true -> l = repeat true (length l).
Proof.
  induction l as [|b l IH]; [reflexivity|]. unfold all_true in *. cbn. destruct b; [|discriminate].
  cbn. intros H. f_equal. auto.
Qed.

Lemma logical_length {T} (c : pcol T) : wf_col c -> length (logical c) = length (fst c).
Proof.
  destruct c as [v [n|]]; unfold wf_col, logical; cbn; intros H.
  - rewrite map2_length. lia.
  - now rewrite map_length.
Qed.

(* a validity buffer without nulls is the same as no validity buffer *)
Lemma logical_has_nulls {T} (v : list T) n : length v <= match n with Some l => length l | None => length v end ->
  logical (v, has_nulls n) = logical (v, n).
Proof.
  destruct n as [l|]; [|reflexivity]. unfold has_nulls, logical; cbn. intros H.
  destruct (all_true l) eqn:E; [|reflexivity]. cbn.
  rewrite (all_true_repeat l E). symmetry. apply map2_repeat_true. exact H.
Qed.

Lemma logical_all_true {T} (v : list T) l : length v <= length l -> all_true l = true ->
  map2 mk_row v l = map Some v.
Proof. intros H E. rewrite (all_true_repeat l E). now apply map2_repeat_true. Qed.

(* ------------------------------------------------------------------ bfilter *)
Lemma bfilter_map2 {X Y Z} (g : X -> Y -> Z) xs ys f :
  bfilter (map2 g xs ys) f = map2 g (bfilter xs f) (bfilter ys f).
Proof.
  revert ys f; induction xs as [|x xs IH]; intros ys f.
  - destruct ys; destruct f; reflexivity.
  - destruct ys as [|y ys]; destruct f as [|b f]; cbn; try reflexivity.
    + destruct (bfilter xs f); [|]; destruct b; reflexivity.
    + destruct b; cbn; now rewrite IH.
Qed.

Lemma bfilter_map {X Y} (g : X -> Y) xs f : bfilter (map g xs) f = map g (bfilter xs f).
Proof. revert f; induction xs as [|x xs IH]; intros [|b f]; cbn; auto. destruct b; cbn; now rewrite IH. Qed.

Lemma bfilter_length_count {T} (l : list T) f : length f <= length l -> length (bfilter l f) = count_true f.
Proof.
  revert f; induction l as [|x l IH]; intros [|b f] H; cbn in *; try lia; try reflexivity.
  unfold C19_Bits.count_true in *. cbn. destruct b; cbn; rewrite IH by lia; reflexivity.
Qed.

Lemma filter_len_le {X} (g : X -> bool) l : length (filter g l) <= length l.
Proof. induction l as [|x l IH]; cbn; [lia|]. destruct (g x); cbn; lia. Qed.

Lemma count_true_le f : count_true f <= length f.
Proof. unfold C19_Bits.count_true. apply filter_len_le. Qed.

Lemma count_true_zero_bfilter {T} (l : list T) f : count_true f = 0 -> bfilter l f = [].
Proof.
  revert f; induction l as [|x l IH]; intros [|b f]; cbn; auto.
  unfold C19_Bits.count_true in *. cbn. destruct b; cbn; [discriminate|]. auto.
Qed.

Lemma count_true_full_bfilter {T} (l : list T) f : count_true f = length f -> length f <= length l ->
  bfilter l f = firstn (length f) l.
Proof.
  revert f; induction l as [|x l IH]; intros [|b f]; cbn; auto; try lia.
  unfold C19_Bits.count_true in *. cbn. destruct b; cbn; intros H Hl.
  - f_equal. apply IH; lia.
  - pose proof (filter_len_le (fun b : bool => b) f). lia.
Qed.

Lemma bfilter_firstn_mask {T} (l : list T) f : bfilter l f = bfilter (firstn (length f) l) f.
Proof. revert f; induction l as [|x l IH]; intros [|b f]; cbn; auto. destruct b; now rewrite <- IH. Qed.

(* ------------------------------------------------------------------ positions and runs *)
Lemma pick_positions {T} (d : T) f : forall (pre l : list T), length f <= length l ->
  map (fun i => nth i (pre ++ l) d) (C19_Bits.positions_from (length pre) f) = bfilter l f.
Proof.
  induction f as [|b f IH]; intros pre l H; [destruct l; reflexivity|].
  destruct l as [|x l]; [cbn in H; lia|].
  cbn [C19_Bits.positions_from bfilter]. rewrite map_app.
  assert (E : pre ++ x :: l = (pre ++ [x]) ++ l) by now rewrite <- app_assoc.
  assert (EL : S (length pre) = length (pre ++ [x])) by (rewrite app_length; cbn; lia).
  rewrite E, EL, IH by (cbn in H; lia).
  destruct b; cbn [map app]; [|reflexivity].
  f_equal. rewrite <- E. rewrite app_nth2 by lia. now rewrite Nat.sub_diag.
Qed.

Lemma pick_positions0 {T} (d : T) (l : list T) f : length f <= length l ->
  map (fun i => nth i l d) (positions f) = bfilter l f.
Proof. intros H. exact (pick_positions d f [] l H). Qed.

Definition range (se : nat * nat) : list nat := seq (fst se) (snd se - fst se).
Definition open_part (open : option nat) (k : nat) : list nat :=
  match open with Some s => seq s (k - s) | None => [] end.
Definition open_le (open : option nat) (k : nat) : Prop :=
  match open with Some s => s <= k | None => True end.

Lemma seq_snoc s k : s <= k -> seq s (S k - s) = seq s (k - s) ++ [k].
Proof. intros H. replace (S k - s) with (S (k - s)) by lia. rewrite seq_S. f_equal. f_equal. lia. Qed.

(* the ranges of the slice iterator enumerate exactly the positions of the index iterator *)
Lemma runs_positions f : forall k open, open_le open k ->
  flat_map range (C19_Bits.runs_from k open f) = open_part open k ++ C19_Bits.positions_from k f.
Proof.
  induction f as [|b f IH]; intros k open Ho.
  - cbn. destruct open; cbn; [now rewrite app_nil_r|reflexivity].
  - destruct b; cbn [C19_Bits.runs_from C19_Bits.positions_from].
    + destruct open as [s|]; cbn in Ho.
      * rewrite IH by (cbn; lia). cbn [open_part]. rewrite seq_snoc by exact Ho. now rewrite <- app_assoc.
      * rewrite IH by (cbn; lia). cbn [open_part]. now rewrite seq_snoc, Nat.sub_diag by lia.
    + destruct open as [s|]; cbn in Ho; cbn [flat_map].
      * rewrite IH by exact I. reflexivity.
      * rewrite IH by exact I. reflexivity.
Qed.

Lemma runs_bounded f : forall k open, open_le open k ->
  Forall (fun se : nat * nat => fst se <= snd se /\ snd se <= k + length f) (C19_Bits.runs_from k open f).
Proof.
  induction f as [|b f IH]; intros k open Ho.
  - cbn. destruct open; constructor; cbn in *; [lia|constructor].
  - destruct b; cbn [C19_Bits.runs_from length].
    + eapply Forall_impl; [|apply IH; destruct open; cbn in *; lia]. cbn; intros; lia.
    + destruct open as [s|]; cbn in Ho.
      * constructor; [cbn; lia|]. eapply Forall_impl; [|apply IH; exact I]. cbn; intros; lia.
      * eapply Forall_impl; [|apply IH; exact I]. cbn; intros; lia.
Qed.

Lemma copy_range_pick {T} (d : T) (l : list T) se : fst se <= snd se -> snd se <= length l ->
  copy_range l se = map (fun i => nth i l d) (range se).
Proof.
  destruct se as [s e]; unfold copy_range, range; cbn [fst snd]. intros H1 H2.
  remember (e - s) as n eqn:En. assert (Hn : s + n <= length l) by lia. clear En H1 H2 e.
  revert s Hn; induction n as [|n IH]; intros s Hn; [reflexivity|].
  cbn [seq map]. rewrite <- IH by lia.
  assert (Hs : s < length l) by lia.
  clear IH Hn. revert s Hs; induction l as [|x l IHl]; intros s Hs; [cbn in Hs; lia|].
  destruct s as [|s]; [reflexivity|]. cbn [skipn nth]. cbn in Hs. apply IHl. lia.
Qed.

Lemma flat_map_forall_ext {X Y} (g h : X -> list Y) l : Forall (fun x => g x = h x) l -> flat_map g l = flat_map h l.
Proof. induction 1 as [|x l E _ IH]; cbn; [reflexivity|]. now rewrite E, IH. Qed.

Lemma flat_map_map_range {T} (d : T) (l : list T) rs :
  flat_map (fun se => map (fun i => nth i l d) (range se)) rs = map (fun i => nth i l d) (flat_map range rs).
Proof. induction rs as [|r rs IH]; cbn; [reflexivity|]. now rewrite map_app, IH. Qed.

Lemma copy_runs {T} (d : T) (l : list T) f : length f <= length l ->
  flat_map (copy_range l) (runs f) = bfilter l f.
Proof.
  intros H. unfold C19_Bits.runs.
  rewrite (flat_map_forall_ext (copy_range l) (fun se => map (fun i => nth i l d) (range se))).
  - rewrite flat_map_map_range, runs_positions by exact I. cbn [open_part app].
    apply (pick_positions0 d l f H).
  - eapply Forall_impl; [|apply (runs_bounded f 0 None I)]. cbn. intros se [H1 H2].
    apply copy_range_pick; lia.
Qed.

(* ------------------------------------------------------------------ the mask *)
Lemma sel_mk_row v b : sel (mk_row v b) = v && b.
Proof. destruct v, b; reflexivity. Qed.

Lemma filter_spec_bfilter {R} (xs : list R) (m : list (option bool)) :
  filter_spec xs m = bfilter xs (map sel m).
Proof. revert m; induction xs as [|x xs IH]; intros [|b m]; cbn; auto. destruct (sel b); now rewrite IH. Qed.

Lemma map_sel_logical (m : pcol bool) : wf_col m -> map sel (logical_mask m) = prep_mask m.
Proof.
  destruct m as [v [n|]]; unfold wf_col, logical_mask, logical, prep_mask, has_nulls; cbn; intros H.
  - destruct (all_true n) eqn:E.
    + rewrite logical_all_true by (try lia; exact E). rewrite map_map. cbn. clear.
      induction v as [|[] v IH]; cbn; f_equal; auto.
    + clear E. revert n H; induction v as [|a v IH]; intros [|b n] H; cbn in *; try discriminate; auto.
      f_equal; [apply sel_mk_row|]. apply IH. lia.
  - rewrite map_map. clear. induction v as [|[] v IH]; cbn; f_equal; auto.
Qed.

Lemma prep_mask_length (m : pcol bool) : wf_col m -> length (prep_mask m) = length (fst m).
Proof.
  destruct m as [v [n|]]; unfold wf_col, prep_mask, has_nulls; cbn; intros H; [|reflexivity].
  destruct (all_true n); [reflexivity|]. rewrite map2_length. lia.
Qed.

(* ------------------------------------------------------------------ filter_native, filter_nulls *)
Lemma filter_native_bfilter {T} (d : T) (l : list T) p :
  p_strategy p = SSlices \/ p_strategy p = SIndices -> length (p_filter p) <= length l ->
  filter_native d l p = bfilter l (p_filter p).
Proof.
  intros [E|E] H; unfold filter_native; rewrite E.
  - now apply (copy_runs d).
  - now apply pick_positions0.
Qed.

Lemma logical_filter_nulls {T} (v : list T) n p :
  p_strategy p = SSlices \/ p_strategy p = SIndices ->
  length n = length v -> length (p_filter p) <= length v ->
  logical (bfilter v (p_filter p), filter_nulls p (Some n)) = bfilter (logical (v, Some n)) (p_filter p).
Proof.
  intros Hs Hn Hf. unfold filter_nulls, logical; cbn [fst snd].
  assert (Hlen : length (bfilter v (p_filter p)) <= length (bfilter n (p_filter p)))
    by (rewrite !bfilter_length_count by lia; lia).
  destruct (all_true n) eqn:E.
  - cbn. rewrite (logical_all_true v n) by (try lia; exact E). now rewrite bfilter_map.
  - rewrite filter_native_bfilter by (try exact Hs; lia).
    destruct (all_true (bfilter n (p_filter p))) eqn:E2; cbn.
    + rewrite bfilter_map2. now rewrite (logical_all_true _ _ Hlen E2).
    + now rewrite bfilter_map2.
Qed.

(* ------------------------------------------------------------------ filter_array *)
Definition mk_pred (s : strategy) (m : pcol bool) : predicate := with_strategy s (build_predicate m).

Lemma filter_array_spec {T} (d : T) (s : strategy) (c : pcol T) (m : pcol bool) :
  wf_col c -> wf_col m -> length (fst m) <= length (fst c) -> strategy_ok s (prep_mask m) ->
  logical (filter_array d c (mk_pred s m)) = filter_spec (logical c) (logical_mask m).
Proof.
  intros Hc Hm Hlen Hok.
  rewrite filter_spec_bfilter, map_sel_logical by exact Hm.
  pose proof (prep_mask_length m Hm) as HL.
  set (f := prep_mask m) in *.
  unfold mk_pred, with_strategy, build_predicate, filter_array. cbn [p_strategy p_filter p_count]. fold f.
  destruct c as [v nl]. cbn [fst snd] in *. unfold wf_col in Hc; cbn in Hc.
  assert (HLl : length (logical (v, nl)) = length v) by (apply logical_length; exact Hc).
  destruct s; cbn in Hok.
  - (* SNone *) rewrite count_true_zero_bfilter by exact Hok. reflexivity.
  - (* SAll *) rewrite count_true_full_bfilter by (try exact Hok; lia).
    rewrite Hok. destruct nl as [n|]; unfold logical; cbn [fst snd option_map].
    + apply map2_firstn.
    + now rewrite firstn_map.
  - (* SSlices *)
    set (p := {| p_filter := f; p_count := count_true f; p_strategy := SSlices |}).
    assert (Hs : p_strategy p = SSlices \/ p_strategy p = SIndices) by (left; reflexivity).
    rewrite (filter_native_bfilter d v p Hs) by (cbn; lia).
    destruct nl as [n|].
    + apply (logical_filter_nulls v n p Hs); cbn; lia.
    + unfold logical; cbn. now rewrite bfilter_map.
  - (* SIndices *)
    set (p := {| p_filter := f; p_count := count_true f; p_strategy := SIndices |}).
    assert (Hs : p_strategy p = SSlices \/ p_strategy p = SIndices) by (right; reflexivity).
    rewrite (filter_native_bfilter d v p Hs) by (cbn; lia).
    destruct nl as [n|].
    + apply (logical_filter_nulls v n p Hs); cbn; lia.
    + unfold logical; cbn. now rewrite bfilter_map.
Qed.

Lemma default_strategy_ok f : strategy_ok (default_strategy (length f) (count_true f)) f.
Proof.
  unfold default_strategy.
  destruct (Nat.eqb_spec (length f) 0) as [E0|N0]; cbn [orb].
  - cbn. pose proof (count_true_le f). lia.
  - destruct (Nat.eqb_spec (count_true f) 0) as [E1|N1]; [exact E1|].
    destruct (Nat.eqb_spec (count_true f) (length f)) as [E2|N2]; [exact E2|].
    destruct (Nat.ltb (4 * length f) (5 * count_true f)); exact I.
Qed.

Lemma mk_pred_default m : mk_pred (p_strategy (build_predicate m)) m = build_predicate m.
Proof. reflexivity. Qed.

Lemma filter_M_spec {T} (d : T) (c : pcol T) (m : pcol bool) :
  wf_col c -> wf_col m -> length (fst m) <= length (fst c) ->
  logical (filter_M d c m) = filter_spec (logical c) (logical_mask m).
Proof.
  intros Hc Hm Hl. unfold filter_M. rewrite <- mk_pred_default.
  apply filter_array_spec; auto. apply default_strategy_ok.
Qed.

Lemma filter_strategy_irrelevant {T} (d : T) (s1 s2 : strategy) (c : pcol T) (m : pcol bool) :
  wf_col c -> wf_col m -> length (fst m) <= length (fst c) ->
  strategy_ok s1 (prep_mask m) -> strategy_ok s2 (prep_mask m) ->
  logical (filter_with s1 d c m) = logical (filter_with s2 d c m).
Proof.
  intros Hc Hm Hl H1 H2. unfold filter_with. fold (mk_pred s1 m). fold (mk_pred s2 m).
  now rewrite !filter_array_spec.
Qed.


(* the ranges are non-empty, increasing and separated by at least one unselected row (maximal runs) *)
Fixpoint separated (lo : nat) (rs : list (nat * nat)) : Prop :=
  match rs with
  | [] => True
  | (s, e) :: r => lo <= s /\ s < e /\ separated (S e) r
  end.

Lemma runs_separated f : forall k open,
  match open with
  | None => separated k (C19_Bits.runs_from k None f)
  | Some s => s < k -> exists e rest, C19_Bits.runs_from k (Some s) f = (s, e) :: rest /\ k <= e /\ separated (S e) rest
  end.
Proof.
  induction f as [|b f IH]; intros k open.
  - destruct open as [s|]; cbn; [|exact I]. intros H. exists k, []. repeat split; auto.
  - destruct b; cbn [C19_Bits.runs_from].
    + destruct open as [s|].
      * intros H. destruct (IH (S k) (Some s)) as (e & rest & E & He & Hs); [lia|].
        exists e, rest. repeat split; auto. lia.
      * destruct (IH (S k) (Some k)) as (e & rest & E & He & Hs); [lia|].
        rewrite E. cbn. repeat split; auto; lia.
    + destruct open as [s|].
      * intros H. exists k, (C19_Bits.runs_from (S k) None f). repeat split; auto.
        exact (IH (S k) None).
      * pose proof (IH (S k) None) as H. clear IH.
        assert (G : forall lo lo' rs, lo' <= lo -> separated lo rs -> separated lo' rs).
        { intros lo lo' [|[s e] r] Hl; cbn; auto. intros (A1 & A2 & A3). repeat split; auto; lia. }
        apply (G (S k)); [lia|exact H].
Qed.

Lemma runs_are_separated f : separated 0 (runs f).
Proof. exact (runs_separated f 0 None). Qed.
