(* C03 — dictionary garbage collection keeps every row. *)
From Coq Require Import List Arith ZArith Bool Lia.
From AV Require Import Base.ListX Model.C03_Select Proofs.C03_Filter Proofs.C03_Take.
From AV Require Model.C19_Bits.
Import ListNotations.

Lemma count_true_cons b l : count_true (b :: l) = (if b then 1 else 0) + count_true l.
Proof. unfold C19_Bits.count_true. cbn. destruct b; reflexivity. Qed.

(* rank / select: the k-th value survives at position (number of kept values before k) *)
Lemma rank_select {T} (values : list T) : forall mask k, length mask = length values ->
  nth k mask false = true ->
  nth_error (bfilter values mask) (count_true (firstn k mask)) = nth_error values k.
Proof.
  induction values as [|v values IH]; intros [|b mask] k Hl Hk; cbn in Hl; try discriminate.
  - destruct k; discriminate.
  - destruct k as [|k]; cbn in Hk.
    + subst b. reflexivity.
    + cbn [firstn bfilter]. rewrite count_true_cons. destruct b; cbn [nth_error Nat.add]; apply IH; auto; lia.
Qed.

Lemma nth_error_map_seq {X} (g : nat -> X) n k : k < n -> nth_error (map g (seq 0 n)) k = Some (g k).
Proof.
  intros H. rewrite nth_error_map. assert (E : nth_error (seq 0 n) k = Some k).
  { rewrite (nth_error_nth' (seq 0 n) 0) by (rewrite seq_length; exact H). now rewrite seq_nth. }
  now rewrite E.
Qed.

Lemma logical_map_keys (g : Z -> Z) (kv : list Z) n :
  logical (map g kv, n) = map (option_map g) (logical (kv, n)).
Proof.
  unfold logical; cbn [fst snd]. destruct n as [n|].
  - revert n; induction kv as [|k kv IH]; intros [|b n]; cbn; auto. f_equal; [now destruct b|apply IH].
  - rewrite !map_map. reflexivity.
Qed.

Definition keys_in_range (keys : pcol Z) (nvalues : nat) : Prop :=
  Forall (fun k => match k with Some i => (0 <= i < Z.of_nat nvalues)%Z | None => True end) (logical keys).

Lemma occupancy_nth keys nvalues i : In (Some i) (logical keys) -> (0 <= i < Z.of_nat nvalues)%Z ->
  nth (Z.to_nat i) (occupancy keys nvalues) false = true.
Proof.
  intros Hin Hr. unfold occupancy. rewrite nth_map_seq by lia. cbn [Nat.add].
  apply existsb_exists. exists (Some i). split; [exact Hin|]. apply Z.eqb_eq. lia.
Qed.

Lemma gc_M_spec {T} (keys : pcol Z) (values : list T) : keys_in_range keys (length values) ->
  dict_logical (fst (gc_M keys values)) (snd (gc_M keys values)) = dict_logical keys values.
Proof.
  intros Hr. unfold gc_M.
  set (mask := occupancy keys (length values)).
  destruct (count_true mask =? length values); [reflexivity|]. cbn [fst snd].
  unfold dict_logical. destruct keys as [kv n]. cbn [fst snd].
  rewrite logical_map_keys, map_map.
  apply map_ext_in. intros [i|] Hin; cbn [option_map]; [|reflexivity].
  assert (Hi : (0 <= i < Z.of_nat (length values))%Z).
  { unfold keys_in_range in Hr. rewrite Forall_forall in Hr. exact (Hr _ Hin). }
  assert (Hm : length mask = length values) by (unfold mask, occupancy; now rewrite map_length, seq_length).
  assert (Hocc : nth (Z.to_nat i) mask false = true) by (apply occupancy_nth; assumption).
  assert (Hkr : length (key_remap mask) = length values)
    by (unfold key_remap; now rewrite map_length, seq_length).
  rewrite (get_nonneg (key_remap mask)) by (unfold out_of_range; rewrite Hkr; apply orb_false_iff; split; [apply Z.ltb_ge|apply Z.leb_gt]; lia).
  unfold key_remap. rewrite nth_error_map_seq by lia. rewrite Hocc.
  rewrite (get_nonneg values) by (unfold out_of_range; apply orb_false_iff; split; [apply Z.ltb_ge|apply Z.leb_gt]; lia).
  rewrite filter_spec_bfilter, map_map. cbn [sel].
  replace (map (fun x : bool => if x then true else false) mask) with mask
    by (clear; induction mask as [|[] m IH]; cbn; f_equal; auto).
  rewrite <- (rank_select values mask (Z.to_nat i) Hm Hocc).
  assert (Hcnt : count_true (firstn (Z.to_nat i) mask) < length (bfilter values mask)).
  { apply nth_error_Some. rewrite (rank_select values mask (Z.to_nat i) Hm Hocc). apply nth_error_Some. lia. }
  rewrite get_nonneg by (unfold out_of_range; apply orb_false_iff; split; [apply Z.ltb_ge|apply Z.leb_gt]; lia).
  now rewrite Nat2Z.id.
Qed.

(* the collected dictionary has exactly as many values as were referenced *)
Lemma gc_M_values_count {T} (keys : pcol Z) (values : list T) :
  length (snd (gc_M keys values)) = count_true (occupancy keys (length values)).
Proof.
  unfold gc_M. destruct (Nat.eqb_spec (count_true (occupancy keys (length values))) (length values)) as [E|N]; cbn [snd].
  - now rewrite E.
  - rewrite filter_spec_bfilter, map_map. cbn [sel].
    replace (map (fun x : bool => if x then true else false) (occupancy keys (length values))) with (occupancy keys (length values))
      by (generalize (occupancy keys (length values)); intros m; induction m as [|[] m IH]; cbn; f_equal; auto).
    apply bfilter_length_count. unfold occupancy. now rewrite map_length, seq_length.
Qed.
